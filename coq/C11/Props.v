(* C11 — Parallel connections are indexed consecutively; indexed references hit one.  Statements only.
   Model: V.C10.Core.  The board lists connections in declaration order (C11_new_edge_appended_with_count);
   [gclass_eqb ks kd sa da] selects the connections with case-folded endpoints ks, kd and arrowheads
   (sa, da); [ghit … i] additionally index i; [gid] = endpoints + arrowheads + index = the connection's ID.
   The IR keeps its own index per connection, which after a connection null has gaps and duplicates while the
   board renumbers; theorems about indexed references are stated on the board and assume the IR indices
   consistent ([consistent]), which C11_plain_programs_are_consistent proves for every program without
   underscores and connection nulls; without it they are refuted (recorded findings). *)
From Coq Require Import List NArith Bool Arith.
Import ListNotations.
Require Import V.Lib.RunCases V.C10.Core V.C10.CoreLemmas V.C10.Proofs V.C11.Proofs.

(* every class of connections is numbered 0, 1, 2, … in declaration order — all programs *)
Theorem C11_indices_consecutive : forall p b ks kd sa da,
  run p = RBoard b ->
  map gidx (filter (gclass_eqb ks kd sa da) (gedges b))
  = seq 0 (length (filter (gclass_eqb ks kd sa da) (gedges b))).
Proof. exact indices_consecutive. Qed.

(* no two connections of a board share an ID — all programs *)
Theorem C11_edge_ids_distinct : forall p b, run p = RBoard b -> NoDup (map gid (gedges b)).
Proof. exact edge_ids_distinct. Qed.

(* a new connection is appended, numbered with the count of its class *)
Theorem C11_new_edge_appended_with_count : forall p s t sa da pv eb b b',
  s <> [] -> t <> [] -> pv <> PNull ->
  run p = RBoard b -> run (p ++ [DEdge (0, s) (0, t) sa da None pv eb]) = RBoard b' ->
  exists g, gedges b' = gedges b ++ [g] /\ gclass_eqb (fkey s) (fkey t) sa da g = true
            /\ gidx g = length (filter (gclass_eqb (fkey s) (fkey t) sa da) (gedges b)).
Proof. exact new_edge_index. Qed.

(* (s -> t)[i].k: v with an existing index changes exactly that connection *)
Theorem C11_indexed_ref_hits_one : forall p s t sa da i k v st b b',
  s <> [] -> t <> [] -> k <> KShape ->
  run_state p = Ok st -> consistent (edges st) -> run p = RBoard b ->
  run (p ++ [DEdgeAttr (0, s) (0, t) sa da i k (Some v)]) = RBoard b' ->
  gobjs b' = gobjs b /\
  Forall2 (fun g g' => if ghit (fkey s) (fkey t) sa da i g
                       then same_ends g g' /\ geattr g' k = Some v /\ forall k', k' <> k -> geattr g' k' = geattr g k'
                       else g' = g) (gedges b) (gedges b') /\
  length (filter (ghit (fkey s) (fkey t) sa da i) (gedges b)) = 1.
Proof. exact indexed_ref_hits_one. Qed.

(* a reference to an index the board does not have is the error "indexed edge does not exist" *)
Theorem C11_missing_index_is_error : forall p s t sa da i pv eb st b,
  s <> [] -> t <> [] -> pv <> PNull ->
  run_state p = Ok st -> consistent (edges st) -> run p = RBoard b ->
  existsb (ghit (fkey s) (fkey t) sa da i) (gedges b) = false ->
  run (p ++ [DEdge (0, s) (0, t) sa da (Some i) pv eb]) = RErr E_INDEX.
Proof. exact missing_index_is_error. Qed.

Theorem C11_missing_index_is_error_attr : forall p s t sa da i k v st b,
  s <> [] -> t <> [] ->
  run_state p = Ok st -> consistent (edges st) -> run p = RBoard b ->
  existsb (ghit (fkey s) (fkey t) sa da i) (gedges b) = false ->
  run (p ++ [DEdgeAttr (0, s) (0, t) sa da i k (Some v)]) = RErr E_INDEX.
Proof. exact missing_index_is_error_attr. Qed.

Theorem C11_plain_programs_are_consistent : forall p st,
  plain p = true -> run_state p = Ok st -> Forall tight_e (edges st) /\ consistent (edges st).
Proof. exact plain_inv2. Qed.

(* without consistency (finding C11-ir-index-after-delete):
   x -> y ;; x -> y ;; (x -> y)[0]: null ;; x -> y ;; (x -> y)[1]: lbl   labels both connections *)
Theorem C11_indexed_ref_hits_one_refuted :
  exists p i v b b',
    run p = RBoard b /\ run (p ++ [e_xy (Some i) (PStr v)]) = RBoard b' /\
    length (filter (fun g => negb (list_eqb N.eqb (gelabel g) v)) (gedges b)) = 2 /\
    length (filter (fun g => list_eqb N.eqb (gelabel g) v) (gedges b')) = 2.
Proof. exact hits_two_refuted. Qed.

(* … and (x -> y)[0] is reported missing although the board shows it *)
Theorem C11_existing_index_is_error_refuted :
  exists p i v b,
    run p = RBoard b /\ existsb (ghit (fkey [n_x]) (fkey [n_y]) false true i) (gedges b) = true /\
    run (p ++ [e_xy (Some i) (PStr v)]) = RErr E_INDEX.
Proof. exact existing_index_error_refuted. Qed.

(* null of a missing index is not an error (finding C11-null-of-missing-index-is-silent) *)
Theorem C11_missing_index_is_error_refuted_for_null :
  exists i b, run [e_xy (Some i) PNull] = RBoard b /\ gedges b = [].
Proof. exact missing_index_null_refuted. Qed.

Example C11_hypotheses_satisfiable :
  let p := [e_xy None PNone; e_xy None (PStr s_lbl); DObj (0, [n_a]) PNone (Some [DEdge (0, [n_b]) (0, [n_x]) false true None PNone None])] in
  plain p = true /\ exists st, run_state p = Ok st /\ consistent (edges st) /\ length (edges st) = 3.
Proof. split; [reflexivity|]. eexists. split; [vm_compute; reflexivity|]. split; [vm_compute; auto | reflexivity]. Qed.

Print Assumptions C11_indices_consecutive.
Print Assumptions C11_edge_ids_distinct.
Print Assumptions C11_new_edge_appended_with_count.
Print Assumptions C11_indexed_ref_hits_one.
Print Assumptions C11_missing_index_is_error.
Print Assumptions C11_missing_index_is_error_attr.
Print Assumptions C11_plain_programs_are_consistent.
Print Assumptions C11_indexed_ref_hits_one_refuted.
Print Assumptions C11_existing_index_is_error_refuted.
Print Assumptions C11_missing_index_is_error_refuted_for_null.
