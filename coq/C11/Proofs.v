(* C11 — proofs (model and shared lemmas: V.C10.Core, V.C10.CoreLemmas, V.C10.Proofs). *)
From Coq Require Import List NArith Bool Arith Lia.
Import ListNotations.
Require Import V.Lib.RunCases V.C10.Core V.C10.CoreLemmas V.C10.Proofs.

(* ================================================================ numbering *)

Lemma eclass_same_class ks kd sa da e x :
  eclass_eqb ks kd sa da e = true -> same_class e x = eclass_eqb ks kd sa da x.
Proof.
  unfold same_class, eclass_eqb. intro H.
  repeat (apply andb_true_iff in H as [H ?]). apply path_eqb_eq in H. apply path_eqb_eq in H2.
  apply Bool.eqb_prop in H1. apply Bool.eqb_prop in H0. rewrite H, H2, H1, H0. reflexivity.
Qed.

Lemma filter_ext_in' {A} (f g : A -> bool) l : (forall x, In x l -> f x = g x) -> filter f l = filter g l.
Proof.
  induction l as [|x l IH]; simpl; intro H; [reflexivity|].
  rewrite (H x (or_introl eq_refl)). rewrite IH by (intros; apply H; right; assumption). reflexivity.
Qed.

Lemma number_class_indices ks kd sa da seen es :
  map gidx (filter (gclass_eqb ks kd sa da) (number seen es))
  = seq (length (filter (eclass_eqb ks kd sa da) seen)) (length (filter (eclass_eqb ks kd sa da) es)).
Proof.
  revert seen; induction es as [|e es IH]; intro seen; simpl; [reflexivity|].
  rewrite gclass_gedge_of. specialize (IH (seen ++ [e])). rewrite filter_app, app_length in IH. simpl in IH.
  destruct (eclass_eqb ks kd sa da e) eqn:C; simpl.
  - rewrite IH. simpl. rewrite Nat.add_1_r. f_equal.
    f_equal. apply filter_ext_in'. intros x _. apply eclass_same_class. exact C.
  - rewrite IH. simpl. rewrite Nat.add_0_r. reflexivity.
Qed.

Theorem indices_consecutive p b ks kd sa da :
  run p = RBoard b ->
  map gidx (filter (gclass_eqb ks kd sa da) (gedges b))
  = seq 0 (length (filter (gclass_eqb ks kd sa da) (gedges b))).
Proof.
  intro H. apply run_board in H as [st [_ ->]]. unfold to_board; cbn [gedges].
  rewrite number_class_indices. simpl.
  rewrite (number_filter (eclass_eqb ks kd sa da) (gclass_eqb ks kd sa da)); [|reflexivity|apply eclass_closed].
  rewrite number_length. reflexivity.
Qed.

(* IDs: class + index *)
Definition gid (g : gedge) : path * path * bool * bool * nat := (fkey (gsrc g), fkey (gdst g), gsa g, gda g, gidx g).

Lemma number_idx_lower e seen es g :
  In g (number seen es) -> gclass_of e g = true -> length (filter (same_class e) seen) <= gidx g.
Proof.
  revert seen; induction es as [|x es IH]; intros seen Hin Hc; simpl in Hin; [contradiction|].
  destruct Hin as [<-|Hin].
  - cbn [gidx gedge_of]. unfold gclass_of in Hc. rewrite gclass_gedge_of in Hc.
    rewrite (filter_ext_in' (same_class x) (same_class e)); [lia|].
    intros y _. rewrite (eclass_same_class _ _ _ _ x y Hc). reflexivity.
  - specialize (IH (seen ++ [x]) Hin Hc). rewrite filter_app, app_length in IH. lia.
Qed.

Lemma number_ids_distinct seen es : NoDup (map gid (number seen es)).
Proof.
  revert seen; induction es as [|e es IH]; intro seen; simpl; [constructor|].
  constructor; [|apply IH].
  intro Hin. apply in_map_iff in Hin as [g [Eg Hg]].
  assert (gclass_of e g = true) as Hc.
  { unfold gid in Eg. cbn [gsrc gdst gsa gda gidx gedge_of] in Eg. inversion Eg as [[E1 E2 E3 E4 E5]].
    unfold gclass_of, gclass_eqb. rewrite E1, E2, E3, E4, !path_eqb_refl, !Bool.eqb_reflx. reflexivity. }
  pose proof (number_idx_lower e (seen ++ [e]) es g Hg Hc) as L.
  rewrite filter_app, app_length in L. simpl in L.
  assert (same_class e e = true) as Hee.
  { unfold same_class, eclass_eqb. rewrite !path_eqb_refl, !Bool.eqb_reflx. reflexivity. }
  rewrite Hee in L. simpl in L.
  unfold gid in Eg. cbn [gidx gedge_of] in Eg. inversion Eg. lia.
Qed.

Theorem edge_ids_distinct p b : run p = RBoard b -> NoDup (map gid (gedges b)).
Proof. intro H. apply run_board in H as [st [_ ->]]. apply number_ids_distinct. Qed.

(* ================================================================ a new connection *)

Lemma exec_edge_new_top s t sa da pv eb st st' :
  s <> [] -> t <> [] -> pv <> PNull ->
  exec [] [] (DEdge (0, s) (0, t) sa da None pv eb) st = Ok st' ->
  exists e, edges st' = edges st ++ [e] /\ eclass_eqb (fkey s) (fkey t) sa da e = true.
Proof.
  intros Hs Ht Hpv Hex. simpl in Hex.
  assert (exec_edge_new [] (0, s) (0, t) sa da pv eb st = Ok st') as Hn by (destruct pv; [exact Hex | contradiction | exact Hex]).
  apply exec_edge_new_inv in Hn as [Bs [Bd [os1 [Ds [os2 [Dd [B1 [B2 [_ [_ [E1 [E2 ->]]]]]]]]]]]].
  cbn [fst snd] in *. rewrite base_of_top in B1, B2. inversion B1; inversion B2; subst Bs Bd.
  pose proof (ensure_top_key [] s (objs st)) as K1. rewrite E1 in K1. cbn [snd] in K1.
  pose proof (ensure_top_key [] t os1) as K2. rewrite E2 in K2. cbn [snd] in K2.
  eexists. split; [reflexivity|]. unfold eclass_eqb. cbn [esrc edst esa eda].
  rewrite K1, K2, !path_eqb_refl, !Bool.eqb_reflx. reflexivity.
Qed.

Theorem new_edge_index p s t sa da pv eb b b' :
  s <> [] -> t <> [] -> pv <> PNull ->
  run p = RBoard b -> run (p ++ [DEdge (0, s) (0, t) sa da None pv eb]) = RBoard b' ->
  exists g, gedges b' = gedges b ++ [g] /\ gclass_eqb (fkey s) (fkey t) sa da g = true
            /\ gidx g = length (filter (gclass_eqb (fkey s) (fkey t) sa da) (gedges b)).
Proof.
  intros Hs Ht Hpv Hb Hb'. apply run_board in Hb as [st [Hp ->]]. apply run_board in Hb' as [st' [Hp' ->]].
  rewrite run_state_snoc, Hp in Hp'.
  destruct (exec_edge_new_top s t sa da pv eb st st' Hs Ht Hpv Hp') as [e [Ee Ce]].
  unfold to_board; cbn [gedges]. rewrite Ee, number_app. simpl.
  eexists. split; [reflexivity|]. split; [rewrite gclass_gedge_of; exact Ce|].
  cbn [gidx gedge_of].
  rewrite (number_filter (eclass_eqb (fkey s) (fkey t) sa da) (gclass_eqb (fkey s) (fkey t) sa da)); [|reflexivity|apply eclass_closed].
  rewrite number_length. simpl. f_equal. apply filter_ext_in'. intros x _. apply eclass_same_class. exact Ce.
Qed.

(* ================================================================ indexed references *)

Lemma exec_ref_top_attr s t sa da i k v st :
  exec [] [] (DEdgeAttr (0, s) (0, t) sa da i k (Some v)) st
  = exec_edge_ref [] (0, s) (0, t) sa da i PNone (Some [(k, Some v)]) st.
Proof. reflexivity. Qed.

Lemma exec_ref_top_edge s t sa da i pv eb st :
  pv <> PNull ->
  exec [] [] (DEdge (0, s) (0, t) sa da (Some i) pv eb) st = exec_edge_ref [] (0, s) (0, t) sa da i pv eb st.
Proof. intro H. destruct pv; [reflexivity | contradiction | reflexivity]. Qed.

Lemma exec_edge_ref_top s t sa da i pv eb st :
  s <> [] -> t <> [] ->
  exec_edge_ref [] (0, s) (0, t) sa da i pv eb st =
  if existsb (ref_hit (fkey s) (fkey t) sa da i) (edges st)
  then Ok (mkState (objs st) (map (fun e => if ref_hit (fkey s) (fkey t) sa da i e then eupdate [] 0 0 pv eb e else e) (edges st)))
  else Err E_INDEX.
Proof. intros Hs Ht. destruct s; [contradiction|]. destruct t; [contradiction|]. reflexivity. Qed.

Definition ghit (ks kd : path) (sa da : bool) (i : nat) (g : gedge) : bool :=
  gclass_eqb ks kd sa da g && Nat.eqb (gidx g) i.

Lemma ghit_gid ks kd sa da i g : ghit ks kd sa da i g = true -> gid g = (ks, kd, sa, da, i).
Proof.
  unfold ghit, gclass_eqb, gid. intro H.
  apply andb_true_iff in H as [H H5]. apply andb_true_iff in H as [H H4]. apply andb_true_iff in H as [H H3].
  apply andb_true_iff in H as [H1 H2].
  apply path_eqb_eq in H1, H2. apply Bool.eqb_prop in H3, H4. apply Nat.eqb_eq in H5. congruence.
Qed.

Theorem missing_index_is_error p s t sa da i pv eb st b :
  s <> [] -> t <> [] -> pv <> PNull ->
  run_state p = Ok st -> consistent (edges st) -> run p = RBoard b ->
  existsb (ghit (fkey s) (fkey t) sa da i) (gedges b) = false ->
  run (p ++ [DEdge (0, s) (0, t) sa da (Some i) pv eb]) = RErr E_INDEX.
Proof.
  intros Hs Ht Hpv Hp Hc Hb Hex. apply run_board in Hb as [st0 [Hp0 ->]]. rewrite Hp in Hp0; inversion Hp0; subst st0.
  unfold to_board in Hex; cbn [gedges] in Hex. unfold ghit in Hex. rewrite <- hit_graph in Hex by exact Hc.
  unfold run. rewrite run_state_snoc, Hp, exec_ref_top_edge, exec_edge_ref_top, Hex by assumption. reflexivity.
Qed.

Theorem missing_index_is_error_attr p s t sa da i k v st b :
  s <> [] -> t <> [] ->
  run_state p = Ok st -> consistent (edges st) -> run p = RBoard b ->
  existsb (ghit (fkey s) (fkey t) sa da i) (gedges b) = false ->
  run (p ++ [DEdgeAttr (0, s) (0, t) sa da i k (Some v)]) = RErr E_INDEX.
Proof.
  intros Hs Ht Hp Hc Hb Hex. apply run_board in Hb as [st0 [Hp0 ->]]. rewrite Hp in Hp0; inversion Hp0; subst st0.
  unfold to_board in Hex; cbn [gedges] in Hex. unfold ghit in Hex. rewrite <- hit_graph in Hex by exact Hc.
  unfold run. rewrite run_state_snoc, Hp, exec_ref_top_attr, exec_edge_ref_top, Hex by assumption. reflexivity.
Qed.

Lemma Forall2_map_same {A B} (R : B -> B -> Prop) (f1 f2 : A -> B) l :
  (forall x, In x l -> R (f1 x) (f2 x)) -> Forall2 R (map f1 l) (map f2 l).
Proof.
  induction l as [|x l IH]; simpl; intro H; constructor; [apply H; left; reflexivity|].
  apply IH. intros; apply H; right; assumption.
Qed.

Lemma geattr_set_same k v p0 a : k <> KShape -> geattr (gedge_of p0 (mkEdge [] [] false false 0 None (aupd k (Some v) a) 0 0 [])) k = Some v.
Proof.
  intro N. destruct k; try contradiction; unfold geattr, gedge_of; cbn [gelabel gestyle eattrs eprim]; unfold label_of;
    try (rewrite aget_style_of by (simpl; tauto)); rewrite aget_aupd_same; reflexivity.
Qed.

Definition same_ends (g g' : gedge) : Prop :=
  gsrc g' = gsrc g /\ gdst g' = gdst g /\ gsa g' = gsa g /\ gda g' = gda g /\ gidx g' = gidx g.

(* an indexed attribute assignment, on a state whose IR indices are consistent: the objects are
   unchanged, and position by position the connection is either the one with that class and index — then
   it keeps endpoints, arrowheads and index, gets the value and keeps every other attribute — or identical *)
Theorem indexed_ref_hits_one p s t sa da i k v st b b' :
  s <> [] -> t <> [] -> k <> KShape ->
  run_state p = Ok st -> consistent (edges st) -> run p = RBoard b ->
  run (p ++ [DEdgeAttr (0, s) (0, t) sa da i k (Some v)]) = RBoard b' ->
  gobjs b' = gobjs b /\
  Forall2 (fun g g' => if ghit (fkey s) (fkey t) sa da i g
                       then same_ends g g' /\ geattr g' k = Some v /\ forall k', k' <> k -> geattr g' k' = geattr g k'
                       else g' = g) (gedges b) (gedges b') /\
  length (filter (ghit (fkey s) (fkey t) sa da i) (gedges b)) = 1.
Proof.
  intros Hs Ht Hk Hp Hc Hb Hb'.
  pose proof (edge_ids_distinct p b Hb) as Hnd.
  apply run_board in Hb as [st0 [Hp0 ->]]. rewrite Hp in Hp0; inversion Hp0; subst st0; clear Hp0.
  apply run_board in Hb' as [st' [Hp' ->]].
  rewrite run_state_snoc, Hp, exec_ref_top_attr, exec_edge_ref_top in Hp' by assumption.
  destruct (existsb (ref_hit (fkey s) (fkey t) sa da i) (edges st)) eqn:Hex; [|discriminate].
  inversion Hp'; subst; clear Hp'. unfold to_board in *; cbn [gobjs gedges objs edges] in *.
  set (f := fun e => if ref_hit (fkey s) (fkey t) sa da i e then eupdate [] 0 0 PNone (Some [(k, Some v)]) e else e) in *.
  assert (forall e, esrc (f e) = esrc e /\ edst (f e) = edst e /\ esa (f e) = esa e /\ eda (f e) = eda e /\ eidx (f e) = eidx e) as Hf.
  { intro e. unfold f. destruct (ref_hit _ _ _ _ _ e); unfold eupdate; cbn; auto. }
  assert (consistent (map f (edges st))) as Hc' by (apply (cons_from_map f [] (edges st) Hf Hc)).
  rewrite (number_consistent [] _ Hc) in *. rewrite (number_consistent [] _ Hc'). rewrite map_map.
  split; [reflexivity|]. split.
  - apply Forall2_map_same. intros e He.
    assert (ghit (fkey s) (fkey t) sa da i (gedge_of (eidx e) e) = ref_hit (fkey s) (fkey t) sa da i e) as Eh by reflexivity.
    rewrite Eh. unfold f. destruct (ref_hit (fkey s) (fkey t) sa da i e) eqn:Hh; [|reflexivity].
    split; [unfold same_ends, eupdate; cbn; auto|]. split.
    + unfold eupdate, gedge_of, geattr. cbn [gelabel gestyle eattrs eprim eapply_body fold_left fst snd].
      destruct k; try contradiction; unfold label_of;
        try (rewrite aget_style_of by (simpl; tauto)); rewrite aget_aupd_same; reflexivity.
    + intros k' Nk. unfold eupdate, gedge_of, geattr. cbn [gelabel gestyle eattrs eprim eapply_body fold_left fst snd].
      destruct k'; try reflexivity; unfold label_of;
        try (rewrite !aget_style_of by (simpl; tauto)); rewrite aget_aupd_other by exact Nk; reflexivity.
  - (* exactly one: it exists, and IDs are distinct *)
    assert (existsb (ghit (fkey s) (fkey t) sa da i) (map (fun e => gedge_of (eidx e) e) (edges st)) = true) as Hg.
    { rewrite <- Hex. clear. induction (edges st) as [|e es IH]; simpl; [reflexivity|]. rewrite IH. reflexivity. }
    set (gs := map (fun e => gedge_of (eidx e) e) (edges st)) in *.
    assert (forall g g', In g (filter (ghit (fkey s) (fkey t) sa da i) gs) ->
                         In g' (filter (ghit (fkey s) (fkey t) sa da i) gs) -> gid g = gid g') as Hsame.
    { intros g g' Hg1 Hg2. apply filter_In in Hg1 as [_ H1]. apply filter_In in Hg2 as [_ H2].
      rewrite (ghit_gid _ _ _ _ _ _ H1), (ghit_gid _ _ _ _ _ _ H2). reflexivity. }
    assert (NoDup (map gid (filter (ghit (fkey s) (fkey t) sa da i) gs))) as Hnd'.
    { apply NoDup_map_filter. exact Hnd. }
    destruct (filter (ghit (fkey s) (fkey t) sa da i) gs) as [|g1 [|g2 r]] eqn:Ef.
    + exfalso. apply existsb_exists in Hg as [g [Hin Hh]].
      assert (In g (filter (ghit (fkey s) (fkey t) sa da i) gs)) as X by (apply filter_In; auto). rewrite Ef in X. exact X.
    + reflexivity.
    + exfalso. simpl in Hnd'. inversion Hnd' as [|? ? Hn _]. apply Hn. left.
      symmetry. apply Hsame; [left; reflexivity | right; left; reflexivity].
Qed.

(* ================================================================ refutations (witnesses replayed on d2) *)

Definition e_xy (idx : option nat) (pv : prim) : decl := DEdge (0, [n_x]) (0, [n_y]) false true idx pv None.
Definition p_gap : program := [e_xy None PNone; e_xy None PNone; e_xy (Some 0) PNull; e_xy None PNone].

(* x -> y ;; x -> y ;; (x -> y)[0]: null ;; x -> y   then   (x -> y)[1]: lbl   labels BOTH connections *)
Lemma hits_two_refuted :
  exists p i v b b',
    run p = RBoard b /\ run (p ++ [e_xy (Some i) (PStr v)]) = RBoard b' /\
    length (filter (fun g => negb (list_eqb N.eqb (gelabel g) v)) (gedges b)) = 2 /\
    length (filter (fun g => list_eqb N.eqb (gelabel g) v) (gedges b')) = 2.
Proof.
  exists p_gap, 1, s_lbl. eexists. eexists.
  split; [vm_compute; reflexivity|]. split; [vm_compute; reflexivity|]. split; reflexivity.
Qed.

(* ... and (x -> y)[0]: lbl is an error although the board shows (x -> y)[0] *)
Lemma existing_index_error_refuted :
  exists p i v b,
    run p = RBoard b /\ existsb (ghit (fkey [n_x]) (fkey [n_y]) false true i) (gedges b) = true /\
    run (p ++ [e_xy (Some i) (PStr v)]) = RErr E_INDEX.
Proof.
  exists p_gap, 0, s_lbl. eexists. split; [vm_compute; reflexivity|]. split; reflexivity.
Qed.

(* (x -> y)[5]: null on an empty board is accepted silently *)
Lemma missing_index_null_refuted :
  exists i b, run [e_xy (Some i) PNull] = RBoard b /\ gedges b = [].
Proof. exists 5. eexists. split; [vm_compute; reflexivity | reflexivity]. Qed.
