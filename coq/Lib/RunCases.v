(* Evaluation of a property's [check_case] over a list of cases written by the harness.
   A case yields a list of failure codes:
     1        the model's output differs from the implementation's observable (correspondence)
     2 .. 9   an oracle hypothesis of the theorem did not hold for what the real component returned
     >= 10    a clause of the property predicate is false on the implementation's output          *)
From Coq Require Import List NArith.
Import ListNotations.

Definition nonempty {A} (l : list A) : bool := match l with [] => false | _ => true end.

Definition run_cases {A} (chk : A -> list N) (base : nat) (cs : list A) : list (nat * list N) :=
  filter (fun p => nonempty (snd p)) (combine (seq base (length cs)) (map chk cs)).

Definition flag (b : bool) (code : N) : list N := if b then [] else [code].

Fixpoint list_eqb {A} (eqb : A -> A -> bool) (l1 l2 : list A) : bool :=
  match l1, l2 with
  | [], [] => true
  | x :: xs, y :: ys => andb (eqb x y) (list_eqb eqb xs ys)
  | _, _ => false
  end.

Definition bytes_eqb := list_eqb N.eqb.

Definition opt_eqb {A} (eqb : A -> A -> bool) (o1 o2 : option A) : bool :=
  match o1, o2 with
  | None, None => true
  | Some x, Some y => eqb x y
  | _, _ => false
  end.

Lemma list_eqb_eq {A} (eqb : A -> A -> bool) :
  (forall x y, eqb x y = true <-> x = y) ->
  forall l1 l2, list_eqb eqb l1 l2 = true <-> l1 = l2.
Proof.
  intros H l1; induction l1 as [|x xs IH]; intros [|y ys]; simpl; split; intro E;
    try reflexivity; try discriminate.
  - apply andb_prop in E as [E1 E2]. apply H in E1. apply IH in E2. congruence.
  - inversion E; subst. apply andb_true_intro; split; [apply H; reflexivity | apply IH; reflexivity].
Qed.

Lemma bytes_eqb_eq l1 l2 : bytes_eqb l1 l2 = true <-> l1 = l2.
Proof. apply list_eqb_eq. intros; apply N.eqb_eq. Qed.
