(* C16 — attribute and style value validation.
   Executable model of the value parsers d2 relies on (strconv.Atoi, strconv.ParseBool,
   strconv.ParseFloat, strings.ToLower + table lookup, strings.EqualFold against ASCII words,
   lib/color.ValidColor) and of the acceptance decision of
     d2graph.Style.Apply, d2compiler.compileReserved (+ validateKey for shapes) and
     d2ir.validateConfigs.
   A Go string is the list of its BYTES (N values < 256).  Definitions only. *)
From Coq Require Import List NArith ZArith Bool.
Import ListNotations.
Require Import V.Lib.RunCases.
Require V.Gen.C16Colors.
Open Scope N_scope.

(* ---------------------------------------------------------------- characters *)
Definition is_digit (c : N) : bool := (48 <=? c) && (c <=? 57).
Definition dval (c : N) : N := c - 48.
Definition lowerA (c : N) : N := if (65 <=? c) && (c <=? 90) then c + 32 else c.   (* ASCII A-Z only *)
Definition is_hexletter (c : N) : bool := (97 <=? lowerA c) && (lowerA c <=? 102).
Definition hexval (c : N) : N := lowerA c - 97 + 10.
Definition is_hex (c : N) : bool := is_digit c || is_hexletter c.

Definition c_plus : N := 43.  Definition c_minus : N := 45.  Definition c_dot : N := 46.
Definition c_us : N := 95.    Definition c_zero : N := 48.

(* ---------------------------------------------------------------- strconv.Atoi (64-bit int) *)
(* Horner accumulation, as in the fast path `n = n*10 + int(ch)` and in ParseUint. *)
Definition horner (ds : list N) : N := fold_left (fun a d => 10 * a + dval d) ds 0.

Definition int_min : Z := (- 2 ^ 63)%Z.
Definition int_max : Z := (2 ^ 63 - 1)%Z.

(* optional sign: (negative?, rest) *)
Definition split_sign (s : list N) : bool * list N :=
  match s with
  | c :: r => if c =? c_plus then (false, r) else if c =? c_minus then (true, r) else (false, s)
  | [] => (false, s)
  end.

(* Atoi: optional sign, at least one digit, only ASCII digits (base 10: no underscores, no prefix),
   value must fit int64 (ParseInt range error otherwise). *)
Definition atoi (s : list N) : option Z :=
  let (neg, ds) := split_sign s in
  match ds with
  | [] => None
  | _ =>
      if forallb is_digit ds then
        let n := Z.of_N (horner ds) in
        let z := if neg then (- n)%Z else n in
        if ((int_min <=? z) && (z <=? int_max))%Z then Some z else None
      else None
  end.

(* ---------------------------------------------------------------- strconv.ParseBool *)
Definition bool_true_spellings : list (list N) :=
  [[49]; [116]; [84]; [116;114;117;101]; [84;82;85;69]; [84;114;117;101]].
Definition bool_false_spellings : list (list N) :=
  [[48]; [102]; [70]; [102;97;108;115;101]; [70;65;76;83;69]; [70;97;108;115;101]].

Definition mem_word (w : list N) (tbl : list (list N)) : bool := existsb (bytes_eqb w) tbl.

Definition parse_bool (s : list N) : option bool :=
  if mem_word s bool_true_spellings then Some true
  else if mem_word s bool_false_spellings then Some false
  else None.

(* ---------------------------------------------------------------- strconv.ParseFloat(s, 64) *)
(* Result: NaN, +-Inf, or the EXACT number the literal denotes:
   FNum hex neg m e  denotes  (-1)^neg * m * B^e  with B = 2 for hex floats and 10 otherwise.
   Go then rounds correctly to float64 (atof64exact / Eisel-Lemire / decimal fallback, atofHex);
   the comparisons d2 makes on the rounded value are expressed below on the exact one. *)
Inductive fval := FNaN | FInf (neg : bool) | FNum (hex neg : bool) (m : N) (e : Z).

Definition str_inf : list N := [105;110;102].
Definition str_infinity : list N := [105;110;102;105;110;105;116;121].
Definition str_nan : list N := [110;97;110].

(* special(): the whole string must be consumed (ParseFloat checks n == len(s)).  A sign is only
   allowed in front of inf/infinity ("+nan" falls through and is then a syntax error). *)
Definition special (s : list N) : option fval :=
  match s with
  | [] => None
  | c :: r =>
      if (c =? c_plus) || (c =? c_minus) then
        let l := map lowerA r in
        if bytes_eqb l str_inf || bytes_eqb l str_infinity then Some (FInf (c =? c_minus)) else None
      else
        let l := map lowerA s in
        if bytes_eqb l str_inf || bytes_eqb l str_infinity then Some (FInf false)
        else if bytes_eqb l str_nan then Some FNaN else None
  end.

(* underscoreOK: saw = 0 '^' | 1 digit-or-prefix | 2 '_' | 3 other *)
Fixpoint uok_loop (hex : bool) (s : list N) (saw : N) : bool :=
  match s with
  | [] => negb (saw =? 2)
  | c :: r =>
      if is_digit c || (hex && is_hexletter c) then uok_loop hex r 1
      else if c =? c_us then (if saw =? 1 then uok_loop hex r 2 else false)
      else if saw =? 2 then false
      else uok_loop hex r 3
  end.

Definition underscore_ok (s : list N) : bool :=
  let t := snd (split_sign s) in
  match t with
  | z :: x :: r =>
      if (z =? c_zero) && ((lowerA x =? 98) || (lowerA x =? 111) || (lowerA x =? 120))
      then uok_loop (lowerA x =? 120) r 1
      else uok_loop false t 0
  | _ => uok_loop false t 0
  end.

(* mantissa loop of readFloat: m = all digits read as one integer in the base, fr = number of
   digits after the point.  Returns the unread rest. *)
Fixpoint scan_mant (hex : bool) (s : list N) (m fr : N) (sawdot sawdig : bool)
  : N * N * bool * list N :=
  match s with
  | [] => (m, fr, sawdig, [])
  | c :: r =>
      if c =? c_us then scan_mant hex r m fr sawdot sawdig
      else if c =? c_dot then
        (if sawdot then (m, fr, sawdig, s) else scan_mant hex r m fr true sawdig)
      else if is_digit c then
        scan_mant hex r ((if hex then 16 else 10) * m + dval c) (if sawdot then fr + 1 else fr) sawdot true
      else if hex && is_hexletter c then
        scan_mant hex r (16 * m + hexval c) (if sawdot then fr + 1 else fr) sawdot true
      else (m, fr, sawdig, s)
  end.

(* exponent digits (and underscores) up to the end of the string, with Go's cap `if e < 10000` *)
Fixpoint scan_exp (s : list N) (e : N) : option N :=
  match s with
  | [] => Some e
  | c :: r =>
      if c =? c_us then scan_exp r e
      else if is_digit c then scan_exp r (if e <? 10000 then 10 * e + dval c else e)
      else None
  end.

Definition read_exp (s : list N) : option Z :=
  match s with
  | [] => None
  | _ =>
      let (neg, t) := split_sign s in
      match t with
      | [] => None
      | d :: _ =>
          if is_digit d then
            match scan_exp t 0 with
            | Some e => Some (if neg then (- Z.of_N e)%Z else Z.of_N e)
            | None => None
            end
          else None
      end
  end.

(* hex prefix: needs "0x" and at least one more byte (i+2 < len(s)) *)
Definition hex_prefix (t : list N) : option (list N) :=
  match t with
  | z :: x :: ((_ :: _) as r) => if (z =? c_zero) && (lowerA x =? 120) then Some r else None
  | _ => None
  end.

Definition read_float (s : list N) : option fval :=
  match s with
  | [] => None
  | _ =>
      let (neg, t) := split_sign s in
      let hex := match hex_prefix t with Some _ => true | None => false end in
      let u := match hex_prefix t with Some r => r | None => t end in
      match scan_mant hex u 0 0 false false with
      | (m, fr, sawdig, rest) =>
          if negb sawdig then None
          else
            match rest with
            | [] =>
                if hex then None   (* hex floats must have a p exponent *)
                else if underscore_ok s then Some (FNum false neg m (- Z.of_N fr)%Z) else None
            | c :: r =>
                if lowerA c =? (if hex then 112 else 101) then
                  match read_exp r with
                  | Some e =>
                      if underscore_ok s
                      then Some (FNum hex neg m (e - Z.of_N (if hex then 4 * fr else fr))%Z)
                      else None
                  | None => None
                  end
                else None
            end
      end
  end.

Definition parse_float (s : list N) : option fval :=
  match special s with
  | Some f => Some f
  | None => read_float s
  end.

(* b^e by repeated squaring (Z.pow is linear in e; the numbers here reach 10^400) *)
Fixpoint pow_pos_fast (b : Z) (p : positive) : Z :=
  match p with
  | xH => b
  | xO q => let r := pow_pos_fast b q in (r * r)%Z
  | xI q => let r := pow_pos_fast b q in (b * (r * r))%Z
  end.
Definition zpow (b e : Z) : Z :=
  match e with Z0 => 1%Z | Zpos p => pow_pos_fast b p | Zneg _ => 0%Z end.

(* m * B^e <= a / 2^k, exact (B = 2 for hex floats, 10 otherwise) *)
Definition num_le_exact (hex : bool) (m : N) (e : Z) (a k : Z) : bool :=
  let B := (if hex then 2 else 10)%Z in
  if (0 <=? e)%Z then (Z.of_N m * zpow B e * zpow 2 k <=? a)%Z
  else (Z.of_N m * zpow 2 k <=? a * zpow B (- e))%Z.

(* The same comparison with three shortcuts that avoid astronomically large powers; valid for the
   bounds used below (1 <= a <= 2^(k+1), 0 <= k <= 1075 — proved in Proofs.num_le_exact_eq):
   zero mantissa; exponent >= 4 (the number is >= 16); m < 2^size(m) and the exponent so negative
   that the number is below 2^-1075 (10^-400 < 2^-1075). *)
Definition num_le (hex : bool) (m : N) (e : Z) (a k : Z) : bool :=
  if m =? 0 then true
  else if (4 <=? e)%Z then false
  else if (e + Z.of_N (N.size m) <=? (if hex then -1075 else -400))%Z then true
  else num_le_exact hex m e a k.

(* `f > 1` on the correctly rounded float64 (round-to-nearest-even: everything up to and including
   1 + 2^-53 rounds to 1.0); an overflow (ParseFloat range error) is also > 1. *)
Definition flt_gt1 (f : fval) : bool :=
  match f with
  | FNaN => false
  | FInf neg => negb neg
  | FNum hex neg m e => negb neg && negb (num_le hex m e (2 ^ 53 + 1) 53)
  end.

(* `f < 0` on the rounded value: magnitudes up to and including 2^-1075 round to (-)0. *)
Definition flt_lt0 (f : fval) : bool :=
  match f with
  | FNaN => false
  | FInf neg => neg
  | FNum hex neg m e => neg && negb (num_le hex m e 1 1075)
  end.

(* `f >= 0` and `f <= 1`: false for NaN *)
Definition flt_ge0 (f : fval) : bool := match f with FNaN => false | _ => negb (flt_lt0 f) end.
Definition flt_le1 (f : fval) : bool := match f with FNaN => false | _ => negb (flt_gt1 f) end.

(* ---------------------------------------------------------------- strings.ToLower, EqualFold *)
(* strings.ToLower as observed through comparisons with ASCII words.  Result: list of runes;
   three non-ASCII code points matter (exhaustive sweep of Go's unicode tables in the harness):
     U+212A KELVIN SIGN -> 'k',  U+0130 -> 'i',  U+017F LONG S stays (it is lower case) but
     strings.EqualFold identifies it with 's'.
   Every other non-ASCII byte is mapped to 65533: it can never be part of a match. *)
Definition lower1 (c : N) : N := if c <? 128 then lowerA c else 65533.
Definition long_s : N := 383.

Fixpoint go_lower (s : list N) : list N :=
  match s with
  | [] => []
  | c :: r =>
      match r with
      | c2 :: r2 =>
          if (c =? 196) && (c2 =? 176) then 105 :: go_lower r2
          else if (c =? 197) && (c2 =? 191) then long_s :: go_lower r2
          else
            match r2 with
            | c3 :: r3 =>
                if (c =? 226) && (c2 =? 132) && (c3 =? 170) then 107 :: go_lower r3
                else lower1 c :: go_lower r
            | [] => lower1 c :: go_lower r
            end
      | [] => [lower1 c]
      end
  end.

(* the bytes of strings.ToLower(v) when it is made of ASCII and long s only *)
Definition encode_lower (l : list N) : list N :=
  flat_map (fun r => if r =? long_s then [197; 191] else [r]) l.

(* EqualFold(ToLower v, w) for an ASCII lower-case word w: long s folds to s *)
Definition fold_s (l : list N) : list N := map (fun r => if r =? long_s then 115 else r) l.

(* ---------------------------------------------------------------- tables *)
(* Regenerated from the linked d2 packages on every run (coq/Gen/C16Colors.v). *)
Definition named_colors := V.Gen.C16Colors.named_colors.
Definition shapes := V.Gen.C16Colors.shapes.
Definition arrowheads := V.Gen.C16Colors.arrowheads.
Definition fill_patterns := V.Gen.C16Colors.fill_patterns.
Definition text_transforms := V.Gen.C16Colors.text_transforms.
Definition fonts := V.Gen.C16Colors.fonts.
Definition theme_ids : list Z := V.Gen.C16Colors.theme_ids.
Definition label_positions := V.Gen.C16Colors.label_positions.
Definition tooltip_positions := V.Gen.C16Colors.tooltip_positions.
Definition near_constants := V.Gen.C16Colors.near_constants.
(* literal in compileReserved: dirs := []string{"up", "down", "right", "left"} *)
Definition directions : list (list N) :=
  [[117;112]; [100;111;119;110]; [114;105;103;104;116]; [108;101;102;116]].

(* ---------------------------------------------------------------- lib/color.ValidColor *)
Definition pre_linear : list N := [108;105;110;101;97;114;45;103;114;97;100;105;101;110;116;40].
Definition pre_radial : list N := [114;97;100;105;97;108;45;103;114;97;100;105;101;110;116;40].

Fixpoint strip_prefix (p s : list N) : option (list N) :=
  match p, s with
  | [], _ => Some s
  | a :: p', b :: s' => if a =? b then strip_prefix p' s' else None
  | _ :: _, [] => None
  end.

(* `.+\)$` : at least one byte that is not a newline, then the closing parenthesis at the very end *)
Definition grad_tail (t : list N) : bool :=
  match rev t with
  | c :: b => (c =? 41) && nonempty b && forallb (fun x => negb (x =? 10)) b
  | [] => false
  end.

(* GradientRegex ^(linear|radial)-gradient\((.+)\)$ *)
Definition is_gradient (v : list N) : bool :=
  match strip_prefix pre_linear v with
  | Some t => grad_tail t
  | None => match strip_prefix pre_radial v with Some t => grad_tail t | None => false end
  end.

(* ColorHexRegex ^#(([0-9a-fA-F]{2}){3}|([0-9a-fA-F]){3})$ *)
Definition hex_color (v : list N) : bool :=
  match v with
  | c :: ds => (c =? 35) && ((length ds =? 3)%nat || (length ds =? 6)%nat) && forallb is_hex ds
  | [] => false
  end.

Definition named_color (v : list N) : bool := mem_word (go_lower v) named_colors.

Section Color.
  (* oracle: lib/color.ParseGradient succeeds on v and csscolorparser.Parse accepts every stop *)
  Variable grad_ok : list N -> bool.
  Definition valid_color (v : list N) : bool :=
    if is_gradient v then grad_ok v else named_color v || hex_color v.
End Color.

(* ---------------------------------------------------------------- keywords and contexts *)
Inductive ctx := CObj | CEdge | CArrow | CConfig.

Inductive kw :=
(* style.* *)
| KOpacity | KStroke | KFill | KFillPattern | KStrokeWidth | KStrokeDash | KBorderRadius
| KShadow | K3d | KMultiple | KFont | KFontSize | KFontColor | KAnimated | KBold | KItalic
| KUnderline | KFilled | KDoubleBorder | KTextTransform
(* reserved *)
| KWidth | KHeight | KTop | KLeft | KGridRows | KGridColumns | KGridGap | KVerticalGap
| KHorizontalGap | KDirection | KShape
(* vars.d2-config *)
| KThemeID | KDarkThemeID | KPad | KSketch | KCenter
(* label.near / icon.near / tooltip.near (compilePosition) *)
| KLabelNear | KIconNear | KTooltipNear.

Definition atoi_in (v : list N) (p : Z -> bool) : bool :=
  match atoi v with Some z => p z | None => false end.

Definition is_bool (v : list N) : bool := match parse_bool v with Some _ => true | None => false end.

(* d2target.IsShape(strings.ToLower v): "" is the default shape; otherwise the lower-cased value must
   EQUAL a table entry (since 0fc4ab54b; IsShape lower-cases again, which changes nothing here). *)
Definition is_shape (v : list N) : bool :=
  match go_lower v with [] => true | l => mem_word l shapes end.
(* the pinned variant compared with strings.EqualFold, which identifies U+017F with s *)
Definition is_shape_pinned (v : list N) : bool :=
  match go_lower v with [] => true | l => mem_word (fold_s l) shapes end.
Definition is_arrowhead (v : list N) : bool := mem_word (go_lower v) arrowheads.

Section Accepts.
  Variable grad_ok : list N -> bool.

  (* Mirrors the `err != nil || !(f >= 0 && f <= 1)` / `err != nil || (f < lo || f > hi)` tests of Style.Apply and the
     `err != nil` / `v < 0` / `v <= 0` tests of compileReserved, validateConfigs. *)
  Definition accepts (c : ctx) (k : kw) (v : list N) : bool :=
    match k with
    | KOpacity =>
        match parse_float v with
        | Some f => flt_ge0 f && flt_le1 f
        | None => false
        end
    | KStroke | KFill | KFontColor => valid_color grad_ok v
    | KFillPattern => mem_word (go_lower v) fill_patterns
    | KStrokeWidth => atoi_in v (fun f => negb ((f <? 0) || (f >? 15))%Z)
    | KStrokeDash => atoi_in v (fun f => negb ((f <? 0) || (f >? 10))%Z)
    | KBorderRadius => atoi_in v (fun f => negb (f <? 0)%Z)
    | KShadow | K3d | KMultiple | KAnimated | KBold | KItalic | KUnderline | KFilled | KDoubleBorder
    | KSketch | KCenter => is_bool v
    | KFont => mem_word (go_lower v) fonts
    | KFontSize => atoi_in v (fun f => negb ((f <? 8) || (f >? 100))%Z)
    | KTextTransform => mem_word (go_lower v) text_transforms
    | KPad => atoi_in v (fun _ => true)
    | KWidth | KHeight   (* `if v < 0` added by 0fc4ab54b *)
    | KTop | KLeft | KGridGap | KVerticalGap | KHorizontalGap => atoi_in v (fun z => negb (z <? 0)%Z)
    | KGridRows | KGridColumns => atoi_in v (fun z => negb (z <=? 0)%Z)
    | KDirection => mem_word (go_lower v) directions
    | KShape =>
        match c with
        | CObj => is_shape v      (* arrowhead-only names pass compileReserved, validateKey rejects them *)
        | _ => is_shape v || is_arrowhead v
        end
    | KThemeID | KDarkThemeID =>
        atoi_in v (fun z => existsb (Z.eqb z) theme_ids)
    (* compilePosition: exact (case-sensitive) map lookup *)
    | KLabelNear | KIconNear => mem_word v label_positions
    | KTooltipNear => mem_word v tooltip_positions
    end.

  (* where the error is reported when the value is rejected:
     1 = exactly the range of the value scalar (c.errorf(scalar, ...)),
     2 = the key-value node that contains it (validateConfigs: f.LastRef().AST();
         validateKey "can only set for arrowheads": f.LastPrimaryKey()) *)
  Definition err_class (c : ctx) (k : kw) (v : list N) : N :=
    match c, k with
    | CConfig, _ => 2
    | _, KLabelNear | _, KIconNear | _, KTooltipNear => 2   (* c.errorf(f.LastPrimaryKey(), `invalid "near" field`) *)
    | CObj, KShape => if is_arrowhead v then 2 else 1
    | _, _ => 1
    end.

  (* keyword-valued attributes whose stored value is lower-cased by the compiler *)
  Definition stores_lower (k : kw) : bool :=
    match k with KShape | KDirection | KFont => true | _ => false end.

  (* attributes whose value is a keyword of the language (compared ignoring letter case) *)
  Definition keyword_valued (k : kw) : bool :=
    match k with KShape | KDirection | KFont | KFillPattern | KTextTransform => true | _ => false end.

  (* value found in the compiled graph / config when accepted *)
  Definition stored (c : ctx) (k : kw) (v : list N) : list N :=
    match k with
    | KShape =>
        match c, go_lower v with
        | CObj, [] => [114;101;99;116;97;110;103;108;101]   (* setDefaultShapes: "" -> rectangle *)
        | _, l => encode_lower l
        end
    | KDirection | KFont => encode_lower (go_lower v)
    | _ => v
    end.
End Accepts.

(* ---------------------------------------------------------------- pinned variants (before 0fc4ab54b) *)
(* width/height: only Atoi's error was tested; opacity: `f < 0 || f > 1`, which NaN passes *)
Definition size_accepts_pinned (v : list N) : bool := atoi_in v (fun _ => true).
Definition opacity_accepts_pinned (v : list N) : bool :=
  match parse_float v with
  | Some f => negb (flt_lt0 f || flt_gt1 f)
  | None => false
  end.

(* ---------------------------------------------------------------- near: CONSTANT on a root-level object *)
(* lower-case words joined by single hyphens: the shape of every near constant *)
Definition is_lc (c : N) : bool := (97 <=? c) && (c <=? 122).
Fixpoint ident_tail (s : list N) (prev_hyphen : bool) : bool :=
  match s with
  | [] => negb prev_hyphen
  | c :: r => if is_lc c then ident_tail r false
              else if (c =? 45) && negb prev_hyphen then ident_tail r true
              else false
  end.
Definition ident_word (s : list N) : bool :=
  match s with c :: r => is_lc c && ident_tail r false | [] => false end.

Section Near.
  (* oracle: d2parser.ParseKey(v) followed by d2graph.Key: the path elements, None on a parse error *)
  Variable parse_key : list N -> option (list (list N)).

  (* `x.near: V` where x is the only object of the diagram (so V can name no other object and naming
     x itself is the ancestor error): validateNear accepts iff the key is a one-element path naming a constant *)
  (* since 0fc4ab54b: isConst && len(nearPath) == 1 *)
  Definition near_accepts (v : list N) : bool :=
    match parse_key v with
    | Some [h] => mem_word h near_constants
    | _ => false
    end.
  (* the pinned variant looked at the first path element only *)
  Definition near_accepts_pinned (v : list N) : bool :=
    match parse_key v with
    | Some (h :: _) => mem_word h near_constants
    | _ => false
    end.
  Definition near_stored (v : list N) : option (list (list N)) := parse_key v.
End Near.
