(* Executable checker for C16 cases.  One case = one (context, keyword, value) for which the harness
   compiled a tiny D2 program with the real d2compiler.Compile. *)
From Coq Require Import List NArith ZArith Bool.
Import ListNotations.
Require Import V.Lib.RunCases V.C16.DocDomain.
Require Export V.C16.Model.
Open Scope N_scope.

(* ctx, keyword, the value string the compiler validated (bytes),
   isgrad   : lib/color.IsGradient(value)               (real regex, compared with the hand model)
   gradok   : isgrad && lib/color.ValidColor(value)     (oracle: ParseGradient + csscolorparser)
   accepted : Compile returned no error
   errpos   : 0 no error | 1 error range = range of the value | 2 error starts at the key-value
              node that contains the value | 3 elsewhere
   stored   : the value found in the compiled graph / config (config integers and booleans printed
              back with FormatInt / FormatBool) *)
Inductive case :=
  Case (c : ctx) (k : kw) (v : list N) (isgrad gradok accepted : bool) (errpos : N) (stored : option (list N))
  (* `x.near: V` on the only object of a diagram; parsed = path elements d2parser.ParseKey + d2graph.Key
     return for V (the oracle), stored = path elements of the compiled object's NearKey *)
| CaseNear (v : list N) (parsed : option (list (list N))) (accepted : bool) (errpos : N)
           (stored : option (list (list N))).

Definition is_config_int (k : kw) : bool := match k with KThemeID | KDarkThemeID | KPad => true | _ => false end.
Definition is_config_bool (k : kw) : bool := match k with KSketch | KCenter => true | _ => false end.

Definition opt_Z_eqb (a b : option Z) : bool :=
  match a, b with Some x, Some y => Z.eqb x y | None, None => true | _, _ => false end.
Definition opt_bool_eqb (a b : option bool) : bool :=
  match a, b with Some x, Some y => Bool.eqb x y | None, None => true | _, _ => false end.

(* model prediction of the stored value vs what was found *)
Definition stored_matches (c : ctx) (k : kw) (v : list N) (st : option (list N)) : bool :=
  match st with
  | None => false
  | Some s =>
      if is_config_int k then opt_Z_eqb (atoi v) (atoi s)
      else if is_config_bool k then opt_bool_eqb (parse_bool v) (parse_bool s)
      else bytes_eqb (stored c k v) s
  end.

(* property clause: unchanged, or equal up to letter case for keyword-valued attributes
   (config values are compared as the integers / booleans they denote) *)
Definition unchanged_up_to_case (k : kw) (v : list N) (st : option (list N)) : bool :=
  match st with
  | None => false
  | Some s =>
      if is_config_int k then opt_Z_eqb (atoi v) (atoi s)
      else if is_config_bool k then opt_bool_eqb (parse_bool v) (parse_bool s)
      else bytes_eqb v s || (keyword_valued k && bytes_eqb (go_lower v) (go_lower s))
  end.

Definition path_eqb := list_eqb bytes_eqb.

Definition check_case (x : case) : list N :=
  match x with
  | CaseNear v parsed accepted errpos st =>
      let pk := fun _ : list N => parsed in
      let m := near_accepts pk v in
      let d := doc_near_key_b parsed in
      flag (Bool.eqb m accepted) 1
      ++ flag (if accepted then errpos =? 0 else errpos =? 1) 1
      ++ flag (if accepted then opt_eqb path_eqb (near_stored pk v) st else true) 1
      (* 2: oracle hypothesis H_ident of the near theorems *)
      ++ flag (implb (ident_word v) (opt_eqb path_eqb parsed (Some [v]))) 2
      ++ flag (implb accepted d) 10
      ++ flag (implb d accepted) 11
      (* the stored key is the key the value denotes *)
      ++ flag (if accepted then opt_eqb path_eqb parsed st && nonempty (match st with Some p => p | None => [] end) else true) 12
      ++ flag (if accepted then true else (errpos =? 1) || (errpos =? 2)) 13
  | Case c k v isgrad gradok accepted errpos st =>
      let g := fun _ : list N => gradok in
      let m := accepts g c k v in
      let d := doc_b g c k v in
      (* 1: correspondence *)
      flag (Bool.eqb m accepted) 1
      ++ flag (Bool.eqb (is_gradient v) isgrad) 1
      ++ flag (if accepted then errpos =? 0 else errpos =? err_class c k v) 1
      ++ flag (if accepted then stored_matches c k v st else true) 1
      (* property clauses on the implementation's output *)
      ++ flag (implb accepted d) 10
      ++ flag (implb d accepted) 11
      ++ flag (if accepted then unchanged_up_to_case k v st else true) 12
      ++ flag (if accepted then true else (errpos =? 1) || (errpos =? 2)) 13
  end.
