(* C16 — the DOCUMENTED domain of every keyword, as declarative predicates that do not mention the
   parsers of Model.v (numerals by positional value, case-insensitive spelling as an inductive
   relation, colours by shape), plus boolean deciders [doc_b] used by Check.v.  Proofs.v shows
   decider = predicate and relates both to the model's [accepts]. *)
From Coq Require Import List NArith ZArith QArith Bool.
Import ListNotations.
Require Import V.Lib.RunCases V.C16.Model V.C16.DocTables.
Open Scope N_scope.

(* ---------------------------------------------------------------- integer literals *)
(* positional value of a big-endian digit string *)
Fixpoint pos_val (ds : list N) : N :=
  match ds with
  | [] => 0
  | d :: r => dval d * 10 ^ N.of_nat (length r) + pos_val r
  end.

Definition Digits (ds : list N) : Prop := ds <> [] /\ Forall (fun d => is_digit d = true) ds.

(* optional sign, one or more ASCII digits; denotes z *)
Inductive IntLit : list N -> Z -> Prop :=
| IL_plain ds : Digits ds -> IntLit ds (Z.of_N (pos_val ds))
| IL_plus ds : Digits ds -> IntLit (43 :: ds) (Z.of_N (pos_val ds))
| IL_minus ds : Digits ds -> IntLit (45 :: ds) (- Z.of_N (pos_val ds))%Z.

(* representable as a Go int on the 64-bit platforms d2 is built for *)
Definition fits_int (z : Z) : Prop := (- 2 ^ 63 <= z <= 2 ^ 63 - 1)%Z.

Definition IntIn (v : list N) (P : Z -> Prop) : Prop := exists z, IntLit v z /\ fits_int z /\ P z.

(* ---------------------------------------------------------------- case-insensitive spelling *)
(* [Spells v w]: the byte string v spells the ASCII lower-case word w letter by letter, ignoring
   case.  Case is Unicode simple case mapping, so the two non-ASCII characters whose lower case is
   an ASCII letter are spellings too: U+212A KELVIN SIGN (E2 84 AA) of k, U+0130 (C4 B0) of i. *)
Inductive Spells : list N -> list N -> Prop :=
| Sp_nil : Spells [] []
| Sp_ascii c v w : c < 128 -> Spells v w -> Spells (c :: v) (lowerA c :: w)
| Sp_kelvin v w : Spells v w -> Spells (226 :: 132 :: 170 :: v) (107 :: w)
| Sp_idot v w : Spells v w -> Spells (196 :: 176 :: v) (105 :: w).

Definition SpellsOneOf (v : list N) (tbl : list (list N)) : Prop := exists w, In w tbl /\ Spells v w.

(* ---------------------------------------------------------------- booleans *)
(* the spellings strconv.ParseBool documents: 1, t, T, TRUE, true, True, 0, f, F, FALSE, false, False *)
Definition doc_bools : list (list N) :=
  [[49]; [116]; [84]; [84;82;85;69]; [116;114;117;101]; [84;114;117;101];
   [48]; [102]; [70]; [70;65;76;83;69]; [102;97;108;115;101]; [70;97;108;115;101]].

(* ---------------------------------------------------------------- colours *)
Definition HexColor (v : list N) : Prop :=
  exists ds, v = 35 :: ds /\ (length ds = 3%nat \/ length ds = 6%nat) /\ Forall (fun d => is_hex d = true) ds.

(* linear-gradient(ARGS) / radial-gradient(ARGS) with non-empty ARGS on one line *)
Definition GradientSyntax (v : list N) : Prop :=
  exists pre body, (pre = pre_linear \/ pre = pre_radial) /\ v = pre ++ body ++ [41] /\ body <> [] /\ ~ In 10 body.

Section DocColor.
  Variable grad_ok : list N -> bool.   (* the CSS gradient/colour parsers accept the gradient *)
  Definition DocColor (v : list N) : Prop :=
    SpellsOneOf v doc_named_colors \/ HexColor v \/ (GradientSyntax v /\ grad_ok v = true).
End DocColor.

(* ---------------------------------------------------------------- numbers (opacity) *)
(* the rational number denoted by mantissa m and exponent e in base B = 10 (or 2 for hex floats) *)
Definition fnum_abs (hex : bool) (m : N) (e : Z) : Q :=
  let B := (if hex then 2 else 10)%Z in
  if (0 <=? e)%Z then inject_Z (Z.of_N m * B ^ e) else Qmake (Z.of_N m) (Z.to_pos (B ^ (- e))).
Definition fnum_Q (hex neg : bool) (m : N) (e : Z) : Q :=
  if neg then Qopp (fnum_abs hex m e) else fnum_abs hex m e.

(* v is a Go floating-point literal (decimal or hexadecimal, optional exponent, digit-separating
   underscores) denoting x *)
Definition NumberLit (v : list N) (x : Q) : Prop :=
  exists hex neg m e, parse_float v = Some (FNum hex neg m e) /\ x = fnum_Q hex neg m e.

Definition DocOpacity (v : list N) : Prop := exists x, NumberLit v x /\ (0 <= x)%Q /\ (x <= 1)%Q.

(* "a float between 0 and 1": what reaches the comparison is the float64 nearest to x.  Every x in
   [-2^-1075, 1 + 2^-53] rounds (to nearest, ties to even) into [-0, 1]. *)
Definition one_plus_half_ulp : Q := Qmake (2 ^ 53 + 1) (2 ^ 53).
Definition half_min_subnormal : Q := Qmake 1 (2 ^ 1075).
Definition RoundsIntoUnit (x : Q) : Prop := (Qopp half_min_subnormal <= x)%Q /\ (x <= one_plus_half_ulp)%Q.
Definition DocOpacityRounded (v : list N) : Prop := exists x, NumberLit v x /\ RoundsIntoUnit x.

(* plain decimal literals  [+-] digits [ . digits ]  and their value, stated without the parser *)
Definition DecimalLit (v : list N) (neg : bool) (ip fp : list N) : Prop :=
  Forall (fun d => is_digit d = true) ip /\ Forall (fun d => is_digit d = true) fp /\
  (ip <> [] \/ fp <> []) /\
  exists sg, (sg = [] /\ neg = false \/ sg = [43] /\ neg = false \/ sg = [45] /\ neg = true) /\
             (v = sg ++ ip ++ 46 :: fp \/ (fp = [] /\ v = sg ++ ip)).
Definition decimal_Q (neg : bool) (ip fp : list N) : Q :=
  let a := Qmake (Z.of_N (pos_val (ip ++ fp))) (Z.to_pos (10 ^ Z.of_nat (length fp))) in
  if neg then Qopp a else a.

(* decimal literals with an exponent  [+-] digits [. digits] (e|E) [+-] digits  with at most four
   exponent digits (Go stops accumulating the exponent at 10000) *)
Definition DecimalExpLit (v : list N) (neg : bool) (ip fp : list N) (eneg : bool) (ed : list N) : Prop :=
  Forall (fun d => is_digit d = true) ip /\ Forall (fun d => is_digit d = true) fp /\
  (ip <> [] \/ fp <> []) /\
  Forall (fun d => is_digit d = true) ed /\ ed <> [] /\ (length ed <= 4)%nat /\
  exists sg esg ec mant,
    (sg = [] /\ neg = false \/ sg = [43] /\ neg = false \/ sg = [45] /\ neg = true) /\
    (esg = [] /\ eneg = false \/ esg = [43] /\ eneg = false \/ esg = [45] /\ eneg = true) /\
    (ec = 101 \/ ec = 69) /\
    (mant = ip ++ 46 :: fp \/ (fp = [] /\ mant = ip)) /\
    v = sg ++ mant ++ ec :: esg ++ ed.

Definition exp_value (eneg : bool) (ed : list N) : Z :=
  if eneg then (- Z.of_N (pos_val ed))%Z else Z.of_N (pos_val ed).


(* ---------------------------------------------------------------- the documented domain *)
Section Doc.
  Variable grad_ok : list N -> bool.

  Definition DocDomain (c : ctx) (k : kw) (v : list N) : Prop :=
    match k with
    | KOpacity => DocOpacityRounded v
    | KStroke | KFill | KFontColor => DocColor grad_ok v
    | KFillPattern => SpellsOneOf v doc_fill_patterns
    | KStrokeWidth => IntIn v (fun z => 0 <= z <= 15)%Z
    | KStrokeDash => IntIn v (fun z => 0 <= z <= 10)%Z
    | KFontSize => IntIn v (fun z => 8 <= z <= 100)%Z
    | KBorderRadius | KWidth | KHeight | KTop | KLeft | KGridGap | KVerticalGap | KHorizontalGap =>
        IntIn v (fun z => 0 <= z)%Z
    | KGridRows | KGridColumns => IntIn v (fun z => 0 < z)%Z
    | KPad => IntIn v (fun _ => True)
    | KShadow | K3d | KMultiple | KAnimated | KBold | KItalic | KUnderline | KFilled | KDoubleBorder
    | KSketch | KCenter => In v doc_bools
    | KFont => SpellsOneOf v doc_fonts
    | KTextTransform => SpellsOneOf v doc_text_transforms
    | KDirection => SpellsOneOf v doc_directions
    | KShape =>
        match c with
        | CObj => v = [] \/ SpellsOneOf v doc_shapes   (* the empty value selects the default shape *)
        | CArrow => SpellsOneOf v doc_arrowheads
        | _ => SpellsOneOf v doc_shapes \/ SpellsOneOf v doc_arrowheads
        end
    | KThemeID | KDarkThemeID => IntIn v (fun z => In z doc_theme_ids)
    | KLabelNear | KIconNear => In v doc_label_positions
    | KTooltipNear => In v doc_tooltip_positions
    end.

  (* ------------------------------------------------------------ deciders *)
  Definition int_in_b (v : list N) (p : Z -> bool) : bool :=
    match atoi v with Some z => p z | None => false end.

  Definition spells_one_of_b (v : list N) (tbl : list (list N)) : bool := mem_word (go_lower v) tbl.

  Definition doc_color_b (v : list N) : bool :=
    spells_one_of_b v doc_named_colors || hex_color v || (is_gradient v && grad_ok v).

  Definition rounds_into_unit_b (hex neg : bool) (m : N) (e : Z) : bool :=
    if neg then num_le hex m e 1 1075 else num_le hex m e (2 ^ 53 + 1) 53.

  Definition doc_opacity_rounded_b (v : list N) : bool :=
    match parse_float v with
    | Some (FNum hex neg m e) => rounds_into_unit_b hex neg m e
    | _ => false
    end.

  (* strict [0,1] on the exact value *)
  Definition doc_opacity_b (v : list N) : bool :=
    match parse_float v with
    | Some (FNum hex neg m e) => (negb neg || (m =? 0)) && num_le hex m e 1 0
    | _ => false
    end.

  Definition doc_b (c : ctx) (k : kw) (v : list N) : bool :=
    match k with
    | KOpacity => doc_opacity_rounded_b v
    | KStroke | KFill | KFontColor => doc_color_b v
    | KFillPattern => spells_one_of_b v doc_fill_patterns
    | KStrokeWidth => int_in_b v (fun z => (0 <=? z) && (z <=? 15))%Z
    | KStrokeDash => int_in_b v (fun z => (0 <=? z) && (z <=? 10))%Z
    | KFontSize => int_in_b v (fun z => (8 <=? z) && (z <=? 100))%Z
    | KBorderRadius | KWidth | KHeight | KTop | KLeft | KGridGap | KVerticalGap | KHorizontalGap =>
        int_in_b v (fun z => 0 <=? z)%Z
    | KGridRows | KGridColumns => int_in_b v (fun z => 0 <? z)%Z
    | KPad => int_in_b v (fun _ => true)
    | KShadow | K3d | KMultiple | KAnimated | KBold | KItalic | KUnderline | KFilled | KDoubleBorder
    | KSketch | KCenter => mem_word v doc_bools
    | KFont => spells_one_of_b v doc_fonts
    | KTextTransform => spells_one_of_b v doc_text_transforms
    | KDirection => spells_one_of_b v doc_directions
    | KShape =>
        match c with
        | CObj => negb (nonempty v) || spells_one_of_b v doc_shapes
        | CArrow => spells_one_of_b v doc_arrowheads
        | _ => spells_one_of_b v doc_shapes || spells_one_of_b v doc_arrowheads
        end
    | KThemeID | KDarkThemeID => int_in_b v (fun z => existsb (Z.eqb z) doc_theme_ids)
    | KLabelNear | KIconNear => mem_word v doc_label_positions
    | KTooltipNear => mem_word v doc_tooltip_positions
    end.
End Doc.

(* near on a root-level object of a diagram with no other object: one of the eight constants.
   The value is D2 key syntax (it is re-parsed as a key: surrounding blanks, quotes, a trailing
   comment are syntax), so the domain is stated on the key the value denotes: the one-element
   path whose element is a constant.  [DocNear] is the literal form. *)
Definition DocNear (v : list N) : Prop := In v doc_near_constants.
Definition DocNearKey (p : option (list (list N))) : Prop := exists w, p = Some [w] /\ In w doc_near_constants.
Definition doc_near_key_b (p : option (list (list N))) : bool :=
  match p with Some [w] => mem_word w doc_near_constants | _ => false end.
