From Coq Require Import List NArith ZArith Bool.
Require Import V.C16.Model V.C16.DocDomain V.C16.Proofs.
