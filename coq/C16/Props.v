(* C16 — Attribute validation matches the documented value domains.  Statements only.
   Strings are byte lists of ANY length; [g] is the gradient oracle (lib/color.ParseGradient +
   csscolorparser) and every theorem holds for every oracle. *)
From Coq Require Import List NArith ZArith QArith Bool Lia.
Import ListNotations.
Require Import V.C16.Model V.C16.DocTables V.C16.DocDomain V.C16.Proofs.
Open Scope N_scope.

(* --- the parsers ---------------------------------------------------------------------------- *)
(* strconv.Atoi accepts exactly [+-]?[0-9]+ with a value that fits int64, and returns that value *)
Theorem C16_atoi_spec : forall s z, atoi s = Some z <-> IntLit s z /\ fits_int z.
Proof. exact atoi_spec. Qed.

(* strings.ToLower(v) equals an ASCII word w iff v spells w letter by letter up to case
   (including KELVIN SIGN for k and U+0130 for i) *)
Theorem C16_tolower_spec : forall v w, ascii_word w -> (go_lower v = w <-> Spells v w).
Proof. exact go_lower_Spells. Qed.

(* strconv.ParseFloat on every plain decimal literal [+-]digits[.digits] yields exactly its value *)
Theorem C16_parse_float_plain_decimal : forall v neg ip fp,
  DecimalLit v neg ip fp ->
  parse_float v = Some (FNum false neg (pos_val (ip ++ fp)) (- Z.of_nat (length fp))%Z).
Proof. exact parse_float_decimal. Qed.

(* the three shortcuts the executable comparison takes are exact *)
Theorem C16_num_le_exact : forall hex m e a k,
  (1 <= a <= 2 ^ (k + 1))%Z -> (0 <= k <= 1075)%Z -> num_le hex m e a k = num_le_exact hex m e a k.
Proof. exact num_le_exact_eq. Qed.

(* --- the decider run on the implementation's output is the documented domain ------------------ *)
Theorem C16_doc_b_is_DocDomain : forall g c k v, doc_b g c k v = true <-> DocDomain g c k v.
Proof. exact doc_b_spec. Qed.

(* --- accept <-> documented domain, all strings ---------------------------------------------------
   every keyword except width/height/opacity/shape: stroke, fill, font-color, fill-pattern,
   stroke-width [0,15], stroke-dash [0,10], border-radius >= 0, font-size [8,100], the nine boolean
   style flags, font, text-transform, label.near, icon.near, tooltip.near, top, left, grid-rows/columns > 0, grid-gap, vertical-gap,
   horizontal-gap >= 0, direction, theme-id, dark-theme-id, pad, sketch, center; in every context. *)
Theorem C16_accept_iff_in_domain : forall g c k v,
  clean k = true -> (accepts g c k v = true <-> DocDomain g c k v).
Proof. exact accept_iff_in_domain. Qed.

(* colours spelled out: named CSS colour in any letter case, #rgb / #rrggbb, or a gradient *)
Theorem C16_color_accept_iff : forall g v, valid_color g v = true <-> DocColor g v.
Proof. exact valid_color_spec. Qed.

(* --- width / height: the full statement is refuted ("-5"), guarded version holds ------------------ *)
Theorem C16_size_refuted : forall g,
  exists v, accepts g CObj KWidth v = true /\ accepts g CObj KHeight v = true /\
            ~ DocDomain g CObj KWidth v /\ ~ DocDomain g CObj KHeight v.
Proof. exact size_refuted. Qed.

Theorem C16_size_accepts_every_int64 : forall g c k v,
  is_size k = true -> (accepts g c k v = true <-> IntIn v (fun _ => True)).
Proof. exact size_accept_iff. Qed.

Theorem C16_size_guarded : forall g c k v,
  is_size k = true -> (forall z, IntLit v z -> (0 <= z)%Z) ->
  (accepts g c k v = true <-> DocDomain g c k v).
Proof. exact size_guarded. Qed.

(* --- opacity: accepted iff NaN or a number whose nearest float64 lies in [0,1] ------------------- *)
Theorem C16_opacity_accept_iff : forall g c v,
  accepts g c KOpacity v = true <-> parse_float v = Some FNaN \/ DocOpacityRounded v.
Proof. exact opacity_accept_iff. Qed.

Theorem C16_opacity_refuted : forall g,
  exists v, accepts g CObj KOpacity v = true /\ ~ DocOpacityRounded v /\ ~ DocOpacity v.
Proof. exact opacity_refuted. Qed.

Theorem C16_opacity_guarded : forall g c v,
  parse_float v <> Some FNaN -> (accepts g c KOpacity v = true <-> DocOpacityRounded v).
Proof. exact opacity_guarded. Qed.

(* every number in [0,1] is accepted *)
Theorem C16_opacity_complete : forall g c v, DocOpacity v -> accepts g c KOpacity v = true.
Proof. exact opacity_complete. Qed.

(* plain decimals, stated without the parser: accepted iff the value is within half an ulp of [0,1] *)
Theorem C16_opacity_plain_decimal : forall g c v neg ip fp,
  DecimalLit v neg ip fp ->
  (accepts g c KOpacity v = true <-> RoundsIntoUnit (decimal_Q neg ip fp)).
Proof. exact opacity_plain_decimal. Qed.

(* strconv.ParseFloat on every decimal literal with an exponent of at most four digits *)
Theorem C16_parse_float_decimal_exp : forall v neg ip fp eneg ed,
  DecimalExpLit v neg ip fp eneg ed ->
  parse_float v =
  Some (FNum false neg (pos_val (ip ++ fp)) (exp_value eneg ed - Z.of_nat (length fp))%Z).
Proof. exact parse_float_decimal_exp. Qed.

Theorem C16_opacity_decimal_exp : forall g c v neg ip fp eneg ed,
  DecimalExpLit v neg ip fp eneg ed ->
  (accepts g c KOpacity v = true <->
   RoundsIntoUnit (fnum_Q false neg (pos_val (ip ++ fp)) (exp_value eneg ed - Z.of_nat (length fp)))).
Proof. exact opacity_decimal_exp. Qed.

(* ParseFloat yields NaN exactly on the spellings of "nan" in any letter case (no sign) *)
Theorem C16_parse_float_nan_iff : forall v, parse_float v = Some FNaN <-> map lowerA v = str_nan.
Proof. exact parse_float_nan_iff. Qed.

Theorem C16_opacity_guarded_spelling : forall g c v,
  map lowerA v <> str_nan -> (accepts g c KOpacity v = true <-> DocOpacityRounded v).
Proof. exact opacity_guarded_spelling. Qed.

(* --- shape ------------------------------------------------------------------------------------- *)
(* refuted on objects: "ſquare" (LATIN SMALL LETTER LONG S) passes strings.EqualFold and is stored
   as such; the empty string is accepted (it means "unset") *)
Theorem C16_shape_object_refuted : forall g,
  (accepts g CObj KShape str_long_s_quare = true /\ ~ DocDomain g CObj KShape str_long_s_quare /\
   stored CObj KShape str_long_s_quare = str_long_s_quare) /\
  (accepts g CObj KShape [] = true /\ ~ DocDomain g CObj KShape []).
Proof. exact shape_object_refuted. Qed.

Theorem C16_shape_object_guarded : forall g v,
  v <> [] -> ~ In 197 v -> (accepts g CObj KShape v = true <-> DocDomain g CObj KShape v).
Proof. exact shape_object_guarded. Qed.

(* refuted on arrowheads: every object shape ("cloud") is let through *)
Theorem C16_shape_arrowhead_refuted : forall g,
  accepts g CArrow KShape str_cloud = true /\ ~ DocDomain g CArrow KShape str_cloud.
Proof. exact shape_arrowhead_refuted. Qed.

Theorem C16_shape_arrowhead_guarded : forall g v,
  v <> [] -> ~ In 197 v ->
  (accepts g CArrow KShape v = true <-> SpellsOneOf v doc_arrowheads \/ SpellsOneOf v doc_shapes).
Proof. exact shape_arrowhead_guarded. Qed.

Theorem C16_shape_arrowhead_complete : forall g v,
  DocDomain g CArrow KShape v -> accepts g CArrow KShape v = true.
Proof. exact shape_arrowhead_complete. Qed.

(* --- accepted values reach the compiled diagram unchanged up to letter case --------------------- *)
Theorem C16_accepted_value_unchanged : forall g c k v,
  accepts g c k v = true -> ~ (c = CObj /\ k = KShape /\ v = []) ->
  stored c k v = v \/ (keyword_valued k = true /\ go_lower (stored c k v) = go_lower v).
Proof. exact accepted_value_unchanged. Qed.

(* --- near: CONSTANT (object at the root of the diagram; ParseKey is an oracle) ------------------ *)
Theorem C16_near_constants_accepted :
  forall parse_key : list N -> option (list (list N)),
    (forall w, ident_word w = true -> parse_key w = Some [w]) ->
    forall v, DocNear v -> near_accepts parse_key v = true.
Proof. exact near_complete. Qed.

(* refuted: only the first path element is compared with the constants, "top-center.foo" passes *)
Theorem C16_near_refuted :
  (forall w, ident_word w = true -> pk_witness w = Some [w]) /\
  near_accepts pk_witness str_top_center_foo = true /\ ~ DocNearKey (pk_witness str_top_center_foo).
Proof. exact near_refuted. Qed.

Theorem C16_near_accept_iff_key :
  forall (parse_key : list N -> option (list (list N))) v,
    (exists w, parse_key v = Some [w]) ->
    (near_accepts parse_key v = true <-> DocNearKey (parse_key v)).
Proof. exact near_accept_iff_key. Qed.

Theorem C16_doc_near_key_b_is_DocNearKey : forall p, doc_near_key_b p = true <-> DocNearKey p.
Proof. exact doc_near_key_b_spec. Qed.

Theorem C16_near_guarded :
  forall (parse_key : list N -> option (list (list N))) v,
    near_accepts parse_key v = true -> exists h t, parse_key v = Some (h :: t) /\ DocNear h.
Proof. exact near_guarded. Qed.

(* --- non-vacuity of the hypotheses ------------------------------------------------------------- *)
Example C16_size_guard_satisfiable : forall z, IntLit [49; 48] z -> (0 <= z)%Z.
Proof.
  intros z L. assert (E : IntLit [49; 48] 10%Z).
  { change 10%Z with (Z.of_N (pos_val [49; 48])). apply IL_plain. split; [discriminate|]. repeat constructor. }
  rewrite (IntLit_fun _ _ _ L E). discriminate.
Qed.

Example C16_opacity_guard_satisfiable : parse_float [48; 46; 53] <> Some FNaN /\ DocOpacity [48; 46; 53].
Proof.
  split; [vm_compute; discriminate|].
  exists (fnum_Q false false 5 (-1)). split; [exists false, false, 5, (-1)%Z; split; reflexivity|].
  split; unfold Qle; cbn; discriminate.
Qed.

Example C16_decimal_lit_satisfiable : DecimalLit [45; 48; 46; 53] true [48] [53].
Proof.
  split; [repeat constructor|]. split; [repeat constructor|]. split; [left; discriminate|].
  exists [45]. split; [right; right; auto | left; reflexivity].
Qed.

Example C16_shape_guard_satisfiable :
  [99; 108; 111; 117; 100] <> [] /\ ~ In 197 [99; 108; 111; 117; 100] /\
  accepts (fun _ => false) CObj KShape [99; 108; 111; 117; 100] = true.
Proof. split; [discriminate|]. split; [cbn; intuition discriminate | reflexivity]. Qed.

Example C16_clean_satisfiable : clean KStrokeWidth = true /\ accepts (fun _ => false) CObj KStrokeWidth [49; 53] = true.
Proof. split; reflexivity. Qed.

Example C16_num_le_bounds_satisfiable : (1 <= 2 ^ 53 + 1 <= 2 ^ (53 + 1))%Z /\ (0 <= 53 <= 1075)%Z.
Proof. split; [split; vm_compute; discriminate | lia]. Qed.

Example C16_near_hyp_satisfiable : forall w, ident_word w = true -> (fun x : list N => Some [x]) w = Some [w].
Proof. reflexivity. Qed.

Print Assumptions C16_near_constants_accepted.
Print Assumptions C16_near_refuted.
Print Assumptions C16_near_guarded.
Print Assumptions C16_near_accept_iff_key.
Print Assumptions C16_doc_near_key_b_is_DocNearKey.
Example C16_decimal_exp_lit_satisfiable : DecimalExpLit [49; 101; 45; 49] false [49] [] true [49].
Proof.
  split; [repeat constructor|]. split; [constructor|]. split; [left; discriminate|].
  split; [repeat constructor|]. split; [discriminate|]. split; [cbn; lia|].
  exists [], [45], 101, [49]. repeat split; auto.
Qed.

Print Assumptions C16_parse_float_decimal_exp.
Print Assumptions C16_opacity_decimal_exp.
Print Assumptions C16_parse_float_nan_iff.
Print Assumptions C16_opacity_guarded_spelling.
Print Assumptions C16_atoi_spec.
Print Assumptions C16_tolower_spec.
Print Assumptions C16_parse_float_plain_decimal.
Print Assumptions C16_num_le_exact.
Print Assumptions C16_doc_b_is_DocDomain.
Print Assumptions C16_accept_iff_in_domain.
Print Assumptions C16_color_accept_iff.
Print Assumptions C16_size_refuted.
Print Assumptions C16_size_accepts_every_int64.
Print Assumptions C16_size_guarded.
Print Assumptions C16_opacity_accept_iff.
Print Assumptions C16_opacity_refuted.
Print Assumptions C16_opacity_guarded.
Print Assumptions C16_opacity_complete.
Print Assumptions C16_opacity_plain_decimal.
Print Assumptions C16_shape_object_refuted.
Print Assumptions C16_shape_object_guarded.
Print Assumptions C16_shape_arrowhead_refuted.
Print Assumptions C16_shape_arrowhead_guarded.
Print Assumptions C16_shape_arrowhead_complete.
Print Assumptions C16_accepted_value_unchanged.
