(* C16 — Attribute validation matches the documented value domains.  Statements only.
   Strings are byte lists of ANY length; [g] is the gradient oracle (lib/color.ParseGradient +
   csscolorparser) and every theorem holds for every oracle. *)
From Coq Require Import List NArith ZArith QArith Bool Lia.
Import ListNotations.
Require Import V.C16.Model V.C16.DocTables V.C16.DocDomain V.C16.Proofs.
Open Scope N_scope.

(* --- the parsers ---------------------------------------------------------------------------- *)
(* strconv.Atoi accepts exactly [+-]?[0-9]+ with a value that fits int64, and returns that value *)
Theorem C16_atoi_spec : forall s z, atoi s = Some z <-> IntLit s z /\ fits_int z.
Proof. exact atoi_spec. Qed.

(* strings.ToLower(v) equals an ASCII word w iff v spells w letter by letter up to case
   (including KELVIN SIGN for k and U+0130 for i) *)
Theorem C16_tolower_spec : forall v w, ascii_word w -> (go_lower v = w <-> Spells v w).
Proof. exact go_lower_Spells. Qed.

(* strconv.ParseFloat on every plain decimal literal [+-]digits[.digits] yields exactly its value *)
Theorem C16_parse_float_plain_decimal : forall v neg ip fp,
  DecimalLit v neg ip fp ->
  parse_float v = Some (FNum false neg (pos_val (ip ++ fp)) (- Z.of_nat (length fp))%Z).
Proof. exact parse_float_decimal. Qed.

(* the three shortcuts the executable comparison takes are exact *)
Theorem C16_num_le_exact : forall hex m e a k,
  (1 <= a <= 2 ^ (k + 1))%Z -> (0 <= k <= 1075)%Z -> num_le hex m e a k = num_le_exact hex m e a k.
Proof. exact num_le_exact_eq. Qed.

(* --- the decider run on the implementation's output is the documented domain ------------------ *)
Theorem C16_doc_b_is_DocDomain : forall g c k v, doc_b g c k v = true <-> DocDomain g c k v.
Proof. exact doc_b_spec. Qed.

(* --- accept <-> documented domain: ALL strings, EVERY keyword, every context -----------------------
   (the code repaired by 0fc4ab54b).  The only exclusion is `shape` on arrowheads/connections, where
   the compiler still lets object shapes through (open finding C16-arrowhead-object-shape, below).
   stroke, fill, font-color, fill-pattern, opacity, stroke-width [0,15], stroke-dash [0,10],
   border-radius >= 0, font-size [8,100], the nine boolean style flags, font, text-transform,
   width, height, top, left >= 0, grid-rows/columns > 0, grid-gap, vertical-gap, horizontal-gap >= 0,
   direction, shape (objects), label.near, icon.near, tooltip.near, theme-id, dark-theme-id, pad,
   sketch, center. *)
Theorem C16_accept_iff_in_domain : forall g c k v,
  clean c k = true -> (accepts g c k v = true <-> DocDomain g c k v).
Proof. exact accept_iff_in_domain. Qed.

(* colours spelled out: named CSS colour in any letter case, #rgb / #rrggbb, or a gradient *)
Theorem C16_color_accept_iff : forall g v, valid_color g v = true <-> DocColor g v.
Proof. exact valid_color_spec. Qed.

(* opacity spelled out: accepted iff a number whose nearest float64 lies in [0,1] (NaN, Inf rejected) *)
Theorem C16_opacity_accept_iff : forall g c v, accepts g c KOpacity v = true <-> DocOpacityRounded v.
Proof. exact opacity_accept_iff. Qed.

(* every number in [0,1] is accepted *)
Theorem C16_opacity_complete : forall g c v, DocOpacity v -> accepts g c KOpacity v = true.
Proof. exact opacity_complete. Qed.

(* plain decimals, stated without the parser: accepted iff the value is within half an ulp of [0,1] *)
Theorem C16_opacity_plain_decimal : forall g c v neg ip fp,
  DecimalLit v neg ip fp ->
  (accepts g c KOpacity v = true <-> RoundsIntoUnit (decimal_Q neg ip fp)).
Proof. exact opacity_plain_decimal. Qed.

(* strconv.ParseFloat on every decimal literal with an exponent of at most four digits *)
Theorem C16_parse_float_decimal_exp : forall v neg ip fp eneg ed,
  DecimalExpLit v neg ip fp eneg ed ->
  parse_float v =
  Some (FNum false neg (pos_val (ip ++ fp)) (exp_value eneg ed - Z.of_nat (length fp))%Z).
Proof. exact parse_float_decimal_exp. Qed.

Theorem C16_opacity_decimal_exp : forall g c v neg ip fp eneg ed,
  DecimalExpLit v neg ip fp eneg ed ->
  (accepts g c KOpacity v = true <->
   RoundsIntoUnit (fnum_Q false neg (pos_val (ip ++ fp)) (exp_value eneg ed - Z.of_nat (length fp)))).
Proof. exact opacity_decimal_exp. Qed.

(* ParseFloat yields NaN exactly on the spellings of "nan" in any letter case (no sign) *)
Theorem C16_parse_float_nan_iff : forall v, parse_float v = Some FNaN <-> map lowerA v = str_nan.
Proof. exact parse_float_nan_iff. Qed.

(* shape on objects spelled out: empty (default shape) or a documented shape in any letter case *)
Theorem C16_shape_object_accept_iff : forall g v,
  accepts g CObj KShape v = true <-> v = [] \/ SpellsOneOf v doc_shapes.
Proof. intros g v. exact (is_shape_spec v). Qed.

(* --- near: CONSTANT (object at the root of the diagram; ParseKey is an oracle) ------------------ *)
(* unconditional and for every oracle: accepted iff the value denotes the one-element key of a constant *)
Theorem C16_near_accept_iff :
  forall (parse_key : list N -> option (list (list N))) v,
    near_accepts parse_key v = true <-> DocNearKey (parse_key v).
Proof. exact near_accept_iff. Qed.

Theorem C16_near_constants_accepted :
  forall parse_key : list N -> option (list (list N)),
    (forall w, ident_word w = true -> parse_key w = Some [w]) ->
    forall v, DocNear v -> near_accepts parse_key v = true.
Proof. exact near_complete. Qed.

Theorem C16_doc_near_key_b_is_DocNearKey : forall p, doc_near_key_b p = true <-> DocNearKey p.
Proof. exact doc_near_key_b_spec. Qed.

(* --- shape on arrowheads: still refuted (open finding): every object shape ("cloud") passes ------ *)
Theorem C16_shape_arrowhead_refuted : forall g,
  accepts g CArrow KShape str_cloud = true /\ ~ DocDomain g CArrow KShape str_cloud.
Proof. exact shape_arrowhead_refuted. Qed.

Theorem C16_shape_arrowhead_guarded : forall g v,
  v <> [] ->
  (accepts g CArrow KShape v = true <-> SpellsOneOf v doc_arrowheads \/ SpellsOneOf v doc_shapes).
Proof. exact shape_arrowhead_guarded. Qed.

Theorem C16_shape_arrowhead_complete : forall g v,
  DocDomain g CArrow KShape v -> accepts g CArrow KShape v = true.
Proof. exact shape_arrowhead_complete. Qed.

(* --- accepted values reach the compiled diagram unchanged up to letter case --------------------- *)
Theorem C16_accepted_value_unchanged : forall g c k v,
  accepts g c k v = true -> ~ (c = CObj /\ k = KShape /\ v = []) ->
  stored c k v = v \/ (keyword_valued k = true /\ go_lower (stored c k v) = go_lower v).
Proof. exact accepted_value_unchanged. Qed.

(* --- history: the code before 0fc4ab54b violated the property; the repaired model rejects each witness *)
Theorem C16_pinned_size_refuted : forall g,
  size_accepts_pinned str_minus5 = true /\ ~ DocDomain g CObj KWidth str_minus5 /\
  ~ DocDomain g CObj KHeight str_minus5 /\
  accepts g CObj KWidth str_minus5 = false /\ accepts g CObj KHeight str_minus5 = false.
Proof. exact size_pinned_refuted. Qed.

Theorem C16_pinned_size_accepted_every_int64 : forall v, size_accepts_pinned v = true <-> IntIn v (fun _ => True).
Proof. exact size_pinned_accept_iff. Qed.

Theorem C16_pinned_opacity_refuted : forall g,
  opacity_accepts_pinned str_NaN = true /\ ~ DocOpacityRounded str_NaN /\ ~ DocOpacity str_NaN /\
  accepts g CObj KOpacity str_NaN = false.
Proof. exact opacity_pinned_refuted. Qed.

Theorem C16_pinned_opacity_accept_iff : forall v,
  opacity_accepts_pinned v = true <-> parse_float v = Some FNaN \/ DocOpacityRounded v.
Proof. exact opacity_pinned_accept_iff. Qed.

Theorem C16_pinned_shape_refuted : forall g,
  is_shape_pinned str_long_s_quare = true /\ ~ SpellsOneOf str_long_s_quare doc_shapes /\
  accepts g CObj KShape str_long_s_quare = false.
Proof. exact shape_pinned_refuted. Qed.

Theorem C16_pinned_near_refuted :
  (forall w, ident_word w = true -> pk_witness w = Some [w]) /\
  near_accepts_pinned pk_witness str_top_center_foo = true /\ ~ DocNearKey (pk_witness str_top_center_foo) /\
  near_accepts pk_witness str_top_center_foo = false.
Proof. exact near_pinned_refuted. Qed.

(* --- non-vacuity of the hypotheses ------------------------------------------------------------- *)
Example C16_decimal_lit_satisfiable : DecimalLit [45; 48; 46; 53] true [48] [53].
Proof.
  split; [repeat constructor|]. split; [repeat constructor|]. split; [left; discriminate|].
  exists [45]. split; [right; right; auto | left; reflexivity].
Qed.

Example C16_decimal_exp_lit_satisfiable : DecimalExpLit [49; 101; 45; 49] false [49] [] true [49].
Proof.
  split; [repeat constructor|]. split; [constructor|]. split; [left; discriminate|].
  split; [repeat constructor|]. split; [discriminate|]. split; [cbn; lia|].
  exists [], [45], 101, [49]. repeat split; auto.
Qed.

Example C16_opacity_domain_satisfiable : DocOpacity [48; 46; 53].
Proof.
  exists (fnum_Q false false 5 (-1)). split; [exists false, false, 5, (-1)%Z; split; reflexivity|].
  split; unfold Qle; cbn; discriminate.
Qed.

Example C16_clean_satisfiable :
  clean CObj KStrokeWidth = true /\ accepts (fun _ => false) CObj KStrokeWidth [49; 53] = true /\
  clean CEdge KWidth = true /\ clean CObj KShape = true /\ clean CConfig KThemeID = true.
Proof. repeat split; reflexivity. Qed.

Example C16_arrowhead_guard_satisfiable :
  [99; 108; 111; 117; 100] <> [] /\ accepts (fun _ => false) CArrow KShape [99; 108; 111; 117; 100] = true.
Proof. split; [discriminate | reflexivity]. Qed.

Example C16_num_le_bounds_satisfiable : (1 <= 2 ^ 53 + 1 <= 2 ^ (53 + 1))%Z /\ (0 <= 53 <= 1075)%Z.
Proof. split; [split; vm_compute; discriminate | lia]. Qed.

Example C16_near_hyp_satisfiable : forall w, ident_word w = true -> (fun x : list N => Some [x]) w = Some [w].
Proof. reflexivity. Qed.

Print Assumptions C16_atoi_spec.
Print Assumptions C16_tolower_spec.
Print Assumptions C16_parse_float_plain_decimal.
Print Assumptions C16_num_le_exact.
Print Assumptions C16_doc_b_is_DocDomain.
Print Assumptions C16_accept_iff_in_domain.
Print Assumptions C16_color_accept_iff.
Print Assumptions C16_opacity_accept_iff.
Print Assumptions C16_opacity_complete.
Print Assumptions C16_opacity_plain_decimal.
Print Assumptions C16_parse_float_decimal_exp.
Print Assumptions C16_opacity_decimal_exp.
Print Assumptions C16_parse_float_nan_iff.
Print Assumptions C16_shape_object_accept_iff.
Print Assumptions C16_near_accept_iff.
Print Assumptions C16_near_constants_accepted.
Print Assumptions C16_doc_near_key_b_is_DocNearKey.
Print Assumptions C16_shape_arrowhead_refuted.
Print Assumptions C16_shape_arrowhead_guarded.
Print Assumptions C16_shape_arrowhead_complete.
Print Assumptions C16_accepted_value_unchanged.
Print Assumptions C16_pinned_size_refuted.
Print Assumptions C16_pinned_size_accepted_every_int64.
Print Assumptions C16_pinned_opacity_refuted.
Print Assumptions C16_pinned_opacity_accept_iff.
Print Assumptions C16_pinned_shape_refuted.
Print Assumptions C16_pinned_near_refuted.
