(* C16 — proofs.  Every lemma is for ALL byte strings (no length bound). *)
From Coq Require Import List NArith ZArith QArith Bool Lia ZifyN ZifyNat ZifyBool.
Import ListNotations.
Require Import V.Lib.RunCases V.C16.Model V.C16.DocTables V.C16.DocDomain.
Open Scope N_scope.

(* ================================================================ generic helpers *)
Lemma forallb_Forall {A} (p : A -> bool) l : forallb p l = true <-> Forall (fun x => p x = true) l.
Proof. rewrite forallb_forall, Forall_forall. tauto. Qed.

Lemma mem_word_In w tbl : mem_word w tbl = true <-> In w tbl.
Proof.
  unfold mem_word. rewrite existsb_exists. split.
  - intros (x & Hx & E). apply bytes_eqb_eq in E. subst. exact Hx.
  - intro H. exists w. split; [exact H | apply bytes_eqb_eq; reflexivity].
Qed.

Definition same_set (a b : list (list N)) : bool :=
  forallb (fun w => mem_word w b) a && forallb (fun w => mem_word w a) b.

Lemma same_set_In a b : same_set a b = true -> forall w, In w a <-> In w b.
Proof.
  unfold same_set. intros H w. apply andb_prop in H as [H1 H2].
  rewrite forallb_forall in H1, H2. split; intro Hw.
  - apply mem_word_In. apply H1. exact Hw.
  - apply mem_word_In. apply H2. exact Hw.
Qed.

(* ================================================================ strconv.Atoi *)
Lemma horner_gen ds : forall a,
  fold_left (fun a d => 10 * a + dval d) ds a = a * 10 ^ N.of_nat (length ds) + pos_val ds.
Proof.
  induction ds as [|d r IH]; intro a.
  - cbn [fold_left length pos_val]. change (N.of_nat 0) with 0. rewrite N.pow_0_r. lia.
  - cbn [fold_left length pos_val]. rewrite IH. rewrite Nat2N.inj_succ, N.pow_succ_r'. ring.
Qed.

Lemma horner_pos_val ds : horner ds = pos_val ds.
Proof. unfold horner. rewrite horner_gen. lia. Qed.

Definition atoi_core (neg : bool) (ds : list N) : option Z :=
  match ds with
  | [] => None
  | _ =>
      if forallb is_digit ds then
        let n := Z.of_N (horner ds) in
        let z := if neg then (- n)%Z else n in
        if ((int_min <=? z) && (z <=? int_max))%Z then Some z else None
      else None
  end.

Lemma atoi_unfold s : atoi s = atoi_core (fst (split_sign s)) (snd (split_sign s)).
Proof. unfold atoi. destruct (split_sign s); reflexivity. Qed.

Lemma fits_int_b z : ((int_min <=? z) && (z <=? int_max))%Z = true <-> fits_int z.
Proof. unfold fits_int, int_min, int_max. lia. Qed.

Lemma atoi_core_spec neg ds z :
  atoi_core neg ds = Some z <->
  Digits ds /\ z = (if neg then - Z.of_N (pos_val ds) else Z.of_N (pos_val ds))%Z /\ fits_int z.
Proof.
  unfold atoi_core, Digits. rewrite <- horner_pos_val. split.
  - destruct ds as [|d r]; [discriminate|].
    destruct (forallb is_digit (d :: r)) eqn:F; [|discriminate].
    cbv zeta.
    destruct ((int_min <=? (if neg then - Z.of_N (horner (d :: r)) else Z.of_N (horner (d :: r)))) &&
              ((if neg then - Z.of_N (horner (d :: r)) else Z.of_N (horner (d :: r))) <=? int_max))%Z eqn:R;
      [|discriminate].
    intro E. inversion E; subst. apply fits_int_b in R. apply forallb_Forall in F.
    split; [split; [discriminate | exact F] | split; [reflexivity | exact R]].
  - intros ((Hne & F) & -> & R). destruct ds as [|d r]; [congruence|].
    apply forallb_Forall in F. rewrite F. cbv zeta. apply fits_int_b in R. rewrite R. reflexivity.
Qed.

Lemma digit_not_sign c : is_digit c = true -> (c =? c_plus) = false /\ (c =? c_minus) = false.
Proof. unfold is_digit, c_plus, c_minus. lia. Qed.

Theorem atoi_spec s z : atoi s = Some z <-> IntLit s z /\ fits_int z.
Proof.
  rewrite atoi_unfold. split.
  - destruct s as [|c r]; cbn [split_sign].
    + cbn. discriminate.
    + destruct (c =? c_plus) eqn:Ep; [|destruct (c =? c_minus) eqn:Em]; cbn [fst snd];
        intro H; apply atoi_core_spec in H as (D & -> & R); split; auto.
      * apply N.eqb_eq in Ep. subst c. apply IL_plus. exact D.
      * apply N.eqb_eq in Em. subst c. apply IL_minus. exact D.
      * apply IL_plain. exact D.
  - intros [L R]. inversion L as [ds D E1 E2 | ds D E1 E2 | ds D E1 E2]; subst.
    + destruct D as [Hne F]. destruct s as [|c r]; [congruence|].
      assert (Hc : is_digit c = true) by (inversion F; auto).
      apply digit_not_sign in Hc as [Hp Hm]. cbn [split_sign]. rewrite Hp, Hm. cbn [fst snd].
      apply atoi_core_spec. split; [split; assumption | split; [reflexivity | exact R]].
    + cbn [split_sign]. change (43 =? c_plus) with true. cbn [fst snd].
      apply atoi_core_spec. split; [exact D | split; [reflexivity | exact R]].
    + cbn [split_sign]. change (45 =? c_plus) with false. change (45 =? c_minus) with true. cbn [fst snd].
      apply atoi_core_spec. split; [exact D | split; [reflexivity | exact R]].
Qed.

Lemma int_in_b_spec v (p : Z -> bool) (P : Z -> Prop) :
  (forall z, p z = true <-> P z) -> (int_in_b v p = true <-> IntIn v P).
Proof.
  intro HP. unfold int_in_b, IntIn. split.
  - destruct (atoi v) as [z|] eqn:E; [|discriminate]. intro H.
    apply atoi_spec in E as [L R]. exists z. split; [exact L | split; [exact R | apply HP; exact H]].
  - intros (z & L & R & Pz). assert (E : atoi v = Some z) by (apply atoi_spec; auto).
    rewrite E. apply HP. exact Pz.
Qed.

Lemma atoi_in_is_int_in_b v p : atoi_in v p = int_in_b v p.
Proof. reflexivity. Qed.

(* an integer literal denotes exactly one integer *)
Lemma IntLit_fun v z1 z2 : IntLit v z1 -> IntLit v z2 -> z1 = z2.
Proof.
  intros L1 L2.
  inversion L1 as [d1 D1 A1 B1 | d1 D1 A1 B1 | d1 D1 A1 B1];
    inversion L2 as [d2 D2 A2 B2 | d2 D2 A2 B2 | d2 D2 A2 B2]; subst; try congruence.
  all: try (inversion A2; subst; reflexivity).
  all: exfalso.
  all: try (destruct D1 as [_ F]; inversion F as [|? ? Hd _]; subst; apply digit_not_sign in Hd as [Hp Hm];
            (discriminate Hp || discriminate Hm)).
  all: try (destruct D2 as [_ F]; inversion F as [|? ? Hd _]; subst; apply digit_not_sign in Hd as [Hp Hm];
            (discriminate Hp || discriminate Hm)).
Qed.

(* ================================================================ strconv.ParseBool *)
Lemma is_bool_spec v : is_bool v = true <-> In v doc_bools.
Proof.
  unfold is_bool, parse_bool.
  destruct (mem_word v bool_true_spellings) eqn:T.
  - apply mem_word_In in T. split; [intros _|reflexivity].
    unfold bool_true_spellings in T. unfold doc_bools. cbn [In] in *. intuition.
  - destruct (mem_word v bool_false_spellings) eqn:F.
    + apply mem_word_In in F. split; [intros _|reflexivity].
      unfold bool_false_spellings in F. unfold doc_bools. cbn [In] in *. intuition.
    + split; [discriminate|]. intro H. exfalso.
      assert (In v bool_true_spellings \/ In v bool_false_spellings) as [H1|H1].
      { unfold doc_bools, bool_true_spellings, bool_false_spellings in *. cbn [In] in *. intuition. }
      * apply mem_word_In in H1. congruence.
      * apply mem_word_In in H1. congruence.
Qed.

(* ================================================================ strings.ToLower vs [Spells] *)
Lemma go_lower_eq c r :
  go_lower (c :: r) =
  match r with
  | c2 :: r2 =>
      if (c =? 196) && (c2 =? 176) then 105 :: go_lower r2
      else if (c =? 197) && (c2 =? 191) then long_s :: go_lower r2
      else
        match r2 with
        | c3 :: r3 =>
            if (c =? 226) && (c2 =? 132) && (c3 =? 170) then 107 :: go_lower r3
            else lower1 c :: go_lower r
        | [] => lower1 c :: go_lower r
        end
  | [] => [lower1 c]
  end.
Proof. destruct r as [|c2 [|c3 r3]]; reflexivity. Qed.

Lemma go_lower_ascii c r : c < 128 -> go_lower (c :: r) = lowerA c :: go_lower r.
Proof.
  intro H. rewrite go_lower_eq.
  assert (E1 : (c =? 196) = false) by lia.
  assert (E2 : (c =? 197) = false) by lia.
  assert (E3 : (c =? 226) = false) by lia.
  assert (L : lower1 c = lowerA c) by (unfold lower1; destruct (c <? 128) eqn:E; [reflexivity | lia]).
  rewrite E1, E2, E3, L. cbn [andb].
  destruct r as [|c2 [|c3 r3]]; reflexivity.
Qed.

Lemma go_lower_idot r : go_lower (196 :: 176 :: r) = 105 :: go_lower r.
Proof. reflexivity. Qed.
Lemma go_lower_long_s r : go_lower (197 :: 191 :: r) = long_s :: go_lower r.
Proof. reflexivity. Qed.
Lemma go_lower_kelvin r : go_lower (226 :: 132 :: 170 :: r) = 107 :: go_lower r.
Proof. reflexivity. Qed.

Lemma Spells_go_lower v w : Spells v w -> go_lower v = w.
Proof.
  induction 1 as [| c v w Hc _ IH | v w _ IH | v w _ IH].
  - reflexivity.
  - rewrite go_lower_ascii by exact Hc. rewrite IH. reflexivity.
  - rewrite go_lower_kelvin, IH. reflexivity.
  - rewrite go_lower_idot, IH. reflexivity.
Qed.

Definition ascii_word (w : list N) : Prop := Forall (fun d => d < 128) w.

Lemma lower1_ascii c : lower1 c < 128 -> c < 128 /\ lower1 c = lowerA c.
Proof. unfold lower1. destruct (c <? 128) eqn:E; [split; [lia | reflexivity] | lia]. Qed.

Lemma go_lower_Spells_len n : forall v, (length v <= n)%nat -> forall w, go_lower v = w -> ascii_word w -> Spells v w.
Proof.
  induction n as [|n IH]; intros v Hl w E A.
  - destruct v; [|cbn in Hl; lia]. cbn in E. subst. constructor.
  - destruct v as [|c r]; [cbn in E; subst; constructor|].
    rewrite go_lower_eq in E. cbn [length] in Hl.
    destruct r as [|c2 r2].
    + subst w. inversion A as [|? ? Hc _]; subst. apply lower1_ascii in Hc as [Hc L]. rewrite L.
      apply Sp_ascii; [exact Hc | constructor].
    + cbn [length] in Hl.
      destruct ((c =? 196) && (c2 =? 176)) eqn:E1.
      { apply andb_prop in E1 as [Ea Eb]. apply N.eqb_eq in Ea, Eb. subst c c2 w.
        inversion A; subst. apply Sp_idot. apply IH; [lia | reflexivity | assumption]. }
      destruct ((c =? 197) && (c2 =? 191)) eqn:E2.
      { subst w. inversion A as [|? ? Hc _]; subst. unfold long_s in Hc. lia. }
      destruct r2 as [|c3 r3].
      * subst w. inversion A as [|? ? Hc A']; subst. apply lower1_ascii in Hc as [Hc L]. rewrite L.
        apply Sp_ascii; [exact Hc|]. apply IH; [cbn; lia | reflexivity | exact A'].
      * cbn [length] in Hl.
        destruct ((c =? 226) && (c2 =? 132) && (c3 =? 170)) eqn:E3.
        { apply andb_prop in E3 as [E3 Ec]. apply andb_prop in E3 as [Ea Eb].
          apply N.eqb_eq in Ea, Eb, Ec. subst c c2 c3 w.
          inversion A; subst. apply Sp_kelvin. apply IH; [lia | reflexivity | assumption]. }
        subst w. inversion A as [|? ? Hc A']; subst. apply lower1_ascii in Hc as [Hc L]. rewrite L.
        apply Sp_ascii; [exact Hc|]. apply IH; [cbn [length]; lia | reflexivity | exact A'].
Qed.

Theorem go_lower_Spells v w : ascii_word w -> (go_lower v = w <-> Spells v w).
Proof.
  intro A. split.
  - intro E. apply (go_lower_Spells_len (length v)); auto.
  - apply Spells_go_lower.
Qed.

Definition ascii_table (tbl : list (list N)) : bool := forallb (forallb (fun d => d <? 128)) tbl.

Lemma ascii_table_word tbl w : ascii_table tbl = true -> In w tbl -> ascii_word w.
Proof.
  unfold ascii_table, ascii_word. rewrite forallb_forall. intros H Hw. specialize (H w Hw).
  apply forallb_Forall in H. eapply Forall_impl; [|exact H]. cbn. intros a Ha. lia.
Qed.

Theorem spells_one_of_b_spec v tbl :
  ascii_table tbl = true -> (spells_one_of_b v tbl = true <-> SpellsOneOf v tbl).
Proof.
  intro A. unfold spells_one_of_b, SpellsOneOf. rewrite mem_word_In. split.
  - intro H. exists (go_lower v). split; [exact H|].
    apply go_lower_Spells; [eapply ascii_table_word; eauto | reflexivity].
  - intros (w & Hw & S). apply Spells_go_lower in S. rewrite S. exact Hw.
Qed.

(* the long s only arises from the byte C5 *)
Lemma go_lower_no_long_s_len n : forall v, (length v <= n)%nat -> ~ In 197 v -> ~ In long_s (go_lower v).
Proof.
  assert (L1 : forall c, lower1 c <> long_s).
  { intro c. unfold lower1, lowerA, long_s. destruct (c <? 128) eqn:E; [|lia].
    destruct ((65 <=? c) && (c <=? 90)) eqn:E'; lia. }
  induction n as [|n IH]; intros v Hl Hn.
  - destruct v; [|cbn in Hl; lia]. cbn. tauto.
  - destruct v as [|c r]; [cbn; tauto|]. rewrite go_lower_eq. cbn [length] in Hl.
    assert (Hc : c <> 197) by (intro; subst; apply Hn; left; reflexivity).
    assert (Hr : ~ In 197 r) by (intro; apply Hn; right; assumption).
    destruct r as [|c2 r2].
    + cbn [In]. intros [E|[]]. exact (L1 c E).
    + cbn [length] in Hl.
      assert (Hr2 : ~ In 197 r2) by (intro; apply Hr; right; assumption).
      destruct ((c =? 196) && (c2 =? 176)) eqn:E1.
      { cbn [In]. intros [E|E]; [unfold long_s in E; lia | revert E; apply IH; [lia | exact Hr2]]. }
      destruct ((c =? 197) && (c2 =? 191)) eqn:E2.
      { apply andb_prop in E2 as [Ea _]. apply N.eqb_eq in Ea. contradiction. }
      destruct r2 as [|c3 r3].
      * cbn [In]. intros [E|E]; [exact (L1 c E) | revert E; apply IH; [cbn; lia | exact Hr]].
      * cbn [length] in Hl.
        destruct ((c =? 226) && (c2 =? 132) && (c3 =? 170)) eqn:E3.
        { cbn [In]. intros [E|E]; [unfold long_s in E; lia |].
          revert E; apply IH; [lia | intro; apply Hr2; right; assumption]. }
        cbn [In]. intros [E|E]; [exact (L1 c E) | revert E; apply IH; [cbn [length]; lia | exact Hr]].
Qed.

Lemma fold_s_id l : ~ In long_s l -> fold_s l = l.
Proof.
  unfold fold_s. induction l as [|a l IH]; intro H; [reflexivity|]. cbn [map].
  assert (Ha : (a =? long_s) = false) by (apply N.eqb_neq; intro; subst; apply H; left; reflexivity).
  rewrite Ha, IH; [reflexivity | intro; apply H; right; assumption].
Qed.

Lemma go_lower_nonempty v : v <> [] -> go_lower v <> [].
Proof.
  destruct v as [|c r]; [congruence|]. intros _. rewrite go_lower_eq.
  destruct r as [|c2 [|c3 r3]]; try discriminate.
  - destruct ((c =? 196) && (c2 =? 176)); [discriminate|]. destruct ((c =? 197) && (c2 =? 191)); discriminate.
  - destruct ((c =? 196) && (c2 =? 176)); [discriminate|]. destruct ((c =? 197) && (c2 =? 191)); [discriminate|].
    destruct ((c =? 226) && (c2 =? 132) && (c3 =? 170)); discriminate.
Qed.
