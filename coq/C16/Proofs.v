(* C16 — proofs.  Every lemma is for ALL byte strings (no length bound). *)
From Coq Require Import List NArith ZArith QArith Bool Lia ZifyN ZifyNat ZifyBool.
Import ListNotations.
Require Import V.Lib.RunCases V.C16.Model V.C16.DocTables V.C16.DocDomain.
Open Scope N_scope.

(* ================================================================ generic helpers *)
Lemma forallb_Forall {A} (p : A -> bool) l : forallb p l = true <-> Forall (fun x => p x = true) l.
Proof. rewrite forallb_forall, Forall_forall. tauto. Qed.

Lemma mem_word_In w tbl : mem_word w tbl = true <-> In w tbl.
Proof.
  unfold mem_word. rewrite existsb_exists. split.
  - intros (x & Hx & E). apply bytes_eqb_eq in E. subst. exact Hx.
  - intro H. exists w. split; [exact H | apply bytes_eqb_eq; reflexivity].
Qed.

Definition same_set (a b : list (list N)) : bool :=
  forallb (fun w => mem_word w b) a && forallb (fun w => mem_word w a) b.

Lemma same_set_In a b : same_set a b = true -> forall w, In w a <-> In w b.
Proof.
  unfold same_set. intros H w. apply andb_prop in H as [H1 H2].
  rewrite forallb_forall in H1, H2. split; intro Hw.
  - apply mem_word_In. apply H1. exact Hw.
  - apply mem_word_In. apply H2. exact Hw.
Qed.

(* ================================================================ strconv.Atoi *)
Lemma horner_gen ds : forall a,
  fold_left (fun a d => 10 * a + dval d) ds a = a * 10 ^ N.of_nat (length ds) + pos_val ds.
Proof.
  induction ds as [|d r IH]; intro a.
  - cbn [fold_left length pos_val]. change (N.of_nat 0) with 0. rewrite N.pow_0_r. lia.
  - cbn [fold_left length pos_val]. rewrite IH. rewrite Nat2N.inj_succ, N.pow_succ_r'. ring.
Qed.

Lemma horner_pos_val ds : horner ds = pos_val ds.
Proof. unfold horner. rewrite horner_gen. lia. Qed.

Definition atoi_core (neg : bool) (ds : list N) : option Z :=
  match ds with
  | [] => None
  | _ =>
      if forallb is_digit ds then
        let n := Z.of_N (horner ds) in
        let z := if neg then (- n)%Z else n in
        if ((int_min <=? z) && (z <=? int_max))%Z then Some z else None
      else None
  end.

Lemma atoi_unfold s : atoi s = atoi_core (fst (split_sign s)) (snd (split_sign s)).
Proof. unfold atoi. destruct (split_sign s); reflexivity. Qed.

Lemma fits_int_b z : ((int_min <=? z) && (z <=? int_max))%Z = true <-> fits_int z.
Proof. unfold fits_int, int_min, int_max. lia. Qed.

Lemma atoi_core_spec neg ds z :
  atoi_core neg ds = Some z <->
  Digits ds /\ z = (if neg then - Z.of_N (pos_val ds) else Z.of_N (pos_val ds))%Z /\ fits_int z.
Proof.
  unfold atoi_core, Digits. rewrite <- horner_pos_val. split.
  - destruct ds as [|d r]; [discriminate|].
    destruct (forallb is_digit (d :: r)) eqn:F; [|discriminate].
    cbv zeta.
    destruct ((int_min <=? (if neg then - Z.of_N (horner (d :: r)) else Z.of_N (horner (d :: r)))) &&
              ((if neg then - Z.of_N (horner (d :: r)) else Z.of_N (horner (d :: r))) <=? int_max))%Z eqn:R;
      [|discriminate].
    intro E. inversion E; subst. apply fits_int_b in R. apply forallb_Forall in F.
    split; [split; [discriminate | exact F] | split; [reflexivity | exact R]].
  - intros ((Hne & F) & -> & R). destruct ds as [|d r]; [congruence|].
    apply forallb_Forall in F. rewrite F. cbv zeta. apply fits_int_b in R. rewrite R. reflexivity.
Qed.

Lemma digit_not_sign c : is_digit c = true -> (c =? c_plus) = false /\ (c =? c_minus) = false.
Proof. unfold is_digit, c_plus, c_minus. lia. Qed.

Theorem atoi_spec s z : atoi s = Some z <-> IntLit s z /\ fits_int z.
Proof.
  rewrite atoi_unfold. split.
  - destruct s as [|c r]; cbn [split_sign].
    + cbn. discriminate.
    + destruct (c =? c_plus) eqn:Ep; [|destruct (c =? c_minus) eqn:Em]; cbn [fst snd];
        intro H; apply atoi_core_spec in H as (D & -> & R); split; auto.
      * apply N.eqb_eq in Ep. subst c. apply IL_plus. exact D.
      * apply N.eqb_eq in Em. subst c. apply IL_minus. exact D.
      * apply IL_plain. exact D.
  - intros [L R]. inversion L as [ds D E1 E2 | ds D E1 E2 | ds D E1 E2]; subst.
    + destruct D as [Hne F]. destruct s as [|c r]; [congruence|].
      assert (Hc : is_digit c = true) by (inversion F; auto).
      apply digit_not_sign in Hc as [Hp Hm]. cbn [split_sign]. rewrite Hp, Hm. cbn [fst snd].
      apply atoi_core_spec. split; [split; assumption | split; [reflexivity | exact R]].
    + cbn [split_sign]. change (43 =? c_plus) with true. cbn [fst snd].
      apply atoi_core_spec. split; [exact D | split; [reflexivity | exact R]].
    + cbn [split_sign]. change (45 =? c_plus) with false. change (45 =? c_minus) with true. cbn [fst snd].
      apply atoi_core_spec. split; [exact D | split; [reflexivity | exact R]].
Qed.

Lemma int_in_b_spec v (p : Z -> bool) (P : Z -> Prop) :
  (forall z, p z = true <-> P z) -> (int_in_b v p = true <-> IntIn v P).
Proof.
  intro HP. unfold int_in_b, IntIn. split.
  - destruct (atoi v) as [z|] eqn:E; [|discriminate]. intro H.
    apply atoi_spec in E as [L R]. exists z. split; [exact L | split; [exact R | apply HP; exact H]].
  - intros (z & L & R & Pz). assert (E : atoi v = Some z) by (apply atoi_spec; auto).
    rewrite E. apply HP. exact Pz.
Qed.

Lemma atoi_in_is_int_in_b v p : atoi_in v p = int_in_b v p.
Proof. reflexivity. Qed.

(* an integer literal denotes exactly one integer *)
Lemma IntLit_fun v z1 z2 : IntLit v z1 -> IntLit v z2 -> z1 = z2.
Proof.
  intros L1 L2.
  inversion L1 as [d1 D1 A1 B1 | d1 D1 A1 B1 | d1 D1 A1 B1];
    inversion L2 as [d2 D2 A2 B2 | d2 D2 A2 B2 | d2 D2 A2 B2]; subst; try congruence.
  all: try (inversion A2; subst; reflexivity).
  all: exfalso.
  all: try (destruct D1 as [_ F]; inversion F as [|? ? Hd _]; subst; apply digit_not_sign in Hd as [Hp Hm];
            (discriminate Hp || discriminate Hm)).
  all: try (destruct D2 as [_ F]; inversion F as [|? ? Hd _]; subst; apply digit_not_sign in Hd as [Hp Hm];
            (discriminate Hp || discriminate Hm)).
Qed.

(* ================================================================ strconv.ParseBool *)
Lemma is_bool_spec v : is_bool v = true <-> In v doc_bools.
Proof.
  unfold is_bool, parse_bool.
  destruct (mem_word v bool_true_spellings) eqn:T.
  - apply mem_word_In in T. split; [intros _|reflexivity].
    unfold bool_true_spellings in T. unfold doc_bools. cbn [In] in *. intuition.
  - destruct (mem_word v bool_false_spellings) eqn:F.
    + apply mem_word_In in F. split; [intros _|reflexivity].
      unfold bool_false_spellings in F. unfold doc_bools. cbn [In] in *. intuition.
    + split; [discriminate|]. intro H. exfalso.
      assert (In v bool_true_spellings \/ In v bool_false_spellings) as [H1|H1].
      { unfold doc_bools, bool_true_spellings, bool_false_spellings in *. cbn [In] in *. intuition. }
      * apply mem_word_In in H1. congruence.
      * apply mem_word_In in H1. congruence.
Qed.

(* ================================================================ strings.ToLower vs [Spells] *)
Lemma go_lower_eq c r :
  go_lower (c :: r) =
  match r with
  | c2 :: r2 =>
      if (c =? 196) && (c2 =? 176) then 105 :: go_lower r2
      else if (c =? 197) && (c2 =? 191) then long_s :: go_lower r2
      else
        match r2 with
        | c3 :: r3 =>
            if (c =? 226) && (c2 =? 132) && (c3 =? 170) then 107 :: go_lower r3
            else lower1 c :: go_lower r
        | [] => lower1 c :: go_lower r
        end
  | [] => [lower1 c]
  end.
Proof. destruct r as [|c2 [|c3 r3]]; reflexivity. Qed.

Lemma go_lower_ascii c r : c < 128 -> go_lower (c :: r) = lowerA c :: go_lower r.
Proof.
  intro H. rewrite go_lower_eq.
  assert (E1 : (c =? 196) = false) by lia.
  assert (E2 : (c =? 197) = false) by lia.
  assert (E3 : (c =? 226) = false) by lia.
  assert (L : lower1 c = lowerA c) by (unfold lower1; destruct (c <? 128) eqn:E; [reflexivity | lia]).
  rewrite E1, E2, E3, L. cbn [andb].
  destruct r as [|c2 [|c3 r3]]; reflexivity.
Qed.

Lemma go_lower_idot r : go_lower (196 :: 176 :: r) = 105 :: go_lower r.
Proof. reflexivity. Qed.
Lemma go_lower_long_s r : go_lower (197 :: 191 :: r) = long_s :: go_lower r.
Proof. reflexivity. Qed.
Lemma go_lower_kelvin r : go_lower (226 :: 132 :: 170 :: r) = 107 :: go_lower r.
Proof. reflexivity. Qed.

Lemma Spells_go_lower v w : Spells v w -> go_lower v = w.
Proof.
  induction 1 as [| c v w Hc _ IH | v w _ IH | v w _ IH].
  - reflexivity.
  - rewrite go_lower_ascii by exact Hc. rewrite IH. reflexivity.
  - rewrite go_lower_kelvin, IH. reflexivity.
  - rewrite go_lower_idot, IH. reflexivity.
Qed.

Definition ascii_word (w : list N) : Prop := Forall (fun d => d < 128) w.

Lemma lower1_ascii c : lower1 c < 128 -> c < 128 /\ lower1 c = lowerA c.
Proof. unfold lower1. destruct (c <? 128) eqn:E; [split; [lia | reflexivity] | lia]. Qed.

Lemma go_lower_Spells_len n : forall v, (length v <= n)%nat -> forall w, go_lower v = w -> ascii_word w -> Spells v w.
Proof.
  induction n as [|n IH]; intros v Hl w E A.
  - destruct v; [|cbn in Hl; lia]. cbn in E. subst. constructor.
  - destruct v as [|c r]; [cbn in E; subst; constructor|].
    rewrite go_lower_eq in E. cbn [length] in Hl.
    destruct r as [|c2 r2].
    + subst w. inversion A as [|? ? Hc _]; subst. apply lower1_ascii in Hc as [Hc L]. rewrite L.
      apply Sp_ascii; [exact Hc | constructor].
    + cbn [length] in Hl.
      destruct ((c =? 196) && (c2 =? 176)) eqn:E1.
      { apply andb_prop in E1 as [Ea Eb]. apply N.eqb_eq in Ea, Eb. subst c c2 w.
        inversion A; subst. apply Sp_idot. apply IH; [lia | reflexivity | assumption]. }
      destruct ((c =? 197) && (c2 =? 191)) eqn:E2.
      { subst w. inversion A as [|? ? Hc _]; subst. unfold long_s in Hc. lia. }
      destruct r2 as [|c3 r3].
      * subst w. inversion A as [|? ? Hc A']; subst. apply lower1_ascii in Hc as [Hc L]. rewrite L.
        apply Sp_ascii; [exact Hc|]. apply IH; [cbn; lia | reflexivity | exact A'].
      * cbn [length] in Hl.
        destruct ((c =? 226) && (c2 =? 132) && (c3 =? 170)) eqn:E3.
        { apply andb_prop in E3 as [E3 Ec]. apply andb_prop in E3 as [Ea Eb].
          apply N.eqb_eq in Ea, Eb, Ec. subst c c2 c3 w.
          inversion A; subst. apply Sp_kelvin. apply IH; [lia | reflexivity | assumption]. }
        subst w. inversion A as [|? ? Hc A']; subst. apply lower1_ascii in Hc as [Hc L]. rewrite L.
        apply Sp_ascii; [exact Hc|]. apply IH; [cbn [length]; lia | reflexivity | exact A'].
Qed.

Theorem go_lower_Spells v w : ascii_word w -> (go_lower v = w <-> Spells v w).
Proof.
  intro A. split.
  - intro E. apply (go_lower_Spells_len (length v)); auto.
  - apply Spells_go_lower.
Qed.

Definition ascii_table (tbl : list (list N)) : bool := forallb (forallb (fun d => d <? 128)) tbl.

Lemma ascii_table_word tbl w : ascii_table tbl = true -> In w tbl -> ascii_word w.
Proof.
  unfold ascii_table, ascii_word. rewrite forallb_forall. intros H Hw. specialize (H w Hw).
  apply forallb_Forall in H. eapply Forall_impl; [|exact H]. cbn. intros a Ha. lia.
Qed.

Theorem spells_one_of_b_spec v tbl :
  ascii_table tbl = true -> (spells_one_of_b v tbl = true <-> SpellsOneOf v tbl).
Proof.
  intro A. unfold spells_one_of_b, SpellsOneOf. rewrite mem_word_In. split.
  - intro H. exists (go_lower v). split; [exact H|].
    apply go_lower_Spells; [eapply ascii_table_word; eauto | reflexivity].
  - intros (w & Hw & S). apply Spells_go_lower in S. rewrite S. exact Hw.
Qed.

(* the long s only arises from the byte C5 *)
Lemma go_lower_no_long_s_len n : forall v, (length v <= n)%nat -> ~ In 197 v -> ~ In long_s (go_lower v).
Proof.
  assert (L1 : forall c, lower1 c <> long_s).
  { intro c. unfold lower1, lowerA, long_s. destruct (c <? 128) eqn:E; [|lia].
    destruct ((65 <=? c) && (c <=? 90)) eqn:E'; lia. }
  induction n as [|n IH]; intros v Hl Hn.
  - destruct v; [|cbn in Hl; lia]. cbn. tauto.
  - destruct v as [|c r]; [cbn; tauto|]. rewrite go_lower_eq. cbn [length] in Hl.
    assert (Hc : c <> 197) by (intro; subst; apply Hn; left; reflexivity).
    assert (Hr : ~ In 197 r) by (intro; apply Hn; right; assumption).
    destruct r as [|c2 r2].
    + cbn [In]. intros [E|[]]. exact (L1 c E).
    + cbn [length] in Hl.
      assert (Hr2 : ~ In 197 r2) by (intro; apply Hr; right; assumption).
      destruct ((c =? 196) && (c2 =? 176)) eqn:E1.
      { cbn [In]. intros [E|E]; [unfold long_s in E; lia | revert E; apply IH; [lia | exact Hr2]]. }
      destruct ((c =? 197) && (c2 =? 191)) eqn:E2.
      { apply andb_prop in E2 as [Ea _]. apply N.eqb_eq in Ea. contradiction. }
      destruct r2 as [|c3 r3].
      * cbn [In]. intros [E|E]; [exact (L1 c E) | revert E; apply IH; [cbn; lia | exact Hr]].
      * cbn [length] in Hl.
        destruct ((c =? 226) && (c2 =? 132) && (c3 =? 170)) eqn:E3.
        { cbn [In]. intros [E|E]; [unfold long_s in E; lia |].
          revert E; apply IH; [lia | intro; apply Hr2; right; assumption]. }
        cbn [In]. intros [E|E]; [exact (L1 c E) | revert E; apply IH; [cbn [length]; lia | exact Hr]].
Qed.

Lemma fold_s_id l : ~ In long_s l -> fold_s l = l.
Proof.
  unfold fold_s. induction l as [|a l IH]; intro H; [reflexivity|]. cbn [map].
  assert (Ha : (a =? long_s) = false) by (apply N.eqb_neq; intro; subst; apply H; left; reflexivity).
  rewrite Ha, IH; [reflexivity | intro; apply H; right; assumption].
Qed.

Lemma go_lower_nonempty v : v <> [] -> go_lower v <> [].
Proof.
  destruct v as [|c r]; [congruence|]. intros _. rewrite go_lower_eq.
  destruct r as [|c2 [|c3 r3]]; try discriminate.
  - destruct ((c =? 196) && (c2 =? 176)); [discriminate|]. destruct ((c =? 197) && (c2 =? 191)); discriminate.
  - destruct ((c =? 196) && (c2 =? 176)); [discriminate|]. destruct ((c =? 197) && (c2 =? 191)); [discriminate|].
    destruct ((c =? 226) && (c2 =? 132) && (c3 =? 170)); discriminate.
Qed.

Lemma go_lower_nil v : go_lower v = [] -> v = [].
Proof. destruct v as [|c r]; [reflexivity|]. intro E. exfalso. apply (go_lower_nonempty (c :: r)); [discriminate | exact E]. Qed.

(* ================================================================ generated tables = documented tables *)
(* Re-checked on every run against coq/Gen/C16Colors.v, i.e. against the tables of the linked d2. *)
Lemma named_colors_doc : same_set named_colors doc_named_colors = true.
Proof. vm_compute. reflexivity. Qed.
Lemma shapes_doc : same_set shapes doc_shapes = true.
Proof. vm_compute. reflexivity. Qed.
Lemma arrowheads_doc : same_set arrowheads doc_arrowheads = true.
Proof. vm_compute. reflexivity. Qed.
Lemma fill_patterns_doc : same_set fill_patterns doc_fill_patterns = true.
Proof. vm_compute. reflexivity. Qed.
Lemma text_transforms_doc : same_set text_transforms doc_text_transforms = true.
Proof. vm_compute. reflexivity. Qed.
Lemma fonts_doc : same_set fonts doc_fonts = true.
Proof. vm_compute. reflexivity. Qed.
Lemma directions_doc : same_set directions doc_directions = true.
Proof. vm_compute. reflexivity. Qed.
Lemma theme_ids_doc :
  forallb (fun z => existsb (Z.eqb z) doc_theme_ids) theme_ids &&
  forallb (fun z => existsb (Z.eqb z) theme_ids) doc_theme_ids = true.
Proof. vm_compute. reflexivity. Qed.

Lemma label_positions_doc : same_set label_positions doc_label_positions = true.
Proof. vm_compute. reflexivity. Qed.
Lemma tooltip_positions_doc : same_set tooltip_positions doc_tooltip_positions = true.
Proof. vm_compute. reflexivity. Qed.
Lemma near_constants_doc : same_set near_constants doc_near_constants = true.
Proof. vm_compute. reflexivity. Qed.

Lemma asc_named : ascii_table doc_named_colors = true.  Proof. vm_compute. reflexivity. Qed.
Lemma asc_shapes : ascii_table doc_shapes = true.  Proof. vm_compute. reflexivity. Qed.
Lemma asc_arrow : ascii_table doc_arrowheads = true.  Proof. vm_compute. reflexivity. Qed.
Lemma asc_fill : ascii_table doc_fill_patterns = true.  Proof. vm_compute. reflexivity. Qed.
Lemma asc_tt : ascii_table doc_text_transforms = true.  Proof. vm_compute. reflexivity. Qed.
Lemma asc_fonts : ascii_table doc_fonts = true.  Proof. vm_compute. reflexivity. Qed.
Lemma asc_dirs : ascii_table doc_directions = true.  Proof. vm_compute. reflexivity. Qed.

Lemma existsb_Zeqb_In z l : existsb (Z.eqb z) l = true <-> In z l.
Proof.
  rewrite existsb_exists. split.
  - intros (x & Hx & E). apply Z.eqb_eq in E. subst. exact Hx.
  - intro H. exists z. split; [exact H | apply Z.eqb_refl].
Qed.

Lemma theme_ids_In z : In z theme_ids <-> In z doc_theme_ids.
Proof.
  pose proof theme_ids_doc as H. apply andb_prop in H as [H1 H2].
  rewrite forallb_forall in H1, H2. split; intro Hz.
  - apply existsb_Zeqb_In. apply H1. exact Hz.
  - apply existsb_Zeqb_In. apply H2. exact Hz.
Qed.

(* membership in a generated table = spelling a documented word *)
Lemma table_spec gen doc v :
  same_set gen doc = true -> ascii_table doc = true ->
  (mem_word (go_lower v) gen = true <-> SpellsOneOf v doc).
Proof.
  intros S A. rewrite <- (spells_one_of_b_spec v doc A). unfold spells_one_of_b.
  rewrite !mem_word_In. apply same_set_In. exact S.
Qed.

Ltac ascii_of_doc :=
  first [exact asc_named | exact asc_shapes | exact asc_arrow | exact asc_fill | exact asc_tt
        | exact asc_fonts | exact asc_dirs].

(* ================================================================ colours *)
Lemma hex_color_spec v : hex_color v = true <-> HexColor v.
Proof.
  unfold hex_color, HexColor. destruct v as [|c ds].
  - split; [discriminate | intros (ds & E & _); discriminate].
  - split.
    + intro H. apply andb_prop in H as [H F]. apply andb_prop in H as [C L].
      apply N.eqb_eq in C. subst c. exists ds. split; [reflexivity|]. split.
      * apply orb_prop in L as [L|L]; apply Nat.eqb_eq in L; auto.
      * apply forallb_Forall. exact F.
    + intros (ds' & E & L & F). inversion E; subst.
      apply forallb_Forall in F. rewrite F.
      assert (((length ds' =? 3)%nat || (length ds' =? 6)%nat) = true) as ->
        by (destruct L as [L|L]; rewrite L; reflexivity).
      reflexivity.
Qed.

Lemma strip_prefix_spec p : forall s t, strip_prefix p s = Some t <-> s = p ++ t.
Proof.
  induction p as [|a p IH]; intros s t; cbn [strip_prefix app].
  - split; [intro E; inversion E; reflexivity | intros ->; reflexivity].
  - destruct s as [|b s].
    + split; [discriminate | discriminate].
    + destruct (a =? b) eqn:E.
      * apply N.eqb_eq in E. subst b. rewrite IH. split; [intros ->; reflexivity | intro H; inversion H; reflexivity].
      * apply N.eqb_neq in E. split; [discriminate | intro H; inversion H; congruence].
Qed.

Lemma grad_tail_spec t :
  grad_tail t = true <-> exists body, t = body ++ [41] /\ body <> [] /\ ~ In 10 body.
Proof.
  unfold grad_tail. split.
  - destruct (rev t) as [|c b] eqn:R; [discriminate|].
    intro H. apply andb_prop in H as [H F]. apply andb_prop in H as [C Ne].
    apply N.eqb_eq in C. subst c.
    assert (Et : t = rev b ++ [41]) by (rewrite <- (rev_involutive t), R; reflexivity).
    exists (rev b). split; [exact Et|]. split.
    + destruct b; [discriminate Ne|]. cbn [rev]. intro E. apply app_eq_nil in E as [_ E]. discriminate.
    + intro Hin. apply in_rev in Hin. rewrite forallb_forall in F. specialize (F 10 Hin). discriminate.
  - intros (body & -> & Ne & Nn). rewrite rev_app_distr. cbn [rev app].
    change (41 =? 41) with true. cbn [andb].
    assert (nonempty (rev body) = true) as ->.
    { destruct body as [|x body]; [congruence|]. cbn [rev]. destruct (rev body); reflexivity. }
    cbn [andb]. apply forallb_forall. intros x Hx. apply in_rev in Hx.
    destruct (x =? 10) eqn:E; [|reflexivity]. apply N.eqb_eq in E. subst. contradiction.
Qed.

Lemma is_gradient_spec v : is_gradient v = true <-> GradientSyntax v.
Proof.
  unfold is_gradient, GradientSyntax. split.
  - destruct (strip_prefix pre_linear v) as [t|] eqn:L.
    + intro H. apply grad_tail_spec in H as (body & -> & Ne & Nn). apply strip_prefix_spec in L.
      exists pre_linear, body. auto.
    + destruct (strip_prefix pre_radial v) as [t|] eqn:R; [|discriminate].
      intro H. apply grad_tail_spec in H as (body & -> & Ne & Nn). apply strip_prefix_spec in R.
      exists pre_radial, body. auto.
  - intros (pre & body & [-> | ->] & -> & Ne & Nn).
    + assert (strip_prefix pre_linear (pre_linear ++ body ++ [41]) = Some (body ++ [41])) as ->
        by (apply strip_prefix_spec; reflexivity).
      apply grad_tail_spec. exists body. auto.
    + assert (strip_prefix pre_linear (pre_radial ++ body ++ [41]) = None) as -> by reflexivity.
      assert (strip_prefix pre_radial (pre_radial ++ body ++ [41]) = Some (body ++ [41])) as ->
        by (apply strip_prefix_spec; reflexivity).
      apply grad_tail_spec. exists body. auto.
Qed.

(* a gradient-shaped string is neither a named colour nor a hex code *)
Lemma no_paren_at_15 : forallb (fun w => negb (nth 15 w 0 =? 40)) named_colors = true.
Proof. vm_compute. reflexivity. Qed.

Lemma gradient_not_named_hex v : is_gradient v = true -> named_color v = false /\ hex_color v = false.
Proof.
  intro H. apply is_gradient_spec in H as (pre & body & Hp & -> & _ & _).
  assert (E : exists t, go_lower (pre ++ body ++ [41]) = pre ++ t /\ nth 15 (pre ++ t) 0 = 40 /\
                        hex_color (pre ++ body ++ [41]) = false).
  { destruct Hp as [-> | ->]; unfold pre_linear, pre_radial; cbn [app];
      repeat (rewrite go_lower_ascii by reflexivity); eexists; (split; [reflexivity | split; reflexivity]). }
  destruct E as (t & E & N15 & Hx). split; [|exact Hx].
  unfold named_color. rewrite E. destruct (mem_word (pre ++ t) named_colors) eqn:M; [|reflexivity].
  apply mem_word_In in M. pose proof no_paren_at_15 as P. rewrite forallb_forall in P.
  specialize (P _ M). rewrite N15 in P. discriminate.
Qed.

Theorem valid_color_spec (g : list N -> bool) v : valid_color g v = true <-> DocColor g v.
Proof.
  unfold valid_color, DocColor.
  assert (Nm : named_color v = true <-> SpellsOneOf v doc_named_colors).
  { unfold named_color. apply table_spec; [exact named_colors_doc | ascii_of_doc]. }
  destruct (is_gradient v) eqn:G.
  - destruct (gradient_not_named_hex v G) as [N H]. apply is_gradient_spec in G. split.
    + intro. right. right. auto.
    + intros [S | [Hx | [_ Ok]]]; [| |exact Ok].
      * apply Nm in S. congruence.
      * apply hex_color_spec in Hx. congruence.
  - split.
    + intro H. apply orb_prop in H as [H|H]; [left; apply Nm; exact H | right; left; apply hex_color_spec; exact H].
    + intros [S | [Hx | [Gs _]]].
      * apply Nm in S. rewrite S. reflexivity.
      * apply hex_color_spec in Hx. rewrite Hx. apply orb_true_r.
      * apply is_gradient_spec in Gs. congruence.
Qed.

Lemma doc_color_b_spec (g : list N -> bool) v : doc_color_b g v = true <-> DocColor g v.
Proof.
  unfold doc_color_b, DocColor.
  assert (A : ascii_table doc_named_colors = true) by ascii_of_doc.
  rewrite !orb_true_iff, andb_true_iff, (spells_one_of_b_spec v _ A), hex_color_spec, is_gradient_spec. tauto.
Qed.

(* ================================================================ numbers: exact comparison *)
Lemma pow_pos_fast_spec b p : pow_pos_fast b p = (b ^ Zpos p)%Z.
Proof.
  induction p as [p IH | p IH |]; cbn [pow_pos_fast].
  - rewrite IH, Pos2Z.inj_xI. replace (2 * Z.pos p + 1)%Z with (1 + Z.pos p + Z.pos p)%Z by lia.
    rewrite !Z.pow_add_r by lia. rewrite Z.pow_1_r. ring.
  - rewrite IH, Pos2Z.inj_xO. replace (2 * Z.pos p)%Z with (Z.pos p + Z.pos p)%Z by lia.
    rewrite Z.pow_add_r by lia. ring.
  - rewrite Z.pow_1_r. reflexivity.
Qed.

Lemma zpow_spec b e : (0 <= e)%Z -> zpow b e = (b ^ e)%Z.
Proof.
  intro H. destruct e as [|p|p]; cbn [zpow].
  - reflexivity.
  - apply pow_pos_fast_spec.
  - lia.
Qed.

Definition base_of (hex : bool) : Z := if hex then 2%Z else 10%Z.

Lemma base_ge2 hex : (2 <= base_of hex)%Z.
Proof. destruct hex; cbn; lia. Qed.

Lemma num_le_exact_unfold hex m e a k : (0 <= k)%Z ->
  num_le_exact hex m e a k =
  if (0 <=? e)%Z then (Z.of_N m * base_of hex ^ e * 2 ^ k <=? a)%Z
  else (Z.of_N m * 2 ^ k <=? a * base_of hex ^ (- e))%Z.
Proof.
  intro Hk. unfold num_le_exact, base_of. cbv zeta.
  destruct (0 <=? e)%Z eqn:E.
  - rewrite !zpow_spec by lia. reflexivity.
  - rewrite !zpow_spec by lia. reflexivity.
Qed.

Lemma pow2_1075_le_pow10_400 : (2 ^ 1075 <= 10 ^ 400)%Z.
Proof. apply Z.leb_le. vm_compute. reflexivity. Qed.

(* the shortcuts of [num_le] agree with the exact comparison for the bounds d2's tests need *)
Lemma num_le_exact_eq hex m e a k :
  (1 <= a <= 2 ^ (k + 1))%Z -> (0 <= k <= 1075)%Z -> num_le hex m e a k = num_le_exact hex m e a k.
Proof.
  intros Ha Hk. unfold num_le. rewrite num_le_exact_unfold by lia.
  pose proof (base_ge2 hex) as HB.
  assert (P2k : (0 < 2 ^ k)%Z) by (apply Z.pow_pos_nonneg; lia).
  destruct (m =? 0) eqn:M0.
  { apply N.eqb_eq in M0. subst m. change (Z.of_N 0) with 0%Z.
    destruct (0 <=? e)%Z eqn:E; symmetry; apply Z.leb_le.
    - lia.
    - assert (0 < base_of hex ^ (- e))%Z by (apply Z.pow_pos_nonneg; lia). nia. }
  apply N.eqb_neq in M0. assert (Hm : (1 <= Z.of_N m)%Z) by lia.
  destruct (4 <=? e)%Z eqn:E4.
  { apply Z.leb_le in E4. assert ((0 <=? e)%Z = true) as -> by lia.
    symmetry. apply Z.leb_gt.
    assert (H16 : (16 <= base_of hex ^ e)%Z).
    { change 16%Z with (2 ^ 4)%Z.
      apply Z.le_trans with (2 ^ e)%Z; [apply Z.pow_le_mono_r; lia | apply Z.pow_le_mono_l; lia]. }
    assert (H2 : (2 ^ (k + 1) = 2 * 2 ^ k)%Z) by (rewrite Z.pow_add_r by lia; rewrite Z.pow_1_r; ring).
    assert (H3 : (16 <= Z.of_N m * base_of hex ^ e)%Z) by nia.
    assert (H4 : (16 * 2 ^ k <= Z.of_N m * base_of hex ^ e * 2 ^ k)%Z) by (apply Z.mul_le_mono_nonneg_r; lia).
    lia. }
  apply Z.leb_gt in E4.
  destruct (e + Z.of_N (N.size m) <=? (if hex then -1075 else -400))%Z eqn:S; [|reflexivity].
  apply Z.leb_le in S.
  pose proof (N.size_gt m) as Sz. apply N2Z.inj_lt in Sz. rewrite N2Z.inj_pow in Sz. change (Z.of_N 2) with 2%Z in Sz.
  set (s := Z.of_N (N.size m)) in *. assert (Hs : (0 <= s)%Z) by (unfold s; lia).
  assert (He : (e < 0)%Z) by (destruct hex; lia).
  assert ((0 <=? e)%Z = false) as -> by lia.
  symmetry. apply Z.leb_le.
  assert (G : (2 ^ s * 2 ^ k <= base_of hex ^ (- e))%Z).
  { destruct hex; cbn [base_of] in *.
    - rewrite <- Z.pow_add_r by lia. apply Z.pow_le_mono_r; lia.
    - apply Z.le_trans with (10 ^ (s + 400))%Z; [|apply Z.pow_le_mono_r; lia].
      rewrite Z.pow_add_r by lia.
      assert (A1 : (2 ^ s <= 10 ^ s)%Z) by (apply Z.pow_le_mono_l; lia).
      assert (A2 : (2 ^ k <= 2 ^ 1075)%Z) by (apply Z.pow_le_mono_r; lia).
      pose proof pow2_1075_le_pow10_400 as A3.
      assert (0 < 2 ^ s)%Z by (apply Z.pow_pos_nonneg; lia).
      apply Z.mul_le_mono_nonneg; lia. }
  assert (0 < base_of hex ^ (- e))%Z by (apply Z.pow_pos_nonneg; lia).
  assert (Z.of_N m * 2 ^ k <= 2 ^ s * 2 ^ k)%Z by (apply Z.mul_le_mono_nonneg_r; lia).
  assert (1 * base_of hex ^ (- e) <= a * base_of hex ^ (- e))%Z by (apply Z.mul_le_mono_nonneg_r; lia).
  lia.
Qed.

Lemma fnum_abs_unfold hex m e :
  fnum_abs hex m e =
  if (0 <=? e)%Z then inject_Z (Z.of_N m * base_of hex ^ e)
  else Qmake (Z.of_N m) (Z.to_pos (base_of hex ^ (- e))).
Proof. reflexivity. Qed.

Lemma fnum_abs_nonneg hex m e : (0 <= fnum_abs hex m e)%Q.
Proof.
  rewrite fnum_abs_unfold. pose proof (base_ge2 hex).
  destruct (0 <=? e)%Z eqn:E; unfold Qle; cbn [Qnum Qden inject_Z].
  - assert (0 < base_of hex ^ e)%Z by (apply Z.pow_pos_nonneg; lia). nia.
  - lia.
Qed.

Lemma num_le_exact_Q hex m e a k p : (0 <= k)%Z -> Z.pos p = (2 ^ k)%Z ->
  (num_le_exact hex m e a k = true <-> (fnum_abs hex m e <= Qmake a p)%Q).
Proof.
  intros Hk Hp. rewrite num_le_exact_unfold by exact Hk. rewrite fnum_abs_unfold.
  pose proof (base_ge2 hex).
  destruct (0 <=? e)%Z eqn:E; unfold Qle; cbn [Qnum Qden inject_Z]; rewrite Hp.
  - rewrite Z.leb_le. lia.
  - rewrite Z.leb_le. rewrite Z2Pos.id by (apply Z.pow_pos_nonneg; lia). reflexivity.
Qed.

Lemma pos_2_53 : Z.pos (2 ^ 53) = (2 ^ 53)%Z.  Proof. reflexivity. Qed.
Lemma pos_2_1075 : Z.pos (2 ^ 1075) = (2 ^ 1075)%Z.  Proof. vm_compute. reflexivity. Qed.

Lemma le_one_plus_spec hex m e :
  num_le hex m e (2 ^ 53 + 1) 53 = true <-> (fnum_abs hex m e <= one_plus_half_ulp)%Q.
Proof.
  rewrite num_le_exact_eq; [| change (53 + 1)%Z with 54%Z; split; [vm_compute; discriminate | vm_compute; discriminate] | lia].
  apply num_le_exact_Q; [lia | exact pos_2_53].
Qed.

Lemma le_tiny_spec hex m e :
  num_le hex m e 1 1075 = true <-> (fnum_abs hex m e <= half_min_subnormal)%Q.
Proof.
  rewrite num_le_exact_eq; [| split; [lia | pose proof (Z.pow_pos_nonneg 2 (1075 + 1)); lia] | lia].
  apply num_le_exact_Q; [lia | exact pos_2_1075].
Qed.

Lemma le_one_spec hex m e : num_le hex m e 1 0 = true <-> (fnum_abs hex m e <= 1)%Q.
Proof.
  rewrite num_le_exact_eq; [| cbn; lia | lia].
  apply (num_le_exact_Q hex m e 1 0 1%positive); [lia | reflexivity].
Qed.

(* ================================================================ opacity *)
Lemma Qmake_nonneg a p : (0 <= a)%Z -> (0 <= Qmake a p)%Q.
Proof. intro H. unfold Qle. cbn [Qnum Qden]. lia. Qed.

Lemma one_le_one_plus_half_ulp : (1 <= one_plus_half_ulp)%Q.
Proof.
  assert (E : one_plus_half_ulp = Qmake (Z.pos (2 ^ 53) + 1) (2 ^ 53)) by reflexivity.
  rewrite E. generalize (2 ^ 53)%positive. intro p. unfold Qle. cbn [Qnum Qden]. lia.
Qed.

Lemma half_min_subnormal_nonneg : (0 <= half_min_subnormal)%Q.
Proof. unfold half_min_subnormal. apply Qmake_nonneg. lia. Qed.

Lemma rounds_into_unit_b_spec hex neg m e :
  rounds_into_unit_b hex neg m e = true <-> RoundsIntoUnit (fnum_Q hex neg m e).
Proof.
  unfold rounds_into_unit_b, RoundsIntoUnit, fnum_Q.
  pose proof (fnum_abs_nonneg hex m e) as P.
  pose proof half_min_subnormal_nonneg as T0.
  assert (U0 : (0 <= one_plus_half_ulp)%Q) by (apply Qle_trans with 1%Q; [discriminate | exact one_le_one_plus_half_ulp]).
  destruct neg.
  - rewrite le_tiny_spec. split.
    + intro H. split; [apply Qopp_le_compat; exact H|].
      apply Qle_trans with 0%Q; [|exact U0]. apply (Qopp_le_compat 0 (fnum_abs hex m e)) in P. exact P.
    + intros [H _]. apply Qopp_le_compat in H. rewrite !Qopp_involutive in H. exact H.
  - rewrite le_one_plus_spec. split.
    + intro H. split; [|exact H]. apply Qle_trans with 0%Q; [|exact P].
      apply (Qopp_le_compat 0 half_min_subnormal) in T0. exact T0.
    + intros [_ H]. exact H.
Qed.

Lemma doc_opacity_rounded_b_spec v : doc_opacity_rounded_b v = true <-> DocOpacityRounded v.
Proof.
  unfold doc_opacity_rounded_b, DocOpacityRounded, NumberLit. split.
  - destruct (parse_float v) as [[| |hex neg m e]|] eqn:E; try discriminate.
    intro H. apply rounds_into_unit_b_spec in H. exists (fnum_Q hex neg m e). split; [|exact H].
    exists hex, neg, m, e. auto.
  - intros (x & (hex & neg & m & e & E & ->) & R). rewrite E. apply rounds_into_unit_b_spec. exact R.
Qed.

(* the acceptance test of Style.Apply("opacity"): all strings *)
(* the pinned test `f < 0 || f > 1` (before 0fc4ab54b): NaN passes *)
Theorem opacity_pinned_accept_iff v :
  opacity_accepts_pinned v = true <-> parse_float v = Some FNaN \/ DocOpacityRounded v.
Proof.
  rewrite <- doc_opacity_rounded_b_spec. unfold doc_opacity_rounded_b, opacity_accepts_pinned.
  destruct (parse_float v) as [[|neg|hex neg m e]|] eqn:E.
  - cbn. split; auto.
  - destruct neg; cbn; split; try discriminate; intros [H|H]; discriminate.
  - cbn [flt_lt0 flt_gt1]. unfold rounds_into_unit_b.
    destruct neg; cbn [negb andb orb].
    + rewrite orb_false_r, negb_involutive. split; [auto | intros [H|H]; [discriminate | exact H]].
    + rewrite negb_involutive. split; [auto | intros [H|H]; [discriminate | exact H]].
  - split; [discriminate | intros [H|H]; discriminate].
Qed.

(* the repaired test `!(f >= 0 && f <= 1)`: all strings, unconditional *)
Theorem opacity_accept_iff (g : list N -> bool) c v :
  accepts g c KOpacity v = true <-> DocOpacityRounded v.
Proof.
  rewrite <- doc_opacity_rounded_b_spec. unfold doc_opacity_rounded_b. cbn [accepts].
  destruct (parse_float v) as [[|neg|hex neg m e]|] eqn:E.
  - cbn. split; discriminate.
  - destruct neg; cbn; split; discriminate.
  - cbn [flt_ge0 flt_le1 flt_lt0 flt_gt1]. unfold rounds_into_unit_b.
    destruct neg; cbn [negb andb orb].
    + rewrite negb_involutive, andb_true_r. tauto.
    + rewrite negb_involutive. tauto.
  - split; discriminate.
Qed.

Lemma strict_unit_rounds x : (0 <= x)%Q -> (x <= 1)%Q -> RoundsIntoUnit x.
Proof.
  intros H0 H1. split.
  - apply Qle_trans with 0%Q; [|exact H0].
    apply (Qopp_le_compat 0 half_min_subnormal). exact half_min_subnormal_nonneg.
  - apply Qle_trans with 1%Q; [exact H1 | exact one_le_one_plus_half_ulp].
Qed.

Theorem opacity_complete (g : list N -> bool) c v : DocOpacity v -> accepts g c KOpacity v = true.
Proof.
  intros (x & L & H0 & H1). apply opacity_accept_iff. exists x. split; [exact L|].
  apply strict_unit_rounds; assumption.
Qed.

Definition str_NaN : list N := [78; 97; 78].

(* historical: the pinned code accepted NaN, the repaired code rejects it *)
Theorem opacity_pinned_refuted (g : list N -> bool) :
  opacity_accepts_pinned str_NaN = true /\ ~ DocOpacityRounded str_NaN /\ ~ DocOpacity str_NaN /\
  accepts g CObj KOpacity str_NaN = false.
Proof.
  split; [reflexivity|]. split; [|split; [|reflexivity]].
  - intros (x & (hex & neg & m & e & E & _) & _). vm_compute in E. discriminate.
  - intros (x & (hex & neg & m & e & E & _) & _). vm_compute in E. discriminate.
Qed.

(* ================================================================ decider = documented domain *)
Lemma in_doc_theme_b z : existsb (Z.eqb z) doc_theme_ids = true <-> In z doc_theme_ids.
Proof. apply existsb_Zeqb_In. Qed.

Ltac int_family := apply int_in_b_spec; intro z; cbn beta; clear; lia.

Theorem doc_b_spec (g : list N -> bool) c k v : doc_b g c k v = true <-> DocDomain g c k v.
Proof.
  destruct k; cbn [doc_b DocDomain].
  - apply doc_opacity_rounded_b_spec.
  - apply doc_color_b_spec.
  - apply doc_color_b_spec.
  - apply spells_one_of_b_spec; ascii_of_doc.
  - int_family.
  - int_family.
  - int_family.
  - apply mem_word_In.
  - apply mem_word_In.
  - apply mem_word_In.
  - apply spells_one_of_b_spec; ascii_of_doc.
  - int_family.
  - apply doc_color_b_spec.
  - apply mem_word_In.
  - apply mem_word_In.
  - apply mem_word_In.
  - apply mem_word_In.
  - apply mem_word_In.
  - apply mem_word_In.
  - apply spells_one_of_b_spec; ascii_of_doc.
  - int_family.
  - int_family.
  - int_family.
  - int_family.
  - int_family.
  - int_family.
  - int_family.
  - int_family.
  - int_family.
  - apply spells_one_of_b_spec; ascii_of_doc.
  - destruct c; rewrite ?orb_true_iff, !spells_one_of_b_spec by ascii_of_doc; try tauto.
    destruct v; cbn [nonempty negb]; split; auto; intros [H|H]; auto; discriminate.
  - apply int_in_b_spec. intro z. apply in_doc_theme_b.
  - apply int_in_b_spec. intro z. apply in_doc_theme_b.
  - apply int_in_b_spec. intro z. tauto.
  - apply mem_word_In.
  - apply mem_word_In.
  - apply mem_word_In.
  - apply mem_word_In.
  - apply mem_word_In.
Qed.

(* ================================================================ accept <-> documented domain *)
(* every keyword in every context, except shape on arrowheads and connections (open finding) *)
Definition clean (c : ctx) (k : kw) : bool :=
  match k, c with KShape, CObj => true | KShape, _ => false | _, _ => true end.

Ltac int_accept := rewrite atoi_in_is_int_in_b; apply int_in_b_spec; intro z; cbn beta; clear; lia.

Lemma theme_accept v :
  atoi_in v (fun z => existsb (Z.eqb z) theme_ids) = true <-> IntIn v (fun z => In z doc_theme_ids).
Proof.
  rewrite atoi_in_is_int_in_b. apply int_in_b_spec. intro z. rewrite existsb_Zeqb_In. apply theme_ids_In.
Qed.

(* ---------------------------------------------------------------- shape *)
Lemma is_shape_spec v : is_shape v = true <-> v = [] \/ SpellsOneOf v doc_shapes.
Proof.
  unfold is_shape. assert (A : ascii_table doc_shapes = true) by ascii_of_doc.
  destruct (go_lower v) as [|r l] eqn:E.
  - apply go_lower_nil in E. split; auto.
  - assert (Hne : v <> []) by (intro; subst; discriminate).
    rewrite <- E. rewrite (table_spec shapes doc_shapes v shapes_doc A). split; [auto | intros [H|H]; [contradiction | exact H]].
Qed.

(* the pinned EqualFold comparison agreed with the table only away from the byte C5 (U+017F) *)
Lemma is_shape_pinned_guarded v : v <> [] -> ~ In 197 v -> (is_shape_pinned v = true <-> SpellsOneOf v doc_shapes).
Proof.
  intros Hne H197. unfold is_shape_pinned.
  pose proof (go_lower_nonempty v Hne) as Hl.
  pose proof (go_lower_no_long_s_len (length v) v (le_n _) H197) as Hs.
  assert (A : ascii_table doc_shapes = true) by ascii_of_doc.
  destruct (go_lower v) as [|r l] eqn:E; [congruence|].
  rewrite fold_s_id by exact Hs. rewrite <- E. apply table_spec; [exact shapes_doc | exact A].
Qed.

Lemma is_arrowhead_spec v : is_arrowhead v = true <-> SpellsOneOf v doc_arrowheads.
Proof. unfold is_arrowhead. apply table_spec; [exact arrowheads_doc | ascii_of_doc]. Qed.

Theorem accept_iff_in_domain (g : list N -> bool) c k v :
  clean c k = true -> (accepts g c k v = true <-> DocDomain g c k v).
Proof.
  destruct k; cbn [clean]; intros Hc; cbn [accepts DocDomain].
  - apply opacity_accept_iff with (g := g) (c := c).
  - apply valid_color_spec.
  - apply valid_color_spec.
  - apply table_spec; [exact fill_patterns_doc | ascii_of_doc].
  - int_accept.
  - int_accept.
  - int_accept.
  - apply is_bool_spec.
  - apply is_bool_spec.
  - apply is_bool_spec.
  - apply table_spec; [exact fonts_doc | ascii_of_doc].
  - int_accept.
  - apply valid_color_spec.
  - apply is_bool_spec.
  - apply is_bool_spec.
  - apply is_bool_spec.
  - apply is_bool_spec.
  - apply is_bool_spec.
  - apply is_bool_spec.
  - apply table_spec; [exact text_transforms_doc | ascii_of_doc].
  - int_accept.
  - int_accept.
  - int_accept.
  - int_accept.
  - int_accept.
  - int_accept.
  - int_accept.
  - int_accept.
  - int_accept.
  - apply table_spec; [exact directions_doc | ascii_of_doc].
  - destruct c; try discriminate. apply is_shape_spec.
  - apply theme_accept.
  - apply theme_accept.
  - rewrite atoi_in_is_int_in_b. apply int_in_b_spec. intro z. tauto.
  - apply is_bool_spec.
  - apply is_bool_spec.
  - rewrite mem_word_In. apply same_set_In. exact label_positions_doc.
  - rewrite mem_word_In. apply same_set_In. exact label_positions_doc.
  - rewrite mem_word_In. apply same_set_In. exact tooltip_positions_doc.
Qed.

(* ---------------------------------------------------------------- width / height: history *)
Theorem size_pinned_accept_iff v : size_accepts_pinned v = true <-> IntIn v (fun _ => True).
Proof.
  unfold size_accepts_pinned. rewrite atoi_in_is_int_in_b. apply int_in_b_spec. intro z. tauto.
Qed.

Definition str_minus5 : list N := [45; 53].

Lemma IntLit_minus5 : IntLit str_minus5 (-5)%Z.
Proof.
  change (-5)%Z with (- Z.of_N (pos_val [53%N]))%Z. apply IL_minus. split; [discriminate|].
  constructor; [reflexivity | constructor].
Qed.

(* the pinned code accepted -5 for width/height; the repaired code rejects it *)
Theorem size_pinned_refuted (g : list N -> bool) :
  size_accepts_pinned str_minus5 = true /\ ~ DocDomain g CObj KWidth str_minus5 /\
  ~ DocDomain g CObj KHeight str_minus5 /\
  accepts g CObj KWidth str_minus5 = false /\ accepts g CObj KHeight str_minus5 = false.
Proof.
  split; [reflexivity|].
  assert (H : ~ IntIn str_minus5 (fun z => 0 <= z)%Z).
  { intros (z & L & _ & Hz). pose proof (IntLit_fun _ _ _ L IntLit_minus5). lia. }
  split; [exact H|]. split; [exact H|]. split; reflexivity.
Qed.

(* ---------------------------------------------------------------- shape on arrowheads (open finding) *)
(* on arrowheads (and connections) the compiler also lets every object shape through *)
Theorem shape_arrowhead_guarded (g : list N -> bool) v :
  v <> [] ->
  (accepts g CArrow KShape v = true <-> SpellsOneOf v doc_arrowheads \/ SpellsOneOf v doc_shapes).
Proof.
  intros Hne. cbn [accepts]. rewrite orb_true_iff, is_arrowhead_spec, is_shape_spec. tauto.
Qed.

Definition str_long_s_quare : list N := [197; 191; 113; 117; 97; 114; 101].   (* "ſquare" *)
Definition str_cloud : list N := [99; 108; 111; 117; 100].

Lemma not_spells_by_decider v tbl :
  ascii_table tbl = true -> spells_one_of_b v tbl = false -> ~ SpellsOneOf v tbl.
Proof. intros A H S. apply (spells_one_of_b_spec v tbl A) in S. congruence. Qed.

(* historical: EqualFold let "ſquare" through and it was stored verbatim; now rejected *)
Theorem shape_pinned_refuted (g : list N -> bool) :
  is_shape_pinned str_long_s_quare = true /\ ~ SpellsOneOf str_long_s_quare doc_shapes /\
  accepts g CObj KShape str_long_s_quare = false.
Proof.
  split; [reflexivity|]. split; [|reflexivity].
  apply not_spells_by_decider; [ascii_of_doc | vm_compute; reflexivity].
Qed.

Theorem shape_arrowhead_refuted (g : list N -> bool) :
  accepts g CArrow KShape str_cloud = true /\ ~ DocDomain g CArrow KShape str_cloud.
Proof.
  split; [reflexivity|]. cbn [DocDomain]. apply not_spells_by_decider; [ascii_of_doc | vm_compute; reflexivity].
Qed.

Theorem shape_arrowhead_complete (g : list N -> bool) v :
  DocDomain g CArrow KShape v -> accepts g CArrow KShape v = true.
Proof. cbn [DocDomain accepts]. intro H. apply is_arrowhead_spec in H. rewrite H. apply orb_true_r. Qed.

(* ================================================================ accepted values reach the graph unchanged *)
Definition lower_char (r : N) : Prop := r < 128 /\ lowerA r = r.
Definition lower_table (tbl : list (list N)) : bool :=
  forallb (forallb (fun r => (r <? 128) && (lowerA r =? r))) tbl.

Lemma low_shapes : lower_table shapes = true.  Proof. vm_compute. reflexivity. Qed.
Lemma low_arrow : lower_table arrowheads = true.  Proof. vm_compute. reflexivity. Qed.
Lemma low_fonts : lower_table fonts = true.  Proof. vm_compute. reflexivity. Qed.
Lemma low_dirs : lower_table directions = true.  Proof. vm_compute. reflexivity. Qed.

Lemma lower_table_word tbl w : lower_table tbl = true -> In w tbl -> Forall lower_char w.
Proof.
  unfold lower_table. rewrite forallb_forall. intros H Hw. specialize (H w Hw).
  apply forallb_Forall in H. eapply Forall_impl; [|exact H]. cbn. intros a Ha. unfold lower_char. lia.
Qed.

Lemma go_lower_encode l :
  Forall (fun r => r = long_s \/ lower_char r) l -> go_lower (encode_lower l) = l.
Proof.
  induction 1 as [|r l Hr _ IH]; [reflexivity|].
  unfold encode_lower in *. cbn [flat_map].
  destruct Hr as [-> | [Hlt Hfix]].
  - change (long_s =? long_s) with true. cbn [app]. rewrite go_lower_long_s, IH. reflexivity.
  - assert ((r =? long_s) = false) as -> by (unfold long_s; lia).
    cbn [app]. rewrite go_lower_ascii by exact Hlt. rewrite Hfix, IH. reflexivity.
Qed.

Lemma fold_s_chars l w : fold_s l = w -> Forall lower_char w -> Forall (fun r => r = long_s \/ lower_char r) l.
Proof.
  revert w. induction l as [|r l IH]; intros w E F; [constructor|].
  cbn [fold_s map] in E. subst w. inversion F as [|? ? Hr Hl]; subst. constructor.
  - destruct (r =? long_s) eqn:Er; [left; apply N.eqb_eq; exact Er | right; exact Hr].
  - apply (IH (fold_s l)); [reflexivity | exact Hl].
Qed.

Lemma lower_chars_plain l : Forall lower_char l -> Forall (fun r => r = long_s \/ lower_char r) l.
Proof. intro H. eapply Forall_impl; [|exact H]. cbn. auto. Qed.


(* Property clause 3 on the model: the value the compiler stores is the input, or (keyword-valued
   attributes) equal to it up to letter case.  Only exception: an empty object shape means "unset"
   and becomes the default shape. *)
Theorem accepted_value_unchanged (g : list N -> bool) c k v :
  accepts g c k v = true -> ~ (c = CObj /\ k = KShape /\ v = []) ->
  stored c k v = v \/ (keyword_valued k = true /\ go_lower (stored c k v) = go_lower v).
Proof.
  intros Acc Hex.
  destruct k; try (left; reflexivity).
  - (* font *) right. split; [reflexivity|]. cbn [stored accepts] in *. apply mem_word_In in Acc.
    apply go_lower_encode. apply lower_chars_plain. apply (lower_table_word fonts); [exact low_fonts | exact Acc].
  - (* direction *) right. split; [reflexivity|]. cbn [stored accepts] in *. apply mem_word_In in Acc.
    apply go_lower_encode. apply lower_chars_plain. apply (lower_table_word directions); [exact low_dirs | exact Acc].
  - (* shape *)
    assert (Sh : is_shape v = true -> go_lower v <> [] -> Forall (fun r => r = long_s \/ lower_char r) (go_lower v)).
    { unfold is_shape. destruct (go_lower v) as [|r l] eqn:E; [congruence|]. intros M _. apply mem_word_In in M.
      apply lower_chars_plain. apply (lower_table_word shapes); [exact low_shapes | exact M]. }
    assert (Ah : is_arrowhead v = true -> Forall (fun r => r = long_s \/ lower_char r) (go_lower v)).
    { unfold is_arrowhead. intro M. apply mem_word_In in M. apply lower_chars_plain. apply (lower_table_word arrowheads); [exact low_arrow | exact M]. }
    destruct (go_lower v) as [|r l] eqn:E.
    + apply go_lower_nil in E. subst v. destruct c; [exfalso; apply Hex; auto | left; reflexivity ..].
    + right. split; [reflexivity|].
      assert (St : stored c KShape v = encode_lower (r :: l)).
      { cbn [stored]. rewrite E. destruct c; reflexivity. }
      rewrite St. apply go_lower_encode.
      assert (Ne : r :: l <> []) by discriminate.
      cbn [accepts] in Acc. destruct c.
      * apply Sh; assumption.
      * apply orb_prop in Acc as [Acc|Acc]; [apply Sh | apply Ah]; assumption.
      * apply orb_prop in Acc as [Acc|Acc]; [apply Sh | apply Ah]; assumption.
      * apply orb_prop in Acc as [Acc|Acc]; [apply Sh | apply Ah]; assumption.
Qed.

(* the boolean clause evaluated by Check.v on the implementation's stored value is this property *)
Lemma unchanged_clause_sound k v s :
  (bytes_eqb v s || (keyword_valued k && bytes_eqb (go_lower v) (go_lower s))) = true <->
  (s = v \/ (keyword_valued k = true /\ go_lower s = go_lower v)).
Proof.
  rewrite orb_true_iff, andb_true_iff, !bytes_eqb_eq. split; intros [H|[H1 H2]]; auto.
Qed.

(* ================================================================ plain decimal literals through ParseFloat *)
Definition dd (c : N) : Prop := is_digit c = true \/ c = 46.

Lemma dd_facts c : dd c ->
  (c =? c_plus) = false /\ (c =? c_minus) = false /\ (c =? c_us) = false /\ lowerA c = c /\ c < 65.
Proof. unfold dd, is_digit, c_plus, c_minus, c_us, lowerA. intros [H | ->]; [|cbn; lia]. repeat split; try lia.
  destruct ((65 <=? c) && (c <=? 90)) eqn:E; lia. all: lia. Qed.

Lemma pos_val_app a b : pos_val (a ++ b) = pos_val a * 10 ^ N.of_nat (length b) + pos_val b.
Proof.
  induction a as [|d a IH]; [cbn [app pos_val]; lia|].
  cbn [app pos_val]. rewrite IH, app_length, Nat2N.inj_add, N.pow_add_r. ring.
Qed.

Lemma scan_mant_digits ds : Forall (fun d => is_digit d = true) ds ->
  forall r m fr sawdot sawdig,
  scan_mant false (ds ++ r) m fr sawdot sawdig =
  scan_mant false r (m * 10 ^ N.of_nat (length ds) + pos_val ds)
            (if sawdot then fr + N.of_nat (length ds) else fr) sawdot (sawdig || nonempty ds).
Proof.
  induction 1 as [|d ds Hd _ IH]; intros r m fr sawdot sawdig.
  - cbn [app length pos_val nonempty]. change (N.of_nat 0) with 0. rewrite N.pow_0_r, orb_false_r.
    replace (m * 1 + 0) with m by lia. destruct sawdot; [replace (fr + 0) with fr by lia|]; reflexivity.
  - cbn [app scan_mant].
    assert (E1 : (d =? c_us) = false) by (unfold is_digit, c_us in *; lia).
    assert (E2 : (d =? c_dot) = false) by (unfold is_digit, c_dot in *; lia).
    rewrite E1, E2, Hd. rewrite IH. cbn [length pos_val nonempty].
    rewrite Nat2N.inj_succ, N.pow_succ_r'.
    f_equal; [ring | destruct sawdot; lia | destruct sawdig; reflexivity].
Qed.

Lemma uok_no_underscore hex s : ~ In c_us s -> forall saw, saw <> 2 -> uok_loop hex s saw = true.
Proof.
  induction s as [|c r IH]; intros Hn saw Hs; cbn [uok_loop].
  - destruct (saw =? 2) eqn:E; [apply N.eqb_eq in E; contradiction | reflexivity].
  - assert (Hc : (c =? c_us) = false) by (apply N.eqb_neq; intro; subst; apply Hn; left; reflexivity).
    assert (Hr : ~ In c_us r) by (intro; apply Hn; right; assumption).
    destruct (is_digit c || hex && is_hexletter c); [apply IH; [exact Hr | discriminate]|].
    rewrite Hc. assert ((saw =? 2) = false) as -> by (apply N.eqb_neq; exact Hs).
    apply IH; [exact Hr | discriminate].
Qed.

Lemma underscore_ok_no_underscore s : ~ In c_us s -> underscore_ok s = true.
Proof.
  intro Hn. unfold underscore_ok.
  assert (Ht : ~ In c_us (snd (split_sign s))).
  { destruct s as [|c r]; [exact Hn|]. cbn [split_sign].
    destruct (c =? c_plus); [|destruct (c =? c_minus)]; cbn [snd]; try exact Hn;
      intro; apply Hn; right; assumption. }
  destruct (snd (split_sign s)) as [|z [|x r]]; try (apply uok_no_underscore; [exact Ht | discriminate]).
  destruct ((z =? c_zero) && ((lowerA x =? 98) || (lowerA x =? 111) || (lowerA x =? 120))).
  - apply uok_no_underscore; [|discriminate]. intro; apply Ht; right; right; assumption.
  - apply uok_no_underscore; [exact Ht | discriminate].
Qed.

Lemma bytes_eqb_head c r d w : c <> d -> bytes_eqb (c :: r) (d :: w) = false.
Proof. intro H. unfold bytes_eqb. cbn [list_eqb]. apply N.eqb_neq in H. rewrite H. reflexivity. Qed.

Lemma special_dd_head c r : dd c -> special (c :: r) = None /\ special (43 :: c :: r) = None /\ special (45 :: c :: r) = None.
Proof.
  intro H. destruct (dd_facts c H) as (Hp & Hm & _ & Hl & Hlt).
  assert (N1 : c <> 105) by lia. assert (N2 : c <> 110) by lia.
  unfold special. rewrite Hp, Hm. cbn [orb map].
  change (43 =? c_plus) with true. change (45 =? c_plus) with false. change (45 =? c_minus) with true.
  cbn [orb]. rewrite Hl. unfold str_inf, str_infinity, str_nan.
  rewrite !(bytes_eqb_head c _ 105) by exact N1. rewrite (bytes_eqb_head c _ 110) by exact N2.
  cbn [orb]. auto.
Qed.

Lemma hex_prefix_dd t : Forall dd t -> hex_prefix t = None.
Proof.
  intro F. unfold hex_prefix. destruct t as [|z [|x [|y r]]]; try reflexivity.
  inversion F as [|? ? _ F']; subst. inversion F' as [|? ? Hx _]; subst.
  destruct (dd_facts x Hx) as (_ & _ & _ & Hl & Hlt). rewrite Hl.
  assert ((x =? 120) = false) as -> by lia. rewrite andb_false_r. reflexivity.
Qed.

Lemma read_float_nonempty s : s <> [] ->
  read_float s =
  let (neg, t) := split_sign s in
  let hex := match hex_prefix t with Some _ => true | None => false end in
  let u := match hex_prefix t with Some r => r | None => t end in
  match scan_mant hex u 0 0 false false with
  | (m, fr, sawdig, rest) =>
      if negb sawdig then None
      else
        match rest with
        | [] => if hex then None
                else if underscore_ok s then Some (FNum false neg m (- Z.of_N fr)%Z) else None
        | c :: r =>
            if lowerA c =? (if hex then 112 else 101) then
              match read_exp r with
              | Some e => if underscore_ok s
                          then Some (FNum hex neg m (e - Z.of_N (if hex then 4 * fr else fr))%Z) else None
              | None => None
              end
            else None
        end
  end.
Proof. destruct s; [congruence | reflexivity]. Qed.

Lemma Forall_digit_dd l : Forall (fun d => is_digit d = true) l -> Forall dd l.
Proof. intro H. eapply Forall_impl; [|exact H]. intros a Ha. left. exact Ha. Qed.

Lemma digits_no_us l : Forall dd l -> ~ In c_us l.
Proof.
  intros F Hin. rewrite Forall_forall in F. specialize (F _ Hin).
  destruct (dd_facts _ F) as (_ & _ & H & _). discriminate H.
Qed.

Theorem parse_float_decimal v neg ip fp :
  DecimalLit v neg ip fp ->
  parse_float v = Some (FNum false neg (pos_val (ip ++ fp)) (- Z.of_nat (length fp))%Z).
Proof.
  intros (Fi & Ff & Hne & sg & Hsg & Hv).
  (* the unsigned part t and its shape *)
  assert (Ht : exists t, v = sg ++ t /\ Forall dd t /\ t <> [] /\
               scan_mant false t 0 0 false false = (pos_val (ip ++ fp), N.of_nat (length fp), true, [])).
  { destruct Hv as [-> | [-> ->]].
    - exists (ip ++ 46 :: fp). split; [reflexivity|]. split; [|split].
      + apply Forall_app. split; [apply Forall_digit_dd; exact Fi|].
        constructor; [right; reflexivity | apply Forall_digit_dd; exact Ff].
      + destruct ip; discriminate.
      + rewrite (scan_mant_digits ip Fi). cbn [scan_mant]. change (46 =? c_us) with false.
        change (46 =? c_dot) with true. cbv iota.
        rewrite <- (app_nil_r fp) at 1. rewrite (scan_mant_digits fp Ff). cbn [scan_mant].
        rewrite pos_val_app.
        assert (X3 : false || nonempty ip || nonempty fp = true).
        { destruct Hne as [H|H]; [destruct ip; [congruence | reflexivity] |
                                  destruct fp; [congruence | destruct ip; reflexivity]]. }
        rewrite X3.
        replace ((0 * 10 ^ N.of_nat (length ip) + pos_val ip) * 10 ^ N.of_nat (length fp) + pos_val fp)
          with (pos_val ip * 10 ^ N.of_nat (length fp) + pos_val fp) by lia.
        replace (0 + N.of_nat (length fp)) with (N.of_nat (length fp)) by lia. reflexivity.
    - exists ip. split; [reflexivity|]. split; [apply Forall_digit_dd; exact Fi|]. split.
      + destruct Hne as [H|H]; congruence.
      + rewrite <- (app_nil_r ip) at 1. rewrite (scan_mant_digits ip Fi). cbn [scan_mant length].
        rewrite app_nil_r.
        assert (X3 : false || nonempty ip = true) by (destruct ip; [destruct Hne; congruence | reflexivity]).
        rewrite X3. replace (0 * 10 ^ N.of_nat (length ip) + pos_val ip) with (pos_val ip) by lia.
        reflexivity. }
  destruct Ht as (t & -> & Ft & Hnt & Sc).
  destruct t as [|c r]; [congruence|]. inversion Ft as [|? ? Hc Fr]; subst.
  destruct (special_dd_head c r Hc) as (S0 & S1 & S2).
  destruct (dd_facts c Hc) as (Hp & Hm & _).
  assert (Us : ~ In c_us (c :: r)) by (apply digits_no_us; exact Ft).
  assert (Sp : special (sg ++ c :: r) = None /\ split_sign (sg ++ c :: r) = (neg, c :: r) /\
               ~ In c_us (sg ++ c :: r)).
  { destruct Hsg as [[-> ->] | [[-> ->] | [-> ->]]]; cbn [app split_sign].
    - rewrite Hp, Hm. auto.
    - change (43 =? c_plus) with true. split; [exact S1 | split; [reflexivity|]].
      intros [E|E]; [discriminate E | exact (Us E)].
    - change (45 =? c_plus) with false. change (45 =? c_minus) with true.
      split; [exact S2 | split; [reflexivity|]]. intros [E|E]; [discriminate E | exact (Us E)]. }
  destruct Sp as (Sp & Ss & Un).
  unfold parse_float. rewrite Sp. rewrite read_float_nonempty by (destruct sg; discriminate).
  rewrite Ss. rewrite (hex_prefix_dd (c :: r) Ft). cbv zeta. rewrite Sc. cbn [negb].
  rewrite (underscore_ok_no_underscore _ Un). rewrite nat_N_Z. reflexivity.
Qed.

Lemma decimal_value_eq neg ip fp :
  (fnum_Q false neg (pos_val (ip ++ fp)) (- Z.of_nat (length fp)) == decimal_Q neg ip fp)%Q.
Proof.
  unfold fnum_Q, decimal_Q. set (M := Z.of_N (pos_val (ip ++ fp))).
  assert (E : (fnum_abs false (pos_val (ip ++ fp)) (- Z.of_nat (length fp)) ==
               Qmake M (Z.to_pos (10 ^ Z.of_nat (length fp))))%Q).
  { rewrite fnum_abs_unfold. fold M. destruct (length fp) as [|n].
    - cbn. unfold Qeq. cbn. lia.
    - assert ((0 <=? - Z.of_nat (S n))%Z = false) as -> by lia.
      rewrite Z.opp_involutive. reflexivity. }
  destruct neg; [rewrite E; reflexivity | exact E].
Qed.

Lemma RoundsIntoUnit_compat x y : (x == y)%Q -> RoundsIntoUnit x -> RoundsIntoUnit y.
Proof. unfold RoundsIntoUnit. intros E [H1 H2]. rewrite <- E. auto. Qed.

(* opacity on plain decimal literals, stated without the parser *)
Lemma opacity_of_parsed (g : list N -> bool) c v hex neg m e :
  parse_float v = Some (FNum hex neg m e) ->
  (accepts g c KOpacity v = true <-> RoundsIntoUnit (fnum_Q hex neg m e)).
Proof.
  intro P. rewrite opacity_accept_iff. split.
  - intros (x & (h' & n' & m' & e' & E & ->) & R). rewrite P in E. inversion E; subst. exact R.
  - intro R. exists (fnum_Q hex neg m e). split; [exists hex, neg, m, e; auto | exact R].
Qed.

Theorem opacity_plain_decimal (g : list N -> bool) c v neg ip fp :
  DecimalLit v neg ip fp ->
  (accepts g c KOpacity v = true <-> RoundsIntoUnit (decimal_Q neg ip fp)).
Proof.
  intro D. rewrite (opacity_of_parsed g c v _ _ _ _ (parse_float_decimal v neg ip fp D)). split; intro R.
  - eapply RoundsIntoUnit_compat; [apply decimal_value_eq | exact R].
  - eapply RoundsIntoUnit_compat; [symmetry; apply decimal_value_eq | exact R].
Qed.

(* ================================================================ decimal literals with an exponent *)
Lemma scan_exp_small ds : Forall (fun d => is_digit d = true) ds ->
  forall e j, e < 10 ^ N.of_nat j -> (j + length ds <= 4)%nat ->
  scan_exp ds e = Some (e * 10 ^ N.of_nat (length ds) + pos_val ds).
Proof.
  induction 1 as [|d ds Hd _ IH]; intros e j He Hj.
  - cbn [scan_exp length pos_val]. change (N.of_nat 0) with 0. rewrite N.pow_0_r. f_equal. lia.
  - cbn [scan_exp length pos_val] in *.
    assert (E1 : (d =? c_us) = false) by (unfold is_digit, c_us in *; lia).
    rewrite E1, Hd.
    assert (J3 : (j <= 3)%nat) by lia.
    assert (P : 10 ^ N.of_nat j <= 10 ^ 3) by (apply N.pow_le_mono_r; lia).
    assert (Hlt : (e <? 10000) = true) by (change (10 ^ 3) with 1000 in P; lia).
    rewrite Hlt. rewrite (IH (10 * e + dval d) (S j)).
    + rewrite Nat2N.inj_succ, N.pow_succ_r'. f_equal. ring.
    + rewrite Nat2N.inj_succ, N.pow_succ_r'. assert (dval d <= 9) by (unfold is_digit, dval in *; lia). lia.
    + lia.
Qed.

Lemma read_exp_lit esg eneg ed :
  (esg = [] /\ eneg = false \/ esg = [43] /\ eneg = false \/ esg = [45] /\ eneg = true) ->
  Forall (fun d => is_digit d = true) ed -> ed <> [] -> (length ed <= 4)%nat ->
  read_exp (esg ++ ed) = Some (if eneg then (- Z.of_N (pos_val ed))%Z else Z.of_N (pos_val ed)).
Proof.
  intros Hs Fd Hne Hl. destruct ed as [|d r]; [congruence|].
  assert (Hd : is_digit d = true) by (inversion Fd; auto).
  destruct (digit_not_sign d Hd) as [Hp Hm].
  assert (Sc : scan_exp (d :: r) 0 = Some (pos_val (d :: r))).
  { rewrite (scan_exp_small (d :: r) Fd 0 0%nat); [f_equal; lia | cbn; lia | cbn [length] in *; lia]. }
  destruct Hs as [[-> ->] | [[-> ->] | [-> ->]]]; cbn [app]; unfold read_exp; cbn [split_sign].
  - rewrite Hp, Hm, Hd, Sc. reflexivity.
  - change (43 =? c_plus) with true. cbv iota. rewrite Hd, Sc. reflexivity.
  - change (45 =? c_plus) with false. change (45 =? c_minus) with true. cbv iota. rewrite Hd, Sc. reflexivity.
Qed.

Lemma scan_mant_stop c r m fr sawdot sawdig :
  (c =? c_us) = false -> (c =? c_dot) = false -> is_digit c = false ->
  scan_mant false (c :: r) m fr sawdot sawdig = (m, fr, sawdig, c :: r).
Proof. intros E1 E2 E3. cbn [scan_mant]. rewrite E1, E2, E3. reflexivity. Qed.

Lemma hex_prefix_none t :
  (match t with _ :: x :: _ => lowerA x =? 120 | _ => false end) = false -> hex_prefix t = None.
Proof.
  unfold hex_prefix. destruct t as [|z [|x [|y r]]]; try reflexivity.
  intro H. rewrite H, andb_false_r. reflexivity.
Qed.

Theorem parse_float_decimal_exp v neg ip fp eneg ed :
  DecimalExpLit v neg ip fp eneg ed ->
  parse_float v =
  Some (FNum false neg (pos_val (ip ++ fp)) (exp_value eneg ed - Z.of_nat (length fp))%Z).
Proof.
  intros (Fi & Ff & Hne & Fe & Ene & El & sg & esg & ec & mant & Hsg & Hesg & Hec & Hmant & ->).
  set (tail := ec :: esg ++ ed).
  assert (Hstop : (ec =? c_us) = false /\ (ec =? c_dot) = false /\ is_digit ec = false /\ lowerA ec = 101).
  { destruct Hec as [-> | ->]; repeat split; reflexivity. }
  destruct Hstop as (S1 & S2 & S3 & S4).
  assert (Hm : Forall dd mant /\ mant <> [] /\
               scan_mant false (mant ++ tail) 0 0 false false =
               (pos_val (ip ++ fp), N.of_nat (length fp), true, tail)).
  { destruct Hmant as [-> | [-> ->]].
    - split; [|split].
      + apply Forall_app. split; [apply Forall_digit_dd; exact Fi|].
        constructor; [right; reflexivity | apply Forall_digit_dd; exact Ff].
      + destruct ip; discriminate.
      + rewrite <- app_assoc. rewrite (scan_mant_digits ip Fi). cbn [app scan_mant].
        change (46 =? c_us) with false. change (46 =? c_dot) with true. cbv iota.
        rewrite (scan_mant_digits fp Ff). unfold tail. rewrite scan_mant_stop by assumption.
        rewrite pos_val_app.
        assert (X3 : false || nonempty ip || nonempty fp = true).
        { destruct Hne as [H|H]; [destruct ip; [congruence | reflexivity] |
                                  destruct fp; [congruence | destruct ip; reflexivity]]. }
        rewrite X3.
        replace ((0 * 10 ^ N.of_nat (length ip) + pos_val ip) * 10 ^ N.of_nat (length fp) + pos_val fp)
          with (pos_val ip * 10 ^ N.of_nat (length fp) + pos_val fp) by lia.
        replace (0 + N.of_nat (length fp)) with (N.of_nat (length fp)) by lia. reflexivity.
    - split; [apply Forall_digit_dd; exact Fi|]. split; [destruct Hne as [H|H]; congruence|].
      rewrite (scan_mant_digits ip Fi). unfold tail. rewrite scan_mant_stop by assumption.
      rewrite app_nil_r. cbn [length].
      assert (X3 : false || nonempty ip = true) by (destruct ip; [destruct Hne; congruence | reflexivity]).
      rewrite X3. replace (0 * 10 ^ N.of_nat (length ip) + pos_val ip) with (pos_val ip) by lia. reflexivity. }
  destruct Hm as (Fm & Hmne & Sc).
  destruct mant as [|c r]; [congruence|]. inversion Fm as [|? ? Hc Fr]; subst.
  cbn [app] in *.
  destruct (special_dd_head c (r ++ tail) Hc) as (S0 & Sp1 & Sp2).
  destruct (dd_facts c Hc) as (Hp & Hmi & _).
  (* no underscore anywhere *)
  assert (Us : ~ In c_us (c :: r ++ tail)).
  { change (c :: r ++ tail) with ((c :: r) ++ tail). intro H. apply in_app_or in H as [H|H].
    - exact (digits_no_us _ Fm H).
    - unfold tail in H. destruct H as [H|H]; [unfold c_us in *; destruct Hec; subst; discriminate|].
      apply in_app_or in H as [H|H].
      + destruct Hesg as [[-> _] | [[-> _] | [-> _]]]; cbn in H; unfold c_us in H; intuition discriminate.
      + exact (digits_no_us _ (Forall_digit_dd _ Fe) H). }
  (* hex prefix impossible *)
  assert (Hx : hex_prefix (c :: r ++ tail) = None).
  { apply hex_prefix_none. destruct r as [|x r']; cbn [app].
    - unfold tail. rewrite S4. reflexivity.
    - inversion Fr as [|? ? Hx' _]; subst. destruct (dd_facts x Hx') as (_ & _ & _ & Hl & Hlt). rewrite Hl. lia. }
  assert (Sp : special (sg ++ c :: r ++ tail) = None /\ split_sign (sg ++ c :: r ++ tail) = (neg, c :: r ++ tail) /\
               ~ In c_us (sg ++ c :: r ++ tail)).
  { destruct Hsg as [[-> ->] | [[-> ->] | [-> ->]]]; cbn [app split_sign].
    - rewrite Hp, Hmi. auto.
    - change (43 =? c_plus) with true. split; [exact Sp1 | split; [reflexivity|]].
      intros [E|E]; [discriminate E | exact (Us E)].
    - change (45 =? c_plus) with false. change (45 =? c_minus) with true.
      split; [exact Sp2 | split; [reflexivity|]]. intros [E|E]; [discriminate E | exact (Us E)]. }
  destruct Sp as (Sp & Ss & Un).
  unfold parse_float. rewrite Sp. rewrite read_float_nonempty by (destruct sg; discriminate).
  rewrite Ss, Hx. cbv zeta. rewrite Sc. cbn [negb]. unfold tail in *. rewrite S4.
  change (101 =? 101) with true. cbv iota.
  rewrite (read_exp_lit esg eneg ed Hesg Fe Ene El).
  rewrite (underscore_ok_no_underscore _ Un). rewrite nat_N_Z. reflexivity.
Qed.

(* ================================================================ NaN spellings; opacity from a parsed number *)
Lemma read_float_not_special s : read_float s <> Some FNaN /\ forall b, read_float s <> Some (FInf b).
Proof.
  unfold read_float. destruct s as [|c0 r0]; [split; [discriminate | intro; discriminate]|].
  destruct (split_sign (c0 :: r0)) as [neg t].
  destruct (scan_mant (match hex_prefix t with Some _ => true | None => false end)
                      (match hex_prefix t with Some r => r | None => t end) 0 0 false false) as [[[m fr] sawdig] rest].
  destruct (negb sawdig); [split; [discriminate | intro; discriminate]|].
  destruct rest as [|c r].
  - destruct (match hex_prefix t with Some _ => true | None => false end); [split; [discriminate | intro; discriminate]|].
    destruct (underscore_ok (c0 :: r0)); split; try discriminate; intro; discriminate.
  - destruct (lowerA c =? _); [|split; [discriminate | intro; discriminate]].
    destruct (read_exp r); [|split; [discriminate | intro; discriminate]].
    destruct (underscore_ok (c0 :: r0)); split; try discriminate; intro; discriminate.
Qed.

Theorem parse_float_nan_iff v : parse_float v = Some FNaN <-> map lowerA v = str_nan.
Proof.
  unfold parse_float. split.
  - destruct (special v) as [f|] eqn:S.
    + intro E. inversion E; subst. unfold special in S. destruct v as [|c r]; [discriminate|].
      destruct ((c =? c_plus) || (c =? c_minus)).
      * destruct (bytes_eqb (map lowerA r) str_inf || bytes_eqb (map lowerA r) str_infinity); discriminate.
      * destruct (bytes_eqb (map lowerA (c :: r)) str_inf || bytes_eqb (map lowerA (c :: r)) str_infinity); [discriminate|].
        destruct (bytes_eqb (map lowerA (c :: r)) str_nan) eqn:B; [|discriminate]. apply bytes_eqb_eq in B. exact B.
    + intro E. exfalso. exact (proj1 (read_float_not_special v) E).
  - intro E. assert (S : special v = Some FNaN).
    { unfold special. destruct v as [|c r]; [discriminate|].
      assert (Hc : lowerA c = 110) by (cbn [map] in E; unfold str_nan in E; congruence).
      assert (Hs : (c =? c_plus) || (c =? c_minus) = false).
      { unfold lowerA, c_plus, c_minus in *. destruct ((65 <=? c) && (c <=? 90)) eqn:U; lia. }
      rewrite Hs, E. reflexivity. }
    rewrite S. reflexivity.
Qed.

Theorem opacity_decimal_exp (g : list N -> bool) c v neg ip fp eneg ed :
  DecimalExpLit v neg ip fp eneg ed ->
  (accepts g c KOpacity v = true <->
   RoundsIntoUnit (fnum_Q false neg (pos_val (ip ++ fp)) (exp_value eneg ed - Z.of_nat (length fp)))).
Proof. intro D. apply opacity_of_parsed. apply parse_float_decimal_exp. exact D. Qed.

(* the pinned acceptance differed from the documented domain exactly on the spellings of nan *)
Theorem opacity_pinned_guarded_spelling v :
  map lowerA v <> str_nan -> (opacity_accepts_pinned v = true <-> DocOpacityRounded v).
Proof. intro H. rewrite opacity_pinned_accept_iff, parse_float_nan_iff. tauto. Qed.

(* ================================================================ near constants *)
Lemma near_constants_ident : forallb ident_word doc_near_constants = true.
Proof. vm_compute. reflexivity. Qed.

Lemma doc_near_key_b_spec p : doc_near_key_b p = true <-> DocNearKey p.
Proof.
  unfold doc_near_key_b, DocNearKey. split.
  - destruct p as [[|w [|w2 r]]|]; try discriminate. intro H. apply mem_word_In in H. exists w. auto.
  - intros (w & -> & H). apply mem_word_In. exact H.
Qed.

Section NearProofs.
  Variable parse_key : list N -> option (list (list N)).

  (* unconditional, for every oracle: accepted iff the value denotes a one-element key naming a constant *)
  Theorem near_accept_iff v : near_accepts parse_key v = true <-> DocNearKey (parse_key v).
  Proof.
    rewrite <- doc_near_key_b_spec. unfold near_accepts, doc_near_key_b.
    destruct (parse_key v) as [[|w [|w2 r]]|]; try (split; intro; discriminate).
    rewrite !mem_word_In. apply (same_set_In _ _ near_constants_doc).
  Qed.

  (* ParseKey reads a word of lower-case letters and single hyphens as a one-element path *)
  Hypothesis H_ident : forall w, ident_word w = true -> parse_key w = Some [w].

  Theorem near_complete v : DocNear v -> near_accepts parse_key v = true.
  Proof.
    intro Hin. pose proof near_constants_ident as Hid. rewrite forallb_forall in Hid.
    apply near_accept_iff. exists v. split; [apply H_ident, Hid, Hin | exact Hin].
  Qed.
End NearProofs.

(* "top-center.foo": an oracle that satisfies the hypothesis and splits at the dot, as ParseKey does *)
Definition str_top_center : list N := [116;111;112;45;99;101;110;116;101;114].
Definition str_top_center_foo : list N := str_top_center ++ [46;102;111;111].
Definition pk_witness (w : list N) : option (list (list N)) :=
  if bytes_eqb w str_top_center_foo then Some [str_top_center; [102;111;111]] else Some [w].

Lemma ident_word_no_dot w : ident_word w = true -> ~ In 46 w.
Proof.
  assert (T : forall s b, ident_tail s b = true -> ~ In 46 s).
  { induction s as [|c r IH]; intros b H; [cbn; tauto|]. cbn [ident_tail] in H.
    assert (Hc : c <> 46).
    { intro; subst. cbn in H. discriminate. }
    destruct (is_lc c); [|destruct ((c =? 45) && negb b); [|discriminate]];
      apply IH in H; intros [E|E]; auto. }
  unfold ident_word. destruct w as [|c r]; [discriminate|]. intro H. apply andb_prop in H as [Hc H].
  apply T in H. intros [E|E]; [subst; discriminate Hc | auto].
Qed.

(* historical: the pinned validateNear compared only the first path element *)
Theorem near_pinned_refuted :
  (forall w, ident_word w = true -> pk_witness w = Some [w]) /\
  near_accepts_pinned pk_witness str_top_center_foo = true /\ ~ DocNearKey (pk_witness str_top_center_foo) /\
  near_accepts pk_witness str_top_center_foo = false.
Proof.
  split; [|split; [|split]].
  - intros w Hw. unfold pk_witness. destruct (bytes_eqb w str_top_center_foo) eqn:E; [|reflexivity].
    apply bytes_eqb_eq in E. subst. exfalso. apply (ident_word_no_dot _ Hw). vm_compute. tauto.
  - vm_compute. reflexivity.
  - intro H. apply doc_near_key_b_spec in H. vm_compute in H. discriminate.
  - vm_compute. reflexivity.
Qed.
