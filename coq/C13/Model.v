(* C13 — variable substitution.  Model of d2ir compiler.compileSubstitutions / resolveSubstitutions /
   resolveSubstitution on the scalar fragment.

   The substitution pass runs on the IR after compileMap.  The IR is modelled as a tree of fields: a name, an
   optional primary scalar, array values (scalars), and, when the field holds a map, its fields in order followed
   by its connections (a connection is processed like a field: primary, then its map).  A scalar is a string node
   of one of four kinds with its interpolation boxes; numbers and booleans are atoms.

   Fragment: variables have scalar values without substitutions of their own (a value that still contains a
   substitution, a map or array substituted as a whole, spread substitutions, block strings and null are outside:
   the model answers Uns and such programs are only compared against their textual twin by the harness).

   keq: Map.getField compares names with strings.EqualFold (an argument, instantiated in Check.v). *)
From Coq Require Import List NArith Bool.
Import ListNotations.
Open Scope N_scope.

Definition str := list N.

Fixpoint str_eqb (a b : str) : bool :=
  match a, b with
  | [], [] => true
  | x :: xs, y :: ys => (x =? y) && str_eqb xs ys
  | _, _ => false
  end.

Inductive box := BStr (s : str) | BSub (p : list str).        (* text  |  ${p1.p2...} *)
Inductive kind := KUnq | KDq | KSq | KAtom.                   (* unquoted, "double", 'single', number/boolean *)
Record scalar := Sc { sk : kind; sb : list box }.

(* d2ast ScalarString(): the text of the first box ("" when the first box is a substitution) *)
Definition scalar_string (v : scalar) : str :=
  match sb v with BStr s :: _ => s | _ => [] end.

Definition plain (v : scalar) : bool :=
  forallb (fun b => match b with BStr _ => true | BSub _ => false end) (sb v).

Inductive tree := T (name : str) (prim : option scalar) (arr : list scalar) (ismap : bool) (kids : list tree).
Definition tname (t : tree) := let (n, _, _, _, _) := t in n.
Definition tprim (t : tree) := let (_, p, _, _, _) := t in p.
Definition tarr (t : tree) := let (_, _, a, _, _) := t in a.
Definition tismap (t : tree) := let (_, _, _, m, _) := t in m.
Definition tkids (t : tree) := let (_, _, _, _, k) := t in k.

Inductive res (A : Type) :=
| Ok (a : A)
| Err            (* a compile error is reported *)
| Crash          (* nil dereference in the compiler *)
| Uns.           (* outside the modelled fragment *)
Arguments Ok {A} a.
Arguments Err {A}.
Arguments Crash {A}.
Arguments Uns {A}.

Definition bind {A B} (r : res A) (f : A -> res B) : res B :=
  match r with Ok a => f a | Err => Err | Crash => Crash | Uns => Uns end.

Section Subst.
Variable keq : str -> str -> bool.

Definition vars_name : str := [118;97;114;115].

(* Map.getField for one name *)
Definition get_field (m : list tree) (n : str) : option tree := find (fun t => keq (tname t) n) m.

Inductive look := Found (t : tree) | NotHere | Nil.   (* Nil: the walk continued into a field that has no map *)

(* resolveSubstitution(vars, node, substitution, isCurrentScopeVars).
   node_name / node_in_vars describe the node being resolved when it is a Field (None for array values and
   connections): the rule "do not resolve vars.x through the current scope's x". *)
Fixpoint resolve1 (vars : list tree) (p : list str) (node_name : option str) (node_in_vars is_current : bool) : look :=
  match p with
  | [] => NotHere
  | n :: rest =>
      match get_field vars n with
      | None => NotHere
      | Some f =>
          if match node_name with Some nn => str_eqb nn n | None => false end && is_current && node_in_vars
          then NotHere
          else match rest with
               | [] => Found f
               | _ => if tismap f then resolve1 (tkids f) rest node_name node_in_vars is_current
                      else Nil      (* vars = f.Map() = nil; vars.GetField dereferences it *)
               end
      end
  end.

(* for i, vars := range varsStack { resolvedField = resolveSubstitution(vars, ..., i == 0); if != nil {break} } *)
Fixpoint lookup_stack (stack : list (list tree)) (p : list str) (nn : option str) (inv : bool) (cur : bool) : look :=
  match stack with
  | [] => NotHere
  | vars :: rest =>
      match resolve1 vars p nn inv cur with
      | Found f => Found f
      | Nil => Nil
      | NotHere => lookup_stack rest p nn inv false
      end
  end.

(* the value a resolved variable contributes; variables without a scalar value or with unresolved parts are
   outside the fragment, except for the two cases that matter: no value at all *)
Inductive val := VScalar (v : scalar) | VNone | VComposite.
Definition value_of (f : tree) : val :=
  match tprim f with
  | Some v => VScalar v
  | None => if tismap f || match tarr f with [] => false | _ => true end then VComposite else VNone
  end.

(* case *d2ast.UnquotedString *)
Fixpoint subst_unq (stack : list (list tree)) (nn : option str) (inv : bool) (alone : bool) (bs : list box)
  : res (list box + scalar) :=
  (* inl: boxes with substitutions replaced by text (to be coalesced); inr: the whole node replaced *)
  match bs with
  | [] => Ok (inl [])
  | BStr s :: rest => bind (subst_unq stack nn inv false rest)
                        (fun r => match r with inl l => Ok (inl (BStr s :: l)) | inr v => Ok (inr v) end)
  | BSub p :: rest =>
      match lookup_stack stack p nn inv true with
      | Nil => Crash
      | NotHere => Err                                   (* could not resolve variable *)
      | Found f =>
          match value_of f with
          | VNone => Err                                 (* cannot substitute variable without value *)
          | VComposite => Uns
          | VScalar v =>
              if negb (plain v) then Uns
              else if alone && match rest with [] => true | _ => false end
                   then Ok (inr v)                       (* node.Primary().Value = resolvedField.Primary().Value *)
                   else bind (subst_unq stack nn inv false rest)
                          (fun r => match r with
                                    | inl l => Ok (inl (BStr (scalar_string v) :: l))
                                    | inr w => Ok (inr w) end)
          end
      end
  end.

(* case *d2ast.DoubleQuotedString *)
Fixpoint subst_dq (stack : list (list tree)) (nn : option str) (inv : bool) (bs : list box) : res (list box) :=
  match bs with
  | [] => Ok []
  | BStr s :: rest => bind (subst_dq stack nn inv rest) (fun l => Ok (BStr s :: l))
  | BSub p :: rest =>
      match lookup_stack stack p nn inv true with
      | Nil => Crash
      | NotHere => Err
      | Found f =>
          match value_of f with
          | VNone => Crash                               (* resolvedField.Primary().Value with Primary() == nil *)
          | VComposite => Err                            (* cannot substitute map variable in quotes *)
          | VScalar v =>
              if negb (plain v) then Uns
              else bind (subst_dq stack nn inv rest) (fun l => Ok (BStr (scalar_string v) :: l))
          end
      end
  end.

(* Coalesce: one box with the concatenated text *)
Definition coalesce (bs : list box) : list box :=
  [BStr (flat_map (fun b => match b with BStr s => s | BSub _ => [] end) bs)].

Definition has_sub (bs : list box) : bool := existsb (fun b => match b with BSub _ => true | BStr _ => false end) bs.

(* resolveSubstitutions(varsStack, node) for the node's primary scalar *)
Definition subst_scalar (stack : list (list tree)) (nn : option str) (inv : bool) (v : scalar) : res scalar :=
  match sk v with
  | KSq | KAtom => Ok v                                  (* no case in the type switch: untouched *)
  | KUnq =>
      if negb (has_sub (sb v)) then Ok v
      else bind (subst_unq stack nn inv true (sb v))
             (fun r => match r with inl l => Ok (Sc KUnq (coalesce l)) | inr w => Ok w end)
  | KDq =>
      if negb (has_sub (sb v)) then Ok v
      else bind (subst_dq stack nn inv (sb v)) (fun l => Ok (Sc KDq (coalesce l)))
  end.

Fixpoint map_res {A B} (f : A -> res B) (l : list A) : res (list B) :=
  match l with
  | [] => Ok []
  | a :: r => bind (f a) (fun b => bind (map_res f r) (fun bs => Ok (b :: bs)))
  end.

(* the vars map of a map: `f.Name.ScalarString() == "vars" && f.Name.IsUnquoted() && f.Map() != nil` *)
Definition vars_of (fields : list tree) : option (list tree) :=
  match find (fun t => str_eqb (tname t) vars_name && tismap t) fields with
  | Some t => Some (tkids t)
  | None => None
  end.

(* compileSubstitutions(m, varsStack); [in_vars]: m is the map of a field named vars *)
Fixpoint subst_tree (stack : list (list tree)) (in_vars : bool) (t : tree) {struct t} : res tree :=
  match t with
  | T name prim arr ismap kids =>
      let stack' := match vars_of kids with Some vm => vm :: stack | None => stack end in
      let fix go (l : list tree) : res (list tree) :=
        match l with
        | [] => Ok []
        | k :: r =>
            match subst_tree stack' (str_eqb name vars_name) k with
            | Ok k' => match go r with Ok r' => Ok (k' :: r') | Err => Err | Crash => Crash | Uns => Uns end
            | Err => Err | Crash => Crash | Uns => Uns
            end
        end in
      bind (match prim with
            | Some v => bind (subst_scalar stack (Some name) in_vars v) (fun w => Ok (Some w))
            | None => Ok None end)
        (fun prim' =>
      bind (map_res (subst_scalar stack None false) arr)
        (fun arr' =>
      if ismap then bind (go kids) (fun kids' => Ok (T name prim' arr' ismap kids'))
      else Ok (T name prim' arr' ismap kids)))
  end.

(* [go] is map_res *)
Definition subst_kids (stack' : list (list tree)) (b : bool) (l : list tree) : res (list tree) :=
  map_res (subst_tree stack' b) l.

(* the root map *)
Definition subst_root (fields : list tree) : res (list tree) :=
  let stack := match vars_of fields with Some vm => [vm] | None => [] end in
  map_res (subst_tree stack false) fields.

(* ---------------------------------------------------------------- specification: textual replacement

   env stack p: the field of variable p in the innermost enclosing vars block that defines it (the walk
   through the blocks, innermost first, without the self-reference rule of vars fields) *)
Definition env (stack : list (list tree)) (p : list str) : option tree :=
  match lookup_stack stack p None false true with Found f => Some f | _ => None end.

Definition env_text (stack : list (list tree)) (p : list str) : option scalar :=
  match env stack p with Some f => tprim f | None => None end.

(* every substitution replaced by the text of its value; a scalar that is exactly one substitution becomes the
   value itself (with its quoting); quoting is otherwise kept *)
Definition text_box (stack : list (list tree)) (b : box) : str :=
  match b with
  | BStr s => s
  | BSub p => match env_text stack p with Some v => scalar_string v | None => [] end
  end.

Definition textual_scalar (stack : list (list tree)) (v : scalar) : scalar :=
  match sk v with
  | KSq | KAtom => v
  | KUnq =>
      if negb (has_sub (sb v)) then v
      else match sb v with
           | [BSub p] => match env_text stack p with Some w => w | None => v end
           | bs => Sc KUnq [BStr (flat_map (text_box stack) bs)]
           end
  | KDq => if negb (has_sub (sb v)) then v else Sc KDq [BStr (flat_map (text_box stack) (sb v))]
  end.

Fixpoint textual_tree (stack : list (list tree)) (t : tree) : tree :=
  match t with
  | T name prim arr ismap kids =>
      let stack' := if ismap then match vars_of kids with Some vm => vm :: stack | None => stack end else stack in
      T name (option_map (textual_scalar stack) prim) (map (textual_scalar stack) arr) ismap
        (if ismap then map (textual_tree stack') kids else kids)
  end.

Definition textual_root (fields : list tree) : list tree :=
  let stack := match vars_of fields with Some vm => [vm] | None => [] end in
  map (textual_tree stack) fields.

(* side condition of the theorem, decidable: every variable block holds plain scalar leaves, no variable is named
   like a field of a vars block that refers to it (none refers: leaves are plain), and every substitution in the
   tree resolves to a scalar in its scope *)
Definition defined_box (stack : list (list tree)) (b : box) : bool :=
  match b with
  | BStr _ => true
  | BSub p => match env stack p with
              | Some f => match tprim f with Some v => plain v | None => false end
              | None => false
              end
  end.

Definition defined_scalar (stack : list (list tree)) (v : scalar) : bool :=
  match sk v with
  | KSq | KAtom => true
  | _ => forallb (defined_box stack) (sb v)
  end.

(* a vars block: fields with a plain scalar and no map, or maps of such *)
Fixpoint vars_ok (t : tree) : bool :=
  match t with
  | T _ prim arr ismap kids =>
      match arr with [] => true | _ => false end &&
      if ismap then match prim with None => forallb vars_ok kids | Some _ => false end
      else match prim with Some v => plain v | None => false end
  end.

Fixpoint closed_tree (stack : list (list tree)) (t : tree) : bool :=
  match t with
  | T name prim arr ismap kids =>
      match prim with Some v => defined_scalar stack v | None => true end
      && forallb (defined_scalar stack) arr
      && if ismap then
           if str_eqb name vars_name then forallb vars_ok kids
           else let stack' := match vars_of kids with Some vm => vm :: stack | None => stack end in
                forallb (closed_tree stack') kids
         else true
  end.

Definition closed_root (fields : list tree) : bool :=
  let stack := match vars_of fields with Some vm => [vm] | None => [] end in
  forallb (closed_tree stack) fields.

End Subst.

(* ASCII lower case; strings.EqualFold on the (ASCII) names the harness generates *)
Definition lower (b : N) : N := if (65 <=? b) && (b <=? 90) then b + 32 else b.
Definition keq_ascii (a b : str) : bool := str_eqb (map lower a) (map lower b).
