(* Executable checker for C13 cases. *)
From Coq Require Import List NArith Bool.
Import ListNotations.
Require Import V.Lib.RunCases.
Require Export V.C13.Model.
Open Scope N_scope.

(* projection of a compiled d2graph (same shape as in C12): per board the objects (AbsID; label, shape, fill,
   stroke, opacity, stroke-dash, classes) and connections (source, destination; label, stroke, opacity), sorted *)
Definition pobj := (str * list str)%type.
Definition pedge := (str * str * list str)%type.
Definition pboard := (str * list pobj * list pedge)%type.
Inductive gres := GErr | GOk (boards : list pboard).

Inductive ires := IErr | ICrash | IOk (fields : list tree).

Inductive case :=
| CSub (input : list tree) (impl : ires)
    (* input: the IR compileMap builds for the program (before the substitution pass), as the generator knows
       it; impl: the IR d2ir.Compile returns *)
| CTwin (g e : gres).
    (* d2compiler.Compile of the program, and of its textual twin: every ${x} replaced in the source text by
       the value of x in the innermost enclosing vars block; GErr for e when a variable is undefined *)

Definition strs_eqb := list_eqb str_eqb.

(* scalars are compared by kind and text *)
Definition kind_eqb (a b : kind) : bool :=
  match a, b with KUnq, KUnq | KDq, KDq | KSq, KSq | KAtom, KAtom => true | _, _ => false end.
Definition flat_text (v : scalar) : str := flat_map (fun b => match b with BStr s => s | BSub _ => [36] end) (sb v).
Definition scalar_eqb (a b : scalar) : bool := kind_eqb (sk a) (sk b) && str_eqb (flat_text a) (flat_text b).

Fixpoint tree_eqb (a b : tree) {struct a} : bool :=
  match a, b with
  | T n1 p1 a1 m1 k1, T n2 p2 a2 m2 k2 =>
      str_eqb n1 n2 && opt_eqb scalar_eqb p1 p2 && list_eqb scalar_eqb a1 a2 && Bool.eqb m1 m2
      && (fix go (l1 l2 : list tree) : bool :=
            match l1, l2 with
            | [], [] => true
            | x :: r1, y :: r2 => tree_eqb x y && go r1 r2
            | _, _ => false
            end) k1 k2
  end.

Definition check_sub (input : list tree) (impl : ires) : list N :=
  flag (match subst_root keq_ascii input, impl with
        | Ok t, IOk fs => list_eqb tree_eqb t fs
        | Err, IErr => true
        | Crash, ICrash => true
        | Uns, _ => true
        | _, _ => false
        end) 1
  (* subst_equiv_textual on the implementation's output *)
  ++ (if closed_root keq_ascii input
      then flag (match impl with
                 | IOk fs => list_eqb tree_eqb (textual_root keq_ascii input) fs
                 | _ => false end) 12
      else [])
  ++ flag (match impl with ICrash => false | _ => true end) 19.

Definition pobj_eqb (a b : pobj) : bool := str_eqb (fst a) (fst b) && strs_eqb (snd a) (snd b).
Definition pedge_eqb (a b : pedge) : bool :=
  str_eqb (fst (fst a)) (fst (fst b)) && str_eqb (snd (fst a)) (snd (fst b)) && strs_eqb (snd a) (snd b).

Fixpoint check_boards (g e : list pboard) : list N :=
  match g, e with
  | [], [] => []
  | b :: g', c :: e' =>
      flag (str_eqb (fst (fst b)) (fst (fst c))) 17
      ++ flag (strs_eqb (map fst (snd (fst b))) (map fst (snd (fst c)))) 10
      ++ flag (list_eqb pobj_eqb (snd (fst b)) (snd (fst c))) 11
      ++ flag (list_eqb pedge_eqb (snd b) (snd c)) 14
      ++ check_boards g' e'
  | _, _ => [17]
  end.

Definition check_case (c : case) : list N :=
  match c with
  | CSub input impl => check_sub input impl
  | CTwin g e =>
      match g, e with
      | GOk bg, GOk be => nodup N.eq_dec (check_boards bg be)
      | GErr, GErr => []
      | GOk _, GErr => [15]     (* an undefined variable (or a twin that does not compile) was accepted *)
      | GErr, GOk _ => [16]     (* the program is rejected although its twin compiles *)
      end
  end.
