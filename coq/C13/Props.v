(* C13 — Variable substitution equals textual replacement from the innermost scope.  Statements only. *)
From Coq Require Import List NArith Bool.
Import ListNotations.
Require Import V.C13.Model V.C13.Proofs V.C13.Check.
Open Scope N_scope.

(* subst_equiv_textual.  For every IR tree (any depth, any number of fields, vars blocks at any level, any
   name equality keq) in which every substitution refers to a variable with a scalar value visible from where
   it stands (closed_root, decidable), the substitution pass succeeds and produces exactly the tree in which
   each ${x} has been replaced by the text of x's value taken from the innermost enclosing vars block that
   defines it: inside unquoted and double-quoted text the text is spliced in and the quoting kept; a scalar that
   consists of one substitution becomes the value itself (number stays number, quoted stays quoted);
   single-quoted strings, numbers and booleans are untouched; primaries, array values, connection labels and
   attributes alike. *)
Theorem C13_subst_equiv_textual :
  forall (keq : str -> str -> bool) fields, closed_root keq fields = true ->
    subst_root keq fields = Ok (textual_root keq fields).
Proof. exact subst_root_textual. Qed.

(* the same for one scalar anywhere outside a vars block *)
Theorem C13_subst_scalar_equiv_textual :
  forall (keq : str -> str -> bool) stack nn v, defined_scalar keq stack v = true ->
    subst_scalar keq stack nn false v = Ok (textual_scalar keq stack v).
Proof. exact subst_scalar_textual. Qed.

(* innermost_scope_wins: what the inner block defines hides the outer blocks; what it does not mention is taken
   from outside *)
Theorem C13_innermost_scope_wins :
  forall (keq : str -> str -> bool) inner outer p,
    (forall f, env keq [inner] p = Some f -> env keq (inner :: outer) p = Some f) /\
    (resolve1 keq inner p None false true = NotHere -> env keq (inner :: outer) p = env keq outer p).
Proof. exact innermost_scope_wins. Qed.

(* single_quoted_never_substituted: whatever the scopes contain (also numbers and booleans) *)
Theorem C13_single_quoted_never_substituted :
  forall (keq : str -> str -> bool) stack nn inv bs,
    subst_scalar keq stack nn inv (Sc KSq bs) = Ok (Sc KSq bs) /\
    subst_scalar keq stack nn inv (Sc KAtom bs) = Ok (Sc KAtom bs).
Proof. exact single_quoted_untouched. Qed.

(* undefined_var_is_error: a scalar that mentions a variable no enclosing block defines never compiles, and the
   compiler reports an error when it is the first substitution of the scalar *)
Theorem C13_undefined_var_never_compiles :
  forall (keq : str -> str -> bool) stack nn inv v w p,
    (sk v = KUnq \/ sk v = KDq) -> In (BSub p) (sb v) -> lookup_stack keq stack p nn inv true = NotHere ->
    subst_scalar keq stack nn inv v <> Ok w.
Proof. exact undefined_never_ok. Qed.

Theorem C13_undefined_var_is_error :
  forall (keq : str -> str -> bool) stack nn inv k pre p rest,
    (k = KUnq \/ k = KDq) -> forallb (fun b => match b with BStr _ => true | _ => false end) pre = true ->
    lookup_stack keq stack p nn inv true = NotHere ->
    subst_scalar keq stack nn inv (Sc k (pre ++ BSub p :: rest)) = Err.
Proof. exact undefined_first_is_error. Qed.

(* Full statement "an invalid reference is an error" is false in two ways (both replayed on d2compiler.Compile,
   nil-pointer panics): a variable declared without a value used inside double quotes (`vars: {x}; a: "${x}"`),
   and a path that continues into a scalar variable (`vars: {a: 1}; x: ${a.b}`). *)
Theorem C13_invalid_reference_crash_refuted :
  subst_root keq_ascii [T [118;97;114;115] None [] true [T [120] None [] false []];
                        T [97] (Some (Sc KDq [BSub [[120]]])) [] false []] = Crash /\
  subst_root keq_ascii [T [118;97;114;115] None [] true [T [97] (Some (Sc KAtom [BStr [49]])) [] false []];
                        T [120] (Some (Sc KUnq [BSub [[97];[98]]])) [] false []] = Crash.
Proof. exact crash_witnesses. Qed.

(* non-vacuity *)
Example C13_subst_equiv_textual_satisfiable :
  closed_root keq_ascii [T [118;97;114;115] None [] true [T [118] (Some (Sc KUnq [BStr [104;105]])) [] false []];
                         T [120] (Some (Sc KUnq [BStr [112];BSub [[86]]])) [] false []] = true.
Proof. vm_compute. reflexivity. Qed.
Example C13_undefined_var_is_error_satisfiable :
  lookup_stack keq_ascii [[T [118] (Some (Sc KUnq [BStr [104]])) [] false []]] [[110]] None false true = NotHere.
Proof. vm_compute. reflexivity. Qed.

Print Assumptions C13_subst_equiv_textual.
Print Assumptions C13_subst_scalar_equiv_textual.
Print Assumptions C13_innermost_scope_wins.
Print Assumptions C13_single_quoted_never_substituted.
Print Assumptions C13_undefined_var_never_compiles.
Print Assumptions C13_undefined_var_is_error.
Print Assumptions C13_invalid_reference_crash_refuted.
