(* C13 — proofs about the substitution model. *)
From Coq Require Import List NArith Bool Lia.
Import ListNotations.
Require Import V.C13.Model.
Open Scope N_scope.

Section TreeInd.
Variable P : tree -> Prop.
Hypothesis H : forall n p a m kids, Forall P kids -> P (T n p a m kids).
Fixpoint tree_ind2 (t : tree) : P t :=
  match t with
  | T n p a m kids =>
      H n p a m kids ((fix go (l : list tree) : Forall P l :=
                         match l with
                         | [] => Forall_nil _
                         | k :: r => Forall_cons _ (tree_ind2 k) (go r)
                         end) kids)
  end.
End TreeInd.

Section Proofs.
Variable keq : str -> str -> bool.

Notation resolve1 := (resolve1 keq).
Notation lookup_stack := (lookup_stack keq).
Notation subst_unq := (subst_unq keq).
Notation subst_dq := (subst_dq keq).
Notation subst_scalar := (subst_scalar keq).
Notation subst_tree := (subst_tree keq).
Notation subst_root := (subst_root keq).
Notation env := (env keq).
Notation env_text := (env_text keq).
Notation text_box := (text_box keq).
Notation textual_scalar := (textual_scalar keq).
Notation textual_tree := (textual_tree keq).
Notation textual_root := (textual_root keq).
Notation defined_box := (defined_box keq).
Notation defined_scalar := (defined_scalar keq).
Notation closed_tree := (closed_tree keq).
Notation closed_root := (closed_root keq).

(* the self-reference rule only concerns fields of a vars block *)
Lemma resolve1_no_self : forall p vars nn cur, resolve1 vars p nn false cur = resolve1 vars p None false true.
Proof.
  induction p as [|n rest IH]; intros vars nn cur; simpl; [reflexivity|].
  destruct (get_field keq vars n) as [f|]; [|reflexivity].
  rewrite !andb_false_r. destruct rest; [reflexivity|]. destruct (tismap f); [apply IH | reflexivity].
Qed.

Lemma lookup_no_self : forall stack p nn cur, lookup_stack stack p nn false cur = lookup_stack stack p None false true.
Proof.
  induction stack as [|vars rest IH]; intros p nn cur; simpl; [reflexivity|].
  rewrite (resolve1_no_self p vars nn cur). destruct (resolve1 vars p None false true); try reflexivity.
  rewrite (IH p nn false), (IH p None false). reflexivity.
Qed.

Lemma plain_no_sub v : plain v = true -> has_sub (sb v) = false.
Proof.
  unfold plain, has_sub. induction (sb v) as [|b l IH]; simpl; [reflexivity|].
  destruct b; simpl; [assumption | discriminate].
Qed.

(* a plain scalar is left alone, by the mechanism and by textual replacement *)
Lemma subst_scalar_plain stack nn inv v : plain v = true -> subst_scalar stack nn inv v = Ok v.
Proof.
  intro Hp. unfold Model.subst_scalar. destruct (sk v); try reflexivity; rewrite (plain_no_sub v Hp); reflexivity.
Qed.
Lemma textual_scalar_plain stack v : plain v = true -> textual_scalar stack v = v.
Proof.
  intro Hp. unfold Model.textual_scalar. destruct (sk v); try reflexivity; rewrite (plain_no_sub v Hp); reflexivity.
Qed.

(* ---------------------------------------------------------------- scalars *)

Lemma defined_found stack p nn cur : defined_box stack (BSub p) = true ->
  exists f v, lookup_stack stack p nn false cur = Found f /\ tprim f = Some v /\ plain v = true
              /\ env_text stack p = Some v.
Proof.
  unfold Model.defined_box, Model.env_text, Model.env. rewrite (lookup_no_self stack p nn cur).
  destruct (lookup_stack stack p None false true) as [f| |]; try discriminate.
  destruct (tprim f) as [v|] eqn:E; [|discriminate]. intro Hp. exists f, v. auto.
Qed.

Lemma value_of_prim f v : tprim f = Some v -> value_of f = VScalar v.
Proof. unfold value_of. intros ->. reflexivity. Qed.

Lemma subst_unq_text stack nn : forall bs, forallb (defined_box stack) bs = true ->
  subst_unq stack nn false false bs = Ok (inl (map (fun b => BStr (text_box stack b)) bs)).
Proof.
  induction bs as [|b bs IH]; intro Hd; [reflexivity|]. simpl in Hd. apply andb_prop in Hd as [Hb Hd].
  destruct b as [s|p]; cbn [Model.subst_unq].
  - rewrite (IH Hd). reflexivity.
  - destruct (defined_found stack p nn true Hb) as (f & v & El & Ep & Hp & Et). rewrite El, (value_of_prim f v Ep), Hp.
    cbn [negb andb]. rewrite (IH Hd). cbn [bind map]. unfold Model.text_box at 2. rewrite Et. reflexivity.
Qed.

Lemma subst_dq_text stack nn : forall bs, forallb (defined_box stack) bs = true ->
  subst_dq stack nn false bs = Ok (map (fun b => BStr (text_box stack b)) bs).
Proof.
  induction bs as [|b bs IH]; intro Hd; [reflexivity|]. simpl in Hd. apply andb_prop in Hd as [Hb Hd].
  destruct b as [s|p]; cbn [Model.subst_dq].
  - rewrite (IH Hd). reflexivity.
  - destruct (defined_found stack p nn true Hb) as (f & v & El & Ep & Hp & Et). rewrite El, (value_of_prim f v Ep), Hp.
    cbn [negb]. rewrite (IH Hd). cbn [bind map]. unfold Model.text_box at 2. rewrite Et. reflexivity.
Qed.

Lemma coalesce_text stack bs :
  coalesce (map (fun b => BStr (text_box stack b)) bs) = [BStr (flat_map (text_box stack) bs)].
Proof. unfold coalesce. f_equal. f_equal. induction bs as [|b bs IH]; simpl; [reflexivity | rewrite IH; reflexivity]. Qed.

(* subst_equiv_textual, one scalar (not a field of a vars block) *)
Theorem subst_scalar_textual stack nn v : defined_scalar stack v = true ->
  subst_scalar stack nn false v = Ok (textual_scalar stack v).
Proof.
  unfold Model.defined_scalar, Model.subst_scalar, Model.textual_scalar. destruct v as [k bs]. cbn [sk sb].
  destruct k; try reflexivity; intro Hd; destruct (has_sub bs) eqn:Hs; cbn [negb]; try reflexivity.
  - (* unquoted *)
    destruct bs as [|b bs]; [discriminate|]. destruct b as [s|p].
    + cbn [Model.subst_unq]. simpl in Hd. rewrite (subst_unq_text stack nn bs Hd). cbn [bind].
      change (BStr s :: map (fun b => BStr (text_box stack b)) bs)
        with (map (fun b => BStr (text_box stack b)) (BStr s :: bs)).
      rewrite coalesce_text. destruct bs; reflexivity.
    + simpl in Hd. apply andb_prop in Hd as [Hb Hd].
      destruct (defined_found stack p nn true Hb) as (f & v & El & Ep & Hp & Et).
      cbn [Model.subst_unq]. rewrite El, (value_of_prim f v Ep), Hp. cbn [negb andb].
      destruct bs as [|b2 bs].
      * cbn [bind]. rewrite Et. reflexivity.
      * rewrite (subst_unq_text stack nn (b2 :: bs) Hd). cbn [bind].
        change (BStr (scalar_string v) :: map (fun b => BStr (text_box stack b)) (b2 :: bs))
          with (BStr (scalar_string v) :: map (fun b => BStr (text_box stack b)) (b2 :: bs)).
        assert (E : BStr (scalar_string v) = BStr (text_box stack (BSub p))) by (unfold Model.text_box; rewrite Et; reflexivity).
        rewrite E. rewrite <- (map_cons (fun b => BStr (text_box stack b)) (BSub p) (b2 :: bs)).
        rewrite coalesce_text. reflexivity.
  - (* double-quoted *)
    rewrite (subst_dq_text stack nn bs Hd). cbn [bind]. rewrite coalesce_text. reflexivity.
Qed.

(* single_quoted_never_substituted (and numbers / booleans): whatever the scopes hold *)
Theorem single_quoted_untouched stack nn inv bs :
  subst_scalar stack nn inv (Sc KSq bs) = Ok (Sc KSq bs) /\ subst_scalar stack nn inv (Sc KAtom bs) = Ok (Sc KAtom bs).
Proof. split; reflexivity. Qed.

(* undefined_var_is_error: if the scalar compiles, every variable it mentions was found in some scope;
   and a reference that no scope defines is reported as an error when it is the first substitution *)
Lemma subst_unq_ok stack nn inv : forall bs alone r, subst_unq stack nn inv alone bs = Ok r ->
  forall p, In (BSub p) bs -> exists f, lookup_stack stack p nn inv true = Found f.
Proof.
  induction bs as [|b bs IH]; intros alone r Hr p Hin; [destruct Hin|].
  destruct b as [s|q]; cbn [Model.subst_unq] in Hr.
  - destruct Hin as [E|Hin]; [discriminate|]. destruct (subst_unq stack nn inv false bs) eqn:E; try discriminate.
    eapply IH; eassumption.
  - destruct (lookup_stack stack q nn inv true) as [f| |] eqn:El; try discriminate.
    destruct Hin as [E|Hin]; [inversion E; subst; eauto|].
    destruct (value_of f); try discriminate. destruct (negb (plain v)); [discriminate|].
    destruct (alone && match bs with [] => true | _ => false end) eqn:Ea.
    + apply andb_prop in Ea as [_ Ea]. destruct bs; [destruct Hin | discriminate].
    + destruct (subst_unq stack nn inv false bs) eqn:E; try discriminate. eapply IH; eassumption.
Qed.

Lemma subst_dq_ok stack nn inv : forall bs r, subst_dq stack nn inv bs = Ok r ->
  forall p, In (BSub p) bs -> exists f, lookup_stack stack p nn inv true = Found f.
Proof.
  induction bs as [|b bs IH]; intros r Hr p Hin; [destruct Hin|].
  destruct b as [s|q]; cbn [Model.subst_dq] in Hr.
  - destruct Hin as [E|Hin]; [discriminate|]. destruct (subst_dq stack nn inv bs) as [l| | |] eqn:E; try discriminate.
    apply (IH l eq_refl p Hin).
  - destruct (lookup_stack stack q nn inv true) as [f| |] eqn:El; try discriminate.
    destruct Hin as [E|Hin]; [inversion E; subst; eauto|].
    destruct (value_of f); try discriminate. destruct (negb (plain v)); [discriminate|].
    destruct (subst_dq stack nn inv bs) as [l| | |] eqn:E; try discriminate. apply (IH l eq_refl p Hin).
Qed.

Theorem undefined_never_ok stack nn inv v w p :
  (sk v = KUnq \/ sk v = KDq) -> In (BSub p) (sb v) -> lookup_stack stack p nn inv true = NotHere ->
  subst_scalar stack nn inv v <> Ok w.
Proof.
  intros Hk Hin Hl Hr. unfold Model.subst_scalar in Hr.
  assert (Hs : has_sub (sb v) = true).
  { unfold has_sub. apply existsb_exists. exists (BSub p). auto. }
  destruct Hk as [Hk|Hk]; rewrite Hk, Hs in Hr; cbn [negb] in Hr.
  - destruct (subst_unq stack nn inv true (sb v)) eqn:E; try discriminate.
    destruct (subst_unq_ok stack nn inv _ _ _ E p Hin) as [f Hf]. congruence.
  - destruct (subst_dq stack nn inv (sb v)) eqn:E; try discriminate.
    destruct (subst_dq_ok stack nn inv _ _ E p Hin) as [f Hf]. congruence.
Qed.

Theorem undefined_first_is_error stack nn inv k pre p rest :
  (k = KUnq \/ k = KDq) -> forallb (fun b => match b with BStr _ => true | _ => false end) pre = true ->
  lookup_stack stack p nn inv true = NotHere ->
  subst_scalar stack nn inv (Sc k (pre ++ BSub p :: rest)) = Err.
Proof.
  intros Hk Hpre Hl. unfold Model.subst_scalar. cbn [sk sb].
  assert (Hs : has_sub (pre ++ BSub p :: rest) = true).
  { unfold has_sub. apply existsb_exists. exists (BSub p). split; [apply in_or_app; right; left; reflexivity | reflexivity]. }
  destruct Hk as [->| ->]; rewrite Hs; cbn [negb].
  - assert (E : forall alone, subst_unq stack nn inv alone (pre ++ BSub p :: rest) = Err).
    { clear Hs. induction pre as [|b pre IH]; intro alone.
      - cbn. rewrite Hl. reflexivity.
      - simpl in Hpre. destruct b; [|discriminate]. cbn [app Model.subst_unq]. rewrite (IH Hpre). reflexivity. }
    rewrite E. reflexivity.
  - assert (E : subst_dq stack nn inv (pre ++ BSub p :: rest) = Err).
    { clear Hs. induction pre as [|b pre IH].
      - cbn. rewrite Hl. reflexivity.
      - simpl in Hpre. destruct b; [|discriminate]. cbn [app Model.subst_dq]. rewrite (IH Hpre). reflexivity. }
    rewrite E. reflexivity.
Qed.

(* innermost_scope_wins *)
Theorem innermost_scope_wins inner outer p :
  (forall f, env [inner] p = Some f -> env (inner :: outer) p = Some f) /\
  (resolve1 inner p None false true = NotHere -> env (inner :: outer) p = env outer p).
Proof.
  unfold Model.env. cbn [Model.lookup_stack]. split.
  - intros f. destruct (resolve1 inner p None false true); try discriminate; auto.
  - intros ->. rewrite (lookup_no_self outer p None false). reflexivity.
Qed.

(* ---------------------------------------------------------------- trees *)

Lemma map_res_ok {A B} (f : A -> res B) (g : A -> B) l : Forall (fun a => f a = Ok (g a)) l -> map_res f l = Ok (map g l).
Proof. induction 1 as [|a l Ha _ IH]; simpl; [reflexivity|]. rewrite Ha. cbn [bind]. rewrite IH. reflexivity. Qed.

Lemma subst_tree_unfold stack iv n p a m kids :
  subst_tree stack iv (T n p a m kids) =
  bind (match p with
        | Some v => bind (subst_scalar stack (Some n) iv v) (fun w => Ok (Some w))
        | None => Ok None end)
    (fun prim' =>
  bind (map_res (subst_scalar stack None false) a)
    (fun arr' =>
  if m then
    bind (map_res (subst_tree (match vars_of kids with Some vm => vm :: stack | None => stack end) (str_eqb n vars_name)) kids)
      (fun kids' => Ok (T n prim' arr' m kids'))
  else Ok (T n prim' arr' m kids))).
Proof.
  cbn [Model.subst_tree].
  set (stack' := match vars_of kids with Some vm => vm :: stack | None => stack end).
  set (go := fix go (l : list tree) : res (list tree) :=
     match l with
     | [] => Ok []
     | k :: r =>
         match subst_tree stack' (str_eqb n vars_name) k with
         | Ok k' => match go r with Ok r' => Ok (k' :: r') | Err => Err | Crash => Crash | Uns => Uns end
         | Err => Err | Crash => Crash | Uns => Uns
         end
     end).
  assert (E : forall l, go l = map_res (subst_tree stack' (str_eqb n vars_name)) l).
  { induction l as [|k r IH]; [reflexivity|]. cbn [go map_res]. fold go. rewrite IH.
    destruct (subst_tree stack' (str_eqb n vars_name) k); try reflexivity. }
  destruct (match p with Some v => _ | None => _ end); try reflexivity. cbn [bind].
  destruct (map_res (subst_scalar stack None false) a); try reflexivity. cbn [bind].
  destruct m; [|reflexivity]. rewrite E. reflexivity.
Qed.

(* the fields of a vars block are plain: nothing happens to them *)
Lemma map_id_forall {A} (f : A -> A) l : Forall (fun a => f a = a) l -> map f l = l.
Proof. induction 1 as [|a l Ha _ IH]; simpl; [reflexivity | rewrite Ha, IH; reflexivity]. Qed.

Lemma vars_ok_fixed : forall t stack iv, vars_ok t = true ->
  subst_tree stack iv t = Ok t /\ textual_tree stack t = t.
Proof.
  induction t as [n p a m kids IH] using tree_ind2. intros stack iv Hv. cbn [vars_ok] in Hv.
  apply andb_prop in Hv as [Ha Hv]. destruct a; [|discriminate]. rewrite subst_tree_unfold.
  cbn [map_res bind Model.textual_tree map].
  destruct m.
  - destruct p; [discriminate|]. cbn [bind option_map].
    set (stack' := match vars_of kids with Some vm => vm :: stack | None => stack end).
    assert (K : Forall (fun k => subst_tree stack' (str_eqb n vars_name) k = Ok k /\ textual_tree stack' k = k) kids).
    { rewrite forallb_forall in Hv. rewrite Forall_forall in *. intros k Hk. apply IH; [assumption | apply Hv; assumption]. }
    split.
    + rewrite (map_res_ok _ (fun k => k)).
      * cbn [bind]. rewrite map_id. reflexivity.
      * eapply Forall_impl; [|exact K]. intros k [E _]. exact E.
    + f_equal. apply map_id_forall. eapply Forall_impl; [|exact K]. intros k [_ E]. exact E.
  - destruct p as [v|]; [|discriminate]. cbn [bind option_map].
    rewrite (subst_scalar_plain stack (Some n) iv v Hv), (textual_scalar_plain stack v Hv). auto.
Qed.

(* subst_equiv_textual *)
Theorem subst_tree_textual : forall t stack, closed_tree stack t = true ->
  subst_tree stack false t = Ok (textual_tree stack t).
Proof.
  induction t as [n p a m kids IH] using tree_ind2. intros stack Hc. cbn [Model.closed_tree] in Hc.
  apply andb_prop in Hc as [Hc Hk]. apply andb_prop in Hc as [Hp Ha].
  rewrite subst_tree_unfold. cbn [Model.textual_tree].
  assert (Ep : match p with
               | Some v => bind (subst_scalar stack (Some n) false v) (fun w => Ok (Some w))
               | None => Ok None end = Ok (option_map (textual_scalar stack) p)).
  { destruct p as [v|]; [|reflexivity]. rewrite (subst_scalar_textual stack (Some n) v Hp). reflexivity. }
  rewrite Ep. cbn [bind].
  rewrite (map_res_ok _ (textual_scalar stack)).
  2:{ rewrite forallb_forall in Ha. apply Forall_forall. intros v Hv. apply subst_scalar_textual. apply Ha. assumption. }
  cbn [bind]. destruct m; [|reflexivity].
  set (stack' := match vars_of kids with Some vm => vm :: stack | None => stack end) in *.
  destruct (str_eqb n vars_name) eqn:En.
  - (* the vars block itself *)
    rewrite forallb_forall in Hk.
    rewrite (map_res_ok _ (textual_tree stack')).
    + reflexivity.
    + apply Forall_forall. intros k Hin. destruct (vars_ok_fixed k stack' true (Hk k Hin)) as [E1 E2]. rewrite E2. exact E1.
  - rewrite forallb_forall in Hk. rewrite (map_res_ok _ (textual_tree stack')).
    + reflexivity.
    + rewrite Forall_forall in *. intros k Hin. apply IH; [assumption | apply Hk; assumption].
Qed.

Theorem subst_root_textual fields : closed_root fields = true -> subst_root fields = Ok (textual_root fields).
Proof.
  unfold Model.closed_root, Model.subst_root, Model.textual_root. intro Hc. rewrite forallb_forall in Hc.
  apply map_res_ok. apply Forall_forall. intros t Hin. apply subst_tree_textual. apply Hc. assumption.
Qed.

End Proofs.

(* `vars: {x}; a: "${x}"` and `vars: {a: 1}; x: ${a.b}`: nil dereferences (replayed on the real compiler) *)
Lemma crash_witnesses :
  subst_root keq_ascii [T [118;97;114;115] None [] true [T [120] None [] false []];
                        T [97] (Some (Sc KDq [BSub [[120]]])) [] false []] = Crash /\
  subst_root keq_ascii [T [118;97;114;115] None [] true [T [97] (Some (Sc KAtom [BStr [49]])) [] false []];
                        T [120] (Some (Sc KUnq [BSub [[97];[98]]])) [] false []] = Crash.
Proof. vm_compute. auto. Qed.
