(* C32 — ASCII rendering is total and keeps labels visible.  Statements only.

   Model.v is the canvas every drawing routine of d2ascii writes through (asciicanvas); a Go panic
   (negative make, index out of range, slice bounds out of range) is the result [Crash].
   PARTIAL: the shape and route drawing routines (d2ascii.go, asciishapes, asciiroute) are not
   modelled: that they only call these operations is by reading; their own slice expressions and the
   order in which they overwrite each other's cells are covered by the search on the implementation
   (Check.v: CRender), not by these theorems.  Full statement, not proved:
     forall laid-out diagram d and charset c, Render d c does not panic, and every single-line label
     of a plain shape of d is a contiguous part of some line of Render d c.                          *)
From Coq Require Import ZArith NArith List Bool.
Import ListNotations.
Require Import V.C32.Model V.C32.Proofs V.Gen.C32Charset.
Open Scope Z_scope.

(* no index out of range for ANY coordinates (negative ones included) on ANY canvas (empty and
   ragged ones included), any cell strings, any label (multi-line, non-ASCII) *)
Theorem C32_canvas_ops_total :
  forall (g : grid) (x y : Z) (s label : str),
    (exists b, in_bounds g x y = Ok b) /\ (exists g', set g x y s = Ok g') /\ (exists v, get g x y = Ok v)
    /\ (exists w, width g = Ok w) /\ (exists g', draw_label g x y label = Ok g').
Proof.
  intros g x y s label. split; [apply in_bounds_total|]. split; [destruct (set_total g x y s) as [g' [H _]]; eauto|].
  split; [apply get_total|]. split; [apply width_total|]. destruct (draw_label_total g x y label) as [g' [H _]]; eauto.
Qed.

(* ToByteArray: the two re-slicings and all indexings stay in range on any canvas *)
Theorem C32_to_byte_array_total :
  forall (g : grid) (vert horiz : str), vert <> [] -> horiz <> [] -> exists ls, to_lines g vert horiz = Ok ls.
Proof. exact to_lines_total. Qed.

(* New panics exactly for a negative height, or a negative width with at least one row *)
Theorem C32_new_crashes_iff :
  forall w h, new w h = Crash <-> (h < 0 \/ (0 < h /\ w < 0)).
Proof. exact new_crash_iff. Qed.

(* the standard character set, regenerated from the running code: every glyph is one 7-bit rune;
   both sets have the non-empty Vertical / Horizontal strings ToByteArray indexes *)
Theorem C32_ascii_charset_is_ascii :
  table_ascii_b ascii_table = true /\ ascii_vertical <> [] /\ ascii_horizontal <> []
  /\ unicode_vertical <> [] /\ unicode_horizontal <> [].
Proof. split; [vm_compute; reflexivity|]. repeat split; discriminate. Qed.

(* a single-line 7-bit label drawn where it fits is afterwards a contiguous part of its row *)
Theorem C32_draw_label_visible :
  forall (g : grid) (x y : Z) (label : str) (row : list str),
    index g y = Ok row -> 0 <= x < len row -> x + len label <= len row -> ascii_line label ->
    exists g' row', draw_label g x y label = Ok g' /\ index g' y = Ok row' /\ sublist_b label (concat row') = true.
Proof. exact draw_label_visible. Qed.

(* ... which fails for labels with a multi-byte rune that is not the last one: DrawLabel uses the
   byte offset of each rune as its column ("é!" on a fresh 10 x 1 canvas becomes "é !") *)
Theorem C32_draw_label_multibyte_gap_refuted :
  exists (g : grid) (x y : Z) (label : str) (row : list str),
    new 10 1 = Ok g /\ index g y = Ok row /\ 0 <= x < len row /\ x + len label <= len row /\
    exists g' row', draw_label g x y label = Ok g' /\ index g' y = Ok row' /\ sublist_b label (concat row') = false.
Proof.
  exists [repeat space 10], 0, 0, [233%N; 33%N], (repeat space 10).
  repeat split; try reflexivity; try (vm_compute; congruence).
  eexists. eexists. repeat split; vm_compute; reflexivity.
Qed.

(* non-vacuity of the hypotheses of C32_draw_label_visible *)
Example C32_visible_hyps_satisfiable :
  exists g row, new 12 3 = Ok g /\ index g 1 = Ok row /\ 0 <= 2 < len row /\ 2 + len [104; 105]%N <= len row
                /\ ascii_line [104; 105]%N.
Proof.
  eexists. eexists. split; [vm_compute; reflexivity|]. split; [vm_compute; reflexivity|].
  split; [vm_compute; split; congruence|]. split; [vm_compute; congruence|].
  intros r [<-|[<-|[]]]; split; vm_compute; congruence.
Qed.
Example C32_to_byte_array_hyps_satisfiable : ascii_vertical <> [] /\ ascii_horizontal <> [].
Proof. split; discriminate. Qed.

Print Assumptions C32_canvas_ops_total.
Print Assumptions C32_to_byte_array_total.
Print Assumptions C32_new_crashes_iff.
Print Assumptions C32_ascii_charset_is_ascii.
Print Assumptions C32_draw_label_visible.
Print Assumptions C32_draw_label_multibyte_gap_refuted.
