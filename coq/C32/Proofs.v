(* C32 — proofs about the canvas model. *)
From Coq Require Import ZArith NArith List Bool Lia.
Import ListNotations.
Require Import V.C32.Model.
Open Scope Z_scope.

(* ------------------------------------------------------------------ slice primitives *)
Lemma len_nonneg {A} (l : list A) : 0 <= len l.
Proof. unfold len. lia. Qed.

Lemma index_ok {A} (l : list A) i : 0 <= i < len l -> exists v, index l i = Ok v /\ nth_error l (Z.to_nat i) = Some v.
Proof.
  intro H. unfold index.
  replace ((i <? 0) || (len l <=? i)) with false by (symmetry; apply orb_false_intro; [apply Z.ltb_ge|apply Z.leb_gt]; lia).
  destruct (nth_error l (Z.to_nat i)) eqn:E; [eauto|].
  apply nth_error_None in E. unfold len in H. lia.
Qed.

Lemma index_inv {A} (l : list A) i v : index l i = Ok v -> 0 <= i < len l /\ nth_error l (Z.to_nat i) = Some v.
Proof.
  unfold index. destruct ((i <? 0) || (len l <=? i)) eqn:E; [discriminate|].
  apply orb_false_elim in E. destruct E as [E1 E2]. apply Z.ltb_ge in E1. apply Z.leb_gt in E2.
  destruct (nth_error l (Z.to_nat i)) eqn:N; [|discriminate]. intro H. injection H as <-. split; [lia|reflexivity].
Qed.

Lemma assign_ok {A} (l : list A) i v : 0 <= i < len l -> assign l i v = Ok (upd_nat l (Z.to_nat i) v).
Proof.
  intro H. unfold assign.
  replace ((i <? 0) || (len l <=? i)) with false by (symmetry; apply orb_false_intro; [apply Z.ltb_ge|apply Z.leb_gt]; lia).
  reflexivity.
Qed.

Lemma upd_nat_length {A} (l : list A) i v : length (upd_nat l i v) = length l.
Proof. revert i. induction l as [|x t IH]; intros [|j]; simpl; auto. Qed.

Lemma upd_nat_same {A} (l : list A) i v : (i < length l)%nat -> nth_error (upd_nat l i v) i = Some v.
Proof. revert i. induction l as [|x t IH]; intros [|j] H; simpl in *; try lia; [reflexivity|apply IH; lia]. Qed.

Lemma upd_nat_other {A} (l : list A) i j v : i <> j -> nth_error (upd_nat l i v) j = nth_error l j.
Proof. revert i j. induction l as [|x t IH]; intros [|i] [|j] H; simpl; try reflexivity; try congruence. apply IH. congruence. Qed.

Lemma upd_nat_split {A} (l : list A) i v : (i < length l)%nat ->
  upd_nat l i v = firstn i l ++ v :: skipn (S i) l.
Proof.
  revert i. induction l as [|x t IH]; intros [|j] H; simpl in *; try lia; [reflexivity|].
  rewrite IH by lia. reflexivity.
Qed.

(* ------------------------------------------------------------------ New *)
Lemma make_spec {A} n (v : A) : make n v = if n <? 0 then Crash else Ok (repeat v (Z.to_nat n)).
Proof. reflexivity. Qed.

Lemma new_crash_iff w h : new w h = Crash <-> (h < 0 \/ (0 < h /\ w < 0)).
Proof.
  unfold new, make, bind. destruct (h <? 0) eqn:Eh.
  - apply Z.ltb_lt in Eh. split; [intros _; left; lia|reflexivity].
  - apply Z.ltb_ge in Eh. destruct (repeat [] (Z.to_nat h)) eqn:R.
    + assert (h = 0). { destruct (Z.to_nat h) eqn:T; [lia|discriminate]. }
      split; [discriminate|lia].
    + assert (0 < h). { destruct (Z.to_nat h) eqn:T; [discriminate|lia]. }
      destruct (w <? 0) eqn:Ew.
      * apply Z.ltb_lt in Ew. split; [intros _; right; lia|reflexivity].
      * apply Z.ltb_ge in Ew. split; [discriminate|lia].
Qed.

(* a canvas made by New is a rectangle of spaces *)
Lemma new_ok w h g : new w h = Ok g ->
  length g = Z.to_nat h /\ forall row, In row g -> row = repeat space (Z.to_nat w).
Proof.
  unfold new, make, bind. destruct (h <? 0); [discriminate|].
  remember (repeat ([] : list str) (Z.to_nat h)) as rows eqn:R.
  assert (L : length rows = Z.to_nat h) by (rewrite R; apply repeat_length).
  destruct rows as [|r0 rt].
  - intro H. injection H as <-. split; [exact L|intros ? []].
  - destruct (w <? 0); [discriminate|]. intro H. injection H as <-. split.
    + simpl in *. rewrite map_length. exact L.
    + intros row I. change (In row (map (fun _ : list str => repeat space (Z.to_nat w)) (r0 :: rt))) in I. apply in_map_iff in I. destruct I as [? [<- _]]. reflexivity.
Qed.

(* ------------------------------------------------------------------ IsInBounds / Set / Get *)
Lemma in_bounds_spec g x y :
  (exists row, in_bounds g x y = Ok true /\ index g y = Ok row /\ 0 <= y < len g /\ 0 <= x < len row)
  \/ (in_bounds g x y = Ok false /\ forall row, index g y = Ok row -> ~ (0 <= x < len row)).
Proof.
  unfold in_bounds. destruct ((0 <=? y) && (y <? len g)) eqn:E.
  - apply andb_prop in E. destruct E as [E1 E2]. apply Z.leb_le in E1. apply Z.ltb_lt in E2.
    destruct (index_ok g y (conj E1 E2)) as [row [Er _]].
    destruct (0 <=? x) eqn:Ex.
    + rewrite Er. cbn [bind]. apply Z.leb_le in Ex. destruct (x <? len row) eqn:Ex2.
      * left. exists row. apply Z.ltb_lt in Ex2. repeat split; auto.
      * right. apply Z.ltb_ge in Ex2. split; [reflexivity|]. intros r Hr. try rewrite Er in Hr. injection Hr as <-. lia.
    + right. apply Z.leb_gt in Ex. split; [reflexivity|]. intros; lia.
  - right. split; [reflexivity|]. intros row Hr. apply index_inv in Hr.
    apply andb_false_iff in E. destruct E as [E|E]; [apply Z.leb_gt in E|apply Z.ltb_ge in E]; lia.
Qed.

Lemma in_bounds_total g x y : exists b, in_bounds g x y = Ok b.
Proof. destruct (in_bounds_spec g x y) as [[row [H _]]|[H _]]; eauto. Qed.

Lemma set_spec g x y s :
  (exists row, in_bounds g x y = Ok true /\ index g y = Ok row /\ 0 <= y < len g /\ 0 <= x < len row
               /\ set g x y s = Ok (upd_nat g (Z.to_nat y) (upd_nat row (Z.to_nat x) s)))
  \/ (in_bounds g x y = Ok false /\ set g x y s = Ok g).
Proof.
  unfold set. destruct (in_bounds_spec g x y) as [[row [H [Er [Hy Hx]]]]|[H _]]; rewrite H; cbn [bind].
  - left. exists row. repeat split; try tauto. rewrite Er. cbn [bind]. rewrite (assign_ok row x s Hx). cbn [bind].
    apply assign_ok. exact Hy.
  - right. split; reflexivity.
Qed.

Lemma set_total g x y s : exists g', set g x y s = Ok g' /\ length g' = length g.
Proof.
  destruct (set_spec g x y s) as [[row [_ [_ [_ [_ H]]]]]|[_ H]]; rewrite H; eexists; split; try reflexivity.
  apply upd_nat_length.
Qed.

Lemma get_total g x y : exists s, get g x y = Ok s.
Proof.
  unfold get. destruct (in_bounds_spec g x y) as [[row [H [Er [Hy Hx]]]]|[H _]]; rewrite H; cbn [bind].
  - rewrite Er. cbn [bind]. destruct (index_ok row x Hx) as [v [Hv _]]. eauto.
  - eauto.
Qed.

Lemma width_total g : exists w, width g = Ok w.
Proof.
  unfold width. destruct (0 <? len g) eqn:E; [|eauto]. apply Z.ltb_lt in E.
  destruct (index_ok g 0) as [r [Hr _]]; [lia|]. rewrite Hr. cbn [bind]. eauto.
Qed.

(* ------------------------------------------------------------------ DrawLabel *)
Lemma draw_line_total line : forall g x y off, exists g', draw_line g x y off line = Ok g' /\ length g' = length g.
Proof.
  induction line as [|ch t IH]; intros g x y off; simpl; [eauto|].
  destruct (set_total g (x + off) y [ch]) as [g1 [H1 L1]]. rewrite H1. cbn [bind].
  destruct (IH g1 x y (off + rune_len ch)) as [g2 [H2 L2]]. exists g2. split; [exact H2|congruence].
Qed.

Lemma draw_lines_total lines : forall g x y idx, exists g', draw_lines g x y idx lines = Ok g' /\ length g' = length g.
Proof.
  induction lines as [|l t IH]; intros g x y idx; simpl; [eauto|].
  destruct (draw_line_total l g x (y + idx) 0) as [g1 [H1 L1]]. rewrite H1. cbn [bind].
  destruct (IH g1 x y (idx + 1)) as [g2 [H2 L2]]. exists g2. split; [exact H2|congruence].
Qed.

Lemma draw_label_total g x y label : exists g', draw_label g x y label = Ok g' /\ length g' = length g.
Proof.
  unfold draw_label. destruct (in_bounds_total g x y) as [b H]. rewrite H. cbn [bind].
  destruct b; [apply draw_lines_total|eauto].
Qed.

(* ------------------------------------------------------------------ ToByteArray *)
Lemma first_idx_bounds {A} (p : A -> bool) l : forall i k, first_idx p l i = Some k -> i <= k < i + len l.
Proof.
  induction l as [|x t IH]; intros i k H; simpl in H; [discriminate|].
  unfold len in *. simpl length. destruct (p x).
  - injection H as <-. lia.
  - apply IH in H. lia.
Qed.

Lemma last_idx_bounds {A} (p : A -> bool) l k : last_idx p l = Some k -> 0 <= k < len l.
Proof.
  unfold last_idx. destruct (first_idx p (rev l) 0) eqn:E; [|discriminate].
  intro H. injection H as <-. apply first_idx_bounds in E. unfold len in *. rewrite rev_length in E. lia.
Qed.

Lemma zrange_in a n z : In z (zrange a n) <-> a <= z < a + Z.of_nat n.
Proof.
  revert a. induction n as [|k IH]; intro a; simpl.
  - split; [intros []|lia].
  - rewrite IH. lia.
Qed.

Lemma zrange_incl_in a b z : In z (zrange_incl a b) <-> a <= z <= b.
Proof. unfold zrange_incl. rewrite zrange_in. lia. Qed.

Definition rows_ok (g : grid) (rows : list Z) : Prop := forall r, In r rows -> 0 <= r < len g.

Lemma col_has_content_total g rows col : rows_ok g rows -> 0 <= col -> exists b, col_has_content g rows col = Ok b.
Proof.
  intros R C. induction rows as [|r t IH]; simpl; [eauto|].
  destruct (index_ok g r) as [row [Hr _]]; [apply R; left; reflexivity|]. rewrite Hr. cbn [bind].
  assert (IH' : exists b, col_has_content g t col = Ok b) by (apply IH; intros r' I; apply R; right; exact I).
  destruct (col <? len row) eqn:E; [|exact IH'].
  apply Z.ltb_lt in E. destruct (index_ok row col) as [c [Hc _]]; [lia|]. rewrite Hc. cbn [bind].
  destruct (negb (str_eqb c space)); [eauto|exact IH'].
Qed.

Lemma first_col_total g rows cols : rows_ok g rows -> (forall c, In c cols -> 0 <= c) ->
  exists r, first_col g rows cols = Ok r /\
    match r with Some c => In c cols /\ col_has_content g rows c = Ok true | None => True end.
Proof.
  intros R C. induction cols as [|c t IH]; simpl; [exists None; auto|].
  destruct (col_has_content_total g rows c R) as [b Hb]; [apply C; left; reflexivity|]. rewrite Hb. cbn [bind].
  destruct b.
  - exists (Some c). auto.
  - destruct IH as [r [Hr Pr]]; [intros; apply C; right; assumption|]. exists r. split; [exact Hr|].
    destruct r; [|exact I]. tauto.
Qed.

(* ascending search: everything before the hit has no content *)
Lemma first_col_zrange_min g rows n : forall a c, first_col g rows (zrange a n) = Ok (Some c) ->
  forall c0, a <= c0 < c -> col_has_content g rows c0 = Ok false.
Proof.
  induction n as [|k IH]; intros a c H c0 L; simpl in H; [discriminate|].
  destruct (col_has_content g rows a) as [b|] eqn:E; cbn [bind] in H; [|discriminate].
  destruct b.
  - injection H as <-. lia.
  - destruct (Z.eq_dec c0 a) as [->|N]; [exact E|]. apply (IH (a + 1) c H). lia.
Qed.

Lemma emit_rows_total g v h sc ec rows : rows_ok g rows -> 0 <= sc -> 0 <= ec - sc + 1 ->
  forall pc pt, exists ls, emit_rows g v h sc ec rows pc pt = Ok ls.
Proof.
  intros R S K. induction rows as [|i t IH]; intros pc pt; simpl; [eauto|].
  destruct (index_ok g i) as [row0 [H0 _]]; [apply R; left; reflexivity|]. rewrite H0. cbn [bind].
  assert (IH' : forall pc pt, exists ls, emit_rows g v h sc ec t pc pt = Ok ls)
    by (apply IH; intros r' I; apply R; right; exact I).
  assert (E1 : exists row1, (if sc <? len row0 then slice_from row0 sc else Ok row0) = Ok row1).
  { destruct (sc <? len row0) eqn:E; [|eauto]. apply Z.ltb_lt in E. unfold slice_from.
    replace ((sc <? 0) || (len row0 <? sc)) with false; [eauto|].
    symmetry. apply orb_false_intro; apply Z.ltb_ge; lia. }
  destruct E1 as [row1 H1]. rewrite H1. cbn [bind].
  assert (E2 : exists row2, (if ec - sc + 1 <? len row1 then slice_to row1 (ec - sc + 1) else Ok row1) = Ok row2).
  { destruct (ec - sc + 1 <? len row1) eqn:E; [|eauto]. apply Z.ltb_lt in E. unfold slice_to.
    replace ((ec - sc + 1 <? 0) || (len row1 <? ec - sc + 1)) with false; [eauto|].
    symmetry. apply orb_false_intro; apply Z.ltb_ge; lia. }
  destruct E2 as [row2 H2]. rewrite H2. cbn [bind].
  destruct (scan_line v h (concat row2) 0 [] None true) as [[cols ty] only].
  destruct (only && _ && _ && _); [apply IH'|].
  destruct (if only && _ then _ else _) as [pc' pt'].
  destruct (IH' pc' pt') as [rest Hr]. rewrite Hr. cbn [bind]. eauto.
Qed.

Lemma to_lines_total g vert horiz : vert <> [] -> horiz <> [] -> exists ls, to_lines g vert horiz = Ok ls.
Proof.
  intros Nv Nh. unfold to_lines.
  set (start_row := match first_idx row_has_content g 0 with Some i => i | None => 0 end).
  set (end_row := match last_idx row_has_content g with Some i => i | None => len g - 1 end).
  assert (Sr : 0 <= start_row).
  { unfold start_row. destruct (first_idx row_has_content g 0) eqn:E; [apply first_idx_bounds in E|]; lia. }
  assert (Er : end_row <= len g - 1).
  { unfold end_row. destruct (last_idx row_has_content g) eqn:E; [apply last_idx_bounds in E|]; lia. }
  assert (R : rows_ok g (zrange_incl start_row end_row)).
  { intros r I. apply zrange_incl_in in I. lia. }
  set (rows := zrange_incl start_row end_row) in *.
  assert (SE : exists sc ec,
    (if 0 <? len g then
       do r0 <- index g 0;
       do sc <- first_col g rows (zrange_incl 0 (len r0 - 1));
       do ec <- first_col g rows (rev (zrange_incl 0 (len r0 - 1)));
       Ok (match sc with Some c => c | None => 0 end, match ec with Some c => c | None => 0 end)
     else Ok (0, 0)) = Ok (sc, ec) /\ 0 <= sc /\ 0 <= ec - sc + 1).
  { destruct (0 <? len g) eqn:E; [|exists 0, 0; repeat split; lia].
    apply Z.ltb_lt in E. destruct (index_ok g 0) as [r0 [H0 _]]; [lia|]. rewrite H0. cbn [bind].
    assert (Cp : forall c, In c (zrange_incl 0 (len r0 - 1)) -> 0 <= c) by (intros c I; apply zrange_incl_in in I; lia).
    destruct (first_col_total g rows _ R Cp) as [sc [Hsc Psc]]. rewrite Hsc. cbn [bind].
    assert (Cp' : forall c, In c (rev (zrange_incl 0 (len r0 - 1))) -> 0 <= c) by (intros c I; apply in_rev in I; auto).
    destruct (first_col_total g rows _ R Cp') as [ec [Hec Pec]]. rewrite Hec. cbn [bind].
    eexists _, _. split; [reflexivity|].
    destruct sc as [c|].
    - destruct Psc as [Ic Hc]. assert (Ic2 := Ic). apply zrange_incl_in in Ic2. split; [lia|].
      destruct ec as [c'|].
      + destruct Pec as [Ic' Hc']. apply in_rev in Ic'. apply zrange_incl_in in Ic'.
        destruct (Z_lt_le_dec c' c) as [L|L]; [|lia]. exfalso.
        unfold zrange_incl in Hsc. assert (F := first_col_zrange_min g rows _ 0 c Hsc c'). rewrite F in Hc' by lia. discriminate.
      + (* the descending search found nothing although column c has content: impossible, but k >= 0 anyway *)
        exfalso. clear -Hec Ic Hc.
        apply in_rev in Ic. revert Hec.
        induction (rev (zrange_incl 0 (len r0 - 1))) as [|z t IH]; [destruct Ic|]. simpl.
        destruct Ic as [->|Ic]; [rewrite Hc; cbn [bind]; discriminate|].
        destruct (col_has_content g rows z) as [[|]|]; cbn [bind]; try discriminate. auto.
    - split; [lia|]. destruct ec as [c'|]; [|lia]. destruct Pec as [Ic' _]. apply in_rev in Ic'. apply zrange_incl_in in Ic'. lia. }
  destruct SE as [sc [ec [Hse [Hs Hk]]]]. rewrite Hse. cbn [bind].
  destruct rows as [|r0 rt] eqn:Erows; [eauto|]. rewrite <- Erows in *.
  destruct (index_ok vert 0) as [v [Hv _]]; [destruct vert; [congruence|unfold len; simpl; lia]|].
  destruct (index_ok horiz 0) as [h [Hh _]]; [destruct horiz; [congruence|unfold len; simpl; lia]|].
  rewrite Hv, Hh. cbn [bind]. apply emit_rows_total; assumption.
Qed.

(* ------------------------------------------------------------------ a drawn label is visible *)
Definition ascii_line (label : str) : Prop := forall r, In r label -> (r < 128)%N /\ r <> 10%N.

Lemma split_lines_single label cur : (forall r, In r label -> r <> 10%N) -> split_lines label cur = [rev cur ++ label].
Proof.
  revert cur. induction label as [|c t IH]; intros cur H; simpl; [rewrite app_nil_r; reflexivity|].
  assert (Hc : c <> 10%N) by (apply H; left; reflexivity).
  apply N.eqb_neq in Hc. rewrite Hc. rewrite IH by (intros; apply H; right; assumption).
  simpl. rewrite <- app_assoc. reflexivity.
Qed.

Lemma index_upd_same {A} (l : list A) i v : 0 <= i < len l -> index (upd_nat l (Z.to_nat i) v) i = Ok v.
Proof.
  intro H. unfold index, len in *. rewrite upd_nat_length.
  replace ((i <? 0) || (Z.of_nat (length l) <=? i)) with false by (symmetry; apply orb_false_intro; [apply Z.ltb_ge|apply Z.leb_gt]; lia).
  rewrite upd_nat_same by lia. reflexivity.
Qed.

Lemma skipn_skipn' {A} (l : list A) n m : skipn n (skipn m l) = skipn (m + n) l.
Proof.
  revert l. induction m as [|m IH]; intro l; [reflexivity|]. destruct l as [|x t]; simpl; [destruct n; reflexivity|]. apply IH.
Qed.

Lemma splice_eq {A} (row : list A) p (v : A) (m : list A) n : (p < length row)%nat ->
  firstn (S p) (firstn p row ++ v :: skipn (S p) row) ++ m ++ skipn (S p + n) (firstn p row ++ v :: skipn (S p) row)
  = firstn p row ++ (v :: m) ++ skipn (S p + n) row.
Proof.
  intro Lp.
  assert (F : firstn (S p) (firstn p row ++ v :: skipn (S p) row) = firstn p row ++ [v]).
  { rewrite firstn_app. rewrite firstn_length. replace (Nat.min p (length row)) with p by lia.
    replace (S p - p)%nat with 1%nat by lia. rewrite firstn_all2 by (rewrite firstn_length; lia). reflexivity. }
  rewrite F.
  assert (S' : skipn (S p + n) (firstn p row ++ v :: skipn (S p) row) = skipn (S p + n) row).
  { rewrite skipn_app. rewrite firstn_length. replace (Nat.min p (length row)) with p by lia.
    rewrite (skipn_all2 (firstn p row)) by (rewrite firstn_length; lia).
    replace (S p + n - p)%nat with (S n) by lia. cbn [app]. change (skipn (S n) (v :: skipn (S p) row)) with (skipn n (skipn (S p) row)). rewrite skipn_skipn'. reflexivity. }
  rewrite S'. rewrite <- app_assoc. reflexivity.
Qed.

Lemma draw_line_ascii line : forall g x y off row,
  index g y = Ok row -> 0 <= x + off -> x + off + len line <= len row -> ascii_line line ->
  exists g', draw_line g x y off line = Ok g' /\ length g' = length g /\
    index g' y = Ok (firstn (Z.to_nat (x + off)) row ++ map (fun r => [r]) line ++ skipn (Z.to_nat (x + off + len line)) row).
Proof.
  induction line as [|ch t IH]; intros g x y off row Hr H0 H1 Ha.
  - exists g. simpl. split; [reflexivity|]. split; [reflexivity|].
    unfold len. simpl. rewrite Z.add_0_r. rewrite firstn_skipn. exact Hr.
  - simpl draw_line. unfold len in H1. simpl length in H1.
    destruct (index_inv _ _ _ Hr) as [Hy _].
    destruct (set_spec g (x + off) y [ch]) as [[row0 [_ [Er0 [_ [Hx Hs]]]]]|[Hf _]].
    2:{ exfalso. destruct (in_bounds_spec g (x + off) y) as [[r [Hb _]]|[_ Hn]]; [congruence|].
        apply (Hn row Hr). unfold len. lia. }
    rewrite Er0 in Hr. injection Hr as ->. rewrite Hs. cbn [bind].
    set (row1 := upd_nat row (Z.to_nat (x + off)) [ch]).
    set (g1 := upd_nat g (Z.to_nat y) row1).
    assert (R1 : index g1 y = Ok row1) by (apply index_upd_same; exact Hy).
    assert (L1 : len row1 = len row) by (unfold len, row1; rewrite upd_nat_length; reflexivity).
    assert (Hch : rune_len ch = 1).
    { unfold rune_len. destruct (Ha ch (or_introl eq_refl)) as [Hc _]. apply N.ltb_lt in Hc. rewrite Hc. reflexivity. }
    rewrite Hch.
    destruct (IH g1 x y (off + 1) row1 R1) as [g2 [H2 [L2 I2]]]; try lia.
    { unfold len in *. lia. }
    { intros r I. apply Ha. right. exact I. }
    exists g2. split; [exact H2|]. split; [unfold g1 in L2; rewrite upd_nat_length in L2; exact L2|].
    rewrite I2. f_equal.
    unfold row1. rewrite upd_nat_split by (unfold len in *; lia).
    replace (Z.to_nat (x + (off + 1))) with (S (Z.to_nat (x + off))) by lia.
    replace (Z.to_nat (x + (off + 1) + len t)) with (S (Z.to_nat (x + off)) + length t)%nat by (unfold len; lia).
    replace (Z.to_nat (x + off + len (ch :: t))) with (S (Z.to_nat (x + off)) + length t)%nat by (unfold len; simpl length; lia).
    set (p := Z.to_nat (x + off)).
    assert (Lp : (p < length row)%nat) by (unfold p, len in *; lia).
    simpl map. apply (splice_eq row p [ch] (map (fun r : rune => [r]) t) (length t) Lp).
Qed.

Lemma prefix_b_app p l : prefix_b p (p ++ l) = true.
Proof. induction p as [|a t IH]; simpl; [reflexivity|]. rewrite N.eqb_refl. exact IH. Qed.

Lemma sublist_b_unfold p l : sublist_b p l = prefix_b p l || match l with [] => false | _ :: t => sublist_b p t end.
Proof. destruct l; reflexivity. Qed.

Lemma sublist_b_app pre p post : sublist_b p (pre ++ p ++ post) = true.
Proof.
  induction pre as [|a t IH].
  - cbn [app]. rewrite sublist_b_unfold, prefix_b_app. reflexivity.
  - cbn [app]. rewrite sublist_b_unfold, IH. apply orb_true_r.
Qed.

Lemma concat_singletons (l : str) : concat (map (fun r => [r]) l) = l.
Proof. induction l as [|a t IH]; simpl; [reflexivity|]. rewrite IH. reflexivity. Qed.

Lemma draw_label_visible g x y label row :
  index g y = Ok row -> 0 <= x < len row -> x + len label <= len row -> ascii_line label ->
  exists g' row', draw_label g x y label = Ok g' /\ index g' y = Ok row' /\ sublist_b label (concat row') = true.
Proof.
  intros Hr Hx Hl Ha. unfold draw_label.
  destruct (in_bounds_spec g x y) as [[r [Hb _]]|[_ Hn]]; [|exfalso; apply (Hn row Hr); exact Hx].
  rewrite Hb. cbn [bind].
  rewrite split_lines_single by (intros r0 I; apply (Ha r0 I)). simpl rev. simpl app.
  simpl draw_lines.
  destruct (draw_line_ascii label g x (y + 0) 0 row) as [g' [Hd [_ Hi]]]; try (rewrite ?Z.add_0_r; auto; lia).
  rewrite Hd. cbn [bind]. rewrite Z.add_0_r in Hi. exists g'. eexists. split; [reflexivity|]. split; [exact Hi|].
  rewrite !concat_app. rewrite concat_singletons. apply sublist_b_app.
Qed.
