(* Executable checker for C32 cases.
   COps:    a random operation sequence run on the real asciicanvas.Canvas (New, Set, DrawLabel, Get,
            IsInBounds, finally ToByteArray with the real character set); the model replays it.
   CRender: the text the real d2ascii renderer produced for a diagram laid out by the real pipeline,
            with the single-line labels of its plain shapes and the runes of all its labels. *)
From Coq Require Import ZArith NArith List Bool.
Import ListNotations.
Require Import V.Lib.RunCases.
Require Export V.C32.Model V.Gen.C32Charset.
Open Scope Z_scope.

Inductive op :=
| OSet (x y : Z) (s : str)
| ODraw (x y : Z) (label : str)
| OGet (x y : Z) (expect : str)
| OIn (x y : Z) (expect : bool).

Inductive case :=
| COps (w h : Z) (ops : list op) (std : bool) (out : option str)     (* None: the implementation panicked *)
| CRender (std : bool) (lines : list str) (labels : list str) (label_runes : list rune).

Definition run_op (st : res (grid * bool)) (o : op) : res (grid * bool) :=
  do s <- st;
  let '(g, ok) := s in
  match o with
  | OSet x y v => do g' <- set g x y v; Ok (g', ok)
  | ODraw x y l => do g' <- draw_label g x y l; Ok (g', ok)
  | OGet x y e => do v <- get g x y; Ok (g, ok && str_eqb v e)
  | OIn x y e => do b <- in_bounds g x y; Ok (g, ok && Bool.eqb b e)
  end.

Definition run_ops (w h : Z) (ops : list op) (std : bool) : res (bool * str) :=
  do g0 <- new w h;
  do s <- fold_left run_op ops (Ok (g0, true));
  let '(g, ok) := s in
  do out <- (if std then to_runes g ascii_vertical ascii_horizontal else to_runes g unicode_vertical unicode_horizontal);
  Ok (ok, out).

Definition check_case (c : case) : list N :=
  match c with
  | COps w h ops std out =>
      match run_ops w h ops std, out with
      | Crash, None => []
      | Ok (ok, o), Some o' => flag (ok && str_eqb o o') 1
      | _, _ => [1%N]
      end
  | CRender std lines labels label_runes =>
      flag (negb std || ascii_outside_labels_b lines label_runes) 10
      ++ flag (labels_visible_b lines labels) 11
  end.
