(* C32 — ASCII rendering.  Model of d2renderers/d2ascii/asciicanvas (New / IsInBounds / Set / Get /
   Width / Height / DrawLabel / ToByteArray).  Definitions only.

   A Go string is the list of its runes (valid UTF-8 only: the harness passes valid strings); the
   canvas is [][]string.  Every slice operation of the Go code (make, index, index assignment, the
   two re-slicings in ToByteArray, []rune(s)[0]) is written with its bounds check: a failing check
   is the result [Crash], which is what a Go panic is in this model.  Coordinates are Z (Go int,
   no wrap-around: none of the code multiplies). *)
From Coq Require Import ZArith NArith List Bool.
Import ListNotations.
Open Scope Z_scope.

Definition rune := N.
Definition str := list rune.
Definition grid := list (list str).

Inductive res (A : Type) := Ok (a : A) | Crash.
Arguments Ok {A} a.
Arguments Crash {A}.

Definition bind {A B} (r : res A) (f : A -> res B) : res B := match r with Ok a => f a | Crash => Crash end.
Notation "'do' x <- r ; k" := (bind r (fun x => k)) (at level 200, x name, r at level 100, k at level 200).

Definition len {A} (l : list A) : Z := Z.of_nat (length l).

(* ---------- Go slice primitives ---------- *)
(* make([]T, n) with every element v *)
Definition make {A} (n : Z) (v : A) : res (list A) := if n <? 0 then Crash else Ok (repeat v (Z.to_nat n)).
(* l[i] *)
Definition index {A} (l : list A) (i : Z) : res A :=
  if (i <? 0) || (len l <=? i) then Crash
  else match nth_error l (Z.to_nat i) with Some v => Ok v | None => Crash end.
Fixpoint upd_nat {A} (l : list A) (i : nat) (v : A) : list A :=
  match l, i with
  | [], _ => []
  | _ :: t, O => v :: t
  | x :: t, S j => x :: upd_nat t j v
  end.
(* l[i] = v *)
Definition assign {A} (l : list A) (i : Z) (v : A) : res (list A) :=
  if (i <? 0) || (len l <=? i) then Crash else Ok (upd_nat l (Z.to_nat i) v).
(* l[a:] and l[:b] *)
Definition slice_from {A} (l : list A) (a : Z) : res (list A) :=
  if (a <? 0) || (len l <? a) then Crash else Ok (skipn (Z.to_nat a) l).
Definition slice_to {A} (l : list A) (b : Z) : res (list A) :=
  if (b <? 0) || (len l <? b) then Crash else Ok (firstn (Z.to_nat b) l).

(* ---------- asciicanvas ---------- *)
Definition space : str := [32%N].

(* New: grid := make([][]string, height); grid[i] = make([]string, width), filled with " " *)
Definition new (w h : Z) : res grid :=
  do rows <- make h ([] : list str);
  match rows with
  | [] => Ok []                                   (* the loop body never runs *)
  | _ => do row <- make w space; Ok (map (fun _ => row) rows)
  end.

(* y >= 0 && y < len(c.grid) && x >= 0 && x < len(c.grid[y]) — && short-circuits *)
Definition in_bounds (g : grid) (x y : Z) : res bool :=
  if (0 <=? y) && (y <? len g) then
    if 0 <=? x then do row <- index g y; Ok (x <? len row) else Ok false
  else Ok false.

Definition set (g : grid) (x y : Z) (s : str) : res grid :=
  do b <- in_bounds g x y;
  if b then do row <- index g y; do row' <- assign row x s; assign g y row' else Ok g.

Definition get (g : grid) (x y : Z) : res str :=
  do b <- in_bounds g x y;
  if b then do row <- index g y; index row x else Ok [].

Definition width (g : grid) : res Z := if 0 <? len g then do r <- index g 0; Ok (len r) else Ok 0.
Definition height (g : grid) : Z := len g.

(* UTF-8 length of a rune: the index variable of  for i, ch := range line  advances by it *)
Definition rune_len (r : rune) : Z :=
  if (r <? 128)%N then 1 else if (r <? 2048)%N then 2 else if (r <? 65536)%N then 3 else 4.

(* strings.Split(label, "\n") *)
Fixpoint split_lines (s : str) (cur : str) : list str :=
  match s with
  | [] => [rev cur]
  | c :: t => if (c =? 10)%N then rev cur :: split_lines t [] else split_lines t (c :: cur)
  end.

Fixpoint draw_line (g : grid) (x y : Z) (off : Z) (line : str) : res grid :=
  match line with
  | [] => Ok g
  | ch :: t => do g' <- set g (x + off) y [ch]; draw_line g' x y (off + rune_len ch) t
  end.

Fixpoint draw_lines (g : grid) (x y : Z) (idx : Z) (lines : list str) : res grid :=
  match lines with
  | [] => Ok g
  | l :: t => do g' <- draw_line g x (y + idx) 0 l; draw_lines g' x y (idx + 1) t
  end.

Definition draw_label (g : grid) (x y : Z) (label : str) : res grid :=
  do b <- in_bounds g x y;
  if b then draw_lines g x y 0 (split_lines label []) else Ok g.

(* ---------- ToByteArray ---------- *)
(* unicode.IsSpace *)
Definition is_space (r : rune) : bool :=
  ((9 <=? r) && (r <=? 13) || (r =? 32) || (r =? 133) || (r =? 160) || (r =? 5760)
   || (8192 <=? r) && (r <=? 8202) || (r =? 8232) || (r =? 8233) || (r =? 8239) || (r =? 8287) || (r =? 12288))%N.

Definition str_eqb (a b : str) : bool := if list_eq_dec N.eq_dec a b then true else false.

(* strings.TrimSpace(strings.Join(row, "")) != "" *)
Definition row_has_content (row : list str) : bool := existsb (fun r => negb (is_space r)) (concat row).

Fixpoint first_idx {A} (p : A -> bool) (l : list A) (i : Z) : option Z :=
  match l with [] => None | x :: t => if p x then Some i else first_idx p t (i + 1) end.
Definition last_idx {A} (p : A -> bool) (l : list A) : option Z :=
  match first_idx p (rev l) 0 with Some k => Some (len l - 1 - k) | None => None end.

Fixpoint zrange (a : Z) (n : nat) : list Z := match n with O => [] | S k => a :: zrange (a + 1) k end.
Definition zrange_incl (a b : Z) : list Z := zrange a (Z.to_nat (b - a + 1)).       (* a..b *)

(* hasContent for one column: some row in startRow..endRow has col < len(row) && row[col] != " " *)
Fixpoint col_has_content (g : grid) (rows : list Z) (col : Z) : res bool :=
  match rows with
  | [] => Ok false
  | r :: t =>
      do row <- index g r;
      if col <? len row then
        do c <- index row col;
        if negb (str_eqb c space) then Ok true else col_has_content g t col
      else col_has_content g t col
  end.

Fixpoint first_col (g : grid) (rows : list Z) (cols : list Z) : res (option Z) :=
  match cols with
  | [] => Ok None
  | c :: t => do b <- col_has_content g rows c; if b then Ok (Some c) else first_col g rows t
  end.

(* the "only route characters" scan of one output line; positions are rune positions (for such a
   line they determine the byte positions the Go code compares, see meta.json) *)
Fixpoint scan_line (v h : rune) (line : str) (pos : Z) (cols : list Z) (ty : option rune) (only : bool)
  : list Z * option rune * bool :=
  match line with
  | [] => (rev cols, ty, only)
  | c :: t =>
      if (c =? v)%N || (c =? h)%N then
        match ty with
        | None => scan_line v h t (pos + 1) (pos :: cols) (Some c) only
        | Some ty0 => if (ty0 =? c)%N then scan_line v h t (pos + 1) (pos :: cols) ty only
                      else (rev (pos :: cols), ty, false)                 (* break *)
        end
      else if (c =? 32)%N then scan_line v h t (pos + 1) cols ty only
      else scan_line v h t (pos + 1) cols ty false
  end.

Definition zlist_eqb (a b : list Z) : bool := if list_eq_dec Z.eq_dec a b then true else false.
Definition orune_eqb (a b : option rune) : bool :=
  match a, b with Some x, Some y => (x =? y)%N | None, None => true | _, _ => false end.

Fixpoint emit_rows (g : grid) (v h : rune) (start_col end_col : Z) (rows : list Z)
         (prev_cols : list Z) (prev_ty : option rune) : res (list str) :=
  match rows with
  | [] => Ok []
  | i :: t =>
      do row0 <- index g i;
      do row1 <- (if start_col <? len row0 then slice_from row0 start_col else Ok row0);
      do row2 <- (if end_col - start_col + 1 <? len row1 then slice_to row1 (end_col - start_col + 1) else Ok row1);
      let line := concat row2 in
      let '(cols, ty, only) := scan_line v h line 0 [] None true in
      let has_routes := match cols with [] => false | _ => true end in
      let same := zlist_eqb cols prev_cols && orune_eqb ty prev_ty in
      if only && has_routes && same && (match prev_cols with [] => false | _ => true end)
      then emit_rows g v h start_col end_col t prev_cols prev_ty                         (* continue *)
      else
        let '(pc, pt) := if only && has_routes then (cols, ty) else ([], None) in
        do rest <- emit_rows g v h start_col end_col t pc pt;
        Ok (line :: rest)
  end.

(* [vert] [horiz]: chars.Vertical(), chars.Horizontal() *)
Definition to_lines (g : grid) (vert horiz : str) : res (list str) :=
  let start_row := match first_idx row_has_content g 0 with Some i => i | None => 0 end in
  let end_row := match last_idx row_has_content g with Some i => i | None => len g - 1 end in
  let rows := zrange_incl start_row end_row in
  do se <- (if 0 <? len g then
              do r0 <- index g 0;
              do sc <- first_col g rows (zrange_incl 0 (len r0 - 1));
              do ec <- first_col g rows (rev (zrange_incl 0 (len r0 - 1)));
              Ok (match sc with Some c => c | None => 0 end, match ec with Some c => c | None => 0 end)
            else Ok (0, 0));
  let '(start_col, end_col) := se in
  match rows with
  | [] => Ok []
  | _ =>
      (* verticalChar := []rune(chars.Vertical())[0] — evaluated inside the loop *)
      do v <- index vert 0; do h <- index horiz 0;
      emit_rows g v h start_col end_col rows [] None
  end.

(* the bytes written: every line followed by '\n' (as runes) *)
Definition to_runes (g : grid) (vert horiz : str) : res str :=
  do ls <- to_lines g vert horiz; Ok (concat (map (fun l => l ++ [10%N]) ls)).

(* ---------- predicates on a rendered text ---------- *)
Fixpoint prefix_b (p l : str) : bool :=
  match p, l with
  | [], _ => true
  | a :: p', b :: l' => (a =? b)%N && prefix_b p' l'
  | _ :: _, [] => false
  end.
Fixpoint sublist_b (p l : str) : bool :=
  prefix_b p l || match l with [] => false | _ :: t => sublist_b p t end.

(* every single-line label appears contiguously in some line *)
Definition labels_visible_b (lines : list str) (labels : list str) : bool :=
  forallb (fun lb => existsb (sublist_b lb) lines) labels.

(* every character is 7-bit ASCII or occurs in some label of the diagram *)
Definition ascii_outside_labels_b (lines : list str) (label_runes : list rune) : bool :=
  forallb (forallb (fun r => (r <? 128)%N || existsb (N.eqb r) label_runes)) lines.

(* a glyph table is ASCII *)
Definition table_ascii_b (t : list (list N * str)) : bool :=
  forallb (fun e => match snd e with [r] => (r <? 128)%N | _ => false end) t.
