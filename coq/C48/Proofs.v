(* C48 — proofs about the crash model. *)
From Coq Require Import List NArith Bool Lia Arith.
Import ListNotations.
Require Import V.C48.Model.
Open Scope N_scope.

Lemma run_app a b f : run (a ++ b) f = run b (run a f).
Proof. unfold run. apply fold_left_app. Qed.

Lemma upd_same f p c : upd f p c p = c.
Proof. unfold upd. now rewrite N.eqb_refl. Qed.

Lemma upd_other f p c q : q <> p -> upd f p c q = f q.
Proof. unfold upd. intro H. apply N.eqb_neq in H. now rewrite H. Qed.

(* operations that cannot change the content stored under p *)
Definition notouch (p : path) (o : op) : Prop :=
  match o with
  | OpenTrunc q | Write q _ | CreateTemp q | Remove q => q <> p
  | Rename a b => a <> p /\ b <> p
  | Close _ | Other _ => True
  end.

Lemma step_notouch p o f : notouch p o -> step f o p = f p.
Proof.
  destruct o; cbn; intro H; try reflexivity.
  - apply upd_other; congruence.
  - destruct (f p0); [apply upd_other; congruence | reflexivity].
  - apply upd_other; congruence.
  - destruct H as [Ha Hb]. destruct (f a); [|reflexivity].
    rewrite upd_other by congruence. apply upd_other; congruence.
  - apply upd_other; congruence.
Qed.

Lemma run_notouch p ops : Forall (notouch p) ops -> forall f, run ops f p = f p.
Proof.
  induction 1 as [|o ops Ho _ IH]; intro f; [reflexivity|].
  change (run (o :: ops) f) with (run ops (step f o)). rewrite IH. now apply step_notouch.
Qed.

Lemma Forall_firstn {A} (P : A -> Prop) l k : Forall P l -> Forall P (firstn k l).
Proof.
  intro H. rewrite <- (firstn_skipn k l) in H. apply Forall_app in H. tauto.
Qed.

Lemma firstn_snoc {A} (k : nat) (l : list A) (x : A) :
  firstn k (l ++ [x]) = firstn k l \/ firstn k (l ++ [x]) = l ++ [x].
Proof.
  rewrite firstn_app. destruct (Nat.le_gt_cases k (length l)) as [H|H].
  - left. replace (k - length l)%nat with 0%nat by lia. cbn. apply app_nil_r.
  - right. rewrite firstn_all2 by lia.
    destruct (k - length l)%nat eqn:E; [lia|]. cbn. now rewrite firstn_nil.
Qed.

Lemma run_writes t chunks : forall f c, f t = Some c ->
  run (map (Write t) chunks) f t = Some (c ++ concat chunks).
Proof.
  induction chunks as [|ch chunks IH]; intros f c H; cbn [map concat].
  - now rewrite app_nil_r.
  - change (run (Write t ch :: map (Write t) chunks) f)
      with (run (map (Write t) chunks) (step f (Write t ch))).
    rewrite (IH _ (c ++ ch)).
    + now rewrite app_assoc.
    + cbn. rewrite H. apply upd_same.
Qed.

(* the part of the atomic strategy before the rename never touches the target *)
Lemma atomic_body_notouch p t chunks : t <> p ->
  Forall (notouch p) (CreateTemp t :: map (Write t) chunks ++ [Close t]).
Proof.
  intro H. constructor; [exact H|]. apply Forall_app. split.
  - apply Forall_forall. intros o Ho. apply in_map_iff in Ho as [ch [<- _]]. exact H.
  - constructor; [exact I|constructor].
Qed.

Lemma atomic_split p t chunks :
  atomic_write p t chunks = (CreateTemp t :: map (Write t) chunks ++ [Close t]) ++ [Rename t p].
Proof. unfold atomic_write. cbn. now rewrite <- app_assoc. Qed.

Lemma atomic_complete p t chunks f : t <> p ->
  run (atomic_write p t chunks) f p = Some (concat chunks).
Proof.
  intro H. rewrite atomic_split, run_app.
  set (g := run (CreateTemp t :: map (Write t) chunks ++ [Close t]) f).
  assert (Hg : g t = Some (concat chunks)).
  { unfold g. change (CreateTemp t :: map (Write t) chunks ++ [Close t])
      with ([CreateTemp t] ++ map (Write t) chunks ++ [Close t]).
    rewrite !run_app. cbn [run fold_left step].
    apply (run_writes t chunks _ []). apply upd_same. }
  cbn [run fold_left step]. rewrite Hg.
  rewrite upd_other by congruence. apply upd_same.
Qed.

Lemma atomic_all_or_nothing :
  forall (f : fs) (p t : path) (chunks : list content) (k : nat), t <> p ->
    all_or_nothing (f p) (concat chunks) (run (firstn k (atomic_write p t chunks)) f) p.
Proof.
  intros f p t chunks k H. unfold all_or_nothing.
  rewrite atomic_split.
  destruct (firstn_snoc k (CreateTemp t :: map (Write t) chunks ++ [Close t]) (Rename t p)) as [E|E];
    rewrite E.
  - left. apply run_notouch. apply Forall_firstn. now apply atomic_body_notouch.
  - right. rewrite <- atomic_split. now apply atomic_complete.
Qed.

(* in list-of-crash-states form *)
Lemma atomic_crash_states :
  forall f p t chunks, t <> p ->
    Forall (fun g => all_or_nothing (f p) (concat chunks) g p) (crash_states (atomic_write p t chunks) f).
Proof.
  intros. unfold crash_states. apply Forall_forall. intros g Hg.
  apply in_map_iff in Hg as [k [<- _]]. now apply atomic_all_or_nothing.
Qed.

(* truncate-then-write: torn at the crash point right after the open, for every non-empty old and
   new content and every chunking *)
Lemma write_file_torn_after_open :
  forall (f : fs) p old new chunks, f p = Some old -> old <> [] -> new <> [] ->
    ~ all_or_nothing (Some old) new (run (firstn 1 (write_file p chunks)) f) p.
Proof.
  intros f p old new chunks Hf Ho Hn.
  assert (E : run (firstn 1 (write_file p chunks)) f p = Some []).
  { unfold write_file. cbn [firstn run fold_left step]. apply upd_same. }
  intros [H|H]; rewrite E in H; congruence.
Qed.

(* ... and also in the middle of the data when it is written by more than one write(2) *)
Lemma write_file_torn_between_writes :
  forall (f : fs) p old c1 c2, c1 <> [] -> c2 <> [] -> old <> Some c1 ->
    ~ all_or_nothing old (c1 ++ c2) (run (firstn 2 (write_file p [c1; c2])) f) p.
Proof.
  intros f p old c1 c2 H1 H2 Ho.
  assert (E : run (firstn 2 (write_file p [c1; c2])) f p = Some c1).
  { unfold write_file. cbn [map app firstn run fold_left step]. rewrite upd_same. apply upd_same. }
  intros [H|H]; rewrite E in H.
  - congruence.
  - injection H as H. rewrite <- (app_nil_r c1) in H at 1. apply app_inv_head in H. congruence.
Qed.

Lemma write_file_refuted :
  exists (f : fs) p old new chunks k, f p = Some old /\ concat chunks = new /\
    ~ all_or_nothing (Some old) new (run (firstn k (write_file p chunks)) f) p.
Proof.
  exists (fs0 0 (Some [1])), 0, [1], [2], [[2]], 1%nat. split; [reflexivity|]. split; [reflexivity|].
  apply write_file_torn_after_open; [reflexivity | discriminate | discriminate].
Qed.

(* d2cli.Write falls back to the truncating write when the atomic attempt fails: the guarantee is lost *)
Lemma d2_write_fallback_refuted :
  exists (f : fs) p t old new done chunks k, t <> p /\ f p = Some old /\ concat chunks = new /\
    ~ all_or_nothing (Some old) new (run (firstn k (d2_write_fallback p t done chunks)) f) p.
Proof.
  exists (fs0 0 (Some [1])), 0, 1, [1], [2], [], [[2]], 3%nat.
  split; [discriminate|]. split; [reflexivity|]. split; [reflexivity|].
  intros [H|H]; vm_compute in H; discriminate.
Qed.

(* ---- the executable predicate agrees with the proposition ---- *)

Lemma content_eqb_eq a b : content_eqb a b = true <-> a = b.
Proof.
  revert b. induction a as [|x a IH]; intros [|y b]; cbn; split; intro H;
    try reflexivity; try discriminate.
  - apply andb_prop in H as [H1 H2]. apply N.eqb_eq in H1. apply IH in H2. congruence.
  - injection H as -> ->. rewrite N.eqb_refl. cbn. now apply IH.
Qed.

Lemma ocontent_eqb_eq a b : ocontent_eqb a b = true <-> a = b.
Proof.
  destruct a, b; cbn; split; intro H; try reflexivity; try discriminate.
  - apply content_eqb_eq in H. congruence.
  - injection H as ->. now apply content_eqb_eq.
Qed.

Lemma all_or_nothing_b_iff old new f p :
  all_or_nothing_b old new f p = true <-> all_or_nothing old new f p.
Proof.
  unfold all_or_nothing_b, all_or_nothing. rewrite orb_true_iff, !ocontent_eqb_eq. tauto.
Qed.

Lemma crash_safe_b_iff old new ops f p :
  crash_safe_b old new ops f p = true <-> forall k, all_or_nothing old new (run (firstn k ops) f) p.
Proof.
  unfold crash_safe_b, crash_states. rewrite forallb_forall. split.
  - intros H k. apply all_or_nothing_b_iff.
    destruct (Nat.le_gt_cases k (length ops)) as [L|L].
    + apply H. apply in_map_iff. exists k. split; [reflexivity|]. apply in_seq. lia.
    + rewrite firstn_all2 by lia. rewrite <- (firstn_all ops) at 1.
      apply H. apply in_map_iff. exists (length ops). split; [reflexivity|]. apply in_seq. lia.
  - intros H g Hg. apply in_map_iff in Hg as [k [<- _]]. apply all_or_nothing_b_iff, H.
Qed.

(* ---- the recogniser used on recorded traces is sound ---- *)

Lemma atomic_tail_sound p t : forall ops, atomic_tail p t ops = true ->
  exists chunks, ops = map (Write t) chunks ++ [Close t; Rename t p].
Proof.
  induction ops as [|o ops IH]; cbn; [discriminate|].
  destruct o; try discriminate.
  - (* Write *)
    intro H. apply andb_prop in H as [H1 H2]. apply N.eqb_eq in H1. subst.
    destruct (IH H2) as [chunks ->]. now exists (chunk :: chunks).
  - (* Close *)
    destruct ops as [|o2 ops2]; [discriminate|]. destruct o2; try discriminate.
    destruct ops2; [|discriminate].
    intro H. apply andb_prop in H as [H H3]. apply andb_prop in H as [H1 H2].
    apply N.eqb_eq in H1, H2, H3. subst. now exists [].
Qed.

Lemma is_atomic_instance_sound p ops : is_atomic_instance p ops = true ->
  exists t chunks, t <> p /\ ops = atomic_write p t chunks.
Proof.
  destruct ops as [|o ops]; cbn; [discriminate|]. destruct o; try discriminate.
  intro H. apply andb_prop in H as [H1 H2]. apply negb_true_iff, N.eqb_neq in H1.
  destruct (atomic_tail_sound _ _ _ H2) as [chunks ->]. now exists t, chunks.
Qed.

Lemma is_atomic_instance_complete p t chunks : t <> p -> is_atomic_instance p (atomic_write p t chunks) = true.
Proof.
  intro H. cbn. apply N.eqb_neq in H. rewrite H. cbn.
  induction chunks as [|c cs IH]; cbn; rewrite ?N.eqb_refl; cbn; auto.
Qed.

(* every recorded operation list accepted by the recogniser is crash-atomic, from any file system *)
Lemma recorded_atomic_instance_safe :
  forall p ops, is_atomic_instance p ops = true ->
    exists new, forall (f : fs) k, all_or_nothing (f p) new (run (firstn k ops) f) p.
Proof.
  intros p ops H. destruct (is_atomic_instance_sound _ _ H) as [t [chunks [Ht ->]]].
  exists (concat chunks). intros f k. now apply atomic_all_or_nothing.
Qed.

Lemma is_write_file_instance_sound p ops : is_write_file_instance p ops = true ->
  exists chunks, ops = write_file p chunks.
Proof.
  destruct ops as [|o ops]; cbn; [discriminate|]. destruct o; try discriminate.
  intro H. apply andb_prop in H as [H1 H2]. apply N.eqb_eq in H1. subst p0.
  assert (exists chunks, ops = map (Write p) chunks ++ [Close p]) as [chunks ->].
  { clear -H2. induction ops as [|o ops IH]; cbn in *; [discriminate|].
    destruct o; try discriminate.
    - apply andb_prop in H2 as [H1 H2]. apply N.eqb_eq in H1. subst.
      destruct (IH H2) as [chunks ->]. now exists (chunk :: chunks).
    - destruct ops; [|discriminate]. apply N.eqb_eq in H2. subst. now exists []. }
  now exists chunks.
Qed.
