(* C48 — crash model of in-place file rewrites (definitions only).

   File system = map path -> option content (None = the path does not exist).  Paths are numbered by
   the harness (the target file, the temp files next to it).  The operation alphabet is what the two
   write helpers used by d2 do to the files involved:

     os.WriteFile(p, data, 0644)      (xmain.State.WritePath, used by `d2 fmt`)
         = openat(p, O_WRONLY|O_CREAT|O_TRUNC) ; write ... ; close
     xmain.State.AtomicWritePath(p)   (used by d2cli.Write for rendered boards)
         = os.CreateTemp(dir p, "tmp-base-") ; write ... ; close ; rename(tmp, p)

   A crash (SIGKILL) happens between two system calls: the state after a crash is the state after a
   prefix of the operation list.  (Process crash, not power loss: the page cache survives, fsync is
   irrelevant and is not modelled.) *)
From Coq Require Import List NArith Bool.
Import ListNotations.
Open Scope N_scope.

Definition path := N.
Definition content := list N.            (* bytes *)
Definition fs := path -> option content.

Inductive op :=
| OpenTrunc (p : path)                    (* open O_TRUNC|O_CREAT: p exists and is empty afterwards *)
| Write (p : path) (chunk : content)      (* sequential write through the descriptor opened last on p *)
| Close (p : path)
| CreateTemp (t : path)                   (* O_CREAT|O_EXCL of a fresh name: t exists and is empty *)
| Rename (a b : path)                     (* rename(2): atomic replacement of b by a *)
| Remove (p : path)
| Other (p : path).                       (* any other system call that changes a file involved
                                             (ftruncate, open for writing without O_TRUNC, ...):
                                             never part of a modelled strategy *)

Definition upd (f : fs) (p : path) (c : option content) : fs :=
  fun q => if N.eqb q p then c else f q.

Definition step (f : fs) (o : op) : fs :=
  match o with
  | OpenTrunc p => upd f p (Some [])
  | Write p ch => match f p with Some c => upd f p (Some (c ++ ch)) | None => f end
  | Close _ => f
  | CreateTemp t => upd f t (Some [])
  | Rename a b => match f a with Some c => upd (upd f b (Some c)) a None | None => f end
  | Remove p => upd f p None
  | Other _ => f
  end.

Definition run (ops : list op) (f : fs) : fs := fold_left step ops f.

(* every state a kill can leave behind *)
Definition crash_states (ops : list op) (f : fs) : list fs :=
  map (fun k => run (firstn k ops) f) (seq 0 (S (length ops))).

(* the two strategies, for any split of the data into write(2) calls *)
Definition write_file (p : path) (chunks : list content) : list op :=
  OpenTrunc p :: map (Write p) chunks ++ [Close p].

Definition atomic_write (p t : path) (chunks : list content) : list op :=
  CreateTemp t :: map (Write t) chunks ++ [Close t; Rename t p].

(* d2cli.Write: AtomicWritePath, and when it returns an error, WritePath.  [done] is what the failed
   atomic attempt had written to its temp file before giving up (it removes the temp file on error). *)
Definition d2_write_fallback (p t : path) (done : list content) (chunks : list content) : list op :=
  (CreateTemp t :: map (Write t) done ++ [Remove t]) ++ write_file p chunks.

(* the property: the target holds its complete old or its complete new content *)
Definition all_or_nothing (old : option content) (new : content) (f : fs) (p : path) : Prop :=
  f p = old \/ f p = Some new.

(* ---- executable versions used by Check.v ---- *)

Definition content_eqb (a b : content) : bool :=
  (fix go (a b : content) : bool :=
     match a, b with
     | [], [] => true
     | x :: a', y :: b' => N.eqb x y && go a' b'
     | _, _ => false
     end) a b.

Definition ocontent_eqb (a b : option content) : bool :=
  match a, b with
  | None, None => true
  | Some x, Some y => content_eqb x y
  | _, _ => false
  end.

Definition all_or_nothing_b (old : option content) (new : content) (f : fs) (p : path) : bool :=
  ocontent_eqb (f p) old || ocontent_eqb (f p) (Some new).

(* the predicate on every crash prefix of an operation list *)
Definition crash_safe_b (old : option content) (new : content) (ops : list op) (f : fs) (p : path) : bool :=
  forallb (fun g => all_or_nothing_b old new g p) (crash_states ops f).

(* index of the first crash point that leaves a torn file, for the report *)
Definition first_torn (old : option content) (new : content) (ops : list op) (f : fs) (p : path) : option nat :=
  find (fun k => negb (all_or_nothing_b old new (run (firstn k ops) f) p)) (seq 0 (S (length ops))).

(* recogniser: is a recorded operation list an instance of [atomic_write p t _] ? *)
Fixpoint atomic_tail (p t : path) (ops : list op) : bool :=
  match ops with
  | [Close t1; Rename t2 p1] => N.eqb t1 t && N.eqb t2 t && N.eqb p1 p
  | Write t1 _ :: rest => N.eqb t1 t && atomic_tail p t rest
  | _ => false
  end.

Definition is_atomic_instance (p : path) (ops : list op) : bool :=
  match ops with
  | CreateTemp t :: rest => negb (N.eqb t p) && atomic_tail p t rest
  | _ => false
  end.

(* recogniser for the truncate-then-write strategy (reported separately in the evidence) *)
Fixpoint wf_tail (p : path) (ops : list op) : bool :=
  match ops with
  | [Close p1] => N.eqb p1 p
  | Write p1 _ :: rest => N.eqb p1 p && wf_tail p rest
  | _ => false
  end.

Definition is_write_file_instance (p : path) (ops : list op) : bool :=
  match ops with
  | OpenTrunc p1 :: rest => N.eqb p1 p && wf_tail p rest
  | _ => false
  end.

Definition written (ops : list op) (p : path) : content :=
  flat_map (fun o => match o with Write q ch => if N.eqb q p then ch else [] | _ => [] end) ops.

Definition fs0 (p : path) (old : option content) : fs := upd (fun _ => None) p old.
