(* Executable case checker for C48.  A case is one (command, target file) pair: the harness ran the
   real CLI under strace, mapped the system calls that touch the target (path 0) or a temp file next
   to it (paths 1, 2, ...) to the operation alphabet of Model.v, and re-ran the command with the
   process really killed (SIGKILL injected by strace) at some crash points. *)
From Coq Require Import List NArith Bool.
Import ListNotations.
Require Import V.Lib.RunCases.
Require Export V.C48.Model.   (* the case files written by the harness use the op constructors *)
Open Scope N_scope.

Inductive case :=
| Case (cmd : N)                          (* 0 = d2 fmt FILE, 1 = single-board render to FILE *)
       (old : option content)             (* content of the target before the run (None: absent) *)
       (new : content)                    (* content of the target after the complete run *)
       (ops : list op)                    (* recorded operations, complete run *)
       (kills : list (nat * option content)).
         (* real kills: (number of recorded operations completed before SIGKILL, content read back) *)

Definition target : path := 0.

Definition check_case (c : case) : list N :=
  match c with
  | Case cmd old new ops kills =>
      let f0 := fs0 target old in
      match ops with
      | [] =>
          (* the command did not write the file at all (already formatted): it must be unchanged *)
          flag (ocontent_eqb old (Some new)) 10
      | _ =>
          (* correspondence: the recorded sequence is an instance of the model's atomic strategy,
             the model file system reproduces the final content and every killed run *)
          flag (is_atomic_instance target ops) 1
          ++ flag (ocontent_eqb (run ops f0 target) (Some new)) 1
          ++ flag (forallb (fun kc => ocontent_eqb (run (firstn (fst kc) ops) f0 target) (snd kc)) kills) 1
          (* the property on every crash prefix of the RECORDED sequence *)
          ++ flag (crash_safe_b old new ops f0 target) 10
          (* the property on what a really killed process left behind *)
          ++ flag (forallb (fun kc => ocontent_eqb (snd kc) old || ocontent_eqb (snd kc) (Some new)) kills) 11
      end
  end.
