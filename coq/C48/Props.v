(* C48 — Files rewritten in place are never left partially written.  Statements only. *)
From Coq Require Import List NArith.
Import ListNotations.
Require Import V.C48.Model V.C48.Proofs.
Open Scope N_scope.

(* The temp-file + rename strategy (xmain.AtomicWritePath, used by d2cli.Write for rendered boards):
   for every file system, every target and temp path, every split of the data into write(2) calls and
   every crash point k (state after the first k operations), the target holds its complete previous
   content (or is still absent) or the complete new content. *)
Theorem C48_atomic_write_all_or_nothing :
  forall (f : fs) (p t : path) (chunks : list content) (k : nat), t <> p ->
    all_or_nothing (f p) (concat chunks) (run (firstn k (atomic_write p t chunks)) f) p.
Proof. exact atomic_all_or_nothing. Qed.

(* Every recorded operation list that the recogniser of Check.v accepts is such an instance, hence
   crash-atomic from any file system (ties code 1 of check_case to the theorem above). *)
Theorem C48_recorded_atomic_instance_safe :
  forall p ops, is_atomic_instance p ops = true ->
    exists new, forall (f : fs) k, all_or_nothing (f p) new (run (firstn k ops) f) p.
Proof. exact recorded_atomic_instance_safe. Qed.

(* The boolean evaluated on recorded traces is the property over ALL crash points of that trace. *)
Theorem C48_crash_safe_b_iff :
  forall old new ops f p,
    crash_safe_b old new ops f p = true <-> forall k, all_or_nothing old new (run (firstn k ops) f) p.
Proof. exact crash_safe_b_iff. Qed.

(* os.WriteFile (xmain.WritePath, used by `d2 fmt`): killed right after the open(O_TRUNC) the file is
   empty, for every non-empty old and new content and every chunking ... *)
Theorem C48_write_file_torn_after_open :
  forall (f : fs) p old new chunks, f p = Some old -> old <> [] -> new <> [] ->
    ~ all_or_nothing (Some old) new (run (firstn 1 (write_file p chunks)) f) p.
Proof. exact write_file_torn_after_open. Qed.

(* ... so the property as stated for `d2 fmt` is refuted in the model of the strategy it uses *)
Theorem C48_write_file_refuted :
  exists (f : fs) p old new chunks k, f p = Some old /\ concat chunks = new /\
    ~ all_or_nothing (Some old) new (run (firstn k (write_file p chunks)) f) p.
Proof. exact write_file_refuted. Qed.

(* d2cli.Write = AtomicWritePath, else WritePath: when the atomic attempt fails the guarantee is lost;
   the positive theorem therefore carries the guard "the recorded run is the atomic instance"
   (monitored per case, code 1). *)
Theorem C48_write_fallback_refuted :
  exists (f : fs) p t old new done chunks k, t <> p /\ f p = Some old /\ concat chunks = new /\
    ~ all_or_nothing (Some old) new (run (firstn k (d2_write_fallback p t done chunks)) f) p.
Proof. exact d2_write_fallback_refuted. Qed.

(* non-vacuity of the guards *)
Example C48_atomic_guard_satisfiable :
  (1 <> 0) /\ is_atomic_instance 0 (atomic_write 0 1 [[60; 115]; [118]]) = true.
Proof. split; [discriminate | reflexivity]. Qed.

Example C48_torn_guard_satisfiable :
  fs0 0 (Some [1]) 0 = Some [1] /\ [1] <> @nil N /\ [2] <> @nil N.
Proof. repeat split; discriminate. Qed.

Print Assumptions C48_atomic_write_all_or_nothing.
Print Assumptions C48_recorded_atomic_instance_safe.
Print Assumptions C48_crash_safe_b_iff.
Print Assumptions C48_write_file_torn_after_open.
Print Assumptions C48_write_file_refuted.
Print Assumptions C48_write_fallback_refuted.
