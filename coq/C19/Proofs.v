From Coq Require Import ZArith QArith Qminmax List Bool Lia Lqa.
Import ListNotations.
Require Import V.C19.Model.
Open Scope Q_scope.

(* ------------------------------------------------------------------ booleans <-> propositions *)
Lemma Qlt_b_iff a b : Qlt_b a b = true <-> a < b.
Proof.
  unfold Qlt_b. rewrite negb_true_iff. split; intro H.
  - apply Qnot_le_lt. intro L. apply Qle_bool_iff in L. congruence.
  - destruct (Qle_bool b a) eqn:E; auto. apply Qle_bool_iff in E. exfalso. eapply Qlt_not_le; eauto.
Qed.

Lemma Qlt_b_false a b : Qlt_b a b = false <-> b <= a.
Proof.
  unfold Qlt_b. rewrite negb_false_iff. apply Qle_bool_iff.
Qed.

Definition Inside (tol : Q) (a b : box) : Prop :=
  bx b <= bx a + tol /\ by_ b <= by_ a + tol /\ bright a <= bright b + tol /\ bbottom a <= bbottom b + tol.

Lemma inside_b_iff tol a b : inside_b tol a b = true <-> Inside tol a b.
Proof.
  unfold inside_b, Inside. rewrite !andb_true_iff, !Qle_bool_iff. tauto.
Qed.

(* one axis: the two intervals share more than tol *)
Definition Ovl1 (tol x1 r1 x2 r2 : Q) : Prop := tol < r1 - x2 /\ tol < r2 - x1 /\ tol < r1 - x1 /\ tol < r2 - x2.

Lemma ovl1_iff tol x1 r1 x2 r2 : ovl1 tol x1 r1 x2 r2 = true <-> Ovl1 tol x1 r1 x2 r2.
Proof. unfold ovl1, Ovl1. rewrite !andb_true_iff, !Qlt_b_iff. tauto. Qed.

Definition Overlap (tol : Q) (a b : box) : Prop :=
  Ovl1 tol (bx a) (bright a) (bx b) (bright b) /\ Ovl1 tol (by_ a) (bbottom a) (by_ b) (bbottom b).

Lemma overlap_b_iff tol a b : overlap_b tol a b = true <-> Overlap tol a b.
Proof. unfold overlap_b, Overlap. rewrite andb_true_iff, !ovl1_iff. tauto. Qed.

(* [Ovl1] is "min r - max x > tol" *)
Lemma Ovl1_minmax tol x1 r1 x2 r2 : Ovl1 tol x1 r1 x2 r2 <-> tol < Qmin r1 r2 - Qmax x1 x2.
Proof.
  unfold Ovl1. split.
  - intros (A & B & C & D).
    destruct (Q.min_spec r1 r2) as [[_ E]|[_ E]]; destruct (Q.max_spec x1 x2) as [[_ F]|[_ F]]; rewrite E, F; lra.
  - intro H.
    pose proof (Q.le_min_l r1 r2). pose proof (Q.le_min_r r1 r2).
    pose proof (Q.le_max_l x1 x2). pose proof (Q.le_max_r x1 x2). repeat split; lra.
Qed.

Lemma bool_eq_iff (a b : bool) : (a = true <-> b = true) -> a = b.
Proof. destruct a, b; intuition congruence. Qed.

(* ------------------------------------------------------------------ shifts *)
Lemma bright_shift dx dy b : bright (shift_box dx dy b) == bright b + dx.
Proof. unfold bright, shift_box; simpl. lra. Qed.
Lemma bbottom_shift dx dy b : bbottom (shift_box dx dy b) == bbottom b + dy.
Proof. unfold bbottom, shift_box; simpl. lra. Qed.

Lemma Inside_shift tol dx dy a b : Inside tol (shift_box dx dy a) (shift_box dx dy b) <-> Inside tol a b.
Proof.
  unfold Inside. rewrite !bright_shift, !bbottom_shift. simpl. split; intros (A & B & C & D); repeat split; lra.
Qed.

Lemma inside_shift tol dx dy a b : inside_b tol (shift_box dx dy a) (shift_box dx dy b) = inside_b tol a b.
Proof. apply bool_eq_iff. rewrite !inside_b_iff. apply Inside_shift. Qed.

Lemma Overlap_shift tol dx dy a b : Overlap tol (shift_box dx dy a) (shift_box dx dy b) <-> Overlap tol a b.
Proof.
  unfold Overlap, Ovl1. rewrite !bright_shift, !bbottom_shift. simpl.
  split; intros ((A & B & C & D) & (E & F & G & H)); repeat split; lra.
Qed.

Lemma overlap_shift tol dx dy a b : overlap_b tol (shift_box dx dy a) (shift_box dx dy b) = overlap_b tol a b.
Proof. apply bool_eq_iff. rewrite !overlap_b_iff. apply Overlap_shift. Qed.

(* ------------------------------------------------------------------ list helpers *)
Lemma forallb_ext_in {A} (f g : A -> bool) l : (forall x, In x l -> f x = g x) -> forallb f l = forallb g l.
Proof.
  induction l as [|x l IH]; simpl; intro H; auto.
  rewrite H by auto. rewrite IH; auto.
Qed.

Lemma forallb_map {A B} (f : B -> bool) (g : A -> B) l : forallb f (map g l) = forallb (fun x => f (g x)) l.
Proof. induction l; simpl; congruence. Qed.

Lemma pairwise_map {A B} (f : B -> B -> bool) (g : A -> B) l :
  pairwise_b f (map g l) = pairwise_b (fun a b => f (g a) (g b)) l.
Proof. induction l as [|x l IH]; simpl; auto. rewrite forallb_map, IH. reflexivity. Qed.

Lemma pairwise_ext {A} (f g : A -> A -> bool) l : (forall a b, f a b = g a b) -> pairwise_b f l = pairwise_b g l.
Proof.
  intro H. induction l as [|x l IH]; simpl; auto. rewrite IH. f_equal. apply forallb_ext_in. intros; apply H.
Qed.

Lemma pairwise_imp {A} (f g : A -> A -> bool) l :
  (forall a b, f a b = true -> g a b = true) -> pairwise_b f l = true -> pairwise_b g l = true.
Proof.
  intro H. induction l as [|x l IH]; simpl; auto. rewrite !andb_true_iff. intros [P Q]. split; auto.
  rewrite forallb_forall in *. intros y Hy. apply H, P, Hy.
Qed.

(* ------------------------------------------------------------------ induction on trees *)
Lemma tree_ind' (P : tree -> Prop) :
  (forall b s ks, Forall P ks -> P (Node b s ks)) -> forall t, P t.
Proof.
  intro H. fix IH 1. intros [b s ks]. apply H.
  induction ks as [|k ks IHks]; constructor; [apply IH | exact IHks].
Qed.

Lemma root_box_shift dx dy t : root_box (shift_tree dx dy t) = shift_box dx dy (root_box t).
Proof. destruct t; reflexivity. Qed.

Lemma boxes_of_shift dx dy t : boxes_of (shift_tree dx dy t) = map (shift_box dx dy) (boxes_of t).
Proof.
  induction t as [b s ks IH] using tree_ind'. simpl. f_equal.
  induction ks as [|k ks IHks]; simpl; auto.
  inversion IH; subst. rewrite map_app. f_equal; auto.
Qed.

Lemma forest_boxes_shift dx dy f : forest_boxes (map (shift_tree dx dy) f) = map (shift_box dx dy) (forest_boxes f).
Proof.
  unfold forest_boxes. induction f as [|t f IH]; simpl; auto. rewrite map_app, boxes_of_shift, IH. reflexivity.
Qed.

(* a container moved together with all its descendants (any depth, any number of children) keeps both clauses *)
Lemma contain_shift tol dx dy t : contain_b tol (shift_tree dx dy t) = contain_b tol t.
Proof.
  induction t as [b s ks IH] using tree_ind'. simpl. destruct s; auto.
  rewrite forallb_map. apply forallb_ext_in. intros k Hk.
  rewrite Forall_forall in IH. rewrite root_box_shift, inside_shift, (IH k Hk). reflexivity.
Qed.

Lemma sib_disjoint_shift tol dx dy ks : sib_disjoint_b tol (map (shift_tree dx dy) ks) = sib_disjoint_b tol ks.
Proof.
  unfold sib_disjoint_b. rewrite pairwise_map. apply pairwise_ext. intros a b.
  rewrite !root_box_shift, overlap_shift. reflexivity.
Qed.

Lemma disjoint_shift tol dx dy t : disjoint_b tol (shift_tree dx dy t) = disjoint_b tol t.
Proof.
  induction t as [b s ks IH] using tree_ind'. simpl. destruct s; auto.
  rewrite sib_disjoint_shift. f_equal. rewrite forallb_map. apply forallb_ext_in. intros k Hk.
  rewrite Forall_forall in IH. apply IH, Hk.
Qed.

Lemma good_shift tol dx dy t : good_b tol (shift_tree dx dy t) = good_b tol t.
Proof. unfold good_b. rewrite contain_shift, disjoint_shift. reflexivity. Qed.

Lemma forest_contain_shift tol dx dy f : forest_contain_b tol (map (shift_tree dx dy) f) = forest_contain_b tol f.
Proof. unfold forest_contain_b. rewrite forallb_map. apply forallb_ext_in. intros; apply contain_shift. Qed.

Lemma forest_disjoint_shift tol dx dy f : forest_disjoint_b tol (map (shift_tree dx dy) f) = forest_disjoint_b tol f.
Proof.
  unfold forest_disjoint_b. rewrite sib_disjoint_shift. f_equal.
  rewrite forallb_map. apply forallb_ext_in. intros; apply disjoint_shift.
Qed.

(* PositionNested keeps whatever the nested layout established inside its own graph *)
Lemma position_nested_contain tol cx cy f pts :
  forest_contain_b tol (fst (position_nested cx cy f pts)) = forest_contain_b tol f.
Proof. unfold position_nested. destruct (no_move cx cy); simpl; auto. apply forest_contain_shift. Qed.

Lemma position_nested_disjoint tol cx cy f pts :
  forest_disjoint_b tol (fst (position_nested cx cy f pts)) = forest_disjoint_b tol f.
Proof. unfold position_nested. destruct (no_move cx cy); simpl; auto. apply forest_disjoint_shift. Qed.

(* ------------------------------------------------------------------ monotonicity in the tolerance *)
Lemma Inside_mono t1 t2 a b : t1 <= t2 -> Inside t1 a b -> Inside t2 a b.
Proof. unfold Inside. intros H (A & B & C & D). repeat split; lra. Qed.

Lemma inside_mono t1 t2 a b : t1 <= t2 -> inside_b t1 a b = true -> inside_b t2 a b = true.
Proof. rewrite !inside_b_iff. apply Inside_mono. Qed.

Lemma Overlap_mono t1 t2 a b : t1 <= t2 -> Overlap t2 a b -> Overlap t1 a b.
Proof. unfold Overlap, Ovl1. intros H ((A & B & C & D) & (E & F & G & I)). repeat split; lra. Qed.

Lemma no_overlap_mono t1 t2 a b : t1 <= t2 -> overlap_b t1 a b = false -> overlap_b t2 a b = false.
Proof.
  intros H N. destruct (overlap_b t2 a b) eqn:E; auto.
  apply overlap_b_iff in E. apply (Overlap_mono t1 t2 a b H) in E. apply overlap_b_iff in E. congruence.
Qed.

Lemma contain_mono t1 t2 t : t1 <= t2 -> contain_b t1 t = true -> contain_b t2 t = true.
Proof.
  intro H. induction t as [b s ks IH] using tree_ind'. simpl. destruct s; auto.
  rewrite !forallb_forall. intros P k Hk. specialize (P k Hk). apply andb_true_iff in P as [P1 P2].
  rewrite Forall_forall in IH. apply andb_true_iff. split; [eapply inside_mono; eauto | apply IH; auto].
Qed.

Lemma sib_disjoint_mono t1 t2 ks : t1 <= t2 -> sib_disjoint_b t1 ks = true -> sib_disjoint_b t2 ks = true.
Proof.
  intro H. unfold sib_disjoint_b. apply pairwise_imp. intros a b. rewrite !negb_true_iff. apply no_overlap_mono, H.
Qed.

Lemma disjoint_mono t1 t2 t : t1 <= t2 -> disjoint_b t1 t = true -> disjoint_b t2 t = true.
Proof.
  intro H. induction t as [b s ks IH] using tree_ind'. simpl. destruct s; auto.
  rewrite !andb_true_iff. intros [P Q]. split; [eapply sib_disjoint_mono; eauto|].
  rewrite forallb_forall in *. rewrite Forall_forall in IH. intros k Hk. apply IH; auto.
Qed.

(* ------------------------------------------------------------------ boundingBox *)
Lemma fold_bb_tlx rest acc : tlx (fold_left bb_add rest acc) = fold_left Qmin (map bx rest) (tlx acc).
Proof. revert acc. induction rest as [|b rest IH]; intro acc; simpl; auto. rewrite IH. reflexivity. Qed.
Lemma fold_bb_tly rest acc : tly (fold_left bb_add rest acc) = fold_left Qmin (map by_ rest) (tly acc).
Proof. revert acc. induction rest as [|b rest IH]; intro acc; simpl; auto. rewrite IH. reflexivity. Qed.
Lemma fold_bb_brx rest acc : brx (fold_left bb_add rest acc) = fold_left Qmax (map bright rest) (brx acc).
Proof. revert acc. induction rest as [|b rest IH]; intro acc; simpl; auto. rewrite IH. reflexivity. Qed.
Lemma fold_bb_bry rest acc : bry (fold_left bb_add rest acc) = fold_left Qmax (map bbottom rest) (bry acc).
Proof. revert acc. induction rest as [|b rest IH]; intro acc; simpl; auto. rewrite IH. reflexivity. Qed.

Lemma fold_min_le_acc l a : fold_left Qmin l a <= a.
Proof.
  revert a. induction l as [|x l IH]; intro a; simpl; [apply Qle_refl|].
  eapply Qle_trans; [apply IH | apply Q.le_min_l].
Qed.

Lemma fold_min_le_in l a x : In x l -> fold_left Qmin l a <= x.
Proof.
  revert a. induction l as [|y l IH]; intros a H; [destruct H|]. destruct H as [E|H]; simpl.
  - subst. eapply Qle_trans; [apply fold_min_le_acc | apply Q.le_min_r].
  - apply IH, H.
Qed.

Lemma fold_min_attained l a : fold_left Qmin l a == a \/ exists x, In x l /\ fold_left Qmin l a == x.
Proof.
  revert a. induction l as [|y l IH]; intro a; simpl; [left; reflexivity|].
  destruct (IH (Qmin a y)) as [E|[x [Hx E]]].
  - destruct (Q.min_spec a y) as [[_ M]|[_ M]];
      [left; eapply Qeq_trans; eauto | right; exists y; split; auto; eapply Qeq_trans; eauto].
  - right. exists x. auto.
Qed.

Lemma fold_max_ge_acc l a : a <= fold_left Qmax l a.
Proof.
  revert a. induction l as [|x l IH]; intro a; simpl; [apply Qle_refl|].
  eapply Qle_trans; [apply Q.le_max_l | apply IH].
Qed.

Lemma fold_max_ge_in l a x : In x l -> x <= fold_left Qmax l a.
Proof.
  revert a. induction l as [|y l IH]; intros a H; [destruct H|]. destruct H as [E|H]; simpl.
  - subst. eapply Qle_trans; [apply Q.le_max_r | apply fold_max_ge_acc].
  - apply IH, H.
Qed.

Lemma fold_max_attained l a : fold_left Qmax l a == a \/ exists x, In x l /\ fold_left Qmax l a == x.
Proof.
  revert a. induction l as [|y l IH]; intro a; simpl; [left; reflexivity|].
  destruct (IH (Qmax a y)) as [E|[x [Hx E]]].
  - destruct (Q.max_spec a y) as [[_ M]|[_ M]];
      [right; exists y; split; auto; eapply Qeq_trans; eauto | left; eapply Qeq_trans; eauto].
  - right. exists x. auto.
Qed.

(* every object lies inside the bounding box ... *)
Lemma bb_bounds objs b : In b objs ->
  let bb := bounding_box objs in
  tlx bb <= bx b /\ tly bb <= by_ b /\ bright b <= brx bb /\ bbottom b <= bry bb.
Proof.
  destruct objs as [|o rest]; [intros []|]. intros H. simpl.
  rewrite fold_bb_tlx, fold_bb_tly, fold_bb_brx, fold_bb_bry. simpl.
  destruct H as [E|H].
  - subst. repeat split; first [apply fold_min_le_acc | apply fold_max_ge_acc].
  - repeat split; first [apply fold_min_le_in, in_map, H | apply fold_max_ge_in, in_map, H].
Qed.

(* ... and each side of the bounding box is attained by an object *)
Lemma bb_attained objs : objs <> [] ->
  let bb := bounding_box objs in
  (exists b, In b objs /\ tlx bb == bx b) /\ (exists b, In b objs /\ tly bb == by_ b) /\
  (exists b, In b objs /\ brx bb == bright b) /\ (exists b, In b objs /\ bry bb == bbottom b).
Proof.
  destruct objs as [|o rest]; [congruence|]. intros _. simpl.
  rewrite fold_bb_tlx, fold_bb_tly, fold_bb_brx, fold_bb_bry. simpl.
  assert (G : forall (f : box -> Q) v, (v == f o \/ exists x, In x (map f rest) /\ v == x) -> exists b, (o = b \/ In b rest) /\ v == f b).
  { intros f v [E|[x [Hx E]]]; [exists o; auto|]. apply in_map_iff in Hx as [b [Eb Hb]]. exists b. subst. auto. }
  repeat split; apply G; first [apply fold_min_attained | apply fold_max_attained].
Qed.

(* ------------------------------------------------------------------ FitToGraph + PositionNested *)
Lemma zero_dim_false rootW rootH : zero_dim rootW rootH = false -> ~ rootW == 0 /\ ~ rootH == 0.
Proof.
  unfold zero_dim. rewrite orb_false_iff. intros [A B]. split; intro E; apply Qeq_bool_iff in E; congruence.
Qed.

(* what the hypothesis gives, per object, relative to the size FitToGraph computes (before padding) *)
Lemma nested_in_box_content tol rootW rootH objs b :
  0 <= tol -> nested_in_box_b tol rootW rootH objs = true -> In b objs ->
  let '(w, h) := content_size rootW rootH objs in
  - tol <= bx b /\ - tol <= by_ b /\ bright b <= w + tol /\ bbottom b <= h + tol.
Proof.
  intros Ht H Hb. unfold nested_in_box_b, content_size in *. destruct (zero_dim rootW rootH).
  - unfold tl_zero_b in H. destruct objs as [|o rest] eqn:E; [destruct Hb|]. rewrite <- E in *.
    rewrite !andb_true_iff, !Qle_bool_iff in H. destruct H as (((A & B) & C) & D).
    pose proof (bb_bounds objs b Hb) as (P & Q & R & S). cbv zeta in *. repeat split; lra.
  - rewrite forallb_forall in H. specialize (H b Hb). apply inside_b_iff in H.
    unfold Inside, bright, bbottom in *. simpl in H. destruct H as (A & B & C & D). repeat split; lra.
Qed.

Lemma pad_nonneg_iff p : pad_nonneg_b p = true <-> 0 <= sp_top p /\ 0 <= sp_bottom p /\ 0 <= sp_left p /\ 0 <= sp_right p.
Proof. unfold pad_nonneg_b. rewrite !andb_true_iff, !Qle_bool_iff. tauto. Qed.

Lemma no_move_iff cx cy : no_move cx cy = true <-> cx == 0 /\ cy == 0.
Proof. unfold no_move. rewrite andb_true_iff, !Qeq_bool_iff. tauto. Qed.

Lemma position_nested_boxes cx cy f pts b :
  In b (forest_boxes (fst (position_nested cx cy f pts))) ->
  exists b0, In b0 (forest_boxes f) /\ bx b == bx b0 + cx /\ by_ b == by_ b0 + cy /\ bw b = bw b0 /\ bh b = bh b0.
Proof.
  unfold position_nested. destruct (no_move cx cy) eqn:E; simpl.
  - apply no_move_iff in E as [E1 E2]. intro H. exists b. repeat split; auto; lra.
  - rewrite forest_boxes_shift. intro H. apply in_map_iff in H as [b0 [Eb H]]. exists b0. subst b. simpl.
    repeat split; auto; lra.
Qed.

Lemma tl_zero_b_nonempty tol objs : objs <> [] ->
  tl_zero_b tol objs =
  (let bb := bounding_box objs in
   Qle_bool (- tol) (tlx bb) && Qle_bool (tlx bb) tol && Qle_bool (- tol) (tly bb) && Qle_bool (tly bb) tol).
Proof. destruct objs; [congruence | reflexivity]. Qed.

(* main theorem: every injected object (any depth) lies inside the container box *)
Lemma thm_nested_inside tol eps rootW rootH pad f pts cx cy cw ch :
  0 <= tol -> 0 <= eps -> pad_nonneg_b pad = true ->
  nested_in_box_b tol rootW rootH (forest_boxes f) = true ->
  fst (fit_to_graph rootW rootH pad (forest_boxes f)) <= cw + eps ->
  snd (fit_to_graph rootW rootH pad (forest_boxes f)) <= ch + eps ->
  forall b, In b (forest_boxes (fst (position_nested cx cy f pts))) ->
  inside_b (tol + eps) b (mkbox cx cy cw ch) = true.
Proof.
  intros Ht He Hp H Hw Hh b Hb.
  apply position_nested_boxes in Hb as (b0 & Hb0 & Ex & Ey & Ew & Eh).
  pose proof (nested_in_box_content tol rootW rootH (forest_boxes f) b0 Ht H Hb0) as C.
  unfold fit_to_graph in *. destruct (content_size rootW rootH (forest_boxes f)) as [w h]. simpl in Hw, Hh.
  apply pad_nonneg_iff in Hp as (P1 & P2 & P3 & P4). destruct C as (C1 & C2 & C3 & C4).
  apply inside_b_iff. unfold Inside, bright, bbottom in *. simpl. rewrite Ew, Eh. repeat split; lra.
Qed.

(* bounding-box branch: (0,0) as top-left of the nested bounding box is exactly what is needed *)
Lemma thm_bbox_branch_iff rootW rootH f cx cy :
  zero_dim rootW rootH = true -> forest_boxes f <> [] ->
  let W := fst (fit_to_graph rootW rootH no_pad (forest_boxes f)) in
  let H := snd (fit_to_graph rootW rootH no_pad (forest_boxes f)) in
  (forall b, In b (forest_boxes (fst (position_nested cx cy f []))) -> inside_b 0 b (mkbox cx cy W H) = true)
  <-> tl_zero_b 0 (forest_boxes f) = true.
Proof.
  intros Z NE W H. split.
  - intro A.
    assert (A0 : forall b0, In b0 (forest_boxes f) -> 0 <= bx b0 /\ 0 <= by_ b0 /\ bright b0 <= W /\ bbottom b0 <= H).
    { intros b0 Hb0.
      assert (exists b, In b (forest_boxes (fst (position_nested cx cy f []))) /\
                        bx b == bx b0 + cx /\ by_ b == by_ b0 + cy /\ bw b = bw b0 /\ bh b = bh b0) as (b & Hb & Ex & Ey & Ew & Eh).
      { unfold position_nested. destruct (no_move cx cy) eqn:E; simpl.
        - apply no_move_iff in E as [E1 E2]. exists b0. repeat split; auto; lra.
        - exists (shift_box cx cy b0). rewrite forest_boxes_shift. split; [apply in_map, Hb0|]. simpl. repeat split; lra. }
      specialize (A b Hb). apply inside_b_iff in A. unfold Inside, bright, bbottom in *. simpl in A.
      rewrite Ew, Eh in A. destruct A as (A1 & A2 & A3 & A4). repeat split; lra. }
    rewrite tl_zero_b_nonempty by exact NE.
    destruct (bb_attained (forest_boxes f) NE) as ((b1 & H1 & E1) & (b2 & H2 & E2) & (b3 & H3 & E3) & (b4 & H4 & E4)).
    cbv zeta in *.
    subst W H. unfold fit_to_graph, content_size, no_pad in A0. rewrite Z in A0. simpl in A0.
    pose proof (A0 b1 H1) as (P1 & _ & _ & _). pose proof (A0 b2 H2) as (_ & P2 & _ & _).
    pose proof (A0 b3 H3) as (_ & _ & P3 & _). pose proof (A0 b4 H4) as (_ & _ & _ & P4).
    rewrite !andb_true_iff, !Qle_bool_iff. repeat split; lra.
  - intros T b Hb.
    assert (Q : inside_b (0 + 0) b (mkbox cx cy W H) = true).
    { apply (thm_nested_inside 0 0 rootW rootH no_pad f [] cx cy W H); try lra; auto.
      - unfold nested_in_box_b. rewrite Z. exact T.
      - subst W. lra.
      - subst H. lra. }
    eapply inside_mono; [|exact Q]. lra.
Qed.

(* witness: a nested graph whose only object sits at (10,10); the bounding-box branch sizes the container to
   50x50, PositionNested puts the object at container + (10,10): it sticks out by 10 on the right and bottom *)
Definition refute_forest : list tree := [Node (mkbox 10 10 50 50) false []].

Lemma thm_bbox_branch_refuted :
  exists f cx cy,
    let W := fst (fit_to_graph 0 0 no_pad (forest_boxes f)) in
    let H := snd (fit_to_graph 0 0 no_pad (forest_boxes f)) in
    forest_good_b 0 f = true /\
    existsb (fun b => negb (inside_b 1 b (mkbox cx cy W H))) (forest_boxes (fst (position_nested cx cy f []))) = true.
Proof. exists refute_forest, 100, 100. vm_compute. split; reflexivity. Qed.

(* ------------------------------------------------------------------ transitivity, cousins *)
Lemma Inside_trans e1 e2 a b c : Inside e1 a b -> Inside e2 b c -> Inside (e1 + e2) a c.
Proof. unfold Inside. intros (A1 & A2 & A3 & A4) (B1 & B2 & B3 & B4). repeat split; lra. Qed.

Lemma inside_trans e1 e2 a b c : inside_b e1 a b = true -> inside_b e2 b c = true -> inside_b (e1 + e2) a c = true.
Proof. rewrite !inside_b_iff. apply Inside_trans. Qed.

(* shapes inside two non-overlapping containers do not overlap *)
Lemma thm_cousins e tol a A b B :
  inside_b e a A = true -> inside_b e b B = true -> overlap_b tol A B = false ->
  overlap_b (tol + 2 * e) a b = false.
Proof.
  intros Ha Hb N. destruct (overlap_b (tol + 2 * e) a b) eqn:E; auto. exfalso.
  apply inside_b_iff in Ha. apply inside_b_iff in Hb. apply overlap_b_iff in E.
  assert (O : Overlap tol A B).
  { unfold Overlap, Ovl1, Inside in *. destruct Ha as (A1 & A2 & A3 & A4). destruct Hb as (B1 & B2 & B3 & B4).
    destruct E as ((E1 & E2 & E3 & E4) & (F1 & F2 & F3 & F4)). repeat split; lra. }
  apply overlap_b_iff in O. congruence.
Qed.

(* the shapes of a tree that the property talks about: everything not below a sequence diagram *)
Fixpoint visible (t : tree) : list box :=
  match t with Node b s ks => b :: (if s then [] else flat_map visible ks) end.

(* clause 1 at tolerance 0 gives containment in every ancestor, to any depth *)
Lemma thm_descendants_inside t : contain_b 0 t = true -> forall b, In b (visible t) -> inside_b 0 b (root_box t) = true.
Proof.
  induction t as [b0 s ks IH] using tree_ind'. simpl. intros C b [E|H].
  - subst. apply inside_b_iff. unfold Inside. repeat split; lra.
  - destruct s; [destruct H|]. apply in_flat_map in H as [k [Hk Hb]].
    rewrite forallb_forall in C. specialize (C k Hk). apply andb_true_iff in C as [C1 C2].
    rewrite Forall_forall in IH. specialize (IH k Hk C2 b Hb).
    eapply inside_mono; [|eapply inside_trans; eauto]. lra.
Qed.

(* ------------------------------------------------------------------ the injection step on trees *)
Lemma in_roots_boxes t f : In t f -> In (root_box t) (forest_boxes f).
Proof.
  intro H. unfold forest_boxes. apply in_flat_map. exists t. split; auto. destruct t; simpl; auto.
Qed.

Lemma thm_inject_good tol eps rootW rootH pad f cx cy cw ch :
  0 <= tol -> 0 <= eps -> pad_nonneg_b pad = true ->
  forest_good_b tol f = true ->
  nested_in_box_b tol rootW rootH (forest_boxes f) = true ->
  fst (fit_to_graph rootW rootH pad (forest_boxes f)) <= cw + eps ->
  snd (fit_to_graph rootW rootH pad (forest_boxes f)) <= ch + eps ->
  good_b (tol + eps) (inject cx cy cw ch f) = true.
Proof.
  intros Ht He Hp G H Hw Hh. unfold forest_good_b in G. apply andb_true_iff in G as [G1 G2].
  assert (Le : tol <= tol + eps) by lra.
  unfold good_b, inject. simpl. apply andb_true_iff. split.
  - (* containment *)
    pose proof (position_nested_contain tol cx cy f []) as PC. rewrite G1 in PC.
    unfold forest_contain_b in PC. rewrite forallb_forall in *. intros k Hk.
    apply andb_true_iff. split.
    + eapply thm_nested_inside with (pts := []); eauto. apply in_roots_boxes, Hk.
    + eapply contain_mono; eauto.
  - pose proof (position_nested_disjoint tol cx cy f []) as PD. rewrite G2 in PD.
    unfold forest_disjoint_b in PD. apply andb_true_iff in PD as [P1 P2].
    apply andb_true_iff. split; [eapply sib_disjoint_mono; eauto|].
    rewrite forallb_forall in *. intros k Hk. eapply disjoint_mono; eauto.
Qed.
