(* Executable checker for C19 cases.

   Nest  : one run of the REAL exported functions d2layouts.FitToGraph, d2layouts.InjectNested and
           d2layouts.PositionNested on a nested d2graph.Graph -- hand-built by the harness (real = false:
           dyadic boxes, root size given / zero, tl <> (0,0), empty graph, nested edges with routes, padding)
           or produced by the real d2layouts.LayoutNested for a grid / sequence-diagram container extracted
           from a compiled diagram with d2layouts.ExtractSubgraph (real = true).
           Inputs: nestedGraph.Root width/height, the padding argument, the nested objects as a forest, the
           nested route points, the TopLeft the container has when the graph is injected.
           Outputs of the implementation: container width/height after FitToGraph, the nested objects and
           route points after InjectNested + PositionNested.
   Pipe  : one d2 script through the real pipeline (d2lib.Compile: compiler, real ruler, LayoutNested with
           dagre or ELK, d2near, d2grid, d2sequence, d2exporter).  final = the exported diagram's shape
           boxes (integers) as a forest by the container relation; calls = the graphs the engine returned
           (float boxes), one forest per call of the engine.
   All numbers are exact rationals ([qz] integers, [qd m e] = m / 2^e). *)
From Coq Require Import ZArith QArith List Bool NArith.
Import ListNotations.
Require Import V.Lib.RunCases.
Require Export V.C19.Model.
Open Scope Q_scope.

Definition qz (z : Z) : Q := inject_Z z.
Definition qd (m : Z) (e : N) : Q := Qmake m (match e with N0 => 1%positive | Npos p => Pos.pow 2 p end).   (* m / 2^e *)

Inductive case :=
| Nest (real : bool) (rootW rootH : Q) (pad : spacing) (f : list tree) (pts : list (Q * Q)) (cx cy : Q)
       (iw ih : Q) (f' : list tree) (pts' : list (Q * Q))
| Pipe (final : list tree) (calls : list (list tree)).

Definition eps6 : Q := 1 # 1000000.
Definition px : Q := 1.          (* the property's rounding tolerance: one pixel *)

Definition close_b (a b : Q) : bool := Qle_bool (a - b) eps6 && Qle_bool (b - a) eps6.
Definition box_close (a b : box) : bool :=
  close_b (bx a) (bx b) && close_b (by_ a) (by_ b) && close_b (bw a) (bw b) && close_b (bh a) (bh b).
Definition pt_close (a b : Q * Q) : bool := close_b (fst a) (fst b) && close_b (snd a) (snd b).

Fixpoint tree_close (a b : tree) : bool :=
  match a, b with
  | Node ba sa ka, Node bb sb kb =>
      box_close ba bb && Bool.eqb sa sb &&
      (fix go (l1 l2 : list tree) : bool :=
         match l1, l2 with
         | [], [] => true
         | x :: xs, y :: ys => tree_close x y && go xs ys
         | _, _ => false
         end) ka kb
  end.

Definition implb' (a b : bool) := if a then b else true.

(* codes:
     1  model of FitToGraph / PositionNested differs from the implementation (1e-6)
     2  H_nested_in_box false for a nested graph the REAL nested layout (grid / sequence) returned (1 px, the
        property's tolerance: non-rectangular grid shapes have fractional inner boxes)
     3  a graph returned by the engine (dagre / ELK incl. their Go post-processing) violates clause 1 (> 1 px)
     4  a graph returned by the engine violates clause 2 (> 1 px in both axes)
    10  final diagram: a shape is not inside its container's box (> 1 px on the exported integers)
    11  final diagram: two shapes with the same container overlap by more than 1 px in both axes
    12  Nest: H_nested_in_box holds but an injected object is outside the container the implementation sized
    13  Nest: a clause that held among the nested objects before the injection is false after it *)
Definition check_case (c : case) : list N :=
  match c with
  | Nest real rootW rootH pad f pts cx cy iw ih f' pts' =>
      let objs := forest_boxes f in
      let size := fit_to_graph rootW rootH pad objs in
      let moved := position_nested cx cy f pts in
      let corr := close_b (fst size) iw && close_b (snd size) ih &&
                  list_eqb tree_close (fst moved) f' && list_eqb pt_close (snd moved) pts' in
      let hyp := nested_in_box_b eps6 rootW rootH objs in
      let hyp_px := nested_in_box_b px rootW rootH objs in
      let inside := forallb (fun b => inside_b (eps6 + eps6) b (mkbox cx cy iw ih)) (forest_boxes f') in
      let kept := implb' (forest_contain_b px f) (forest_contain_b (px + eps6) f') &&
                  implb' (forest_disjoint_b px f) (forest_disjoint_b (px + eps6) f') in
      flag corr 1 ++ flag (implb' real hyp_px) 2 ++
      flag (implb' (hyp && pad_nonneg_b pad) inside) 12 ++ flag kept 13
  | Pipe final calls =>
      flag (forallb (forest_contain_b px) calls) 3 ++ flag (forallb (forest_disjoint_b px) calls) 4 ++
      flag (forest_contain_b px final) 10 ++ flag (forest_disjoint_b px final) 11
  end.
