(* C19 — containers enclose their children, siblings do not overlap.

   Model of the geometry half of d2layouts/d2layouts.go that glues separately laid-out graphs together:
     boundingBox      (over nestedGraph.Objects; the +Inf/-Inf start values only matter for the empty list,
                       which the code special-cases to (0,0),(0,0))
     FitToGraph       (root size given / bounding-box branch, with the padding argument)
     PositionNested   (shift of every nested object and every nested route point by container.TopLeft,
                       early return when dx = dy = 0)
     InjectNested     (the nested root objects become children of the container: [inject])
   plus the later move of a container together with all its descendants (MoveWithDescendants, done by
   d2grid / d2near / the outer engine): [shift_tree].
   A laid-out (sub)diagram is a forest of [tree]s: box, "is a sequence diagram" flag, children.
   Numbers are exact rationals (every float64 is a dyadic rational). *)
From Coq Require Import ZArith QArith Qminmax List Bool.
Import ListNotations.
Open Scope Q_scope.

(* ---------- boxes ---------- *)
Record box := mkbox { bx : Q; by_ : Q; bw : Q; bh : Q }.
Definition bright (b : box) : Q := bx b + bw b.
Definition bbottom (b : box) : Q := by_ b + bh b.

Definition shift_box (dx dy : Q) (b : box) : box := mkbox (bx b + dx) (by_ b + dy) (bw b) (bh b).
Definition shift_pt (dx dy : Q) (p : Q * Q) : Q * Q := (fst p + dx, snd p + dy).

(* ---------- laid-out graphs as forests ---------- *)
Inductive tree := Node (b : box) (seq : bool) (kids : list tree).

Definition root_box (t : tree) : box := match t with Node b _ _ => b end.
Definition is_seq (t : tree) : bool := match t with Node _ s _ => s end.
Definition kids_of (t : tree) : list tree := match t with Node _ _ ks => ks end.

Fixpoint shift_tree (dx dy : Q) (t : tree) : tree :=
  match t with Node b s ks => Node (shift_box dx dy b) s (map (shift_tree dx dy) ks) end.

(* every object of the graph (nestedGraph.Objects holds the descendants of all depths) *)
Fixpoint boxes_of (t : tree) : list box :=
  match t with Node b _ ks => b :: flat_map boxes_of ks end.
Definition forest_boxes (f : list tree) : list box := flat_map boxes_of f.

(* ---------- boundingBox ---------- *)
Record bbox := mkbb { tlx : Q; tly : Q; brx : Q; bry : Q }.

Definition bb_add (a : bbox) (b : box) : bbox :=
  mkbb (Qmin (tlx a) (bx b)) (Qmin (tly a) (by_ b)) (Qmax (brx a) (bright b)) (Qmax (bry a) (bbottom b)).

Definition bb_of (b : box) : bbox := mkbb (bx b) (by_ b) (bright b) (bbottom b).

(* min(+Inf, x) = x and max(-Inf, x) = x: after the first object the accumulator is that object's box *)
Definition bounding_box (objs : list box) : bbox :=
  match objs with
  | [] => mkbb 0 0 0 0
  | o :: rest => fold_left bb_add rest (bb_of o)
  end.

(* ---------- FitToGraph ---------- *)
Record spacing := mksp { sp_top : Q; sp_bottom : Q; sp_left : Q; sp_right : Q }.
Definition no_pad : spacing := mksp 0 0 0 0.

Definition zero_dim (rootW rootH : Q) : bool := Qeq_bool rootW 0 || Qeq_bool rootH 0.

(* width/height before the padding is added *)
Definition content_size (rootW rootH : Q) (objs : list box) : Q * Q :=
  if zero_dim rootW rootH
  then let bb := bounding_box objs in (brx bb - tlx bb, bry bb - tly bb)
  else (rootW, rootH).

Definition fit_to_graph (rootW rootH : Q) (pad : spacing) (objs : list box) : Q * Q :=
  let '(w, h) := content_size rootW rootH objs in
  (sp_left pad + w + sp_right pad, sp_top pad + h + sp_bottom pad).

(* ---------- PositionNested ---------- *)
Definition no_move (cx cy : Q) : bool := Qeq_bool cx 0 && Qeq_bool cy 0.

Definition position_nested (cx cy : Q) (f : list tree) (pts : list (Q * Q)) : list tree * list (Q * Q) :=
  if no_move cx cy then (f, pts)
  else (map (shift_tree cx cy) f, map (shift_pt cx cy) pts).

(* ---------- the whole injection step of LayoutNested ----------
   FitToGraph(curr, nested, pad); curr.TopLeft = (0,0); the outer layout places the placeholder: final box
   (cx, cy, cw, ch); InjectNested + PositionNested.  Result: the container with the nested roots as children. *)
Definition inject (cx cy cw ch : Q) (f : list tree) : tree :=
  Node (mkbox cx cy cw ch) false (fst (position_nested cx cy f [])).

(* ---------- the property predicates (executable; [tol] = allowed excess) ---------- *)
Definition Qlt_b (a b : Q) : bool := negb (Qle_bool b a).

(* a lies inside b, each side may stick out by at most tol *)
Definition inside_b (tol : Q) (a b : box) : bool :=
  Qle_bool (bx b) (bx a + tol) && Qle_bool (by_ b) (by_ a + tol) &&
  Qle_bool (bright a) (bright b + tol) && Qle_bool (bbottom a) (bbottom b + tol).

(* the intervals [x1,r1] and [x2,r2] share more than tol:  min(r1,r2) - max(x1,x2) > tol *)
Definition ovl1 (tol x1 r1 x2 r2 : Q) : bool :=
  Qlt_b tol (r1 - x2) && Qlt_b tol (r2 - x1) && Qlt_b tol (r1 - x1) && Qlt_b tol (r2 - x2).

(* a and b overlap by more than tol in both axes *)
Definition overlap_b (tol : Q) (a b : box) : bool :=
  ovl1 tol (bx a) (bright a) (bx b) (bright b) && ovl1 tol (by_ a) (bbottom a) (by_ b) (bbottom b).

Fixpoint pairwise_b {A} (f : A -> A -> bool) (l : list A) : bool :=
  match l with
  | [] => true
  | x :: t => forallb (f x) t && pairwise_b f t
  end.

Definition sib_disjoint_b (tol : Q) (ks : list tree) : bool :=
  pairwise_b (fun a b => negb (overlap_b tol (root_box a) (root_box b))) ks.

(* clause 1: every shape lies inside the box of its container (children of a sequence diagram and everything
   below them are excluded) *)
Fixpoint contain_b (tol : Q) (t : tree) : bool :=
  match t with
  | Node b s ks => if s then true else forallb (fun k => inside_b tol (root_box k) b && contain_b tol k) ks
  end.

(* clause 2: shapes with the same container do not overlap by more than tol in both axes *)
Fixpoint disjoint_b (tol : Q) (t : tree) : bool :=
  match t with
  | Node b s ks => if s then true else sib_disjoint_b tol ks && forallb (disjoint_b tol) ks
  end.

Definition good_b (tol : Q) (t : tree) : bool := contain_b tol t && disjoint_b tol t.

(* a whole diagram / a whole graph returned by a layout: the top-level shapes have no container box but are
   siblings of each other *)
Definition forest_contain_b (tol : Q) (f : list tree) : bool := forallb (contain_b tol) f.
Definition forest_disjoint_b (tol : Q) (f : list tree) : bool := sib_disjoint_b tol f && forallb (disjoint_b tol) f.
Definition forest_good_b (tol : Q) (f : list tree) : bool := forest_contain_b tol f && forest_disjoint_b tol f.

(* ---------- the hypothesis FitToGraph + PositionNested rely on ----------
   root size given:      every nested object lies in [0,W] x [0,H]   (W,H = nestedGraph.Root.Width/Height)
   bounding-box branch:  the top-left corner of the nested bounding box is (0,0)
                         ("assumes nestedGraph's layout has contents positioned relative to 0,0") *)
Definition tl_zero_b (tol : Q) (objs : list box) : bool :=
  match objs with
  | [] => true
  | _ => let bb := bounding_box objs in
         Qle_bool (- tol) (tlx bb) && Qle_bool (tlx bb) tol && Qle_bool (- tol) (tly bb) && Qle_bool (tly bb) tol
  end.

Definition nested_in_box_b (tol : Q) (rootW rootH : Q) (objs : list box) : bool :=
  if zero_dim rootW rootH then tl_zero_b tol objs
  else forallb (fun b => inside_b tol b (mkbox 0 0 rootW rootH)) objs.

Definition pad_nonneg_b (p : spacing) : bool :=
  Qle_bool 0 (sp_top p) && Qle_bool 0 (sp_bottom p) && Qle_bool 0 (sp_left p) && Qle_bool 0 (sp_right p).
