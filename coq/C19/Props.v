(* C19 — Containers enclose their children and siblings do not overlap.  Statements only.

   COMPOSITIONAL AND PARTIAL.  The layouts themselves (dagre, ELK and their Go post-processing, the grid and
   sequence layouts) are not modelled; what is proved is the glue of d2layouts.LayoutNested: a graph that was
   laid out separately (grid, sequence diagram, grid-cell container) and is then sized into its placeholder
   by FitToGraph and moved to it by InjectNested + PositionNested -- and any later move of a container
   together with its descendants -- cannot BREAK the containment / non-overlap each layout established in its
   own graph.

   [tree] = a shape box with its children ([seq] marks a sequence diagram: the property excludes everything
   below it); [contain_b tol] / [disjoint_b tol] are the two clauses of the property, the same functions
   Check.v runs on the exported diagram; [tol] is the allowed excess (1 px on exported integers). *)
From Coq Require Import ZArith QArith List Bool.
Import ListNotations.
Require Import V.C19.Model V.C19.Proofs.
Open Scope Q_scope.

(* Every object of a nested graph -- any number of objects, any depth, any sizes -- lies inside the container
   box after FitToGraph + PositionNested, wherever the container was placed (cx, cy), provided
   H_nested_in_box ([nested_in_box_b]): with the root size given every nested object lies in
   [0,W] x [0,H]; in the bounding-box branch the nested bounding box has its top-left corner at (0,0).
   [cw, ch] is the size the placeholder has when the nested graph is injected: the outer layout may have
   changed it, it must not be smaller than what FitToGraph computed by more than eps (dagre passes int(width)
   to the engine). *)
Theorem C19_nested_inside_container :
  forall tol eps rootW rootH pad f pts cx cy cw ch,
    0 <= tol -> 0 <= eps -> pad_nonneg_b pad = true ->
    nested_in_box_b tol rootW rootH (forest_boxes f) = true ->
    fst (fit_to_graph rootW rootH pad (forest_boxes f)) <= cw + eps ->
    snd (fit_to_graph rootW rootH pad (forest_boxes f)) <= ch + eps ->
    forall b, In b (forest_boxes (fst (position_nested cx cy f pts))) ->
    inside_b (tol + eps) b (mkbox cx cy cw ch) = true.
Proof. exact thm_nested_inside. Qed.

Example C19_nested_inside_container_satisfiable :
  let f := [Node (mkbox 60 60 100 50) false [Node (mkbox 70 70 20 20) false []]; Node (mkbox 200 60 40 50) false []] in
  pad_nonneg_b no_pad = true /\ nested_in_box_b 0 300 170 (forest_boxes f) = true /\
  fit_to_graph 300 170 no_pad (forest_boxes f) = (0 + 300 + 0, 0 + 170 + 0).
Proof. vm_compute. repeat split; reflexivity. Qed.

(* Bounding-box branch of FitToGraph (nestedGraph.Root has a zero width or height): the containment holds for
   the exactly fitted container IF AND ONLY IF the nested bounding box starts at (0,0).  PositionNested does
   not subtract the top-left corner ("assumes nestedGraph's layout has contents positioned relative to 0,0"). *)
Theorem C19_bbox_branch_needs_origin :
  forall rootW rootH f cx cy,
    zero_dim rootW rootH = true -> forest_boxes f <> [] ->
    let W := fst (fit_to_graph rootW rootH no_pad (forest_boxes f)) in
    let H := snd (fit_to_graph rootW rootH no_pad (forest_boxes f)) in
    (forall b, In b (forest_boxes (fst (position_nested cx cy f []))) -> inside_b 0 b (mkbox cx cy W H) = true)
    <-> tl_zero_b 0 (forest_boxes f) = true.
Proof. exact thm_bbox_branch_iff. Qed.

Example C19_bbox_branch_needs_origin_satisfiable :
  zero_dim 0 0 = true /\ forest_boxes [Node (mkbox 0 0 50 50) false []] <> [] /\
  tl_zero_b 0 (forest_boxes [Node (mkbox 0 0 50 50) false []]) = true.
Proof. repeat split; try reflexivity. discriminate. Qed.

(* ... and without that hypothesis it fails: a well-formed nested graph whose bounding box starts at (10,10)
   is injected so that its object sticks out of the container by 10 px. *)
Theorem C19_bbox_branch_refuted :
  exists f cx cy,
    let W := fst (fit_to_graph 0 0 no_pad (forest_boxes f)) in
    let H := snd (fit_to_graph 0 0 no_pad (forest_boxes f)) in
    forest_good_b 0 f = true /\
    existsb (fun b => negb (inside_b 1 b (mkbox cx cy W H))) (forest_boxes (fst (position_nested cx cy f []))) = true.
Proof. exact thm_bbox_branch_refuted. Qed.

(* Whatever the nested layout established among its own objects survives the injection: both clauses have
   the same truth value before and after PositionNested (any tolerance, any container position). *)
Theorem C19_nested_disjoint_preserved :
  forall tol cx cy f pts,
    forest_disjoint_b tol (fst (position_nested cx cy f pts)) = forest_disjoint_b tol f.
Proof. exact position_nested_disjoint. Qed.

Theorem C19_nested_contain_preserved :
  forall tol cx cy f pts,
    forest_contain_b tol (fst (position_nested cx cy f pts)) = forest_contain_b tol f.
Proof. exact position_nested_contain. Qed.

(* A container moved together with all its descendants (MoveWithDescendants in d2grid / d2near, the outer
   layout moving a placeholder whose contents are injected afterwards), to any depth of nesting and any
   number of children, keeps both clauses. *)
Theorem C19_move_with_descendants :
  forall tol dx dy t, good_b tol (shift_tree dx dy t) = good_b tol t.
Proof. exact good_shift. Qed.

(* The injection step as a whole, on trees of any depth: a nested graph that satisfies both clauses and
   H_nested_in_box yields a container subtree that satisfies both clauses. *)
Theorem C19_inject_good :
  forall tol eps rootW rootH pad f cx cy cw ch,
    0 <= tol -> 0 <= eps -> pad_nonneg_b pad = true ->
    forest_good_b tol f = true ->
    nested_in_box_b tol rootW rootH (forest_boxes f) = true ->
    fst (fit_to_graph rootW rootH pad (forest_boxes f)) <= cw + eps ->
    snd (fit_to_graph rootW rootH pad (forest_boxes f)) <= ch + eps ->
    good_b (tol + eps) (inject cx cy cw ch f) = true.
Proof. exact thm_inject_good. Qed.

Example C19_inject_good_satisfiable :
  let f := [Node (mkbox 60 60 100 50) false [Node (mkbox 70 70 20 20) false []]; Node (mkbox 200 60 40 50) false []] in
  forest_good_b 0 f = true /\ nested_in_box_b 0 300 170 (forest_boxes f) = true /\
  good_b 0 (inject 500 (-20) 300 170 f) = true.
Proof. vm_compute. repeat split; reflexivity. Qed.

(* Containment is transitive (tolerances add up) ... *)
Theorem C19_containment_transitive :
  forall e1 e2 a b c, inside_b e1 a b = true -> inside_b e2 b c = true -> inside_b (e1 + e2) a c = true.
Proof. exact inside_trans. Qed.

(* ... so clause 1 at tolerance 0 puts every shape inside every one of its ancestors, to any depth *)
Theorem C19_descendants_inside :
  forall t, contain_b 0 t = true -> forall b, In b (visible t) -> inside_b 0 b (root_box t) = true.
Proof. exact thm_descendants_inside. Qed.

Example C19_descendants_inside_satisfiable :
  contain_b 0 (Node (mkbox 0 0 100 100) false [Node (mkbox 10 10 50 50) false [Node (mkbox 20 20 5 5) false []]]) = true.
Proof. reflexivity. Qed.

(* ... and shapes inside two non-overlapping containers do not overlap each other. *)
Theorem C19_cousins_disjoint :
  forall e tol a A b B,
    inside_b e a A = true -> inside_b e b B = true -> overlap_b tol A B = false ->
    overlap_b (tol + 2 * e) a b = false.
Proof. exact thm_cousins. Qed.

Example C19_cousins_disjoint_satisfiable :
  inside_b 0 (mkbox 1 1 5 5) (mkbox 0 0 10 10) = true /\ inside_b 0 (mkbox 12 1 5 5) (mkbox 11 0 10 10) = true /\
  overlap_b 1 (mkbox 0 0 10 10) (mkbox 11 0 10 10) = false.
Proof. vm_compute. repeat split; reflexivity. Qed.

Print Assumptions C19_nested_inside_container.
Print Assumptions C19_bbox_branch_needs_origin.
Print Assumptions C19_bbox_branch_refuted.
Print Assumptions C19_nested_disjoint_preserved.
Print Assumptions C19_nested_contain_preserved.
Print Assumptions C19_move_with_descendants.
Print Assumptions C19_inject_good.
Print Assumptions C19_containment_transitive.
Print Assumptions C19_descendants_inside.
Print Assumptions C19_cousins_disjoint.
