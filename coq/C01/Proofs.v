(* C01 — the fragment parser of Model.v never reaches a crash site (for any fuel) and never runs out of the
   fuel 8 * |input| + 16.

   Method: the cursor invariant of coq/C02/Proofs.v ([okc]: the unread text is the suffix of the input at the
   ghost index, and the index only grows) is carried through every function; the progress measure is the
   ghost index: every loop iteration and every recursive descent into a map moves it forward.
   [good oof r Q] : r is Ok with Q, or Unsupported, or (only when oof = true) OutOfFuel; never Crash. *)
From Coq Require Import List NArith ZArith Bool Lia Arith.
Import ListNotations.
Require Import V.C05.Model V.C02.Pos V.C02.PosProofs V.C02.Model V.C02.Proofs V.C01.Model.
Open Scope N_scope.

Definition good {A} (oof : bool) (r : res A) (Q : A -> Prop) : Prop :=
  match r with
  | Ok a => Q a
  | Unsupported => True
  | OutOfFuel => oof = true
  | Crash _ => False
  end.

Lemma good_lift {A B} oof (r : res A) (f : A -> res B) (Q : A -> Prop) (R : B -> Prop) :
  good oof r Q -> (forall a, Q a -> good oof (f a) R) -> good oof (lift r f) R.
Proof. destruct r; cbn; auto. Qed.

Lemma good_weaken {A} oof (r : res A) (Q R : A -> Prop) :
  good oof r Q -> (forall a, Q a -> R a) -> good oof r R.
Proof. destruct r; cbn; auto. Qed.

(* fuel = 0 *)
Lemma good_oof {A} oof (Q : A -> Prop) : (oof = false -> False) -> good oof (@OutOfFuel A) Q.
Proof. destruct oof; cbn; [reflexivity | intros H; exfalso; apply H; reflexivity]. Qed.

Section Total.
Variable u16 : bool.
Variable nums : list str.
Variable rs : str.
Variable oof : bool.

Notation okc := (okc u16 rs).
Notation len := (length rs).

Definition post3 {A E} (k0 : nat) (x : A * cursor * E) : Prop :=
  okc (snd (fst x)) /\ (k0 <= ck (snd (fst x)))%nat.
Definition post2 {A} (k0 : nat) (x : A * cursor) : Prop := okc (snd x) /\ (k0 <= ck (snd x))%nat.

Lemma okc_le c : okc c -> (ck c <= len)%nat.
Proof. intros [_ [H _]]. exact H. Qed.

Lemma okc_length k p l : okc (k, p, l) -> length l = (len - k)%nat.
Proof. intros [E _]. cbn in E. subst l. apply skipn_length. Qed.

Lemma replay_c_ok site r k1 p1 tl :
  okc (k1, p1, r :: tl) -> is_space r = false ->
  replay_c u16 site r k1 (advance u16 p1 r) (r :: tl) = Ok (k1, p1, r :: tl).
Proof.
  intros _ NS. unfold replay_c. rewrite (not_space_not_nl _ NS), (sub1_advance u16 p1 r (not_space_not_nl _ NS)).
  reflexivity.
Qed.

(* parseString *)
Lemma parse_string_c_good inKey c : okc c -> good oof (parse_string_c u16 inKey c) (post3 (ck c)).
Proof.
  destruct c as [[k p] l]. intros HC. unfold parse_string_c.
  destruct (skip_sp_p u16 l k p false) as [nl [[k1 p1] l1]] eqn:SK.
  pose proof (skip_sp_p_ok u16 rs _ _ _ _ _ _ HC SK) as (HC1 & K1 & NS). cbn in NS. unfold ck in K1; cbn in K1.
  destruct l1 as [|r tl]; [cbn; split; [exact HC | unfold ck; cbn; lia]|].
  destruct nl; [cbn; split; [exact HC | unfold ck; cbn; lia]|].
  pose proof (okc_step u16 rs _ _ _ _ HC1) as HC2.
  destruct (r =? cDQ) eqn:EDQ.
  { rewrite (back_step u16 rs _ _ _ _ cDQ HC1 EDQ eq_refl).
    destruct (scan_dq_p u16 inKey (k1, p1) tl (S k1) (advance u16 p1 r) []) as [[[v [[k3 p3] l3]] es3]|] eqn:SC; [|exact I].
    apply (scan_dq_p_ok u16 rs inKey (k1, p1) (length tl)) in SC;
      [| lia | exact HC2 | apply (okc_okp u16 rs _ _ _ HC1) | cbn; lia].
    destruct SC as (A & B & _). cbn. split; [exact A | unfold ck in *; cbn in *; lia]. }
  destruct (r =? cSQ) eqn:ESQ.
  { rewrite (back_step u16 rs _ _ _ _ cSQ HC1 ESQ eq_refl).
    destruct (scan_sq_p u16 (k1, p1) tl (S k1) (advance u16 p1 r) []) as [[[v [[k3 p3] l3]] es3]|] eqn:SC; [|exact I].
    apply (scan_sq_p_ok u16 rs (k1, p1) (length tl)) in SC;
      [| lia | exact HC2 | apply (okc_okp u16 rs _ _ _ HC1) | cbn; lia].
    destruct SC as (A & B & _). cbn. split; [exact A | unfold ck in *; cbn in *; lia]. }
  destruct (r =? cPIPE); [exact I|].
  rewrite (replay_c_ok 2 r k1 p1 tl HC1 NS). cbn [lift].
  destruct (scan_unq_p u16 inKey (r :: tl) k1 p1 (k1, p1) []) as [[[[v lns] c3] es3]|] eqn:SC; [|exact I].
  apply (scan_unq_p_ok u16 rs inKey (length (r :: tl))) in SC;
    [| lia | exact HC1 | apply (okc_okp u16 rs _ _ _ HC1) | cbn; lia].
  destruct SC as (A & B & _).
  destruct (trim_right v); cbn; (split; [exact A | unfold ck in *; cbn in *; lia]).
Qed.

(* parseKey: the loop consumes the `.` between two segments, so fuel > number of unread runes suffices *)
Lemma parse_key_c_good : forall fuel c segs es,
  okc c -> (oof = false -> (len - ck c < fuel)%nat) ->
  good oof (parse_key_c u16 fuel c segs es) (post3 (ck c)).
Proof.
  induction fuel as [|fuel IH]; intros c segs es HC HF.
  - apply good_oof. intros E. specialize (HF E). lia.
  - destruct c as [[k p] l]. cbn [parse_key_c].
    destruct (skip_sp_p u16 l k p false) as [nl [[k1 p1] l1]] eqn:SK.
    assert (Here : post3 (A := list snode) (E := errs) (ck (k, p, l)) (segs, (k, p, l), es))
      by (split; [exact HC | cbn; lia]).
    destruct l1 as [|r tl1]; [exact Here|].
    destruct (nl || (r =? cLP)); [exact Here|].
    destruct (r =? cDOT); [exact I|].
    eapply good_lift; [apply parse_string_c_good; exact HC|].
    intros [[on c2] es2] [HC2 K2]. cbn [fst snd] in HC2, K2.
    destruct on as [[[[kind s] e] v]|]; [|cbn; split; [exact HC2 | exact K2]].
    destruct ((kind =? 3) && match v with x :: _ => x =? cAT | [] => false end); [exact I|].
    destruct (518 <? units false v)%Z; [exact I|].
    destruct c2 as [[k2 p2] l2].
    destruct (skip_sp_p u16 l2 k2 p2 false) as [nl2 [[k3 p3] l3]] eqn:SK2.
    pose proof (skip_sp_p_ok u16 rs _ _ _ _ _ _ HC2 SK2) as (HC3 & K3 & _).
    destruct l3 as [|r2 tl3]; [cbn; split; [exact HC2 | exact K2]|].
    destruct (nl2 || negb (r2 =? cDOT)); [cbn; split; [exact HC2 | exact K2]|].
    pose proof (okc_lt u16 rs _ _ _ _ HC3) as LT.
    eapply good_weaken; [apply IH; [apply okc_step; exact HC3|]|].
    + intros E. specialize (HF E). unfold ck in *; cbn in *. lia.
    + intros [[a c'] b] [A B]. split; [exact A|]. unfold ck in *; cbn in *. lia.
Qed.

(* ---- comments ---- *)

Lemma comment_line_ok : forall l k p first acc acc' c',
  okc (k, p, l) -> comment_line u16 l k p first acc = (acc', c') -> okc c' /\ (k <= ck c')%nat.
Proof.
  induction l as [|r tl IH]; intros k p first acc acc' c' HC E; cbn in E.
  - inversion E; subst. split; [exact HC | unfold ck; cbn; lia].
  - destruct (r =? cNL); [inversion E; subst; split; [exact HC | unfold ck; cbn; lia]|].
    pose proof (okc_step u16 rs _ _ _ _ HC) as HC1.
    destruct (first && (r =? cSP)); apply IH in E; try exact HC1; destruct E as (A & B); (split; [exact A | lia]).
Qed.

Lemma skip_sp_n_ok : forall l k p n n' c',
  okc (k, p, l) -> skip_sp_n u16 l k p n = (n', c') -> okc c' /\ (k <= ck c')%nat.
Proof.
  induction l as [|r tl IH]; intros k p n n' c' HC E; cbn in E.
  - inversion E; subst. split; [exact HC | unfold ck; cbn; lia].
  - destruct (is_space r).
    + apply IH in E; [|apply okc_step; exact HC]. destruct E as (A & B). split; [exact A | lia].
    + inversion E; subst. split; [exact HC | unfold ck; cbn; lia].
Qed.

Lemma parse_comment_c_good : forall fuel c acc,
  okc c -> (oof = false -> (len - ck c < fuel)%nat) ->
  good oof (parse_comment_c u16 fuel c acc) (post2 (ck c)).
Proof.
  induction fuel as [|fuel IH]; intros c acc HC HF.
  - apply good_oof. intros E. specialize (HF E). lia.
  - destruct c as [[k p] l]. cbn [parse_comment_c].
    destruct (comment_line u16 l k p true acc) as [acc1 [[k1 p1] l1]] eqn:CL.
    pose proof (comment_line_ok _ _ _ _ _ _ _ HC CL) as (HC1 & K1).
    destruct (skip_sp_n u16 l1 k1 p1 0) as [n [[k2 p2] l2]] eqn:SN.
    pose proof (skip_sp_n_ok _ _ _ _ _ _ HC1 SN) as (HC2 & K2).
    assert (Here : post2 (A := str) (ck (k, p, l)) (acc1, (k1, p1, l1))) by (split; [exact HC1 | exact K1]).
    destruct l2 as [|r tl]; [exact Here|].
    destruct (negb (r =? cHASH) || (2 <=? n)%nat); [exact Here|].
    pose proof (okc_lt u16 rs _ _ _ _ HC2) as LT.
    eapply good_weaken; [apply IH; [apply okc_step; exact HC2|]|].
    + intros E. specialize (HF E). unfold ck in *; cbn in *. lia.
    + intros [a c'] [A B]. split; [exact A|]. unfold ck in *; cbn in *. lia.
Qed.

(* ---- values and keys ---- *)

Lemma value_at_c_good pv segs c4 es4 k0 :
  (forall c, okc c -> (k0 <= ck c)%nat -> good oof (pv c) (post3 (ck c))) ->
  okc c4 -> (k0 <= ck c4)%nat ->
  good oof (value_at_c u16 pv segs c4 es4) (post3 (ck c4)).
Proof.
  intros Hpv HC4 K4. unfold value_at_c.
  eapply good_lift; [apply Hpv; assumption|].
  intros [[ov c7] es7] [HC7 K7]. cbn [fst snd] in HC7, K7.
  destruct ov as [v|]; [|cbn; split; [exact HC7 | exact K7]].
  destruct (scalar_pair v) as [sp|]; [|cbn; split; [exact HC7 | exact K7]].
  destruct c7 as [[k7 p7] l7].
  destruct (skip_sp_p u16 l7 k7 p7 false) as [nl7 [[k8 p8] l8]] eqn:SK.
  pose proof (skip_sp_p_ok u16 rs _ _ _ _ _ _ HC7 SK) as (HC8 & K8 & NS).
  destruct l8 as [|r8 tl8]; [cbn; split; [exact HC7 | exact K7]|].
  destruct (negb nl7 && (r8 =? cLC)) eqn:B; [|cbn; split; [exact HC7 | exact K7]].
  apply andb_true_iff in B as [_ B]. apply N.eqb_eq in B. subst r8.
  rewrite (sub1_advance u16 p8 cLC eq_refl).
  eapply good_lift; [apply Hpv; [exact HC8 | unfold ck in *; cbn in *; lia]|].
  intros [[ov2 c10] es10] [HC10 K10]. cbn. split; [exact HC10|]. unfold ck in *; cbn in *. lia.
Qed.

Lemma key_value_c_good pv start segs c2 es k0 :
  (forall c, okc c -> (k0 <= ck c)%nat -> good oof (pv c) (post3 (ck c))) ->
  okc c2 -> (k0 <= ck c2)%nat ->
  good oof (key_value_c u16 pv start segs c2 es) (post3 (ck c2)).
Proof.
  intros Hpv HC2 K2. unfold key_value_c. destruct c2 as [[k2 p2] l2].
  destruct (skip_sp_p u16 l2 k2 p2 false) as [nl [[k3 p3] l3]] eqn:SK.
  pose proof (skip_sp_p_ok u16 rs _ _ _ _ _ _ HC2 SK) as (HC3 & K3 & _).
  assert (Here : forall t e, post3 (A := option tree) (E := errs) (ck (k2, p2, l2)) (t, (k2, p2, l2), e))
    by (intros; split; [exact HC2 | cbn; lia]).
  destruct l3 as [|r3 tl3]; [apply Here|].
  destruct nl; [apply Here|].
  destruct ((r3 =? cLP) || (r3 =? cLT) || (r3 =? cGT) || (r3 =? cDASH)); [exact I|].
  destruct (r3 =? cLC).
  { destruct segs; [apply Here|]. apply (value_at_c_good pv _ _ _ k0); assumption. }
  destruct (r3 =? cCOLON); [|apply Here].
  eapply good_weaken; [apply (value_at_c_good pv _ _ _ k0); [exact Hpv | apply okc_step; exact HC3 | unfold ck in *; cbn in *; lia]|].
  intros [[a c'] b] [A B]. split; [exact A|]. unfold ck in *; cbn in *. lia.
Qed.

Lemma map_key_body_c_good pv c :
  (forall c', okc c' -> (ck c <= ck c')%nat -> good oof (pv c') (post3 (ck c'))) ->
  okc c -> good oof (map_key_body_c u16 pv c) (post3 (ck c)).
Proof.
  intros Hpv HC. unfold map_key_body_c. destruct c as [[k p] l].
  match goal with |- context [if ?b then Unsupported else _] => destruct b end; [exact I|].
  eapply good_lift.
  - apply parse_key_c_good; [exact HC|]. intros _. rewrite (okc_length _ _ _ HC). unfold ck; cbn. lia.
  - intros [[segs c2] es] [HC2 K2]. cbn [fst snd] in HC2, K2.
    eapply good_weaken; [apply (key_value_c_good pv _ _ _ _ (ck (k, p, l))); [exact Hpv | exact HC2 | exact K2]|].
    intros [[a c'] b] [A B]. split; [exact A|]. cbn [fst snd] in *. lia.
Qed.

Lemma value_body_c_good pm depth c :
  (forall ms c', okc c' -> (ck c < ck c')%nat -> good oof (pm ms c') (post3 (ck c'))) ->
  okc c -> good oof (value_body_c u16 nums pm depth c) (post3 (ck c)).
Proof.
  intros Hpm HC. unfold value_body_c. destruct c as [[k p] l].
  destruct (skip_sp_p u16 l k p false) as [nl [[k5 p5] l5]] eqn:SK.
  pose proof (skip_sp_p_ok u16 rs _ _ _ _ _ _ HC SK) as (HC5 & K5 & NS). cbn in NS.
  destruct l5 as [|r tl]; [cbn; split; [exact HC | cbn; lia]|].
  destruct nl; [cbn; split; [exact HC | cbn; lia]|].
  destruct ((r =? cLB) || (r =? cAT)); [exact I|].
  pose proof (okc_step u16 rs _ _ _ _ HC5) as HC6.
  destruct (r =? cLC).
  { eapply good_lift; [apply Hpm; [exact HC6 | unfold ck in *; cbn in *; lia]|].
    intros [[ns c7] es7] [A B]. cbn. split; [exact A|]. unfold ck in *; cbn in *. lia. }
  match goal with |- context [if ?b then Unsupported else _] => destruct b end; [exact I|].
  rewrite (replay_c_ok 3 r k5 p5 tl HC5 NS). cbn [lift].
  eapply good_lift; [apply parse_string_c_good; exact HC5|].
  intros [[on c7] es7] [A B]. cbn. split; [exact A|]. unfold ck in *; cbn in *. lia.
Qed.

(* ---- one iteration of parseMap ---- *)

Lemma junk_p_progress r tl k p c0 :
  okc (k, p, r :: tl) -> is_space r = false -> (r =? cSEMI) || (r =? cRC) || (r =? cHASH) = false ->
  (S k <= ck (junk_p u16 (r :: tl) k p c0))%nat.
Proof.
  intros HC NS NT. cbn [junk_p]. rewrite NS, NT.
  pose proof (okc_step u16 rs _ _ _ _ HC) as HC1.
  destruct (junk_p_ok u16 rs tl (S k) (advance u16 p r) (S k, advance u16 p r, tl) HC1 HC1) as (_ & B);
    [unfold ck; cbn; lia|].
  unfold ck in *; cbn in *. lia.
Qed.

Lemma map_step_c_good loop pmk isFile k1 p1 r tl nodes es :
  okc (k1, p1, r :: tl) -> is_space r = false ->
  (forall c' n e, okc c' -> (k1 < ck c')%nat -> good oof (loop c' n e) (post3 (ck c'))) ->
  (forall c, okc c -> (k1 <= ck c)%nat -> good oof (pmk c) (post3 (ck c))) ->
  good oof (map_step_c u16 loop pmk isFile k1 p1 r tl nodes es) (post3 k1).
Proof.
  intros HC1 NS Hloop Hpmk. unfold map_step_c.
  pose proof (okc_step u16 rs _ _ _ _ HC1) as HC2.
  assert (Loop : forall c' n e, okc c' -> (k1 < ck c')%nat -> good oof (loop c' n e) (post3 k1)).
  { intros c' n e A B. eapply good_weaken; [apply Hloop; assumption|].
    intros [[a c''] b] [X Y]. split; [exact X|]. cbn [fst snd] in *. lia. }
  destruct (r =? cSEMI) eqn:SEMI; [apply Loop; [exact HC2 | unfold ck; cbn; lia]|].
  destruct (r =? cRC) eqn:RC.
  { destruct isFile; [apply Loop; [exact HC2 | unfold ck; cbn; lia]|].
    cbn. split; [exact HC2 | unfold ck; cbn; lia]. }
  (* the loop after a node: at least one rune behind k1 has been consumed *)
  assert (After : forall node c3 es3, okc c3 -> (k1 <= ck c3)%nat ->
            ((k1 < ck c3)%nat \/ (r =? cHASH) = false) ->
            good oof (after_node_c u16 loop nodes es node c3 es3) (post3 k1)).
  { intros node c3 es3 HC3 K3 PR. unfold after_node_c. destruct c3 as [[k3 p3] l3].
    destruct (junk_p_ok u16 rs l3 k3 p3 (k3, p3, l3) HC3 HC3 ltac:(unfold ck; cbn; lia)) as (HC4 & K4).
    assert (P4 : (k1 < ck (junk_p u16 l3 k3 p3 (k3, p3, l3)))%nat).
    { unfold ck in K3; cbn in K3. destruct (Nat.eq_dec k3 k1) as [E|NE].
      - subst k3. destruct PR as [PR|PR]; [unfold ck in PR; cbn in PR; lia|].
        assert (L3 : l3 = r :: tl).
        { destruct HC3 as [E3 _], HC1 as [E1 _]. cbn in E3, E1. congruence. }
        subst l3.
        pose proof (junk_p_progress r tl k1 p3 (k1, p3, r :: tl) HC3 NS) as J.
        rewrite SEMI, RC, PR in J. specialize (J eq_refl). exact J.
      - unfold ck in *; cbn in *. lia. }
    destruct (junk_p u16 l3 k3 p3 (k3, p3, l3)) as [[k4 p4] l4].
    apply Loop; [exact HC4 | exact P4]. }
  destruct (r =? cHASH) eqn:HASH.
  { eapply good_lift.
    - apply parse_comment_c_good; [exact HC2|]. intros _. rewrite (okc_length _ _ _ HC2). unfold ck; cbn. lia.
    - intros [v c3] [A B]. cbn [fst snd] in A, B. apply After; [exact A | unfold ck in *; cbn in *; lia |].
      left. unfold ck in *; cbn in *. lia. }
  match goal with |- context [if ?b then Unsupported else _] => destruct b end; [exact I|].
  rewrite (replay_c_ok 1 r k1 p1 tl HC1 NS). cbn [lift].
  eapply good_lift; [apply Hpmk; [exact HC1 | unfold ck; cbn; lia]|].
  intros [[node c3] es3] [A B]. cbn [fst snd] in A, B. apply After; [exact A | exact B | right; reflexivity].
Qed.

(* ---- the three mutually recursive functions ---- *)

Lemma mutual_good : forall fuel,
  (forall isFile depth ms c nodes es, okc c -> (oof = false -> (3 * (len - ck c) + 3 <= fuel)%nat) ->
     good oof (parse_map_c u16 nums fuel isFile depth ms c nodes es) (post3 (ck c)))
  /\ (forall depth c, okc c -> (oof = false -> (3 * (len - ck c) + 2 <= fuel)%nat) ->
        good oof (parse_map_key_c u16 nums fuel depth c) (post3 (ck c)))
  /\ (forall depth c, okc c -> (oof = false -> (3 * (len - ck c) + 1 <= fuel)%nat) ->
        good oof (parse_value_c u16 nums fuel depth c) (post3 (ck c))).
Proof.
  induction fuel as [|fuel (IHm & IHk & IHv)].
  - repeat split; intros; apply good_oof; intros E;
      match goal with H : oof = false -> _ |- _ => specialize (H E); lia end.
  - repeat split.
    + (* parseMap *)
      intros isFile depth ms c nodes es HC HF. destruct c as [[k p] l]. cbn [parse_map_c].
      destruct (skip_sp_p u16 l k p false) as [nl [[k1 p1] l1]] eqn:SK.
      pose proof (skip_sp_p_ok u16 rs _ _ _ _ _ _ HC SK) as (HC1 & K1 & NS). cbn in NS.
      destruct l1 as [|r tl]; [cbn; split; [exact HC1 | exact K1]|].
      pose proof (okc_lt u16 rs _ _ _ _ HC1) as LT.
      eapply good_weaken.
      * apply map_step_c_good; [exact HC1 | exact NS | |].
        -- intros c' n e A B. apply IHm; [exact A|]. intros E. specialize (HF E).
           pose proof (okc_le c' A). unfold ck in *; cbn in *. lia.
        -- intros c' A B. apply IHk; [exact A|]. intros E. specialize (HF E).
           pose proof (okc_le c' A). unfold ck in *; cbn in *. lia.
      * intros [[a c'] b] [A B]. split; [exact A|]. unfold ck in *; cbn in *. lia.
    + (* parseMapKey *)
      intros depth c HC HF. cbn [parse_map_key_c].
      apply map_key_body_c_good; [|exact HC].
      intros c' A B. apply IHv; [exact A|]. intros E. specialize (HF E). pose proof (okc_le c' A). lia.
    + (* parseValue *)
      intros depth c HC HF. cbn [parse_value_c].
      apply value_body_c_good; [|exact HC].
      intros ms c' A B. apply IHm; [exact A|]. intros E. specialize (HF E). pose proof (okc_le c' A). lia.
Qed.

Lemma okc_init : okc (O, origin, rs).
Proof. unfold Proofs.okc, okp. cbn. repeat split; lia. Qed.

End Total.

(* ------------------------------------------------------------------ the statements *)

Definition not_oof {A} (r : res A) : Prop := r <> OutOfFuel.
Definition not_crash {A} (r : res A) : Prop := forall s, r <> Crash s.

Lemma good_false_no_oof {A} (r : res A) Q : good false r Q -> r <> OutOfFuel /\ forall s, r <> Crash s.
Proof. destruct r; cbn; intros H; split; try discriminate; try (intros; discriminate); contradiction. Qed.

Lemma good_true_no_crash {A} (r : res A) Q : good true r Q -> forall s, r <> Crash s.
Proof. destruct r; cbn; intros H s; try discriminate; contradiction. Qed.

Lemma lift_good {A B} oof (r : res A) (f : A -> res B) Q :
  good oof r Q -> (forall a, exists b, f a = Ok b) -> good oof (lift r f) (fun _ => True).
Proof. destruct r; cbn; auto. intros _ H. destruct (H a) as [b ->]. exact I. Qed.

Theorem parse_fuel_sufficient_partial u16 nums rs : parse_c u16 nums (fuel_of rs) rs <> OutOfFuel.
Proof.
  apply (good_false_no_oof _ (fun _ => True)). unfold parse_c.
  eapply lift_good.
  - apply (mutual_good u16 nums rs false (fuel_of rs)); [apply okc_init|].
    intros _. unfold fuel_of, ck; cbn. lia.
  - intros [[ns c] es]. eexists; reflexivity.
Qed.

Theorem parse_no_crash_partial u16 nums fuel rs : forall s, parse_c u16 nums fuel rs <> Crash s.
Proof.
  apply (good_true_no_crash _ (fun _ => True)). unfold parse_c.
  eapply lift_good.
  - apply (mutual_good u16 nums rs true fuel); [apply okc_init|]. intros E; discriminate.
  - intros [[ns c] es]. eexists; reflexivity.
Qed.

Theorem parse_key_total u16 rs :
  parse_key_entry u16 (fuel_of rs) rs <> OutOfFuel /\ forall fuel s, parse_key_entry u16 fuel rs <> Crash s.
Proof.
  split.
  - apply (good_false_no_oof _ (fun _ => True)). unfold parse_key_entry. eapply lift_good.
    + apply (parse_key_c_good u16 rs false); [apply okc_init|]. intros _. unfold fuel_of, ck; cbn. lia.
    + intros [[a c] es]. eexists; reflexivity.
  - intros fuel. apply (good_true_no_crash _ (fun _ => True)). unfold parse_key_entry. eapply lift_good.
    + apply (parse_key_c_good u16 rs true); [apply okc_init|]. intros E; discriminate.
    + intros [[a c] es]. eexists; reflexivity.
Qed.

Theorem parse_map_key_total u16 nums rs :
  parse_map_key_entry u16 nums (fuel_of rs) rs <> OutOfFuel
  /\ forall fuel s, parse_map_key_entry u16 nums fuel rs <> Crash s.
Proof.
  split.
  - apply (good_false_no_oof _ (fun _ => True)). unfold parse_map_key_entry. eapply lift_good.
    + apply (mutual_good u16 nums rs false (fuel_of rs)); [apply okc_init|]. intros _. unfold fuel_of, ck; cbn. lia.
    + intros [[a c] es]. eexists; reflexivity.
  - intros fuel. apply (good_true_no_crash _ (fun _ => True)). unfold parse_map_key_entry. eapply lift_good.
    + apply (mutual_good u16 nums rs true fuel); [apply okc_init|]. intros E; discriminate.
    + intros [[a c] es]. eexists; reflexivity.
Qed.

Theorem parse_value_total u16 nums rs :
  parse_value_entry u16 nums (fuel_of rs) rs <> OutOfFuel
  /\ forall fuel s, parse_value_entry u16 nums fuel rs <> Crash s.
Proof.
  split.
  - apply (good_false_no_oof _ (fun _ => True)). unfold parse_value_entry. eapply lift_good.
    + apply (mutual_good u16 nums rs false (fuel_of rs)); [apply okc_init|]. intros _. unfold fuel_of, ck; cbn. lia.
    + intros [[a c] es]. eexists; reflexivity.
  - intros fuel. apply (good_true_no_crash _ (fun _ => True)). unfold parse_value_entry. eapply lift_good.
    + apply (mutual_good u16 nums rs true fuel); [apply okc_init|]. intros E; discriminate.
    + intros [[a c] es]. eexists; reflexivity.
Qed.
