(* C01 — fuelled model of d2parser for a FRAGMENT of the language (definitions only).

   In the model (everything else answers Unsupported):
     parseMap for the file map and for nested maps `{ ... }` (depth counted), `;`, stray `}` in the file map,
       unterminated maps, the trailing-text loop after every node;
     parseMapNode: line comments `#` (multi-line comment blocks), map keys;
     parseMapKey / parseMapKeyValue: key paths  seg(.seg)*  with unquoted / double-quoted / single-quoted
       segments, `key`, `key: scalar`, `key: {map}`, `key {map}`, `key: scalar {map}` (primary value),
       missing value after colon, map value without key, keys that turn out empty (`[`, `]`, ...);
     parseValue for scalars (null / boolean / suspension by EqualFold, numbers via the oracle list [nums] of
       texts big.Rat accepted, strings) and maps;
     parseString / the three string scanners (reused from coq/C02/Model.v, which extends coq/C05/Model.v by
       positions and by the errors of unterminated strings and escapes);
     the entry points Parse, ParseKey, ParseMapKey, ParseValue.
   Not in the model: block comments, block strings, arrays, edges, edge groups and indexes, `&` filters,
   imports, substitutions, keys starting with `.`, `@` keys, escaped newlines in unquoted strings, key segments
   longer than 518 bytes, UTF-16 transcoding.

   Results: Ok | OutOfFuel | Crash site | Unsupported.  Crash sites are the places where the Go code can panic
   in the fragment: Position.Subtract of a newline inside replay(r)
     site 1 = parseMapNode's replay, 2 = parseString's replay, 3 = parseValue's replay.

   The three mutually recursive functions parse_map_c / parse_map_key_c / parse_value_c pass themselves (at
   the smaller fuel) to the non-recursive bodies map_after_node / key_value_c, so that each body has its own
   lemma in Proofs.v. *)
From Coq Require Import List NArith ZArith Bool.
Import ListNotations.
Require Import V.C05.Model V.C02.Pos V.C02.Model.
Open Scope N_scope.

Inductive res (A : Type) := Ok (a : A) | OutOfFuel | Crash (site : N) | Unsupported.
Arguments Ok {A}. Arguments OutOfFuel {A}. Arguments Crash {A}. Arguments Unsupported {A}.

(* the syntax tree as kinds and values (s-expression) *)
Inductive tree :=
| TMap (depth : N) (nodes : list tree)
| TKey (path : list (N * str)) (primary : option (N * str)) (value : option tree)
| TScalar (kind : N) (v : str)       (* 3 unquoted 4 double 5 single 14 null 15 boolean 16 number 17 suspension *)
| TComment (v : str)
| TOther.                            (* a node outside the fragment (only produced by the harness) *)

Definition lift {A B} (r : res A) (f : A -> res B) : res B :=
  match r with Ok a => f a | OutOfFuel => OutOfFuel | Crash s => Crash s | Unsupported => Unsupported end.

Definition errs := list irange.
Definition vres := res (option tree * cursor * errs).     (* a node / value (or none), the cursor, the errors *)
Definition mres := res (list tree * cursor * errs).

Section Parser.
Variable u16 : bool.
Variable nums : list str.            (* oracle: the unquoted texts big.Rat.SetString accepted in this input *)

(* replay(r): p.pos.Subtract(r) panics on a newline *)
Definition replay_c (site : N) (r : N) (k1 : nat) (p2 : pos) (l1 : str) : res cursor :=
  if is_nl r then Crash site else Ok (k1, sub1 u16 p2 r, l1).

(* parseString *)
Definition parse_string_c (inKey : bool) (c : cursor) : res (option snode * cursor * errs) :=
  let '(k, p, l) := c in
  let '(nl, (k1, p1, l1)) := skip_sp_p u16 l k p false in
  match l1 with
  | [] => Ok (None, c, [])
  | r :: tl =>
      if nl then Ok (None, c, [])
      else
        let k2 := S k1 in
        let p2 := advance u16 p1 r in
        if r =? cDQ then
          let start := back u16 (k2, p2) cDQ in
          match scan_dq_p u16 inKey start tl k2 p2 [] with
          | None => Unsupported
          | Some (v, (k3, p3, l3), es) => Ok (Some (4, start, (k3, p3), v), (k3, p3, l3), es)
          end
        else if r =? cSQ then
          let start := back u16 (k2, p2) cSQ in
          match scan_sq_p u16 start tl k2 p2 [] with
          | None => Unsupported
          | Some (v, (k3, p3, l3), es) => Ok (Some (5, start, (k3, p3), v), (k3, p3, l3), es)
          end
        else if r =? cPIPE then Unsupported
        else
          lift (replay_c 2 r k1 p2 l1)
            (fun c1 =>
               let '(k1', p1', l1') := c1 in
               match scan_unq_p u16 inKey l1' k1' p1' (k1', p1') [] with
               | None => Unsupported
               | Some (v, lns, c3, es) =>
                   match trim_right v with
                   | [] => Ok (None, c3, es)
                   | t => Ok (Some (3, (k1', p1'), lns, t), c3, es)
                   end
               end)
  end.

(* parseKey *)
Fixpoint parse_key_c (fuel : nat) (c : cursor) (segs : list snode) (es : errs) : res (list snode * cursor * errs) :=
  match fuel with
  | O => OutOfFuel
  | S fuel' =>
      let '(k, p, l) := c in
      let '(nl, (_, _, l1)) := skip_sp_p u16 l k p false in
      match l1 with
      | [] => Ok (segs, c, es)
      | r :: _ =>
          if nl || (r =? cLP) then Ok (segs, c, es)
          else if r =? cDOT then Unsupported
          else
            lift (parse_string_c true c)
              (fun '(on, c2, es2) =>
                 match on with
                 | None => Ok (segs, c2, es ++ es2)
                 | Some (kind, s, e, v) =>
                     if (kind =? 3) && match v with x :: _ => x =? cAT | [] => false end then Unsupported
                     else if (518 <? units false v)%Z then Unsupported
                     else
                       let segs' := segs ++ [(kind, s, e, v)] in
                       let '(k2, p2, l2) := c2 in
                       let '(nl2, (k3, p3, l3)) := skip_sp_p u16 l2 k2 p2 false in
                       match l3 with
                       | [] => Ok (segs', c2, es ++ es2)
                       | r2 :: tl3 =>
                           if nl2 || negb (r2 =? cDOT) then Ok (segs', c2, es ++ es2)
                           else parse_key_c fuel' (S k3, advance u16 p3 r2, tl3) segs' (es ++ es2)
                       end
                 end)
      end
  end.

(* ---- comments ---- *)

(* parseCommentLine *)
Fixpoint comment_line (l : str) (k : nat) (p : pos) (first : bool) (acc : str) : str * cursor :=
  match l with
  | [] => (acc, (k, p, []))
  | r :: tl =>
      if r =? cNL then (acc, (k, p, l))
      else if first && (r =? cSP) then comment_line tl (S k) (advance u16 p r) false acc
      else comment_line tl (S k) (advance u16 p r) false (acc ++ [r])
  end.

(* peekNotSpace counting newlines *)
Fixpoint skip_sp_n (l : str) (k : nat) (p : pos) (n : nat) : nat * cursor :=
  match l with
  | [] => (n, (k, p, []))
  | r :: tl => if is_space r then skip_sp_n tl (S k) (advance u16 p r) (if r =? cNL then S n else n) else (n, (k, p, l))
  end.

(* parseComment after the `#` *)
Fixpoint parse_comment_c (fuel : nat) (c : cursor) (acc : str) : res (str * cursor) :=
  match fuel with
  | O => OutOfFuel
  | S fuel' =>
      let '(k, p, l) := c in
      let '(acc1, (k1, p1, l1)) := comment_line l k p true acc in
      let '(n, (k2, p2, l2)) := skip_sp_n l1 k1 p1 O in
      match l2 with
      | [] => Ok (acc1, (k1, p1, l1))
      | r :: tl =>
          if negb (r =? cHASH) || (2 <=? n)%nat then Ok (acc1, (k1, p1, l1))
          else parse_comment_c fuel' (S k2, advance u16 p2 r, tl) (if (n =? 1)%nat then acc1 ++ [cNL] else acc1)
      end
  end.

(* ---- values, keys, maps ---- *)

Definition scalar_tree (n : snode) : tree :=
  let '(kind, _, _, v) := n in
  if kind =? 3 then
    if equal_fold v w_null then TScalar 14 []
    else if equal_fold v w_suspend || equal_fold v w_unsuspend then TScalar 17 []
    else if equal_fold v w_true || equal_fold v w_false then TScalar 15 []
    else if existsb (str_eqb v) nums then TScalar 16 v
    else TScalar 3 v
  else TScalar kind v.

Definition path_of (segs : list snode) : list (N * str) := map (fun '(kind, _, _, v) => (kind, v)) segs.

Definition scalar_pair (t : tree) : option (N * str) :=
  match t with TScalar k v => Some (k, v) | _ => None end.

Definition mk_key (segs : list snode) (primary : option (N * str)) (value : option tree) : option tree :=
  match segs with [] => None | _ => Some (TKey (path_of segs) primary value) end.

(* mk.Value = p.parseValue() and what follows it in parseMapKeyValue; pv = parseValue *)
Definition value_at_c (pv : cursor -> vres) (segs : list snode) (c4 : cursor) (es4 : errs) : vres :=
  lift (pv c4)
    (fun '(ov, c7, es7) =>
       match ov with
       | None => Ok (mk_key segs None None, c7, es4 ++ es7 ++ [(back u16 (fst c7) cCOLON, fst c7)])
       | Some v =>
           match scalar_pair v with
           | None => Ok (mk_key segs None (Some v), c7, es4 ++ es7)
           | Some sp =>
               let '(k7, p7, l7) := c7 in
               let '(nl7, (k8, p8, l8)) := skip_sp_p u16 l7 k7 p7 false in
               match l8 with
               | r8 :: tl8 =>
                   if negb nl7 && (r8 =? cLC) then
                     (* commit; replay('{'); mk.Primary = sb; mk.Value = p.parseValue() *)
                     lift (pv (k8, sub1 u16 (advance u16 p8 r8) cLC, l8))
                          (fun '(ov2, c10, es10) => Ok (mk_key segs (Some sp) ov2, c10, es4 ++ es7 ++ es10))
                   else Ok (mk_key segs None (Some v), c7, es4 ++ es7)
               | [] => Ok (mk_key segs None (Some v), c7, es4 ++ es7)
               end
           end
       end).

(* parseMapKey after parseKey: c2 = cursor behind the key path, start = mk.Range.Start *)
Definition key_value_c (pv : cursor -> vres) (start : ipos) (segs : list snode) (c2 : cursor) (es : errs) : vres :=
  let '(k2, p2, l2) := c2 in
  let '(nl, (k3, p3, l3)) := skip_sp_p u16 l2 k2 p2 false in
  match l3 with
  | [] => Ok (mk_key segs None None, c2, es)
  | r3 :: tl3 =>
      if nl then Ok (mk_key segs None None, c2, es)
      else if (r3 =? cLP) || (r3 =? cLT) || (r3 =? cGT) || (r3 =? cDASH) then Unsupported
      else if r3 =? cLC then
        match segs with
        | [] => Ok (None, c2, es)
        | _ => value_at_c pv segs c2 es
        end
      else if r3 =? cCOLON then
        let c4 : cursor := (S k3, advance u16 p3 r3, tl3) in
        value_at_c pv segs c4 (match segs with [] => es ++ [(start, fst c4)] | _ => es end)
      else Ok (mk_key segs None None, c2, es)
  end.

(* parseMapKey: the `&` / `(` look-ahead, parseKey, then key_value_c *)
Definition map_key_body_c (pv : cursor -> vres) (c : cursor) : vres :=
  let '(k, p, l) := c in
  if match l with
     | r :: tl => (r =? cAMP) || (r =? cLP) || ((r =? 33) && match tl with r2 :: _ => r2 =? cAMP | [] => false end)
     | [] => false
     end
  then Unsupported
  else lift (parse_key_c (S (length l)) c [] []) (fun '(segs, c2, es) => key_value_c pv (k, p) segs c2 es).

(* parseValue; pm = parseMap(false) at the next depth given the map's Start and the cursor behind `{` *)
Definition value_body_c (pm : ipos -> cursor -> mres) (depth : N) (c : cursor) : vres :=
  let '(k, p, l) := c in
  let '(nl, (k5, p5, l5)) := skip_sp_p u16 l k p false in
  match l5 with
  | [] => Ok (None, c, [])
  | r :: tl =>
      if nl then Ok (None, c, [])
      else if (r =? cLB) || (r =? cAT) then Unsupported
      else
        let k6 := S k5 in
        let p6 := advance u16 p5 r in
        if r =? cLC then
          lift (pm (back u16 (k6, p6) cLC) (k6, p6, tl))
               (fun '(ns, c7, es7) => Ok (Some (TMap (depth + 1) ns), c7, es7))
        else if match l5 with a :: b :: c :: d :: _ => (a =? cDOT) && (b =? cDOT) && (c =? cDOT) && (d =? cAT)
                         | _ => false end then Unsupported
        else
          lift (replay_c 3 r k5 p6 l5)
            (fun c6 =>
               lift (parse_string_c false c6)
                 (fun '(on, c7, es7) =>
                    Ok (match on with None => None | Some n => Some (scalar_tree n) end, c7, es7)))
  end.

(* one iteration of parseMap's loop after readNotSpace returned r (cursor (k1,p1, r :: tl) before r):
   loop = the rest of the loop; pmk = parseMapKey *)
Definition after_node_c (loop : cursor -> list tree -> errs -> mres) (nodes : list tree) (es : errs)
           (node : option tree) (c3 : cursor) (es3 : errs) : mres :=
  let '(k3, p3, l3) := c3 in
  let '(k4, p4, l4) := junk_p u16 l3 k3 p3 c3 in
  loop (k4, p4, l4) (match node with Some t => nodes ++ [t] | None => nodes end)
       (es ++ es3 ++ (if pos_eqb p3 p4 then [] else [((k3, p3), (k4, p4))])).

Definition map_step_c (loop : cursor -> list tree -> errs -> mres) (pmk : cursor -> vres)
           (isFile : bool) (k1 : nat) (p1 : pos) (r : N) (tl : str) (nodes : list tree) (es : errs) : mres :=
  let k2 := S k1 in
  let p2 := advance u16 p1 r in
  let after_node := after_node_c loop nodes es in
  if r =? cSEMI then loop (k2, p2, tl) nodes es
  else if r =? cRC then
    if isFile then loop (k2, p2, tl) nodes (es ++ [(back u16 (k2, p2) cRC, (k2, p2))])
    else Ok (nodes, (k2, p2, tl), es)
  else if r =? cHASH then
    lift (parse_comment_c (S (length tl)) (k2, p2, tl) []) (fun '(v, c3) => after_node (Some (TComment v)) c3 [])
  else if (r =? cDQ) && match tl with a :: b :: _ => (a =? cDQ) && (b =? cDQ) | _ => false end then Unsupported
  else
    lift (replay_c 1 r k1 p2 (r :: tl))
         (fun c2 => lift (pmk c2) (fun '(node, c3, es3) => after_node node c3 es3)).

(* parseMap: mstart = the map's Range.Start (for the unterminated-map error) *)
Fixpoint parse_map_c (fuel : nat) (isFile : bool) (depth : N) (mstart : ipos) (c : cursor) (nodes : list tree) (es : errs)
  : mres :=
  match fuel with
  | O => OutOfFuel
  | S fuel' =>
      let '(k, p, l) := c in
      let '(_, (k1, p1, l1)) := skip_sp_p u16 l k p false in           (* readNotSpace *)
      match l1 with
      | [] => Ok (nodes, (k1, p1, []), if isFile then es else es ++ [(mstart, eof_ip u16 k1 p1 [])])
      | r :: tl =>
          map_step_c (fun c' nodes' es' => parse_map_c fuel' isFile depth mstart c' nodes' es')
                     (parse_map_key_c fuel' depth) isFile k1 p1 r tl nodes es
      end
  end

with parse_map_key_c (fuel : nat) (depth : N) (c : cursor) : vres :=
  match fuel with
  | O => OutOfFuel
  | S fuel' => map_key_body_c (parse_value_c fuel' depth) c
  end

with parse_value_c (fuel : nat) (depth : N) (c : cursor) : vres :=
  match fuel with
  | O => OutOfFuel
  | S fuel' => value_body_c (fun ms c' => parse_map_c fuel' false (depth + 1) ms c' [] []) depth c
  end.

(* ---- entry points ---- *)

Definition fuel_of (rs : str) : nat := 8 * length rs + 16.

(* Parse *)
Definition parse_c (fuel : nat) (rs : str) : res (tree * errs) :=
  lift (parse_map_c fuel true 0 (O, origin) (O, origin, rs) [] []) (fun '(ns, _, es) => Ok (TMap 0 ns, es)).

(* ParseKey: the key path (None = "empty key"), errors *)
Definition parse_key_entry (fuel : nat) (rs : str) : res (option (list (N * str)) * errs) :=
  lift (parse_key_c fuel (O, origin, rs) [] [])
       (fun '(segs, _, es) => Ok (match segs with [] => None | _ => Some (path_of segs) end, es)).

(* ParseMapKey *)
Definition parse_map_key_entry (fuel : nat) (rs : str) : res (option tree * errs) :=
  lift (parse_map_key_c fuel 0 (O, origin, rs)) (fun '(t, _, es) => Ok (t, es)).

(* ParseValue (None = "empty value") *)
Definition parse_value_entry (fuel : nat) (rs : str) : res (option tree * errs) :=
  lift (parse_value_c fuel 0 (O, origin, rs)) (fun '(t, _, es) => Ok (t, es)).

End Parser.
