(* C01 — the rune reader of d2parser/parse.go (definitions only).

   [bufs] is the parser's reader state modelled literally: the two slices p.readahead / p.lookahead, the
   underlying reader (the runes not yet fetched, [src]), p.ioerr, and the three positions p.pos /
   p.lookaheadPos / p.readerPos, with _readRune / read / peek / commit / rewind / replay as in the Go code.
   [cur] is the one-cursor machine the parser models are written against: the unread text and the number of
   peeked runes.  LexerProofs.v proves that the buffers refine the cursor and that the positions are exact. *)
From Coq Require Import List NArith ZArith Bool.
Import ListNotations.
Require Import V.C02.Pos.

Definition rune := N.

Record bufs := mkbufs {
  readahead : list rune;       (* fetched, rewound: to be read again first *)
  lookahead : list rune;       (* peeked since the last commit / rewind *)
  src : list rune;             (* what the underlying io.RuneReader still holds *)
  ioerr : bool;                (* the reader returned EOF once *)
  bpos : pos;                  (* p.pos *)
  blapos : pos;                (* p.lookaheadPos *)
  brpos : pos                  (* p.readerPos *)
}.

Definition init (input : list rune) : bufs := mkbufs [] [] input false origin origin origin.

Section Machine.
Variable u16 : bool.

(* rewind: lookahead is copied to the front of readahead *)
Definition rewind (b : bufs) : bufs :=
  match lookahead b with
  | [] => b
  | _ => mkbufs (lookahead b ++ readahead b) [] (src b) (ioerr b) (bpos b) (bpos b) (brpos b)
  end.

(* _readRune *)
Definition read_rune (b : bufs) : option rune * bufs :=
  match readahead b with
  | r :: ra => (Some r, mkbufs ra (lookahead b) (src b) (ioerr b) (bpos b) (blapos b) (brpos b))
  | [] =>
      if ioerr b then (None, rewind b)
      else
        (* p.readerPos = p.lookaheadPos; r, _, err := p.reader.ReadRune() *)
        match src b with
        | [] => (None, rewind (mkbufs [] (lookahead b) [] true (bpos b) (blapos b) (blapos b)))
        | r :: s => (Some r, mkbufs [] (lookahead b) s false (bpos b) (blapos b) (blapos b))
        end
  end.

Definition read (b : bufs) : option rune * bufs :=
  match read_rune b with
  | (None, b') => (None, b')
  | (Some r, b') =>
      let p' := advance u16 (bpos b') r in
      (Some r, mkbufs (readahead b') (lookahead b') (src b') (ioerr b') p' p' (brpos b'))
  end.

Definition peek (b : bufs) : option rune * bufs :=
  match read_rune b with
  | (None, b') => (None, b')
  | (Some r, b') =>
      (Some r, mkbufs (readahead b') (lookahead b' ++ [r]) (src b') (ioerr b') (bpos b')
                      (advance u16 (blapos b') r) (brpos b'))
  end.

Definition commit (b : bufs) : bufs :=
  mkbufs (readahead b) [] (src b) (ioerr b) (blapos b) (blapos b) (brpos b).

(* replay(r): None = Position.Subtract panics (r is a newline) *)
Definition replay (r : rune) (b : bufs) : option bufs :=
  match subtract u16 (bpos b) r with
  | None => None
  | Some p' => Some (rewind (mkbufs (readahead b) (r :: lookahead b) (src b) (ioerr b) p' (blapos b) (brpos b)))
  end.

Inductive op := OPeek | ORead | OCommit | ORewind | OReplay (r : rune).

(* one operation: the rune it returns (peek / read) and the next state; None = panic *)
Definition step_bufs (b : bufs) (o : op) : option (option rune * bufs) :=
  match o with
  | OPeek => Some (peek b)
  | ORead => Some (read b)
  | OCommit => Some (None, commit b)
  | ORewind => Some (None, rewind b)
  | OReplay r => match replay r b with Some b' => Some (None, b') | None => None end
  end.

End Machine.

(* ---- the cursor machine ---- *)

Record cur := mkcur {
  rest : list rune;   (* everything not yet consumed, peeked runes included *)
  la : nat;           (* number of peeked runes *)
  eof : bool          (* EOF has been seen *)
}.

Definition abs (b : bufs) : cur :=
  mkcur (lookahead b ++ readahead b ++ src b) (length (lookahead b)) (ioerr b).

Definition peek_cur (c : cur) : option rune * cur :=
  match nth_error (rest c) (la c) with
  | Some r => (Some r, mkcur (rest c) (S (la c)) (eof c))
  | None => (None, mkcur (rest c) 0 true)
  end.

(* read takes the first rune that has not been peeked (with la = 0, as the parser uses it: the first rune) *)
Definition read_cur (c : cur) : option rune * cur :=
  match nth_error (rest c) (la c) with
  | Some r => (Some r, mkcur (firstn (la c) (rest c) ++ skipn (S (la c)) (rest c)) (la c) (eof c))
  | None => (None, mkcur (rest c) 0 true)
  end.

Definition commit_cur (c : cur) : cur := mkcur (skipn (la c) (rest c)) 0 (eof c).
Definition rewind_cur (c : cur) : cur := mkcur (rest c) 0 (eof c).
Definition replay_cur (r : rune) (c : cur) : cur := mkcur (r :: rest c) 0 (eof c).

Definition step_cur (c : cur) (o : op) : option rune * cur :=
  match o with
  | OPeek => peek_cur c
  | ORead => read_cur c
  | OCommit => (None, commit_cur c)
  | ORewind => (None, rewind_cur c)
  | OReplay r => (None, replay_cur r c)
  end.

(* well-formedness of a reader state: once EOF was returned nothing more comes *)
Definition wf_bufs (b : bufs) : Prop := ioerr b = true -> src b = [].

(* the position invariant against the input:
   input = pre ++ lookahead ++ readahead ++ src, p.pos is the position behind pre, p.lookaheadPos the position
   behind the peeked runes, p.readerPos the position BEFORE the last rune fetched from the underlying reader
   (the end of the input once EOF was hit) *)
Definition pos_inv (u16 : bool) (input : list rune) (b : bufs) : Prop :=
  exists pre,
    input = pre ++ lookahead b ++ readahead b ++ src b
    /\ bpos b = pos_at u16 input (length pre)
    /\ blapos b = pos_at u16 input (length pre + length (lookahead b))
    /\ brpos b = pos_at u16 input (if ioerr b then length input else pred (length input - length (src b)))
    /\ wf_bufs b.
