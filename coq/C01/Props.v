(* C01 — Parsing is total.  Statements only. *)
From Coq Require Import List NArith ZArith.
Import ListNotations.
Require Import V.C05.Model V.C02.Pos V.C01.Lexer V.C01.LexerProofs V.C01.Model V.C01.Proofs.

(* ---- the rune reader: two buffers refine one cursor; no operation can fail except replay of a newline ---- *)

Theorem C01_buffers_refine_cursor : forall u16 b o,
  wf_bufs b ->
  match step_bufs u16 b o with
  | Some (out, b') => step_cur (abs b) o = (out, abs b') /\ wf_bufs b'
  | None => exists r, o = OReplay r /\ is_nl r = true
  end.
Proof. exact buffers_refine_cursor. Qed.

(* "pre ++ lookahead ++ readahead ++ remaining = input": what is buffered and unread is always a suffix of the
   input, p.pos / p.lookaheadPos / p.readerPos are the exact positions of their boundaries; preserved by every
   operation as the parser uses them (read and replay with an empty look-ahead buffer, replay of the rune just
   consumed) *)
Theorem C01_reader_invariant_init : forall u16 input, pos_inv_pre u16 input [] (init input).
Proof. exact pos_inv_init. Qed.

Theorem C01_reader_invariant_peek : forall u16 input pre b,
  pos_inv_pre u16 input pre b -> pos_inv_pre u16 input pre (snd (peek u16 b)).
Proof. exact pos_inv_peek. Qed.

Theorem C01_reader_invariant_commit : forall u16 input pre b,
  pos_inv_pre u16 input pre b -> pos_inv_pre u16 input (pre ++ lookahead b) (commit b).
Proof. exact pos_inv_commit. Qed.

Theorem C01_reader_invariant_rewind : forall u16 input pre b,
  pos_inv_pre u16 input pre b -> pos_inv_pre u16 input pre (rewind b).
Proof. exact pos_inv_rewind. Qed.

Theorem C01_reader_invariant_read : forall u16 input pre b,
  lookahead b = [] -> pos_inv_pre u16 input pre b ->
  match read u16 b with
  | (Some r, b') => pos_inv_pre u16 input (pre ++ [r]) b'
  | (None, b') => pos_inv_pre u16 input pre b'
  end.
Proof. exact pos_inv_read. Qed.

Theorem C01_reader_invariant_replay : forall u16 input pre r b,
  lookahead b = [] -> is_nl r = false -> pos_inv_pre u16 input (pre ++ [r]) b ->
  exists b', replay u16 r b = Some b' /\ pos_inv_pre u16 input pre b'.
Proof. exact pos_inv_replay. Qed.

Theorem C01_reader_pos_at_eof : forall u16 input pre b,
  pos_inv_pre u16 input pre b -> ioerr b = true -> brpos b = pos_at u16 input (length input).
Proof. exact reader_pos_at_eof. Qed.

Theorem C01_reader_pos_before_last_fetched : forall u16 input pre b,
  pos_inv_pre u16 input pre b -> ioerr b = false ->
  brpos b = pos_at u16 input (pred (length pre + length (lookahead b) + length (readahead b))).
Proof. exact reader_pos_before_last_fetched. Qed.

(* ---- the parser, fragment of coq/C01/Model.v (see its header), ALL inputs ---- *)

(* full statement (whole parser):  forall bs, parse (8 * |bs| + 16) bs <> OutOfFuel  /\  forall s, parse .. <> Crash s;
   proved for the modelled fragment; inputs outside it (answer Unsupported) are covered by the search on the
   implementation only *)
Theorem C01_parse_fuel_sufficient_partial : forall u16 nums rs,
  parse_c u16 nums (8 * length rs + 16) rs <> OutOfFuel.
Proof. exact parse_fuel_sufficient_partial. Qed.

Theorem C01_parse_no_crash_partial : forall u16 nums fuel rs s, parse_c u16 nums fuel rs <> Crash s.
Proof. exact parse_no_crash_partial. Qed.

Theorem C01_parse_key_total_partial : forall u16 rs,
  parse_key_entry u16 (fuel_of rs) rs <> OutOfFuel /\ forall fuel s, parse_key_entry u16 fuel rs <> Crash s.
Proof. exact parse_key_total. Qed.

Theorem C01_parse_map_key_total_partial : forall u16 nums rs,
  parse_map_key_entry u16 nums (fuel_of rs) rs <> OutOfFuel
  /\ forall fuel s, parse_map_key_entry u16 nums fuel rs <> Crash s.
Proof. exact parse_map_key_total. Qed.

Theorem C01_parse_value_total_partial : forall u16 nums rs,
  parse_value_entry u16 nums (fuel_of rs) rs <> OutOfFuel
  /\ forall fuel s, parse_value_entry u16 nums fuel rs <> Crash s.
Proof. exact parse_value_total. Qed.

(* non-vacuity: the initial reader state satisfies the hypothesis of the refinement theorem, and the fragment
   is not empty: a nested program with a comment, a primary value and an unterminated map parses to a tree
   and one error *)
Example C01_refinement_hypothesis_satisfiable : forall input, wf_bufs (init input).
Proof. intros input H. discriminate. Qed.

Example C01_fragment_satisfiable :
  exists t es, parse_c false [] 200
    [35; 32; 99; 10; 97; 46; 34; 98; 34; 58; 32; 120; 32; 123; 10; 32; 121; 58; 32; 123; 122; 58; 32; 39; 113; 39]%N   (* # c \n a."b": x {\n y: {z: 'q' *)
    = Ok (t, es) /\ length es = 2%nat.
Proof. do 2 eexists. split; vm_compute; reflexivity. Qed.

Print Assumptions C01_buffers_refine_cursor.
Print Assumptions C01_reader_invariant_init.
Print Assumptions C01_reader_invariant_peek.
Print Assumptions C01_reader_invariant_commit.
Print Assumptions C01_reader_invariant_rewind.
Print Assumptions C01_reader_invariant_read.
Print Assumptions C01_reader_invariant_replay.
Print Assumptions C01_reader_pos_at_eof.
Print Assumptions C01_reader_pos_before_last_fetched.
Print Assumptions C01_parse_fuel_sufficient_partial.
Print Assumptions C01_parse_no_crash_partial.
Print Assumptions C01_parse_key_total_partial.
Print Assumptions C01_parse_map_key_total_partial.
Print Assumptions C01_parse_value_total_partial.
