(* C01 — Parsing is total.  Statements only. *)
From Coq Require Import List NArith ZArith.
Import ListNotations.
Require Import V.C02.Pos V.C01.Lexer V.C01.LexerProofs.

Theorem C01_buffers_refine_cursor : forall u16 b o,
  wf_bufs b ->
  match step_bufs u16 b o with
  | Some (out, b') => step_cur (abs b) o = (out, abs b') /\ wf_bufs b'
  | None => exists r, o = OReplay r /\ is_nl r = true
  end.
Proof. exact buffers_refine_cursor. Qed.

Print Assumptions C01_buffers_refine_cursor.
