(* C01 — the two-buffer reader refines the one-cursor machine; its positions are exact. *)
From Coq Require Import List NArith ZArith Bool Lia Arith.
Import ListNotations.
Require Import V.C02.Pos V.C02.PosProofs V.C01.Lexer.

Lemma nth_error_mid {A} (a : list A) x t : nth_error (a ++ x :: t) (length a) = Some x.
Proof. rewrite nth_error_app2 by lia. rewrite Nat.sub_diag. reflexivity. Qed.

Lemma nth_error_end {A} (a : list A) : nth_error a (length a) = None.
Proof. apply nth_error_None. lia. Qed.

Lemma skipn_app_exact {A} (a t : list A) : skipn (length a) (a ++ t) = t.
Proof. induction a; cbn; auto. Qed.

Lemma firstn_app_exact {A} (a t : list A) : firstn (length a) (a ++ t) = a.
Proof. induction a; cbn; [destruct t; reflexivity | f_equal; auto]. Qed.

Lemma cut_mid {A} (a : list A) x t :
  firstn (length a) (a ++ x :: t) ++ skipn (S (length a)) (a ++ x :: t) = a ++ t.
Proof. induction a; cbn; [reflexivity | f_equal; exact IHa]. Qed.

Lemma skipn_S_app {A} (a : list A) x t : skipn (S (length a)) (a ++ x :: t) = t.
Proof. induction a; cbn; [reflexivity | exact IHa]. Qed.

Lemma split_nth {A} (l : list A) : forall n r, nth_error l n = Some r -> l = firstn n l ++ r :: skipn (S n) l.
Proof.
  induction l as [|x l IH]; intros [|n] r H; cbn in *; try discriminate.
  - inversion H; reflexivity.
  - f_equal. apply IH. exact H.
Qed.

Section Refine.
Variable u16 : bool.

Lemma abs_rewind b : abs (rewind b) = rewind_cur (abs b).
Proof.
  unfold rewind, abs, rewind_cur. destruct (lookahead b) as [|x l] eqn:E.
  - cbn. rewrite E. reflexivity.
  - cbn. rewrite <- app_assoc. reflexivity.
Qed.

Lemma wf_rewind b : wf_bufs b -> wf_bufs (rewind b).
Proof. unfold rewind, wf_bufs. destruct (lookahead b); auto. Qed.

(* _readRune against the cursor: the rune at index la, or EOF with a rewind *)
Lemma read_rune_spec b : wf_bufs b ->
  match read_rune b with
  | (Some r, b') =>
      nth_error (rest (abs b)) (la (abs b)) = Some r
      /\ lookahead b' = lookahead b
      /\ lookahead b ++ readahead b' ++ src b' = firstn (la (abs b)) (rest (abs b)) ++ skipn (S (la (abs b))) (rest (abs b))
      /\ ioerr b' = ioerr b /\ wf_bufs b' /\ bpos b' = bpos b
  | (None, b') =>
      nth_error (rest (abs b)) (la (abs b)) = None
      /\ abs b' = mkcur (rest (abs b)) 0 true /\ wf_bufs b' /\ ioerr b' = true
  end.
Proof.
  intros W. unfold read_rune.
  assert (R0 : rest (abs b) = lookahead b ++ readahead b ++ src b) by reflexivity.
  assert (L0 : la (abs b) = length (lookahead b)) by reflexivity.
  destruct (readahead b) as [|r ra] eqn:RA.
  - destruct (ioerr b) eqn:IO.
    + rewrite R0, L0, (W IO). cbn [app]. rewrite app_nil_r.
      split; [apply nth_error_end|]. split; [|split; [apply wf_rewind; exact W|]].
      * rewrite abs_rewind. unfold rewind_cur. rewrite R0, (W IO). cbn [app]. rewrite app_nil_r.
        unfold abs. cbn [eof]. rewrite IO. reflexivity.
      * unfold rewind. destruct (lookahead b); cbn; exact IO.
    + destruct (src b) as [|r s] eqn:SR.
      * rewrite R0, L0. cbn [app]. rewrite app_nil_r.
        split; [apply nth_error_end|]. split; [|split; [apply wf_rewind; intros _; reflexivity|]].
        -- rewrite abs_rewind. unfold rewind_cur, abs. cbn. rewrite app_nil_r. reflexivity.
        -- unfold rewind. cbn. destruct (lookahead b); reflexivity.
      * rewrite R0, L0. cbn [app lookahead readahead src ioerr bpos].
        split; [apply nth_error_mid|]. split; [reflexivity|]. split; [symmetry; apply cut_mid|].
        split; [reflexivity|]. split; [intros C; discriminate | reflexivity].
  - rewrite R0, L0. cbn [lookahead readahead src ioerr bpos].
    split; [apply nth_error_mid|]. split; [reflexivity|].
    split; [symmetry; apply (cut_mid (lookahead b) r (ra ++ src b))|].
    split; [reflexivity|]. split; [exact W | reflexivity].
Qed.

Theorem buffers_refine_cursor b o :
  wf_bufs b ->
  match step_bufs u16 b o with
  | Some (out, b') => step_cur (abs b) o = (out, abs b') /\ wf_bufs b'
  | None => exists r, o = OReplay r /\ is_nl r = true
  end.
Proof.
  intros W. destruct o; cbn [step_bufs step_cur].
  - (* peek *)
    unfold peek, peek_cur. pose proof (read_rune_spec b W) as S.
    destruct (read_rune b) as [[r|] b'].
    + destruct S as (N & L & R & IO & W' & _). rewrite N. split; [|exact W'].
      assert (E : rest (abs b) = (lookahead b ++ [r]) ++ readahead b' ++ src b').
      { assert (F : firstn (la (abs b)) (rest (abs b)) = lookahead b)
          by (unfold abs; cbn [rest la]; apply firstn_app_exact).
        rewrite (split_nth _ _ _ N) at 1. rewrite F in *. apply app_inv_head in R.
        rewrite <- R, <- app_assoc. reflexivity. }
      rewrite E. unfold abs. cbn [lookahead readahead src ioerr rest la eof].
      rewrite L, IO, app_length. cbn [length]. rewrite Nat.add_1_r. reflexivity.
    + destruct S as (N & A & W' & _). rewrite N, A. split; [reflexivity | exact W'].
  - (* read *)
    unfold read, read_cur. pose proof (read_rune_spec b W) as S.
    destruct (read_rune b) as [[r|] b'].
    + destruct S as (N & L & R & IO & W' & _). rewrite N. split; [|exact W'].
      f_equal. unfold abs. cbn [lookahead readahead src ioerr rest la eof]. rewrite L, IO, R. reflexivity.
    + destruct S as (N & A & W' & _). rewrite N, A. split; [reflexivity | exact W'].
  - (* commit *)
    split; [|exact W]. f_equal. unfold commit, abs, commit_cur. cbn. rewrite skipn_app_exact. reflexivity.
  - (* rewind *)
    split; [f_equal; symmetry; apply abs_rewind | apply wf_rewind; exact W].
  - (* replay *)
    unfold replay. destruct (subtract u16 (bpos b) r) as [p'|] eqn:S.
    + split; [|apply wf_rewind; exact W]. f_equal. rewrite abs_rewind. reflexivity.
    + exists r. split; [reflexivity|]. apply subtract_panics_iff in S. subst r. reflexivity.
Qed.

(* ---- positions ---- *)

Definition pos_inv_pre (input pre : list rune) (b : bufs) : Prop :=
  input = pre ++ lookahead b ++ readahead b ++ src b
  /\ bpos b = pos_at u16 input (length pre)
  /\ blapos b = pos_at u16 input (length pre + length (lookahead b))
  /\ brpos b = pos_at u16 input (if ioerr b then length input else pred (length input - length (src b)))
  /\ wf_bufs b.

Lemma pos_inv_init input : pos_inv_pre input [] (init input).
Proof.
  unfold pos_inv_pre, init, wf_bufs. cbn. rewrite Nat.sub_diag. repeat split; auto. discriminate.
Qed.

Lemma pos_inv_rewind input pre b : pos_inv_pre input pre b -> pos_inv_pre input pre (rewind b).
Proof.
  intros (I & P & LP & RP & W). unfold rewind. destruct (lookahead b) as [|x l] eqn:E.
  - unfold pos_inv_pre. rewrite E. repeat split; auto.
  - unfold pos_inv_pre. cbn [lookahead readahead src ioerr bpos blapos brpos length app].
    rewrite Nat.add_0_r. repeat split; auto. rewrite I. rewrite <- app_assoc. reflexivity.
Qed.

Lemma pos_inv_commit input pre b :
  pos_inv_pre input pre b -> pos_inv_pre input (pre ++ lookahead b) (commit b).
Proof.
  intros (I & P & LP & RP & W). unfold pos_inv_pre, commit.
  cbn [lookahead readahead src ioerr bpos blapos brpos length app].
  rewrite app_length, Nat.add_0_r. repeat split; auto. rewrite I, <- app_assoc. reflexivity.
Qed.

Lemma nth_error_input input pre (l : list rune) r t : input = pre ++ l ++ r :: t ->
  nth_error input (length pre + length l) = Some r.
Proof.
  intros ->. rewrite app_assoc. rewrite <- app_length. apply nth_error_mid.
Qed.

Lemma len_split (input pre l t : list rune) : input = pre ++ l ++ t ->
  (length input - length t = length pre + length l)%nat.
Proof. intros ->. rewrite !app_length. lia. Qed.

(* _readRune keeps the invariant; a fetched rune is the one at boundary |pre| + |lookahead| + |readahead| *)
Lemma pos_inv_read_rune input pre b : pos_inv_pre input pre b ->
  match read_rune b with
  | (Some r, b') =>
      input = pre ++ lookahead b ++ r :: readahead b' ++ src b'
      /\ lookahead b' = lookahead b /\ bpos b' = bpos b /\ blapos b' = blapos b
      /\ brpos b' = pos_at u16 input (if ioerr b' then length input else pred (length input - length (src b')))
      /\ wf_bufs b'
  | (None, b') => pos_inv_pre input pre b'
  end.
Proof.
  intros (I & P & LP & RP & W). unfold read_rune.
  destruct (readahead b) as [|r ra] eqn:RA.
  - destruct (ioerr b) eqn:IO.
    + apply pos_inv_rewind. unfold pos_inv_pre. rewrite RA, IO. repeat split; auto.
    + destruct (src b) as [|r s] eqn:SR.
      * apply pos_inv_rewind. unfold pos_inv_pre.
        cbn [lookahead readahead src ioerr bpos blapos brpos]. repeat split; auto.
        all: try (intros _; reflexivity).
        rewrite LP. f_equal. rewrite I at 1. rewrite !app_length. cbn. lia.
      * cbn [lookahead readahead src ioerr bpos blapos brpos]. repeat split; auto.
        all: try (intros C; discriminate).
        rewrite LP. f_equal.
        assert (L : (length input - length s = S (length pre + length (lookahead b)))%nat)
          by (rewrite I at 1; rewrite !app_length; cbn; lia).
        rewrite L. reflexivity.
  - cbn [lookahead readahead src ioerr bpos blapos brpos]. repeat split; auto.
Qed.

Lemma pos_inv_peek input pre b : pos_inv_pre input pre b -> pos_inv_pre input pre (snd (peek u16 b)).
Proof.
  intros H. unfold peek. pose proof (pos_inv_read_rune input pre b H) as S.
  destruct H as (I & P & LP & RP & W).
  destruct (read_rune b) as [[r|] b']; cbn [snd]; [|exact S].
  destruct S as (I' & L & P' & LP' & RP' & W').
  unfold pos_inv_pre. cbn [lookahead readahead src ioerr bpos blapos brpos].
  rewrite L, app_length. cbn [length]. repeat split; auto.
  - rewrite <- app_assoc. exact I'.
  - congruence.
  - rewrite LP', LP. rewrite Nat.add_1_r, Nat.add_succ_r.
    symmetry. apply pos_at_S. eapply nth_error_input. exact I'.
Qed.

(* read with an empty look-ahead buffer (the only way the parser uses it) consumes one rune *)
Lemma pos_inv_read input pre b : lookahead b = [] -> pos_inv_pre input pre b ->
  match read u16 b with
  | (Some r, b') => pos_inv_pre input (pre ++ [r]) b'
  | (None, b') => pos_inv_pre input pre b'
  end.
Proof.
  intros LA H. unfold read. pose proof (pos_inv_read_rune input pre b H) as S.
  destruct H as (I & P & LP & RP & W).
  destruct (read_rune b) as [[r|] b']; [|exact S].
  destruct S as (I' & L & P' & LP' & RP' & W'). rewrite LA in *. cbn [app] in I'.
  unfold pos_inv_pre. cbn [lookahead readahead src ioerr bpos blapos brpos].
  rewrite L. cbn [app length]. rewrite app_length, Nat.add_0_r. cbn [length]. rewrite Nat.add_1_r.
  assert (N : nth_error input (length pre) = Some r).
  { rewrite <- (Nat.add_0_r (length pre)). change 0%nat with (length (@nil rune)).
    eapply nth_error_input. cbn [app]. exact I'. }
  repeat split; auto.
  - rewrite <- app_assoc. exact I'.
  - rewrite P', P. symmetry. apply pos_at_S. exact N.
  - rewrite P', P. symmetry. apply pos_at_S. exact N.
Qed.

(* replay(r) directly after r was consumed, r not a newline: no panic, and r is unread again *)
Lemma pos_inv_replay input pre r b :
  lookahead b = [] -> is_nl r = false -> pos_inv_pre input (pre ++ [r]) b ->
  exists b', replay u16 r b = Some b' /\ pos_inv_pre input pre b'.
Proof.
  intros LA NL (I & P & LP & RP & W). rewrite LA in *. cbn [app] in I.
  assert (N : nth_error input (length pre) = Some r).
  { rewrite <- (Nat.add_0_r (length pre)). change 0%nat with (length (@nil rune)).
    eapply nth_error_input. cbn [app]. rewrite I, <- app_assoc. reflexivity. }
  unfold replay. rewrite P, app_length. cbn [length]. rewrite Nat.add_1_r.
  rewrite (pos_at_S u16 input (length pre) r N), (subtract_advance u16 _ r NL).
  eexists. split; [reflexivity|].
  unfold rewind. cbn [lookahead readahead src ioerr bpos blapos brpos].
  unfold pos_inv_pre. cbn [lookahead readahead src ioerr bpos blapos brpos length app].
  rewrite LA, Nat.add_0_r. cbn [app]. repeat split; auto.
  rewrite I, <- app_assoc. reflexivity.
Qed.

(* consequence used by the parser model: once EOF has been seen, p.readerPos is the end of the input *)
Lemma reader_pos_at_eof input pre b :
  pos_inv_pre input pre b -> ioerr b = true -> brpos b = pos_at u16 input (length input).
Proof. intros (_ & _ & _ & RP & _) E. rewrite E in RP. exact RP. Qed.

(* ... and otherwise the position BEFORE the last rune fetched from the underlying reader: it is behind
   p.pos by the runes in the look-ahead and read-ahead buffers minus one (what parseArray copies into
   Array.Range.End) *)
Lemma reader_pos_before_last_fetched input pre b :
  pos_inv_pre input pre b -> ioerr b = false ->
  brpos b = pos_at u16 input (pred (length pre + length (lookahead b) + length (readahead b))).
Proof.
  intros (I & _ & _ & RP & _) E. rewrite E in RP. rewrite RP. f_equal. f_equal.
  rewrite I at 1. rewrite !app_length. lia.
Qed.

End Refine.
