(* C01 — executable checker.  Evaluated by vm_compute on cases written by harness/c01.go.
   Failure codes:
     1   the fragment model's result differs from the implementation's (tree as kinds and values, error
         ranges; for ParseKey / ParseMapKey / ParseValue: value-or-error), or the model runs out of fuel /
         reaches a crash site on an input the implementation handled
     10  the call returned neither a tree (value) nor an error, or both a nil tree and no error
     11  an error of the returned list carries no usable range (start after end, or negative)
     12  err != nil although the error list is empty (or err is not a *ParseError)
     99  (set by the harness) panic, or no answer within the time bound *)
From Coq Require Import List NArith ZArith Bool.
Import ListNotations.
Require Import V.Lib.RunCases V.C05.Model V.C02.Pos V.C02.Utf8 V.C02.Model.
Require Export V.C01.Model.
Open Scope N_scope.

Definition P (l c b : N) : pos := mkpos (Z.of_N l) (Z.of_N c) (Z.of_N b).
Definition PZ (l c b : Z) : pos := mkpos l c b.

Inductive case :=
| CParse (input : list N) (nums : list str) (impl : tree) (errs : list (pos * pos))
    (* d2parser.Parse on these bytes (UTF-8 positions): the tree as the harness renders it, all error ranges;
       nums = the Raw texts of all Number nodes *)
| CEntry (which : N) (input : list N) (nums : list str) (impl : option tree) (impl_err : bool)
    (* which = 1 ParseKey (impl = a TKey with only a path), 2 ParseMapKey, 3 ParseValue; input as runes;
       impl = the returned node, impl_err = an error was returned *)
| CSearch (len nodes : N) (tree_ok err_nonnil err_is_parse_error : bool) (errs : list (pos * pos)).
    (* whole parser, any bytes: only the property clauses *)

Definition pair_eqb (a b : N * str) : bool := (fst a =? fst b) && str_eqb (snd a) (snd b).

Fixpoint tree_eqb (a b : tree) : bool :=
  match a, b with
  | TMap d1 n1, TMap d2 n2 =>
      (d1 =? d2) &&
      (fix go (l1 l2 : list tree) : bool :=
         match l1, l2 with
         | [], [] => true
         | x :: xs, y :: ys => tree_eqb x y && go xs ys
         | _, _ => false
         end) n1 n2
  | TKey p1 pr1 v1, TKey p2 pr2 v2 =>
      list_eqb pair_eqb p1 p2 && opt_eqb pair_eqb pr1 pr2 &&
      match v1, v2 with
      | Some x, Some y => tree_eqb x y
      | None, None => true
      | _, _ => false
      end
  | TScalar k1 v1, TScalar k2 v2 => (k1 =? k2) && str_eqb v1 v2
  | TComment v1, TComment v2 => str_eqb v1 v2
  | TOther, TOther => true
  | _, _ => false
  end.

Definition range_eqb (a : irange) (b : pos * pos) : bool :=
  pos_eqb (snd (fst a)) (fst b) && pos_eqb (snd (snd a)) (snd b).

Fixpoint ranges_eqb (a : list irange) (b : list (pos * pos)) : bool :=
  match a, b with
  | [], [] => true
  | x :: xs, y :: ys => range_eqb x y && ranges_eqb xs ys
  | _, _ => false
  end.

Definition err_ok (r : pos * pos) : bool :=
  pos_leb (fst r) (snd r) && (0 <=? byte (fst r))%Z && (0 <=? line (fst r))%Z && (0 <=? col (fst r))%Z.

Definition is_ok {A} (r : res A) : bool := match r with Ok _ => true | _ => false end.

Definition check_case (c : case) : list N :=
  match c with
  | CParse input nums impl errs =>
      let rs := decode_runes input in
      match parse_c false nums (fuel_of rs) rs with
      | Ok (t, es) => flag (tree_eqb t impl) 1 ++ flag (ranges_eqb es errs) 1
      | Unsupported => []
      | OutOfFuel => [1]
      | Crash _ => [1]
      end
      ++ flag (forallb err_ok errs) 11
  | CEntry which rs nums impl impl_err =>
      let fuel := fuel_of rs in
      let cmp (r : res (option tree * list irange)) :=
          match r with
          | Ok (Some t, []) => flag (match impl with Some i => tree_eqb t i | None => false end) 1 ++ flag (negb impl_err) 1
          | Ok (_, _) => flag impl_err 1 ++ flag (match impl with None => true | _ => false end) 1
          | Unsupported => []
          | OutOfFuel => [1]
          | Crash _ => [1]
          end in
      (if which =? 1 then
         cmp (match parse_key_entry false fuel rs with
              | Ok (Some p, es) => Ok (Some (TKey p None None), es)
              | Ok (None, es) => Ok (None, es)
              | OutOfFuel => OutOfFuel | Crash s => Crash s | Unsupported => Unsupported
              end)
       else if which =? 2 then cmp (parse_map_key_entry false nums fuel rs)
       else cmp (parse_value_entry false nums fuel rs))
      ++ flag (xorb impl_err (match impl with Some _ => true | None => false end)) 10
  | CSearch len nodes tree_ok err_nonnil err_is_pe errs =>
      flag tree_ok 10
      ++ flag (forallb err_ok errs) 11
      ++ flag (Bool.eqb err_nonnil (match errs with [] => false | _ => true end) && (negb err_nonnil || err_is_pe)) 12
  end.
