(* C31 — executable model of
     d2themes.Theme.ApplyOverrides, d2themes.ResolveThemeColor, color.IsThemeColor,
     d2renderers/d2svg.ThemeCSS / singleThemeRulesets (byte-exact text), blendMode,
     the colour part of d2themes.ThemableElement.Render, the choice of the inline theme in d2svg.Render,
     d2themescatalog.Find (V.C28.Theme.find_theme) and d2graph.Graph.ApplyTheme's rejection.
   The catalog is regenerated on every run (V.Gen.C28Themes).  Definitions only.
   Oracle: color.LuminanceCategory (csscolorparser) appears as the Section variable [lum]. *)
From Coq Require Import String Ascii List NArith ZArith Bool.
Import ListNotations.
Require Import V.C28.Theme V.Gen.C28Themes.
Open Scope string_scope.

Inductive code := N1 | N2 | N3 | N4 | N5 | N6 | N7 | B1 | B2 | B3 | B4 | B5 | B6 | AA2 | AA4 | AA5 | AB4 | AB5.

(* the order of the rules inside one property block of singleThemeRulesets *)
Definition all_codes : list code := [N1; N2; N3; N4; N5; N6; N7; B1; B2; B3; B4; B5; B6; AA2; AA4; AA5; AB4; AB5].

Definition code_name (c : code) : string :=
  match c with
  | N1 => "N1" | N2 => "N2" | N3 => "N3" | N4 => "N4" | N5 => "N5" | N6 => "N6" | N7 => "N7"
  | B1 => "B1" | B2 => "B2" | B3 => "B3" | B4 => "B4" | B5 => "B5" | B6 => "B6"
  | AA2 => "AA2" | AA4 => "AA4" | AA5 => "AA5" | AB4 => "AB4" | AB5 => "AB5"
  end.

Definition code_idx (c : code) : N :=
  match c with
  | N1 => 0 | N2 => 1 | N3 => 2 | N4 => 3 | N5 => 4 | N6 => 5 | N7 => 6
  | B1 => 7 | B2 => 8 | B3 => 9 | B4 => 10 | B5 => 11 | B6 => 12
  | AA2 => 13 | AA4 => 14 | AA5 => 15 | AB4 => 16 | AB5 => 17
  end%N.
Definition code_eqb (a b : code) : bool := N.eqb (code_idx a) (code_idx b).

(* the regexp ^(N[1-7]|B[1-6]|AA[245]|AB[45])$ *)
Fixpoint code_of_name_in (l : list code) (s : string) : option code :=
  match l with
  | [] => None
  | c :: r => if String.eqb s (code_name c) then Some c else code_of_name_in r s
  end.
Definition code_of_name := code_of_name_in all_codes.
Definition is_theme_color (s : string) : bool :=
  match code_of_name s with Some _ => true | None => false end.

Definition pget (p : palette) (c : code) : string :=
  match c with
  | N1 => cN1 p | N2 => cN2 p | N3 => cN3 p | N4 => cN4 p | N5 => cN5 p | N6 => cN6 p | N7 => cN7 p
  | B1 => cB1 p | B2 => cB2 p | B3 => cB3 p | B4 => cB4 p | B5 => cB5 p | B6 => cB6 p
  | AA2 => cAA2 p | AA4 => cAA4 p | AA5 => cAA5 p | AB4 => cAB4 p | AB5 => cAB5 p
  end.

(* d2target.ThemeOverrides *)
Record overrides := {
  oN1 : option string; oN2 : option string; oN3 : option string; oN4 : option string; oN5 : option string;
  oN6 : option string; oN7 : option string;
  oB1 : option string; oB2 : option string; oB3 : option string; oB4 : option string; oB5 : option string;
  oB6 : option string;
  oAA2 : option string; oAA4 : option string; oAA5 : option string; oAB4 : option string; oAB5 : option string }.

Definition oget (o : overrides) (c : code) : option string :=
  match c with
  | N1 => oN1 o | N2 => oN2 o | N3 => oN3 o | N4 => oN4 o | N5 => oN5 o | N6 => oN6 o | N7 => oN7 o
  | B1 => oB1 o | B2 => oB2 o | B3 => oB3 o | B4 => oB4 o | B5 => oB5 o | B6 => oB6 o
  | AA2 => oAA2 o | AA4 => oAA4 o | AA5 => oAA5 o | AB4 => oAB4 o | AB5 => oAB5 o
  end.

Definition ovr (x : option string) (d : string) : string := match x with Some v => v | None => d end.

(* Theme.ApplyOverrides: one `if overrides.X != nil { t.Colors.X = *overrides.X }` per field (B5 twice) *)
Definition apply_overrides (p : palette) (o : option overrides) : palette :=
  match o with
  | None => p
  | Some o =>
      {| cN1 := ovr (oN1 o) (cN1 p); cN2 := ovr (oN2 o) (cN2 p); cN3 := ovr (oN3 o) (cN3 p);
         cN4 := ovr (oN4 o) (cN4 p); cN5 := ovr (oN5 o) (cN5 p); cN6 := ovr (oN6 o) (cN6 p);
         cN7 := ovr (oN7 o) (cN7 p);
         cB1 := ovr (oB1 o) (cB1 p); cB2 := ovr (oB2 o) (cB2 p); cB3 := ovr (oB3 o) (cB3 p);
         cB4 := ovr (oB4 o) (cB4 p); cB5 := ovr (oB5 o) (ovr (oB5 o) (cB5 p)); cB6 := ovr (oB6 o) (cB6 p);
         cAA2 := ovr (oAA2 o) (cAA2 p); cAA4 := ovr (oAA4 o) (cAA4 p); cAA5 := ovr (oAA5 o) (cAA5 p);
         cAB4 := ovr (oAB4 o) (cAB4 p); cAB5 := ovr (oAB5 o) (cAB5 p) |}
  end.

(* what the property asks for: the override if there is one, the theme's colour otherwise *)
Definition expected_color (p : palette) (o : option overrides) (c : code) : string :=
  match o with
  | Some o => match oget o c with Some v => v | None => pget p c end
  | None => pget p c
  end.

(* d2themes.ResolveThemeColor *)
Definition resolve (p : palette) (s : string) : string :=
  if negb (is_theme_color s) then s
  else match code_of_name s with Some c => pget p c | None => "" end.

(* ---------- the stylesheet ---------- *)

Definition nl : string := String (ascii_of_N 10) "".
Definition tab : string := String (ascii_of_N 9) "".

Definition css_props : list string := ["fill"; "stroke"; "background-color"; "color"].

(* one generated rule: class selector property-CODE sets property to value *)
Definition rule := (string * code * string)%type.

(* "Global theme colors": for property in fill, stroke, background-color, color: 18 rules *)
Definition theme_rules (p : palette) : list rule :=
  flat_map (fun prop => map (fun c => (prop, c, pget p c)) all_codes) css_props.

(* "\n\t\t.%s .%s-N1{%s:%s;}" *)
Definition rule_text (h : string) (r : rule) : string :=
  let '(prop, c, v) := r in
  nl ++ tab ++ tab ++ "." ++ h ++ " ." ++ prop ++ "-" ++ code_name c ++ "{" ++ prop ++ ":" ++ v ++ ";}".

Fixpoint concat_str (l : list string) : string :=
  match l with [] => "" | s :: r => s ++ concat_str r end.

(* CSS cascade among rules of equal specificity: the last rule for the class wins *)
Fixpoint css_value (rs : list rule) (prop : string) (c : code) : option string :=
  match rs with
  | [] => None
  | (p', c', v) :: r =>
      match css_value r prop c with
      | Some v' => Some v'
      | None => if String.eqb p' prop && code_eqb c' c then Some v else None
      end
  end.

(* blendMode; luminance categories outside the four make the Go code panic (modelled as no output) *)
Definition blend_mode (lc : string) : option string :=
  if String.eqb lc "bright" then Some "darken"
  else if String.eqb lc "normal" then Some "color-burn"
  else if String.eqb lc "dark" then Some "overlay"
  else if String.eqb lc "darker" then Some "lighten"
  else None.

(* order of the sketch-overlay rules in singleThemeRulesets *)
Definition sketch_codes : list code := [B1; B2; B3; B4; B5; B6; AA2; AA4; AA5; AB4; AB5; N1; N2; N3; N4; N5; N6; N7].

Definition zero_palette : palette := Build_palette "" "" "" "" "" "" "" "" "" "" "" "" "" "" "" "" "" "".
(* Go's zero Theme{} as returned by Find for an unknown id *)
Definition zero_theme : theme := Build_theme 0 "" zero_palette false false false false false false false.

Definition is_dark (t : theme) : bool := (Z.leb 200 (t_id t) && Z.ltb (t_id t) 300)%Z.

Section Css.
  (* color.LuminanceCategory: None = error *)
  Variable lum : string -> option string.

  Fixpoint sketch_text (h : string) (p : palette) (cs : list code) : option string :=
    match cs with
    | [] => Some ""
    | c :: r =>
        match lum (pget p c) with
        | None => None
        | Some lc =>
            match blend_mode lc, sketch_text h p r with
            | Some bm, Some rest =>
                Some (".sketch-overlay-" ++ code_name c ++ "{fill:url(#streaks-" ++ lc ++ "-" ++ h
                      ++ ");mix-blend-mode:" ++ bm ++ "}" ++ rest)
            | _, _ => None
            end
        end
    end.

  Definition md_text (p : palette) : string :=
    ".md{--color-fg-default:" ++ cN1 p ++ ";--color-fg-muted:" ++ cN2 p ++ ";--color-fg-subtle:" ++ cN3 p
    ++ ";--color-canvas-default:" ++ cN7 p ++ ";--color-canvas-subtle:" ++ cN6 p
    ++ ";--color-border-default:" ++ cB1 p ++ ";--color-border-muted:" ++ cB2 p
    ++ ";--color-neutral-muted:" ++ cN6 p ++ ";--color-accent-fg:" ++ cB2 p
    ++ ";--color-accent-emphasis:" ++ cB2 p ++ ";--color-attention-subtle:" ++ cN2 p
    ++ ";--color-danger-fg:red;}".

  (* the theme singleThemeRulesets works with: Find(id) (zero theme when unknown) with overrides applied *)
  Definition sheet_theme (id : Z) : theme :=
    match find_theme light_catalog dark_catalog id with Some t => t | None => zero_theme end.

  (* singleThemeRulesets; None = error returned *)
  Definition single_theme_rulesets (h : string) (id : Z) (ov : option overrides) : option string :=
    let t := sheet_theme id in
    let p := apply_overrides (t_colors t) ov in
    match sketch_text h p sketch_codes with
    | None => None
    | Some sk =>
        Some (concat_str (map (rule_text h) (theme_rules p))
              ++ ".appendix text.text{fill:" ++ cN1 p ++ "}"
              ++ md_text p
              ++ sk
              ++ (if is_dark t then ".light-code{display: none}.dark-code{display: block}"
                  else ".light-code{display: block}.dark-code{display: none}"))
    end.

  (* singleThemeRulesets with the repair of coq/C31/fix.patch: `if theme == (d2themes.Theme{}) { return error }` *)
  Definition single_theme_rulesets_fixed (h : string) (id : Z) (ov : option overrides) : option string :=
    match find_theme light_catalog dark_catalog id with
    | None => None
    | Some _ => single_theme_rulesets h id ov
    end.

  (* which of the two Check.v ties to the code: false = d2 before b068ef37f, true = with coq/C31/fix.patch (b068ef37f and later) *)
  Definition unknown_id_fix_applied : bool := true.
  Definition str_impl := if unknown_id_fix_applied then single_theme_rulesets_fixed else single_theme_rulesets.

  (* ThemeCSS *)
  Definition theme_css (h : string) (tid dark : option Z) (ov dov : option overrides) : option string :=
    let id := match tid with Some i => i | None => default_theme_id end in
    match str_impl h id ov with
    | None => None
    | Some out =>
        match dark with
        | None => Some out
        | Some did =>
            match str_impl h did dov with
            | None => None
            | Some dout => Some (out ++ "@media screen and (prefers-color-scheme:dark){" ++ dout ++ "}")
            end
        end
    end.
End Css.

(* the structured rules of the two blocks of ThemeCSS's output *)
Definition light_rules (tid : option Z) (ov : option overrides) : list rule :=
  let id := match tid with Some i => i | None => default_theme_id end in
  theme_rules (apply_overrides (t_colors (sheet_theme id)) ov).
Definition dark_rules (did : Z) (dov : option overrides) : list rule :=
  theme_rules (apply_overrides (t_colors (sheet_theme did)) dov).

(* ---------- inline colours ---------- *)

(* d2svg.Render: `if darkThemeID == nil { inlineTheme = Find(themeID); inlineTheme.ApplyOverrides(opts.ThemeOverrides) }` *)
Definition inline_palette (tid : Z) (dark : option Z) (ov : option overrides) : option palette :=
  match dark with
  | Some _ => None
  | None => Some (apply_overrides (t_colors (sheet_theme tid)) ov)
  end.

(* ThemableElement.Render for one colour property: (attribute text, class suffix).  Gradients excluded
   (the harness passes none: UniqueGradientID is a SHA-1). *)
Definition color_attr (inline : option palette) (prop v : string) : string * string :=
  if is_theme_color v then
    (match inline with
     | Some p => " " ++ prop ++ "=""" ++ resolve p v ++ """"
     | None => "" end,
     " " ++ prop ++ "-" ++ v)
  else if String.eqb v "" then ("", "")
  else (" " ++ prop ++ "=""" ++ v ++ """", "").

(* ThemableElement.Render of an element that has only a tag, a class name and the four colours *)
Definition render_element (inline : option palette) (tag cls stroke fill bg col : string) : string :=
  let '(a1, c1) := color_attr inline "stroke" stroke in
  let '(a2, c2) := color_attr inline "fill" fill in
  let '(a3, c3) := color_attr inline "background-color" bg in
  let '(a4, c4) := color_attr inline "color" col in
  let class := cls ++ c1 ++ c2 ++ c3 ++ c4 in
  "<" ++ tag ++ (if String.eqb tag "div" then " xmlns=""http://www.w3.org/1999/xhtml""" else "")
  ++ a1 ++ a2 ++ a3 ++ a4
  ++ (if String.eqb class "" then "" else " class=""" ++ class ++ """") ++ " />".

(* ---------- rejection of unknown ids where the code does reject them ---------- *)

(* d2graph.Graph.ApplyTheme / the d2-config check in d2ir / the CLI flag check: Find(id) == Theme{} -> error *)
Definition apply_theme_id (id : Z) : option theme := find_theme light_catalog dark_catalog id.

Definition mk_overrides (f : code -> option string) : overrides :=
  Build_overrides (f N1) (f N2) (f N3) (f N4) (f N5) (f N6) (f N7) (f B1) (f B2) (f B3) (f B4) (f B5) (f B6)
                  (f AA2) (f AA4) (f AA5) (f AB4) (f AB5).
