(* C31 — proofs about the model of theme / override application. *)
From Coq Require Import String Ascii List NArith ZArith Bool Lia.
Import ListNotations.
Require Import V.Lib.RunCases V.C28.Theme V.Gen.C28Themes V.C31.Model V.C31.Check.
Require V.C28.Model V.C28.Proofs.
Open Scope string_scope.

Definition catalog : list theme := light_catalog ++ dark_catalog.

Lemma code_eqb_eq a b : code_eqb a b = true <-> a = b.
Proof. destruct a, b; vm_compute; split; intro H; try reflexivity; discriminate. Qed.

Lemma code_of_name_name c : code_of_name (code_name c) = Some c.
Proof. destruct c; reflexivity. Qed.

Lemma is_theme_color_name c : is_theme_color (code_name c) = true.
Proof. unfold is_theme_color. now rewrite code_of_name_name. Qed.

(* code_of_name recognises exactly the 18 names *)
Lemma code_of_name_sound s c : code_of_name s = Some c -> s = code_name c.
Proof.
  unfold code_of_name. generalize all_codes. induction l as [|a r IH]; simpl; [discriminate|].
  destruct (String.eqb s (code_name a)) eqn:E.
  - intro H; inversion H; subst. now apply String.eqb_eq.
  - exact IH.
Qed.

(* ---------- ApplyOverrides ---------- *)

Lemma apply_overrides_get p o c : pget (apply_overrides p o) c = expected_color p o c.
Proof.
  destruct o as [o|]; [|reflexivity]. unfold expected_color.
  destruct c; simpl; unfold ovr; try reflexivity;
    match goal with |- context [match ?x with _ => _ end] => destruct x end; reflexivity.
Qed.

(* an override never leaks to another code *)
Lemma apply_overrides_other p o c :
  oget o c = None -> pget (apply_overrides p (Some o)) c = pget p c.
Proof. intro H. rewrite apply_overrides_get. unfold expected_color. now rewrite H. Qed.

(* ---------- ResolveThemeColor ---------- *)

Lemma resolve_code p c : resolve p (code_name c) = pget p c.
Proof. unfold resolve. now rewrite is_theme_color_name, code_of_name_name. Qed.

Lemma resolve_other p s : is_theme_color s = false -> resolve p s = s.
Proof. unfold resolve. now intros ->. Qed.

(* ---------- the stylesheet's rules ---------- *)

Lemma css_value_theme_rules p prop c :
  In prop css_props -> css_value (theme_rules p) prop c = Some (pget p c).
Proof.
  intro H. simpl in H.
  destruct H as [<-|[<-|[<-|[<-|[]]]]]; destruct c; reflexivity.
Qed.

(* a class that is not one of the four properties has no rule *)
Lemma css_value_theme_rules_none p prop c :
  ~ In prop css_props -> css_value (theme_rules p) prop c = None.
Proof.
  intro H. unfold theme_rules.
  assert (K : forall rs, (forall r, In r rs -> In (fst (fst r)) css_props) -> css_value rs prop c = None).
  { induction rs as [|[[p' c'] v] rs IH]; intro A; simpl; [reflexivity|].
    rewrite IH by (intros r Hr; apply A; now right).
    destruct (String.eqb p' prop) eqn:E; [|reflexivity].
    apply String.eqb_eq in E. subst. exfalso. apply H. apply (A (prop, c', v)). now left. }
  apply K. intros r Hr. apply in_flat_map in Hr as [q [Hq Hr]]. apply in_map_iff in Hr as [x [<- _]]. exact Hq.
Qed.

Lemma stylesheet_resolves p ov prop c :
  In prop css_props ->
  css_value (theme_rules (apply_overrides p ov)) prop c = Some (expected_color p ov c).
Proof. intro H. rewrite css_value_theme_rules by exact H. now rewrite apply_overrides_get. Qed.

Lemma sheet_resolves_spec rs p ov :
  sheet_resolves rs p ov = true <->
  forall prop c, In prop css_props -> css_value rs prop c = Some (expected_color p ov c).
Proof.
  unfold sheet_resolves. rewrite forallb_forall. split.
  - intros H prop c Hp. specialize (H prop Hp). rewrite forallb_forall in H.
    assert (Hc : In c all_codes) by (destruct c; simpl; tauto).
    specialize (H c Hc). destruct (css_value rs prop c) as [v|]; simpl in H; [|discriminate].
    apply String.eqb_eq in H. now subst.
  - intros H prop Hp. apply forallb_forall. intros c _. rewrite (H prop c Hp). simpl. apply String.eqb_refl.
Qed.

Lemma sheet_theme_catalog t : In t catalog -> sheet_theme (t_id t) = t.
Proof.
  intro H. unfold sheet_theme.
  pose proof (V.C28.Proofs.find_catalog_theme t) as K. unfold V.C28.Model.catalog in K.
  now rewrite (K H).
Qed.

(* ---------- text ---------- *)

Section TextProofs.
  Variable lum : string -> option string.

  (* the text of singleThemeRulesets starts with exactly the rendering of the structured rules *)
  Lemma rulesets_text_prefix h id ov txt :
    single_theme_rulesets lum h id ov = Some txt ->
    exists rest, txt = concat_str (map (rule_text h)
                          (theme_rules (apply_overrides (t_colors (sheet_theme id)) ov))) ++ rest.
  Proof.
    unfold single_theme_rulesets.
    destruct (sketch_text lum h _ sketch_codes); [|discriminate].
    intro H; inversion H. eexists. reflexivity.
  Qed.

  (* ThemeCSS: the light block is built from (theme, overrides) only, the dark @media block from
     (dark theme, dark overrides) only *)
  Lemma theme_css_blocks h tid dark ov dov txt :
    theme_css lum h tid dark ov dov = Some txt ->
    exists l, str_impl lum h (match tid with Some i => i | None => default_theme_id end) ov = Some l /\
      match dark with
      | None => txt = l
      | Some did => exists d, str_impl lum h did dov = Some d /\
                      txt = l ++ "@media screen and (prefers-color-scheme:dark){" ++ d ++ "}"
      end.
  Proof.
    unfold theme_css. destruct (str_impl lum h _ ov) as [l|]; [|discriminate].
    destruct dark as [did|].
    - destruct (str_impl lum h did dov) as [d|]; [|discriminate].
      intro H; inversion H. exists l. split; [reflexivity|]. exists d. now split.
    - intro H; inversion H. now exists txt.
  Qed.

  (* ---------- unknown ids ---------- *)

  Lemma sketch_text_none h p cs c :
    In c cs -> lum (pget p c) = None -> sketch_text lum h p cs = None.
  Proof.
    induction cs as [|a r IH]; simpl; [tauto|]. intros [->|Hin] Hl.
    - now rewrite Hl.
    - destruct (lum (pget p a)); [|reflexivity]. rewrite (IH Hin Hl).
      destruct (blend_mode s); reflexivity.
  Qed.

  Lemma all_in_sketch c : In c sketch_codes.
  Proof. destruct c; simpl; tauto. Qed.

  (* an id outside the catalog is rejected by the stylesheet generator as long as at least one of the
     18 colours is not overridden, because the zero theme's empty colour does not parse *)
  Lemma unknown_rejected_unless_all_overridden h id ov c :
    find_theme light_catalog dark_catalog id = None ->
    lum "" = None ->
    expected_color zero_palette ov c = "" ->
    single_theme_rulesets lum h id ov = None.
  Proof.
    intros Hf Hl Hc. unfold single_theme_rulesets, sheet_theme. rewrite Hf.
    rewrite (sketch_text_none h _ sketch_codes c); [reflexivity|apply all_in_sketch|].
    rewrite apply_overrides_get. simpl t_colors. now rewrite Hc.
  Qed.

  Lemma unknown_rejected_fixed h id ov :
    find_theme light_catalog dark_catalog id = None -> single_theme_rulesets_fixed lum h id ov = None.
  Proof. unfold single_theme_rulesets_fixed. now intros ->. Qed.
End TextProofs.

Lemma find_theme_none id :
  ~ In id (map t_id catalog) -> find_theme light_catalog dark_catalog id = None.
Proof.
  intro H. unfold find_theme.
  destruct (find_in id light_catalog) eqn:E.
  - apply find_in_In in E as [I <-]. exfalso. apply H. unfold catalog. rewrite map_app.
    apply in_or_app. left. now apply in_map.
  - destruct (find_in id dark_catalog) eqn:E2; [|reflexivity].
    apply find_in_In in E2 as [I <-]. exfalso. apply H. unfold catalog. rewrite map_app.
    apply in_or_app. right. now apply in_map.
Qed.

(* the full statement fails: with all 18 colours overridden nothing is left to fail on *)
Definition all_red : overrides := mk_overrides (fun _ => Some "red").
Definition lum_any (s : string) : option string := if String.eqb s "" then None else Some "dark".

Lemma unknown_accepted_when_all_overridden :
  find_theme light_catalog dark_catalog 999 = None /\ lum_any "" = None /\
  single_theme_rulesets lum_any "h" 999 (Some all_red) <> None /\
  single_theme_rulesets_fixed lum_any "h" 999 (Some all_red) = None.
Proof.
  split; [vm_compute; reflexivity|]. split; [reflexivity|].
  split; [intro H; vm_compute in H; discriminate H | vm_compute; reflexivity].
Qed.

(* ---------- inline colours ---------- *)

Lemma inline_dark_none tid d ov : inline_palette tid (Some d) ov = None.
Proof. reflexivity. Qed.

Lemma color_attr_themed p prop c :
  color_attr (Some p) prop (code_name c)
  = (" " ++ prop ++ "=""" ++ pget p c ++ """", " " ++ prop ++ "-" ++ code_name c).
Proof. unfold color_attr. now rewrite is_theme_color_name, resolve_code. Qed.

Lemma color_attr_themed_dark prop c :
  color_attr None prop (code_name c) = ("", " " ++ prop ++ "-" ++ code_name c).
Proof. unfold color_attr. now rewrite is_theme_color_name. Qed.

(* the inline colour and the stylesheet colour of a themed class are the same colour *)
Lemma inline_agrees_with_sheet t ov prop c :
  In t catalog -> In prop css_props ->
  exists p, inline_palette (t_id t) None ov = Some p /\
    resolve p (code_name c) = expected_color (t_colors t) ov c /\
    css_value (light_rules (Some (t_id t)) ov) prop c = Some (resolve p (code_name c)).
Proof.
  intros Ht Hp. unfold inline_palette, light_rules. rewrite (sheet_theme_catalog t Ht).
  eexists. split; [reflexivity|]. rewrite resolve_code, apply_overrides_get. split; [reflexivity|].
  now apply stylesheet_resolves.
Qed.
