(* Executable checker for C31 cases.

   CCss     one call of the real d2svg.ThemeCSS.  [lumt] = what color.LuminanceCategory returned for every
            colour the harness saw (None = error); [impl] = the stylesheet text (None = error);
            [lp]/[dp] = the colour rules the harness parsed out of the light part / the dark @media block:
            (property in the selector, code in the selector, declared property, value).
   CElem    one d2themes.ThemableElement rendered with the four colour fields set.
   CRender  one d2svg.Render of a laid-out diagram: the embedded stylesheet's rules and, for every element
            carrying a class  <property>-<CODE>, the inline attribute of that property (None = absent).
   CUnknown an id outside the catalog through the entry points that validate ids.

   codes:  1  model differs from the implementation (stylesheet text byte for byte, parsed rules, element text)
           2  oracle hypothesis false (LuminanceCategory "" is not an error / category outside the four /
              a gradient reached a CElem case)
           3  theme id of the case expected in the regenerated catalog but absent
           10 a light-sheet rule does not give its class the theme's colour / the override
           11 same for the dark @media block (dark theme, dark overrides)
           12 ThemableElement: themed colour without its class or with a wrong / missing / unexpected inline value
           13 rendered SVG: inline colour of a themed class wrong, missing (no dark theme) or present (dark theme);
              XHTML <div> elements (markdown in foreignObject) are stylesheet-only: an inline attribute there is flagged
           15 a themed class in the drawing has no rule in the stylesheet
           16 an id outside the catalog was not rejected *)
From Coq Require Import String Ascii List NArith ZArith Bool.
Import ListNotations.
Require Import V.Lib.RunCases.
Require Export V.C28.Theme V.Gen.C28Themes V.C31.Model.
Open Scope string_scope.

(* a parsed colour rule: (index of the selector's property in css_props, code name in the selector,
   index of the declared property, index of the value in the block's value table) *)
Definition parsed := (N * string * N * N)%type.
Definition pblock := (list string * list parsed)%type.

(* The stylesheet text (4-9 kB) is compared through two independent polynomial digests and its length:
   Coq string literals of that size are too slow to read for every case. *)
Fixpoint poly_hash (b acc : N) (s : string) : N :=
  match s with
  | EmptyString => acc
  | String c r => poly_hash b (N.land (acc * b + N_of_ascii c) 4294967295)%N r
  end.
(* Adler-style position-sensitive sums, no modulus *)
Fixpoint sum_hash (a b : N) (s : string) : N :=
  match s with
  | EmptyString => (b * 65536 + a)%N
  | String c r => let a' := (a + N_of_ascii c)%N in sum_hash a' (b + a')%N r
  end.
Definition text_digest (s : string) : N * N * N :=
  (poly_hash 257 0 s, sum_hash 1 0 s, N.of_nat (String.length s)).
Definition digest_eqb (a b : N * N * N) : bool :=
  let '(a1, a2, a3) := a in let '(b1, b2, b3) := b in N.eqb a1 b1 && N.eqb a2 b2 && N.eqb a3 b3.

Fixpoint lum_of (t : list (string * option string)) (s : string) : option string :=
  match t with
  | [] => None
  | (k, v) :: r => if String.eqb s k then v else lum_of r s
  end.

Definition lum_range_ok (t : list (string * option string)) : bool :=
  forallb (fun kv => match snd kv with
                     | Some lc => match blend_mode lc with Some _ => true | None => false end
                     | None => true end) t.

(* parsed text rules -> structured rules; None when a selector's property differs from the declared one
   or the code is not one of the 18 *)
Fixpoint rules_of_list (vt : list string) (l : list parsed) : option (list rule) :=
  match l with
  | [] => Some []
  | (sp, cn, dp, vi) :: r =>
      match code_of_name cn, nth_error css_props (N.to_nat sp), nth_error vt (N.to_nat vi), rules_of_list vt r with
      | Some c, Some prop, Some v, Some rs => if N.eqb sp dp then Some ((prop, c, v) :: rs) else None
      | _, _, _, _ => None
      end
  end.
Definition rules_of_parsed (b : pblock) : option (list rule) := rules_of_list (fst b) (snd b).

Definition rule_eqb (a b : rule) : bool :=
  let '(p1, c1, v1) := a in let '(p2, c2, v2) := b in
  String.eqb p1 p2 && code_eqb c1 c2 && String.eqb v1 v2.

(* THE property predicate for one block of the stylesheet: every class property-CODE is set, by the rule
   the cascade selects, to the override if there is one and to the theme's colour otherwise *)
Definition sheet_resolves (rs : list rule) (p : palette) (ov : option overrides) : bool :=
  forallb (fun prop =>
    forallb (fun c => opt_eqb String.eqb (css_value rs prop c) (Some (expected_color p ov c))) all_codes)
    css_props.

Definition block_ok (pl : pblock) (id : Z) (ov : option overrides) : bool :=
  match rules_of_parsed pl, find_theme light_catalog dark_catalog id with
  | Some rs, Some t => sheet_resolves rs (t_colors t) ov
  | _, _ => false
  end.

(* elements of the XHTML namespace inside foreignObject (markdown, tooltips): SVG presentation attributes
   do not exist there, their themed colours come from the stylesheet class only *)
Definition html_tag (tag : string) : bool := String.eqb tag "div".

Definition known (id : Z) : bool :=
  match find_theme light_catalog dark_catalog id with Some _ => true | None => false end.

Definition tid_of (tid : option Z) : Z := match tid with Some i => i | None => default_theme_id end.

Definition check_sheets (tid : option Z) (dark : option Z) (ov dov : option overrides)
                        (lp dp : pblock) : list N :=
  (* correspondence of the parsed rules with the model's structured rules *)
  flag (match rules_of_parsed lp with
        | Some rs => list_eqb rule_eqb rs (light_rules tid ov) | None => false end) 1
  ++ match dark with
     | Some did => flag (match rules_of_parsed dp with
                         | Some rs => list_eqb rule_eqb rs (dark_rules did dov) | None => false end) 1
     | None => flag (match snd dp with [] => true | _ => false end) 1
     end
  (* the property, on the implementation's own rules *)
  ++ (if known (tid_of tid) then flag (block_ok lp (tid_of tid) ov) 10 else [16%N])
  ++ match dark with
     | Some did => if known did then flag (block_ok dp did dov) 11 else [16%N]
     | None => []
     end.

Definition elem_prop_ok (exp : option (code -> string)) (classes : list string) (attrs : list (string * string))
                        (prop v : string) : bool :=
  match code_of_name v with
  | Some c =>
      existsb (String.eqb (prop ++ "-" ++ v)) classes
      && opt_eqb String.eqb
           (match filter (fun kv => String.eqb (fst kv) prop) attrs with kv :: _ => Some (snd kv) | [] => None end)
           (match exp with Some f => Some (f c) | None => None end)
  | None => true
  end.

Inductive case :=
| CCss (h : string) (tid dark : option Z) (ov dov : option overrides)
       (lumt : list (string * option string)) (impl : option (N * N * N)) (lp dp : pblock)
| CElem (inline : option (Z * option overrides)) (tag cls stroke fill bg col : string) (no_gradient : bool)
        (impl : string) (classes : list string) (attrs : list (string * string))
| CRender (tid : Z) (dark : option Z) (ov dov : option overrides) (lp dp : pblock)
          (uses : list (string * string * string * option string))   (* tag, property, code, inline attribute *)
| CUnknown (id : Z) (apply_theme_rejects config_rejects lib_rejects : bool).

Definition check_case (c : case) : list N :=
  match c with
  | CCss h tid dark ov dov lumt impl lp dp =>
      let lum := lum_of lumt in
      flag (match lum "" with None => true | Some _ => false end) 2
      ++ flag (lum_range_ok lumt) 2
      ++ flag (opt_eqb digest_eqb (option_map text_digest (theme_css lum h tid dark ov dov)) impl) 1
      ++ match impl with
         | Some _ => check_sheets tid dark ov dov lp dp
         | None => []
         end
  | CElem inline tag cls stroke fill bg col nograd impl classes attrs =>
      let ip := match inline with
                | Some (id, ov) => inline_palette id None ov
                | None => None end in
      let expected_ip := match inline with
                | Some (id, ov) =>
                    match find_theme light_catalog dark_catalog id with
                    | Some t => Some (expected_color (t_colors t) ov)
                    | None => None end
                | None => None end in
      flag nograd 2
      ++ flag (match inline with Some (id, _) => known id | None => true end) 3
      ++ flag (String.eqb (render_element ip tag cls stroke fill bg col) impl) 1
      ++ flag (elem_prop_ok expected_ip classes attrs "stroke" stroke
               && elem_prop_ok expected_ip classes attrs "fill" fill
               && elem_prop_ok expected_ip classes attrs "background-color" bg
               && elem_prop_ok expected_ip classes attrs "color" col) 12
  | CRender tid dark ov dov lp dp uses =>
      check_sheets (Some tid) dark ov dov lp dp
      ++ match find_theme light_catalog dark_catalog tid with
         | None => [3%N]
         | Some t =>
             flag (forallb (fun u =>
                     let '(tag, prop, cn, attr) := u in
                     match code_of_name cn with
                     | None => false
                     | Some c =>
                         if html_tag tag then match attr with None => true | Some _ => false end
                         else
                         match dark with
                         | None => opt_eqb String.eqb attr (Some (expected_color (t_colors t) ov c))
                         | Some _ => match attr with None => true | Some _ => false end
                         end
                     end) uses) 13
             ++ flag (match rules_of_parsed lp with
                      | Some rs => forallb (fun u => let '(_, prop, cn, _) := u in
                                     match code_of_name cn with
                                     | Some c => match css_value rs prop c with Some _ => true | None => false end
                                     | None => false end) uses
                      | None => false end) 15
         end
  | CUnknown id a b l =>
      flag (negb (known id)) 3 ++ flag (a && b && l) 16
      ++ flag (match apply_theme_id id with None => a | Some _ => negb a end) 1
  end.
