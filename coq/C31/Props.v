(* C31 — Themes and theme overrides are applied consistently.  Statements only.
   Model: V.C31.Model; catalog regenerated from the running code: V.Gen.C28Themes. *)
From Coq Require Import String List ZArith Bool.
Import ListNotations.
Require Import V.C28.Theme V.Gen.C28Themes V.C31.Model V.C31.Check V.C31.Proofs.
Open Scope string_scope.

(* ApplyOverrides: every code gets the override if there is one and keeps the theme's colour otherwise —
   any palette, any set of overrides *)
Theorem C31_apply_overrides : forall p o c, pget (apply_overrides p o) c = expected_color p o c.
Proof. exact apply_overrides_get. Qed.

(* The stylesheet: for every theme of the catalog (light or dark), every set of overrides, each of the
   four properties and each of the 18 codes, the rule the cascade selects for class property-CODE sets
   the override if there is one and the theme's colour otherwise. *)
Theorem C31_stylesheet_resolves_all_codes : forall t, In t catalog ->
  forall ov prop c, In prop css_props ->
    css_value (theme_rules (apply_overrides (t_colors t) ov)) prop c
    = Some (resolve (apply_overrides (t_colors t) ov) (code_name c))
    /\ resolve (apply_overrides (t_colors t) ov) (code_name c) = expected_color (t_colors t) ov c.
Proof.
  intros t _ ov prop c Hp. rewrite resolve_code, apply_overrides_get. split; [|reflexivity].
  now apply stylesheet_resolves.
Qed.

(* the same by theme id, as ThemeCSS looks themes up: light block and dark block *)
Theorem C31_light_block_by_id : forall t, In t catalog -> forall ov prop c, In prop css_props ->
  css_value (light_rules (Some (t_id t)) ov) prop c = Some (expected_color (t_colors t) ov c).
Proof.
  intros t Ht ov prop c Hp. unfold light_rules. rewrite (sheet_theme_catalog t Ht).
  now apply stylesheet_resolves.
Qed.

Theorem C31_dark_block_by_id : forall t, In t catalog -> forall dov prop c, In prop css_props ->
  css_value (dark_rules (t_id t) dov) prop c = Some (expected_color (t_colors t) dov c).
Proof.
  intros t Ht ov prop c Hp. unfold dark_rules. rewrite (sheet_theme_catalog t Ht).
  now apply stylesheet_resolves.
Qed.

(* the generated text begins with exactly the rendering of those rules, and ThemeCSS builds the light
   block from (theme, overrides) and the dark @media block from (dark theme, dark overrides) *)
Theorem C31_rulesets_text : forall lum h id ov txt,
  single_theme_rulesets lum h id ov = Some txt ->
  exists rest, txt = concat_str (map (rule_text h)
                        (theme_rules (apply_overrides (t_colors (sheet_theme id)) ov))) ++ rest.
Proof. exact rulesets_text_prefix. Qed.

Theorem C31_theme_css_blocks : forall lum h tid dark ov dov txt,
  theme_css lum h tid dark ov dov = Some txt ->
  exists l, str_impl lum h (match tid with Some i => i | None => default_theme_id end) ov = Some l /\
    match dark with
    | None => txt = l
    | Some did => exists d, str_impl lum h did dov = Some d /\
                    txt = l ++ "@media screen and (prefers-color-scheme:dark){" ++ d ++ "}"
    end.
Proof. exact theme_css_blocks. Qed.

(* Check.v's predicate on the implementation's parsed rules is this property *)
Theorem C31_checked_predicate_is_the_property : forall rs p ov,
  sheet_resolves rs p ov = true <->
  forall prop c, In prop css_props -> css_value rs prop c = Some (expected_color p ov c).
Proof. exact sheet_resolves_spec. Qed.

(* inline colours: none when a dark theme is requested; otherwise the element gets class property-CODE
   and the attribute property="colour", the same colour the light sheet gives that class *)
Theorem C31_inline_resolution_agrees : forall t ov prop c, In t catalog -> In prop css_props ->
  exists p, inline_palette (t_id t) None ov = Some p /\
    resolve p (code_name c) = expected_color (t_colors t) ov c /\
    css_value (light_rules (Some (t_id t)) ov) prop c = Some (resolve p (code_name c)).
Proof. exact inline_agrees_with_sheet. Qed.

Theorem C31_inline_attribute : forall p prop c,
  color_attr (Some p) prop (code_name c)
  = (" " ++ prop ++ "=""" ++ pget p c ++ """", " " ++ prop ++ "-" ++ code_name c)
  /\ color_attr None prop (code_name c) = ("", " " ++ prop ++ "-" ++ code_name c).
Proof. intros. split; [apply color_attr_themed | apply color_attr_themed_dark]. Qed.

Theorem C31_no_inline_with_dark_theme : forall tid d ov, inline_palette tid (Some d) ov = None.
Proof. exact inline_dark_none. Qed.

(* unknown ids: Find / Graph.ApplyTheme / the d2-config check reject every id outside the catalog *)
Theorem C31_unknown_theme_rejected : forall id,
  ~ In id (map t_id catalog) -> apply_theme_id id = None.
Proof. exact find_theme_none. Qed.

(* the stylesheet generator itself rejects them only as long as one colour is left un-overridden
   (hypothesis on the oracle: LuminanceCategory "" is an error; evaluated on every case, code 2) ... *)
Theorem C31_unknown_theme_rejected_by_stylesheet_partial : forall lum h id ov c,
  find_theme light_catalog dark_catalog id = None ->
  lum "" = None ->
  expected_color zero_palette ov c = "" ->
  single_theme_rulesets lum h id ov = None.
Proof. exact unknown_rejected_unless_all_overridden. Qed.

(* ... full statement (forall ov) refuted: id 999 with all 18 colours overridden yields a stylesheet, also
   as dark theme of ThemeCSS (defect C31-unknown-theme-id-accepted-with-full-overrides, fixed in d2 by b068ef37f;
   the model checked against the code is now single_theme_rulesets_fixed) *)
Theorem C31_unknown_theme_rejected_by_stylesheet_refuted :
  find_theme light_catalog dark_catalog 999 = None /\ lum_any "" = None /\
  single_theme_rulesets lum_any "h" 999 (Some all_red) <> None /\
  single_theme_rulesets_fixed lum_any "h" 999 (Some all_red) = None.
Proof. exact unknown_accepted_when_all_overridden. Qed.

(* with the repair of coq/C31/fix.patch the rejection is unconditional *)
Theorem C31_unknown_theme_rejected_by_stylesheet_after_fix : forall lum h id ov,
  find_theme light_catalog dark_catalog id = None -> single_theme_rulesets_fixed lum h id ov = None.
Proof. exact unknown_rejected_fixed. Qed.

Example C31_hyps_satisfiable :
  lum_any "" = None /\ find_theme light_catalog dark_catalog 999 = None
  /\ expected_color zero_palette (Some (mk_overrides (fun c => match c with N1 => None | _ => Some "red" end))) N1 = ""
  /\ (exists t, In t catalog) /\ In "fill" css_props.
Proof.
  split; [reflexivity|]. split; [vm_compute; reflexivity|]. split; [reflexivity|].
  split; [eexists; vm_compute; left; reflexivity | simpl; tauto].
Qed.

Print Assumptions C31_apply_overrides.
Print Assumptions C31_stylesheet_resolves_all_codes.
Print Assumptions C31_light_block_by_id.
Print Assumptions C31_dark_block_by_id.
Print Assumptions C31_rulesets_text.
Print Assumptions C31_theme_css_blocks.
Print Assumptions C31_checked_predicate_is_the_property.
Print Assumptions C31_inline_resolution_agrees.
Print Assumptions C31_inline_attribute.
Print Assumptions C31_no_inline_with_dark_theme.
Print Assumptions C31_unknown_theme_rejected.
Print Assumptions C31_unknown_theme_rejected_by_stylesheet_partial.
Print Assumptions C31_unknown_theme_rejected_by_stylesheet_refuted.
Print Assumptions C31_unknown_theme_rejected_by_stylesheet_after_fix.
