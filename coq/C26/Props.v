(* C26 — The layout-plugin wire format round-trips graphs exactly.  Statements only. *)
From Coq Require Import List NArith ZArith Bool.
Import ListNotations.
Require Import V.C26.Model V.C26.Proofs V.C26.Roundtrip V.C26.Decide V.C26.Compare.

(* SerializeGraph never fails on a well-formed graph: every Object.AbsID() recursion terminates and
   dereferences no nil Parent (the JSON encoder itself is outside the model). *)
Theorem C26_serialize_total :
  forall (P E : Type) (g : graph P E), WF g -> exists sg, serialize g = Some sg.
Proof. exact serialize_total_thm. Qed.

(* For ALL graphs: if g is well formed, its AbsIDs are pairwise distinct and encoding/json returns
   every payload and string of g (oracle jS jP jE, hypothesis H_json_roundtrip), then
   DeserializeGraph(SerializeGraph(g)) does not crash and rebuilds g itself — same objects in the
   same order, same Parent / ChildrenArray pointers, same edge endpoints, arrows and indexes. *)
Theorem C26_deserialize_serialize_exact :
  forall (P E : Type) (jS : str -> str) (jP : P -> P) (jE : E -> E) (g : graph P E),
    WF g -> absids_distinct g -> json_ok jS jP jE g ->
    exists sg, serialize g = Some sg /\ deserialize jS jP jE sg = Some g.
Proof. exact deserialize_serialize_exact_thm. Qed.

(* the same in terms of the pointer-free view the property talks about (AbsID-labelled hierarchy and
   order, connections, payloads) *)
Theorem C26_deserialize_serialize_structure :
  forall (P E : Type) (jS : str -> str) (jP : P -> P) (jE : E -> E) (g : graph P E),
    WF g -> absids_distinct g -> json_ok jS jP jE g ->
    option_map structure (roundtrip jS jP jE g) = Some (structure g).
Proof. exact deserialize_serialize_structure_thm. Qed.

(* The AbsID hypothesis is necessary: idToObj is keyed by AbsID strings, so two objects with the same
   AbsID are merged on the way back (well-formed graph, perfect JSON). *)
Theorem C26_deserialize_serialize_structure_refuted_without_distinct_absids :
  exists g : graph unit unit,
    WF g /\ json_ok idS idU idU g /\
    option_map structure (roundtrip idS idU idU g) <> Some (structure g).
Proof. exact refuted_without_distinct_thm. Qed.

(* WF's clause "edge endpoints are objects of the graph" is necessary too, and the real pipeline
   violates it: d2sequence ends lifeline edges in objects that are not in g.Objects; their Dst comes
   back nil (genuine defect C26-lifeline-end-dropped, see findings.json). *)
Theorem C26_roundtrip_refuted_for_external_endpoint :
  exists g : graph unit unit,
    WF (without_edges g) /\ absids_distinct g /\ json_ok idS idU idU g /\
    roundtrip idS idU idU g <> None /\
    option_map structure (roundtrip idS idU idU g) <> Some (structure g).
Proof. exact refuted_for_external_endpoint_thm. Qed.

(* Check.v evaluates exactly these hypotheses and this conclusion *)
Theorem C26_wfb_spec : forall (P E : Type) (g : graph P E), wfb g = true <-> WF g.
Proof. exact wfb_spec. Qed.

Theorem C26_distinctb_spec : forall (P E : Type) (g : graph P E), distinctb g = true <-> absids_distinct g.
Proof. exact distinctb_spec. Qed.

Theorem C26_same_structure_b_spec : forall g i : G, same_structure_b g i = true <-> structure i = structure g.
Proof. exact same_structure_b_spec. Qed.

(* non-vacuity: the graph of `a.b -> c` satisfies all three hypotheses *)
Example C26_hyps_satisfiable :
  WF ok_witness /\ absids_distinct ok_witness /\ json_ok idS idU idU ok_witness.
Proof. exact ok_witness_hyps. Qed.

Print Assumptions C26_serialize_total.
Print Assumptions C26_deserialize_serialize_exact.
Print Assumptions C26_deserialize_serialize_structure.
Print Assumptions C26_deserialize_serialize_structure_refuted_without_distinct_absids.
Print Assumptions C26_roundtrip_refuted_for_external_endpoint.
Print Assumptions C26_wfb_spec.
Print Assumptions C26_distinctb_spec.
Print Assumptions C26_same_structure_b_spec.
