(* C26 — the model lives in Serde.v (structural part of d2graph/serde.go); this file re-exports it
   under the name the framework expects. *)
Require Export V.C26.Serde.
