(* C26 — structural model of d2graph/serde.go: SerializeGraph / DeserializeGraph.

   A Go graph is a small heap of objects linked by pointers.  A pointer is modelled by a [ref]:
   the root object, or the object at position i of g.Objects.  Everything that crosses the wire
   as plain JSON (the attribute payload: label, style, shape, box, references …) is opaque here:
   it is the type parameter [P] (objects) / [E] (edges) and travels through the oracle functions
   [jP], [jE] (what four passes of encoding/json — Convert, Marshal, Unmarshal, Convert — make of a
   payload) and [jS] (what they make of a string: IDs, AbsIDs).

   What IS modelled, statement by statement, is the part of serde.go that is not plain JSON:
   - toSerializedObject: so["AbsID"] = o.AbsID(); so["ChildrenArray"] = AbsIDs of the children when
     there are any (Parent, Children, ChildrenArray, Graph are `json:"-"`);
   - ToSerializedEdge: se["Src"], se["Dst"] = AbsIDs of the endpoints when not nil;
   - Object.AbsID(): Parent.AbsID() + "." + ID when there is a parent whose ID is not "";
   - DeserializeGraph: idToObj (a Go map keyed by the AbsID *strings* read from the wire, "" bound
     to the root first, later objects overwrite earlier ones), the loop over Objects ++ [Root] that
     sets Parent of every listed child and Children/ChildrenArray of idToObj[so.AbsID] (a nil map
     entry is dereferenced there: a panic, [None] here), and the edge loop (a missing entry leaves
     Src/Dst nil).                                                                              *)
From Coq Require Import List NArith ZArith Bool Arith Lia.
Import ListNotations.
Require Import V.Lib.RunCases.

Definition str := list N.                      (* a Go string: its bytes *)
Definition str_eqb : str -> str -> bool := list_eqb N.eqb.

(* a *d2graph.Object: the root, g.Objects[i], or an object that is neither (no Parent, not listed
   anywhere: all the wire can say about it is its ID — d2sequence's lifeline ends are such objects) *)
Inductive ref := RRoot | RObj (i : nat) | RExt (id : str).

Definition ref_eqb (a b : ref) : bool :=
  match a, b with
  | RRoot, RRoot => true
  | RObj i, RObj j => Nat.eqb i j
  | RExt a, RExt b => str_eqb a b
  | _, _ => false
  end.

Fixpoint mapM {A B} (f : A -> option B) (l : list A) : option (list B) :=
  match l with
  | [] => Some []
  | x :: xs => match f x, mapM f xs with
               | Some y, Some ys => Some (y :: ys)
               | _, _ => None
               end
  end.

Fixpoint mapi_from {A B} (f : nat -> A -> B) (i : nat) (l : list A) : list B :=
  match l with
  | [] => []
  | x :: xs => f i x :: mapi_from f (S i) xs
  end.
Definition mapi {A B} (f : nat -> A -> B) := mapi_from f 0.

Definition dot : N := 46%N.

Section Serde.
  Variables P E : Type.

  (* ---------------------------------------------------------------- the Go side *)
  Record object := mkObj { o_id : str; o_parent : option ref; o_children : list ref; o_pay : P }.
  Record edge := mkEdge { e_src : option ref; e_dst : option ref;
                          e_srcarrow : bool; e_dstarrow : bool; e_index : N; e_pay : E }.
  Record graph := mkGraph { g_root : object; g_objs : list object; g_edges : list edge; g_level : Z }.

  Definition deref (g : graph) (r : ref) : option object :=
    match r with RRoot => Some (g_root g) | RObj i => nth_error (g_objs g) i | RExt _ => None end.

  Definition obj_refs (g : graph) : list ref := map RObj (seq 0 (length (g_objs g))).
  Definition all_refs (g : graph) : list ref := RRoot :: obj_refs g.

  (* Object.AbsID() is plain recursion over Parent in Go; a cyclic Parent chain overflows the stack
     and a dangling Parent is dereferenced: both are [None].  [fuel_of g] steps always suffice on a
     graph whose parent chains are acyclic (theorem absid_total). *)
  Definition fuel_of (g : graph) : nat := 2 + length (g_objs g).

  Fixpoint absid_fuel (g : graph) (fuel : nat) (r : ref) : option str :=
    match fuel with
    | O => None
    | S f =>
      match deref g r with
      | None => None
      | Some o =>
        match o_parent o with
        | None => Some (o_id o)
        | Some p =>
          match deref g p with
          | None => None
          | Some po =>
            match o_id po with
            | [] => Some (o_id o)
            | _ :: _ => option_map (fun s => s ++ dot :: o_id o) (absid_fuel g f p)
            end
          end
        end
      end
    end.
  Definition absid (g : graph) (r : ref) : option str :=
    match r with
    | RExt id => Some id                      (* no Parent: AbsID() is the ID *)
    | _ => absid_fuel g (fuel_of g) r
    end.

  (* ---------------------------------------------------------------- the wire *)
  (* SerializedObject / SerializedEdge are map[string]interface{}: the JSON of the struct plus the
     keys added by hand.  [so_children = []] is "key absent" (the key is only written when
     len(ChildrenArray) > 0). *)
  Record sobj := mkSO { so_absid : str; so_children : list str; so_id : str; so_pay : P }.
  Record sedge := mkSE { se_src : option str; se_dst : option str;
                         se_srcarrow : bool; se_dstarrow : bool; se_index : N; se_pay : E }.
  Record sgraph := mkSG { sg_root : sobj; sg_objs : list sobj; sg_edges : list sedge; sg_level : Z }.

  (* toSerializedObject(o) where [r] is the pointer o *)
  Definition ser_obj (g : graph) (r : ref) (o : object) : option sobj :=
    match absid g r, mapM (absid g) (o_children o) with
    | Some a, Some cs => Some (mkSO a cs (o_id o) (o_pay o))
    | _, _ => None
    end.

  Definition ser_end (g : graph) (x : option ref) : option (option str) :=
    match x with
    | None => Some None
    | Some r => match absid g r with Some a => Some (Some a) | None => None end
    end.

  Definition ser_edge (g : graph) (e : edge) : option sedge :=
    match ser_end g (e_src e), ser_end g (e_dst e) with
    | Some s, Some d => Some (mkSE s d (e_srcarrow e) (e_dstarrow e) (e_index e) (e_pay e))
    | _, _ => None
    end.

  Fixpoint mapMi_from {A B} (f : nat -> A -> option B) (i : nat) (l : list A) : option (list B) :=
    match l with
    | [] => Some []
    | x :: xs => match f i x, mapMi_from f (S i) xs with
                 | Some y, Some ys => Some (y :: ys)
                 | _, _ => None
                 end
    end.

  Definition serialize (g : graph) : option sgraph :=
    match ser_obj g RRoot (g_root g),
          mapMi_from (fun i o => ser_obj g (RObj i) o) 0 (g_objs g),
          mapM (ser_edge g) (g_edges g) with
    | Some r, Some os, Some es => Some (mkSG r os es (g_level g))
    | _, _, _ => None
    end.

  (* ---------------------------------------------------------------- reading it back *)
  Variable jS : str -> str.
  Variable jP : P -> P.
  Variable jE : E -> E.

  Definition idmap := list (str * ref).

  Fixpoint lookup (m : idmap) (k : str) : option ref :=
    match m with
    | [] => None
    | (k', r) :: m' => if str_eqb k' k then Some r else lookup m' k
    end.

  (* idToObj[""] = g.Root; for i, so := range sg.Objects { idToObj[so["AbsID"]] = &o_i }.
     The list is kept newest-first so that [lookup] sees the last write. *)
  Definition build_idmap (sos : list sobj) : idmap :=
    rev (([], RRoot) :: mapi (fun i so => (jS (so_absid so), RObj i)) sos).

  (* one iteration of `for _, so := range append(sg.Objects, sg.Root)`: nothing when the key
     ChildrenArray is absent, otherwise (idToObj[so.AbsID], resolved children).  A child id or the
     AbsID itself missing from idToObj is a nil dereference in Go. *)
  Definition link_of (m : idmap) (so : sobj) : option (option (ref * list ref)) :=
    match so_children so with
    | [] => Some None
    | cs => match mapM (fun c => lookup m (jS c)) cs, lookup m (jS (so_absid so)) with
            | Some rs, Some self => Some (Some (self, rs))
            | _, _ => None
            end
    end.

  Fixpoint somes {A} (l : list (option A)) : list A :=
    match l with
    | [] => []
    | Some x :: xs => x :: somes xs
    | None :: xs => somes xs
    end.

  Definition links (m : idmap) (sos : list sobj) : option (list (ref * list ref)) :=
    option_map somes (mapM (link_of m) sos).

  (* the field writes `o.Parent = self` / `self.ChildrenArray = childrenArray` happen in loop order:
     the LAST write to a field is what remains *)
  Definition parent_of (ls : list (ref * list ref)) (x : ref) : option ref :=
    match find (fun l => existsb (ref_eqb x) (snd l)) (rev ls) with
    | Some l => Some (fst l)
    | None => None
    end.

  Definition children_of (ls : list (ref * list ref)) (x : ref) : list ref :=
    match find (fun l => ref_eqb (fst l) x) (rev ls) with
    | Some l => snd l
    | None => []
    end.

  Definition de_obj (ls : list (ref * list ref)) (r : ref) (so : sobj) : object :=
    mkObj (jS (so_id so)) (parent_of ls r) (children_of ls r) (jP (so_pay so)).

  Definition de_end (m : idmap) (x : option str) : option ref :=
    match x with None => None | Some s => lookup m (jS s) end.

  Definition de_edge (m : idmap) (se : sedge) : edge :=
    mkEdge (de_end m (se_src se)) (de_end m (se_dst se))
           (se_srcarrow se) (se_dstarrow se) (se_index se) (jE (se_pay se)).

  Definition deserialize (sg : sgraph) : option graph :=
    let m := build_idmap (sg_objs sg) in
    match links m (sg_objs sg ++ [sg_root sg]) with
    | None => None
    | Some ls =>
      Some (mkGraph (de_obj ls RRoot (sg_root sg))
                    (mapi (fun i so => de_obj ls (RObj i) so) (sg_objs sg))
                    (map (de_edge m) (sg_edges sg))
                    (sg_level sg))
    end.

  Definition roundtrip (g : graph) : option graph :=
    match serialize g with Some sg => deserialize sg | None => None end.

  (* ---------------------------------------------------------------- what the property compares *)
  (* The pointer-free view of a graph: every pointer replaced by the AbsID of its target, in the
     order of g.Objects / ChildrenArray / g.Edges. *)
  Record oview := mkOV { v_absid : option str; v_id : str; v_parent : option (option str);
                         v_children : list (option str); v_pay : P }.
  Record eview := mkEV { w_src : option (option str); w_dst : option (option str);
                         w_srcarrow : bool; w_dstarrow : bool; w_index : N; w_pay : E }.

  Definition view_obj (g : graph) (r : ref) (o : object) : oview :=
    mkOV (absid g r) (o_id o) (option_map (absid g) (o_parent o)) (map (absid g) (o_children o)) (o_pay o).
  Definition view_edge (g : graph) (e : edge) : eview :=
    mkEV (option_map (absid g) (e_src e)) (option_map (absid g) (e_dst e))
         (e_srcarrow e) (e_dstarrow e) (e_index e) (e_pay e).

  Definition structure (g : graph) : oview * list oview * list eview * Z :=
    (view_obj g RRoot (g_root g), mapi (fun i o => view_obj g (RObj i) o) (g_objs g),
     map (view_edge g) (g_edges g), g_level g).

  (* ---------------------------------------------------------------- hypotheses of the theorem *)
  Definition valid (g : graph) (r : ref) : Prop := deref g r <> None.

  Fixpoint reaches_top (g : graph) (fuel : nat) (r : ref) : bool :=
    match fuel with
    | O => false
    | S f => match deref g r with
             | None => false
             | Some o => match o_parent o with None => true | Some p => reaches_top g f p end
             end
    end.

  Record WF (g : graph) : Prop := mkWF {
    wf_root_id : o_id (g_root g) = [];                         (* NewGraph(): Root.ID == "" *)
    wf_root_parent : o_parent (g_root g) = None;
    wf_children_valid : forall r o c, deref g r = Some o -> In c (o_children o) -> valid g c;
    wf_ends_valid : forall e x, In e (g_edges g) -> e_src e = Some x \/ e_dst e = Some x -> valid g x;
    (* Parent and ChildrenArray describe the same tree *)
    wf_parent_child : forall x p ox, deref g x = Some ox ->
        (o_parent ox = Some p <-> exists op, deref g p = Some op /\ In x (o_children op));
    (* Parent chains are acyclic: they reach a parentless object within |Objects|+1 steps *)
    wf_acyclic : forall r, valid g r -> reaches_top g (fuel_of g) r = true
  }.

  (* the crux: the AbsIDs of root and objects are pairwise different strings *)
  Definition absids_distinct (g : graph) : Prop :=
    exists l, mapM (absid g) (all_refs g) = Some l /\ NoDup l.

  (* H_json_roundtrip: encoding/json gives back every payload and every string of this graph *)
  Record json_ok (g : graph) : Prop := mkJOK {
    jok_pay : forall r o, deref g r = Some o -> jP (o_pay o) = o_pay o;
    jok_id : forall r o, deref g r = Some o -> jS (o_id o) = o_id o;
    jok_absid : forall r a, absid g r = Some a -> jS a = a;
    jok_edge : forall e, In e (g_edges g) -> jE (e_pay e) = e_pay e
  }.

End Serde.

Arguments mkObj {P}.
Arguments mkEdge {E}.
Arguments mkGraph {P E}.
Arguments o_id {P}. Arguments o_parent {P}. Arguments o_children {P}. Arguments o_pay {P}.
Arguments e_src {E}. Arguments e_dst {E}. Arguments e_srcarrow {E}. Arguments e_dstarrow {E}.
Arguments e_index {E}. Arguments e_pay {E}.
Arguments g_root {P E}. Arguments g_objs {P E}. Arguments g_edges {P E}. Arguments g_level {P E}.
Arguments mkSO {P}. Arguments mkSE {E}. Arguments mkSG {P E}.
Arguments so_absid {P}. Arguments so_children {P}. Arguments so_id {P}. Arguments so_pay {P}.
Arguments se_src {E}. Arguments se_dst {E}. Arguments se_srcarrow {E}. Arguments se_dstarrow {E}.
Arguments se_index {E}. Arguments se_pay {E}.
Arguments sg_root {P E}. Arguments sg_objs {P E}. Arguments sg_edges {P E}. Arguments sg_level {P E}.
Arguments deref {P E}. Arguments obj_refs {P E}. Arguments all_refs {P E}. Arguments fuel_of {P E}.
Arguments absid_fuel {P E}. Arguments absid {P E}.
Arguments ser_obj {P E}. Arguments ser_end {P E}. Arguments ser_edge {P E}. Arguments serialize {P E}.
Arguments build_idmap {P}. Arguments link_of {P}. Arguments links {P}.
Arguments de_obj {P}. Arguments de_edge {E}. Arguments deserialize {P E}. Arguments roundtrip {P E}.
Arguments mkOV {P}. Arguments mkEV {E}.
Arguments v_absid {P}. Arguments v_id {P}. Arguments v_parent {P}. Arguments v_children {P}. Arguments v_pay {P}.
Arguments w_src {E}. Arguments w_dst {E}. Arguments w_srcarrow {E}. Arguments w_dstarrow {E}.
Arguments w_index {E}. Arguments w_pay {E}.
Arguments view_obj {P E}. Arguments view_edge {P E}. Arguments structure {P E}.
Arguments valid {P E}. Arguments reaches_top {P E}. Arguments WF {P E}. Arguments absids_distinct {P E}.
Arguments json_ok {P E}.
Arguments wf_root_id {P E g}. Arguments wf_root_parent {P E g}. Arguments wf_children_valid {P E g}.
Arguments wf_ends_valid {P E g}. Arguments wf_parent_child {P E g}. Arguments wf_acyclic {P E g}.
Arguments jok_pay {P E jS jP jE g}. Arguments jok_id {P E jS jP jE g}.
Arguments jok_absid {P E jS jP jE g}. Arguments jok_edge {P E jS jP jE g}.
