(* C26 — executable versions of the theorem's hypotheses (used by Check.v on every case) and their
   equivalence with the Prop statements. *)
From Coq Require Import List NArith ZArith Bool Arith Lia.
Import ListNotations.
Require Import V.Lib.RunCases V.C26.Serde V.C26.Proofs V.C26.Roundtrip.

Definition nilb {A} (l : list A) : bool := match l with [] => true | _ => false end.
Definition noneb {A} (o : option A) : bool := match o with None => true | Some _ => false end.
Definition opt_forall {A} (p : A -> bool) (o : option A) : bool := match o with None => true | Some x => p x end.
Definition oref_eqb (a b : option ref) : bool :=
  match a, b with None, None => true | Some x, Some y => ref_eqb x y | _, _ => false end.

Lemma oref_eqb_eq a b : oref_eqb a b = true <-> a = b.
Proof.
  destruct a, b; simpl; split; intro H; try discriminate; auto.
  - apply ref_eqb_eq in H. congruence.
  - inversion H. apply ref_eqb_eq. reflexivity.
Qed.

Fixpoint nodupb (l : list str) : bool :=
  match l with [] => true | x :: xs => negb (existsb (str_eqb x) xs) && nodupb xs end.

Lemma existsb_str x l : existsb (str_eqb x) l = true <-> In x l.
Proof.
  rewrite existsb_exists. split.
  - intros [y [Hy Ey]]. apply str_eqb_eq in Ey. subst. exact Hy.
  - intro H. exists x. split; auto. apply str_eqb_eq. reflexivity.
Qed.

Lemma nodupb_spec l : nodupb l = true <-> NoDup l.
Proof.
  induction l as [|x xs IH]; simpl.
  - split; [constructor | reflexivity].
  - rewrite andb_true_iff, negb_true_iff, IH. split.
    + intros [H1 H2]. constructor; auto. intro Hin. apply existsb_str in Hin. congruence.
    + intro H. inversion H; subst. split; auto.
      destruct (existsb (str_eqb x) xs) eqn:Ex; auto. apply existsb_str in Ex. contradiction.
Qed.

Section Decide.
  Variables P E : Type.
  Notation graph := (graph P E).

  Definition validb (g : graph) (r : ref) : bool := match deref g r with Some _ => true | None => false end.

  Lemma validb_spec g r : validb g r = true <-> valid g r.
  Proof. unfold validb, valid. destruct (deref g r); split; intro H; try discriminate; congruence. Qed.

  Definition distinctb (g : graph) : bool :=
    match mapM (absid g) (all_refs g) with Some l => nodupb l | None => false end.

  Lemma distinctb_spec g : distinctb g = true <-> absids_distinct g.
  Proof.
    unfold distinctb, absids_distinct. destruct (mapM (absid g) (all_refs g)) as [l|]; split.
    - intro H. exists l. split; auto. apply nodupb_spec. exact H.
    - intros [l' [Hl ND]]. inversion Hl; subst. apply nodupb_spec. exact ND.
    - discriminate.
    - intros [l' [Hl _]]. discriminate.
  Qed.

  Definition wfb (g : graph) : bool :=
    let ps := pairs P E g in
    nilb (o_id (g_root g))
    && noneb (o_parent (g_root g))
    && forallb (fun p => forallb (validb g) (o_children (snd p))) ps
    && forallb (fun e => opt_forall (validb g) (e_src e) && opt_forall (validb g) (e_dst e)) (g_edges g)
    && forallb (fun x => opt_forall (validb g) (o_parent (snd x))) ps
    && forallb (fun x => forallb (fun p =>
          Bool.eqb (oref_eqb (o_parent (snd x)) (Some (fst p)))
                   (existsb (ref_eqb (fst x)) (o_children (snd p)))) ps) ps
    && forallb (fun r => reaches_top g (fuel_of g) r) (all_refs g).

  Lemma wfb_sound g : wfb g = true -> WF g.
  Proof.
    unfold wfb. intro H.
    apply andb_true_iff in H; destruct H as [H C].
    apply andb_true_iff in H; destruct H as [H C1].
    apply andb_true_iff in H; destruct H as [H C2].
    apply andb_true_iff in H; destruct H as [H C3].
    apply andb_true_iff in H; destruct H as [H C4].
    apply andb_true_iff in H; destruct H as [C6 C5].
    rewrite forallb_forall in C4, C3, C2, C1, C.
    constructor.
    - destruct (o_id (g_root g)); [reflexivity | discriminate].
    - destruct (o_parent (g_root g)); [discriminate | reflexivity].
    - intros r o c Dr Hc. apply validb_spec.
      specialize (C4 (r, o) (proj2 (in_pairs P E g r o) Dr)). rewrite forallb_forall in C4. apply C4. exact Hc.
    - intros e x He Hx. apply validb_spec. specialize (C3 e He). apply andb_true_iff in C3.
      destruct C3 as [Cs Cd]. destruct Hx as [Hx|Hx]; rewrite Hx in *; simpl in *; assumption.
    - intros x p ox Dx. pose proof (proj2 (in_pairs P E g x ox) Dx) as Hx. split.
      + intro Ep. specialize (C2 _ Hx). simpl in C2. rewrite Ep in C2. simpl in C2.
        apply validb_spec in C2. destruct (valid_deref P E g p C2) as [op Dp]. exists op. split; auto.
        specialize (C1 _ Hx). rewrite forallb_forall in C1.
        specialize (C1 _ (proj2 (in_pairs P E g p op) Dp)). simpl in C1. rewrite Ep in C1.
        rewrite (proj2 (oref_eqb_eq (Some p) (Some p)) eq_refl) in C1.
        apply eqb_prop in C1. apply existsb_ref. auto.
      + intros [op [Dp Hin]]. specialize (C1 _ Hx). rewrite forallb_forall in C1.
        specialize (C1 _ (proj2 (in_pairs P E g p op) Dp)). simpl in C1.
        rewrite (proj2 (existsb_ref x (o_children op)) Hin) in C1. apply eqb_prop in C1.
        apply oref_eqb_eq. exact C1.
    - intros r V. apply C. apply valid_all_refs. exact V.
  Qed.

  Lemma wfb_complete g : WF g -> wfb g = true.
  Proof.
    intro W. unfold wfb. rewrite !andb_true_iff. repeat split.
    - rewrite (wf_root_id W). reflexivity.
    - rewrite (wf_root_parent W). reflexivity.
    - apply forallb_forall. intros [r o] Hp. apply in_pairs in Hp. apply forallb_forall. intros c Hc.
      apply validb_spec. exact (wf_children_valid W r o c Hp Hc).
    - apply forallb_forall. intros e He. apply andb_true_iff. split.
      + destruct (e_src e) as [x|] eqn:Ex; simpl; auto. apply validb_spec. apply (wf_ends_valid W e x He). auto.
      + destruct (e_dst e) as [x|] eqn:Ex; simpl; auto. apply validb_spec. apply (wf_ends_valid W e x He). auto.
    - apply forallb_forall. intros [x ox] Hp. apply in_pairs in Hp. simpl.
      destruct (o_parent ox) as [p|] eqn:Ep; simpl; auto. apply validb_spec.
      destruct (proj1 (wf_parent_child W x p ox Hp) Ep) as [op [Dp _]]. unfold valid. congruence.
    - apply forallb_forall. intros [x ox] Hx. apply in_pairs in Hx.
      apply forallb_forall. intros [p op] Hp. apply in_pairs in Hp. simpl.
      apply eqb_true_iff. apply eq_true_iff_eq. rewrite oref_eqb_eq, existsb_ref.
      rewrite (wf_parent_child W x p ox Hx). split.
      + intros [op' [Dp' Hin]]. congruence.
      + intro Hin. exists op. auto.
    - apply forallb_forall. intros r Hr. apply (wf_acyclic W). apply valid_all_refs. exact Hr.
  Qed.

  Theorem wfb_spec g : wfb g = true <-> WF g.
  Proof. split; [apply wfb_sound | apply wfb_complete]. Qed.
End Decide.

Arguments validb {P E}. Arguments distinctb {P E}. Arguments wfb {P E}.

(* ------------------------------------------------------------------ the hypothesis on AbsIDs is necessary *)
(* Two siblings with the same ID "x", the first of which has a child "y":
     g.Objects = [x; x'; y]   root.ChildrenArray = [x; x']   x.ChildrenArray = [y]
   idToObj["x"] ends up bound to x', so y is attached to x' and x is listed twice under the root's
   replacement. *)
Definition idS : str -> str := fun s => s.
Definition idU : unit -> unit := fun u => u.

Definition dup_witness : graph unit unit :=
  mkGraph (mkObj [] None [RObj 0; RObj 1] tt)
          [ mkObj [120%N] (Some RRoot) [RObj 2] tt;
            mkObj [120%N] (Some RRoot) [] tt;
            mkObj [121%N] (Some (RObj 0)) [] tt ]
          [ mkEdge (Some (RObj 0)) (Some (RObj 2)) false true 0%N tt ] 0%Z.

Lemma dup_witness_wf : WF dup_witness.
Proof. apply wfb_sound. vm_compute. reflexivity. Qed.

Lemma dup_witness_json : json_ok idS idU idU dup_witness.
Proof. constructor; intros; reflexivity. Qed.

Lemma dup_witness_not_distinct : ~ absids_distinct dup_witness.
Proof. intro H. apply distinctb_spec in H. vm_compute in H. discriminate. Qed.

Lemma dup_witness_breaks :
  option_map structure (roundtrip idS idU idU dup_witness) <> Some (structure dup_witness).
Proof. vm_compute. intro H. discriminate H. Qed.

Theorem refuted_without_distinct_thm :
  exists g : graph unit unit,
    WF g /\ json_ok idS idU idU g /\
    option_map structure (roundtrip idS idU idU g) <> Some (structure g).
Proof. exists dup_witness. split; [apply dup_witness_wf | split; [apply dup_witness_json | apply dup_witness_breaks]]. Qed.

(* a well-formed graph with distinct AbsIDs exists (the hypotheses are satisfiable): a.b -> c *)
Definition ok_witness : graph unit unit :=
  mkGraph (mkObj [] None [RObj 0; RObj 2] tt)
          [ mkObj [97%N] (Some RRoot) [RObj 1] tt;
            mkObj [98%N] (Some (RObj 0)) [] tt;
            mkObj [99%N] (Some RRoot) [] tt ]
          [ mkEdge (Some (RObj 1)) (Some (RObj 2)) false true 0%N tt ] 0%Z.

Lemma ok_witness_hyps : WF ok_witness /\ absids_distinct ok_witness /\ json_ok idS idU idU ok_witness.
Proof.
  split; [|split].
  - apply wfb_sound. vm_compute. reflexivity.
  - apply distinctb_spec. vm_compute. reflexivity.
  - constructor; intros; reflexivity.
Qed.

(* ------------------------------------------------------------------ endpoints outside g.Objects are lost *)
(* d2sequence ends every lifeline edge in a fresh object that is not in g.Objects ("a-lifeline-end-<hash>").
   SerializeGraph writes its AbsID as Dst, idToObj has no entry for it, DeserializeGraph leaves Dst nil.
   The object part of the witness is well formed, AbsIDs are distinct, JSON is perfect: only WF's clause
   wf_ends_valid fails. *)
Definition without_edges {P E} (g : graph P E) : graph P E :=
  mkGraph (g_root g) (g_objs g) [] (g_level g).

Definition lifeline_witness : graph unit unit :=
  mkGraph (mkObj [] None [RObj 0] tt)
          [ mkObj [97%N] (Some RRoot) [] tt ]
          [ mkEdge (Some (RObj 0)) (Some (RExt [97%N; 45%N; 101%N])) false false 0%N tt ] 0%Z.

Theorem refuted_for_external_endpoint_thm :
  exists g : graph unit unit,
    WF (without_edges g) /\ absids_distinct g /\ json_ok idS idU idU g /\
    roundtrip idS idU idU g <> None /\
    option_map structure (roundtrip idS idU idU g) <> Some (structure g).
Proof.
  exists lifeline_witness. split; [|split; [|split; [|split]]].
  - apply wfb_sound. vm_compute. reflexivity.
  - apply distinctb_spec. vm_compute. reflexivity.
  - constructor; intros; reflexivity.
  - vm_compute. discriminate.
  - vm_compute. intro H. discriminate H.
Qed.
