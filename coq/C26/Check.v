(* Executable case checker for C26: evaluated by vm_compute on cases written by harness/c26.go.

   Failure codes
     1   correspondence: the model disagrees with the implementation on (a) Object.AbsID() of an object
         of g or of the deserialized graph, (b) the structural part of the bytes SerializeGraph wrote
         (AbsID / ChildrenArray / id of every object, Src / Dst / arrows / index of every edge,
         rootLevel), (c) the pointer structure DeserializeGraph built (Parent, ChildrenArray, Src, Dst
         as positions in Objects; crash vs no crash)
     2   H_json_roundtrip false: encoding/json (d2graph.Convert) changed a payload or an ID of this graph
     3   the graph handed to SerializeGraph is not well formed (hypothesis WF of the theorem)
     4   a graph produced by the compiler / the layout pipeline has two objects with the same AbsID
    10   object set differs (AbsIDs of g.Objects as a set, or their number)
    11   object order differs (AbsIDs of g.Objects in order)
    12   Parent of some object differs
    13   ChildrenArray (order included) of some object or of the root differs
    14   number of edges or Src/Dst of some edge differs
    15   arrow direction or Index of some edge differs
    16   an attribute differs (ID, digest of the attribute projection of an object / the root / an edge)
    17   geometry differs (box of an object, route / label percentage of an edge)
    18   d2graph.CompareSerializedGraph disagrees with clauses 10-15
    19   END-TO-END: the SVG rendered after laying the diagram out through the plugin protocol differs
         from the SVG rendered after in-process layout
    20   DeserializeGraph failed (error or panic) on the bytes SerializeGraph produced
    21   rootLevel differs
    22   [same_structure_b] is false although no clause 10-17/21 fired (cannot happen; completeness guard) *)
From Coq Require Import List NArith ZArith Bool Arith.
Import ListNotations.
Require Export V.Lib.RunCases V.C26.Serde V.C26.Decide V.C26.Compare.
Open Scope N_scope.

Inductive case :=
| Case (g : G)                               (* the graph handed to SerializeGraph, pointers as positions *)
       (absids : list str)                   (* AbsID() of root :: g.Objects, from the implementation *)
       (wire : option (sgraph unit unit))    (* structural part of the JSON SerializeGraph wrote *)
       (g2 : option G)                       (* what DeserializeGraph built; None = error / panic *)
       (absids2 : list str)                  (* AbsID() of root :: Objects of the deserialized graph *)
       (hyp_json : bool)                     (* Convert round trip is the identity on every payload / ID *)
       (expect_distinct : bool)              (* the graph comes from the real pipeline (not hand-made): WF and
                                                distinct AbsIDs are then expected (codes 3, 4) *)
       (cmp_ok : bool)                       (* CompareSerializedGraph(g, g2) == nil *)
       (svg : option (N * N)).               (* digest of SVG: in-process, through the plugin protocol *)

Definition idP : pay -> pay := fun p => p.

Definition strip_so (so : sobj pay) : sobj unit := mkSO (so_absid so) (so_children so) (so_id so) tt.
Definition strip_se (se : sedge pay) : sedge unit :=
  mkSE (se_src se) (se_dst se) (se_srcarrow se) (se_dstarrow se) (se_index se) tt.

Definition so_eqb (a b : sobj unit) : bool :=
  str_eqb (so_absid a) (so_absid b) && list_eqb str_eqb (so_children a) (so_children b)
  && str_eqb (so_id a) (so_id b).
Definition se_eqb (a b : sedge unit) : bool :=
  os_eqb (se_src a) (se_src b) && os_eqb (se_dst a) (se_dst b)
  && Bool.eqb (se_srcarrow a) (se_srcarrow b) && Bool.eqb (se_dstarrow a) (se_dstarrow b)
  && N.eqb (se_index a) (se_index b).

Definition wire_matches (sg : sgraph pay pay) (w : sgraph unit unit) : bool :=
  so_eqb (strip_so (sg_root sg)) (sg_root w)
  && list_eqb so_eqb (map strip_so (sg_objs sg)) (sg_objs w)
  && list_eqb se_eqb (map strip_se (sg_edges sg)) (sg_edges w)
  && Z.eqb (sg_level sg) (sg_level w).

Definition obj_heap_eqb (a b : object pay) : bool :=
  str_eqb (o_id a) (o_id b) && oref_eqb (o_parent a) (o_parent b)
  && list_eqb ref_eqb (o_children a) (o_children b).
Definition edge_heap_eqb (a b : edge pay) : bool :=
  oref_eqb (e_src a) (e_src b) && oref_eqb (e_dst a) (e_dst b)
  && Bool.eqb (e_srcarrow a) (e_srcarrow b) && Bool.eqb (e_dstarrow a) (e_dstarrow b)
  && N.eqb (e_index a) (e_index b).
Definition heap_eqb (a b : G) : bool :=
  obj_heap_eqb (g_root a) (g_root b) && list_eqb obj_heap_eqb (g_objs a) (g_objs b)
  && list_eqb edge_heap_eqb (g_edges a) (g_edges b) && Z.eqb (g_level a) (g_level b).

Definition absids_match (g : G) (l : list str) : bool :=
  list_eqb os_eqb (map (absid g) (all_refs g)) (map Some l).

Definition subsetb (a b : list (option str)) : bool := forallb (fun x => existsb (os_eqb x) b) a.

Record clause_bits := mkCB { c10 : bool; c11 : bool; c12 : bool; c13 : bool; c14 : bool; c15 : bool;
                             c16 : bool; c17 : bool; c21 : bool }.

Definition clause_eval (g i : G) : clause_bits :=
  let '(r1, o1, e1, l1) := structure g in
  let '(r2, o2, e2, l2) := structure i in
  let ids1 := map v_absid o1 in
  let ids2 := map v_absid o2 in
  mkCB
    (Nat.eqb (length o1) (length o2) && subsetb ids1 ids2 && subsetb ids2 ids1)
    (list_eqb os_eqb ids1 ids2)
    (list_eqb (opt_eqb os_eqb) (map v_parent (r1 :: o1)) (map v_parent (r2 :: o2)))
    (list_eqb (list_eqb os_eqb) (map v_children (r1 :: o1)) (map v_children (r2 :: o2)))
    (list_eqb (pair_eqb (opt_eqb os_eqb) (opt_eqb os_eqb))
              (map (fun e => (w_src e, w_dst e)) e1) (map (fun e => (w_src e, w_dst e)) e2))
    (list_eqb (pair_eqb (pair_eqb Bool.eqb Bool.eqb) N.eqb)
              (map (fun e => (w_srcarrow e, w_dstarrow e, w_index e)) e1)
              (map (fun e => (w_srcarrow e, w_dstarrow e, w_index e)) e2))
    (list_eqb (pair_eqb str_eqb N.eqb) (map (fun v => (v_id v, snd (v_pay v))) (r1 :: o1))
                                       (map (fun v => (v_id v, snd (v_pay v))) (r2 :: o2))
     && list_eqb N.eqb (map (fun e => snd (w_pay e)) e1) (map (fun e => snd (w_pay e)) e2))
    (list_eqb (list_eqb N.eqb) (map (fun v => fst (v_pay v)) (r1 :: o1)) (map (fun v => fst (v_pay v)) (r2 :: o2))
     && list_eqb (list_eqb N.eqb) (map (fun e => fst (w_pay e)) e1) (map (fun e => fst (w_pay e)) e2))
    (Z.eqb l1 l2).

Definition struct_ok (b : clause_bits) : bool := c10 b && c11 b && c12 b && c13 b && c14 b && c15 b.

Definition clause_codes (g i : G) (cmp_ok : bool) : list N :=
  let b := clause_eval g i in
  let d := flag (c10 b) 10 ++ flag (c11 b) 11 ++ flag (c12 b) 12 ++ flag (c13 b) 13 ++ flag (c14 b) 14
           ++ flag (c15 b) 15 ++ flag (c16 b) 16 ++ flag (c17 b) 17 ++ flag (c21 b) 21 in
  (if same_structure_b g i then [] else match d with [] => [22] | _ => d end)
  ++ flag (Bool.eqb cmp_ok (struct_ok b) || (negb cmp_ok && negb (same_structure_b g i))) 18.

Definition check_case (c : case) : list N :=
  match c with
  | Case g absids wire g2 absids2 hyp_json expect_distinct cmp_ok svg =>
    let rt := roundtrip idS idP idP g in
    flag (absids_match g absids) 1
    ++ flag (match wire, serialize g with
             | None, _ => true
             | Some w, Some sg => wire_matches sg w
             | Some _, None => false
             end) 1
    ++ flag (match rt, g2 with
             | None, None => true
             | Some m, Some i => heap_eqb m i
             | _, _ => false
             end) 1
    ++ flag (match g2 with None => true | Some i => absids_match i absids2 end) 1
    ++ flag hyp_json 2
    ++ flag (implb expect_distinct (wfb g)) 3
    ++ flag (implb expect_distinct (distinctb g)) 4
    ++ (if wfb g && distinctb g
        then match g2 with None => [20] | Some i => clause_codes g i cmp_ok end
        else [])
    ++ match svg with None => [] | Some (a, b) => flag (N.eqb a b) 19 end
  end.
