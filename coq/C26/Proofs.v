(* C26 — proofs about the model in Serde.v. *)
From Coq Require Import List NArith ZArith Bool Arith Lia.
Import ListNotations.
Require Import V.Lib.RunCases V.C26.Serde.

(* ------------------------------------------------------------------ generic list facts *)
Lemma str_eqb_eq (a b : str) : str_eqb a b = true <-> a = b.
Proof. apply bytes_eqb_eq. Qed.

Lemma str_eqb_neq (a b : str) : a <> b -> str_eqb a b = false.
Proof. intro H. destruct (str_eqb a b) eqn:E; auto. apply str_eqb_eq in E. contradiction. Qed.

Lemma ref_eqb_eq a b : ref_eqb a b = true <-> a = b.
Proof.
  destruct a, b; simpl; split; intro H; try discriminate; try reflexivity.
  - apply Nat.eqb_eq in H. congruence.
  - inversion H. apply Nat.eqb_refl.
  - apply str_eqb_eq in H. congruence.
  - inversion H. apply str_eqb_eq. reflexivity.
Qed.

Lemma existsb_ref x l : existsb (ref_eqb x) l = true <-> In x l.
Proof.
  rewrite existsb_exists. split.
  - intros [y [Hy E]]. apply ref_eqb_eq in E. subst. exact Hy.
  - intro H. exists x. split; auto. apply ref_eqb_eq. reflexivity.
Qed.

Lemma nth_error_ext {A} (l1 l2 : list A) :
  (forall k, nth_error l1 k = nth_error l2 k) -> l1 = l2.
Proof.
  revert l2. induction l1 as [|x xs IH]; intros [|y ys] H; auto.
  - specialize (H 0). discriminate.
  - specialize (H 0). discriminate.
  - f_equal.
    + specialize (H 0). simpl in H. congruence.
    + apply IH. intro k. exact (H (S k)).
Qed.

Lemma mapi_from_nth {A B} (f : nat -> A -> B) l : forall i k,
  nth_error (mapi_from f i l) k = option_map (f (i + k)) (nth_error l k).
Proof.
  induction l as [|x xs IH]; intros i k; simpl.
  - destruct k; reflexivity.
  - destruct k; simpl.
    + rewrite Nat.add_0_r. reflexivity.
    + rewrite IH. replace (S i + k) with (i + S k) by lia. reflexivity.
Qed.

Lemma mapi_nth {A B} (f : nat -> A -> B) l k :
  nth_error (mapi f l) k = option_map (f k) (nth_error l k).
Proof. unfold mapi. rewrite mapi_from_nth. reflexivity. Qed.

Lemma mapi_from_const {A B} (h : nat -> B) (l : list A) : forall s,
  mapi_from (fun i _ => h i) s l = map h (seq s (length l)).
Proof. induction l as [|x xs IH]; intro s; simpl; [reflexivity | rewrite IH; reflexivity]. Qed.

Lemma mapi_from_map {A B C} (f : nat -> B -> C) (g : nat -> A -> B) l : forall s,
  mapi_from f s (mapi_from g s l) = mapi_from (fun i x => f i (g i x)) s l.
Proof. induction l as [|x xs IH]; intro s; simpl; [reflexivity | rewrite IH; reflexivity]. Qed.

Lemma mapi_from_ext {A B} (f g : nat -> A -> B) l : forall s,
  (forall k x, nth_error l k = Some x -> f (s + k) x = g (s + k) x) ->
  mapi_from f s l = mapi_from g s l.
Proof.
  induction l as [|x xs IH]; intros s H; simpl; auto. f_equal.
  - specialize (H 0 x eq_refl). rewrite Nat.add_0_r in H. exact H.
  - apply IH. intros k y Hk. specialize (H (S k) y Hk). replace (S s + k) with (s + S k) by lia. exact H.
Qed.

Lemma mapM_some {A B} (f : A -> option B) (h : A -> B) l :
  (forall x, In x l -> f x = Some (h x)) -> mapM f l = Some (map h l).
Proof.
  induction l as [|x xs IH]; intro H; simpl; auto.
  rewrite (H x) by (left; auto). rewrite IH by (intros; apply H; right; auto). reflexivity.
Qed.

Lemma mapM_inv {A B} (f : A -> option B) (d : B) l l' :
  mapM f l = Some l' ->
  (forall x, In x l -> f x <> None) /\ l' = map (fun x => match f x with Some y => y | None => d end) l.
Proof.
  revert l'. induction l as [|x xs IH]; intros l' H; simpl in *.
  - inversion H. split; [intros x [] | reflexivity].
  - destruct (f x) eqn:E; [|discriminate]. destruct (mapM f xs) eqn:E2; [|discriminate].
    inversion H; subst. destruct (IH _ eq_refl) as [H1 H2]. split.
    + intros y [->|Hy]; [congruence | auto].
    + rewrite <- H2. reflexivity.
Qed.

Lemma mapM_map_id {A B} (f : B -> option A) (h : A -> B) l :
  (forall x, In x l -> f (h x) = Some x) -> mapM f (map h l) = Some l.
Proof.
  induction l as [|x xs IH]; intro H; simpl; auto.
  rewrite (H x) by (left; auto). rewrite IH by (intros; apply H; right; auto). reflexivity.
Qed.

Lemma mapMi_from_some {A B} (f : nat -> A -> option B) (h : nat -> A -> B) l : forall s,
  (forall k x, nth_error l k = Some x -> f (s + k) x = Some (h (s + k) x)) ->
  mapMi_from f s l = Some (mapi_from h s l).
Proof.
  induction l as [|x xs IH]; intros s H; simpl; auto.
  pose proof (H 0 x eq_refl) as H0. rewrite Nat.add_0_r in H0. rewrite H0.
  rewrite IH.
  - reflexivity.
  - intros k y Hk. replace (S s + k) with (s + S k) by lia. apply H. exact Hk.
Qed.

Lemma somes_in {A} (l : list (option A)) x : In x (somes l) <-> In (Some x) l.
Proof.
  induction l as [|[y|] ys IH]; simpl.
  - tauto.
  - rewrite IH. split; intros [H|H]; auto; left; congruence.
  - rewrite IH. split; [auto | intros [H|H]; [discriminate | auto]].
Qed.

Lemma find_rev_some {A} (p : A -> bool) l :
  (exists x, In x l /\ p x = true) -> exists y, find p (rev l) = Some y /\ In y l /\ p y = true.
Proof.
  intros [x [Hx Hp]]. destruct (find p (rev l)) eqn:E.
  - exists a. apply find_some in E. destruct E as [E1 E2]. rewrite <- in_rev in E1. auto.
  - exfalso. pose proof (find_none _ _ E x) as H. rewrite <- in_rev in H. rewrite (H Hx) in Hp. discriminate.
Qed.

Lemma find_rev_none {A} (p : A -> bool) l :
  (forall x, In x l -> p x = false) -> find p (rev l) = None.
Proof.
  intro H. destruct (find p (rev l)) eqn:E; auto.
  apply find_some in E. destruct E as [E1 E2]. rewrite <- in_rev in E1. rewrite (H _ E1) in E2. discriminate.
Qed.

Lemma lookup_nodup (m : idmap) k v : NoDup (map fst m) -> In (k, v) m -> lookup m k = Some v.
Proof.
  induction m as [|[k' v'] m IH]; simpl; intros ND HIn; [contradiction|].
  inversion ND as [|? ? Hnot ND']; subst. destruct HIn as [H|H].
  - inversion H; subst. rewrite (proj2 (str_eqb_eq k k) eq_refl). reflexivity.
  - rewrite str_eqb_neq.
    + apply IH; auto.
    + intro; subst. apply Hnot. apply (in_map fst) in H. exact H.
Qed.

(* ------------------------------------------------------------------ the model *)
Section Proofs.
  Variables P E : Type.
  Variable jS : str -> str.
  Variable jP : P -> P.
  Variable jE : E -> E.
  Notation graph := (graph P E).
  Notation object := (object P).
  Notation edge := (edge E).

  Definition aid (g : graph) (r : ref) : str := match absid g r with Some a => a | None => [] end.

  Lemma valid_all_refs (g : graph) r : valid g r <-> In r (all_refs g).
  Proof.
    unfold valid, all_refs, obj_refs. destruct r as [|i|a]; simpl.
    3:{ split; [congruence|]. intros [H|H]; [discriminate|]. apply in_map_iff in H.
        destruct H as [j [Hj _]]. discriminate. }
    - split; [auto | discriminate].
    - rewrite nth_error_Some. split.
      + intro H. right. apply in_map. apply in_seq. lia.
      + intros [H|H]; [discriminate|]. apply in_map_iff in H. destruct H as [j [Hj Hin]].
        inversion Hj; subst. apply in_seq in Hin. lia.
  Qed.

  Lemma reaches_absid (g : graph) : forall f r,
    reaches_top g f r = true -> exists a, absid_fuel g f r = Some a.
  Proof.
    induction f as [|f IH]; intros r H; simpl in *; [discriminate|].
    destruct (deref g r) as [o|]; [|discriminate].
    destruct (o_parent o) as [p|]; [|eauto].
    assert (Hp : deref g p <> None).
    { destruct f; simpl in H; [discriminate|]. destruct (deref g p); [discriminate | discriminate]. }
    destruct (deref g p) as [po|]; [|contradiction].
    destruct (o_id po); [eauto|]. destruct (IH _ H) as [a Ha]. rewrite Ha. simpl. eauto.
  Qed.

  (* AbsID() terminates and dereferences no nil pointer on a well-formed graph *)
  Lemma absid_total (g : graph) : WF g -> forall r, valid g r -> exists a, absid g r = Some a.
  Proof.
    intros W r V. assert (absid g r = absid_fuel g (fuel_of g) r) as ->.
    { destruct r; try reflexivity. exfalso. apply V. reflexivity. }
    apply reaches_absid. apply (wf_acyclic W). exact V.
  Qed.

  Lemma absid_aid (g : graph) : WF g -> forall r, valid g r -> absid g r = Some (aid g r).
  Proof. intros W r V. unfold aid. destruct (absid_total g W r V) as [a Ha]. rewrite Ha. reflexivity. Qed.

  Lemma absid_root (g : graph) : WF g -> absid g RRoot = Some [].
  Proof.
    intro W. unfold absid, fuel_of. simpl. rewrite (wf_root_parent W), (wf_root_id W). reflexivity.
  Qed.

  Lemma aid_root (g : graph) : WF g -> aid g RRoot = [].
  Proof. intro W. unfold aid. rewrite absid_root; auto. Qed.

  (* the wire image, as a total function *)
  Definition so_of (g : graph) (r : ref) (o : object) : sobj P :=
    mkSO (aid g r) (map (aid g) (o_children o)) (o_id o) (o_pay o).
  Definition se_of (g : graph) (e : edge) : sedge E :=
    mkSE (option_map (aid g) (e_src e)) (option_map (aid g) (e_dst e))
         (e_srcarrow e) (e_dstarrow e) (e_index e) (e_pay e).
  Definition ser_total (g : graph) : sgraph P E :=
    mkSG (so_of g RRoot (g_root g)) (mapi (fun i o => so_of g (RObj i) o) (g_objs g))
         (map (se_of g) (g_edges g)) (g_level g).

  Lemma ser_obj_eq (g : graph) (W : WF g) r o : deref g r = Some o -> ser_obj g r o = Some (so_of g r o).
  Proof.
    intro D. unfold ser_obj, so_of.
    rewrite (absid_aid g W r) by (unfold valid; congruence).
    rewrite (mapM_some (absid g) (aid g)).
    - reflexivity.
    - intros c Hc. apply absid_aid; auto. exact (wf_children_valid W _ _ _ D Hc).
  Qed.

  Lemma ser_end_eq (g : graph) (W : WF g) x :
    (forall r, x = Some r -> valid g r) -> ser_end g x = Some (option_map (aid g) x).
  Proof.
    intro H. destruct x as [r|]; simpl; auto. rewrite (absid_aid g W r) by (apply H; auto). reflexivity.
  Qed.

  Lemma ser_edge_eq (g : graph) (W : WF g) e : In e (g_edges g) -> ser_edge g e = Some (se_of g e).
  Proof.
    intro H. unfold ser_edge, se_of.
    rewrite (ser_end_eq g W (e_src e)) by (intros r Hr; apply (wf_ends_valid W e r H); auto).
    rewrite (ser_end_eq g W (e_dst e)) by (intros r Hr; apply (wf_ends_valid W e r H); auto).
    reflexivity.
  Qed.

  Lemma serialize_eq (g : graph) : WF g -> serialize g = Some (ser_total g).
  Proof.
    intro W. unfold serialize, ser_total.
    rewrite (ser_obj_eq g W RRoot (g_root g) eq_refl).
    rewrite (mapMi_from_some _ (fun i o => so_of g (RObj i) o)).
    2:{ intros k x Hk. simpl. apply (ser_obj_eq g W (RObj k) x Hk). }
    rewrite (mapM_some _ (se_of g)) by (intros; apply ser_edge_eq; auto).
    reflexivity.
  Qed.

End Proofs.
