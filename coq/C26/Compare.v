(* C26 — the boolean property predicate evaluated on the implementation's output:
   [same_structure_b g i = true <-> structure i = structure g]  (payloads: geometry bits + digest). *)
From Coq Require Import List NArith ZArith Bool Arith Lia.
Import ListNotations.
Require Import V.Lib.RunCases V.C26.Serde V.C26.Proofs.

Notation eqspec eqb := (forall x y, eqb x y = true <-> x = y).

Lemma opt_eqb_spec {A} (eqb : A -> A -> bool) : eqspec eqb -> eqspec (opt_eqb eqb).
Proof.
  intros H [x|] [y|]; simpl; split; intro E; try discriminate; auto.
  - apply H in E. congruence.
  - inversion E. apply H. reflexivity.
Qed.

Lemma list_eqb_spec {A} (eqb : A -> A -> bool) : eqspec eqb -> eqspec (list_eqb eqb).
Proof. intros H x y. apply list_eqb_eq. exact H. Qed.

Definition pair_eqb {A B} (ea : A -> A -> bool) (eb : B -> B -> bool) (p q : A * B) : bool :=
  ea (fst p) (fst q) && eb (snd p) (snd q).

Lemma pair_eqb_spec {A B} (ea : A -> A -> bool) (eb : B -> B -> bool) :
  eqspec ea -> eqspec eb -> eqspec (pair_eqb ea eb).
Proof.
  intros Ha Hb [a b] [c d]. unfold pair_eqb. simpl. rewrite andb_true_iff, Ha, Hb. split.
  - intros [-> ->]. reflexivity.
  - intro H. inversion H. auto.
Qed.

Lemma str_eqb_spec : eqspec str_eqb.
Proof. intros x y. apply str_eqb_eq. Qed.
Lemma N_eqb_spec : eqspec N.eqb.
Proof. intros x y. apply N.eqb_eq. Qed.
Lemma bool_eqb_spec : eqspec Bool.eqb.
Proof. intros x y. apply eqb_true_iff. Qed.
Lemma Z_eqb_spec : eqspec Z.eqb.
Proof. intros x y. apply Z.eqb_eq. Qed.

(* payload as the harness observes it: geometry (IEEE-754 bit patterns of every float, in a fixed
   order) and a 128-bit digest of the canonical projection of every other attribute *)
Definition pay := (list N * N)%type.
Definition pay_eqb : pay -> pay -> bool := pair_eqb (list_eqb N.eqb) N.eqb.
Lemma pay_eqb_spec : eqspec pay_eqb.
Proof. apply pair_eqb_spec; [apply list_eqb_spec; apply N_eqb_spec | apply N_eqb_spec]. Qed.

Definition os_eqb : option str -> option str -> bool := opt_eqb str_eqb.
Lemma os_eqb_spec : eqspec os_eqb.
Proof. apply opt_eqb_spec, str_eqb_spec. Qed.

Definition oview_eqb (a b : oview pay) : bool :=
  os_eqb (v_absid a) (v_absid b) && str_eqb (v_id a) (v_id b)
  && opt_eqb os_eqb (v_parent a) (v_parent b)
  && list_eqb os_eqb (v_children a) (v_children b)
  && pay_eqb (v_pay a) (v_pay b).

Lemma oview_eqb_spec : eqspec oview_eqb.
Proof.
  intros [a1 a2 a3 a4 a5] [b1 b2 b3 b4 b5]. unfold oview_eqb. simpl.
  rewrite !andb_true_iff, os_eqb_spec, str_eqb_spec, (opt_eqb_spec _ os_eqb_spec),
    (list_eqb_spec _ os_eqb_spec), pay_eqb_spec.
  split.
  - intros [[[[-> ->] ->] ->] ->]. reflexivity.
  - intro H. inversion H. auto.
Qed.

Definition eview_eqb (a b : eview pay) : bool :=
  opt_eqb os_eqb (w_src a) (w_src b) && opt_eqb os_eqb (w_dst a) (w_dst b)
  && Bool.eqb (w_srcarrow a) (w_srcarrow b) && Bool.eqb (w_dstarrow a) (w_dstarrow b)
  && N.eqb (w_index a) (w_index b) && pay_eqb (w_pay a) (w_pay b).

Lemma eview_eqb_spec : eqspec eview_eqb.
Proof.
  intros [a1 a2 a3 a4 a5 a6] [b1 b2 b3 b4 b5 b6]. unfold eview_eqb. simpl.
  rewrite !andb_true_iff, !(opt_eqb_spec _ os_eqb_spec), !bool_eqb_spec, N_eqb_spec, pay_eqb_spec.
  split.
  - intros [[[[[-> ->] ->] ->] ->] ->]. reflexivity.
  - intro H. inversion H. auto 10.
Qed.

Definition G := graph pay pay.

Definition same_structure_b (g i : G) : bool :=
  let '(r1, o1, e1, l1) := structure g in
  let '(r2, o2, e2, l2) := structure i in
  oview_eqb r2 r1 && list_eqb oview_eqb o2 o1 && list_eqb eview_eqb e2 e1 && Z.eqb l2 l1.

Theorem same_structure_b_spec (g i : G) : same_structure_b g i = true <-> structure i = structure g.
Proof.
  unfold same_structure_b.
  destruct (structure g) as [[[r1 o1] e1] l1]. destruct (structure i) as [[[r2 o2] e2] l2].
  rewrite !andb_true_iff, oview_eqb_spec, (list_eqb_spec _ oview_eqb_spec),
    (list_eqb_spec _ eview_eqb_spec), Z_eqb_spec.
  split.
  - intros [[[-> ->] ->] ->]. reflexivity.
  - intro H. inversion H. auto.
Qed.
