(* C26 — DeserializeGraph (SerializeGraph g) gives back g itself (pointer structure included) when g is
   well formed, its AbsIDs are pairwise distinct and encoding/json returns the payloads. *)
From Coq Require Import List NArith ZArith Bool Arith Lia.
Import ListNotations.
Require Import V.Lib.RunCases V.C26.Serde V.C26.Proofs.

Lemma in_mapi {A B} (f : nat -> A -> B) l y :
  In y (mapi f l) <-> exists k x, nth_error l k = Some x /\ y = f k x.
Proof.
  split.
  - intro H. apply In_nth_error in H. destruct H as [k Hk]. rewrite mapi_nth in Hk.
    destruct (nth_error l k) as [x|] eqn:E; simpl in Hk; [|discriminate]. exists k, x. split; congruence.
  - intros [k [x [Hk ->]]]. apply (nth_error_In _ k). rewrite mapi_nth, Hk. reflexivity.
Qed.

Lemma map_mapi {A B C} (f : B -> C) (h : nat -> A -> B) l :
  map f (mapi h l) = mapi (fun i x => f (h i x)) l.
Proof. unfold mapi. generalize 0. induction l as [|x xs IH]; intro s; simpl; [|rewrite IH]; reflexivity. Qed.

Lemma mapM_map_some {A B C} (f : B -> option C) (h : A -> B) (k : A -> C) l :
  (forall x, In x l -> f (h x) = Some (k x)) -> mapM f (map h l) = Some (map k l).
Proof.
  induction l as [|x xs IH]; intro H; simpl; auto.
  rewrite (H x) by (left; auto). rewrite IH by (intros; apply H; right; auto). reflexivity.
Qed.

Section RT.
  Variables P E : Type.
  Variable jS : str -> str.
  Variable jP : P -> P.
  Variable jE : E -> E.
  Variable g : graph P E.
  Hypothesis W : WF g.
  Hypothesis D : absids_distinct g.
  Hypothesis J : json_ok jS jP jE g.

  Notation aid := (aid P E g).
  Notation so_of := (so_of P E g).
  Notation se_of := (se_of P E g).

  Definition pairs : list (ref * object P) :=
    mapi (fun i o => (RObj i, o)) (g_objs g) ++ [(RRoot, g_root g)].

  Lemma in_pairs r o : In (r, o) pairs <-> deref g r = Some o.
  Proof.
    unfold pairs. rewrite in_app_iff, in_mapi. simpl. split.
    - intros [[k [x [Hk Hx]]]|[H|[]]].
      + inversion Hx; subst. exact Hk.
      + inversion H; subst. reflexivity.
    - destruct r as [|i|a]; simpl; intro H.
      + right. left. congruence.
      + left. exists i, o. auto.
      + discriminate.
  Qed.

  Lemma valid_deref r : valid g r -> exists o, deref g r = Some o.
  Proof. unfold valid. destruct (deref g r); [eauto | congruence]. Qed.

  Lemma jS_aid r : valid g r -> jS (aid r) = aid r.
  Proof. intro V. apply (jok_absid J r). apply absid_aid; auto. Qed.

  Definition M : idmap := build_idmap jS (sg_objs (ser_total P E g)).

  Lemma M_eq : M = rev (map (fun r => (aid r, r)) (all_refs g)).
  Proof.
    unfold M, build_idmap, ser_total, all_refs, obj_refs. simpl. f_equal.
    - f_equal. unfold mapi. rewrite mapi_from_map. simpl.
      rewrite (mapi_from_ext _ (fun i _ => (aid (RObj i), RObj i))).
      + rewrite mapi_from_const. rewrite map_map. reflexivity.
      + intros k x Hk. simpl. rewrite jS_aid; auto. unfold valid. simpl. congruence.
    - rewrite (aid_root P E g W). reflexivity.
  Qed.

  Lemma aids_nodup : NoDup (map aid (all_refs g)).
  Proof.
    destruct D as [l [Hl ND]]. apply (mapM_inv _ []) in Hl. destruct Hl as [_ Hl].
    subst l. exact ND.
  Qed.

  Lemma lookup_M r : valid g r -> lookup M (aid r) = Some r.
  Proof.
    intro V. rewrite M_eq. apply lookup_nodup.
    - rewrite map_rev, map_map. apply NoDup_rev. exact aids_nodup.
    - rewrite <- in_rev. apply (in_map (fun r => (aid r, r))). apply valid_all_refs. exact V.
  Qed.

  Definition link_val (p : ref * object P) : option (ref * list ref) :=
    match o_children (snd p) with [] => None | _ :: _ => Some (fst p, o_children (snd p)) end.

  Lemma link_of_cons (m : idmap) (so : sobj P) : so_children so <> [] ->
    link_of jS m so =
    match mapM (fun c => lookup m (jS c)) (so_children so), lookup m (jS (so_absid so)) with
    | Some rs, Some self => Some (Some (self, rs))
    | _, _ => None
    end.
  Proof. unfold link_of. destruct (so_children so); [contradiction | reflexivity]. Qed.

  Lemma link_of_eq r o : deref g r = Some o -> link_of jS M (so_of r o) = Some (link_val (r, o)).
  Proof.
    intro Dr. unfold link_val. cbn [fst snd].
    destruct (o_children o) as [|c cs] eqn:Ec.
    - unfold link_of, so_of. cbn [so_children]. rewrite Ec. reflexivity.
    - assert (Hc : forall x, In x (o_children o) -> valid g x).
      { intros x Hx. exact (wf_children_valid W r o x Dr Hx). }
      rewrite link_of_cons by (unfold so_of; cbn [so_children]; rewrite Ec; discriminate).
      unfold so_of. cbn [so_children so_absid].
      rewrite (mapM_map_id (fun c0 => lookup M (jS c0)) aid (o_children o)).
      + rewrite jS_aid, lookup_M by (unfold valid; congruence). rewrite Ec. reflexivity.
      + intros x Hx. rewrite jS_aid, lookup_M; auto.
  Qed.

  Definition LS : list (ref * list ref) := somes (map link_val pairs).

  Lemma sos_eq : sg_objs (ser_total P E g) ++ [sg_root (ser_total P E g)]
                 = map (fun p => so_of (fst p) (snd p)) pairs.
  Proof. unfold pairs, ser_total. simpl. rewrite map_app, map_mapi. reflexivity. Qed.

  Lemma links_eq : links jS M (sg_objs (ser_total P E g) ++ [sg_root (ser_total P E g)]) = Some LS.
  Proof.
    unfold links, LS. rewrite sos_eq. rewrite (mapM_map_some _ _ link_val); [reflexivity|].
    intros [r o] Hin. simpl. apply link_of_eq. apply in_pairs. exact Hin.
  Qed.

  Lemma in_LS r cs : In (r, cs) LS <-> exists o, deref g r = Some o /\ o_children o = cs /\ cs <> [].
  Proof.
    unfold LS. rewrite somes_in, in_map_iff. split.
    - intros [[r' o] [Hv Hin]]. apply in_pairs in Hin. unfold link_val in Hv. simpl in Hv.
      destruct (o_children o) eqn:Ec; [discriminate|]. inversion Hv; subst. exists o. repeat split; auto. discriminate.
    - intros [o [Dr [Hc Hne]]]. exists (r, o). split; [|apply in_pairs; exact Dr].
      unfold link_val. simpl. rewrite Hc. destruct cs; [contradiction | reflexivity].
  Qed.

  Lemma parent_of_eq x ox : deref g x = Some ox -> parent_of LS x = o_parent ox.
  Proof.
    intro Dx. unfold parent_of. destruct (o_parent ox) as [p|] eqn:Ep.
    - destruct (proj1 (wf_parent_child W x p ox Dx) Ep) as [op [Dp Hin]].
      destruct (find_rev_some (fun l => existsb (ref_eqb x) (snd l)) LS) as [[r' cs] [Hf [HinLS Hp]]].
      { exists (p, o_children op). split.
        - apply in_LS. exists op. repeat split; auto. intro Hnil. rewrite Hnil in Hin. contradiction.
        - simpl. apply existsb_ref. exact Hin. }
      rewrite Hf. simpl in *. apply in_LS in HinLS. destruct HinLS as [o' [Dr' [Hc _]]].
      apply existsb_ref in Hp. subst cs.
      assert (o_parent ox = Some r') by (apply (wf_parent_child W x r' ox Dx); eauto). congruence.
    - rewrite find_rev_none; [reflexivity|].
      intros [r' cs] HinLS. simpl. destruct (existsb (ref_eqb x) cs) eqn:Ex; [|reflexivity].
      apply existsb_ref in Ex. apply in_LS in HinLS. destruct HinLS as [o' [Dr' [Hc _]]]. subst cs.
      assert (o_parent ox = Some r') by (apply (wf_parent_child W x r' ox Dx); eauto). congruence.
  Qed.

  Lemma children_of_eq x ox : deref g x = Some ox -> children_of LS x = o_children ox.
  Proof.
    intro Dx. unfold children_of. destruct (o_children ox) as [|c cs] eqn:Ec.
    - rewrite find_rev_none; [reflexivity|].
      intros [r' cs'] HinLS. simpl. destruct (ref_eqb r' x) eqn:Ex; [|reflexivity].
      apply ref_eqb_eq in Ex. subst r'. apply in_LS in HinLS. destruct HinLS as [o' [Dr' [Hc Hne]]].
      assert (o' = ox) by congruence. subst o'. congruence.
    - destruct (find_rev_some (fun l => ref_eqb (fst l) x) LS) as [[r' cs'] [Hf [HinLS Hp]]].
      { exists (x, c :: cs). split.
        - apply in_LS. exists ox. repeat split; auto. discriminate.
        - simpl. apply ref_eqb_eq. reflexivity. }
      rewrite Hf. simpl in *. apply ref_eqb_eq in Hp. subst r'.
      apply in_LS in HinLS. destruct HinLS as [o' [Dr' [Hc _]]]. congruence.
  Qed.

  Lemma de_obj_eq r o : deref g r = Some o -> de_obj jS jP LS r (so_of r o) = o.
  Proof.
    intro Dr. unfold de_obj, so_of. simpl.
    rewrite (parent_of_eq r o Dr), (children_of_eq r o Dr), (jok_id J r o Dr), (jok_pay J r o Dr).
    destruct o; reflexivity.
  Qed.

  Lemma de_end_eq x : (forall r, x = Some r -> valid g r) -> de_end jS M (option_map aid x) = x.
  Proof.
    intro H. destruct x as [r|]; simpl; auto. rewrite jS_aid, lookup_M by (apply H; auto). reflexivity.
  Qed.

  Lemma de_edge_eq e : In e (g_edges g) -> de_edge jS jE M (se_of e) = e.
  Proof.
    intro Hin. unfold de_edge, se_of. simpl.
    rewrite (de_end_eq (e_src e)) by (intros r Hr; apply (wf_ends_valid W e r Hin); auto).
    rewrite (de_end_eq (e_dst e)) by (intros r Hr; apply (wf_ends_valid W e r Hin); auto).
    rewrite (jok_edge J e Hin). destruct e; reflexivity.
  Qed.

  Lemma deserialize_ser_total : deserialize jS jP jE (ser_total P E g) = Some g.
  Proof.
    unfold deserialize. fold M. rewrite links_eq. f_equal.
    transitivity (mkGraph (g_root g) (g_objs g) (g_edges g) (g_level g)); [|destruct g; reflexivity].
    unfold ser_total. cbn [sg_root sg_objs sg_edges sg_level]. f_equal.
    - apply (de_obj_eq RRoot). reflexivity.
    - apply nth_error_ext. intro k. rewrite !mapi_nth.
      destruct (nth_error (g_objs g) k) eqn:Ek; simpl; [|reflexivity].
      f_equal. apply de_obj_eq. exact Ek.
    - rewrite map_map. rewrite <- (map_id (g_edges g)) at 2. apply map_ext_in. apply de_edge_eq.
  Qed.

  Theorem roundtrip_exact : roundtrip jS jP jE g = Some g.
  Proof. unfold roundtrip. rewrite (serialize_eq P E g W). exact deserialize_ser_total. Qed.
End RT.

(* ------------------------------------------------------------------ statements used by Props.v *)
Theorem serialize_total_thm (P E : Type) (g : graph P E) : WF g -> exists sg, serialize g = Some sg.
Proof. intro W. exists (ser_total P E g). apply serialize_eq. exact W. Qed.

Theorem deserialize_serialize_exact_thm (P E : Type) jS jP jE (g : graph P E) :
  WF g -> absids_distinct g -> json_ok jS jP jE g ->
  exists sg, serialize g = Some sg /\ deserialize jS jP jE sg = Some g.
Proof.
  intros W D J. exists (ser_total P E g). split.
  - apply serialize_eq. exact W.
  - apply deserialize_ser_total; assumption.
Qed.

Theorem deserialize_serialize_structure_thm (P E : Type) jS jP jE (g : graph P E) :
  WF g -> absids_distinct g -> json_ok jS jP jE g ->
  option_map structure (roundtrip jS jP jE g) = Some (structure g).
Proof. intros W D J. rewrite (roundtrip_exact P E jS jP jE g W D J). reflexivity. Qed.
