(* C37 - lemmas about the Create specification.
   Part 2: [ensure] adds exactly the rows [added]; those are new, default-attributed prefixes of the
   created ID; the generated ID is fresh. *)
From Coq Require Import List Arith NArith Bool Lia Permutation.
Import ListNotations.
Require Import V.Lib.RunCases V.C38.Spec V.C38.Proofs V.C38.Rows V.C38.Ops V.C37.Model V.C37.Proofs.
Open Scope N_scope.

(* ------------------------------------------------------------------ finding a child by name *)

Lemma find_name_sound n : forall f i, find_name n f = Some i -> exists o, nth_error f i = Some o /\ oname o = n.
Proof.
  induction f as [|o r IH]; intros i H; cbn [find_name] in H; [discriminate|].
  destruct (str_eqb (oname o) n) eqn:E.
  - injection H as <-. exists o. split; auto. apply str_eqb_eq; auto.
  - destruct (find_name n r) as [j|]; [|discriminate]. injection H as <-.
    destruct (IH j eq_refl) as [x [Hx Hn]]. exists x. split; auto.
Qed.

Lemma find_name_none n : forall f, find_name n f = None -> ~ In n (names f).
Proof.
  induction f as [|o r IH]; intros H; cbn [find_name] in H; [intros []|].
  destruct (str_eqb (oname o) n) eqn:E; [discriminate|].
  destruct (find_name n r) eqn:E2; [discriminate|].
  cbn. intros [D|D]; [apply str_eqb_neq in E; auto | apply IH; auto].
Qed.

Lemma find_name_some n : forall f, In n (names f) -> exists i, find_name n f = Some i.
Proof.
  intros f H. destruct (find_name n f) eqn:E; [eauto|]. apply find_name_none in E. contradiction.
Qed.

(* with unique sibling names the object found is the only one of that name *)
Lemma names_unique_obj f o o' : NoDup (names f) -> In o f -> In o' f -> oname o = oname o' -> o = o'.
Proof.
  induction f as [|x r IH]; cbn; intros ND Ho Ho' E; [contradiction|].
  inversion ND as [|? ? Hx ND']; subst.
  destruct Ho as [->|Ho], Ho' as [->|Ho']; auto.
  - exfalso. apply Hx. rewrite E. apply in_map; auto.
  - exfalso. apply Hx. rewrite <- E. apply in_map; auto.
Qed.

(* ------------------------------------------------------------------ rows around a child *)

Lemma flat_f_at pre f i o :
  nth_error f i = Some o ->
  flat_f pre f = flat_f pre (firstn i f) ++ flat_o pre o ++ flat_f pre (skipn (S i) f).
Proof.
  intro H. rewrite (nth_error_split_fs _ _ _ H) at 1. rewrite flat_f_app, flat_f_cons. reflexivity.
Qed.

Lemma flat_f_upd pre f i o (h : obj -> obj) :
  nth_error f i = Some o ->
  flat_f pre (upd_nth i h f) = flat_f pre (firstn i f) ++ flat_o pre (h o) ++ flat_f pre (skipn (S i) f).
Proof.
  intro H. rewrite (upd_nth_split _ _ _ _ H). rewrite flat_f_app, flat_f_cons. reflexivity.
Qed.

Lemma flat_o_head_name o p r : In r (flat_o p o) -> exists rest, r_path r = p ++ oname o :: rest.
Proof.
  destruct o as [l n a ks]. rewrite flat_o_eq. intros [<- | H].
  - exists []. reflexivity.
  - destruct (flat_f_prefix _ _ _ H) as [rest [E _]]. exists rest. rewrite E, <- app_assoc. reflexivity.
Qed.

Lemma in_flat_f_obj pre f r : In r (flat_f pre f) -> exists o, In o f /\ In r (flat_o pre o).
Proof. unfold flat_f. intro H. apply in_flat_map in H. exact H. Qed.

Lemma flat_o_in_f pre f o r : In o f -> In r (flat_o pre o) -> In r (flat_f pre f).
Proof. intros Ho Hr. unfold flat_f. apply in_flat_map. eauto. Qed.

(* unique IDs imply unique sibling names, at every level *)
Lemma paths_nodup_names pre f : NoDup (paths (flat_f pre f)) -> NoDup (names f).
Proof.
  induction f as [|o r IH]; intro ND; [constructor|].
  rewrite flat_f_cons, paths_app in ND. cbn [names map]. constructor.
  - intro Hin. apply in_map_iff in Hin as [o' [E Ho']].
    apply (NoDup_app_disj _ _ (pre ++ [oname o]) ND).
    + rewrite flat_o_unfold. left. reflexivity.
    + apply in_map_iff. exists (mkR (lbl o') (pre ++ [oname o']) (oattrs o')). split; [cbn; rewrite E; reflexivity|].
      apply (flat_o_in_f _ _ o'); auto. rewrite flat_o_unfold. left. reflexivity.
  - apply IH. eapply NoDup_app_r; eauto.
Qed.

Lemma paths_nodup_kids pre f o :
  NoDup (paths (flat_f pre f)) -> In o f -> NoDup (paths (flat_f (pre ++ [oname o]) (kids o))).
Proof.
  intros ND Ho. apply in_split in Ho as [a [b ->]].
  rewrite flat_f_app, flat_f_cons, !paths_app in ND.
  apply NoDup_app_r, NoDup_app_l in ND. rewrite flat_o_unfold in ND. cbn [paths map] in ND.
  inversion ND; auto.
Qed.

(* ------------------------------------------------------------------ ensure adds exactly [added] *)

Theorem ensure_rows : forall p l pre f,
  Permutation (flat_f pre (ensure l p f)) (flat_f pre f ++ added l pre p f).
Proof.
  induction p as [|n r IH]; intros l pre f; cbn [ensure added].
  - rewrite app_nil_r. apply Permutation_refl.
  - destruct (find_name n f) as [i|] eqn:E.
    + destruct (find_name_sound _ _ _ E) as [o [Hn Ho]]. rewrite Hn.
      rewrite (flat_f_upd _ _ _ _ _ Hn), (flat_f_at _ _ _ _ Hn).
      destruct o as [lo no ao ks]. cbn [set_kids kids oname] in *. subst no.
      rewrite !flat_o_eq.
      set (A := flat_f pre (firstn i f)). set (B := flat_f pre (skipn (S i) f)).
      set (row := mkR lo (pre ++ [n]) ao).
      pose proof (IH l (pre ++ [n]) ks) as P.
      set (K' := flat_f (pre ++ [n]) (ensure l r ks)) in *.
      set (K := flat_f (pre ++ [n]) ks) in *.
      set (AD := added l (pre ++ [n]) r ks) in *.
      rewrite <- app_assoc. apply Permutation_app_head.
      cbn [app]. apply perm_skip.
      rewrite <- app_assoc.
      apply Permutation_trans with ((K ++ AD) ++ B); [apply Permutation_app_tail; exact P|].
      rewrite <- app_assoc. apply Permutation_app_head. apply Permutation_app_comm.
    + rewrite flat_f_app, flat_f_cons, flat_f_nil, app_nil_r. apply Permutation_refl.
Qed.

(* ------------------------------------------------------------------ what the added rows are *)

Fixpoint chain_rows (l : N) (pre : path) (n : str) (p : path) : list orow :=
  mkR l (pre ++ [n]) (dflt n)
  :: match p with [] => [] | m :: r => chain_rows (l + 1) (pre ++ [n]) m r end.

Lemma flat_chain : forall p l pre n, flat_o pre (chain l n p) = chain_rows l pre n p.
Proof.
  induction p as [|m r IH]; intros l pre n; cbn [chain chain_rows]; rewrite flat_o_eq.
  - reflexivity.
  - rewrite flat_f_cons, flat_f_nil, app_nil_r, IH. reflexivity.
Qed.

Lemma last_snoc {A} (a : list A) x d : last (a ++ [x]) d = x.
Proof. apply last_last. Qed.

(* each new row: default attributes (label = its own name), ID = a non-empty prefix of pre ++ n :: p *)
Lemma chain_rows_shape : forall p l pre n r,
  In r (chain_rows l pre n p) ->
  r_attrs r = dflt (last (r_path r) [])
  /\ exists k, (1 <= k <= S (length p))%nat /\ r_path r = pre ++ firstn k (n :: p).
Proof.
  induction p as [|m q IH]; intros l pre n r H; cbn [chain_rows] in H.
  - destruct H as [<-|[]]. cbn [r_attrs r_path]. rewrite last_snoc. split; auto.
    exists 1%nat. split; [cbn; lia|reflexivity].
  - destruct H as [<-|H].
    + cbn [r_attrs r_path]. rewrite last_snoc. split; auto. exists 1%nat. split; [cbn; lia|reflexivity].
    + destruct (IH _ _ _ _ H) as [Ha [k [Hk Hp]]]. split; auto.
      exists (S k). split; [cbn [length]; lia|]. rewrite Hp, <- app_assoc. reflexivity.
Qed.

Lemma chain_rows_full : forall p l pre n, In (pre ++ n :: p) (paths (chain_rows l pre n p)).
Proof.
  induction p as [|m q IH]; intros l pre n; cbn [chain_rows paths map r_path].
  - left. reflexivity.
  - right. specialize (IH (l + 1) (pre ++ [n]) m). rewrite <- app_assoc in IH. exact IH.
Qed.

Lemma added_shape : forall p l pre f r,
  In r (added l pre p f) ->
  r_attrs r = dflt (last (r_path r) [])
  /\ exists k, (1 <= k <= length p)%nat /\ r_path r = pre ++ firstn k p.
Proof.
  induction p as [|n q IH]; intros l pre f r H; cbn [added] in H; [contradiction|].
  destruct (find_name n f) as [i|] eqn:E.
  - destruct (nth_error f i) as [o|]; [|contradiction].
    destruct (IH _ _ _ _ H) as [Ha [k [Hk Hp]]]. split; auto.
    exists (S k). split; [cbn [length]; lia|]. rewrite Hp, <- app_assoc. reflexivity.
  - rewrite flat_chain in H. destruct (chain_rows_shape _ _ _ _ _ H) as [Ha [k [Hk Hp]]]. split; auto.
    exists k. split; [cbn [length]; lia|exact Hp].
Qed.

(* the added IDs did not exist before *)
Lemma added_new : forall p l pre f r,
  NoDup (paths (flat_f pre f)) ->
  In r (added l pre p f) -> ~ In (r_path r) (paths (flat_f pre f)).
Proof.
  induction p as [|n q IH]; intros l pre f r ND H; cbn [added] in H; [contradiction|].
  destruct (find_name n f) as [i|] eqn:E.
  - destruct (find_name_sound _ _ _ E) as [o [Hn Ho]]. rewrite Hn in H. subst n.
    assert (Hof : In o f) by (eapply nth_error_In; eauto).
    destruct (added_shape _ _ _ _ _ H) as [_ [k [Hk Hp]]].
    intro Hin. apply in_map_iff in Hin as [r0 [E0 Hr0]].
    destruct (in_flat_f_obj _ _ _ Hr0) as [o' [Ho' Hr0']].
    destruct (flat_o_head_name _ _ _ Hr0') as [rest Er].
    assert (En : oname o' = oname o).
    { rewrite E0, Hp in Er. rewrite <- app_assoc in Er. apply app_inv_head in Er.
      cbn in Er. injection Er as Er _. auto. }
    assert (o' = o) by (eapply names_unique_obj; eauto using paths_nodup_names). subst o'.
    rewrite flat_o_unfold in Hr0'. destruct Hr0' as [<- | Hr0'].
    + cbn [r_path] in E0. rewrite Hp in E0.
      rewrite <- (app_nil_r (pre ++ [oname o])) in E0 at 1. apply app_inv_head in E0.
      destruct k as [|k]; [lia|]. destruct q; cbn in E0, Hk; [lia | discriminate].
    + apply (IH l (pre ++ [oname o]) (kids o) r); auto.
      * eapply paths_nodup_kids; eauto.
      * rewrite <- E0. apply in_map. exact Hr0'.
  - rewrite flat_chain in H. destruct (chain_rows_shape _ _ _ _ _ H) as [_ [k [Hk Hp]]].
    intro Hin. apply in_map_iff in Hin as [r0 [E0 Hr0]].
    destruct (in_flat_f_obj _ _ _ Hr0) as [o' [Ho' Hr0']].
    destruct (flat_o_head_name _ _ _ Hr0') as [rest Er].
    rewrite E0, Hp in Er. apply app_inv_head in Er.
    destruct k as [|k]; [lia|]. cbn in Er. injection Er as Er _.
    apply (find_name_none _ _ E). rewrite Er. apply in_map. exact Ho'.
Qed.

(* the requested ID exists afterwards *)
Lemma ensure_has : forall p l pre f, p <> [] -> In (pre ++ p) (paths (flat_f pre (ensure l p f))).
Proof.
  induction p as [|n q IH]; intros l pre f NE; [congruence|]. cbn [ensure].
  destruct (find_name n f) as [i|] eqn:E.
  - destruct (find_name_sound _ _ _ E) as [o [Hn Ho]].
    rewrite (flat_f_upd _ _ _ _ _ Hn), !paths_app. apply in_or_app. right. apply in_or_app. left.
    destruct o as [lo no ao ks]. cbn [set_kids kids oname] in *. subst no. rewrite flat_o_eq.
    destruct q as [|m q'].
    + left. reflexivity.
    + right. specialize (IH l (pre ++ [n]) ks). rewrite <- app_assoc in IH. apply IH. discriminate.
  - rewrite flat_f_app, paths_app. apply in_or_app. right.
    rewrite flat_f_cons, flat_f_nil, app_nil_r, flat_chain. apply chain_rows_full.
Qed.

(* an existing ID leads through [kids_at] *)
Lemma path_in_kids : forall pp pre f n,
  NoDup (paths (flat_f pre f)) ->
  In (pre ++ pp ++ [n]) (paths (flat_f pre f)) ->
  exists ks, kids_at pp f = Some ks /\ In n (names ks).
Proof.
  induction pp as [|m q IH]; intros pre f n ND Hin.
  - cbn [app kids_at]. exists f. split; auto.
    apply in_map_iff in Hin as [r0 [E0 Hr0]].
    destruct (in_flat_f_obj _ _ _ Hr0) as [o [Ho Hr0']].
    destruct (flat_o_head_name _ _ _ Hr0') as [rest Er].
    rewrite E0 in Er. apply app_inv_head in Er. injection Er as -> _. apply in_map; auto.
  - apply in_map_iff in Hin as [r0 [E0 Hr0]].
    destruct (in_flat_f_obj _ _ _ Hr0) as [o [Ho Hr0']].
    destruct (flat_o_head_name _ _ _ Hr0') as [rest Er].
    assert (Em : oname o = m).
    { rewrite E0 in Er. apply app_inv_head in Er. cbn in Er. injection Er as Er _. auto. }
    cbn [kids_at].
    destruct (find_name_some m f) as [i Ei]; [rewrite <- Em; apply in_map; auto|].
    destruct (find_name_sound _ _ _ Ei) as [o' [Hn' Ho']]. rewrite Ei, Hn'.
    assert (o' = o).
    { eapply names_unique_obj; eauto using paths_nodup_names, nth_error_In. congruence. }
    subst o'. apply (IH (pre ++ [m]) (kids o) n).
    + rewrite <- Em. eapply paths_nodup_kids; eauto.
    + rewrite flat_o_unfold in Hr0'. destruct Hr0' as [<- | Hr0'].
      * cbn [r_path] in E0. apply app_inv_head in E0. destruct q; cbn in E0; discriminate.
      * replace ((pre ++ [m]) ++ q ++ [n]) with (r_path r0) by (rewrite E0, <- app_assoc; reflexivity).
        rewrite <- Em. apply in_map. exact Hr0'.
Qed.

Lemma split_last_app {A} : forall (l : list A) a z, split_last l = Some (a, z) -> l = a ++ [z].
Proof.
  induction l as [|x r IH]; intros a z H; [discriminate|]. cbn [split_last] in H.
  destruct r as [|y r'].
  - injection H as <- <-. reflexivity.
  - destruct (split_last (y :: r')) as [[a' z']|] eqn:E; [|discriminate].
    injection H as <- <-. cbn [app]. f_equal. apply IH. reflexivity.
Qed.

(* ------------------------------------------------------------------ Create object *)

Definition added_rows (g : graph) (ret : path) : list orow :=
  added (fresh (g_objs g)) [] ret (g_objs g).

Theorem spec_create_adds_exactly g key unq ret g' :
  NoDup (paths (rows g)) ->
  spec_create_object g key unq = Some (ret, g') ->
  Permutation (rows g') (rows g ++ added_rows g ret)
  /\ g_edges g' = g_edges g
  /\ (forall r, In r (added_rows g ret) ->
        ~ In (r_path r) (paths (rows g))
        /\ r_attrs r = dflt (last (r_path r) [])
        /\ exists k, (1 <= k <= length ret)%nat /\ r_path r = firstn k ret)
  /\ removelast ret = removelast key.
Proof.
  intros ND H. unfold spec_create_object in H.
  destruct (split_last key) as [[pp n]|] eqn:Es; [|discriminate].
  injection H as <- <-. unfold rows, added_rows. cbn [g_objs g_edges].
  split; [apply ensure_rows|]. split; [reflexivity|]. split.
  - intros r Hr. split; [apply (added_new _ _ _ _ _ ND Hr)|].
    destruct (added_shape _ _ _ _ _ Hr) as [Ha [k [Hk Hp]]]. split; auto. exists k. split; auto.
  - rewrite (split_last_app _ _ _ Es), !removelast_last. reflexivity.
Qed.

Theorem spec_create_fresh_id g key unq ret g' :
  NoDup (paths (rows g)) ->
  spec_create_object g key unq = Some (ret, g') ->
  ~ In ret (paths (rows g)) /\ In ret (paths (rows g')).
Proof.
  intros ND H. unfold spec_create_object in H.
  destruct (split_last key) as [[pp n]|] eqn:Es; [|discriminate].
  injection H as <- <-. unfold rows. cbn [g_objs]. split.
  - intro Hin. destruct (path_in_kids pp [] _ _ ND Hin) as [ks [Ek Hn]]. rewrite Ek in Hn.
    exact (gen_unique_fresh _ _ _ Hn).
  - apply (ensure_has _ _ []). intro E. apply app_eq_nil in E as [_ E]. discriminate.
Qed.

(* ------------------------------------------------------------------ Create edge *)

Definition new_edge (g g' : graph) : option edge := nth_error (g_edges g') (length (g_edges g)).

Theorem spec_create_edge_adds_exactly g src dst sa da ret g' :
  spec_create_edge g src dst sa da = Some (ret, g') ->
  let f1 := ensure (fresh (g_objs g)) src (g_objs g) in
  Permutation (rows g')
              ((rows g ++ added (fresh (g_objs g)) [] src (g_objs g)) ++ added (fresh f1) [] dst f1)
  /\ In src (paths (rows g')) /\ In dst (paths (rows g'))
  /\ exists e, g_edges g' = g_edges g ++ [e]
               /\ lbl_at (rows g') src = Some (e_src e) /\ lbl_at (rows g') dst = Some (e_dst e)
               /\ e_sa e = sa /\ e_da e = da /\ e_idx e = i_idx ret /\ e_attrs e = [(a_label, [])]
               /\ ret = mkEid src dst sa da (e_idx e)
               /\ (forall e0, In e0 (g_edges g) -> e_lbl e0 <> e_lbl e)
               /\ (forall e0, In e0 (g_edges g) -> parallel e0 e = true -> e_idx e0 <> e_idx e).
Proof.
  unfold spec_create_edge. intro H.
  destruct src as [|s0 src']; [discriminate|]. destruct dst as [|d0 dst']; [discriminate|].
  set (src := s0 :: src') in *. set (dst := d0 :: dst') in *.
  set (f1 := ensure (fresh (g_objs g)) src (g_objs g)) in *.
  set (f2 := ensure (fresh f1) dst f1) in *.
  destruct (lbl_at (flat_f [] f2) src) as [sl|] eqn:Esl; [|discriminate].
  destruct (lbl_at (flat_f [] f2) dst) as [dl|] eqn:Edl; [|discriminate].
  injection H as <- <-. cbn zeta. unfold rows. cbn [g_objs g_edges i_idx].
  split.
  { apply Permutation_trans with (flat_f [] f1 ++ added (fresh f1) [] dst f1); [apply ensure_rows|].
    apply Permutation_app_tail. apply ensure_rows. }
  split.
  { apply (Permutation_in (l := paths (flat_f [] f1 ++ added (fresh f1) [] dst f1))).
    - apply Permutation_sym. unfold paths. apply Permutation_map. apply ensure_rows.
    - rewrite paths_app. apply in_or_app. left. apply (ensure_has src _ [] _). discriminate. }
  split; [apply (ensure_has dst _ [] _); discriminate|].
  eexists. split; [reflexivity|]. cbn [e_src e_dst e_sa e_da e_idx e_attrs e_lbl].
  split; [exact Esl|]. split; [exact Edl|].
  split; [reflexivity|]. split; [reflexivity|]. split; [reflexivity|]. split; [reflexivity|].
  split; [reflexivity|]. split.
  - intros e0 Hin E.
    assert (Hle : e_lbl e0 <= max_elbl (g_edges g)).
    { clear -Hin. induction (g_edges g) as [|x r IH]; [contradiction|]. cbn [max_elbl fold_right].
      destruct Hin as [->|Hin]; [lia|]. specialize (IH Hin). unfold max_elbl in IH. lia. }
    lia.
  - intros e0 Hin Hp E.
    apply (free_idx_fresh (map e_idx (filter (par_of sl dl sa da) (g_edges g))) 0).
    rewrite <- E. apply in_map. apply filter_In. split; [exact Hin | exact Hp].
Qed.
