(* C37 - Create and Set change exactly what they name.  Statements only.
   Graphs and the row projection are those of V.C38.Spec (rows g: one row (identity, ID = path of names,
   attributes) per object, depth first); the operations are defined in V.C37.Model:
     spec_create_object g key unq   Create(key) for an object key (unq: last element written unquoted)
     spec_create_edge g src dst sa da   Create(key) for a connection key
     spec_set_obj / spec_set_edge g t c v   Set(key of element t + attribute c, v); c = 0 is the label
     added_rows g ret   the rows of the objects Create makes: the created object and the containers
                        that were missing on its path *)
From Coq Require Import List NArith Bool Permutation.
Import ListNotations.
Require Import V.C38.Spec V.C38.Rows V.C37.Model V.C37.Proofs V.C37.Create V.C37.Clauses V.C37.Tie V.C37.Tie2 V.C37.Tie3.
Open Scope N_scope.

(* rows after = rows before + the new object and the missing containers on its path (each a non-empty
   prefix of the returned ID that did not exist, with the default attributes label = own name, shape =
   rectangle); the connections are untouched; only the last element of the requested key is ever changed *)
Theorem C37_spec_create_adds_exactly :
  forall g key unq ret g',
    NoDup (paths (rows g)) ->
    spec_create_object g key unq = Some (ret, g') ->
    Permutation (rows g') (rows g ++ added_rows g ret)
    /\ g_edges g' = g_edges g
    /\ (forall r, In r (added_rows g ret) ->
          ~ In (r_path r) (paths (rows g))
          /\ r_attrs r = dflt (last (r_path r) [])
          /\ exists k, (1 <= k <= length ret)%nat /\ r_path r = firstn k ret)
    /\ removelast ret = removelast key.
Proof. exact spec_create_adds_exactly. Qed.

Theorem C37_spec_create_fresh_id :
  forall g key unq ret g',
    NoDup (paths (rows g)) ->
    spec_create_object g key unq = Some (ret, g') ->
    ~ In ret (paths (rows g)) /\ In ret (paths (rows g')).
Proof. exact spec_create_fresh_id. Qed.

(* generateUniqueKey: the generated name is never one of the taken names (any list, any request) *)
Theorem C37_generated_name_fresh :
  forall taken strip n, ~ In (gen_unique taken strip n) taken.
Proof. exact gen_unique_fresh. Qed.

(* connections: the rows are those before + the missing endpoints with their containers; exactly one
   connection is appended, attached to the requested endpoints, with the returned index, which no
   parallel connection had (and an identity no connection had) *)
Theorem C37_spec_create_edge_adds_exactly :
  forall g src dst sa da ret g',
    spec_create_edge g src dst sa da = Some (ret, g') ->
    let f1 := ensure (fresh (g_objs g)) src (g_objs g) in
    Permutation (rows g')
                ((rows g ++ added (fresh (g_objs g)) [] src (g_objs g)) ++ added (fresh f1) [] dst f1)
    /\ In src (paths (rows g')) /\ In dst (paths (rows g'))
    /\ exists e, g_edges g' = g_edges g ++ [e]
                 /\ lbl_at (rows g') src = Some (e_src e) /\ lbl_at (rows g') dst = Some (e_dst e)
                 /\ e_sa e = sa /\ e_da e = da /\ e_idx e = i_idx ret /\ e_attrs e = [(a_label, [])]
                 /\ ret = mkEid src dst sa da (e_idx e)
                 /\ (forall e0, In e0 (g_edges g) -> e_lbl e0 <> e_lbl e)
                 /\ (forall e0, In e0 (g_edges g) -> parallel e0 e = true -> e_idx e0 <> e_idx e).
Proof. exact spec_create_edge_adds_exactly. Qed.

(* Set: identity and ID of every object stay; the attribute of the target is the given value ... *)
Theorem C37_spec_set_exact :
  forall g t c v g',
    spec_set_obj g t c v = Some g' ->
    Forall2 (fun r r' => r_lbl r' = r_lbl r /\ r_path r' = r_path r
                         /\ (r_lbl r = t -> get_attr c (r_attrs r') = Some (norm_value c v)))
            (rows g) (rows g').
Proof. exact spec_set_exact. Qed.

(* ... exactly, up to ASCII letter case for the keyword-valued attributes *)
Theorem C37_set_value_exact_or_case :
  forall c v, (keyword_attr c = false -> norm_value c v = v)
              /\ map lower_ascii (norm_value c v) = map lower_ascii v.
Proof. exact set_value_exact_or_case. Qed.

(* ... and every other object, every other attribute of the target and every connection is unchanged *)
Theorem C37_spec_set_frames_others :
  forall g t c v g',
    spec_set_obj g t c v = Some g' ->
    Forall2 (fun r r' => (r_lbl r <> t -> r' = r)
                         /\ (forall c', c' <> c -> get_attr c' (r_attrs r') = get_attr c' (r_attrs r)))
            (rows g) (rows g')
    /\ g_edges g' = g_edges g.
Proof. exact spec_set_frames_others. Qed.

Theorem C37_spec_set_edge_exact_and_frames :
  forall g l c v g',
    spec_set_edge g l c v = Some g' ->
    rows g' = rows g
    /\ Forall2 (fun e e' => e_lbl e' = e_lbl e /\ e_src e' = e_src e /\ e_dst e' = e_dst e
                            /\ e_sa e' = e_sa e /\ e_da e' = e_da e /\ e_idx e' = e_idx e
                            /\ (e_lbl e = l -> get_attr c (e_attrs e') = Some (norm_value c v))
                            /\ (e_lbl e <> l -> e' = e)
                            /\ (forall c', c' <> c -> get_attr c' (e_attrs e') = get_attr c' (e_attrs e)))
               (g_edges g) (g_edges g').
Proof. exact spec_set_edge_exact. Qed.

(* link to C05: the text Set writes for ANY value v is V.C05.Model.print_raw false v (d2ast.RawString),
   and the scalar string the compiler reads back from that text is v itself - also for the two literals
   (true / false) on which C05's node-level round trip fails, because a boolean node's scalar string is
   its text.  Consequently Set never fails in the specification. *)
Theorem C37_set_value_survives_quoting :
  forall v, read_back v = Some v.
Proof. exact set_value_survives_quoting. Qed.

(* the executable clauses (codes 10-15) that Check.v evaluates on the IMPLEMENTATION's before / after
   projections hold on the specification's own output, for every graph that passes the executable
   well-formedness test (code 2): all four operations *)
Theorem C37_spec_satisfies_clauses_set_obj :
  forall g t c v g' tp,
    wf_b g = true -> spec_set_obj g t c v = Some g' -> path_of (rows g) t = Some tp ->
    cl_set_obj (prows g) (pedges g) (prows g') (pedges g') tp c v = [].
Proof. exact clauses_set_obj. Qed.

Theorem C37_spec_satisfies_clauses_set_edge :
  forall g l c v g' e0 ti,
    wf_b g = true -> spec_set_edge g l c v = Some g' ->
    find_edge l (g_edges g) = Some e0 -> eid_of g e0 = Some ti ->
    cl_set_edge (prows g) (pedges g) (prows g') (pedges g') ti c v = [].
Proof. exact clauses_set_edge. Qed.

Theorem C37_spec_satisfies_clauses_create_obj :
  forall g key unq ret g',
    wf_b g = true -> spec_create_object g key unq = Some (ret, g') ->
    cl_create_obj (prows g) (pedges g) (prows g') (pedges g') ret = [].
Proof. exact clauses_create_obj. Qed.

Theorem C37_spec_satisfies_clauses_create_edge :
  forall g src dst sa da ret g',
    wf_b g = true -> spec_create_edge g src dst sa da = Some (ret, g') ->
    cl_create_edge (prows g) (pedges g) (prows g') (pedges g') ret = [].
Proof. exact clauses_create_edge. Qed.

(* non-vacuity *)
Definition ex_g : graph :=
  mkG [Obj 1 [97] [(0, [76;49]); (1, rect)] [Obj 2 [98] [(0, [76;50]); (1, rect)] []];
       Obj 3 [98] [(0, [76;51]); (1, rect)] []]
      [mkE 1 2 3 false true 0 [(0, [69;49])]].

Example C37_hypotheses_satisfiable :
  (* Create("b") next to an existing b gives "b 2" *)
  option_map fst (spec_create_object ex_g [[98]] true) = Some [[98;32;50]]
  (* Create("a.q.r") creates q and r below the existing a *)
  /\ option_map (fun x => length (rows (snd x))) (spec_create_object ex_g [[97];[113];[114]] true) = Some 5%nat
  (* a second connection a.b -> b gets index 1 *)
  /\ option_map (fun x => i_idx (fst x)) (spec_create_edge ex_g [[97];[98]] [[98]] false true) = Some 1
  (* Set(b.shape, "CIRCLE") stores circle; Set(a, "null") stores the string null *)
  /\ option_map (fun g => map r_attrs (rows g)) (spec_set_obj ex_g 3 1 [67;73;82;67;76;69])
     = Some [[(0, [76;49]); (1, rect)]; [(0, [76;50]); (1, rect)]; [(0, [76;51]); (1, [99;105;114;99;108;101])]]
  /\ written [110;117;108;108] = [34;110;117;108;108;34]
  /\ NoDup (paths (rows ex_g)).
Proof.
  vm_compute. repeat split.
  repeat (constructor; [cbn; intuition discriminate|]). constructor.
Qed.

Print Assumptions C37_spec_create_adds_exactly.
Print Assumptions C37_spec_create_fresh_id.
Print Assumptions C37_generated_name_fresh.
Print Assumptions C37_spec_create_edge_adds_exactly.
Print Assumptions C37_spec_set_exact.
Print Assumptions C37_set_value_exact_or_case.
Print Assumptions C37_spec_set_frames_others.
Print Assumptions C37_spec_set_edge_exact_and_frames.
Print Assumptions C37_set_value_survives_quoting.
Print Assumptions C37_spec_satisfies_clauses_set_obj.
Print Assumptions C37_spec_satisfies_clauses_set_edge.
Print Assumptions C37_spec_satisfies_clauses_create_obj.
Print Assumptions C37_spec_satisfies_clauses_create_edge.
