(* C37 - lemmas about the Create / Set specification (Model.v).
   Part 1: attributes, the written value (link to C05), Set, generated names and indexes. *)
From Coq Require Import List Arith NArith Bool Lia Permutation DecimalN DecimalFacts.
Import ListNotations.
Require Import V.Lib.RunCases V.C38.Spec V.C38.Proofs V.C38.Rows V.C38.Ops V.C37.Model.
Require V.C05.Model V.C05.Proofs V.C05.Roundtrip.
Open Scope N_scope.

(* ------------------------------------------------------------------ attributes *)

Lemma get_put_same c v a : get_attr c (put_attr c v a) = Some v.
Proof.
  induction a as [|[c0 v0] r IH]; cbn [put_attr get_attr].
  - rewrite N.eqb_refl. reflexivity.
  - destruct (c <? c0) eqn:L; [cbn [get_attr]; rewrite N.eqb_refl; reflexivity|].
    destruct (c =? c0) eqn:E; [cbn [get_attr]; rewrite N.eqb_refl; reflexivity|].
    cbn [get_attr]. rewrite N.eqb_sym, E. exact IH.
Qed.

Lemma get_put_other c c' v a : c' <> c -> get_attr c' (put_attr c v a) = get_attr c' a.
Proof.
  intro D. assert (Dc : (c =? c') = false) by (apply N.eqb_neq; congruence).
  induction a as [|[c0 v0] r IH]; cbn [put_attr get_attr].
  - rewrite Dc. reflexivity.
  - destruct (c <? c0) eqn:L; [cbn [get_attr]; rewrite Dc; reflexivity|].
    destruct (c =? c0) eqn:E.
    + apply N.eqb_eq in E. subst c0. cbn [get_attr]. rewrite Dc. reflexivity.
    + cbn [get_attr]. destruct (c0 =? c'); auto.
Qed.

Lemma lower_ascii_idem c : lower_ascii (lower_ascii c) = lower_ascii c.
Proof.
  unfold lower_ascii. destruct ((65 <=? c) && (c <=? 90)) eqn:E; [|rewrite E; reflexivity].
  apply andb_true_iff in E as [E1 E2]. apply N.leb_le in E1, E2.
  replace ((65 <=? c + 32) && (c + 32 <=? 90)) with false; [reflexivity|].
  symmetry. apply andb_false_iff. right. apply N.leb_gt. lia.
Qed.

(* "equal to the given value exactly, up to letter case for keyword-valued attributes" *)
Lemma norm_value_exact c v : keyword_attr c = false -> norm_value c v = v.
Proof. unfold norm_value. intros ->. reflexivity. Qed.
Lemma norm_value_case c v : map lower_ascii (norm_value c v) = map lower_ascii v.
Proof.
  unfold norm_value. destruct (keyword_attr c); [|reflexivity].
  rewrite map_map. apply map_ext. apply lower_ascii_idem.
Qed.

Lemma set_value_exact_or_case c v :
  (keyword_attr c = false -> norm_value c v = v) /\ map lower_ascii (norm_value c v) = map lower_ascii v.
Proof. split; [apply norm_value_exact | apply norm_value_case]. Qed.

(* ------------------------------------------------------------------ the written value (C05) *)

(* the value Set writes is print_raw false v; it reads back as v - for every string *)
Theorem set_value_survives_quoting v : read_back v = Some v.
Proof.
  unfold read_back, written.
  destruct (V.C05.Model.value_hazard v) eqn:H.
  - unfold V.C05.Model.value_hazard in H.
    destruct (V.C05.Model.raw_form v false); try discriminate.
    apply orb_true_iff in H as [H|H]; apply V.C05.Proofs.str_eqb_eq in H; subst v; vm_compute; reflexivity.
  - destruct (V.C05.Roundtrip.value_roundtrip (fun _ => false) v H) as [[_ E]|[f E]]; [discriminate|].
    rewrite E. reflexivity.
Qed.

(* ------------------------------------------------------------------ Set *)

Definition set_row (t c : N) (v : str) (r : orow) : orow :=
  mkR (r_lbl r) (r_path r) (if r_lbl r =? t then put_attr c (norm_value c v) (r_attrs r) else r_attrs r).

Definition set_edge_attr (l c : N) (v : str) (e : edge) : edge :=
  if e_lbl e =? l then set_eattrs (put_attr c (norm_value c v) (e_attrs e)) e else e.

Lemma spec_set_obj_rows g t c v g' :
  spec_set_obj g t c v = Some g' ->
  rows g' = map (set_row t c v) (rows g) /\ g_edges g' = g_edges g.
Proof.
  unfold spec_set_obj. rewrite set_value_survives_quoting. intros [= <-]. split; [|reflexivity].
  unfold rows. cbn [g_objs]. apply flat_f_map_obj.
Qed.

Lemma spec_set_edge_edges g l c v g' :
  spec_set_edge g l c v = Some g' ->
  rows g' = rows g /\ g_edges g' = map (set_edge_attr l c v) (g_edges g).
Proof.
  unfold spec_set_edge. rewrite set_value_survives_quoting. intros [= <-]. split; reflexivity.
Qed.

Lemma spec_set_obj_total g t c v : exists g', spec_set_obj g t c v = Some g'.
Proof. unfold spec_set_obj. rewrite set_value_survives_quoting. eexists; reflexivity. Qed.

Theorem spec_set_exact g t c v g' :
  spec_set_obj g t c v = Some g' ->
  Forall2 (fun r r' => r_lbl r' = r_lbl r /\ r_path r' = r_path r
                       /\ (r_lbl r = t -> get_attr c (r_attrs r') = Some (norm_value c v)))
          (rows g) (rows g').
Proof.
  intro H. destruct (spec_set_obj_rows _ _ _ _ _ H) as [-> _].
  apply Forall2_map_r. intros r _. cbn [set_row r_lbl r_path r_attrs]. repeat split.
  intros ->. rewrite N.eqb_refl. apply get_put_same.
Qed.

Theorem spec_set_frames_others g t c v g' :
  spec_set_obj g t c v = Some g' ->
  Forall2 (fun r r' => (r_lbl r <> t -> r' = r)
                       /\ (forall c', c' <> c -> get_attr c' (r_attrs r') = get_attr c' (r_attrs r)))
          (rows g) (rows g')
  /\ g_edges g' = g_edges g.
Proof.
  intro H. destruct (spec_set_obj_rows _ _ _ _ _ H) as [-> ->]. split; [|reflexivity].
  apply Forall2_map_r. intros r _. unfold set_row. split.
  - intro D. apply N.eqb_neq in D. rewrite D. apply orow_eta.
  - intros c' D. cbn [r_attrs]. destruct (r_lbl r =? t); [apply get_put_other; auto | reflexivity].
Qed.

Theorem spec_set_edge_exact g l c v g' :
  spec_set_edge g l c v = Some g' ->
  rows g' = rows g
  /\ Forall2 (fun e e' => e_lbl e' = e_lbl e /\ e_src e' = e_src e /\ e_dst e' = e_dst e
                          /\ e_sa e' = e_sa e /\ e_da e' = e_da e /\ e_idx e' = e_idx e
                          /\ (e_lbl e = l -> get_attr c (e_attrs e') = Some (norm_value c v))
                          /\ (e_lbl e <> l -> e' = e)
                          /\ (forall c', c' <> c -> get_attr c' (e_attrs e') = get_attr c' (e_attrs e)))
             (g_edges g) (g_edges g').
Proof.
  intro H. destruct (spec_set_edge_edges _ _ _ _ _ H) as [-> ->]. split; [reflexivity|].
  apply Forall2_map_r. intros e _. unfold set_edge_attr.
  destruct (e_lbl e =? l) eqn:E.
  - apply N.eqb_eq in E. cbn [set_eattrs e_lbl e_src e_dst e_sa e_da e_idx e_attrs].
    repeat split; auto.
    + intros _. apply get_put_same.
    + intro D; contradiction.
    + intros c' D. apply get_put_other; auto.
  - apply N.eqb_neq in E. repeat split; auto. intro; contradiction.
Qed.

(* ------------------------------------------------------------------ first free candidate *)

Section FirstFree.
  Variables (A : Type) (taken : list A) (mem : A -> bool) (cand : N -> A).
  Hypothesis mem_In : forall x, mem x = true <-> In x taken.
  Hypothesis cand_inj : forall i j, cand i = cand j -> i = j.

  Fixpoint ffree (i : N) (fuel : nat) : N :=
    match fuel with
    | O => i
    | S f => if mem (cand i) then ffree (i + 1) f else i
    end.

  Lemma ffree_spec : forall fuel i,
    mem (cand (ffree i fuel)) = false
    \/ (ffree i fuel = i + N.of_nat fuel
        /\ forall k, (k < fuel)%nat -> mem (cand (i + N.of_nat k)) = true).
  Proof.
    induction fuel as [|f IH]; intro i; cbn [ffree].
    - right. split; [cbn; lia|]. intros k Hk. lia.
    - destruct (mem (cand i)) eqn:E; [|left; exact E].
      destruct (IH (i + 1)) as [H | [H1 H2]]; [left; exact H|].
      right. split; [rewrite H1; lia|].
      intros [|k] Hk; [replace (i + N.of_nat 0) with i by (cbn; lia); exact E|].
      replace (i + N.of_nat (S k)) with (i + 1 + N.of_nat k) by lia. apply H2. lia.
  Qed.

  Lemma ffree_fresh i : ~ In (cand (ffree i (length taken))) taken.
  Proof.
    intro Hin. destruct (ffree_spec (length taken) i) as [H | [H1 H2]].
    - apply mem_In in Hin. congruence.
    - set (n := length taken) in *.
      set (L := map (fun k => cand (i + N.of_nat k)) (seq 0 (S n))).
      assert (ND : NoDup L).
      { unfold L. apply FinFun.Injective_map_NoDup; [|apply seq_NoDup].
        intros a b E. apply cand_inj in E. lia. }
      assert (INC : incl L taken).
      { intros x Hx. unfold L in Hx. apply in_map_iff in Hx as [k [<- Hk]]. apply in_seq in Hk.
        destruct (Nat.eq_dec k n) as [->|D].
        - rewrite <- H1. exact Hin.
        - apply mem_In. apply H2. lia. }
      pose proof (NoDup_incl_length ND INC) as Hl. unfold L in Hl. rewrite map_length, seq_length in Hl.
      fold n in Hl. lia.
  Qed.
End FirstFree.

(* decimal numerals are injective *)
Lemma udigits_inj : forall u u', udigits u = udigits u' -> u = u'.
Proof.
  induction u; destruct u'; cbn [udigits]; intro H; try discriminate; try reflexivity;
    injection H as H; f_equal; auto.
Qed.

Lemma dec_inj i j : dec i = dec j -> i = j.
Proof.
  unfold dec. intro H. apply udigits_inj in H.
  rewrite <- (DecimalN.Unsigned.of_to i), <- (DecimalN.Unsigned.of_to j), H. reflexivity.
Qed.

Lemma with_idx_inj base i j : with_idx base i = with_idx base j -> i = j.
Proof.
  unfold with_idx. intro H. apply app_inv_head in H. injection H as H. apply dec_inj; auto.
Qed.

Lemma first_free_ffree base taken : forall fuel i,
  first_free base taken i fuel
  = with_idx base (ffree _ (fun c => smem c taken) (with_idx base) i fuel).
Proof.
  induction fuel as [|f IH]; intro i; cbn [first_free ffree]; [reflexivity|].
  destruct (smem (with_idx base i) taken); [apply IH | reflexivity].
Qed.

(* generateUniqueKey returns a name that is not taken *)
Theorem gen_unique_fresh taken strip n : ~ In (gen_unique taken strip n) taken.
Proof.
  unfold gen_unique. set (base := if strip then strip_index n else n).
  destruct (smem base taken) eqn:E; [|apply smem_false; exact E].
  rewrite first_free_ffree.
  apply (ffree_fresh _ taken (fun c => smem c taken) (with_idx base)).
  - intro x. apply smem_In.
  - apply with_idx_inj.
Qed.

Lemma free_idx_ffree used : forall fuel i,
  free_idx used i fuel = ffree _ (fun x => existsb (N.eqb x) used) (fun i => i) i fuel.
Proof.
  induction fuel as [|f IH]; intro i; cbn [free_idx ffree]; [reflexivity|].
  destruct (existsb (N.eqb i) used); [apply IH | reflexivity].
Qed.

Theorem free_idx_fresh used i : ~ In (free_idx used i (length used)) used.
Proof.
  rewrite free_idx_ffree.
  apply (ffree_fresh _ used (fun x => existsb (N.eqb x) used) (fun i => i)).
  - intro x. rewrite existsb_exists. split.
    + intros [y [Hy E]]. apply N.eqb_eq in E. subst; auto.
    + intro H. exists x. split; auto. apply N.eqb_refl.
  - auto.
Qed.
