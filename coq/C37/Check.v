(* Executable checker for C37 cases (one case = one Create or Set step of an edit history). *)
From Coq Require Import List NArith Bool.
Import ListNotations.
Require Import V.Lib.RunCases.
Require Export V.C38.Spec V.C37.Model V.C37.Clauses.
Open Scope N_scope.

(* graph before (ordered forest, identities = positions), the operation's arguments, what the d2oracle
   function returned (the new ID / an error), projection of the returned graph *)
Inductive case :=
| KCreateObj (gb : graph) (key : path) (unq : bool) (must : bool) (ret : option path)
             (RA : list prow) (EA : list pedge)
| KCreateEdge (gb : graph) (src dst : path) (sa da : bool) (must : bool) (ret : option eid)
              (RA : list prow) (EA : list pedge)
| KSetObj (gb : graph) (t c : N) (v : str) (err must : bool) (RA : list prow) (EA : list pedge)
| KSetEdge (gb : graph) (l c : N) (v : str) (err must : bool) (RA : list prow) (EA : list pedge).
(* must (only meaningful when the call was refused): the same request written directly into the text
   compiles, so the refusal is a failure (code 40); see harness/c37.go c37Must *)

(* identities unique, IDs unique, edges attached, parallel edges numbered apart *)
Definition wf_case (g : graph) : bool := wf_b g.

Definition eid_eqb (a b : eid) : bool :=
  path_eqb (i_src a) (i_src b) && path_eqb (i_dst a) (i_dst b)
  && Bool.eqb (i_sa a) (i_sa b) && Bool.eqb (i_da a) (i_da b) && (i_idx a =? i_idx b).

Definition check_case (c : case) : list N :=
  match c with
  | KCreateObj gb key unq must ret RA EA =>
      flag (wf_case gb) 2
      ++ match ret with
         | None => if must then [40] else []
         | Some rp =>
             flag (match spec_create_object gb key unq with
                   | Some (rp', g') => path_eqb rp rp' && graph_is g' RA EA
                   | None => false
                   end) 1
             ++ cl_create_obj (prows gb) (pedges gb) RA EA rp
         end
  | KCreateEdge gb src dst sa da must ret RA EA =>
      flag (wf_case gb) 2
      ++ match ret with
         | None => if must then [40] else []
         | Some ri =>
             flag (match spec_create_edge gb src dst sa da with
                   | Some (ri', g') => eid_eqb ri ri' && graph_is g' RA EA
                   | None => false
                   end) 1
             ++ cl_create_edge (prows gb) (pedges gb) RA EA ri
         end
  | KSetObj gb t c v err must RA EA =>
      flag (wf_case gb) 2
      ++ if err then (if must then [40] else [])
         else
           flag (match spec_set_obj gb t c v with
                 | Some g' => graph_is g' RA EA
                 | None => false
                 end) 1
           ++ match path_of (rows gb) t with
              | Some tp => cl_set_obj (prows gb) (pedges gb) RA EA tp c v
              | None => [3]
              end
  | KSetEdge gb l c v err must RA EA =>
      flag (wf_case gb) 2
      ++ if err then (if must then [40] else [])
         else
           flag (match spec_set_edge gb l c v with
                 | Some g' => graph_is g' RA EA
                 | None => false
                 end) 1
           ++ match find_edge l (g_edges gb) with
              | Some e => match eid_of gb e with
                          | Some ti => cl_set_edge (prows gb) (pedges gb) RA EA ti c v
                          | None => [3]
                          end
              | None => [3]
              end
  end.
