(* C37 - executable clauses hold on the specification's output: Set on a connection. *)
From Coq Require Import List Arith NArith Bool Lia Permutation.
Import ListNotations.
Require Import V.Lib.RunCases V.C38.Spec V.C38.Proofs V.C38.Rows V.C40.Proofs
               V.C37.Model V.C37.Proofs V.C37.Clauses V.C37.Tie.
Open Scope N_scope.

(* the projection of one connection whose endpoints exist *)
Definition odf (o : option path) : path := match o with Some p => p | None => [] end.
Definition pe1 (rs : list orow) (e : edge) : pedge :=
  mkPE (odf (path_of rs (e_src e))) (odf (path_of rs (e_dst e))) (e_sa e) (e_da e) (e_idx e) (e_attrs e).

Lemma pedges_map g es :
  (forall e, In e es -> eid_of g e <> None) ->
  flat_map (fun e => match path_of (rows g) (e_src e), path_of (rows g) (e_dst e) with
                     | Some s, Some d => [mkPE s d (e_sa e) (e_da e) (e_idx e) (e_attrs e)]
                     | _, _ => []
                     end) es
  = map (pe1 (rows g)) es.
Proof.
  induction es as [|e es IH]; intro H; [reflexivity|]. cbn [flat_map map].
  rewrite IH by (intros e0 He0; apply H; right; exact He0).
  specialize (H e (or_introl eq_refl)). unfold eid_of in H. unfold pe1.
  destruct (path_of (rows g) (e_src e)); [|congruence]. destruct (path_of (rows g) (e_dst e)); [|congruence].
  reflexivity.
Qed.

Lemma wf_eids g : wf g -> forall e, In e (g_edges g) -> eid_of g e <> None.
Proof.
  intros [_ [_ [Hid _]]] e He. specialize (Hid e He). unfold edge_id in Hid. unfold eid_of.
  destruct (path_of (rows g) (e_src e)); [|congruence]. destruct (path_of (rows g) (e_dst e)); congruence.
Qed.

(* under unique IDs and identities, the ID of an object determines its identity *)
Lemma path_of_inj g l1 l2 p :
  uniq g -> path_of (rows g) l1 = Some p -> path_of (rows g) l2 = Some p -> l1 = l2.
Proof.
  intros [NL NP] H1 H2. unfold path_of in *.
  destruct (lookup_row l1 (rows g)) as [r1|] eqn:E1; [|discriminate].
  destruct (lookup_row l2 (rows g)) as [r2|] eqn:E2; [|discriminate].
  injection H1 as H1. injection H2 as H2.
  apply lookup_row_In in E1 as [I1 <-]. apply lookup_row_In in E2 as [I2 <-].
  assert (r1 = r2) by (apply (NoDup_map_eq r_path (rows g)); auto; congruence). congruence.
Qed.

(* two connections with the same ID are the same connection *)
Lemma eid_unique g e1 e2 i :
  wf g -> In e1 (g_edges g) -> In e2 (g_edges g) -> eid_of g e1 = Some i -> eid_of g e2 = Some i -> e1 = e2.
Proof.
  intros [U [_ [_ Hpar]]] I1 I2 H1 H2. unfold eid_of in *.
  destruct (path_of (rows g) (e_src e1)) as [s1|] eqn:S1; [|discriminate].
  destruct (path_of (rows g) (e_dst e1)) as [d1|] eqn:D1; [|discriminate].
  destruct (path_of (rows g) (e_src e2)) as [s2|] eqn:S2; [|discriminate].
  destruct (path_of (rows g) (e_dst e2)) as [d2|] eqn:D2; [|discriminate].
  injection H1 as <-. injection H2 as Es Ed Esa Eda Ei. subst s2 d2.
  apply Hpar; auto. unfold parallel.
  rewrite (path_of_inj g _ _ _ U S1 S2), (path_of_inj g _ _ _ U D1 D2), !N.eqb_refl, Esa, Eda, !Bool.eqb_reflx.
  reflexivity.
Qed.

(* the projection of a connection carries its ID *)
Lemma eid_is_pe1 g e i a j :
  eid_of g e = Some i ->
  eid_is j (mkPE (odf (path_of (rows g) (e_src e))) (odf (path_of (rows g) (e_dst e))) (e_sa e) (e_da e) (e_idx e) a) = true
  <-> j = i.
Proof.
  unfold eid_of. destruct (path_of (rows g) (e_src e)) as [s|]; [|discriminate].
  destruct (path_of (rows g) (e_dst e)) as [d|]; [|discriminate].
  intros [= <-]. unfold eid_is. cbn [odf pe_src pe_dst pe_sa pe_da pe_idx i_src i_dst i_sa i_da i_idx].
  rewrite !andb_true_iff, !path_eqb_eq, !Bool.eqb_true_iff, N.eqb_eq. destruct j as [js jd jsa jda ji]; cbn.
  split; [intros [[[[-> ->] ->] ->] ->]; reflexivity | intros [= -> -> -> -> ->]; auto].
Qed.

Definition sea_pe (l c : N) (v : str) (rs : list orow) (e : edge) : pedge :=
  mkPE (odf (path_of rs (e_src e))) (odf (path_of rs (e_dst e))) (e_sa e) (e_da e) (e_idx e)
       (if e_lbl e =? l then put_attr c (norm_value c v) (e_attrs e) else e_attrs e).

Lemma pe1_sea l c v rs e : pe1 rs (set_edge_attr l c v e) = sea_pe l c v rs e.
Proof. unfold pe1, sea_pe, set_edge_attr. destruct (e_lbl e =? l); reflexivity. Qed.

Theorem tie_set_edge g l c v g' e0 ti :
  wf g -> spec_set_edge g l c v = Some g' -> find_edge l (g_edges g) = Some e0 -> eid_of g e0 = Some ti ->
  cl_set_edge (prows g) (pedges g) (prows g') (pedges g') ti c v = [].
Proof.
  intros W H Hf Ht. pose proof W as [U [NE _]].
  destruct (spec_set_edge_edges _ _ _ _ _ H) as [ER EE].
  apply find_edge_In in Hf as [I0 L0].
  assert (EPR : prows g' = prows g) by (unfold prows; rewrite ER; reflexivity).
  assert (EB : pedges g = map (pe1 (rows g)) (g_edges g)) by (apply pedges_map, wf_eids, W).
  assert (EA : pedges g' = map (sea_pe l c v (rows g)) (g_edges g)).
  { unfold pedges. rewrite ER, EE. rewrite pedges_map.
    - rewrite map_map. apply map_ext. intro e. apply pe1_sea.
    - intros e He. apply in_map_iff in He as [e1 [<- He1]]. pose proof (wf_eids g W e1 He1) as Hn.
      unfold eid_of in *. unfold set_edge_attr. destruct (e_lbl e1 =? l); exact Hn. }
  (* the target's projection after the edit *)
  assert (At : pedge_at ti (pedges g') = Some (put_attr c (norm_value c v) (e_attrs e0))).
  { rewrite EA.
    assert (G : forall es, (forall e, In e es -> In e (g_edges g)) -> In e0 es ->
              pedge_at ti (map (sea_pe l c v (rows g)) es) = Some (put_attr c (norm_value c v) (e_attrs e0))).
    { induction es as [|e es IH]; intros Hs Hin; [contradiction|]. cbn [map pedge_at].
      destruct (eid_of g e) as [i|] eqn:Hi; [|exfalso; exact (wf_eids g W e (Hs e (or_introl eq_refl)) Hi)].
      unfold sea_pe at 1.
      destruct (eid_is ti _) eqn:Ei.
      - apply (eid_is_pe1 g e i _ ti Hi) in Ei. subst i.
        assert (e = e0) by (apply (eid_unique g e e0 ti W (Hs e (or_introl eq_refl)) I0 Hi Ht)). subst e.
        unfold sea_pe. cbn [pe_attrs]. rewrite L0, N.eqb_refl. reflexivity.
      - apply IH; [intros e1 He1; apply Hs; right; exact He1|].
        destruct Hin as [->|Hin]; [|exact Hin]. exfalso.
        assert (i = ti) by congruence. subst i.
        assert (X : eid_is ti (mkPE (odf (path_of (rows g) (e_src e0))) (odf (path_of (rows g) (e_dst e0)))
                                    (e_sa e0) (e_da e0) (e_idx e0)
                                    (if e_lbl e0 =? l then put_attr c (norm_value c v) (e_attrs e0) else e_attrs e0)) = true)
          by (apply (eid_is_pe1 g e0 ti _ ti Hi); reflexivity).
        congruence. }
    apply G; auto. }
  unfold cl_set_edge. rewrite At, get_put_same, value_matches_norm. cbn [flag app].
  rewrite EPR, (same_set_refl prow_eqb) by apply prow_eqb_refl. rewrite andb_true_r.
  assert (EL : Nat.eqb (length (pedges g')) (length (pedges g)) = true).
  { rewrite EA, EB, !map_length. apply Nat.eqb_refl. }
  rewrite EL, andb_true_r.
  replace (forallb _ (pedges g)) with true; [reflexivity|]. symmetry.
  apply forallb_forall. intros x Hx. rewrite EB in Hx. apply in_map_iff in Hx as [e [<- He]].
  destruct (eid_of g e) as [i|] eqn:Hi; [|exfalso; exact (wf_eids g W e He Hi)].
  unfold pe1 at 1.
  destruct (eid_is ti _) eqn:Ei.
  - apply (eid_is_pe1 g e i _ ti Hi) in Ei. subst i.
    assert (e = e0) by (apply (eid_unique g e e0 ti W He I0 Hi Ht)). subst e.
    unfold pe1. cbn [pe_attrs]. rewrite del_put. apply attrs_eqb_eq. reflexivity.
  - apply existsb_exists. exists (pe1 (rows g) e). split; [|apply pedge_eqb_refl].
    rewrite EA. apply in_map_iff. exists e. split; auto.
    unfold sea_pe, pe1. destruct (e_lbl e =? l) eqn:El; [|reflexivity].
    apply N.eqb_eq in El. assert (e = e0) by (apply (NoDup_map_eq e_lbl (g_edges g)); auto; congruence). subst e.
    assert (i = ti) by congruence. subst i.
    assert (X : eid_is ti (mkPE (odf (path_of (rows g) (e_src e0))) (odf (path_of (rows g) (e_dst e0)))
                                (e_sa e0) (e_da e0) (e_idx e0) (e_attrs e0)) = true)
      by (apply (eid_is_pe1 g e0 ti _ ti Hi); reflexivity).
    congruence.
Qed.

(* the same with the executable well-formedness test of Check.v (code 2) *)
Lemma clauses_set_obj g t c v g' tp :
  wf_b g = true -> spec_set_obj g t c v = Some g' -> path_of (rows g) t = Some tp ->
  cl_set_obj (prows g) (pedges g) (prows g') (pedges g') tp c v = [].
Proof. intros W. apply tie_set_obj. apply wf_b_wf. exact W. Qed.

Lemma clauses_set_edge g l c v g' e0 ti :
  wf_b g = true -> spec_set_edge g l c v = Some g' -> find_edge l (g_edges g) = Some e0 -> eid_of g e0 = Some ti ->
  cl_set_edge (prows g) (pedges g) (prows g') (pedges g') ti c v = [].
Proof. intros W. apply tie_set_edge. apply wf_b_wf. exact W. Qed.

Lemma clauses_create_obj g key unq ret g' :
  wf_b g = true -> spec_create_object g key unq = Some (ret, g') ->
  cl_create_obj (prows g) (pedges g) (prows g') (pedges g') ret = [].
Proof. intros W. apply tie_create_obj. apply wf_b_wf. exact W. Qed.
