(* C37 - executable clauses hold on the specification's output: Create of a connection. *)
From Coq Require Import List Arith NArith Bool Lia Permutation.
Import ListNotations.
Require Import V.Lib.RunCases V.C38.Spec V.C38.Proofs V.C38.Rows V.C40.Proofs
               V.C37.Model V.C37.Proofs V.C37.Create V.C37.Clauses V.C37.Tie V.C37.Tie2.
Open Scope N_scope.

(* ------------------------------------------------------------------ uniqueness is preserved by ensure *)

Lemma chain_rows_paths_nodup : forall p l pre n, NoDup (paths (chain_rows l pre n p)).
Proof.
  induction p as [|m q IH]; intros l pre n; cbn [chain_rows paths map r_path].
  - constructor; [intros []|constructor].
  - constructor; [|apply IH]. intro Hin. apply in_map_iff in Hin as [r [E Hr]].
    destruct (chain_rows_shape _ _ _ _ _ Hr) as [_ [k [Hk Hp]]]. rewrite Hp in E.
    rewrite <- (app_nil_r (pre ++ [n])) in E at 2. apply app_inv_head in E.
    destruct k; [lia|]. cbn in E. discriminate.
Qed.

Lemma added_paths_nodup : forall p l pre f, NoDup (paths (added l pre p f)).
Proof.
  induction p as [|n q IH]; intros l pre f; cbn [added]; [constructor|].
  destruct (find_name n f) as [i|].
  - destruct (nth_error f i) as [o|]; [apply IH|constructor].
  - rewrite flat_chain. apply chain_rows_paths_nodup.
Qed.

Lemma ensure_uniq l p pre f :
  NoDup (labels (flat_f pre f)) -> NoDup (paths (flat_f pre f)) -> max_lbl f < l ->
  NoDup (labels (flat_f pre (ensure l p f))) /\ NoDup (paths (flat_f pre (ensure l p f))).
Proof.
  intros NL NP Hl. pose proof (ensure_rows p l pre f) as P.
  destruct (added_labels p l pre f) as [Hge NA].
  split.
  - eapply Permutation_NoDup; [apply Permutation_sym, Permutation_map; exact P|].
    change (NoDup (labels (flat_f pre f ++ added l pre p f))). rewrite labels_app.
    apply NoDup_app_intro; auto. intros x Ha Hb.
    apply in_map_iff in Ha as [r [<- Hr]]. apply in_map_iff in Hb as [r2 [E Hr2]].
    pose proof (max_lbl_ge _ _ _ Hr). specialize (Hge r2 Hr2). lia.
  - eapply Permutation_NoDup; [apply Permutation_sym, Permutation_map; exact P|].
    change (NoDup (paths (flat_f pre f ++ added l pre p f))). rewrite paths_app.
    apply NoDup_app_intro; auto using added_paths_nodup. intros x Ha Hb.
    apply in_map_iff in Hb as [r2 [<- Hr2]]. exact (added_new _ _ _ _ _ NP Hr2 Ha).
Qed.

Lemma fresh_gt f : max_lbl f < fresh f.
Proof. unfold fresh. lia. Qed.

(* existing identities keep their row through ensure *)
Lemma lookup_ensure l p f x :
  NoDup (labels (flat_f [] f)) -> max_lbl f < l -> In x (labels (flat_f [] f)) ->
  lookup_row x (flat_f [] (ensure l p f)) = lookup_row x (flat_f [] f).
Proof.
  intros NL Hl Hx. destruct (added_labels p l [] f) as [Hge NA].
  apply (lookup_after_added (flat_f [] f) _ (added l [] p f) l x NL (ensure_rows p l [] f)); auto.
  intros r Hr. pose proof (max_lbl_ge _ _ _ Hr). lia.
Qed.

Lemma labels_ensure l p f x : In x (labels (flat_f [] f)) -> In x (labels (flat_f [] (ensure l p f))).
Proof.
  intro H. apply (Permutation_in (l := labels (flat_f [] f ++ added l [] p f))).
  - apply Permutation_sym, Permutation_map, ensure_rows.
  - rewrite labels_app. apply in_or_app. left. exact H.
Qed.

Lemma lbl_at_sound : forall rs p l, lbl_at rs p = Some l -> exists r, In r rs /\ r_path r = p /\ r_lbl r = l.
Proof.
  induction rs as [|x rs IH]; intros p l H; cbn [lbl_at] in H; [discriminate|].
  destruct (path_eqb (r_path x) p) eqn:E.
  - injection H as <-. apply path_eqb_eq in E. exists x. cbn. auto.
  - destruct (IH _ _ H) as [r [Hr [Hp Hl]]]. exists r. cbn. auto.
Qed.

Lemma pedge_at_some i : forall es e, In e es -> eid_is i e = true -> exists a, pedge_at i es = Some a.
Proof.
  induction es as [|x es IH]; intros e Hin He; [contradiction|]. cbn [pedge_at].
  destruct (eid_is i x) eqn:E; [eauto|]. destruct Hin as [->|Hin]; [congruence|]. eauto.
Qed.

Lemma pedge_at_none i : forall es, (forall e, In e es -> eid_is i e = false) -> pedge_at i es = None.
Proof.
  induction es as [|x es IH]; intro H; [reflexivity|]. cbn [pedge_at].
  rewrite (H x (or_introl eq_refl)). apply IH. intros e He. apply H. right. exact He.
Qed.

Theorem tie_create_edge g src dst sa da ret g' :
  wf g -> spec_create_edge g src dst sa da = Some (ret, g') ->
  cl_create_edge (prows g) (pedges g) (prows g') (pedges g') ret = [].
Proof.
  intros W H. pose proof W as [[NL NP] [NE _]].
  pose proof (spec_create_edge_adds_exactly _ _ _ _ _ _ _ H) as HS. cbn zeta in HS.
  unfold spec_create_edge in H.
  destruct src as [|s0 src']; [discriminate|]. destruct dst as [|d0 dst']; [discriminate|].
  set (src := s0 :: src') in *. set (dst := d0 :: dst') in *.
  set (f0 := g_objs g) in *. set (f1 := ensure (fresh f0) src f0) in *. set (f2 := ensure (fresh f1) dst f1) in *.
  destruct (lbl_at (flat_f [] f2) src) as [sl|] eqn:Esl; [|discriminate].
  destruct (lbl_at (flat_f [] f2) dst) as [dl|] eqn:Edl; [|discriminate].
  set (used := map e_idx (filter (par_of sl dl sa da) (g_edges g))) in *.
  set (i := free_idx used 0 (length used)) in *.
  injection H as <- <-.
  destruct HS as [P [_ [_ _]]].
  (* uniqueness along the two steps *)
  destruct (ensure_uniq (fresh f0) src [] f0 NL NP (fresh_gt f0)) as [NL1 NP1].
  fold f1 in NL1, NP1.
  destruct (ensure_uniq (fresh f1) dst [] f1 NL1 NP1 (fresh_gt f1)) as [NL2 NP2].
  fold f2 in NL2, NP2.
  set (g2 := mkG f2 (g_edges g ++ [mkE (max_elbl (g_edges g) + 1) sl dl sa da i [(a_label, [])]])) in *.
  assert (U2 : uniq g2) by (split; assumption).
  (* existing identities keep their row *)
  assert (Hlook : forall x, In x (labels (rows g)) -> lookup_row x (rows g2) = lookup_row x (rows g)).
  { intros x Hx. unfold rows. cbn [g_objs g2]. unfold f2.
    rewrite (lookup_ensure (fresh f1) dst f1 x NL1 (fresh_gt f1)) by (apply labels_ensure; exact Hx).
    apply (lookup_ensure (fresh f0) src f0 x NL (fresh_gt f0) Hx). }
  (* the endpoints of the new connection *)
  destruct (lbl_at_sound _ _ _ Esl) as [rs [Hrs [Prs Lrs]]].
  destruct (lbl_at_sound _ _ _ Edl) as [rd [Hrd [Prd Lrd]]].
  assert (Ps : path_of (rows g2) sl = Some src).
  { unfold path_of, rows. cbn [g_objs g2]. rewrite <- Lrs, (lookup_row_unique _ _ NL2 Hrs). cbn [option_map]. f_equal. exact Prs. }
  assert (Pd : path_of (rows g2) dl = Some dst).
  { unfold path_of, rows. cbn [g_objs g2]. rewrite <- Lrd, (lookup_row_unique _ _ NL2 Hrd). cbn [option_map]. f_equal. exact Prd. }
  set (newpe := mkPE src dst sa da i [(a_label, [])]).
  assert (EP : pedges g2 = pedges g ++ [newpe]).
  { unfold pedges at 1. cbn [g_edges g2]. rewrite flat_map_app. f_equal.
    - assert (G : forall es, (forall e, In e es -> In e (g_edges g)) ->
        flat_map (fun e => match path_of (rows g2) (e_src e), path_of (rows g2) (e_dst e) with
                           | Some s, Some d => [mkPE s d (e_sa e) (e_da e) (e_idx e) (e_attrs e)]
                           | _, _ => []
                           end) es
        = flat_map (fun e => match path_of (rows g) (e_src e), path_of (rows g) (e_dst e) with
                             | Some s, Some d => [mkPE s d (e_sa e) (e_da e) (e_idx e) (e_attrs e)]
                             | _, _ => []
                             end) es).
      { induction es as [|e es IH]; intro Hs; [reflexivity|]. cbn [flat_map].
        destruct (edge_lbls_in _ _ W (Hs e (or_introl eq_refl))) as [Is Id].
        unfold path_of. rewrite (Hlook _ Is), (Hlook _ Id). f_equal. apply IH.
        intros e0 He0. apply Hs. right. exact He0. }
      apply G. auto.
    - cbn [flat_map e_src e_dst e_sa e_da e_idx e_attrs]. rewrite Ps, Pd. reflexivity. }
  assert (Enew : eid_is (mkEid src dst sa da i) newpe = true).
  { unfold eid_is, newpe. cbn [pe_src pe_dst pe_sa pe_da pe_idx i_src i_dst i_sa i_da i_idx].
    rewrite !path_eqb_refl, !Bool.eqb_reflx, N.eqb_refl. reflexivity. }
  (* no existing connection has the returned ID *)
  assert (Eold : forall pe, In pe (pedges g) -> eid_is (mkEid src dst sa da i) pe = false).
  { intros pe Hpe.
    assert (EB : pedges g = map (pe1 (rows g)) (g_edges g)) by (apply pedges_map, wf_eids, W).
    rewrite EB in Hpe.
    apply in_map_iff in Hpe as [e0 [<- He0]].
    destruct (eid_is (mkEid src dst sa da i) (pe1 (rows g) e0)) eqn:Ei; [|reflexivity]. exfalso.
    destruct (eid_of g e0) as [i0|] eqn:Hi0; [|exact (wf_eids g W e0 He0 Hi0)].
    unfold pe1 in Ei. apply (eid_is_pe1 g e0 i0 _ _ Hi0) in Ei. subst i0.
    unfold eid_of in Hi0.
    destruct (path_of (rows g) (e_src e0)) as [s|] eqn:S0; [|discriminate].
    destruct (path_of (rows g) (e_dst e0)) as [d|] eqn:D0; [|discriminate].
    injection Hi0 as -> -> Esa Eda Ei.
    destruct (edge_lbls_in _ _ W He0) as [Is Id].
    assert (S2 : path_of (rows g2) (e_src e0) = Some src) by (unfold path_of; rewrite (Hlook _ Is); exact S0).
    assert (D2 : path_of (rows g2) (e_dst e0) = Some dst) by (unfold path_of; rewrite (Hlook _ Id); exact D0).
    pose proof (path_of_inj g2 _ _ _ U2 S2 Ps) as Es. pose proof (path_of_inj g2 _ _ _ U2 D2 Pd) as Ed.
    apply (free_idx_fresh used 0). fold i. rewrite <- Ei. unfold used. apply in_map. apply filter_In. split; auto.
    unfold par_of. rewrite Es, Ed, Esa, Eda, !N.eqb_refl, !Bool.eqb_reflx. reflexivity. }
  unfold cl_create_edge, kept, has_eid.
  rewrite (pedge_at_none _ (pedges g) Eold). cbn [negb flag app].
  destruct (pedge_at_some (mkEid src dst sa da i) (pedges g2) newpe) as [a ->];
    [rewrite EP; apply in_or_app; right; left; reflexivity | exact Enew |]. cbn [flag app].
  (* kept *)
  assert (Rsub : forall r, In r (rows g) -> In r (rows g2)).
  { intros r Hr. apply (Permutation_in _ (Permutation_sym P)). apply in_or_app. left. apply in_or_app. left. exact Hr. }
  rewrite (subset_incl prow_eqb (prows g) (prows g2)); [|apply prow_eqb_refl|].
  2:{ intros x Hx. unfold prows in *. apply in_map_iff in Hx as [r [<- Hr]]. apply in_map_iff. exists r. auto. }
  rewrite (subset_incl pedge_eqb (pedges g) (pedges g2)); [|apply pedge_eqb_refl|].
  2:{ intros x Hx. rewrite EP. apply in_or_app. left. exact Hx. }
  cbn [andb flag app].
  (* nothing else appeared *)
  assert (EL : Nat.eqb (length (pedges g2)) (S (length (pedges g))) = true).
  { rewrite EP, app_length. cbn [length]. apply Nat.eqb_eq. lia. }
  rewrite EL, andb_true_r.
  replace (forallb _ (pedges g2)) with true.
  2:{ symmetry. apply forallb_forall. intros pe Hpe. rewrite EP in Hpe. apply in_app_or in Hpe as [Hpe|[<-|[]]].
      - apply orb_true_iff. left. apply existsb_exists. exists pe. split; auto. apply pedge_eqb_refl.
      - apply orb_true_iff. right. exact Enew. }
  rewrite andb_true_r.
  replace (forallb _ (prows g2)) with true; [reflexivity|]. symmetry.
  apply forallb_forall. intros x Hx. unfold prows in Hx. apply in_map_iff in Hx as [r [<- Hr]]. cbn [fst i_src i_dst].
  apply (Permutation_in _ P) in Hr. apply in_app_or in Hr as [Hr|Hr]; [apply in_app_or in Hr as [Hr|Hr]|].
  - rewrite (proj2 (existsb_exists _ _)); [reflexivity|]. exists (r_path r, r_attrs r). split; [|apply prow_eqb_refl].
    unfold prows. apply in_map_iff. exists r. auto.
  - destruct (added_shape _ _ _ _ _ Hr) as [_ [k [Hk Hp]]]. cbn [app] in Hp. rewrite Hp.
    rewrite (is_prefix_firstn k src Hk). rewrite orb_true_r. reflexivity.
  - destruct (added_shape _ _ _ _ _ Hr) as [_ [k [Hk Hp]]]. cbn [app] in Hp. rewrite Hp.
    rewrite (is_prefix_firstn k dst Hk). rewrite orb_true_r. reflexivity.
Qed.

Lemma clauses_create_edge g src dst sa da ret g' :
  wf_b g = true -> spec_create_edge g src dst sa da = Some (ret, g') ->
  cl_create_edge (prows g) (pedges g) (prows g') (pedges g') ret = [].
Proof. intros W. apply tie_create_edge. apply wf_b_wf. exact W. Qed.
