(* C37 - the executable property clauses of Clauses.v (evaluated by Check.v on the IMPLEMENTATION's
   before / after projections) hold on the specification's own output, for all well-formed graphs. *)
From Coq Require Import List Arith NArith Bool Lia Permutation.
Import ListNotations.
Require Import V.Lib.RunCases V.C38.Spec V.C38.Proofs V.C38.Rows V.C38.Ops V.C38.Theorems V.C40.Proofs
               V.C37.Model V.C37.Proofs V.C37.Create V.C37.Clauses.
Open Scope N_scope.

(* ------------------------------------------------------------------ sets of rows *)

Lemma prow_eqb_refl r : prow_eqb r r = true.
Proof. unfold prow_eqb. rewrite path_eqb_refl. apply attrs_eqb_eq. reflexivity. Qed.

Lemma pedge_eqb_refl e : pedge_eqb e e = true.
Proof.
  unfold pedge_eqb, pedge_id_eqb. rewrite !path_eqb_refl, !Bool.eqb_reflx, N.eqb_refl. cbn.
  apply attrs_eqb_eq. reflexivity.
Qed.

Lemma subset_incl {A} (eqb : A -> A -> bool) a b :
  (forall x, eqb x x = true) -> (forall x, In x a -> In x b) -> subset eqb a b = true.
Proof.
  intros R H. unfold subset. apply forallb_forall. intros x Hx. apply existsb_exists. exists x. auto.
Qed.

Lemma same_set_refl {A} (eqb : A -> A -> bool) l : (forall x, eqb x x = true) -> same_set eqb l l = true.
Proof.
  intro R. unfold same_set. rewrite Nat.eqb_refl, !(subset_incl eqb l l R); auto.
Qed.

Definition pr (r : orow) : prow := (r_path r, r_attrs r).

Lemma prows_paths g : map fst (prows g) = paths (rows g).
Proof. unfold prows, paths. rewrite map_map. reflexivity. Qed.

Lemma prow_at_in : forall rs p a, NoDup (map fst rs) -> In (p, a) rs -> prow_at p rs = Some a.
Proof.
  induction rs as [|[q b] rs IH]; intros p a ND Hin; [contradiction|].
  cbn [prow_at fst snd]. cbn [map fst] in ND. inversion ND as [|? ? Hq ND']; subst.
  destruct Hin as [E|Hin].
  - injection E as -> ->. rewrite path_eqb_refl. reflexivity.
  - destruct (path_eqb q p) eqn:E.
    + apply path_eqb_eq in E. subst q. exfalso. apply Hq. apply in_map_iff. exists (p, a). auto.
    + apply IH; auto.
Qed.

Lemma prow_at_none : forall rs p, ~ In p (map fst rs) -> prow_at p rs = None.
Proof.
  induction rs as [|[q b] rs IH]; intros p H; [reflexivity|]. cbn [prow_at fst].
  destruct (path_eqb q p) eqn:E.
  - apply path_eqb_eq in E. subst q. exfalso. apply H. left. reflexivity.
  - apply IH. intro Hin. apply H. right. exact Hin.
Qed.

Lemma prow_at_some : forall rs p, In p (map fst rs) -> exists a, prow_at p rs = Some a.
Proof.
  intros rs p H. destruct (prow_at p rs) eqn:E; [eauto|].
  exfalso. revert H E. induction rs as [|[q b] rs IH]; intros H E; [contradiction|].
  cbn [prow_at fst] in E. destruct (path_eqb q p) eqn:Eq; [discriminate|].
  destruct H as [H|H]; [cbn in H; subst q; rewrite path_eqb_refl in Eq; discriminate|]. auto.
Qed.

Lemma NoDup_map_eq {A B} (f : A -> B) : forall l x y, NoDup (map f l) -> In x l -> In y l -> f x = f y -> x = y.
Proof.
  induction l as [|z l IH]; intros x y ND Hx Hy E; [contradiction|]. cbn in ND. inversion ND as [|? ? Hz ND']; subst.
  destruct Hx as [->|Hx], Hy as [->|Hy]; auto.
  - exfalso. apply Hz. rewrite E. apply in_map. exact Hy.
  - exfalso. apply Hz. rewrite <- E. apply in_map. exact Hx.
Qed.

(* ------------------------------------------------------------------ lookups under label-preserving maps *)

Lemma lookup_row_map (h : orow -> orow) l : forall rs,
  (forall r, r_lbl (h r) = r_lbl r) -> lookup_row l (map h rs) = option_map h (lookup_row l rs).
Proof.
  intros rs Hh. induction rs as [|x rs IH]; [reflexivity|]. cbn [map lookup_row]. rewrite Hh.
  destruct (r_lbl x =? l); [reflexivity | exact IH].
Qed.

Lemma lookup_row_app_l l a b : In l (labels a) -> lookup_row l (a ++ b) = lookup_row l a.
Proof.
  induction a as [|x a IH]; intro H; [contradiction|]. cbn [app lookup_row].
  destruct (r_lbl x =? l) eqn:E; [reflexivity|]. apply IH. destruct H as [H|H]; auto.
  apply N.eqb_neq in E. contradiction.
Qed.

Lemma pedges_ext g g' :
  g_edges g' = g_edges g ->
  (forall e, In e (g_edges g) -> path_of (rows g') (e_src e) = path_of (rows g) (e_src e)
                                 /\ path_of (rows g') (e_dst e) = path_of (rows g) (e_dst e)) ->
  pedges g' = pedges g.
Proof.
  intros Ee H. unfold pedges. rewrite Ee.
  assert (G : forall es, (forall e, In e es -> In e (g_edges g)) ->
    flat_map (fun e => match path_of (rows g') (e_src e), path_of (rows g') (e_dst e) with
                       | Some s, Some d => [mkPE s d (e_sa e) (e_da e) (e_idx e) (e_attrs e)]
                       | _, _ => []
                       end) es
    = flat_map (fun e => match path_of (rows g) (e_src e), path_of (rows g) (e_dst e) with
                         | Some s, Some d => [mkPE s d (e_sa e) (e_da e) (e_idx e) (e_attrs e)]
                         | _, _ => []
                         end) es).
  { induction es as [|e es IH]; intro Hs; [reflexivity|]. cbn [flat_map].
    destruct (H e (Hs e (or_introl eq_refl))) as [-> ->]. f_equal. apply IH.
    intros e0 He0. apply Hs. right. exact He0. }
  apply G. auto.
Qed.

(* ------------------------------------------------------------------ Set *)

Lemma del_put c v a : del_attr c (put_attr c v a) = del_attr c a.
Proof.
  unfold del_attr. induction a as [|[c0 v0] r IH]; cbn [put_attr filter fst].
  - rewrite N.eqb_refl. reflexivity.
  - destruct (c <? c0) eqn:L; [cbn [filter fst]; rewrite N.eqb_refl; reflexivity|].
    destruct (c =? c0) eqn:E.
    + cbn [filter fst]. rewrite N.eqb_refl. cbn [negb]. apply N.eqb_eq in E. subst c0. rewrite N.eqb_refl. reflexivity.
    + cbn [filter fst]. rewrite IH. reflexivity.
Qed.

Lemma value_matches_norm c v : value_matches c v (norm_value c v) = true.
Proof.
  unfold value_matches. destruct (keyword_attr c) eqn:K.
  - rewrite norm_value_case. apply str_eqb_refl.
  - rewrite norm_value_exact by exact K. apply str_eqb_refl.
Qed.

Theorem tie_set_obj g t c v g' tp :
  wf g -> spec_set_obj g t c v = Some g' -> path_of (rows g) t = Some tp ->
  cl_set_obj (prows g) (pedges g) (prows g') (pedges g') tp c v = [].
Proof.
  intros [[NL NP] _] H Ht.
  destruct (spec_set_obj_rows _ _ _ _ _ H) as [ER EE].
  unfold path_of in Ht. destruct (lookup_row t (rows g)) as [r0|] eqn:E0; [|discriminate].
  injection Ht as Ht. apply lookup_row_In in E0 as [Hr0 Hl0].
  assert (Hlbl : forall r, r_lbl (set_row t c v r) = r_lbl r) by reflexivity.
  assert (EP : pedges g' = pedges g).
  { apply pedges_ext; [exact EE|]. intros e _. unfold path_of. rewrite ER, !lookup_row_map by exact Hlbl.
    split; [destruct (lookup_row (e_src e) (rows g)) | destruct (lookup_row (e_dst e) (rows g))]; reflexivity. }
  assert (EPR : prows g' = map (fun r => pr (set_row t c v r)) (rows g)).
  { unfold prows. rewrite ER, map_map. reflexivity. }
  assert (NP' : NoDup (map fst (prows g'))).
  { rewrite EPR, map_map. cbn [pr set_row fst r_path]. exact NP. }
  assert (At : prow_at tp (prows g') = Some (put_attr c (norm_value c v) (r_attrs r0))).
  { apply prow_at_in; [exact NP'|]. rewrite EPR. apply in_map_iff. exists r0. split; auto.
    unfold pr, set_row. cbn [r_path r_attrs r_lbl]. rewrite Hl0, N.eqb_refl, Ht. reflexivity. }
  unfold cl_set_obj. rewrite At, get_put_same, value_matches_norm. cbn [flag app].
  rewrite EP, (same_set_refl pedge_eqb) by apply pedge_eqb_refl.
  assert (EL : Nat.eqb (length (prows g')) (length (prows g)) = true).
  { unfold prows. rewrite ER, !map_length. apply Nat.eqb_refl. }
  rewrite EL, !andb_true_r.
  replace (forallb _ (prows g)) with true; [reflexivity|]. symmetry.
  apply forallb_forall. intros x Hx. unfold prows in Hx. apply in_map_iff in Hx as [r [<- Hr]]. cbn [fst snd].
  destruct (path_eqb (r_path r) tp) eqn:Ep.
  - apply path_eqb_eq in Ep. assert (r = r0) by (apply (NoDup_map_eq r_path (rows g)); auto; congruence). subst r.
    rewrite del_put. apply attrs_eqb_eq. reflexivity.
  - apply existsb_exists. exists (r_path r, r_attrs r). split; [|apply prow_eqb_refl].
    rewrite EPR. apply in_map_iff. exists r. split; auto.
    unfold pr, set_row. cbn [r_path r_attrs r_lbl].
    destruct (r_lbl r =? t) eqn:El; [|reflexivity].
    apply N.eqb_eq in El. assert (r = r0) by (apply (NoDup_map_eq r_lbl (rows g)); auto; congruence). subst r.
    rewrite Ht, path_eqb_refl in Ep. discriminate.
Qed.

(* ------------------------------------------------------------------ Create object *)

Lemma max_lbl_o_ge : forall o pre r, In r (flat_o pre o) -> r_lbl r <= max_lbl_o o.
Proof.
  induction o as [l n a ks IH] using obj_ind'. intros pre r H. rewrite flat_o_eq in H. cbn [max_lbl_o].
  destruct H as [<-|H].
  - cbn [r_lbl]. clear IH. induction ks as [|k ks IHk]; cbn [fold_right]; lia.
  - rewrite Forall_forall in IH. unfold flat_f in H. apply in_flat_map in H as [k [Hk Hr]].
    specialize (IH k Hk _ _ Hr). clear Hr. induction ks as [|k0 ks IHk]; [contradiction|]. cbn [fold_right].
    destruct Hk as [->|Hk]; [lia|]. specialize (IHk Hk). lia.
Qed.

Lemma max_lbl_ge f pre r : In r (flat_f pre f) -> r_lbl r <= max_lbl f.
Proof.
  intro H. unfold flat_f in H. apply in_flat_map in H as [k [Hk Hr]]. apply max_lbl_o_ge in Hr.
  unfold max_lbl. induction f as [|k0 f IH]; [contradiction|]. cbn [fold_right].
  destruct Hk as [->|Hk]; [lia|]. specialize (IH Hk). lia.
Qed.

Lemma chain_rows_labels : forall p l pre n,
  (forall r, In r (chain_rows l pre n p) -> l <= r_lbl r) /\ NoDup (labels (chain_rows l pre n p)).
Proof.
  induction p as [|m q IH]; intros l pre n; cbn [chain_rows labels map r_lbl].
  - split; [intros r [<-|[]]; cbn; lia | constructor; [intros []|constructor]].
  - destruct (IH (l + 1) (pre ++ [n]) m) as [Hge ND]. split.
    + intros r [<-|H]; [cbn; lia|]. specialize (Hge r H). lia.
    + constructor; [|exact ND]. intro Hin. apply in_map_iff in Hin as [r [E Hr]]. specialize (Hge r Hr). lia.
Qed.

Lemma added_labels : forall p l pre f,
  (forall r, In r (added l pre p f) -> l <= r_lbl r) /\ NoDup (labels (added l pre p f)).
Proof.
  induction p as [|n q IH]; intros l pre f; cbn [added]; [split; [intros r []|constructor]|].
  destruct (find_name n f) as [i|].
  - destruct (nth_error f i) as [o|]; [apply IH | split; [intros r []|constructor]].
  - rewrite flat_chain. apply chain_rows_labels.
Qed.

Lemma NoDup_app_intro {A} (a b : list A) :
  NoDup a -> NoDup b -> (forall x, In x a -> In x b -> False) -> NoDup (a ++ b).
Proof.
  induction a as [|x a IH]; intros Na Nb D; [exact Nb|]. cbn [app]. inversion Na as [|? ? Hx Na']; subst.
  constructor.
  - intro Hin. apply in_app_or in Hin as [Hin|Hin]; [contradiction|]. apply (D x); [left; reflexivity|exact Hin].
  - apply IH; auto. intros y Hy. apply D. right. exact Hy.
Qed.

(* adding fresh-labelled rows does not disturb the lookup of existing identities *)
Lemma lookup_after_added R R' AD l0 l :
  NoDup (labels R) -> Permutation R' (R ++ AD) ->
  (forall r, In r R -> r_lbl r < l0) -> (forall r, In r AD -> l0 <= r_lbl r) -> NoDup (labels AD) ->
  In l (labels R) -> lookup_row l R' = lookup_row l R.
Proof.
  intros NR P Hlt Hge NA Hl.
  assert (ND : NoDup (labels (R ++ AD))).
  { rewrite labels_app. apply NoDup_app_intro; auto. intros x Ha Hb.
    apply in_map_iff in Ha as [r [<- Hr]]. apply in_map_iff in Hb as [r2 [E Hr2]].
    specialize (Hlt r Hr). specialize (Hge r2 Hr2). lia. }
  rewrite (lookup_row_perm l (R ++ AD) R' ND (Permutation_sym P)). apply lookup_row_app_l. exact Hl.
Qed.

Lemma is_prefix_firstn k (p : path) : (1 <= k <= length p)%nat -> is_prefix (firstn k p) p = true.
Proof.
  intro Hk. unfold is_prefix. rewrite firstn_length_le by lia. rewrite path_eqb_refl, andb_true_r.
  destruct k; [lia|]. destruct p; [cbn in Hk; lia|]. reflexivity.
Qed.

Lemma edge_lbls_in g e : wf g -> In e (g_edges g) -> In (e_src e) (labels (rows g)) /\ In (e_dst e) (labels (rows g)).
Proof.
  intros [_ [_ [He _]]] Hin. specialize (He e Hin). unfold edge_id, path_of in He.
  destruct (lookup_row (e_src e) (rows g)) as [rs|] eqn:Es; [|cbn in He; congruence].
  destruct (lookup_row (e_dst e) (rows g)) as [rd|] eqn:Ed; [|cbn in He; congruence].
  apply lookup_row_In in Es as [Hs <-]. apply lookup_row_In in Ed as [Hd <-].
  split; apply in_map; auto.
Qed.

Theorem tie_create_obj g key unq ret g' :
  wf g -> spec_create_object g key unq = Some (ret, g') ->
  cl_create_obj (prows g) (pedges g) (prows g') (pedges g') ret = [].
Proof.
  intros W H. pose proof W as [[NL NP] _].
  destruct (spec_create_adds_exactly _ _ _ _ _ NP H) as [P [EE [HA _]]].
  destruct (spec_create_fresh_id _ _ _ _ _ NP H) as [F1 F2].
  assert (Hlt : forall r, In r (rows g) -> r_lbl r < fresh (g_objs g)).
  { intros r Hr. unfold fresh. pose proof (max_lbl_ge _ _ _ Hr). lia. }
  destruct (added_labels ret (fresh (g_objs g)) [] (g_objs g)) as [Hge NA].
  assert (EP : pedges g' = pedges g).
  { apply pedges_ext; [exact EE|]. intros e He. destruct (edge_lbls_in _ _ W He) as [Is Id].
    unfold path_of.
    rewrite (lookup_after_added (rows g) (rows g') (added_rows g ret) _ _ NL P Hlt Hge NA Is).
    rewrite (lookup_after_added (rows g) (rows g') (added_rows g ret) _ _ NL P Hlt Hge NA Id). auto. }
  unfold cl_create_obj, kept, has_path.
  rewrite (prow_at_none (prows g) ret) by (rewrite prows_paths; exact F1). cbn [negb flag app].
  destruct (prow_at_some (prows g') ret) as [a ->]; [rewrite prows_paths; exact F2|]. cbn [flag app].
  rewrite EP, (subset_incl pedge_eqb (pedges g) (pedges g)) by (auto using pedge_eqb_refl).
  rewrite (subset_incl prow_eqb (prows g) (prows g')); [cbn [andb flag app]|apply prow_eqb_refl|].
  2:{ intros x Hx. unfold prows in *. apply in_map_iff in Hx as [r [<- Hr]]. apply in_map_iff. exists r.
      split; [reflexivity|].
      eapply Permutation_in; [apply Permutation_sym; exact P|]. apply in_or_app. left. exact Hr. }
  rewrite andb_true_r.
  replace (forallb _ (prows g')) with true; [reflexivity|]. symmetry.
  apply forallb_forall. intros x Hx. unfold prows in Hx. apply in_map_iff in Hx as [r [<- Hr]]. cbn [fst].
  apply (Permutation_in _ P) in Hr. apply in_app_or in Hr as [Hr|Hr].
  - apply orb_true_iff. left. apply existsb_exists. exists (r_path r, r_attrs r). split; [|apply prow_eqb_refl].
    unfold prows. apply in_map_iff. exists r. auto.
  - apply orb_true_iff. right. destruct (HA r Hr) as [_ [_ [k [Hk ->]]]]. apply is_prefix_firstn. exact Hk.
Qed.
