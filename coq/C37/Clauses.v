(* C37 - executable property clauses, evaluated on the IMPLEMENTATION's projections before (RB, EB)
   and after (RA, EA) a Create / Set call.  They never call a spec operation.
   Tie.v shows that the specification's own output satisfies them for all well-formed graphs.

   Codes:
     10  Create: the returned ID existed before the call
     11  Create: no element with the returned ID exists after the call
     12  Create: an element that existed before is missing or changed (ID or attributes)
     13  Create: something appeared that is neither the created element nor a missing container /
         endpoint on its path
     14  Set: the attribute of the target is not the given value (exactly; up to ASCII letter case for
         the keyword-valued attributes shape and style.font)
     15  Set: another attribute of the target, another element, or the number of elements changed *)
From Coq Require Import List NArith Bool.
Import ListNotations.
Require Import V.Lib.RunCases V.C38.Spec V.C37.Model.
Open Scope N_scope.

Fixpoint prow_at (p : path) (rs : list prow) : option attrs :=
  match rs with
  | [] => None
  | r :: t => if path_eqb (fst r) p then Some (snd r) else prow_at p t
  end.

Definition has_path (p : path) (rs : list prow) : bool :=
  match prow_at p rs with Some _ => true | None => false end.

(* q is a non-empty prefix of p *)
Definition is_prefix (q p : path) : bool := nonempty q && path_eqb q (firstn (length q) p).

Definition eid_is (i : eid) (e : pedge) : bool :=
  path_eqb (pe_src e) (i_src i) && path_eqb (pe_dst e) (i_dst i)
  && Bool.eqb (pe_sa e) (i_sa i) && Bool.eqb (pe_da e) (i_da i) && (pe_idx e =? i_idx i).

(* the ID of a connection of graph g *)
Definition eid_of (g : graph) (e : edge) : option eid :=
  match path_of (rows g) (e_src e), path_of (rows g) (e_dst e) with
  | Some s, Some d => Some (mkEid s d (e_sa e) (e_da e) (e_idx e))
  | _, _ => None
  end.

Fixpoint pedge_at (i : eid) (es : list pedge) : option attrs :=
  match es with
  | [] => None
  | e :: t => if eid_is i e then Some (pe_attrs e) else pedge_at i t
  end.

Definition has_eid (i : eid) (es : list pedge) : bool :=
  match pedge_at i es with Some _ => true | None => false end.

Section On.
  Variables (RB : list prow) (EB : list pedge) (RA : list prow) (EA : list pedge).

  Definition kept : bool := subset prow_eqb RB RA && subset pedge_eqb EB EA.

  Definition cl_create_obj (ret : path) : list N :=
    flag (negb (has_path ret RB)) 10
    ++ flag (has_path ret RA) 11
    ++ flag kept 12
    ++ flag (forallb (fun r => existsb (prow_eqb r) RB || is_prefix (fst r) ret) RA
             && subset pedge_eqb EA EB) 13.

  Definition cl_create_edge (ret : eid) : list N :=
    flag (negb (has_eid ret EB)) 10
    ++ flag (has_eid ret EA) 11
    ++ flag kept 12
    ++ flag (forallb (fun r => existsb (prow_eqb r) RB || is_prefix (fst r) (i_src ret) || is_prefix (fst r) (i_dst ret)) RA
             && forallb (fun e => existsb (pedge_eqb e) EB || eid_is ret e) EA
             && Nat.eqb (length EA) (S (length EB))) 13.

  Definition value_matches (c : N) (v a : str) : bool :=
    if keyword_attr c then str_eqb (map lower_ascii a) (map lower_ascii v) else str_eqb a v.

  Definition cl_set_obj (tp : path) (c : N) (v : str) : list N :=
    flag (match prow_at tp RA with
          | Some a' => match get_attr c a' with Some x => value_matches c v x | None => false end
          | None => false
          end) 14
    ++ flag (forallb (fun r => if path_eqb (fst r) tp
                               then match prow_at tp RA with
                                    | Some a' => attrs_eqb (del_attr c a') (del_attr c (snd r))
                                    | None => false
                                    end
                               else existsb (prow_eqb r) RA) RB
             && Nat.eqb (length RA) (length RB)
             && same_set pedge_eqb EB EA) 15.

  Definition cl_set_edge (ti : eid) (c : N) (v : str) : list N :=
    flag (match pedge_at ti EA with
          | Some a' => match get_attr c a' with Some x => value_matches c v x | None => false end
          | None => false
          end) 14
    ++ flag (forallb (fun e => if eid_is ti e
                               then match pedge_at ti EA with
                                    | Some a' => attrs_eqb (del_attr c a') (del_attr c (pe_attrs e))
                                    | None => false
                                    end
                               else existsb (pedge_eqb e) EA) EB
             && Nat.eqb (length EA) (length EB)
             && same_set prow_eqb RB RA) 15.
End On.
