(* C37 - Create and Set change exactly what they name.
   Extension of the abstract specification V.C38.Spec (forest of objects + edge list) by the two
   constructive operations of the editing API.  Definitions only.

   Conventions (harness/c37.go):
   - names are the scalar values of key segments (d2graph.Object.IDVal), as lists of runes;
   - every object carries its label as attribute 0 and its shape as attribute 1 (both always present:
     the compiler gives a new object the label = its name and the shape "rectangle"); every edge
     carries its label as attribute 0 (default: empty);
   - attribute lists are sorted by attribute code;
   - identities [lbl] are positions in the graph before the edit; objects and edges created by the
     operation get identities above every existing one. *)
From Coq Require Import List NArith Bool.
Import ListNotations.
Require Import V.Lib.RunCases V.C38.Spec.
Require V.C05.Model.
Open Scope N_scope.

(* ------------------------------------------------------------------ attributes *)

Definition a_label : N := 0.
Definition a_shape : N := 1.
Definition a_font : N := 18.            (* style.font *)

Definition rect : str := [114;101;99;116;97;110;103;108;101].   (* "rectangle" *)

Definition lower_ascii (c : N) : N := if (65 <=? c) && (c <=? 90) then c + 32 else c.
(* attributes whose value is a keyword: the compiler stores it lower-cased *)
Definition keyword_attr (c : N) : bool := (c =? a_shape) || (c =? a_font).
Definition norm_value (c : N) (v : str) : str := if keyword_attr c then map lower_ascii v else v.

Fixpoint get_attr (c : N) (a : attrs) : option str :=
  match a with
  | [] => None
  | (c', v) :: r => if c' =? c then Some v else get_attr c r
  end.

(* insert or replace, keeping the list sorted by code *)
Fixpoint put_attr (c : N) (v : str) (a : attrs) : attrs :=
  match a with
  | [] => [(c, v)]
  | (c', v') :: r => if c <? c' then (c, v) :: a
                     else if c =? c' then (c, v) :: r
                     else (c', v') :: put_attr c v r
  end.

(* ------------------------------------------------------------------ the value that is written

   Set writes the value through d2ast.RawString (V.C05.Model.print_raw false) and the compiler reads the
   scalar string of whatever the parser makes of that text. *)
Definition w_true : str := [116;114;117;101].
Definition w_false : str := [102;97;108;115;101].

Definition scalar_string (v : V.C05.Model.value) : option str :=
  match v with
  | V.C05.Model.VStr _ s => Some s
  | V.C05.Model.VNum s => Some s
  | V.C05.Model.VBool b => Some (if b then w_true else w_false)
  | _ => None                                  (* null / suspension markers carry no string *)
  end.

Definition written (v : str) : str := V.C05.Model.print_raw false v.

Definition read_back (v : str) : option str :=
  match V.C05.Model.parse_value (fun _ => false) (written v) with
  | V.C05.Model.POk x => scalar_string x
  | _ => None
  end.

(* ------------------------------------------------------------------ Set *)

Definition spec_set_obj (g : graph) (t c : N) (v : str) : option graph :=
  match read_back v with
  | Some v' => Some (mkG (map (map_obj t (put_attr c (norm_value c v'))) (g_objs g)) (g_edges g))
  | None => None
  end.

Definition spec_set_edge (g : graph) (l c : N) (v : str) : option graph :=
  match read_back v with
  | Some v' =>
      Some (mkG (g_objs g)
                (map (fun e => if e_lbl e =? l
                               then set_eattrs (put_attr c (norm_value c v') (e_attrs e)) e else e)
                     (g_edges g)))
  | None => None
  end.

Definition spec_set_label (g : graph) (t : N) (v : str) : option graph := spec_set_obj g t a_label v.
Definition spec_set_style (g : graph) (t c : N) (v : str) : option graph := spec_set_obj g t c v.

(* ------------------------------------------------------------------ Create: objects *)

Fixpoint find_name (n : str) (f : forest) : option nat :=
  match f with
  | [] => None
  | o :: r => if str_eqb (oname o) n then Some O else option_map S (find_name n r)
  end.

Definition dflt (n : str) : attrs := [(a_label, n); (a_shape, rect)].

(* the new objects n > p1 > p2 > ... *)
Fixpoint chain (l : N) (n : str) (p : path) : obj :=
  match p with
  | [] => Obj l n (dflt n) []
  | m :: r => Obj l n (dflt n) [chain (l + 1) m r]
  end.

(* make sure the object with ID p exists: follow existing containers, create what is missing *)
Fixpoint ensure (l : N) (p : path) (f : forest) : forest :=
  match p with
  | [] => f
  | n :: r => match find_name n f with
              | Some i => upd_nth i (fun o => set_kids (ensure l r (kids o)) o) f
              | None => f ++ [chain l n r]
              end
  end.

(* the rows [ensure] adds below prefix [pre] *)
Fixpoint added (l : N) (pre : path) (p : path) (f : forest) : list orow :=
  match p with
  | [] => []
  | n :: r => match find_name n f with
              | Some i => match nth_error f i with
                          | Some o => added l (pre ++ [n]) r (kids o)
                          | None => []
                          end
              | None => flat_o pre (chain l n r)
              end
  end.

(* the children of the object with ID p (of the root for []) *)
Fixpoint kids_at (p : path) (f : forest) : option forest :=
  match p with
  | [] => Some f
  | n :: r => match find_name n f with
              | Some i => match nth_error f i with
                          | Some o => kids_at r (kids o)
                          | None => None
                          end
              | None => None
              end
  end.

Fixpoint max_lbl_o (o : obj) : N :=
  match o with Obj l _ _ ks => fold_right (fun k m => N.max (max_lbl_o k) m) l ks end.
Definition max_lbl (f : forest) : N := fold_right (fun k m => N.max (max_lbl_o k) m) 0 f.
Definition fresh (f : forest) : N := max_lbl f + 1.

Fixpoint split_last {A} (l : list A) : option (list A * A) :=
  match l with
  | [] => None
  | [x] => Some ([], x)
  | x :: r => match split_last r with Some (a, z) => Some (x :: a, z) | None => None end
  end.

(* Create(key) for an object key: the last element is made unique among the children of its parent by
   generateUniqueKey's rule (V.C38.Spec.gen_unique; the trailing " <int>" is only stripped when the
   requested object exists and the last element is written unquoted, [unq]); returns the new ID. *)
Definition spec_create_object (g : graph) (key : path) (unq : bool) : option (path * graph) :=
  match split_last key with
  | None => None
  | Some (pp, n) =>
      let taken := match kids_at pp (g_objs g) with Some ks => names ks | None => [] end in
      let n' := gen_unique taken (unq && smem n taken) n in
      let p' := pp ++ [n'] in
      Some (p', mkG (ensure (fresh (g_objs g)) p' (g_objs g)) (g_edges g))
  end.

(* ------------------------------------------------------------------ Create: edges *)

Fixpoint lbl_at (rs : list orow) (p : path) : option N :=
  match rs with
  | [] => None
  | r :: rs' => if path_eqb (r_path r) p then Some (r_lbl r) else lbl_at rs' p
  end.

(* generateUniqueKey's loop for an edge: first index >= i that no parallel edge uses *)
Fixpoint free_idx (used : list N) (i : N) (fuel : nat) : N :=
  match fuel with
  | O => i
  | S f => if existsb (N.eqb i) used then free_idx used (i + 1) f else i
  end.

Definition par_of (sl dl : N) (sa da : bool) (e : edge) : bool :=
  (e_src e =? sl) && (e_dst e =? dl) && Bool.eqb (e_sa e) sa && Bool.eqb (e_da e) da.

Definition max_elbl (es : list edge) : N := fold_right (fun e m => N.max (e_lbl e) m) 0 es.

Record eid := mkEid { i_src : path; i_dst : path; i_sa : bool; i_da : bool; i_idx : N }.

(* Create(key) for a connection key `src (arrow) dst`: missing endpoints (and their containers) are
   created, the connection is appended with the next free index among its parallel connections. *)
Definition spec_create_edge (g : graph) (src dst : path) (sa da : bool) : option (eid * graph) :=
  match src, dst with
  | [], _ | _, [] => None
  | _, _ =>
      let f1 := ensure (fresh (g_objs g)) src (g_objs g) in
      let f2 := ensure (fresh f1) dst f1 in
      let rs := flat_f [] f2 in
      match lbl_at rs src, lbl_at rs dst with
      | Some sl, Some dl =>
          let used := map e_idx (filter (par_of sl dl sa da) (g_edges g)) in
          let i := free_idx used 0 (length used) in
          Some (mkEid src dst sa da i,
                mkG f2 (g_edges g ++ [mkE (max_elbl (g_edges g) + 1) sl dl sa da i [(a_label, [])]]))
      | _, _ => None
      end
  end.

(* ------------------------------------------------------------------ observable projections *)

(* what the harness reads off a compiled graph: objects (ID, attributes), connections (IDs of the
   endpoints, arrowheads, index, attributes) - no identities *)
Definition prow := (path * attrs)%type.
Record pedge := mkPE { pe_src : path; pe_dst : path; pe_sa : bool; pe_da : bool; pe_idx : N; pe_attrs : attrs }.

Definition prow_eqb (a b : prow) : bool := path_eqb (fst a) (fst b) && attrs_eqb (snd a) (snd b).
Definition pedge_id_eqb (a b : pedge) : bool :=
  path_eqb (pe_src a) (pe_src b) && path_eqb (pe_dst a) (pe_dst b)
  && Bool.eqb (pe_sa a) (pe_sa b) && Bool.eqb (pe_da a) (pe_da b) && (pe_idx a =? pe_idx b).
Definition pedge_eqb (a b : pedge) : bool := pedge_id_eqb a b && attrs_eqb (pe_attrs a) (pe_attrs b).

Definition prows (g : graph) : list prow := map (fun r => (r_path r, r_attrs r)) (rows g).
Definition pedges (g : graph) : list pedge :=
  flat_map (fun e => match path_of (rows g) (e_src e), path_of (rows g) (e_dst e) with
                     | Some s, Some d => [mkPE s d (e_sa e) (e_da e) (e_idx e) (e_attrs e)]
                     | _, _ => []
                     end) (g_edges g).

Definition subset {A} (eqb : A -> A -> bool) (a b : list A) : bool :=
  forallb (fun x => existsb (eqb x) b) a.
Definition same_set {A} (eqb : A -> A -> bool) (a b : list A) : bool :=
  Nat.eqb (length a) (length b) && subset eqb a b && subset eqb b a.

Definition graph_is (g : graph) (RA : list prow) (EA : list pedge) : bool :=
  same_set prow_eqb (prows g) RA && same_set pedge_eqb (pedges g) EA.
