(* Executable checker for C39 cases (one case = one rename / move step of an edit history). *)
From Coq Require Import List NArith Bool.
Import ListNotations.
Require Import V.Lib.RunCases.
Require Export V.C38.Spec V.C38.Clauses.
Open Scope N_scope.

(* same shape as C38: graph before, operation, error flag, projection of the graph after, delta map (unused here) *)
Inductive case := Step (before : graph) (o : op) (err : bool) (RA : list orow) (EA : list edge) (d : option deltas).

Definition is_relocate (o : op) : bool :=
  match o with OpRename _ _ | OpMove _ _ _ _ => true | _ => false end.

Definition check_case (c : case) : list N :=
  match c with
  | Step gb o err RA EA _ =>
      flag (wf_b gb) 2
      ++ flag (is_relocate o) 3
      ++ if err then [40]
         else
           flag (match spec_apply gb o with
                 | Some g' => graph_matches g' RA EA
                 | None => false
                 end) 1
           ++ prop_codes gb o RA EA
  end.
