(* The executable clauses of Clauses.v for rename / move hold on the specification's own output. *)
From Coq Require Import List Arith NArith Bool Lia Permutation.
Import ListNotations.
Require Import V.Lib.RunCases V.C38.Spec V.C38.Clauses V.C38.Proofs V.C38.Rows V.C38.Ops V.C38.Main V.C38.Paths
               V.C38.Theorems V.C40.Proofs V.C39.Proofs V.C38.Tie V.C38.Tie2.
Open Scope N_scope.

Lemma reroot_head pp q n' x :
  reroot pp q n' (mkR (lbl x) (pp ++ [oname x]) (oattrs x)) = mkR (lbl x) (q ++ [n']) (oattrs x).
Proof. unfold reroot. cbn [r_lbl r_path r_attrs]. rewrite skipn_last. reflexivity. Qed.

(* if every row of the subtree is re-rooted at q under n', the subtree "follows" its root *)
Lemma tie_follow RA pp x q n' :
  (forall r, In r (flat_o pp x) -> lookup_row (r_lbl r) RA = Some (reroot pp q n' r)) ->
  lookup_row (lbl x) RA = Some (mkR (lbl x) (q ++ [n']) (oattrs x)) /\ c_follow RA pp x = true.
Proof.
  intro Hf. pose proof (Hf _ (In_flat_o_head pp x)) as Hh. cbn [r_lbl] in Hh. rewrite reroot_head in Hh.
  split; auto. unfold c_follow. rewrite Hh. apply forallb_forall. intros r Hr. rewrite (Hf r Hr).
  unfold reroot. cbn [r_path]. apply path_eqb_eq. rewrite <- app_assoc. reflexivity.
Qed.

Lemma reroot_identity pp x r : In r (flat_o pp x) -> reroot pp pp (oname x) r = r.
Proof.
  intro Hr. rewrite flat_o_unfold in Hr. destruct Hr as [<- | Hr].
  - rewrite reroot_head. reflexivity.
  - destruct (flat_f_prefix _ _ _ Hr) as [rest [E _]]. apply (reroot_same pp (oname x) r rest).
    rewrite E, <- app_assoc. reflexivity.
Qed.

Lemma same_loc_refl a : same_loc a a = true.
Proof. unfold same_loc. apply list_eqb_eq; [intros; apply Nat.eqb_eq | reflexivity]. Qed.

Lemma moved_outside g t sl pp a x b r :
  find_obj t (g_objs g) = Some (sl, pp, a, x, b) ->
  nmem (r_lbl r) (map r_lbl (flat_o pp x)) = false -> ~ In r (flat_o pp x).
Proof. intros _ M Hin. apply nmem_false in M. apply M. apply in_map; exact Hin. Qed.

(* ------------------------------------------------------------------ rename *)

Theorem tie_rename g t n g' :
  wf g -> spec_apply g (OpRename t n) = Some g' -> prop_codes g (OpRename t n) (rows g') (g_edges g') = [].
Proof.
  intros W H. pose proof W as [U _]. cbn [prop_codes].
  pose proof H as H0. cbn [spec_apply] in H0.
  destruct (find_obj t (g_objs g)) as [[[[[sl pp] a] x] b]|] eqn:Hf.
  2:{ unfold spec_rename in H0. rewrite Hf in H0. discriminate. }
  destruct (spec_rename_subtree_follows g t n g' sl pp a x b U H0 Hf) as [n' [_ Hfol]].
  destruct (tie_follow _ _ _ _ _ Hfol) as [Hx Cf].
  destruct (find_obj_sound _ _ _ _ _ _ _ Hf) as [_ Lx]. rewrite Lx in Hx.
  rewrite (tie_kept g _ g' W H) by reflexivity.
  rewrite (tie_nonew g _ g' W H).
  rewrite (tie_attrs g _ g' W H) by reflexivity.
  rewrite (tie_paths_same g _ g' W H).
  2:{ intros r Hr M _. apply (new_path_outside g (OpRename t n) t sl pp a x b r U Hf); auto.
      - apply (relocate_keys g (OpRename t n) sl pp a x b eq_refl Hf).
      - eapply moved_outside; eauto. }
  rewrite (tie_idx g _ g' W H) by reflexivity.
  rewrite Hx. cbn [r_path]. rewrite nonempty_snoc, removelast_last, path_eqb_refl. rewrite Cf. reflexivity.
Qed.

(* ------------------------------------------------------------------ move *)

Lemma same_loc_neq a b : same_loc a b = false -> a <> b.
Proof. intros E ->. rewrite same_loc_refl in E. discriminate. Qed.

(* what a successful move tells about its arguments *)
Lemma spec_move_inv g t d n incl g' :
  spec_move g t d n incl = Some g' ->
  exists sl pp a x b dl dp dks,
    find_obj t (g_objs g) = Some (sl, pp, a, x, b) /\ dest_loc d (g_objs g) = Some dl
    /\ get_list dl [] (g_objs g) = Some (dp, dks)
    /\ (same_loc sl dl = true
        \/ same_loc sl dl = false
           /\ exists dl1 dp1 dks1,
                let f1 := set_list sl (if incl then a ++ b
                                       else a ++ hoist_kids (names (a ++ b)) (oname x) (kids x) ++ b) (g_objs g) in
                dest_loc d f1 = Some dl1 /\ get_list dl1 [] f1 = Some (dp1, dks1)).
Proof.
  unfold spec_move. intro H.
  destruct (find_obj t (g_objs g)) as [[[[[sl pp] a] x] b]|] eqn:Hf; [|discriminate].
  destruct (dest_loc d (g_objs g)) as [dl|] eqn:Hd; [|discriminate].
  destruct (get_list dl [] (g_objs g)) as [[dp dks]|] eqn:Hg; [|discriminate].
  exists sl, pp, a, x, b, dl, dp, dks. repeat split; auto.
  destruct (same_loc sl dl) eqn:Hs; [left; reflexivity | right; split; auto].
  destruct incl; cbv zeta.
  - destruct (dest_loc d (set_list sl (a ++ b) (g_objs g))) as [dl1|] eqn:Hd1; [|discriminate].
    destruct (get_list dl1 [] (set_list sl (a ++ b) (g_objs g))) as [[dp1 dks1]|] eqn:Hg1; [|discriminate].
    eauto.
  - destruct (dest_loc d (set_list sl (a ++ hoist_kids (names (a ++ b)) (oname x) (kids x) ++ b) (g_objs g)))
      as [dl1|] eqn:Hd1; [|discriminate].
    destruct (get_list dl1 [] (set_list sl (a ++ hoist_kids (names (a ++ b)) (oname x) (kids x) ++ b) (g_objs g)))
      as [[dp1 dks1]|] eqn:Hg1; [|discriminate].
    eauto.
Qed.

(* the destination of a move with descendants lies outside the moved subtree *)
Lemma dest_outside_incl g t sl pp a x b dlbl dl1 dp1 dks1 r :
  uniq g -> find_obj t (g_objs g) = Some (sl, pp, a, x, b) ->
  dest_loc (Some dlbl) (set_list sl (a ++ b) (g_objs g)) = Some dl1 ->
  get_list dl1 [] (set_list sl (a ++ b) (g_objs g)) = Some (dp1, dks1) ->
  In r (rows g) -> r_lbl r = dlbl -> ~ In r (flat_o pp x).
Proof.
  intros [NL _] Hf Hd1 Hg1 Hr El Hx.
  destruct (find_obj_rows _ _ _ _ _ _ _ Hf) as [A [B [E1 E2]]].
  pose proof (E2 []) as E3. cbn [app] in E3. rewrite flat_f_nil in E3. cbn [app] in E3.
  destruct (dest_row _ _ _ _ _ Hd1 Hg1) as [a1 H1]. rewrite E3 in H1.
  unfold rows in NL. rewrite E1 in NL. rewrite !labels_app in NL.
  apply in_app_or in H1 as [H1 | H1].
  - eapply (NoDup_app_disj _ _ dlbl NL).
    + change dlbl with (r_lbl (mkR dlbl dp1 a1)). apply in_map; exact H1.
    + apply in_or_app; left. rewrite <- El. apply in_map; exact Hx.
  - apply NoDup_app_r in NL. eapply (NoDup_app_disj _ _ dlbl NL).
    + rewrite <- El. apply in_map; exact Hx.
    + change dlbl with (r_lbl (mkR dlbl dp1 a1)). apply in_map; exact H1.
Qed.

(* the destination of a move without descendants is not the moved object itself *)
Lemma dest_not_target_alone g t sl pp a x b dlbl dl1 dp1 dks1 :
  uniq g -> find_obj t (g_objs g) = Some (sl, pp, a, x, b) ->
  dest_loc (Some dlbl) (set_list sl (a ++ hoist_kids (names (a ++ b)) (oname x) (kids x) ++ b) (g_objs g)) = Some dl1 ->
  get_list dl1 [] (set_list sl (a ++ hoist_kids (names (a ++ b)) (oname x) (kids x) ++ b) (g_objs g)) = Some (dp1, dks1) ->
  dlbl <> t.
Proof.
  intros [NL NP] Hf Hd1 Hg1 Et. subst dlbl.
  destruct (dest_row _ _ _ _ _ Hd1 Hg1) as [a1 H1].
  rewrite (delete_rows_forest _ _ _ _ _ _ _ NL NP Hf) in H1.
  apply in_map_iff in H1 as [r [Er Hr]]. apply filter_In in Hr as [_ Hr].
  apply (f_equal r_lbl) in Er. cbn in Er. rewrite Er, N.eqb_refl in Hr. discriminate.
Qed.

Theorem tie_move g t d n incl g' :
  wf g -> spec_apply g (OpMove t d n incl) = Some g' ->
  prop_codes g (OpMove t d n incl) (rows g') (g_edges g') = [].
Proof.
  intros W H. pose proof W as [U _]. cbn [prop_codes].
  pose proof H as H0. cbn [spec_apply] in H0.
  destruct (spec_move_inv _ _ _ _ _ _ H0) as [sl [pp [a [x [b [dl [dp [dks [Hf [Hd [Hg Hcase]]]]]]]]]]].
  rewrite Hf, Hd.
  destruct (find_obj_sound _ _ _ _ _ _ _ Hf) as [Gs Lx].
  rewrite (tie_kept g _ g' W H) by reflexivity.
  rewrite (tie_nonew g _ g' W H).
  rewrite (tie_attrs g _ g' W H) by reflexivity.
  rewrite (tie_paths_same g _ g' W H).
  2:{ intros r Hr M _. apply (new_path_outside g (OpMove t d n incl) t sl pp a x b r U Hf); auto.
      - apply (relocate_keys g (OpMove t d n incl) sl pp a x b eq_refl Hf).
      - eapply moved_outside; eauto. }
  rewrite (tie_idx g _ g' W H) by reflexivity.
  cbn [andb flag app].
  (* the row of the destination before the move *)
  assert (HD : match d with
               | None => dp = []
               | Some dlbl => exists a0, In (mkR dlbl dp a0) (rows g)
               end).
  { destruct d as [dlbl|]; [eapply dest_row; eauto | eapply dest_root; eauto]. }
  destruct Hcase as [Hs | [Hs [dl1 [dp1 [dks1 [Hd1 Hg1]]]]]].
  - (* same scope *)
    rewrite Hs. rewrite andb_false_r. cbn [negb app].
    apply same_loc_eq in Hs. subst dl. rewrite Gs in Hg. inversion Hg; subst dp dks.
    assert (Hfol : exists n', forall r, In r (flat_o pp x) -> lookup_row (r_lbl r) (rows g') = Some (reroot pp pp n' r)).
    { destruct (str_eqb n (oname x)) eqn:En.
      - exists (oname x). intros r Hr. unfold spec_move in H0. rewrite Hf, Hd, Gs, same_loc_refl, En in H0.
        inversion H0; subst g'. rewrite (reroot_identity pp x r Hr).
        destruct U as [NL _]. apply lookup_row_unique; auto. eapply subtree_in_rows; eauto.
      - apply str_eqb_neq in En.
        assert (Hm : spec_move g t d n true = Some g').
        { unfold spec_move in *. rewrite Hf, Hd, Gs, same_loc_refl in *. exact H0. }
        destruct (spec_move_subtree_follows g t d n g' sl pp a x b sl pp (a ++ x :: b) U Hm Hf Hd Gs (or_introl En))
          as [n' [_ Hn']]. eauto. }
    destruct Hfol as [n' Hfol]. destruct (tie_follow _ _ _ _ _ Hfol) as [Hx Cf].
    rewrite Cf. unfold c_placed. rewrite Hx. cbn [r_path]. rewrite nonempty_snoc, removelast_last.
    destruct d as [dlbl|].
    + destruct HD as [a0 HD].
      assert (Hout : ~ In (mkR dlbl pp a0) (flat_o pp x)).
      { intro Hin. destruct (flat_o_prefix _ _ _ Hin) as [rest [E Hne]]. cbn in E.
        rewrite <- (app_nil_r pp) in E at 1. apply app_inv_head in E. congruence. }
      pose proof (spec_relocate_only_subtree_ids_change g (OpMove t (Some dlbl) n incl) g' sl pp a x b U eq_refl H Hf _ HD Hout) as Hl.
      cbn [r_lbl] in Hl. rewrite Hl. cbn [r_path]. rewrite path_eqb_refl. reflexivity.
    + subst pp. rewrite path_eqb_refl. reflexivity.
  - (* across scopes *)
    rewrite Hs. rewrite andb_true_r. cbn [negb].
    destruct incl; cbn [negb app].
    + (* with descendants *)
      destruct (spec_move_subtree_follows g t d n g' sl pp a x b dl dp dks U H0 Hf Hd Hg (or_intror (same_loc_neq _ _ Hs)))
        as [n' [_ Hfol]].
      destruct (tie_follow _ _ _ _ _ Hfol) as [Hx Cf].
      rewrite Cf. unfold c_placed. rewrite Hx. cbn [r_path]. rewrite nonempty_snoc, removelast_last.
      destruct d as [dlbl|].
      * destruct HD as [a0 HD].
        assert (Hout : ~ In (mkR dlbl dp a0) (flat_o pp x)) by (eapply dest_outside_incl; eauto).
        pose proof (spec_relocate_only_subtree_ids_change g (OpMove t (Some dlbl) n true) g' sl pp a x b U eq_refl H Hf _ HD Hout) as Hl.
        cbn [r_lbl] in Hl. rewrite Hl. cbn [r_path]. rewrite path_eqb_refl. reflexivity.
      * subst dp. rewrite path_eqb_refl. reflexivity.
    + (* the object alone; children hoisted *)
      set (ks' := hoist_kids (names (a ++ b)) (oname x) (kids x)) in *.
      set (xp := pp ++ [oname x]).
      set (hz := zip_paths (flat_f xp (kids x)) (flat_f pp ks')).
      destruct (spec_move_alone g t d n g' sl pp a x b dl dp dks U H0 Hf Hd Hg Hs) as [[n' [_ Hx]] _].
      fold ks' xp hz in Hx.
      assert (Eod : obj_deltas g (OpMove t d n false)
                    = (xp, papply hz dp ++ [gen_unique (names dks) (smem n (names dks)) n]) :: hz).
      { cbn [obj_deltas]. rewrite Hf, Hd, Hg, Hs. reflexivity. }
      pose proof (subtree_paths_NoDup _ _ _ _ _ _ _ U Hf) as ND. rewrite flat_o_unfold in ND.
      cbn [paths map] in ND. fold xp in ND. inversion ND as [|? ? Hxp NDK]; subst.
      assert (Hrows : forall i k k', nth_error (kids x) i = Some k -> nth_error ks' i = Some k' ->
                forall r, In r (flat_o xp k) ->
                  lookup_row (r_lbl r) (rows g')
                  = Some (mkR (r_lbl r) (pp ++ oname k' :: skipn (S (length xp)) (r_path r)) (r_attrs r))).
      { apply (hoist_rows_gen g (OpMove (lbl x) d n false) g' (lbl x) sl pp a x b U H Hf). intros r Hr.
        split; [reflexivity | split; [reflexivity|]].
        unfold new_path. rewrite Eod. unfold papply at 1. cbn [plookup].
        assert (Hne : path_eqb (r_path r) xp = false).
        { apply path_eqb_neq. intro E. apply Hxp. apply in_map_iff. exists r. split; auto. }
        rewrite Hne. reflexivity. }
      assert (Lks : length ks' = length (kids x)).
      { symmetry. eapply Forall2_length'. apply hoist_kids_renamed. }
      rewrite (tie_hoist_place (rows g') pp x ks' Lks Hrows). cbn [flag app].
      unfold c_placed. rewrite Hx. cbn [r_path]. rewrite nonempty_snoc, removelast_last.
      destruct d as [dlbl|].
      * destruct HD as [a0 HD].
        assert (Nt : dlbl <> lbl x) by (eapply dest_not_target_alone; eauto).
        pose proof (lookup_after_kept g (OpMove (lbl x) (Some dlbl) n false) g' _ U H HD eq_refl) as Hl.
        cbn [r_lbl] in Hl. rewrite Hl. cbn [after_row r_path]. unfold new_path. rewrite Eod.
        assert (Hne : path_eqb dp xp = false).
        { apply path_eqb_neq. intro E. subst dp. apply Nt.
          pose proof (find_obj_target_row _ _ _ _ _ _ _ Hf) as Ht. fold xp in Ht.
          destruct U as [NL NP].
          assert (Er : mkR dlbl xp a0 = mkR (lbl x) xp (oattrs x)).
          { clear -NP HD Ht. unfold rows in *. induction (flat_f [] (g_objs g)) as [|r rs IH]; [contradiction|].
            cbn in NP. inversion NP as [|? ? Hnr NPr]; subst. destruct HD as [HD | HD], Ht as [Ht | Ht].
            - congruence.
            - exfalso. apply Hnr. rewrite HD. cbn [r_path]. apply in_map_iff.
              exists (mkR (lbl x) xp (oattrs x)). split; [reflexivity | exact Ht].
            - exfalso. apply Hnr. rewrite Ht. cbn [r_path]. apply in_map_iff.
              exists (mkR dlbl xp a0). split; [reflexivity | exact HD].
            - apply IH; auto. }
          inversion Er; auto. }
        assert (Epd : papply ((xp, papply hz dp ++ [gen_unique (names dks) (smem n (names dks)) n]) :: hz) dp = papply hz dp).
        { unfold papply at 1. cbn [plookup]. rewrite Hne. reflexivity. }
        rewrite Epd. rewrite path_eqb_refl. reflexivity.
      * subst dp. unfold papply, hz. rewrite plookup_nil_zip. rewrite path_eqb_refl. reflexivity.
Qed.

Theorem relocate_spec_satisfies_clauses g o g' :
  wf_b g = true -> is_relocate o = true -> spec_apply g o = Some g' ->
  prop_codes g o (rows g') (g_edges g') = [].
Proof.
  intros Wb D H. apply wf_b_wf in Wb. destruct o; try discriminate.
  - apply tie_rename; auto.
  - apply tie_move; auto.
Qed.
