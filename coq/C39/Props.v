(* C39 - Rename and Move relocate objects without losing anything.  Statements only.
   (definitions: V.C38.Spec; la r = (identity, attributes) of a row; reroot p q n' r = the row r of a
   subtree that sat below p, after the subtree's root was put below q under the name n') *)
From Coq Require Import List NArith Bool Permutation.
Import ListNotations.
Require Import V.C38.Spec V.C38.Clauses V.C38.Rows V.C38.Paths V.C39.Proofs V.C39.Tie V.C40.Refuted.
Open Scope N_scope.

(* every object survives with its identity and all attributes (multiset), every connection survives
   attached to the same objects, with the same arrowheads, index and attributes *)
Theorem C39_spec_move_keeps_everything :
  forall g o g', uniq g -> is_relocate o = true -> spec_apply g o = Some g' ->
    Permutation (map la (rows g')) (map la (rows g)) /\ g_edges g' = g_edges g.
Proof. exact spec_relocate_keeps_everything. Qed.

(* objects outside the moved / renamed object's subtree are literally unchanged *)
Theorem C39_spec_move_only_subtree_ids_change :
  forall g o g' sl pp a x b,
    uniq g -> is_relocate o = true -> spec_apply g o = Some g' ->
    find_obj (target o) (g_objs g) = Some (sl, pp, a, x, b) ->
    forall r, In r (rows g) -> ~ In r (flat_o pp x) -> lookup_row (r_lbl r) (rows g') = Some r.
Proof. exact spec_relocate_only_subtree_ids_change. Qed.

Theorem C39_spec_rename_subtree_follows :
  forall g t n g' sl pp a x b,
    uniq g -> spec_rename g t n = Some g' -> find_obj t (g_objs g) = Some (sl, pp, a, x, b) ->
    exists n', (n' = n \/ In n (names (a ++ b)))
               /\ forall r, In r (flat_o pp x) -> lookup_row (r_lbl r) (rows g') = Some (reroot pp pp n' r).
Proof. exact spec_rename_subtree_follows. Qed.

(* move with descendants: dp is the destination's ID (unchanged by the move) *)
Theorem C39_spec_move_subtree_follows :
  forall g t d n g' sl pp a x b dl dp dks,
    uniq g -> spec_move g t d n true = Some g' ->
    find_obj t (g_objs g) = Some (sl, pp, a, x, b) ->
    dest_loc d (g_objs g) = Some dl -> get_list dl [] (g_objs g) = Some (dp, dks) ->
    n <> oname x \/ sl <> dl ->
    exists n', (n' = n \/ In n (names dks))
               /\ forall r, In r (flat_o pp x) -> lookup_row (r_lbl r) (rows g') = Some (reroot pp dp n' r).
Proof. exact spec_move_subtree_follows. Qed.

(* move without descendants across scopes: the object alone goes below the destination (papply hz dp is
   the destination's ID after the children were hoisted); descendants that are not moved stay in the
   former parent, renamed only on a name collision there *)
Theorem C39_spec_move_without_descendants :
  forall g t d n g' sl pp a x b dl dp dks,
    uniq g -> spec_move g t d n false = Some g' ->
    find_obj t (g_objs g) = Some (sl, pp, a, x, b) ->
    dest_loc d (g_objs g) = Some dl -> get_list dl [] (g_objs g) = Some (dp, dks) -> same_loc sl dl = false ->
    let ks' := hoist_kids (names (a ++ b)) (oname x) (kids x) in
    let hz := zip_paths (flat_f (pp ++ [oname x]) (kids x)) (flat_f pp ks') in
    (exists n', (n' = n \/ In n (names dks))
                /\ lookup_row t (rows g') = Some (mkR t (papply hz dp ++ [n']) (oattrs x)))
    /\ forall i k, nth_error (kids x) i = Some k ->
       exists n',
         (forall r, In r (flat_o (pp ++ [oname x]) k) ->
                    lookup_row (r_lbl r) (rows g')
                    = Some (mkR (r_lbl r) (pp ++ n' :: skipn (S (length (pp ++ [oname x]))) (r_path r)) (r_attrs r)))
         /\ (n' = oname k \/ In (oname k) (names (a ++ b)) \/ In (oname k) (names (firstn i ks'))).
Proof. exact spec_move_alone. Qed.

(* d2oracle.Rename does not choose the name the specification (and RenameIDDeltas) choose for nested
   objects: faithful model of its two-step name generation (V.C40.Refuted), witnesses replayed on the
   real code by the harness (recorded finding C39-rename-unique-name-wrong-scope) *)
Theorem C39_rename_name_refuted_for_nested_objects :
  (go_rename_name g_rename 3 [99] = Some [99; 32; 50] /\ spec_rename_name g_rename 3 [99] = Some [99])
  /\ (go_rename_name g_rename2 3 [99] = Some [99; 32; 51] /\ spec_rename_name g_rename2 3 [99] = Some [99; 32; 50]).
Proof. exact rename_root_scope_refuted. Qed.

(* the executable clauses (codes 11-21) that Check.v evaluates on the IMPLEMENTATION's before/after for a
   rename / move step hold on the specification's own output, for every graph that passes the
   executable well-formedness test (code 2) *)
Theorem C39_spec_satisfies_executable_clauses :
  forall g o g', wf_b g = true -> is_relocate o = true -> spec_apply g o = Some g' ->
    prop_codes g o (rows g') (g_edges g') = [].
Proof. exact relocate_spec_satisfies_clauses. Qed.

(* non-vacuity: moving container 3 ("a.c", with child "d") below 5 ("b"), with and without descendants *)
Definition ex_graph : graph :=
  mkG [Obj 1 [97] [] [Obj 2 [98] [] []; Obj 3 [99] [(2, [114])] [Obj 4 [100] [] []]]; Obj 5 [98] [] []]
      [mkE 1 2 4 false true 0 []; mkE 2 2 5 false true 0 []; mkE 3 2 5 false true 1 []].

Example C39_hypotheses_satisfiable :
  wf_b ex_graph = true
  /\ option_map (fun g => map r_path (rows g)) (spec_move ex_graph 3 (Some 5) [99] true)
     = Some [[[97]]; [[97]; [98]]; [[98]]; [[98]; [99]]; [[98]; [99]; [100]]]
  /\ option_map (fun g => map r_path (rows g)) (spec_move ex_graph 3 (Some 5) [99] false)
     = Some [[[97]]; [[97]; [98]]; [[97]; [100]]; [[98]]; [[98]; [99]]]
  /\ option_map (fun g => map r_path (rows g)) (spec_rename ex_graph 3 [98])
     = Some [[[97]]; [[97]; [98]]; [[97]; [98; 32; 50]]; [[97]; [98; 32; 50]; [100]]; [[98]]].
Proof. vm_compute. repeat split. Qed.

Print Assumptions C39_spec_move_keeps_everything.
Print Assumptions C39_spec_move_only_subtree_ids_change.
Print Assumptions C39_spec_rename_subtree_follows.
Print Assumptions C39_spec_move_subtree_follows.
Print Assumptions C39_spec_move_without_descendants.
Print Assumptions C39_spec_satisfies_executable_clauses.
Print Assumptions C39_rename_name_refuted_for_nested_objects.
