(* C39: rename and move relocate objects without losing anything. *)
From Coq Require Import List Arith NArith Bool Lia Permutation.
Import ListNotations.
Require Import V.Lib.RunCases V.C38.Spec V.C38.Proofs V.C38.Rows V.C38.Ops V.C38.Main V.C38.Paths V.C38.Theorems.
Open Scope N_scope.

Definition is_relocate (o : op) : bool :=
  match o with OpRename _ _ | OpMove _ _ _ _ => true | _ => false end.
Definition target (o : op) : N :=
  match o with
  | OpDelObj t | OpDelObjAttr t _ | OpRename t _ | OpMove t _ _ _ => t
  | OpDelEdge l | OpDelEdgeAttr l _ => l
  end.

Definition la (r : orow) : N * attrs := (r_lbl r, r_attrs r).

(* every object survives with its identity and all attributes, every connection survives attached to
   the same objects with the same arrowheads, index and attributes *)
Theorem spec_relocate_keeps_everything g o g' :
  uniq g -> is_relocate o = true -> spec_apply g o = Some g' ->
  Permutation (map la (rows g')) (map la (rows g)) /\ g_edges g' = g_edges g.
Proof.
  intros U R H. split.
  - pose proof (rows_after _ _ _ U H) as P. apply (Permutation_map la) in P.
    rewrite P. rewrite filter_keep_all by (destruct o; try discriminate; reflexivity).
    rewrite map_map. apply Permutation_refl'. apply map_ext. intro r.
    unfold la, after_row. cbn. destruct o; try discriminate; reflexivity.
  - rewrite (edges_after _ _ _ H).
    assert (Hk : forall e, keep_edge o e = true) by (destruct o; try discriminate; reflexivity).
    rewrite filter_all by auto. destruct o; try discriminate; cbn [after_edge]; apply map_id.
Qed.

Lemma len_renamed p q x n' : length (flat_o p x) = length (flat_o q (set_name n' x)).
Proof. apply Forall2_length' with (R := same_la). apply flat_o_same_la_renamed. eexists; reflexivity. Qed.

(* the predicted deltas of a relocation only concern rows of the target's subtree *)
Lemma relocate_keys g o sl pp a x b :
  is_relocate o = true -> find_obj (target o) (g_objs g) = Some (sl, pp, a, x, b) ->
  forall p, In p (map fst (obj_deltas g o)) -> In p (paths (flat_o pp x)).
Proof.
  intros R Hf p Hp. destruct o as [| | | | t n | t d n incl]; try discriminate; cbn [target] in Hf;
    cbn [obj_deltas] in Hp; rewrite Hf in Hp.
  - destruct (str_eqb n (oname x)); [contradiction|]. rewrite zip_paths_fst in Hp by apply len_renamed. exact Hp.
  - destruct (dest_loc d (g_objs g)) as [dl|]; [|contradiction].
    destruct (get_list dl [] (g_objs g)) as [[dp dks]|]; [|contradiction].
    destruct (same_loc sl dl); [destruct (str_eqb n (oname x)); [contradiction|] | destruct incl].
    + rewrite zip_paths_fst in Hp by apply len_renamed. exact Hp.
    + rewrite zip_paths_fst in Hp by apply len_renamed. exact Hp.
    + rewrite flat_o_unfold. cbn [map fst] in Hp. destruct Hp as [<- | Hp]; [left; reflexivity | right].
      rewrite zip_paths_fst in Hp; auto.
      apply Forall2_length' with (R := same_la). apply flat_f_same_la_renamed, hoist_kids_renamed.
Qed.

(* only the moved / renamed object and its descendants can change ID: every other object is literally
   unchanged *)
Theorem spec_relocate_only_subtree_ids_change g o g' sl pp a x b :
  uniq g -> is_relocate o = true -> spec_apply g o = Some g' ->
  find_obj (target o) (g_objs g) = Some (sl, pp, a, x, b) ->
  forall r, In r (rows g) -> ~ In r (flat_o pp x) -> lookup_row (r_lbl r) (rows g') = Some r.
Proof.
  intros U R H Hf r Hr Hn.
  assert (K : keep_row o r = true) by (destruct o; try discriminate; reflexivity).
  rewrite (lookup_after_kept _ _ _ _ U H Hr K). f_equal. unfold after_row.
  rewrite (new_path_outside g o (target o) sl pp a x b r U Hf (relocate_keys _ _ _ _ _ _ _ R Hf) Hr Hn).
  replace (new_attrs o r) with (r_attrs r) by (destruct o; try discriminate; reflexivity).
  apply orow_eta.
Qed.

(* IDs of the rows of x after re-rooting the whole subtree *)
Lemma zip_lookup_self p q x n' r :
  NoDup (paths (flat_o p x)) -> In r (flat_o p x) ->
  papply (zip_paths (flat_o p x) (flat_o q (set_name n' x))) (r_path r) = r_path (reroot p q n' r).
Proof.
  intros ND Hr. unfold papply. rewrite (plookup_unique _ (r_path r) (r_path (reroot p q n' r))); auto.
  - rewrite zip_paths_fst by apply len_renamed. exact ND.
  - apply zip_paths_In. rewrite (flat_o_reroot x p q n'). apply in_combine_map; auto.
Qed.

Lemma subtree_paths_NoDup g t sl pp a x b :
  uniq g -> find_obj t (g_objs g) = Some (sl, pp, a, x, b) -> NoDup (paths (flat_o pp x)).
Proof.
  intros [_ NP] Hf. destruct (find_obj_rows _ _ _ _ _ _ _ Hf) as [A [B [E1 _]]]. unfold rows in NP.
  rewrite E1, paths_app in NP. apply NoDup_app_r in NP. rewrite paths_app in NP. apply NoDup_app_l in NP. exact NP.
Qed.

Lemma subtree_in_rows g t sl pp a x b r :
  find_obj t (g_objs g) = Some (sl, pp, a, x, b) -> In r (flat_o pp x) -> In r (rows g).
Proof.
  intros Hf Hr. destruct (find_obj_rows _ _ _ _ _ _ _ Hf) as [A [B [E1 _]]]. unfold rows. rewrite E1.
  apply in_or_app; right. apply in_or_app; left. exact Hr.
Qed.

Lemma gen_unique_requested taken n : gen_unique taken (smem n taken) n = n \/ In n taken.
Proof.
  destruct (smem n taken) eqn:E; [right; apply smem_In; exact E | left].
  unfold gen_unique. rewrite E. reflexivity.
Qed.

Lemma reroot_same p n r rest : r_path r = p ++ n :: rest -> reroot p p n r = r.
Proof.
  intro E. unfold reroot. rewrite E.
  replace (S (length p)) with (length (p ++ [n])) by (rewrite app_length; cbn; lia).
  replace (p ++ n :: rest) with ((p ++ [n]) ++ rest) by (rewrite <- app_assoc; reflexivity).
  rewrite skipn_app_exact. replace ((p ++ [n]) ++ rest) with (p ++ n :: rest) by (rewrite <- app_assoc; reflexivity).
  rewrite <- E. apply orow_eta.
Qed.

(* rename: the object gets the requested name unless a sibling has it; all its descendants follow *)
Theorem spec_rename_subtree_follows g t n g' sl pp a x b :
  uniq g -> spec_rename g t n = Some g' -> find_obj t (g_objs g) = Some (sl, pp, a, x, b) ->
  exists n', (n' = n \/ In n (names (a ++ b)))
             /\ forall r, In r (flat_o pp x) -> lookup_row (r_lbl r) (rows g') = Some (reroot pp pp n' r).
Proof.
  intros U H Hf. assert (H' : spec_apply g (OpRename t n) = Some g') by exact H.
  pose proof (subtree_paths_NoDup _ _ _ _ _ _ _ U Hf) as ND.
  destruct (str_eqb n (oname x)) eqn:En.
  - exists n. split; auto. intros r Hr. apply str_eqb_eq in En. subst n.
    pose proof (subtree_in_rows _ _ _ _ _ _ _ _ Hf Hr) as Hrows.
    rewrite (lookup_after_kept _ _ _ _ U H' Hrows eq_refl). f_equal.
    assert (Ep : exists rest, r_path r = pp ++ oname x :: rest).
    { rewrite flat_o_unfold in Hr. destruct Hr as [<- | Hr]; [exists []; reflexivity|].
      destruct (flat_f_prefix _ _ _ Hr) as [rest [E _]]. exists rest. rewrite E, <- app_assoc. reflexivity. }
    destruct Ep as [rest Ep]. rewrite (reroot_same pp (oname x) r rest Ep).
    unfold after_row, new_path. cbn [new_attrs obj_deltas]. rewrite Hf, str_eqb_refl.
    unfold papply. cbn [plookup]. apply orow_eta.
  - exists (gen_unique (names (a ++ b)) (smem n (names (a ++ b))) n). split; [apply gen_unique_requested|].
    intros r Hr. pose proof (subtree_in_rows _ _ _ _ _ _ _ _ Hf Hr) as Hrows.
    rewrite (lookup_after_kept _ _ _ _ U H' Hrows eq_refl). f_equal. unfold after_row. cbn [new_attrs].
    unfold new_path. cbn [obj_deltas]. rewrite Hf, En.
    rewrite zip_lookup_self by auto. reflexivity.
Qed.

(* move with descendants: the object lands directly below the destination (whose own ID is unchanged)
   under the requested name unless that name is taken there, and all its descendants follow *)
Theorem spec_move_subtree_follows g t d n g' sl pp a x b dl dp dks :
  uniq g -> spec_move g t d n true = Some g' ->
  find_obj t (g_objs g) = Some (sl, pp, a, x, b) ->
  dest_loc d (g_objs g) = Some dl -> get_list dl [] (g_objs g) = Some (dp, dks) ->
  n <> oname x \/ sl <> dl ->
  exists n', (n' = n \/ In n (names dks))
             /\ forall r, In r (flat_o pp x) -> lookup_row (r_lbl r) (rows g') = Some (reroot pp dp n' r).
Proof.
  intros U H Hf Hd Hg Hne. assert (H' : spec_apply g (OpMove t d n true) = Some g') by exact H.
  pose proof (subtree_paths_NoDup _ _ _ _ _ _ _ U Hf) as ND.
  exists (gen_unique (names dks) (smem n (names dks)) n). split; [apply gen_unique_requested|].
  intros r Hr. pose proof (subtree_in_rows _ _ _ _ _ _ _ _ Hf Hr) as Hrows.
  rewrite (lookup_after_kept _ _ _ _ U H' Hrows eq_refl). f_equal. unfold after_row. cbn [new_attrs].
  unfold new_path. cbn [obj_deltas]. rewrite Hf, Hd, Hg.
  destruct (same_loc sl dl) eqn:Es.
  - apply same_loc_eq in Es. subst dl.
    destruct (find_obj_sound _ _ _ _ _ _ _ Hf) as [G _]. rewrite G in Hg. inversion Hg; subst dp dks.
    destruct (str_eqb n (oname x)) eqn:En.
    + apply str_eqb_eq in En. destruct Hne; congruence.
    + rewrite zip_lookup_self by auto. reflexivity.
  - rewrite zip_lookup_self by auto. reflexivity.
Qed.

(* move without descendants across scopes: the object alone goes below the destination; its children
   stay with the former parent exactly as after a deletion (see spec_delete_hoists_children) *)
Theorem spec_move_alone g t d n g' sl pp a x b dl dp dks :
  uniq g -> spec_move g t d n false = Some g' ->
  find_obj t (g_objs g) = Some (sl, pp, a, x, b) ->
  dest_loc d (g_objs g) = Some dl -> get_list dl [] (g_objs g) = Some (dp, dks) -> same_loc sl dl = false ->
  let ks' := hoist_kids (names (a ++ b)) (oname x) (kids x) in
  let hz := zip_paths (flat_f (pp ++ [oname x]) (kids x)) (flat_f pp ks') in
  (exists n', (n' = n \/ In n (names dks))
              /\ lookup_row t (rows g') = Some (mkR t (papply hz dp ++ [n']) (oattrs x)))
  /\ forall i k, nth_error (kids x) i = Some k ->
     exists n',
       (forall r, In r (flat_o (pp ++ [oname x]) k) ->
                  lookup_row (r_lbl r) (rows g')
                  = Some (mkR (r_lbl r) (pp ++ n' :: skipn (S (length (pp ++ [oname x]))) (r_path r)) (r_attrs r)))
       /\ (n' = oname k \/ In (oname k) (names (a ++ b)) \/ In (oname k) (names (firstn i ks'))).
Proof.
  intros U H Hf Hd Hg Hs ks' hz. assert (H' : spec_apply g (OpMove t d n false) = Some g') by exact H.
  pose proof (subtree_paths_NoDup _ _ _ _ _ _ _ U Hf) as ND.
  destruct (find_obj_sound _ _ _ _ _ _ _ Hf) as [_ Lx].
  assert (Eod : obj_deltas g (OpMove t d n false)
                = (pp ++ [oname x], papply hz dp ++ [gen_unique (names dks) (smem n (names dks)) n]) :: hz).
  { cbn [obj_deltas]. rewrite Hf, Hd, Hg, Hs. reflexivity. }
  split.
  - exists (gen_unique (names dks) (smem n (names dks)) n). split; [apply gen_unique_requested|].
    pose proof (find_obj_target_row _ _ _ _ _ _ _ Hf) as Hrow.
    change t with (r_lbl (mkR t (pp ++ [oname x]) (oattrs x))) at 1.
    rewrite (lookup_after_kept _ _ _ _ U H' Hrow eq_refl). f_equal. unfold after_row. cbn [new_attrs r_lbl r_attrs r_path].
    f_equal. unfold new_path. rewrite Eod. unfold papply at 1. cbn [plookup]. rewrite path_eqb_refl. reflexivity.
  - intros i k Hk.
    pose proof (hoist_kids_renamed (names (a ++ b)) (oname x) (kids x)) as F. fold ks' in F.
    assert (Hk' : exists k', nth_error ks' i = Some k').
    { destruct (nth_error ks' i) eqn:E; eauto. exfalso. apply nth_error_None in E.
      rewrite <- (Forall2_length' _ _ _ F) in E. apply nth_error_None in E. congruence. }
    destruct Hk' as [k' Hk'].
    assert (Hc : In (k, k') (combine (kids x) ks')).
    { assert (G : forall (l l' : forest) j, nth_error l j = Some k -> nth_error l' j = Some k' -> In (k, k') (combine l l')).
      { induction l as [|y l IH]; intros [|y' l'] [|j] A0 B0; cbn in *; try discriminate.
        - inversion A0; inversion B0; subst. left; reflexivity.
        - right. eapply IH; eauto. }
      eapply G; eauto. }
    assert (Hren : renamed k k').
    { clear -F Hc. induction F; cbn in Hc; [contradiction|]. destruct Hc as [E | Hc]; auto. inversion E; subst; auto. }
    destruct Hren as [n' ->]. exists n'. split.
    + intros r Hr.
      assert (Hsub : In r (flat_f (pp ++ [oname x]) (kids x))).
      { eapply In_flat_f; [eapply nth_error_In; eauto | exact Hr]. }
      assert (Hrows : In r (rows g)).
      { eapply subtree_in_rows; eauto. rewrite flat_o_unfold. right. exact Hsub. }
      rewrite (lookup_after_kept _ _ _ _ U H' Hrows eq_refl). f_equal. unfold after_row. cbn [new_attrs]. f_equal.
      unfold new_path. rewrite Eod.
      assert (Hne : path_eqb (r_path r) (pp ++ [oname x]) = false).
      { apply path_eqb_neq. intro E. rewrite flat_o_unfold in ND. cbn [paths map] in ND. inversion ND; subst.
        apply H2. apply in_map_iff. exists r. split; [exact E | exact Hsub]. }
      unfold papply at 1. cbn [plookup]. rewrite Hne. fold (papply hz (r_path r)).
      apply (zip_lookup_child pp (pp ++ [oname x]) (kids x) ks' k n' r); auto.
      rewrite flat_o_unfold in ND. cbn [paths map] in ND. inversion ND; subst. assumption.
    + destruct (hoist_kids_conflict _ _ _ _ _ _ Hk Hk') as [E | [E | E]]; auto.
      left. destruct k; cbn in *. congruence.
Qed.
