(* C47 — proofs: every character the renderer draws as SVG text is a character of the corpus the font
   subsets are cut for (up to two named exceptions), hence has a glyph in the embedded subset whenever
   the subsetter keeps the corpus characters the full font has. *)
From Coq Require Import List NArith Bool Lia.
Import ListNotations.
Require Import V.C47.Model.
Open Scope N_scope.

(* ------------------------------------------------------------------ generic list facts *)

Lemma in_concat_iff {A} (l : list (list A)) x : In x (concat l) <-> exists s, In s l /\ In x s.
Proof.
  induction l as [|a l IH]; simpl.
  - split; [tauto|intros [s [[] _]]].
  - rewrite in_app_iff, IH. split.
    + intros [H|[s [H1 H2]]]; [exists a; auto|exists s; auto].
    + intros [s [[<-|H1] H2]]; [auto|right; exists s; auto].
Qed.

Lemma incl_app_l {A} (a b c : list A) : incl a b -> incl a (b ++ c).
Proof. intros H x Hx. apply in_or_app. left. apply H, Hx. Qed.
Lemma incl_app_r {A} (a b c : list A) : incl a c -> incl a (b ++ c).
Proof. intros H x Hx. apply in_or_app. right. apply H, Hx. Qed.

Lemma incl_flat_map {A B} (f : A -> list B) l x : In x l -> incl (f x) (flat_map f l).
Proof. intros H y Hy. apply in_flat_map. exists x. auto. Qed.

(* ------------------------------------------------------------------ escaping and RenderText *)

Definition bad (s : str) : bool := existsb (fun c => negb (xml_char c)) s.

Lemma xml_clean_in c s : In c (xml_clean s) -> In c s \/ (c = 65533 /\ bad s = true).
Proof.
  unfold xml_clean. rewrite in_map_iff. intros [x [E H]]. destruct (xml_char x) eqn:X.
  - left. subst. exact H.
  - right. split; [auto|]. unfold bad. apply existsb_exists. exists x. rewrite X. auto.
Qed.

Lemma xml_clean_nil s : xml_clean s = [] -> s = [].
Proof. destruct s; [reflexivity|discriminate]. Qed.

Lemma split_nl_go_in s : forall cur l c, In l (split_nl_go cur s) -> In c l -> In c cur \/ In c s.
Proof.
  induction s as [|a s IH]; intros cur l c Hl Hc; simpl in Hl.
  - destruct Hl as [<-|[]]. left. apply in_rev. exact Hc.
  - destruct (a =? 10).
    + destruct Hl as [<-|Hl].
      * left. apply in_rev. exact Hc.
      * destruct (IH [] l c Hl Hc) as [[]|H]. right. right. exact H.
    + destruct (IH (a :: cur) l c Hl Hc) as [[<-|H]|H]; [right; left; reflexivity|left; exact H|right; right; exact H].
Qed.

Lemma split_nl_in s l c : In l (split_nl s) -> In c l -> In c s.
Proof. intros Hl Hc. destruct (split_nl_go_in s [] l c Hl Hc) as [[]|H]. exact H. Qed.

Lemma bad_sub s l : (forall c, In c l -> In c s) -> bad l = true -> bad s = true.
Proof.
  unfold bad. intros H B. apply existsb_exists in B as [x [Hx B]]. apply existsb_exists. exists x.
  split; [apply H, Hx|exact B].
Qed.

(* the only characters RenderText adds: a space for an empty line, U+FFFD for a non-XML rune *)
Lemma render_text_in c s :
  In c (render_text s) ->
  In c s \/ (c = 32 /\ blank_line s = true) \/ (c = 65533 /\ bad s = true).
Proof.
  unfold render_text. destruct (has_nl s) eqn:N.
  - rewrite in_flat_map. intros [l [Hl Hc]]. destruct (xml_clean l) as [|e es] eqn:E.
    + destruct Hc as [<-|[]]. right. left. split; [reflexivity|]. unfold blank_line. rewrite N. simpl.
      apply existsb_exists. exists l. split; [exact Hl|]. apply xml_clean_nil in E. subst. reflexivity.
    + rewrite <- E in Hc. apply xml_clean_in in Hc as [Hc|[-> B]].
      * left. apply (split_nl_in s l c Hl Hc).
      * right. right. split; [reflexivity|]. apply (bad_sub s l); [intros x Hx; apply (split_nl_in s l x Hl Hx)|exact B].
  - intro H. apply xml_clean_in in H as [H|H]; auto.
Qed.

(* ------------------------------------------------------------------ pieces of the corpus *)

Definition field_pieces (f : field) : list str := [f_name f; f_type f; vis_token (f_vis f)].
Definition column_pieces (c : column) : list str := [c_name c; c_type c; constraint_abbr c].

Definition shape_pieces (s : shape) : list str :=
  [t_label (s_text s); s_tooltip s; s_link s; s_pretty s]
  ++ match s_type s with
     | TClass => flat_map field_pieces (s_fields s) ++ flat_map field_pieces (s_methods s)
     | _ => []
     end
  ++ match s_type s with TSQLTable => flat_map column_pieces (s_columns s) | _ => [] end.

Lemma field_corpus_pieces f p : In p (field_pieces f) -> incl p (field_corpus f).
Proof.
  unfold field_pieces, field_corpus. intros [<-|[<-|[<-|[]]]] c Hc; rewrite !in_app_iff; auto.
Qed.

Lemma column_corpus_pieces k p : In p (column_pieces k) -> incl p (column_corpus k).
Proof.
  unfold column_pieces, column_corpus. intros [<-|[<-|[<-|[]]]] c Hc; rewrite !in_app_iff; auto.
Qed.

Lemma flat_map_pieces {A} (pc : A -> list str) (cp : A -> str) (l : list A) p :
  (forall x q, In q (pc x) -> incl q (cp x)) ->
  In p (flat_map pc l) -> incl p (flat_map cp l).
Proof.
  intros H Hp. apply in_flat_map in Hp as [x [Hx Hq]]. intros c Hc. apply in_flat_map. exists x.
  split; [exact Hx|apply (H x p Hq c Hc)].
Qed.

Lemma shape_corpus_pieces n s p : In p (shape_pieces s) -> incl p (fst (shape_corpus n s)).
Proof.
  unfold shape_pieces, shape_corpus. intro H.
  destruct (nonempty (s_tooltip s)) eqn:T; destruct (nonempty (s_link s)) eqn:L; cbn [fst];
    intros c Hc; rewrite !in_app_iff;
    apply in_app_or in H as [H|H];
    try (destruct H as [<-|[<-|[<-|[<-|[]]]]]; auto 10;
         try (destruct (s_tooltip s); [destruct Hc|discriminate]);
         try (destruct (s_link s); [destruct Hc|discriminate]); fail).
  all: apply in_app_or in H as [H|H].
  all: try (destruct (s_type s); try destruct H;
            apply in_app_or in H as [H|H];
            [ pose proof (flat_map_pieces field_pieces field_corpus _ p field_corpus_pieces H c Hc) as K
            | pose proof (flat_map_pieces field_pieces field_corpus _ p field_corpus_pieces H c Hc) as K ];
            rewrite !in_app_iff; auto 12; fail).
  all: destruct (s_type s); try destruct H;
       pose proof (flat_map_pieces column_pieces column_corpus _ p column_corpus_pieces H c Hc) as K;
       auto 12.
Qed.

Lemma shape_corpus_snd n s : n <= snd (shape_corpus n s) <= n + 2.
Proof.
  unfold shape_corpus. destruct (nonempty (s_tooltip s)), (nonempty (s_link s)); cbn [snd]; lia.
Qed.

Lemma shapes_corpus_shape l : forall n s, In s l -> exists n', incl (fst (shape_corpus n' s)) (shapes_corpus n l).
Proof.
  induction l as [|x l IH]; intros n s H; [destruct H|].
  cbn [shapes_corpus]. destruct (shape_corpus n x) as [t n1] eqn:E. destruct H as [<-|H].
  - exists n. rewrite E. cbn [fst]. apply incl_app_l, incl_refl.
  - destruct (IH n1 s H) as [n' K]. exists n'. apply incl_app_r, K.
Qed.

Lemma shapes_corpus_piece l n s p : In s l -> In p (shape_pieces s) -> incl p (shapes_corpus n l).
Proof.
  intros Hs Hp. destruct (shapes_corpus_shape l n s Hs) as [n' K].
  intros c Hc. apply K. apply (shape_corpus_pieces n' s p Hp c Hc).
Qed.

(* ---- the appendix counter ---- *)

Definition b2n (b : bool) : N := if b then 1 else 0.
Definition cnt_link (s : shape) : N := b2n (nonempty (s_tooltip s)) + b2n (nonempty (s_link s)).
Definition cnt_pretty (s : shape) : N := b2n (nonempty (s_tooltip s)) + b2n (nonempty (s_pretty s)).
Fixpoint total (f : shape -> N) (l : list shape) : N :=
  match l with [] => 0 | s :: r => f s + total f r end.

Lemma shape_corpus_cnt n s : snd (shape_corpus n s) = n + cnt_link s.
Proof.
  unfold shape_corpus, cnt_link, b2n. destruct (nonempty (s_tooltip s)), (nonempty (s_link s)); cbn [snd]; lia.
Qed.

Lemma shape_corpus_dec n s k : n < k <= n + cnt_link s -> incl (dec k) (fst (shape_corpus n s)).
Proof.
  unfold shape_corpus, cnt_link, b2n.
  destruct (nonempty (s_tooltip s)) eqn:T; destruct (nonempty (s_link s)) eqn:L; cbn [fst]; intros H c Hc;
    rewrite !in_app_iff.
  - assert (k = n + 1 \/ k = n + 1 + 1) as [->| ->] by lia; auto 10.
  - assert (k = n + 1) as -> by lia. auto 10.
  - assert (k = n + 1) as -> by lia. auto 10.
  - lia.
Qed.

Lemma shapes_corpus_dec l : forall n k, n < k <= n + total cnt_link l -> incl (dec k) (shapes_corpus n l).
Proof.
  induction l as [|s l IH]; intros n k H; [simpl in H; lia|].
  cbn [shapes_corpus total] in *. destruct (shape_corpus n s) as [t n1] eqn:E.
  pose proof (shape_corpus_cnt n s) as C. rewrite E in C. cbn [snd] in C.
  destruct (N.le_gt_cases k (n + cnt_link s)) as [Le|Gt].
  - apply incl_app_l. pose proof (shape_corpus_dec n s k) as D. rewrite E in D. apply D. lia.
  - apply incl_app_r. apply IH. lia.
Qed.

(* ------------------------------------------------------------------ the predicate on drawn characters *)

Definition okc (cp : str) (bl iv : bool) (c : rune) : Prop :=
  In c cp \/ (c = 32 /\ bl = true) \/ (c = 65533 /\ iv = true).

Lemma okc_raw cp bl iv p c : incl p cp -> In c p -> okc cp bl iv c.
Proof. intros H Hc. left. apply H, Hc. Qed.

Lemma okc_clean cp bl iv p c :
  incl p cp -> (bad p = true -> iv = true) -> In c (xml_clean p) -> okc cp bl iv c.
Proof.
  intros H B Hc. apply xml_clean_in in Hc as [Hc|[-> Hb]]; [left; apply H, Hc|right; right; auto].
Qed.

Lemma okc_render cp bl iv p c :
  incl p cp -> (blank_line p = true -> bl = true) -> (bad p = true -> iv = true) ->
  In c (render_text p) -> okc cp bl iv c.
Proof.
  intros H Bl B Hc. apply render_text_in in Hc as [Hc|[[-> Hb]|[-> Hb]]];
    [left; apply H, Hc|right; left; auto|right; right; auto].
Qed.

Lemma existsb_in {A} (f : A -> bool) l x : In x l -> f x = true -> existsb f l = true.
Proof. intros H F. apply existsb_exists. exists x. auto. Qed.

(* ------------------------------------------------------------------ one board *)

Section Board.
  Variables (sh : list shape) (cn : list conn) (lg : option legend) (la sc st : list diagram).
  Local Notation d := (Diagram sh cn lg la sc st).
  Local Notation cp := (corpus (Diagram sh cn lg la sc st)).
  Local Notation bl := (has_blank_line (Diagram sh cn lg la sc st)).
  Local Notation iv := (has_invalid_xml (Diagram sh cn lg la sc st)).

  Lemma piece_in_corpus s p : In s sh -> In p (shape_pieces s) -> incl p cp.
  Proof.
    intros Hs Hp. unfold corpus, board_corpus. apply incl_app_l. apply (shapes_corpus_piece sh 0 s p Hs Hp).
  Qed.

  Lemma conn_in_corpus k p :
    In k cn -> In p [t_label (k_text k); opt_str (k_src k); opt_str (k_dst k)] -> incl p cp.
  Proof.
    intros Hk Hp. unfold corpus, board_corpus. apply incl_app_r, incl_app_l.
    intros c Hc. apply in_flat_map. exists k. split; [exact Hk|]. unfold conn_corpus. rewrite !in_app_iff.
    destruct Hp as [<-|[<-|[<-|[]]]]; auto.
  Qed.

  Lemma blank_of s : In s (rendered_strings d) -> blank_line s = true -> bl = true.
  Proof. intros H B. unfold has_blank_line. apply (existsb_in _ _ s H B). Qed.

  Lemma bad_of s : In s (all_strings d) -> bad s = true -> iv = true.
  Proof. intros H B. unfold has_invalid_xml. apply (existsb_in _ _ s H B). Qed.

  Lemma rendered_shape s x :
    In s sh ->
    In x (match s_type s with
          | TClass => [t_label (s_text s)]
          | TSQLTable => []
          | TOther => if s_opaque s then rendered_label (s_text s) else []
          end ++ [s_tooltip s; s_pretty s]) ->
    In x (rendered_strings d).
  Proof.
    intros Hs Hx. unfold rendered_strings. apply in_or_app. left. apply in_flat_map. exists s. auto.
  Qed.

  Lemma rendered_conn k x :
    In k cn -> In x (rendered_label (k_text k) ++ [opt_str (k_src k); opt_str (k_dst k)]) ->
    In x (rendered_strings d).
  Proof.
    intros Hk Hx. unfold rendered_strings. apply in_or_app. right. apply in_flat_map. exists k. auto.
  Qed.

  Lemma all_shape s x :
    In s sh ->
    In x ([t_label (s_text s); s_tooltip s; s_pretty s]
          ++ flat_map (fun f => [f_name f; f_type f]) (s_fields s ++ s_methods s)
          ++ flat_map (fun c => [c_name c; c_type c; constraint_abbr c]) (s_columns s)) ->
    In x (all_strings d).
  Proof.
    intros Hs Hx. unfold all_strings. apply in_or_app. left. apply in_flat_map. exists s. auto.
  Qed.

  Lemma all_conn k x :
    In k cn -> In x [t_label (k_text k); opt_str (k_src k); opt_str (k_dst k)] -> In x (all_strings d).
  Proof.
    intros Hk Hx. unfold all_strings. apply in_or_app. right. apply in_or_app. left. apply in_flat_map. exists k. auto.
  Qed.

  (* ---- shapes ---- *)
  Lemma drawn_row_ok s f c :
    In s sh -> s_type s = TClass -> In f (s_fields s ++ s_methods s) ->
    In c (chars_of (drawn_row f)) -> okc cp bl iv c.
  Proof.
    intros Hs Ty Hf Hc. unfold chars_of, drawn_row in Hc. cbn [flat_map snd] in Hc.
    rewrite !in_app_iff in Hc.
    assert (P : forall p, In p (field_pieces f) -> incl p cp).
    { intros p Hp. apply (piece_in_corpus s p Hs). unfold shape_pieces. rewrite Ty.
      apply in_or_app. right. apply in_or_app. left.
      apply in_app_or in Hf as [Hf|Hf]; apply in_or_app; [left|right]; apply in_flat_map; exists f; auto. }
    assert (A : forall x, In x [f_name f; f_type f] -> bad x = true -> iv = true).
    { intros x Hx. apply (bad_of x). apply (all_shape s x Hs). apply in_or_app. right. apply in_or_app. left.
      apply in_flat_map. exists f. auto. }
    destruct Hc as [Hc|[Hc|[Hc|[]]]].
    - apply (okc_raw cp bl iv (vis_token (f_vis f)) c); [apply P; simpl; auto|exact Hc].
    - apply (okc_clean cp bl iv (f_name f) c); [apply P; simpl; auto|apply A; simpl; auto|exact Hc].
    - apply (okc_clean cp bl iv (f_type f) c); [apply P; simpl; auto|apply A; simpl; auto|exact Hc].
  Qed.

  Lemma drawn_column_ok s k c :
    In s sh -> s_type s = TSQLTable -> In k (s_columns s) ->
    In c (chars_of (drawn_column k)) -> okc cp bl iv c.
  Proof.
    intros Hs Ty Hk Hc. unfold chars_of, drawn_column in Hc. cbn [flat_map snd] in Hc.
    rewrite !in_app_iff in Hc.
    assert (P : forall p, In p (column_pieces k) -> incl p cp).
    { intros p Hp. apply (piece_in_corpus s p Hs). unfold shape_pieces. rewrite Ty.
      apply in_or_app. right. apply in_or_app. right. apply in_flat_map. exists k. auto. }
    assert (A : forall x, In x [c_name k; c_type k; constraint_abbr k] -> bad x = true -> iv = true).
    { intros x Hx. apply (bad_of x). apply (all_shape s x Hs). apply in_or_app. right. apply in_or_app. right.
      apply in_flat_map. exists k. auto. }
    destruct Hc as [Hc|[Hc|[Hc|[]]]].
    - apply (okc_clean cp bl iv (c_name k) c); [apply P; simpl; auto|apply A; simpl; auto|exact Hc].
    - apply (okc_clean cp bl iv (c_type k) c); [apply P; simpl; auto|apply A; simpl; auto|exact Hc].
    - apply (okc_clean cp bl iv (constraint_abbr k) c); [apply P; simpl; auto|apply A; simpl; auto|exact Hc].
  Qed.

  Lemma chars_flat_map {A} (f : A -> list item) l c :
    In c (chars_of (flat_map f l)) -> exists x, In x l /\ In c (chars_of (f x)).
  Proof.
    unfold chars_of. rewrite in_flat_map. intros [it [Hit Hc]]. apply in_flat_map in Hit as [x [Hx Hit]].
    exists x. split; [exact Hx|]. apply in_flat_map. exists it. auto.
  Qed.

  Lemma chars_app (a b : list item) c : In c (chars_of (a ++ b)) -> In c (chars_of a) \/ In c (chars_of b).
  Proof. unfold chars_of. rewrite flat_map_app. apply in_app_or. Qed.

  Lemma label_piece s : In (t_label (s_text s)) (shape_pieces s).
  Proof. unfold shape_pieces. simpl. auto. Qed.

  Lemma drawn_shape_ok s c : In s sh -> In c (chars_of (drawn_shape s)) -> okc cp bl iv c.
  Proof.
    intros Hs Hc. unfold drawn_shape in Hc.
    pose proof (piece_in_corpus s _ Hs (label_piece s)) as PL.
    assert (AL : bad (t_label (s_text s)) = true -> iv = true).
    { apply bad_of. apply (all_shape s _ Hs). simpl. auto. }
    destruct (s_type s) eqn:Ty.
    - apply chars_app in Hc as [Hc|Hc].
      + destruct (nonempty (t_label (s_text s))); [|destruct Hc].
        unfold chars_of in Hc. cbn [flat_map snd] in Hc. rewrite app_nil_r in Hc.
        apply (okc_render cp bl iv _ c PL); [|exact AL|exact Hc].
        apply blank_of. apply (rendered_shape s _ Hs). rewrite Ty. simpl. auto.
      + apply chars_app in Hc as [Hc|Hc]; apply chars_flat_map in Hc as [f [Hf Hc]];
          apply (drawn_row_ok s f c Hs Ty); auto; apply in_or_app; auto.
    - apply chars_app in Hc as [Hc|Hc].
      + destruct (nonempty (t_label (s_text s))); [|destruct Hc].
        unfold chars_of in Hc. cbn [flat_map snd] in Hc. rewrite app_nil_r in Hc.
        apply (okc_clean cp bl iv _ c PL AL Hc).
      + apply chars_flat_map in Hc as [k [Hk Hc]]. apply (drawn_column_ok s k c Hs Ty Hk Hc).
    - destruct (nonempty (t_label (s_text s)) && s_opaque s) eqn:G; [|destruct Hc].
      apply andb_prop in G as [_ Op]. unfold drawn_label in Hc.
      destruct (t_lang (s_text s)) eqn:Lg; try destruct Hc.
      unfold chars_of in Hc. cbn [flat_map snd] in Hc. rewrite app_nil_r in Hc.
      apply (okc_render cp bl iv _ c PL); [|exact AL|exact Hc].
      apply blank_of. apply (rendered_shape s _ Hs). rewrite Ty, Op. unfold rendered_label. rewrite Lg. simpl. auto.
  Qed.

  (* ---- connections ---- *)
  Lemma drawn_arrow_ok k o c :
    In k cn -> (o = k_src k \/ o = k_dst k) -> In c (chars_of (drawn_arrow o)) -> okc cp bl iv c.
  Proof.
    intros Hk Ho Hc. unfold drawn_arrow in Hc. destruct o as [l|]; [|destruct Hc].
    destruct (nonempty l); [|destruct Hc].
    unfold chars_of in Hc. cbn [flat_map snd] in Hc. rewrite app_nil_r in Hc.
    assert (E : l = opt_str (k_src k) \/ l = opt_str (k_dst k)).
    { destruct Ho as [Ho|Ho]; rewrite <- Ho; simpl; auto. }
    apply (okc_render cp bl iv l c).
    - apply (conn_in_corpus k l Hk). simpl. destruct E as [->| ->]; auto.
    - apply blank_of. apply (rendered_conn k l Hk). apply in_or_app. right. simpl. destruct E as [->| ->]; auto.
    - apply bad_of. apply (all_conn k l Hk). simpl. destruct E as [->| ->]; auto.
    - exact Hc.
  Qed.

  Lemma drawn_conn_ok k c : In k cn -> In c (chars_of (drawn_conn k)) -> okc cp bl iv c.
  Proof.
    intros Hk Hc. unfold drawn_conn in Hc. apply chars_app in Hc as [Hc|Hc].
    - destruct (nonempty (t_label (k_text k))); [|destruct Hc]. unfold drawn_label in Hc.
      destruct (t_lang (k_text k)) eqn:Lg; try destruct Hc.
      unfold chars_of in Hc. cbn [flat_map snd] in Hc. rewrite app_nil_r in Hc.
      apply (okc_render cp bl iv (t_label (k_text k)) c).
      + apply (conn_in_corpus k _ Hk). simpl. auto.
      + apply blank_of. apply (rendered_conn k _ Hk). apply in_or_app. left. unfold rendered_label. rewrite Lg. simpl. auto.
      + apply bad_of. apply (all_conn k _ Hk). simpl. auto.
      + exact Hc.
    - apply chars_app in Hc as [Hc|Hc]; [apply (drawn_arrow_ok k (k_src k) c Hk)|apply (drawn_arrow_ok k (k_dst k) c Hk)]; auto.
  Qed.

  (* ---- legend ---- *)
  Lemma drawn_legend_ok c :
    In c (chars_of (match lg with Some g => drawn_legend g | None => [] end)) -> okc cp bl iv c.
  Proof.
    unfold corpus, board_corpus, has_invalid_xml, all_strings. destruct lg as [g|]; [|intros []]. intro Hc.
    assert (K : In c (chars_of ((1, xml_clean (if nonempty (g_label g) then g_label g else s_Legend))
                  :: map (fun l => (0, xml_clean l)) (filter nonempty (g_shapes g))
                  ++ map (fun l => (0, xml_clean l)) (filter nonempty (g_conns g))))).
    { unfold drawn_legend in Hc. destruct (g_shapes g); [destruct (g_conns g); [destruct Hc|exact Hc]|exact Hc]. }
    clear Hc.
    assert (X : exists p, In c (xml_clean p) /\ incl p (legend_corpus g) /\
                          (p = s_Legend \/ In p (g_label g :: g_shapes g ++ g_conns g))).
    { unfold chars_of in K. cbn [flat_map snd] in K. apply in_app_or in K as [K|K].
      - exists (if nonempty (g_label g) then g_label g else s_Legend). split; [exact K|]. split.
        + unfold legend_corpus. apply incl_app_l, incl_refl.
        + destruct (nonempty (g_label g)); [right; left; reflexivity|left; reflexivity].
      - rewrite flat_map_app in K. apply in_app_or in K as [K|K];
          apply in_flat_map in K as [it [Hit K]]; apply in_map_iff in Hit as [l [<- Hl]];
          apply filter_In in Hl as [Hl _]; exists l; (split; [exact K|]); split.
        + unfold legend_corpus. apply incl_app_r, incl_app_l. intros x Hx. apply in_concat_iff. exists l. auto.
        + right. right. apply in_or_app. left. exact Hl.
        + unfold legend_corpus. apply incl_app_r, incl_app_r. intros x Hx. apply in_concat_iff. exists l. auto.
        + right. right. apply in_or_app. right. exact Hl. }
    destruct X as [p [Hc [Hi Hp]]]. apply xml_clean_in in Hc as [Hc|[-> B]].
    - left. apply in_or_app. right. apply in_or_app. right. apply Hi, Hc.
    - right. right. split; [reflexivity|]. destruct Hp as [->|Hp]; [vm_compute in B; discriminate B|].
      apply existsb_exists. exists p. split; [|exact B]. apply in_or_app. right. apply in_or_app. right. exact Hp.
  Qed.

  Theorem drawn_render_ok c : In c (chars_of (drawn_render d)) -> okc cp bl iv c.
  Proof.
    cbn [drawn_render]. intro Hc. apply chars_app in Hc as [Hc|Hc].
    - apply chars_flat_map in Hc as [s [Hs Hc]]. apply (drawn_shape_ok s c Hs Hc).
    - apply chars_app in Hc as [Hc|Hc].
      + apply chars_flat_map in Hc as [k [Hk Hc]]. apply (drawn_conn_ok k c Hk Hc).
      + apply (drawn_legend_ok c Hc).
  Qed.

  (* ---- appendix ---- *)
  Lemma appendix_lines_spec l : forall n it, In it (appendix_lines n l) ->
    (exists k, snd it = dec k /\ n < k <= n + total cnt_pretty l) \/
    (exists s, In s l /\ (snd it = render_text (s_tooltip s) \/ snd it = render_text (s_pretty s))).
  Proof.
    induction l as [|s l IH]; intros n it H; [destruct H|].
    cbn [appendix_lines total] in *. unfold cnt_pretty at 1, b2n.
    destruct (nonempty (s_tooltip s)) eqn:T; destruct (nonempty (s_pretty s)) eqn:P;
      repeat (apply in_app_or in H as [H|H]); simpl in H.
    all: try (destruct H as [<-|[<-|[]]]; [left; eexists; split; [reflexivity|lia]|right; exists s; split; [left; reflexivity|auto]]).
    all: try destruct H.
    all: match goal with
         | K : In _ (appendix_lines ?m _) |- _ =>
             destruct (IH m it K) as [[k [E B]]|[s' [Hs' E]]];
             [left; exists k; split; [exact E|lia]|right; exists s'; split; [right; exact Hs'|exact E]]
         end.
  Qed.

  Lemma appendix_icons_spec l : forall n it, In it (appendix_icons n l) ->
    exists k, snd it = dec k /\ n < k <= n + total cnt_link l.
  Proof.
    induction l as [|s l IH]; intros n it H; [destruct H|].
    cbn [appendix_icons total] in *. unfold cnt_link at 1, b2n.
    destruct (nonempty (s_tooltip s)) eqn:T; destruct (nonempty (s_link s)) eqn:P;
      repeat (apply in_app_or in H as [H|H]); try destruct (s_tip_positioned s); simpl in H.
    all: try (destruct H as [<-|[]]; eexists; split; [reflexivity|lia]).
    all: try destruct H.
    all: match goal with
         | K : In _ (appendix_icons ?m _) |- _ =>
             destruct (IH m it K) as [k [E B]]; exists k; split; [exact E|lia]
         end.
  Qed.

  Lemma total_le l :
    forallb (fun s => negb (nonempty (s_pretty s)) || nonempty (s_link s)) l = true ->
    total cnt_pretty l <= total cnt_link l.
  Proof.
    induction l as [|s l IH]; intro H; [simpl; lia|]. cbn [forallb total] in *.
    apply andb_prop in H as [H1 H2]. specialize (IH H2).
    assert (K : cnt_pretty s <= cnt_link s).
    { unfold cnt_pretty, cnt_link, b2n.
      destruct (nonempty (s_tooltip s)), (nonempty (s_pretty s)), (nonempty (s_link s)); simpl in H1; try discriminate; lia. }
    lia.
  Qed.

  Lemma dec_in_corpus k : 0 < k <= total cnt_link sh -> incl (dec k) cp.
  Proof.
    intro H. unfold corpus, board_corpus. apply incl_app_l. apply shapes_corpus_dec. lia.
  Qed.

  Theorem drawn_appendix_ok c :
    links_ok d = true -> In c (chars_of (drawn_appendix d)) -> okc cp bl iv c.
  Proof.
    cbn [links_ok drawn_appendix]. intros LK Hc.
    destruct (has_appendix sh); [|destruct Hc].
    apply chars_app in Hc as [Hc|Hc]; unfold chars_of in Hc; apply in_flat_map in Hc as [it [Hit Hc]].
    - destruct (appendix_lines_spec sh 0 it Hit) as [[k [E B]]|[s [Hs E]]].
      + assert (Hc' : In c (dec k)) by (rewrite <- E; exact Hc). left. apply (dec_in_corpus k); [|exact Hc']. pose proof (total_le sh LK). lia.
      + assert (Pt : In (s_tooltip s) (shape_pieces s)) by (unfold shape_pieces; simpl; auto).
        assert (Pp : In (s_pretty s) (shape_pieces s)) by (unfold shape_pieces; simpl; auto).
        destruct E as [E|E].
        * assert (Hc' : In c (render_text (s_tooltip s))) by (rewrite <- E; exact Hc).
          apply (okc_render cp bl iv (s_tooltip s) c (piece_in_corpus s _ Hs Pt)); [| |exact Hc'].
          -- apply blank_of. apply (rendered_shape s _ Hs). apply in_or_app. right. simpl. auto.
          -- apply bad_of. apply (all_shape s _ Hs). simpl. auto.
        * assert (Hc' : In c (render_text (s_pretty s))) by (rewrite <- E; exact Hc).
          apply (okc_render cp bl iv (s_pretty s) c (piece_in_corpus s _ Hs Pp)); [| |exact Hc'].
          -- apply blank_of. apply (rendered_shape s _ Hs). apply in_or_app. right. simpl. auto.
          -- apply bad_of. apply (all_shape s _ Hs). simpl. auto.
    - destruct (appendix_icons_spec sh 0 it Hit) as [k [E B]].
      assert (Hc' : In c (dec k)) by (rewrite <- E; exact Hc). left.
      apply (dec_in_corpus k); [lia|exact Hc'].
  Qed.
End Board.

(* ------------------------------------------------------------------ statements over whole diagrams *)

Definition drawn_ok (cp : str) (bl iv : bool) (l : list item) : Prop :=
  forall c, In c (chars_of l) -> okc cp bl iv c.

Theorem drawn_board_ok d :
  links_ok d = true -> drawn_ok (corpus d) (has_blank_line d) (has_invalid_xml d) (drawn_board d).
Proof.
  destruct d as [sh cn lg la sc st]. intros LK c Hc. unfold drawn_board in Hc.
  unfold chars_of in Hc. rewrite flat_map_app in Hc. apply in_app_or in Hc as [Hc|Hc].
  - apply (drawn_render_ok sh cn lg la sc st c Hc).
  - apply (drawn_appendix_ok sh cn lg la sc st c LK Hc).
Qed.

(* induction over the board tree *)
Section DiagramInd.
  Variable P : diagram -> Prop.
  Hypothesis H : forall sh cn lg la sc st,
    Forall P la -> Forall P sc -> Forall P st -> P (Diagram sh cn lg la sc st).
  Fixpoint diagram_ind' (d : diagram) : P d :=
    match d with
    | Diagram sh cn lg la sc st =>
        let go := fix go (l : list diagram) : Forall P l :=
          match l with
          | [] => Forall_nil P
          | x :: r => Forall_cons x (diagram_ind' x) (go r)
          end in
        H sh cn lg la sc st (go la) (go sc) (go st)
    end.
End DiagramInd.

Lemma boards_corpus d : forall b, In b (boards d) -> incl (corpus b) (nested_corpus d).
Proof.
  induction d as [sh cn lg la sc st Hla Hsc Hst] using diagram_ind'. intros b Hb.
  cbn [boards] in Hb. cbn [nested_corpus].
  assert (K : forall l, Forall (fun d => forall b, In b (boards d) -> incl (corpus b) (nested_corpus d)) l ->
              In b (flat_map boards l) -> incl (corpus b) (flat_map nested_corpus l)).
  { intros l Hl Hin. apply in_flat_map in Hin as [x [Hx Hin]]. rewrite Forall_forall in Hl.
    intros c Hc. apply in_flat_map. exists x. split; [exact Hx|apply (Hl x Hx b Hin c Hc)]. }
  destruct Hb as [<-|Hb].
  - apply incl_app_l. apply incl_refl.
  - apply incl_app_r. repeat (apply in_app_or in Hb as [Hb|Hb]).
    + apply incl_app_l. apply (K la Hla Hb).
    + apply incl_app_r, incl_app_l. apply (K sc Hsc Hb).
    + apply incl_app_r, incl_app_r. apply (K st Hst Hb).
Qed.

Lemma render_part_ok b c :
  In c (chars_of (drawn_render b)) -> okc (corpus b) (has_blank_line b) (has_invalid_xml b) c.
Proof. destruct b as [sh cn lg la sc st]. apply drawn_render_ok. Qed.

(* d2animate.Wrap: all boards drawn, fonts cut once for the nested corpus *)
Theorem drawn_nested_ok d :
  drawn_ok (nested_corpus d) (existsb has_blank_line (boards d)) (existsb has_invalid_xml (boards d))
           (drawn_nested d).
Proof.
  intros c Hc. unfold drawn_nested, chars_of in Hc. apply in_flat_map in Hc as [it [Hit Hc]].
  apply in_flat_map in Hit as [b [Hb Hit]].
  assert (Hc' : In c (chars_of (drawn_render b))) by (apply in_flat_map; exists it; auto).
  destruct (render_part_ok b c Hc') as [K|[[-> K]|[-> K]]].
  - left. apply (boards_corpus d b Hb c K).
  - right. left. split; [reflexivity|apply (existsb_in _ _ b Hb K)].
  - right. right. split; [reflexivity|apply (existsb_in _ _ b Hb K)].
Qed.

(* ------------------------------------------------------------------ glyph coverage *)

Lemma mem_In c s : mem c s = true <-> In c s.
Proof.
  unfold mem. rewrite existsb_exists. split.
  - intros [x [Hx E]]. apply N.eqb_eq in E. subst. exact Hx.
  - intro H. exists c. split; [exact H|apply N.eqb_refl].
Qed.

Lemma font_of_In fonts f fs : font_of fonts f = Some fs -> exists k, In (k, fs) fonts.
Proof.
  induction fonts as [|[k v] r IH]; simpl; [discriminate|].
  destruct (k =? f).
  - intro E. inversion E; subst. exists k. left. reflexivity.
  - intro E. destruct (IH E) as [k' K]. exists k'. right. exact K.
Qed.

(* if the embedded subsets keep the corpus characters their full fonts have (the oracle hypothesis,
   code 2 of Check.v), every drawn string whose characters are corpus characters (or exempt) is covered *)
Theorem covered_of_subset_hyp exempt fonts cp items :
  subset_hyp exempt fonts cp = true ->
  (forall c, In c (chars_of items) -> In c cp \/ mem c exempt = true) ->
  covered exempt fonts items = true.
Proof.
  intros HS HC. unfold covered. apply forallb_forall. intros it Hit.
  destruct (font_of fonts (fst it)) as [fs|] eqn:F; [|reflexivity].
  destruct (font_of_In _ _ _ F) as [k Hk].
  unfold subset_hyp in HS. rewrite forallb_forall in HS. specialize (HS (k, fs) Hk). cbn [snd] in HS.
  unfold covered_str in *. rewrite forallb_forall in HS. apply forallb_forall. intros c Hc.
  destruct (HC c) as [K|K].
  - unfold chars_of. apply in_flat_map. exists it. auto.
  - apply (HS c K).
  - rewrite K. apply orb_true_r.
Qed.

Definition exempt_ok (bl iv : bool) (exempt : str) : Prop :=
  (bl = true -> mem 32 exempt = true) /\ (iv = true -> mem 65533 exempt = true).

Lemma drawn_ok_covered cp bl iv exempt fonts items :
  drawn_ok cp bl iv items -> exempt_ok bl iv exempt -> subset_hyp exempt fonts cp = true ->
  covered exempt fonts items = true.
Proof.
  intros HD [E1 E2] HS. apply (covered_of_subset_hyp exempt fonts cp items HS).
  intros c Hc. destruct (HD c Hc) as [K|[[-> K]|[-> K]]]; auto.
Qed.

Theorem embedded_glyphs_board d fonts exempt :
  links_ok d = true ->
  exempt_ok (has_blank_line d) (has_invalid_xml d) exempt ->
  subset_hyp exempt fonts (corpus d) = true ->
  covered exempt fonts (drawn_board d) = true.
Proof. intros LK E HS. apply (drawn_ok_covered _ _ _ _ _ _ (drawn_board_ok d LK) E HS). Qed.

Theorem embedded_glyphs_nested d fonts exempt :
  exempt_ok (existsb has_blank_line (boards d)) (existsb has_invalid_xml (boards d)) exempt ->
  subset_hyp exempt fonts (nested_corpus d) = true ->
  covered exempt fonts (drawn_nested d) = true.
Proof. intros E HS. apply (drawn_ok_covered _ _ _ _ _ _ (drawn_nested_ok d) E HS). Qed.

(* the plain statement: no empty line, only XML characters *)
Theorem drawn_subset_corpus d :
  links_ok d = true -> has_blank_line d = false -> has_invalid_xml d = false ->
  incl (chars_of (drawn_board d)) (corpus d).
Proof.
  intros LK B I c Hc. destruct (drawn_board_ok d LK c Hc) as [K|[[_ K]|[_ K]]]; [exact K|congruence|congruence].
Qed.

(* ------------------------------------------------------------------ the exceptions are real *)

Definition plain (l : str) : text := mkText l LNone false false false.
Definition box (l tip link pretty : str) : shape := mkShape TOther (plain l) tip link pretty true false [] [] [].

(* a label with an empty line: RenderText draws a space that is not in the corpus *)
Definition w_blank : diagram := Diagram [box [97; 10; 10; 98] [] [] []] [] None [] [] [].

Lemma blank_line_refutes :
  links_ok w_blank = true /\ has_invalid_xml w_blank = false /\
  In 32 (chars_of (drawn_render w_blank)) /\ ~ In 32 (corpus w_blank).
Proof.
  repeat split; try reflexivity.
  - vm_compute. auto.
  - vm_compute. intros [H|[H|[H|[H|[]]]]]; discriminate H.
Qed.

(* a pretty link without a link: the appendix numbers a line that the corpus did not count *)
Definition w_link : diagram := Diagram [box [120] [] [] [121]] [] None [] [] [].

Lemma links_ok_necessary :
  links_ok w_link = false /\ has_blank_line w_link = false /\ has_invalid_xml w_link = false /\
  In 49 (chars_of (drawn_board w_link)) /\ ~ In 49 (corpus w_link).
Proof.
  repeat split; try reflexivity.
  - vm_compute. auto.
  - vm_compute. intros [H|[H|[]]]; discriminate H.
Qed.

(* non-vacuity of the hypotheses *)
Definition ex_diagram : diagram :=
  Diagram [box [72; 105] [116; 105; 112] [104; 116; 116; 112] [104; 116; 116; 112];
           mkShape TClass (plain [67]) [] [] [] true false [mkField [102] [105; 110; 116] 2] [] []]
          [mkConn (plain [103; 111]) (Some [49]) None] (Some (mkLegend [] [[97]] [])) [] [] [].
Definition ex_fonts : list (N * (str * str)) :=
  [(0, (corpus ex_diagram, corpus ex_diagram)); (1, (corpus ex_diagram, corpus ex_diagram));
   (2, ([49], [49])); (3, (corpus ex_diagram, corpus ex_diagram))].

Lemma ex_hyps :
  links_ok ex_diagram = true /\ exempt_ok (has_blank_line ex_diagram) (has_invalid_xml ex_diagram) [] /\
  subset_hyp [] ex_fonts (corpus ex_diagram) = true /\ length (drawn_board ex_diagram) = 15%nat.
Proof. repeat split; try reflexivity; vm_compute; intro K; discriminate K. Qed.
