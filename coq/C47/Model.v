(* C47 — embedded font subsets cover the characters drawn with them.

   Model, over the text-relevant projection of an exported diagram (d2target.Diagram), of
     * d2target.Diagram.GetCorpus / GetNestedCorpus  (the text the font subsets are cut for), and
     * the strings d2svg.Render, d2svg/appendix.Append and d2animate.Wrap draw as SVG text elements,
       each with the font class of its element (text, text-bold, text-italic, text-mono,
       text-mono-bold, text-mono-italic).
   Strings are lists of runes (Go ranges over the corpus rune by rune).  Text transforms and the
   CapsLock / Mono theme rules are applied by d2graph.SetDimensions BEFORE export, so both functions
   see the already transformed labels.
   Not modelled (search only): markdown and positioned tooltips (goldmark, drawn through
   foreignObject), code blocks (chroma tokens), LaTeX (drawn as paths), sketch mode.
   The TrueType subsetter (lib/font) and the fonts are oracles of the theorems in Proofs.v. *)
From Coq Require Import List NArith Bool.
Import ListNotations.
Open Scope N_scope.

Definition rune := N.
Definition str := list rune.

(* font class of an SVG text element *)
Definition fclass := N.  (* 0 text, 1 text-bold, 2 text-italic, 3 text-mono, 4 text-mono-bold, 5 text-mono-italic *)

Inductive lang := LNone | LLatex | LMarkdown | LCode.
Inductive stype := TClass | TSQLTable | TOther.

Record text := mkText {
  t_label : str; t_lang : lang; t_mono : bool; t_bold : bool; t_italic : bool }.

Record field := mkField { f_name : str; f_type : str; f_vis : N }.  (* 1 protected, 2 private, else public *)
Record column := mkColumn { c_name : str; c_type : str; c_constraints : list str }.

Record shape := mkShape {
  s_type : stype;
  s_text : text;
  s_tooltip : str; s_link : str; s_pretty : str;
  s_opaque : bool;                          (* Opacity != 0 *)
  s_tip_positioned : bool;                  (* TooltipPosition != "": drawn through foreignObject, no icon *)
  s_fields : list field; s_methods : list field;
  s_columns : list column }.

Record conn := mkConn { k_text : text; k_src : option str; k_dst : option str }.

Record legend := mkLegend { g_label : str; g_shapes : list str; g_conns : list str }.

Inductive diagram :=
| Diagram (shapes : list shape) (conns : list conn) (lg : option legend)
          (layers scenarios steps : list diagram).

(* ---- small string helpers ---- *)
Definition nonempty (s : str) : bool := match s with [] => false | _ => true end.

Fixpoint str_eqb (a b : str) : bool :=
  match a, b with
  | [], [] => true
  | x :: a', y :: b' => (x =? y) && str_eqb a' b'
  | _, _ => false
  end.

(* fmt.Sprint(n) for a positive int *)
Fixpoint dec_fuel (fuel : nat) (n : N) : str :=
  match fuel with
  | O => []
  | S f => if n <? 10 then [48 + n] else dec_fuel f (n / 10) ++ [48 + n mod 10]
  end.
Definition dec (n : N) : str := dec_fuel (S (N.size_nat n)) n.

Definition vis_token (v : N) : str :=
  if v =? 1 then [35] (* # *) else if v =? 2 then [45] (* - *) else [43] (* + *).

Definition s_primary_key : str := [112;114;105;109;97;114;121;95;107;101;121].
Definition s_foreign_key : str := [102;111;114;101;105;103;110;95;107;101;121].
Definition s_unique : str := [117;110;105;113;117;101].

Definition abbr1 (c : str) : str :=
  if str_eqb c s_primary_key then [80;75]
  else if str_eqb c s_foreign_key then [70;75]
  else if str_eqb c s_unique then [85;78;81]
  else c.

(* strings.Join(_, ", ") *)
Fixpoint join_comma (l : list str) : str :=
  match l with
  | [] => []
  | [x] => x
  | x :: r => x ++ [44; 32] ++ join_comma r
  end.

Definition constraint_abbr (c : column) : str := join_comma (map abbr1 (c_constraints c)).

Definition s_Legend : str := [76;101;103;101;110;100].

(* ---- GetCorpus ---- *)
Definition field_corpus (f : field) : str := f_name f ++ f_type f ++ vis_token (f_vis f).
Definition column_corpus (c : column) : str :=
  c_name c ++ c_type c ++ constraint_abbr c ++ constraint_abbr c.
   (* Texts(0) = name, type, abbreviation; then the abbreviation once more *)

(* one shape, with the appendix counter before it; returns (text, counter after) *)
Definition shape_corpus (n : N) (s : shape) : str * N :=
  let t0 := t_label (s_text s) in
  let '(t1, n1) := if nonempty (s_tooltip s) then (s_tooltip s ++ dec (n + 1), n + 1) else ([], n) in
  let '(t2, n2) := if nonempty (s_link s) then (s_link s ++ dec (n1 + 1), n1 + 1) else ([], n1) in
  let t3 := s_pretty s in
  let t4 := match s_type s with
            | TClass => flat_map field_corpus (s_fields s) ++ flat_map field_corpus (s_methods s)
            | _ => []
            end in
  let t5 := match s_type s with
            | TSQLTable => flat_map column_corpus (s_columns s)
            | _ => []
            end in
  (t0 ++ t1 ++ t2 ++ t3 ++ t4 ++ t5, n2).

Fixpoint shapes_corpus (n : N) (l : list shape) : str :=
  match l with
  | [] => []
  | s :: r => let '(t, n') := shape_corpus n s in t ++ shapes_corpus n' r
  end.

Definition opt_str (o : option str) : str := match o with Some s => s | None => [] end.

Definition conn_corpus (k : conn) : str :=
  t_label (k_text k) ++ opt_str (k_src k) ++ opt_str (k_dst k).

Definition legend_corpus (g : legend) : str :=
  (if nonempty (g_label g) then g_label g else s_Legend)
  ++ concat (g_shapes g) ++ concat (g_conns g).

Definition board_corpus (shapes : list shape) (conns : list conn) (lg : option legend) : str :=
  shapes_corpus 0 shapes ++ flat_map conn_corpus conns
  ++ match lg with Some g => legend_corpus g | None => [] end.

Definition corpus (d : diagram) : str :=
  match d with Diagram sh cn lg _ _ _ => board_corpus sh cn lg end.

Fixpoint nested_corpus (d : diagram) : str :=
  match d with
  | Diagram sh cn lg la sc st =>
      board_corpus sh cn lg
      ++ flat_map nested_corpus la ++ flat_map nested_corpus sc ++ flat_map nested_corpus st
  end.

(* ---- what the renderer draws ---- *)

(* xml.EscapeText writes U+FFFD for a rune that is not an XML character; the reader of the SVG sees that *)
Definition xml_char (c : rune) : bool :=
  (c =? 9) || (c =? 10) || (c =? 13) || ((32 <=? c) && (c <=? 55295))
  || ((57344 <=? c) && (c <=? 65533)) || ((65536 <=? c) && (c <=? 1114111)).
Definition xml_clean (s : str) : str := map (fun c => if xml_char c then c else 65533) s.

(* strings.Split(s, "\n") *)
Fixpoint split_nl_go (cur : str) (s : str) : list str :=
  match s with
  | [] => [rev cur]
  | c :: r => if c =? 10 then rev cur :: split_nl_go [] r else split_nl_go (c :: cur) r
  end.
Definition split_nl (s : str) : list str := split_nl_go [] s.

Definition has_nl (s : str) : bool := existsb (N.eqb 10) s.

(* d2svg.RenderText: the character data of the text element (tspans concatenated); an empty line is
   drawn as one space *)
Definition render_text (s : str) : str :=
  if has_nl s then
    flat_map (fun l => match xml_clean l with [] => [32] | e => e end) (split_nl s)
  else xml_clean s.

Definition font_class (t : text) : fclass :=
  (if t_mono t then 3 else 0) + (if t_bold t then 1 else if t_italic t then 2 else 0).

Definition item := (fclass * str)%type.

Definition drawn_row (f : field) : list item :=
  [(3, vis_token (f_vis f)); (3, xml_clean (f_name f)); (3, xml_clean (f_type f))].

Definition drawn_column (c : column) : list item :=
  [(0, xml_clean (c_name c)); (0, xml_clean (c_type c)); (0, xml_clean (constraint_abbr c))].

Definition drawn_label (t : text) : list item :=
  match t_lang t with
  | LNone => [(font_class t, render_text (t_label t))]
  | _ => []     (* latex: paths; markdown, code: search only *)
  end.

Definition drawn_shape (s : shape) : list item :=
  let lbl := t_label (s_text s) in
  match s_type s with
  | TClass =>
      (if nonempty lbl then [(3, render_text lbl)] else [])
      ++ flat_map drawn_row (s_fields s) ++ flat_map drawn_row (s_methods s)
  | TSQLTable =>
      (if nonempty lbl then [(0, xml_clean lbl)] else [])
      ++ flat_map drawn_column (s_columns s)
  | TOther =>
      if nonempty lbl && s_opaque s then drawn_label (s_text s) else []
  end.

Definition drawn_arrow (o : option str) : list item :=
  match o with
  | Some l => if nonempty l then [(2, render_text l)] else []
  | None => []
  end.

Definition drawn_conn (k : conn) : list item :=
  (if nonempty (t_label (k_text k)) then drawn_label (k_text k) else [])
  ++ drawn_arrow (k_src k) ++ drawn_arrow (k_dst k).

(* RenderLegend draws nothing for a legend without entries; labels go through svg.EscapeText *)
Definition drawn_legend (g : legend) : list item :=
  match g_shapes g, g_conns g with
  | [], [] => []
  | _, _ =>
    (1, xml_clean (if nonempty (g_label g) then g_label g else s_Legend))
    :: map (fun l => (0, xml_clean l)) (filter nonempty (g_shapes g))
    ++ map (fun l => (0, xml_clean l)) (filter nonempty (g_conns g))
  end.

(* d2svg.Render of one board *)
Definition drawn_render (d : diagram) : list item :=
  match d with
  | Diagram sh cn lg _ _ _ =>
      flat_map drawn_shape sh ++ flat_map drawn_conn cn
      ++ match lg with Some g => drawn_legend g | None => [] end
  end.

(* appendix.Append: one numbered line per non-empty tooltip / pretty link (in this order per shape),
   and one numbered icon per non-empty tooltip / LINK that replaces the icon drawn by Render *)
Fixpoint appendix_lines (n : N) (l : list shape) : list item :=
  match l with
  | [] => []
  | s :: r =>
      let '(i1, n1) := if nonempty (s_tooltip s)
                       then ([(1, dec (n + 1)); (0, render_text (s_tooltip s))], n + 1) else ([], n) in
      let '(i2, n2) := if nonempty (s_pretty s)
                       then ([(1, dec (n1 + 1)); (0, render_text (s_pretty s))], n1 + 1) else ([], n1) in
      i1 ++ i2 ++ appendix_lines n2 r
  end.

Fixpoint appendix_icons (n : N) (l : list shape) : list item :=
  match l with
  | [] => []
  | s :: r =>
      let '(i1, n1) := if nonempty (s_tooltip s)
                       then (if s_tip_positioned s then [] else [(1, dec (n + 1))], n + 1) else ([], n) in
      let '(i2, n2) := if nonempty (s_link s) then ([(1, dec (n1 + 1))], n1 + 1) else ([], n1) in
      i1 ++ i2 ++ appendix_icons n2 r
  end.

Definition has_appendix (sh : list shape) : bool :=
  existsb (fun s => nonempty (s_tooltip s) || nonempty (s_pretty s)) sh.

Definition drawn_appendix (d : diagram) : list item :=
  match d with
  | Diagram sh _ _ _ _ _ =>
      if has_appendix sh then appendix_lines 0 sh ++ appendix_icons 0 sh else []
  end.

(* every board of the tree (d2animate.Wrap draws them all, fonts are cut once for the nested corpus) *)
Fixpoint boards (d : diagram) : list diagram :=
  match d with
  | Diagram _ _ _ la sc st =>
      d :: flat_map boards la ++ flat_map boards sc ++ flat_map boards st
  end.

Definition drawn_board (d : diagram) : list item := drawn_render d ++ drawn_appendix d.
Definition drawn_nested (d : diagram) : list item := flat_map drawn_render (boards d).

Definition chars_of (l : list item) : str := flat_map snd l.
Definition chars_of_class (f : fclass) (l : list item) : str :=
  flat_map (fun i => if fst i =? f then snd i else []) l.

(* ---- the two side conditions under which drawn characters are corpus characters ---- *)

(* the appendix numbers its lines by pretty links, the corpus counts links *)
Definition links_ok (d : diagram) : bool :=
  match d with
  | Diagram sh _ _ _ _ _ => forallb (fun s => negb (nonempty (s_pretty s)) || nonempty (s_link s)) sh
  end.

(* strings RenderText is applied to *)
Definition rendered_label (t : text) : list str :=
  match t_lang t with LNone => [t_label t] | _ => [] end.

Definition rendered_strings (d : diagram) : list str :=
  match d with
  | Diagram sh cn _ _ _ _ =>
      flat_map (fun s => match s_type s with
                         | TClass => [t_label (s_text s)]
                         | TSQLTable => []
                         | TOther => if s_opaque s then rendered_label (s_text s) else []
                         end ++ [s_tooltip s; s_pretty s]) sh
      ++ flat_map (fun k => rendered_label (k_text k) ++ [opt_str (k_src k); opt_str (k_dst k)]) cn
  end.

(* a multi-line string with an empty line: RenderText draws a space that the string does not contain *)
Definition blank_line (s : str) : bool := has_nl s && existsb (fun l => negb (nonempty l)) (split_nl s).
Definition has_blank_line (d : diagram) : bool := existsb blank_line (rendered_strings d).

(* a rune that is not an XML character somewhere: drawn as U+FFFD *)
Definition all_strings (d : diagram) : list str :=
  match d with
  | Diagram sh cn lg _ _ _ =>
      flat_map (fun s => [t_label (s_text s); s_tooltip s; s_pretty s]
                         ++ flat_map (fun f => [f_name f; f_type f]) (s_fields s ++ s_methods s)
                         ++ flat_map (fun c => [c_name c; c_type c; constraint_abbr c]) (s_columns s)) sh
      ++ flat_map (fun k => [t_label (k_text k); opt_str (k_src k); opt_str (k_dst k)]) cn
      ++ match lg with Some g => g_label g :: g_shapes g ++ g_conns g | None => [] end
  end.
Definition has_invalid_xml (d : diagram) : bool :=
  existsb (fun s => existsb (fun c => negb (xml_char c)) s) (all_strings d).

(* ---- the executable predicates evaluated on the implementation's SVG (Check.v) ----
   [fonts]: per font class with an embedded font, (characters with a glyph in the full font,
   characters with a glyph in the embedded font), both restricted to the characters of the case. *)
Definition mem (c : N) (s : str) : bool := existsb (N.eqb c) s.

Fixpoint font_of (fonts : list (N * (str * str))) (f : N) : option (str * str) :=
  match fonts with
  | [] => None
  | (k, v) :: r => if k =? f then Some v else font_of r f
  end.

(* every character of [s] that the full font has, the embedded font has *)
Definition covered_str (exempt : str) (fs : str * str) (s : str) : bool :=
  forallb (fun c => negb (mem c (fst fs)) || mem c (snd fs) || mem c exempt) s.

Definition covered (exempt : str) (fonts : list (N * (str * str))) (l : list item) : bool :=
  forallb (fun i => match font_of fonts (fst i) with
                    | Some fs => covered_str exempt fs (snd i)
                    | None => true
                    end) l.

Definition has_font (fonts : list (N * (str * str))) (l : list item) : bool :=
  forallb (fun i => match font_of fonts (fst i) with Some _ => true | None => negb (nonempty (snd i)) end) l.

(* the oracle hypothesis on the subsetter, for the fonts of this SVG *)
Definition subset_hyp (exempt : str) (fonts : list (N * (str * str))) (cp : str) : bool :=
  forallb (fun kv => covered_str exempt (snd kv) cp) fonts.

