(* Executable checker for C47 cases.  One case = one exported diagram (text projection), rendered by the
   real code in one of three modes, with the text elements and the embedded fonts extracted from the SVG.

   codes:  1  model differs from the implementation: GetCorpus/GetNestedCorpus text, or the multiset of
              (font class, character data) of the plain SVG text elements
           2  oracle hypothesis false: a corpus character with a glyph in the full font has none in the
              embedded subset of that font
           3  side condition links_ok false (pretty link without link)
          10  a drawn character (plain text element) with a glyph in the full font of its class has none
              in the font embedded for that class
          11  the same for code / markdown text (search only: not covered by the model)
          13  text is drawn in a font class for which the SVG embeds no font                          *)
From Coq Require Import List NArith ZArith Bool.
From Coq Require Export Uint63.
Import ListNotations.
Require Import V.Lib.RunCases.
Require Export V.C47.Model.
Open Scope N_scope.

(* transport encoding of rune strings: 3 runes of 21 bits per primitive 63-bit integer, the last word
   padded with zeros, [len] = number of runes *)
Definition word_runes (w : int) : list N :=
  let n := Z.to_N (Uint63.to_Z w) in
  [ n / 4398046511104; (n / 2097152) mod 2097152; n mod 2097152 ].
Definition R (len : N) (ws : list int) : str := firstn (N.to_nat len) (flat_map word_runes ws).

Inductive case :=
| CRender (mode : N)            (* 0 d2svg.Render; 1 Render + appendix.Append; 2 d2animate.Wrap of all boards *)
          (d : diagram)
          (impl_corpus : str)   (* GetCorpus (modes 0, 1) / GetNestedCorpus (mode 2) *)
          (drawn : list item)   (* plain text elements of the SVG *)
          (search : list item)  (* code lines (class 3) and markdown text (class 0) *)
          (fonts : list (N * (str * str)))
            (* per font class with an embedded font: relevant characters with a glyph in the full font,
               relevant characters with a glyph in the embedded font *)
          (exempt : str).       (* characters of a recorded finding, not reported again (see harness) *)

Definition item_eqb (a b : item) : bool := (fst a =? fst b) && str_eqb (snd a) (snd b).
Definition count_item (x : item) (l : list item) : nat := length (filter (item_eqb x) l).
Definition keep (l : list item) : list item := filter (fun i => nonempty (snd i)) l.
Definition items_perm (a b : list item) : bool :=
  Nat.eqb (length a) (length b) && forallb (fun x => Nat.eqb (count_item x a) (count_item x b)) a.

Definition model_corpus (mode : N) (d : diagram) : str :=
  if mode =? 2 then nested_corpus d else corpus d.

Definition model_drawn (mode : N) (d : diagram) : list item :=
  if mode =? 0 then drawn_render d else if mode =? 1 then drawn_board d else drawn_nested d.

Definition model_links_ok (mode : N) (d : diagram) : bool :=
  if mode =? 2 then forallb links_ok (boards d) else links_ok d.

Definition check_case (c : case) : list N :=
  match c with
  | CRender mode d impl_corpus drawn search fonts exempt =>
      flag (str_eqb (model_corpus mode d) impl_corpus) 1
      ++ flag (items_perm (keep (model_drawn mode d)) (keep drawn)) 1
      ++ flag (model_links_ok mode d) 3
      ++ flag (subset_hyp exempt fonts impl_corpus) 2
      ++ flag (covered exempt fonts drawn) 10
      ++ flag (covered exempt fonts search) 11
      ++ flag (has_font fonts drawn) 13
  end.
