(* C47 — Embedded fonts cover every character drawn with them.  Statements only. *)
From Coq Require Import List NArith Bool.
Import ListNotations.
Require Import V.C47.Model V.C47.Proofs.
Open Scope N_scope.

(* every exported diagram: a character drawn as SVG text by d2svg.Render / appendix.Append is a character of
   GetCorpus, or the space RenderText writes for an empty line, or U+FFFD written for a non-XML rune *)
Theorem C47_drawn_chars_are_corpus_chars : forall d,
  links_ok d = true ->
  forall c, In c (chars_of (drawn_board d)) ->
    In c (corpus d) \/ (c = 32 /\ has_blank_line d = true) \/ (c = 65533 /\ has_invalid_xml d = true).
Proof. exact drawn_board_ok. Qed.

Theorem C47_drawn_subset_corpus : forall d,
  links_ok d = true -> has_blank_line d = false -> has_invalid_xml d = false ->
  incl (chars_of (drawn_board d)) (corpus d).
Proof. exact drawn_subset_corpus. Qed.

(* board trees (d2animate.Wrap): every board's text against GetNestedCorpus of the root *)
Theorem C47_drawn_nested_chars_are_corpus_chars : forall d c,
  In c (chars_of (drawn_nested d)) ->
    In c (nested_corpus d) \/ (c = 32 /\ existsb has_blank_line (boards d) = true)
    \/ (c = 65533 /\ existsb has_invalid_xml (boards d) = true).
Proof. exact drawn_nested_ok. Qed.

(* the property, with the subsetter as an oracle: if each embedded font has a glyph for every corpus
   character its full font has (subset_hyp: evaluated on the decoded fonts of every case), then every drawn
   character with a glyph in the full font of its class has one in the embedded font (covered: the predicate
   Check.v evaluates on the implementation's SVG) *)
Theorem C47_embedded_glyphs : forall d fonts exempt,
  links_ok d = true ->
  exempt_ok (has_blank_line d) (has_invalid_xml d) exempt ->
  subset_hyp exempt fonts (corpus d) = true ->
  covered exempt fonts (drawn_board d) = true.
Proof. exact embedded_glyphs_board. Qed.

Theorem C47_embedded_glyphs_nested : forall d fonts exempt,
  exempt_ok (existsb has_blank_line (boards d)) (existsb has_invalid_xml (boards d)) exempt ->
  subset_hyp exempt fonts (nested_corpus d) = true ->
  covered exempt fonts (drawn_nested d) = true.
Proof. exact embedded_glyphs_nested. Qed.

Theorem C47_covered_of_subset_hyp : forall exempt fonts cp items,
  subset_hyp exempt fonts cp = true ->
  (forall c, In c (chars_of items) -> In c cp \/ mem c exempt = true) ->
  covered exempt fonts items = true.
Proof. exact covered_of_subset_hyp. Qed.

(* the unguarded statement is false: a label with an empty line draws a space outside the corpus *)
Theorem C47_drawn_subset_corpus_refuted :
  links_ok w_blank = true /\ has_invalid_xml w_blank = false /\
  In 32 (chars_of (drawn_render w_blank)) /\ ~ In 32 (corpus w_blank).
Proof. exact blank_line_refutes. Qed.

(* and links_ok is needed: a pretty link without a link is numbered by the appendix but not counted by the corpus *)
Theorem C47_links_ok_necessary :
  links_ok w_link = false /\ has_blank_line w_link = false /\ has_invalid_xml w_link = false /\
  In 49 (chars_of (drawn_board w_link)) /\ ~ In 49 (corpus w_link).
Proof. exact links_ok_necessary. Qed.

Example C47_hyps_satisfiable :
  links_ok ex_diagram = true /\ exempt_ok (has_blank_line ex_diagram) (has_invalid_xml ex_diagram) [] /\
  subset_hyp [] ex_fonts (corpus ex_diagram) = true /\ length (drawn_board ex_diagram) = 15%nat.
Proof. exact ex_hyps. Qed.

Print Assumptions C47_drawn_chars_are_corpus_chars.
Print Assumptions C47_drawn_subset_corpus.
Print Assumptions C47_drawn_nested_chars_are_corpus_chars.
Print Assumptions C47_embedded_glyphs.
Print Assumptions C47_embedded_glyphs_nested.
Print Assumptions C47_covered_of_subset_hyp.
Print Assumptions C47_drawn_subset_corpus_refuted.
Print Assumptions C47_links_ok_necessary.
