(* C40 - ID-change predictions match the edits they predict.  Statements only.
   spec_apply   : the abstract edit on the semantic graph (tree surgery, V.C38.Spec)
   spec_deltas  : the predicted ID map, computed as DeleteIDDeltas / RenameIDDeltas / MoveIDDeltas do:
                  walk the affected subtree, re-parent it temporarily, read the IDs off again
   predicted d k = the entry of d for k, or k itself when d has no entry for k.
   Elements are matched across the edit by their immutable identity (r_lbl / e_lbl). *)
From Coq Require Import List NArith Bool Permutation.
Import ListNotations.
Require Import V.C38.Spec V.C38.Clauses V.C38.Rows V.C38.Main V.C40.Proofs V.C40.Refuted.
Open Scope N_scope.

(* every object that survives the edit ends up with the predicted new ID, or keeps its ID when no
   change is predicted - for every graph with unique identities and unique IDs and every operation *)
Theorem C40_deltas_agree_with_edit_objects :
  forall g o g' r r', uniq g -> spec_apply g o = Some g' ->
    In r (rows g) -> lookup_row (r_lbl r) (rows g') = Some r' ->
    IdO (r_path r') = predicted (spec_deltas g o) (IdO (r_path r)).
Proof. exact deltas_agree_objects. Qed.

(* same for every connection (its ID = IDs of both endpoints, arrowheads, index) *)
Theorem C40_deltas_agree_with_edit_edges :
  forall g o g' e e' k, wf g -> spec_apply g o = Some g' ->
    In e (g_edges g) -> find_edge (e_lbl e) (g_edges g') = Some e' -> edge_id (rows g) e = Some k ->
    edge_id (rows g') e' = Some (predicted (spec_deltas g o) k).
Proof. exact deltas_agree_edges. Qed.

(* no change is predicted for an element the edit removes *)
Theorem C40_no_delta_for_removed_object :
  forall g o g' r, uniq g -> spec_apply g o = Some g' ->
    In r (rows g) -> lookup_row (r_lbl r) (rows g') = None ->
    dlookup (IdO (r_path r)) (spec_deltas g o) = None.
Proof. exact no_delta_for_removed_object. Qed.

Theorem C40_no_delta_for_removed_edge :
  forall g o g' e k, wf g -> spec_apply g o = Some g' ->
    In e (g_edges g) -> find_edge (e_lbl e) (g_edges g') = None -> edge_id (rows g) e = Some k ->
    dlookup k (spec_deltas g o) = None.
Proof. exact no_delta_for_removed_edge. Qed.

(* the executable predicate of Check.v (codes 30-32) holds on the spec's own output for ALL graphs that
   pass the executable well-formedness test (code 2 of Check.v) *)
Theorem C40_spec_satisfies_executable_clauses :
  forall g o g', wf_b g = true -> spec_apply g o = Some g' ->
    delta_codes g (rows g') (g_edges g') (spec_deltas g o) = [].
Proof. intros g o g' W. apply spec_deltas_satisfy_clauses. apply wf_b_wf. exact W. Qed.

(* the equation everything rests on: the rows after any operation are the rows before, minus the removed
   ones, with IDs rewritten by the predicted object deltas - identities and attributes untouched *)
Theorem C40_rows_after :
  forall g o g', uniq g -> spec_apply g o = Some g' ->
    Permutation (rows g') (map (after_row g o) (filter (keep_row o) (rows g))).
Proof. exact rows_after. Qed.

(* The property is NOT true of d2oracle itself: faithful mini-models of the two deviating computations
   (V.C40.Refuted) disagree with the edit on concrete diagrams; the witnesses are replayed on the real
   code by the harness on every run (recorded findings). *)
Theorem C40_rename_prediction_refuted_for_nested_objects :
  (go_rename_name g_rename 3 [99] = Some [99; 32; 50] /\ spec_rename_name g_rename 3 [99] = Some [99])
  /\ (go_rename_name g_rename2 3 [99] = Some [99; 32; 51] /\ spec_rename_name g_rename2 3 [99] = Some [99; 32; 50]).
Proof. exact rename_root_scope_refuted. Qed.

Theorem C40_move_same_scope_prediction_refuted :
  go_move_same_scope_deltas g_move 1 [99] = [([[97]], [[99]]); ([[97]; [98]], [[99]; [98; 32; 50]])]
  /\ option_map (fun g => map r_path (rows g)) (spec_move g_move 1 None [99] false) = Some [[[99]]; [[99]; [98]]; [[98]]]
  /\ obj_deltas g_move (OpMove 1 None [99] false) = [([[97]], [[99]]); ([[97]; [98]], [[99]; [98]])].
Proof. exact move_same_scope_prediction_refuted. Qed.

(* non-vacuity: a graph with containers, a name collision on hoisting and parallel edges is well formed,
   every kind of operation applies to it, and its predicted deltas are not empty *)
Definition ex_graph : graph :=
  mkG [Obj 1 [97] [] [Obj 2 [98] [] []; Obj 3 [99] [(2, [114])] [Obj 4 [100] [] []]]; Obj 5 [98] [] []]
      [mkE 1 2 4 false true 0 []; mkE 2 2 5 false true 0 []; mkE 3 2 5 false true 1 []].

Example C40_hypotheses_satisfiable :
  wf_b ex_graph = true
  /\ (exists g', spec_apply ex_graph (OpDelObj 1) = Some g')
  /\ (exists g', spec_apply ex_graph (OpMove 3 (Some 5) [99] false) = Some g')
  /\ (exists g', spec_apply ex_graph (OpDelEdge 2) = Some g')
  /\ length (spec_deltas ex_graph (OpDelObj 1)) = 6%nat
  /\ length (spec_deltas ex_graph (OpDelEdge 2)) = 1%nat.
Proof. vm_compute. repeat split; eexists; reflexivity. Qed.

Print Assumptions C40_deltas_agree_with_edit_objects.
Print Assumptions C40_deltas_agree_with_edit_edges.
Print Assumptions C40_no_delta_for_removed_object.
Print Assumptions C40_no_delta_for_removed_edge.
Print Assumptions C40_spec_satisfies_executable_clauses.
Print Assumptions C40_rows_after.
Print Assumptions C40_rename_prediction_refuted_for_nested_objects.
Print Assumptions C40_move_same_scope_prediction_refuted.
