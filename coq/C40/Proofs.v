(* C40: the predicted delta map [spec_deltas] agrees with every spec operation, for all graphs. *)
From Coq Require Import List Arith NArith Bool Lia Permutation.
Import ListNotations.
Require Import V.Lib.RunCases V.C38.Spec V.C38.Clauses V.C38.Proofs V.C38.Rows V.C38.Ops V.C38.Main V.C38.Paths.
Open Scope N_scope.

(* ------------------------------------------------------------------ well-formed graphs *)

Definition wf (g : graph) : Prop :=
  uniq g
  /\ NoDup (map e_lbl (g_edges g))
  /\ (forall e, In e (g_edges g) -> edge_id (rows g) e <> None)
  /\ (forall e1 e2, In e1 (g_edges g) -> In e2 (g_edges g) ->
                    parallel e1 e2 = true -> e_idx e1 = e_idx e2 -> e1 = e2).

Lemma nodupb_NoDup {A} (eqb : A -> A -> bool) l :
  (forall x y, x = y -> eqb x y = true) -> nodupb eqb l = true -> NoDup l.
Proof.
  intro R. induction l as [|x l IH]; cbn; intro H; [constructor|].
  apply andb_true_iff in H as [H1 H2]. constructor; auto.
  intro Hin. apply negb_true_iff in H1. assert (existsb (eqb x) l = true); [|congruence].
  apply existsb_exists. exists x. split; auto.
Qed.

Lemma nodupb_pairs {A} (eqb : A -> A -> bool) l :
  (forall x y, eqb x y = eqb y x) ->
  nodupb eqb l = true -> NoDup l -> forall x y, In x l -> In y l -> eqb x y = true -> x = y.
Proof.
  intro S. induction l as [|z l IH]; cbn; intros H ND x y Hx Hy E; [contradiction|].
  apply andb_true_iff in H as [H1 H2]. apply negb_true_iff in H1. inversion ND; subst.
  assert (Hn : forall w, In w l -> eqb z w = false).
  { intros w Hw. destruct (eqb z w) eqn:Ew; auto.
    assert (existsb (eqb z) l = true) by (apply existsb_exists; eauto). congruence. }
  destruct Hx as [-> | Hx], Hy as [-> | Hy]; auto.
  - rewrite (Hn _ Hy) in E. discriminate.
  - rewrite S, (Hn _ Hx) in E. discriminate.
Qed.

Lemma wf_b_wf g : wf_b g = true -> wf g.
Proof.
  unfold wf_b. rewrite !andb_true_iff. intros [[[[H1 H2] H3] H4] H5].
  assert (NE : NoDup (map e_lbl (g_edges g))).
  { eapply nodupb_NoDup; [|exact H3]. intros; subst; apply N.eqb_refl. }
  repeat split.
  - eapply nodupb_NoDup; [|exact H1]. intros; subst; apply N.eqb_refl.
  - eapply nodupb_NoDup; [|exact H2]. intros; subst; apply path_eqb_refl.
  - exact NE.
  - intros e He. rewrite forallb_forall in H4. specialize (H4 e He). destruct (edge_id (rows g) e); congruence.
  - intros e1 e2 I1 I2 P E.
    assert (S : forall x y : edge, parallel x y && (e_idx x =? e_idx y) = parallel y x && (e_idx y =? e_idx x)).
    { intros x y. unfold parallel. rewrite (N.eqb_sym (e_src x)), (N.eqb_sym (e_dst x)), (N.eqb_sym (e_idx x)).
      destruct (e_sa x), (e_sa y), (e_da x), (e_da y); reflexivity. }
    apply (nodupb_pairs _ _ S H5); auto.
    + apply NoDup_map_inv with (f := e_lbl). exact NE.
    + rewrite P. apply N.eqb_eq in E. rewrite E. reflexivity.
Qed.

(* ------------------------------------------------------------------ keys of the object deltas *)

(* the keys are the IDs of one contiguous segment of rows, hence unique *)
Lemma obj_deltas_keys g o :
  uniq g -> exists A S B, rows g = A ++ S ++ B /\ map fst (obj_deltas g o) = paths S.
Proof.
  intros [NL NP]. unfold rows in *.
  assert (Hnil : exists A S B, flat_f [] (g_objs g) = A ++ S ++ B /\ @map (path * path) path fst [] = paths S)
    by (exists (flat_f [] (g_objs g)), [], []; rewrite !app_nil_r; auto).
  destruct o as [t | l | t c | l c | t n | t d n incl]; cbn [obj_deltas]; auto.
  - destruct (find_obj t (g_objs g)) as [[[[[sl pp] a] x] b]|] eqn:Hf; auto.
    destruct (find_obj_rows _ _ _ _ _ _ _ Hf) as [A [B [E1 _]]].
    exists (A ++ [mkR (lbl x) (pp ++ [oname x]) (oattrs x)]), (flat_f (pp ++ [oname x]) (kids x)), B. split.
    + rewrite E1, flat_o_unfold. rewrite <- !app_assoc. reflexivity.
    + apply zip_paths_fst. apply Forall2_length' with (R := same_la).
      apply flat_f_same_la_renamed, hoist_kids_renamed.
  - destruct (find_obj t (g_objs g)) as [[[[[sl pp] a] x] b]|] eqn:Hf; auto.
    destruct (str_eqb n (oname x)); auto.
    destruct (find_obj_rows _ _ _ _ _ _ _ Hf) as [A [B [E1 _]]].
    exists A, (flat_o pp x), B. split; auto.
    apply zip_paths_fst. apply Forall2_length' with (R := same_la).
    apply flat_o_same_la_renamed. eexists; reflexivity.
  - destruct (find_obj t (g_objs g)) as [[[[[sl pp] a] x] b]|] eqn:Hf; auto.
    destruct (dest_loc d (g_objs g)) as [dl|]; auto.
    destruct (get_list dl [] (g_objs g)) as [[dp dks]|]; auto.
    destruct (find_obj_rows _ _ _ _ _ _ _ Hf) as [A [B [E1 _]]].
    destruct (same_loc sl dl); [destruct (str_eqb n (oname x)); auto | destruct incl].
    + exists A, (flat_o pp x), B. split; auto.
      apply zip_paths_fst. apply Forall2_length' with (R := same_la).
      apply flat_o_same_la_renamed. eexists; reflexivity.
    + exists A, (flat_o pp x), B. split; auto.
      apply zip_paths_fst. apply Forall2_length' with (R := same_la).
      apply flat_o_same_la_renamed. eexists; reflexivity.
    + exists A, (flat_o pp x), B. split; auto.
      rewrite flat_o_unfold. cbn [map paths fst]. f_equal.
      apply zip_paths_fst. apply Forall2_length' with (R := same_la).
      apply flat_f_same_la_renamed, hoist_kids_renamed.
Qed.

Lemma obj_deltas_keys_NoDup g o : uniq g -> NoDup (map fst (obj_deltas g o)).
Proof.
  intro U. destruct (obj_deltas_keys g o U) as [A [S [B [E1 E2]]]]. destruct U as [_ NP].
  rewrite E2. rewrite E1, !paths_app in NP. apply NoDup_app_r in NP. apply NoDup_app_l in NP. exact NP.
Qed.

(* ------------------------------------------------------------------ looking up the delta map *)

Definition obj_part (od : list (path * path)) : deltas :=
  flat_map (fun kv => if path_eqb (fst kv) (snd kv) then [] else [(IdO (fst kv), IdO (snd kv))]) od.

Lemma dlookup_app k a b : dlookup k (a ++ b) = match dlookup k a with Some v => Some v | None => dlookup k b end.
Proof. induction a as [|[k' v] a IH]; cbn; auto. destruct (id_eqb k k'); auto. Qed.

Lemma dlookup_obj_part_edge od s d sa da i : dlookup (IdE s d sa da i) (obj_part od) = None.
Proof.
  induction od as [|[k v] od IH]; cbn; auto. destruct (path_eqb k v); cbn; auto.
Qed.

Lemma dlookup_obj_part od p :
  NoDup (map fst od) ->
  dlookup (IdO p) (obj_part od) = match plookup p od with
                                  | Some v => if path_eqb p v then None else Some (IdO v)
                                  | None => None
                                  end.
Proof.
  induction od as [|[k v] od IH]; cbn [obj_part flat_map plookup map fst snd]; intro ND; auto.
  inversion ND as [|? ? Hk ND']; subst. fold (obj_part od).
  destruct (path_eqb p k) eqn:E.
  - apply path_eqb_eq in E. subst k. destruct (path_eqb p v) eqn:Ev.
    + cbn [app]. rewrite IH by auto. assert (plookup p od = None) by (apply plookup_None; auto).
      rewrite H. reflexivity.
    + cbn [app dlookup id_eqb]. rewrite path_eqb_refl. reflexivity.
  - destruct (path_eqb k v); cbn [app dlookup id_eqb]; [|rewrite E]; apply IH; auto.
Qed.

Lemma dlookup_edge_part_obj (f : edge -> deltas) es p :
  (forall e kv, In kv (f e) -> exists s d sa da i, fst kv = IdE s d sa da i) ->
  dlookup (IdO p) (flat_map f es) = None.
Proof.
  intro H. induction es as [|e es IH]; cbn; auto. rewrite dlookup_app, IH.
  assert (forall l, (forall kv, In kv l -> exists s d sa da i, fst kv = IdE s d sa da i) -> dlookup (IdO p) l = None).
  { induction l as [|[k v] l IHl]; cbn; intro Hl; auto.
    destruct (Hl (k, v) (or_introl eq_refl)) as [s [d [sa [da [i E]]]]]. cbn in E. subst k. cbn.
    apply IHl. intros; apply Hl; right; auto. }
  rewrite H0; auto. intros; eapply H; eauto.
Qed.

Definition edge_entry (g : graph) (o : op) (e : edge) : deltas :=
  if removed_edge o e then []
  else match edge_id (rows g) e, new_edge_id g o e with
       | Some k, Some k' => if id_eqb k k' then [] else [(k, k')]
       | _, _ => []
       end.

Lemma spec_deltas_eq g o :
  spec_deltas g o = obj_part (obj_deltas g o) ++ flat_map (edge_entry g o) (g_edges g).
Proof. reflexivity. Qed.

Lemma edge_entry_keys g o e kv : In kv (edge_entry g o e) -> exists s d sa da i, fst kv = IdE s d sa da i.
Proof.
  unfold edge_entry. destruct (removed_edge o e); [contradiction|].
  unfold edge_id. destruct (path_of (rows g) (e_src e)), (path_of (rows g) (e_dst e)); try contradiction.
  destruct (new_edge_id g o e); [|contradiction]. destruct (id_eqb _ _); [contradiction|].
  intros [<- | []]. cbn. eauto 6.
Qed.

(* predicted ID of an object *)
Lemma predicted_obj g o p :
  uniq g -> predicted (spec_deltas g o) (IdO p) = IdO (new_path g o p).
Proof.
  intro U. unfold predicted. rewrite spec_deltas_eq, dlookup_app.
  rewrite dlookup_obj_part by (apply obj_deltas_keys_NoDup; auto).
  unfold new_path, papply. destruct (plookup p (obj_deltas g o)) as [v|] eqn:E.
  - destruct (path_eqb p v) eqn:Ev.
    + apply path_eqb_eq in Ev. subst v.
      rewrite (dlookup_edge_part_obj (edge_entry g o)); auto. apply edge_entry_keys.
    + reflexivity.
  - rewrite (dlookup_edge_part_obj (edge_entry g o)); auto. apply edge_entry_keys.
Qed.

(* ------------------------------------------------------------------ objects *)

(* every object that survives ends up with the predicted ID (or keeps it when nothing is predicted) *)
Theorem deltas_agree_objects g o g' r r' :
  uniq g -> spec_apply g o = Some g' ->
  In r (rows g) -> lookup_row (r_lbl r) (rows g') = Some r' ->
  IdO (r_path r') = predicted (spec_deltas g o) (IdO (r_path r)).
Proof.
  intros U H Hr Hl. rewrite predicted_obj by auto.
  destruct (keep_row o r) eqn:K.
  - rewrite (lookup_after_kept _ _ _ _ U H Hr K) in Hl. inversion Hl; subst. reflexivity.
  - rewrite (lookup_after_removed _ _ _ _ U H Hr K) in Hl. discriminate.
Qed.

(* no change is predicted for an object the edit removes *)
Theorem no_delta_for_removed_object g o g' r :
  uniq g -> spec_apply g o = Some g' ->
  In r (rows g) -> lookup_row (r_lbl r) (rows g') = None ->
  dlookup (IdO (r_path r)) (spec_deltas g o) = None.
Proof.
  intros U H Hr Hl.
  destruct (keep_row o r) eqn:K.
  { rewrite (lookup_after_kept _ _ _ _ U H Hr K) in Hl. discriminate. }
  rewrite spec_deltas_eq, dlookup_app.
  rewrite (dlookup_edge_part_obj (edge_entry g o)) by apply edge_entry_keys.
  rewrite dlookup_obj_part by (apply obj_deltas_keys_NoDup; auto).
  (* only OpDelObj removes objects; the removed row is not in the hoisted segment *)
  unfold keep_row in K. apply negb_false_iff in K.
  destruct o as [t | l | t c | l c | t n | t d n incl]; cbn [removed_obj] in K; try discriminate.
  apply N.eqb_eq in K. cbn [obj_deltas].
  destruct (find_obj t (g_objs g)) as [[[[[sl pp] a] x] b]|] eqn:Hf; [|reflexivity].
  destruct (find_obj_rows _ _ _ _ _ _ _ Hf) as [A [B [E1 _]]].
  destruct (find_obj_sound _ _ _ _ _ _ _ Hf) as [_ Lx].
  destruct U as [NL NP]. unfold rows in *.
  set (xr := mkR (lbl x) (pp ++ [oname x]) (oattrs x)).
  assert (Er : r = xr).
  { eapply NoDup_labels_inj; eauto.
    - rewrite E1. apply in_or_app; right. apply in_or_app; left. apply In_flat_o_head.
    - cbn. congruence. }
  subst r. cbn [r_path xr].
  assert (Hn : plookup (pp ++ [oname x])
                 (zip_paths (flat_f (pp ++ [oname x]) (kids x))
                    (flat_f pp (hoist_kids (names (a ++ b)) (oname x) (kids x)))) = None).
  { apply plookup_None. rewrite zip_paths_fst.
    - rewrite E1, flat_o_unfold in NP. rewrite paths_app in NP. cbn in NP.
      apply NoDup_app_r in NP. inversion NP; subst. rewrite paths_app in H2.
      intro Hin. apply H2. apply in_or_app; left; exact Hin.
    - apply Forall2_length' with (R := same_la). apply flat_f_same_la_renamed, hoist_kids_renamed. }
  rewrite Hn. reflexivity.
Qed.

(* ------------------------------------------------------------------ edges *)

Lemma path_of_In rs l p : path_of rs l = Some p -> exists r, In r rs /\ r_lbl r = l /\ r_path r = p.
Proof.
  unfold path_of. destruct (lookup_row l rs) as [r|] eqn:E; [|discriminate].
  intros [= <-]. apply lookup_row_In in E as [Hin El]. eauto.
Qed.

(* with unique identities and unique IDs, an object's ID determines its identity *)
Lemma path_of_inj rs l1 l2 p :
  NoDup (paths rs) -> path_of rs l1 = Some p -> path_of rs l2 = Some p -> l1 = l2.
Proof.
  intros NP H1 H2. apply path_of_In in H1 as [r1 [I1 [L1 P1]]]. apply path_of_In in H2 as [r2 [I2 [L2 P2]]].
  assert (r1 = r2); [|congruence].
  clear -NP I1 I2 P1 P2. subst p. induction rs as [|r rs IH]; [contradiction|].
  cbn in NP. inversion NP; subst. destruct I1 as [-> | I1], I2 as [-> | I2]; auto.
  - exfalso. apply H1. rewrite <- P2. apply in_map; auto.
  - exfalso. apply H1. rewrite P2. apply in_map; auto.
Qed.

Lemma edge_id_inj g e1 e2 :
  wf g -> In e1 (g_edges g) -> In e2 (g_edges g) ->
  edge_id (rows g) e1 = edge_id (rows g) e2 -> e1 = e2.
Proof.
  intros [[NL NP] [NE [HE HP]]] I1 I2 E.
  pose proof (HE _ I1) as N1. unfold edge_id in *.
  destruct (path_of (rows g) (e_src e1)) as [s1|] eqn:S1; [|congruence].
  destruct (path_of (rows g) (e_dst e1)) as [d1|] eqn:D1; [|congruence].
  destruct (path_of (rows g) (e_src e2)) as [s2|] eqn:S2; [|discriminate].
  destruct (path_of (rows g) (e_dst e2)) as [d2|] eqn:D2; [|discriminate].
  inversion E; subst. apply HP; auto.
  unfold parallel. rewrite (path_of_inj _ _ _ _ NP S1 S2), (path_of_inj _ _ _ _ NP D1 D2).
  rewrite !N.eqb_refl. rewrite H2, H3. rewrite !Bool.eqb_reflx. reflexivity.
Qed.

(* looking up an edge ID in the edge part of the delta map *)
Lemma dlookup_edge_part g o es k :
  (forall e, In e es -> edge_id (rows g) e = Some k -> edge_entry g o e = []) ->
  dlookup k (flat_map (edge_entry g o) es) = None.
Proof.
  induction es as [|e es IH]; intro H; cbn; auto. rewrite dlookup_app.
  rewrite IH by (intros; apply H; auto; right; auto).
  unfold edge_entry in *. specialize (H e (or_introl eq_refl)).
  destruct (removed_edge o e); auto.
  destruct (edge_id (rows g) e) as [k0|] eqn:E0; auto.
  destruct (new_edge_id g o e) as [k1|]; auto.
  destruct (id_eqb k0 k1) eqn:E1; auto.
  cbn. destruct (id_eqb k k0) eqn:E2; auto.
  apply id_eqb_eq in E2. subst k0. specialize (H eq_refl). discriminate.
Qed.

Lemma dlookup_edge_found g o es e k :
  wf g -> incl es (g_edges g) -> In e es -> edge_id (rows g) e = Some k ->
  dlookup k (flat_map (edge_entry g o) es) = dlookup k (edge_entry g o e).
Proof.
  intros W Hi He Ek. induction es as [|e0 es IH]; [contradiction|].
  cbn [flat_map]. rewrite dlookup_app.
  destruct (dlookup k (edge_entry g o e0)) as [v|] eqn:E0.
  - (* the entry of e0 has key k, so e0 = e *)
    assert (e0 = e); [|subst; rewrite E0; reflexivity].
    apply (edge_id_inj g _ _ W).
    + apply Hi; left; reflexivity.
    + apply Hi; exact He.
    + rewrite Ek. unfold edge_entry in E0. destruct (removed_edge o e0); [discriminate|].
      destruct (edge_id (rows g) e0) as [k0|]; [|discriminate].
      destruct (new_edge_id g o e0); [|discriminate]. destruct (id_eqb k0 i); [discriminate|].
      cbn in E0. destruct (id_eqb k k0) eqn:Ek0; [|discriminate]. apply id_eqb_eq in Ek0. congruence.
  - destruct He as [-> | He].
    + rewrite E0. apply dlookup_edge_part. intros e1 H1 Ek1.
      assert (e1 = e).
      { apply (edge_id_inj g _ _ W); [apply Hi; right; exact H1 | apply Hi; left; reflexivity | congruence]. }
      subst e1. unfold edge_entry in *. destruct (removed_edge o e); auto. rewrite Ek in *.
      destruct (new_edge_id g o e) as [k1|]; auto. destruct (id_eqb k k1) eqn:E1; auto.
      cbn in E0. rewrite id_eqb_refl in E0. discriminate.
    + apply IH; auto. intros z Hz. apply Hi. right; auto.
Qed.

Lemma predicted_edge g o e k :
  wf g -> In e (g_edges g) -> keep_edge o e = true -> edge_id (rows g) e = Some k ->
  exists k', new_edge_id g o e = Some k' /\ predicted (spec_deltas g o) k = k'.
Proof.
  intros W He Hk Ek. pose proof W as [U _].
  unfold edge_id in Ek. unfold new_edge_id.
  destruct (path_of (rows g) (e_src e)) as [s|] eqn:S; [|discriminate].
  destruct (path_of (rows g) (e_dst e)) as [d|] eqn:D; [|discriminate].
  inversion Ek; subst k. eexists. split; [reflexivity|].
  unfold predicted. rewrite spec_deltas_eq, dlookup_app, dlookup_obj_part_edge.
  rewrite (dlookup_edge_found g o (g_edges g) e) ; auto.
  2:{ apply incl_refl. }
  2:{ unfold edge_id. rewrite S, D. reflexivity. }
  unfold edge_entry. unfold keep_edge in Hk. apply negb_true_iff in Hk. rewrite Hk.
  unfold edge_id, new_edge_id. rewrite S, D.
  destruct (id_eqb _ _) eqn:E.
  - apply id_eqb_eq in E. cbn. exact E.
  - cbn [dlookup]. rewrite id_eqb_refl. reflexivity.
Qed.

Lemma find_edge_map_kept (f : edge -> edge) (keep : edge -> bool) es e :
  (forall e, e_lbl (f e) = e_lbl e) -> NoDup (map e_lbl es) -> In e es -> keep e = true ->
  find_edge (e_lbl e) (map f (filter keep es)) = Some (f e).
Proof.
  intros Hf ND He Hk. rewrite <- (Hf e). apply find_edge_unique.
  - rewrite map_map. rewrite (map_ext _ e_lbl) by auto.
    clear -ND. induction es as [|x l IH]; cbn; [constructor|]. cbn in ND. inversion ND; subst.
    destruct (keep x); cbn; auto. constructor; auto. intro Hin. apply H1.
    apply in_map_iff in Hin as [y [Ey Hy]]. apply filter_In in Hy as [Hy _]. rewrite <- Ey. apply in_map; auto.
  - apply in_map. apply filter_In; auto.
Qed.

Lemma find_edge_map_removed (f : edge -> edge) (keep : edge -> bool) es e :
  (forall e, e_lbl (f e) = e_lbl e) -> NoDup (map e_lbl es) -> In e es -> keep e = false ->
  find_edge (e_lbl e) (map f (filter keep es)) = None.
Proof.
  intros Hf ND He Hk. apply find_edge_None. rewrite map_map. rewrite (map_ext _ e_lbl) by auto.
  intro Hin. apply in_map_iff in Hin as [y [Ey Hy]]. apply filter_In in Hy as [Hy Ky].
  assert (y = e); [|congruence].
  clear -ND Hy He Ey. induction es as [|x l IH]; [contradiction|]. cbn in ND. inversion ND; subst.
  destruct Hy as [-> | Hy], He as [-> | He]; auto.
  - exfalso. apply H1. rewrite Ey. apply in_map; auto.
  - exfalso. apply H1. rewrite <- Ey. apply in_map; auto.
Qed.

Lemma after_edge_lbl g o e : e_lbl (after_edge g o e) = e_lbl e.
Proof.
  unfold after_edge. destruct o; auto.
  - destruct (find_edge l (g_edges g)); auto. unfold renumber. destruct (_ && _); reflexivity.
  - destruct (e_lbl e =? l); reflexivity.
Qed.

Lemma after_edge_ends g o e :
  e_src (after_edge g o e) = e_src e /\ e_dst (after_edge g o e) = e_dst e
  /\ e_sa (after_edge g o e) = e_sa e /\ e_da (after_edge g o e) = e_da e
  /\ e_idx (after_edge g o e) = new_idx g o e.
Proof.
  unfold after_edge, new_idx. destruct o; auto.
  - destruct (find_edge l (g_edges g)); auto. unfold renumber. destruct (_ && _); auto.
  - destruct (e_lbl e =? l); auto.
Qed.

(* an edge that is kept has both endpoints kept *)
Lemma kept_edge_ends o e l : keep_edge o e = true -> (l = e_src e \/ l = e_dst e) -> removed_obj o l = false.
Proof.
  unfold keep_edge. intros H Hl. apply negb_true_iff in H.
  destruct o; cbn in *; auto. unfold touches in H. apply orb_false_iff in H as [H1 H2].
  destruct Hl as [-> | ->]; assumption.
Qed.

(* every edge that survives ends up with the predicted ID *)
Theorem deltas_agree_edges g o g' e e' k :
  wf g -> spec_apply g o = Some g' ->
  In e (g_edges g) -> find_edge (e_lbl e) (g_edges g') = Some e' -> edge_id (rows g) e = Some k ->
  edge_id (rows g') e' = Some (predicted (spec_deltas g o) k).
Proof.
  intros W H He Hf Ek. pose proof W as [U [NE _]].
  rewrite (edges_after _ _ _ H) in Hf.
  destruct (keep_edge o e) eqn:K.
  2:{ rewrite (find_edge_map_removed (after_edge g o) (keep_edge o)) in Hf; auto; [discriminate|].
      apply after_edge_lbl. }
  rewrite (find_edge_map_kept (after_edge g o) (keep_edge o)) in Hf; auto; [|apply after_edge_lbl].
  inversion Hf; subst e'. clear Hf.
  destruct (predicted_edge g o e k W He K Ek) as [k' [Hn Hp]]. rewrite Hp.
  destruct (after_edge_ends g o e) as [Es [Ed [Esa [Eda Ei]]]].
  unfold edge_id in *. unfold new_edge_id in Hn. rewrite Es, Ed, Esa, Eda, Ei.
  destruct (path_of (rows g) (e_src e)) as [s|] eqn:S; [|discriminate].
  destruct (path_of (rows g) (e_dst e)) as [d|] eqn:D; [|discriminate].
  apply path_of_In in S as [rs [Is [Ls Ps]]]. apply path_of_In in D as [rd [Id [Ld Pd]]].
  assert (Ks : keep_row o rs = true).
  { unfold keep_row. rewrite Ls. rewrite (kept_edge_ends o e (e_src e)); auto. }
  assert (Kd : keep_row o rd = true).
  { unfold keep_row. rewrite Ld. rewrite (kept_edge_ends o e (e_dst e)); auto. }
  assert (PS : path_of (rows g') (e_src e) = Some (new_path g o s)).
  { unfold path_of. rewrite <- Ls. rewrite (lookup_after_kept _ _ _ _ U H Is Ks). cbn. rewrite Ps. reflexivity. }
  assert (PD : path_of (rows g') (e_dst e) = Some (new_path g o d)).
  { unfold path_of. rewrite <- Ld. rewrite (lookup_after_kept _ _ _ _ U H Id Kd). cbn. rewrite Pd. reflexivity. }
  rewrite PS, PD. exact Hn.
Qed.

(* no change is predicted for an edge the edit removes *)
Theorem no_delta_for_removed_edge g o g' e k :
  wf g -> spec_apply g o = Some g' ->
  In e (g_edges g) -> find_edge (e_lbl e) (g_edges g') = None -> edge_id (rows g) e = Some k ->
  dlookup k (spec_deltas g o) = None.
Proof.
  intros W H He Hf Ek. pose proof W as [U [NE _]].
  rewrite (edges_after _ _ _ H) in Hf.
  destruct (keep_edge o e) eqn:K.
  { rewrite (find_edge_map_kept (after_edge g o) (keep_edge o)) in Hf; auto; [discriminate|apply after_edge_lbl]. }
  rewrite spec_deltas_eq, dlookup_app.
  assert (Hobj : dlookup k (obj_part (obj_deltas g o)) = None).
  { unfold edge_id in Ek.
    destruct (path_of (rows g) (e_src e)) as [s|]; [|discriminate Ek].
    destruct (path_of (rows g) (e_dst e)) as [d|]; [|discriminate Ek].
    inversion Ek. apply dlookup_obj_part_edge. }
  rewrite Hobj. rewrite (dlookup_edge_found g o (g_edges g) e); auto; [|apply incl_refl].
  unfold edge_entry. unfold keep_edge in K. apply negb_false_iff in K. rewrite K. reflexivity.
Qed.

(* ------------------------------------------------------------------ the executable clauses hold *)

Theorem spec_deltas_satisfy_clauses g o g' :
  wf g -> spec_apply g o = Some g' ->
  delta_codes g (rows g') (g_edges g') (spec_deltas g o) = [].
Proof.
  intros W H. pose proof W as [U [NE [HE _]]]. unfold delta_codes.
  assert (C30 : forallb (fun r => match lookup_row (r_lbl r) (rows g') with
                                  | Some r' => id_eqb (IdO (r_path r')) (predicted (spec_deltas g o) (IdO (r_path r)))
                                  | None => true end) (rows g) = true).
  { apply forallb_forall. intros r Hr. destruct (lookup_row (r_lbl r) (rows g')) as [r'|] eqn:E; auto.
    apply id_eqb_eq. eapply deltas_agree_objects; eauto. }
  assert (C31 : forallb (fun e => match find_edge (e_lbl e) (g_edges g') with
                                  | Some e' => match edge_id (rows g) e, edge_id (rows g') e' with
                                               | Some k, Some k' => id_eqb k' (predicted (spec_deltas g o) k)
                                               | _, _ => false end
                                  | None => true end) (g_edges g) = true).
  { apply forallb_forall. intros e He. destruct (find_edge (e_lbl e) (g_edges g')) as [e'|] eqn:E; auto.
    destruct (edge_id (rows g) e) as [k|] eqn:Ek; [|exfalso; eapply HE; eauto].
    rewrite (deltas_agree_edges _ _ _ _ _ _ W H He E Ek). apply id_eqb_refl. }
  assert (C32a : forallb (fun r => isSome (lookup_row (r_lbl r) (rows g'))
                                   || negb (isSome (dlookup (IdO (r_path r)) (spec_deltas g o)))) (rows g) = true).
  { apply forallb_forall. intros r Hr. destruct (lookup_row (r_lbl r) (rows g')) eqn:E; auto.
    rewrite (no_delta_for_removed_object _ _ _ _ U H Hr E). reflexivity. }
  assert (C32b : forallb (fun e => isSome (find_edge (e_lbl e) (g_edges g'))
                                   || match edge_id (rows g) e with
                                      | Some k => negb (isSome (dlookup k (spec_deltas g o)))
                                      | None => true end) (g_edges g) = true).
  { apply forallb_forall. intros e He. destruct (find_edge (e_lbl e) (g_edges g')) eqn:E; auto.
    destruct (edge_id (rows g) e) as [k|] eqn:Ek; auto.
    rewrite (no_delta_for_removed_edge _ _ _ _ _ W H He E Ek). reflexivity. }
  rewrite C30, C31, C32a, C32b. reflexivity.
Qed.
