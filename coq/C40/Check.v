(* Executable checker for C40 cases: predicted ID deltas against the edit they predict. *)
From Coq Require Import List NArith Bool.
Import ListNotations.
Require Import V.Lib.RunCases.
Require Export V.C38.Spec V.C38.Clauses.
Open Scope N_scope.

Inductive case := Step (before : graph) (o : op) (err : bool) (RA : list orow) (EA : list edge) (d : option deltas).

(* 1   the delta map of the *IDDeltas function differs from spec_deltas (as sets of proper changes)
   2   the graph before is not well formed (hypothesis of the theorems)
   33  the delta function failed although the edit succeeded
   30-32 see Clauses.delta_codes; an edit that itself failed predicts nothing and is not judged here *)
Definition check_case (c : case) : list N :=
  match c with
  | Step gb o err RA EA d =>
      flag (wf_b gb) 2
      ++ if err then []
         else match d with
              | None => [33]
              | Some d => flag (deltas_equiv (spec_deltas gb o) d) 1 ++ delta_codes gb RA EA d
              end
  end.
