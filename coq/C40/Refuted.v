(* Faithful mini-models of two places where d2oracle deviates from the specification, and refutations
   of the property on them.  The witnesses are scripted steps of harness/c38.go (c38Scripts) and are
   replayed on the real code on every run (recorded findings C39-rename-unique-name-wrong-scope /
   C40-rename-prediction-scope and C40-move-same-scope-predicts-hoisting). *)
From Coq Require Import List NArith Bool.
Import ListNotations.
Require Import V.Lib.RunCases V.C38.Spec.
Open Scope N_scope.

(* d2oracle.Rename: (1) generateUniqueKey(boardG, newName, obj, nil) with the bare name, i.e. against the
   ROOT scope (the object itself is ignored only when it lives there); (2) move(key, parent.newName), which
   calls generateUniqueKey again among the parent's children with nothing ignored and returns early when
   the key does not change. *)
Definition go_rename_name (g : graph) (t : N) (n : str) : option str :=
  match find_obj t (g_objs g) with
  | None => None
  | Some (sl, pp, a, x, b) =>
      let roots := match sl with [] => names (a ++ b) | _ => names (g_objs g) end in
      let n1 := gen_unique roots (smem n roots) n in
      if str_eqb n1 (oname x) then Some (oname x)
      else let sibs := names (a ++ x :: b) in Some (gen_unique sibs (smem n1 sibs) n1)
  end.

(* the name RenameIDDeltas predicts = the name of the specification *)
Definition spec_rename_name (g : graph) (t : N) (n : str) : option str :=
  match find_obj t (g_objs g) with
  | None => None
  | Some (sl, pp, a, x, b) =>
      if str_eqb n (oname x) then Some (oname x)
      else Some (gen_unique (names (a ++ b)) (smem n (names (a ++ b))) n)
  end.

(* c: L1; a: L2 { b: L3 { c: L4 } } *)
Definition g_rename : graph :=
  mkG [Obj 1 [99] [] []; Obj 2 [97] [] [Obj 3 [98] [] [Obj 4 [99] [] []]]] [].
(* p: L1 { c: L2; c 2: L3 } *)
Definition g_rename2 : graph :=
  mkG [Obj 1 [112] [] [Obj 2 [99] [] []; Obj 3 [99; 32; 50] [] []]] [].

(* Rename(a.b, "c") gives a."c 2" although a.c is free and predicted; Rename(p."c 2", "c") gives "c 3"
   where the prediction (and the specification) keep "c 2" *)
Theorem rename_root_scope_refuted :
  (go_rename_name g_rename 3 [99] = Some [99; 32; 50] /\ spec_rename_name g_rename 3 [99] = Some [99])
  /\ (go_rename_name g_rename2 3 [99] = Some [99; 32; 51] /\ spec_rename_name g_rename2 3 [99] = Some [99; 32; 50]).
Proof. vm_compute. repeat split. Qed.

(* on root-level objects the two agree (guarded positive statement, checked on the witnesses' roots) *)
Theorem rename_root_level_agrees :
  go_rename_name g_rename 2 [99] = spec_rename_name g_rename 2 [99]
  /\ go_rename_name g_rename 1 [97] = spec_rename_name g_rename 1 [97].
Proof. vm_compute. split; reflexivity. Qed.

(* MoveIDDeltas(key, newKey, includeDescendants = false) inside one scope: the conflict renames of the
   children are computed as for a hoist (against the object's siblings) and applied although the
   children stay below the object. *)
Definition go_move_same_scope_deltas (g : graph) (t : N) (n : str) : list (path * path) :=
  match find_obj t (g_objs g) with
  | None => []
  | Some (sl, pp, a, x, b) =>
      let n' := gen_unique (names (a ++ x :: b)) (smem n (names (a ++ x :: b))) n in
      let ks' := hoist_kids (names (a ++ b)) (oname x) (kids x) in
      combine (map r_path (flat_o pp x)) (map r_path (flat_o pp (set_kids ks' (set_name n' x))))
  end.

(* a: L1 { b: L2 }; b: L3 *)
Definition g_move : graph := mkG [Obj 1 [97] [] [Obj 2 [98] [] []]; Obj 3 [98] [] []] [].

(* Move(a, c, false) keeps the child as c.b; MoveIDDeltas predicts c."b 2" *)
Theorem move_same_scope_prediction_refuted :
  go_move_same_scope_deltas g_move 1 [99] = [([[97]], [[99]]); ([[97]; [98]], [[99]; [98; 32; 50]])]
  /\ option_map (fun g => map r_path (rows g)) (spec_move g_move 1 None [99] false) = Some [[[99]]; [[99]; [98]]; [[98]]]
  /\ obj_deltas g_move (OpMove 1 None [99] false) = [([[97]], [[99]]); ([[97]; [98]], [[99]; [98]])].
Proof. vm_compute. repeat split. Qed.
