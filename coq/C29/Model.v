(* C29 — bounding box and SVG viewport enclose everything drawn.
   Executable model (definitions only) of d2target.Diagram.BoundingBox as a fold of min / max over the shapes
   and connections of an exported diagram, of label.Position.GetPointOnBox, of what d2svg.drawShape /
   drawConnection draw for each item (extent rectangles), and of the viewport computation
   (d2svg.dimensions + the root-stroke / double-border shifts in d2svg.Render).
   Numbers: d2target geometry is integral (Go int) -> Z.  float64 coordinates enter in two ways:
     - label / icon points computed by GetPointOnBox are k/2 exactly; they are modelled in HALF PIXELS (Z);
     - route points and connection-label points come from the layout engine / sqrt and are arbitrary floats: a
       float v is represented by the pair (floor v, ceil v), which decides every comparison with integers that
       BoundingBox and containment make (Go's int(v) is truncation toward zero: [tr]). *)
From Coq Require Import List ZArith Bool.
Import ListNotations.
Open Scope Z_scope.

(* ---- floats as (floor, ceil) ---- *)
Record fnum := { fl : Z; ce : Z }.
Definition fnum_wf (v : fnum) : Prop := fl v <= ce v <= fl v + 1.
Definition fnum_wf_b (v : fnum) : bool := (fl v <=? ce v) && (ce v <=? fl v + 1).
(* Go int(v) *)
Definition tr (v : fnum) : Z := if 0 <=? fl v then fl v else ce v.

(* a half-pixel coordinate z (the float z/2) as floor / ceil / int() *)
Definition hfloor (z : Z) : Z := z / 2.
Definition hceil (z : Z) : Z := (z + 1) / 2.
Definition htrunc (z : Z) : Z := Z.quot z 2.
Definition of_half (z : Z) : fnum := {| fl := hfloor z; ce := hceil z |}.

(* ---- constants of d2target / lib/label (compared with the linked packages by the harness) ---- *)
Definition SHADOW_SIZE_X := 3.
Definition SHADOW_SIZE_Y := 5.
Definition THREE_DEE_OFFSET := 15.
Definition MULTIPLE_OFFSET := 10.
Definition LABEL_PADDING := 5.
Definition APPENDIX_ICON_RADIUS := 16.
Definition MAX_INT32 := 2147483647.
Definition MIN_INT32 := -2147483648.

(* ---- rectangles (x1, y1, x2, y2), integral pixels ---- *)
Definition rect := (Z * Z * Z * Z)%type.
Definition rx1 (r : rect) := let '(a, _, _, _) := r in a.
Definition ry1 (r : rect) := let '(_, b, _, _) := r in b.
Definition rx2 (r : rect) := let '(_, _, c, _) := r in c.
Definition ry2 (r : rect) := let '(_, _, _, d) := r in d.
(* r lies inside b *)
Definition inside (r b : rect) : Prop := rx1 b <= rx1 r /\ ry1 b <= ry1 r /\ rx2 r <= rx2 b /\ ry2 r <= ry2 b.
Definition inside_b (r b : rect) : bool :=
  (rx1 b <=? rx1 r) && (ry1 b <=? ry1 r) && (rx2 r <=? rx2 b) && (ry2 r <=? ry2 b).
Definition grow (k : Z) (b : rect) : rect := (rx1 b - k, ry1 b - k, rx2 b + k, ry2 b + k).
Definition join (a b : rect) : rect :=
  (Z.min (rx1 a) (rx1 b), Z.min (ry1 a) (ry1 b), Z.max (rx2 a) (rx2 b), Z.max (ry2 a) (ry2 b)).
Definition rect_eqb (a b : rect) : bool :=
  (rx1 a =? rx1 b) && (ry1 a =? ry1 b) && (rx2 a =? rx2 b) && (ry2 a =? ry2 b).

(* ---- label.Position.GetPointOnBox, in half pixels.  pos = the numeric value of label.Position
        (1-12 outside, 13-21 inside, 22-33 border; anything else leaves the top-left corner) ---- *)
Definition point_on_box (pos : N) (bx by_ bw bh : Z) (pad w h : Z) : Z * Z :=
  let X := 2 * bx in let Y := 2 * by_ in
  let cx := 2 * bx + bw in let cy := 2 * by_ + bh in
  match pos with
  | 1%N => (X - 2 * pad, Y - 2 * (pad + h))
  | 2%N => (cx - w, Y - 2 * (pad + h))
  | 3%N => (X + 2 * (bw - w - pad), Y - 2 * (pad + h))
  | 4%N => (X - 2 * (pad + w), Y + 2 * pad)
  | 5%N => (X - 2 * (pad + w), cy - h)
  | 6%N => (X - 2 * (pad + w), Y + 2 * (bh - h - pad))
  | 7%N => (X + 2 * (bw + pad), Y + 2 * pad)
  | 8%N => (X + 2 * (bw + pad), cy - h)
  | 9%N => (X + 2 * (bw + pad), Y + 2 * (bh - h - pad))
  | 10%N => (X + 2 * pad, Y + 2 * (bh + pad))
  | 11%N => (cx - w, Y + 2 * (bh + pad))
  | 12%N => (X + 2 * (bw - w - pad), Y + 2 * (bh + pad))
  | 13%N => (X + 2 * pad, Y + 2 * pad)
  | 14%N => (cx - w, Y + 2 * pad)
  | 15%N => (X + 2 * (bw - w - pad), Y + 2 * pad)
  | 16%N => (X + 2 * pad, cy - h)
  | 17%N => (cx - w, cy - h)
  | 18%N => (X + 2 * (bw - w - pad), cy - h)
  | 19%N => (X + 2 * pad, Y + 2 * (bh - h - pad))
  | 20%N => (cx - w, Y + 2 * (bh - h - pad))
  | 21%N => (X + 2 * (bw - w - pad), Y + 2 * (bh - h - pad))
  | 22%N => (X + 2 * pad, Y - h)
  | 23%N => (cx - w, Y - h)
  | 24%N => (X + 2 * (bw - w - pad), Y - h)
  | 25%N => (X - w, Y + 2 * pad)
  | 26%N => (X - w, cy - h)
  | 27%N => (X - w, Y + 2 * (bh - h - pad))
  | 28%N => (X + 2 * bw - w, Y + 2 * pad)
  | 29%N => (X + 2 * bw - w, cy - h)
  | 30%N => (X + 2 * bw - w, Y + 2 * (bh - h - pad))
  | 31%N => (X + 2 * pad, Y + 2 * bh - h)
  | 32%N => (cx - w, Y + 2 * bh - h)
  | 33%N => (X + 2 * (bw - w - pad), Y + 2 * bh - h)
  | _ => (X, Y)
  end.

Definition is_outside (pos : N) : bool := (1 <=? pos)%N && (pos <=? 12)%N.
Definition is_border (pos : N) : bool := (22 <=? pos)%N && (pos <=? 33)%N.
Definition outside_top (pos : N) : bool := (1 <=? pos)%N && (pos <=? 3)%N.
Definition outside_left (pos : N) : bool := (4 <=? pos)%N && (pos <=? 6)%N.
Definition outside_right (pos : N) : bool := (7 <=? pos)%N && (pos <=? 9)%N.
Definition outside_bottom (pos : N) : bool := (10 <=? pos)%N && (pos <=? 12)%N.

(* ---- exported diagram ---- *)
Record shape := {
  s_x : Z; s_y : Z; s_w : Z; s_h : Z; s_sw : Z;
  s_c4 : option (Z * Z);          (* c4-person: (headRadius, headCenterY) as BoundingBox computes them *)
  s_app : bool;                   (* tooltip or link present (appendix icons), tooltip not positioned *)
  s_shadow : bool; s_3d : bool; s_hex : bool; s_mult : bool;
  s_icon : option (N * Z * Z);    (* outside icon: position, the size BoundingBox uses, the size drawShape draws *)
  s_label : option (N * Z * Z)    (* label: position, width, height *)
}.

Record clabel := { l_x : fnum; l_y : fnum; l_w : Z; l_h : Z }.
Record conn := {
  c_sw : Z;
  c_route : list (fnum * fnum);
  c_label : option clabel; c_src : option clabel; c_dst : option clabel
}.

Record diagram := { d_shapes : list shape; d_conns : list conn }.

Definition half_stroke (sw : Z) : Z := (sw + 1) / 2.       (* int(math.Ceil(float64(sw)/2)) *)
Definition off3d (s : shape) : Z := if s_hex s then THREE_DEE_OFFSET / 2 else THREE_DEE_OFFSET.

(* the label point BoundingBox uses (half pixels) *)
Definition bbox_label_tl (s : shape) (pos : N) (lw lh : Z) : Z * Z :=
  let '(px, py) := point_on_box pos (s_x s) (s_y s) (s_w s) (s_h s) LABEL_PADDING lw lh in
  if s_3d s then
    (if outside_right pos then px + 2 * off3d s else px,
     if outside_top pos then py - 2 * off3d s else py)
  else (px, py).

(* one shape's contribution, exactly in the order of the code (min / max are commutative anyway) *)
(* extend only the named sides *)
Definition up_to (b : rect) (y : Z) : rect := (rx1 b, Z.min (ry1 b) y, rx2 b, ry2 b).
Definition left_to (b : rect) (x : Z) : rect := (Z.min (rx1 b) x, ry1 b, rx2 b, ry2 b).
Definition right_to (b : rect) (x : Z) : rect := (rx1 b, ry1 b, Z.max (rx2 b) x, ry2 b).
Definition down_to (b : rect) (y : Z) : rect := (rx1 b, ry1 b, rx2 b, Z.max (ry2 b) y).

Definition st_box (s : shape) (b : rect) : rect :=
  let hs := half_stroke (s_sw s) in
  join b (s_x s - hs, s_y s - hs, s_x s + s_w s + hs, s_y s + s_h s + hs).
Definition st_c4 (s : shape) (b : rect) : rect :=
  match s_c4 s with Some (hr, hc) => up_to b (s_y s + hc - hr - s_sw s) | None => b end.
Definition st_app (s : shape) (b : rect) : rect :=
  if s_app s then right_to (up_to b (s_y s - s_sw s - 16)) (s_x s + s_sw s + s_w s + 16) else b.
Definition st_shadow (s : shape) (b : rect) : rect :=
  let hs := half_stroke (s_sw s) in
  if s_shadow s
  then right_to (down_to b (s_y s + s_h s + hs + SHADOW_SIZE_Y)) (s_x s + s_w s + hs + SHADOW_SIZE_X)
  else b.
Definition st_3d (s : shape) (b : rect) : rect :=
  if s_3d s
  then right_to (up_to b (s_y s - off3d s - s_sw s)) (s_x s + THREE_DEE_OFFSET + s_w s + s_sw s)
  else b.
Definition st_mult (s : shape) (b : rect) : rect :=
  if s_mult s
  then right_to (up_to b (s_y s - MULTIPLE_OFFSET - s_sw s)) (s_x s + MULTIPLE_OFFSET + s_w s + s_sw s)
  else b.
Definition st_icon (s : shape) (b : rect) : rect :=
  match s_icon s with
  | Some (pos, size, _) =>
      if outside_top pos then up_to b (s_y s - LABEL_PADDING - size)
      else if outside_bottom pos then down_to b (s_y s + s_h s + LABEL_PADDING + size)
      else if outside_left pos then left_to b (s_x s - LABEL_PADDING - size)
      else if outside_right pos then right_to b (s_x s + s_w s + LABEL_PADDING + size)
      else b
  | None => b
  end.
(* the label step, for a given way [ltl] of computing the label point (half pixels): the pinned code uses
   bbox_label_tl, the repaired code of coq/C29/fix.patch uses the point d2svg draws at (fixed_label_tl below) *)
Definition st_label (ltl : shape -> N -> Z -> Z -> Z * Z) (s : shape) (b : rect) : rect :=
  match s_label s with
  | Some (pos, lw, lh) =>
      let '(px, py) := ltl s pos lw lh in
      join b (htrunc px, htrunc py, htrunc px + lw, htrunc py + lh)
  | None => b
  end.

(* one shape's contribution, in the order of the code *)
Definition step_shape (ltl : shape -> N -> Z -> Z -> Z * Z) (b : rect) (s : shape) : rect :=
  st_label ltl s (st_icon s (st_mult s (st_3d s (st_shadow s (st_app s (st_c4 s (st_box s b))))))).

Definition label_rect_trunc (l : clabel) : rect :=
  (tr (l_x l), tr (l_y l), tr (l_x l) + l_w l, tr (l_y l) + l_h l).

Definition step_point (hs : Z) (b : rect) (p : fnum * fnum) : rect :=
  join b (fl (fst p) - hs, fl (snd p) - hs, ce (fst p) + hs, ce (snd p) + hs).

Definition step_opt_label (b : rect) (o : option clabel) : rect :=
  match o with Some l => join b (label_rect_trunc l) | None => b end.

Definition step_conn (b : rect) (c : conn) : rect :=
  let b := fold_left (step_point (half_stroke (c_sw c))) (c_route c) b in
  step_opt_label (step_opt_label (step_opt_label b (c_label c)) (c_src c)) (c_dst c).

Definition bbox_start : rect := (MAX_INT32, MAX_INT32, MIN_INT32, MIN_INT32).

(* Diagram.BoundingBox *)
Definition bbox_gen (ltl : shape -> N -> Z -> Z -> Z * Z) (d : diagram) : rect :=
  match d_shapes d with
  | [] => (0, 0, 0, 0)
  | _ => fold_left step_conn (d_conns d) (fold_left (step_shape ltl) (d_shapes d) bbox_start)
  end.
Definition bbox : diagram -> rect := bbox_gen bbox_label_tl.   (* pinned code *)

(* ---- what is drawn (integral rectangles that enclose the real extent: floor for min, ceil for max) ---- *)

(* box with stroke, shadow, 3D and multiple copies, appendix icons, c4-person head *)
Definition core_extents (s : shape) : list rect :=
  let hs := half_stroke (s_sw s) in
  let x := s_x s in let y := s_y s in let w := s_w s in let h := s_h s in
  [(x - hs, y - hs, x + w + hs, y + h + hs)]
  ++ (if s_shadow s then [(x - hs, y - hs, x + w + hs + SHADOW_SIZE_X, y + h + hs + SHADOW_SIZE_Y)] else [])
  ++ (if s_3d s then [(x - hs, y - off3d s - hs, x + w + THREE_DEE_OFFSET + hs, y + h + hs)] else [])
  ++ (if s_mult s then [(x + MULTIPLE_OFFSET - hs, y - MULTIPLE_OFFSET - hs, x + w + MULTIPLE_OFFSET + hs, y + h - MULTIPLE_OFFSET + hs)] else [])
  ++ (if s_app s then [(x + w, y - APPENDIX_ICON_RADIUS, x + w + APPENDIX_ICON_RADIUS, y)] else [])
  ++ (match s_c4 s with Some (hr, hc) => [(x, y + hc - hr - hs, x + w, y + h)] | None => [] end).

Definition half_rect (px py w h : Z) : rect := (hfloor px, hfloor py, hceil (px + 2 * w), hceil (py + 2 * h)).

(* d2svg.drawShape: outside and border labels are placed on the box around the 3D / multiple copies *)
Definition draw_label_tl (s : shape) (pos : N) (lw lh : Z) : Z * Z :=
  if s_3d s then
    point_on_box pos (s_x s) (s_y s - off3d s) (s_w s + THREE_DEE_OFFSET) (s_h s + off3d s) LABEL_PADDING lw lh
  else if s_mult s then
    point_on_box pos (s_x s) (s_y s - MULTIPLE_OFFSET) (s_w s + MULTIPLE_OFFSET) (s_h s + MULTIPLE_OFFSET) LABEL_PADDING lw lh
  else point_on_box pos (s_x s) (s_y s) (s_w s) (s_h s) LABEL_PADDING lw lh.

(* the repaired BoundingBox (coq/C29/fix.patch): outside and border labels on the same enlarged box *)
Definition fixed_label_tl (s : shape) (pos : N) (lw lh : Z) : Z * Z :=
  if is_outside pos || is_border pos then draw_label_tl s pos lw lh
  else point_on_box pos (s_x s) (s_y s) (s_w s) (s_h s) LABEL_PADDING lw lh.
Definition bbox_fixed : diagram -> rect := bbox_gen fixed_label_tl.

(* the label rectangle of an outside / border label as drawn (inside labels are not part of the property) *)
Definition label_extents (s : shape) : list rect :=
  match s_label s with
  | Some (pos, lw, lh) =>
      if is_outside pos || is_border pos
      then let '(px, py) := draw_label_tl s pos lw lh in [half_rect px py lw lh]
      else []
  | None => []
  end.

(* the outside icon as drawn: GetPointOnBox (s.GetBox(), PADDING, size, size) with the drawn size *)
Definition icon_extents (s : shape) : list rect :=
  match s_icon s with
  | Some (pos, _, dsize) =>
      let '(px, py) := point_on_box pos (s_x s) (s_y s) (s_w s) (s_h s) LABEL_PADDING dsize dsize in
      [half_rect px py dsize dsize]
  | None => []
  end.

Definition point_rect (hs : Z) (p : fnum * fnum) : rect :=
  (fl (fst p) - hs, fl (snd p) - hs, ce (fst p) + hs, ce (snd p) + hs).
Definition clabel_rect (l : clabel) : rect := (fl (l_x l), fl (l_y l), ce (l_x l) + l_w l, ce (l_y l) + l_h l).
Definition opt_label_rects (o : option clabel) : list rect := match o with Some l => [clabel_rect l] | None => [] end.

Definition route_extents (c : conn) : list rect := map (point_rect (half_stroke (c_sw c))) (c_route c).
Definition conn_label_extents (c : conn) : list rect :=
  opt_label_rects (c_label c) ++ opt_label_rects (c_src c) ++ opt_label_rects (c_dst c).

(* ---- viewport: d2svg.dimensions and the shifts in d2svg.Render ---- *)
Record legend := { lg_total_h : Z; lg_max_w : Z }.   (* totalHeight and maxLabelWidth as measured by the ruler *)
Definition LEGEND_PADDING := 20.
Definition LEGEND_ICON_SIZE := 24.
Definition LEGEND_CORNER_PADDING := 10.

(* (left, top, width, height) *)
Definition dimensions (bb : rect) (pad : Z) (lg : option legend) : Z * Z * Z * Z :=
  let lft := rx1 bb - pad in
  let top := ry1 bb - pad in
  let width := rx2 bb - rx1 bb + pad * 2 in
  let height := ry2 bb - ry1 bb + pad * 2 in
  match lg with
  | Some g =>
      if (0 <? lg_total_h g) && (0 <? lg_max_w g) then
        let legend_w := LEGEND_PADDING * 2 + LEGEND_ICON_SIZE + LEGEND_PADDING + lg_max_w g in
        let legend_y := Z.max (ry2 bb - lg_total_h g) (ry1 bb) in
        let legend_right := rx2 bb + LEGEND_CORNER_PADDING + legend_w in
        let width' := if lft + width <? legend_right then legend_right - lft + Z.quot pad 2 else width in
        let top' := if legend_y <? top then legend_y else top in
        let height' := if legend_y <? top then height + (top - legend_y) else height in
        let legend_bottom := legend_y + lg_total_h g in
        let height'' := if top' + height' <? legend_bottom then legend_bottom - top' + Z.quot pad 2 else height' in
        (lft, top', width', height'')
      else (lft, top, width, height)
  | None => (lft, top, width, height)
  end.

Definition INNER_BORDER_OFFSET := 5.

(* the inner svg's viewBox (left, top, w, h) after Render's shifts for the root stroke and double border *)
Definition viewbox (bb : rect) (pad : Z) (lg : option legend) (root_sw : Z) (double_border : bool) : Z * Z * Z * Z :=
  let '(l0, t0, w0, h0) := dimensions bb pad lg in
  let hs := half_stroke root_sw in
  let '(l1, t1, w1, h1) := (l0 - hs - hs, t0 - hs - hs, w0 + hs * 2 + hs * 2, h0 + hs * 2 + hs * 2) in
  if double_border then
    (l1 - (hs + INNER_BORDER_OFFSET) - hs, t1 - (hs + INNER_BORDER_OFFSET) - hs,
     w1 + (hs * 2 + 2 * INNER_BORDER_OFFSET) + hs * 2, h1 + (hs * 2 + 2 * INNER_BORDER_OFFSET) + hs * 2)
  else (l1, t1, w1, h1).

Definition view_rect (v : Z * Z * Z * Z) : rect := let '(l, t, w, h) := v in (l, t, l + w, t + h).
