(* C29 — bounding box and SVG viewport enclose everything drawn.  Statements only.
   bbox d = Diagram.BoundingBox of the exported diagram d (integral pixels); extents are integral rectangles
   that enclose what d2svg draws for an item (floor of the minimum, ceiling of the maximum);
   inside r b: rectangle r lies within b; grow k b: b enlarged by k pixels on every side. *)
From Coq Require Import List ZArith Bool NArith.
Import ListNotations.
Require Import V.C29.Model V.C29.Proofs.
Open Scope Z_scope.

(* every shape box with half its stroke, its shadow, its 3D and multiple copies, the tooltip / link icon at its
   corner and the c4-person head lie inside the reported box — any diagram, any number of shapes *)
Theorem C29_bbox_contains_extents :
  forall d s r, In s (d_shapes d) -> 0 <= s_sw s -> 0 <= s_w s -> 0 <= s_h s ->
    In r (core_extents s) -> inside r (bbox d).
Proof. exact (bbox_contains_core bbox_label_tl). Qed.

(* every route point, with half the connection's stroke around it *)
Theorem C29_bbox_contains_route_points :
  forall d s0 c r, In s0 (d_shapes d) -> In c (d_conns d) -> In r (route_extents c) -> inside r (bbox d).
Proof. exact (bbox_contains_routes bbox_label_tl). Qed.

(* connection labels and arrowhead labels: inside up to the ONE pixel that Go's int() truncation of the label
   point can lose, and exactly inside when the point is integral *)
Theorem C29_bbox_contains_connection_labels :
  forall d s0 c l, In s0 (d_shapes d) -> In c (d_conns d) ->
    (c_label c = Some l \/ c_src c = Some l \/ c_dst c = Some l) ->
    fnum_wf (l_x l) -> fnum_wf (l_y l) ->
    inside (clabel_rect l) (grow 1 (bbox d))
    /\ (fl (l_x l) = ce (l_x l) -> fl (l_y l) = ce (l_y l) -> inside (clabel_rect l) (bbox d)).
Proof. exact (bbox_contains_conn_labels_slack bbox_label_tl). Qed.

(* outside and border labels of shapes without 3D / multiple copies: as drawn (GetPointOnBox in half pixels),
   inside up to one pixel, exactly inside when the drawn point is integral *)
Theorem C29_bbox_contains_shape_labels :
  forall d s pos lw lh, In s (d_shapes d) -> s_label s = Some (pos, lw, lh) ->
    s_3d s = false -> s_mult s = false ->
    forall r, In r (label_extents s) ->
      inside r (grow 1 (bbox d))
      /\ (let '(px, py) := draw_label_tl s pos lw lh in Z.even px = true -> Z.even py = true -> inside r (bbox d)).
Proof. exact bbox_contains_shape_labels_slack. Qed.

(* repaired code (coq/C29/fix.patch, bbox_fixed): the same for EVERY shape, also with 3D / multiple copies; the
   other theorems hold for bbox_fixed as well (they are proved for any label-point function) *)
Theorem C29_fixed_bbox_contains_shape_labels :
  forall d s pos lw lh, In s (d_shapes d) -> s_label s = Some (pos, lw, lh) ->
    forall r, In r (label_extents s) ->
      inside r (grow 1 (bbox_fixed d))
      /\ (let '(px, py) := draw_label_tl s pos lw lh in Z.even px = true -> Z.even py = true -> inside r (bbox_fixed d)).
Proof. exact bbox_fixed_contains_shape_labels. Qed.

Theorem C29_fixed_bbox_contains_extents :
  forall d s r, In s (d_shapes d) -> 0 <= s_sw s -> 0 <= s_w s -> 0 <= s_h s ->
    In r (core_extents s) -> inside r (bbox_fixed d).
Proof. exact (bbox_contains_core fixed_label_tl). Qed.

(* outside icons, as drawn, for every outside position except outside-top-left, when the icon (plus the label
   padding) is not larger than the shape and BoundingBox does not under-estimate its size *)
Theorem C29_bbox_contains_outside_icon :
  forall d s pos bsize dsize, In s (d_shapes d) -> 0 <= s_sw s -> s_icon s = Some (pos, bsize, dsize) ->
    is_outside pos = true -> pos <> 1%N ->
    0 <= dsize <= bsize -> dsize + LABEL_PADDING <= s_w s -> dsize + LABEL_PADDING <= s_h s ->
    forall r, In r (icon_extents s) -> inside r (bbox d).
Proof. exact (bbox_contains_outside_icon bbox_label_tl). Qed.

(* d2svg.dimensions (with or without legend, any legend size) followed by Render's shifts for the root stroke and
   the double border: the viewBox contains the reported box grown by the padding *)
Theorem C29_viewport_contains_bbox_plus_pad :
  forall bb pad lg root_sw dbl, 0 <= pad -> 0 <= root_sw ->
    inside (grow pad bb) (view_rect (viewbox bb pad lg root_sw dbl)).
Proof. exact viewport_contains_bbox_plus_pad. Qed.

Theorem C29_viewport_contains_extent_plus_pad :
  forall r bb pad lg root_sw dbl, 0 <= pad -> 0 <= root_sw -> inside r bb ->
    inside (grow pad r) (view_rect (viewbox bb pad lg root_sw dbl)).
Proof. exact viewport_contains_extent. Qed.

(* Full statement of the property for labels and icons (every drawn label / icon rectangle is inside the reported
   box) is REFUTED on the faithful model, three ways: *)
Theorem C29_label_on_multiple_shape_refuted :
  exists d s r, In s (d_shapes d) /\ In r (label_extents s) /\ ~ inside r (grow 1 (bbox d)).
Proof. exact multiple_outside_label_refuted. Qed.

Theorem C29_outside_top_left_icon_refuted :
  exists d s r, In s (d_shapes d) /\ In r (icon_extents s) /\ ~ inside r (bbox d).
Proof. exact outside_top_left_icon_refuted. Qed.

Theorem C29_label_exact_containment_refuted :
  exists d s r, In s (d_shapes d) /\ s_3d s = false /\ s_mult s = false /\ In r (label_extents s)
                /\ ~ inside r (bbox d).
Proof. exact label_exact_refuted. Qed.

(* non-vacuity *)
Example C29_hyps_satisfiable :
  let s := w_shape false (Some (2%N, 32, 32)) (Some (11%N, 40, 21)) in
  let d := {| d_shapes := [s]; d_conns := [{| c_sw := 2; c_route := [({| fl := 1; ce := 2 |}, {| fl := 3; ce := 3 |})];
                                              c_label := Some {| l_x := {| fl := -4; ce := -3 |}; l_y := {| fl := 0; ce := 0 |};
                                                                 l_w := 10; l_h := 5 |};
                                              c_src := None; c_dst := None |}] |} in
  In s (d_shapes d) /\ 0 <= s_sw s /\ 0 <= s_w s /\ 0 <= s_h s /\ s_3d s = false /\ s_mult s = false
  /\ is_outside 2%N = true /\ 32 + LABEL_PADDING <= s_w s /\ 32 + LABEL_PADDING <= s_h s
  /\ fnum_wf {| fl := -4; ce := -3 |} /\ core_extents s <> [] /\ label_extents s <> [] /\ icon_extents s <> [].
Proof. cbv zeta. repeat split; try (vm_compute; congruence); try discriminate; vm_compute; auto. Qed.

Print Assumptions C29_bbox_contains_extents.
Print Assumptions C29_bbox_contains_route_points.
Print Assumptions C29_bbox_contains_connection_labels.
Print Assumptions C29_bbox_contains_shape_labels.
Print Assumptions C29_fixed_bbox_contains_shape_labels.
Print Assumptions C29_fixed_bbox_contains_extents.
Print Assumptions C29_bbox_contains_outside_icon.
Print Assumptions C29_viewport_contains_bbox_plus_pad.
Print Assumptions C29_viewport_contains_extent_plus_pad.
Print Assumptions C29_label_on_multiple_shape_refuted.
Print Assumptions C29_outside_top_left_icon_refuted.
Print Assumptions C29_label_exact_containment_refuted.
