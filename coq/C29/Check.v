(* Executable case checker for C29.
   Codes: 1 the model's bounding box / viewBox / drawn label or icon position differs from the implementation's;
   2 an input is outside the hypotheses of the theorems (a float given with ceil < floor or ceil > floor + 1,
   a negative stroke width);
   10 a shape's box with stroke, shadow, 3D or multiple copy, appendix icon or c4-person head is not inside the
      reported bounding box; 11 a route point (with half the stroke) is not; 12 a connection or arrowhead label
      is not, even allowing the one pixel Go's int() truncation can lose; 13 same for an outside / border label
      of a shape; 14 an outside icon is not inside the box; 15 the viewBox of the rendered SVG does not contain
      the reported box grown by the padding; 16 (witness cases only) a label rectangle is not EXACTLY inside. *)
From Coq Require Import List ZArith Bool NArith.
Import ListNotations.
Require Export V.Lib.RunCases V.C29.Model.
Open Scope Z_scope.

Inductive case :=
| CBBox (d : diagram) (impl_bbox : rect) (pad : Z) (lg : option legend) (root_sw : Z) (dbl : bool)
        (impl_view : option (Z * Z * Z * Z))
        (obs_labels : list (nat * fnum * fnum)) (obs_icons : list (nat * rect))
        (exact in_model has_legend : bool)
| CSkip.

Definition all_inside (rs : list rect) (b : rect) : bool := forallb (fun r => inside_b r b) rs.

Definition fnum_eqb (a b : fnum) : bool := (fl a =? fl b) && (ce a =? ce b).

Definition clabel_ok (o : option clabel) : bool :=
  match o with Some l => fnum_wf_b (l_x l) && fnum_wf_b (l_y l) | None => true end.
Definition conn_ok (c : conn) : bool :=
  (0 <=? c_sw c) && forallb (fun p => fnum_wf_b (fst p) && fnum_wf_b (snd p)) (c_route c)
  && clabel_ok (c_label c) && clabel_ok (c_src c) && clabel_ok (c_dst c).
Definition diagram_ok (d : diagram) : bool :=
  forallb (fun s => (0 <=? s_sw s) && (0 <=? s_w s) && (0 <=? s_h s)) (d_shapes d) && forallb conn_ok (d_conns d).

Definition view4_eqb (a b : Z * Z * Z * Z) : bool := rect_eqb a b.

(* the drawn label point the model claims for shape i *)
Definition model_label_tl (d : diagram) (i : nat) : option (fnum * fnum) :=
  match nth_error (d_shapes d) i with
  | Some s => match s_label s with
              | Some (pos, lw, lh) =>
                  if is_outside pos || is_border pos
                  then let '(px, py) := draw_label_tl s pos lw lh in Some (of_half px, of_half py)
                  else None
              | None => None
              end
  | None => None
  end.

Definition obs_label_ok (d : diagram) (o : nat * fnum * fnum) : bool :=
  let '(i, x, y) := o in
  match model_label_tl d i with
  | Some (mx, my) => fnum_eqb mx x && fnum_eqb my y
  | None => true            (* inside labels are placed on the inner box: not modelled, not claimed *)
  end.

Definition obs_icon_ok (d : diagram) (o : nat * rect) : bool :=
  let '(i, r) := o in
  match nth_error (d_shapes d) i with
  | Some s => match icon_extents s with [m] => rect_eqb m r | _ => false end
  | None => false
  end.

Definition check_case (c : case) : list N :=
  match c with
  | CSkip => []
  | CBBox d bb pad lg root_sw dbl view obs_l obs_i exact in_model has_legend =>
      flag (negb in_model || rect_eqb (bbox d) bb || rect_eqb (bbox_fixed d) bb) 1
      ++ flag (match view with
               | Some v => has_legend || view4_eqb (viewbox bb pad lg root_sw dbl) v
               | None => true end) 1
      ++ flag (forallb (obs_label_ok d) obs_l) 1
      ++ flag (forallb (obs_icon_ok d) obs_i) 1
      ++ flag (diagram_ok d) 2
      ++ flag (forallb (fun s => all_inside (core_extents s) bb) (d_shapes d)) 10
      ++ flag (forallb (fun c => all_inside (route_extents c) bb) (d_conns d)) 11
      ++ flag (forallb (fun c => all_inside (conn_label_extents c) (grow 1 bb)) (d_conns d)) 12
      ++ flag (forallb (fun s => all_inside (label_extents s) (grow 1 bb)) (d_shapes d)) 13
      ++ flag (forallb (fun s => all_inside (icon_extents s) bb) (d_shapes d)) 14
      ++ flag (match view with
               | Some v => (0 <=? pad) && inside_b (grow pad bb) (view_rect v)
               | None => true end) 15
      ++ flag (negb exact
               || (forallb (fun c => all_inside (conn_label_extents c) bb) (d_conns d)
                   && forallb (fun s => all_inside (label_extents s) bb) (d_shapes d))) 16
  end.
