(* C29 — proofs. *)
From Coq Require Import List ZArith Bool Lia NArith.
Import ListNotations.
Require Import V.C29.Model.
Open Scope Z_scope.

Ltac Zify.zify_post_hook ::= Z.div_mod_to_equations.

Ltac drect b := let a := fresh "x1" in let c := fresh "y1" in let d := fresh "x2" in let e := fresh "y2" in
                destruct b as [[[a c] d] e].

Ltac unrect := unfold inside, grow, join, up_to, left_to, right_to, down_to in *; cbn [rx1 ry1 rx2 ry2] in *.

Lemma inside_refl b : inside b b.
Proof. drect b. unrect. lia. Qed.

Lemma inside_trans a b c : inside a b -> inside b c -> inside a c.
Proof. drect a. drect b. drect c. unrect. lia. Qed.

Lemma inside_join_l b r : inside b (join b r).
Proof. drect b. drect r. unrect. lia. Qed.

Lemma inside_join_r b r : inside r (join b r).
Proof. drect b. drect r. unrect. lia. Qed.

Lemma inside_b_spec r b : inside_b r b = true <-> inside r b.
Proof.
  unfold inside_b, inside. rewrite !andb_true_iff, !Z.leb_le. tauto.
Qed.

Lemma inside_grow k r b : 0 <= k -> inside r b -> inside r (grow k b).
Proof. drect r. drect b. unrect. lia. Qed.

(* ---- every sub-step only extends the box ---- *)
Lemma up_to_ext b y : inside b (up_to b y).      Proof. drect b. unrect. lia. Qed.
Lemma left_to_ext b x : inside b (left_to b x).  Proof. drect b. unrect. lia. Qed.
Lemma right_to_ext b x : inside b (right_to b x). Proof. drect b. unrect. lia. Qed.
Lemma down_to_ext b y : inside b (down_to b y).  Proof. drect b. unrect. lia. Qed.

Lemma st_box_ext s b : inside b (st_box s b).
Proof. unfold st_box. apply inside_join_l. Qed.
Lemma st_c4_ext s b : inside b (st_c4 s b).
Proof. unfold st_c4. destruct (s_c4 s) as [[hr hc]|]; [apply up_to_ext|apply inside_refl]. Qed.
Lemma st_app_ext s b : inside b (st_app s b).
Proof.
  unfold st_app. destruct (s_app s); [|apply inside_refl].
  eapply inside_trans; [apply up_to_ext|apply right_to_ext].
Qed.
Lemma st_shadow_ext s b : inside b (st_shadow s b).
Proof.
  unfold st_shadow. destruct (s_shadow s); [|apply inside_refl].
  eapply inside_trans; [apply down_to_ext|apply right_to_ext].
Qed.
Lemma st_3d_ext s b : inside b (st_3d s b).
Proof.
  unfold st_3d. destruct (s_3d s); [|apply inside_refl].
  eapply inside_trans; [apply up_to_ext|apply right_to_ext].
Qed.
Lemma st_mult_ext s b : inside b (st_mult s b).
Proof.
  unfold st_mult. destruct (s_mult s); [|apply inside_refl].
  eapply inside_trans; [apply up_to_ext|apply right_to_ext].
Qed.
Lemma st_icon_ext s b : inside b (st_icon s b).
Proof.
  unfold st_icon. destruct (s_icon s) as [[[pos size] ds]|]; [|apply inside_refl].
  destruct (outside_top pos); [apply up_to_ext|].
  destruct (outside_bottom pos); [apply down_to_ext|].
  destruct (outside_left pos); [apply left_to_ext|].
  destruct (outside_right pos); [apply right_to_ext|apply inside_refl].
Qed.
Section Gen.
Variable ltl : shape -> N -> Z -> Z -> Z * Z.

Lemma st_label_ext s b : inside b (st_label ltl s b).
Proof.
  unfold st_label. destruct (s_label s) as [[[pos lw] lh]|]; [|apply inside_refl].
  destruct (ltl s pos lw lh). apply inside_join_l.
Qed.

(* chains *)
Lemma after_label s b r : inside r b -> inside r (st_label ltl s b).
Proof. intro H. eapply inside_trans; [exact H|apply st_label_ext]. Qed.
Lemma after_icon s b r : inside r b -> inside r (st_label ltl s (st_icon s b)).
Proof. intro H. apply after_label. eapply inside_trans; [exact H|apply st_icon_ext]. Qed.
Lemma after_mult s b r : inside r b -> inside r (st_label ltl s (st_icon s (st_mult s b))).
Proof. intro H. apply after_icon. eapply inside_trans; [exact H|apply st_mult_ext]. Qed.
Lemma after_3d s b r : inside r b -> inside r (st_label ltl s (st_icon s (st_mult s (st_3d s b)))).
Proof. intro H. apply after_mult. eapply inside_trans; [exact H|apply st_3d_ext]. Qed.
Lemma after_shadow s b r : inside r b -> inside r (st_label ltl s (st_icon s (st_mult s (st_3d s (st_shadow s b))))).
Proof. intro H. apply after_3d. eapply inside_trans; [exact H|apply st_shadow_ext]. Qed.
Lemma after_app s b r : inside r b ->
  inside r (st_label ltl s (st_icon s (st_mult s (st_3d s (st_shadow s (st_app s b)))))).
Proof. intro H. apply after_shadow. eapply inside_trans; [exact H|apply st_app_ext]. Qed.
Lemma after_c4 s b r : inside r b ->
  inside r (st_label ltl s (st_icon s (st_mult s (st_3d s (st_shadow s (st_app s (st_c4 s b))))))).
Proof. intro H. apply after_app. eapply inside_trans; [exact H|apply st_c4_ext]. Qed.

Lemma step_shape_ext b s : inside b (step_shape ltl b s).
Proof. unfold step_shape. apply after_c4, st_box_ext. Qed.

Definition box_rect (s : shape) : rect :=
  let hs := half_stroke (s_sw s) in (s_x s - hs, s_y s - hs, s_x s + s_w s + hs, s_y s + s_h s + hs).

Lemma half_stroke_bounds sw : 0 <= sw -> 0 <= half_stroke sw <= sw \/ (sw = 0 /\ half_stroke sw = 0).
Proof. unfold half_stroke. intro H. lia. Qed.

Lemma half_stroke_le sw : 0 <= sw -> 0 <= half_stroke sw /\ half_stroke sw <= sw.
Proof. unfold half_stroke. intro H. lia. Qed.

Lemma off3d_nonneg s : 0 <= off3d s.
Proof. unfold off3d, THREE_DEE_OFFSET. destruct (s_hex s); lia. Qed.

(* ---- every core extent of a shape is inside the box after its step ---- *)
Lemma core_in_step b s r :
  0 <= s_sw s -> 0 <= s_w s -> 0 <= s_h s -> In r (core_extents s) -> inside r (step_shape ltl b s).
Proof.
  intros Hsw Hw Hh Hin. pose proof (half_stroke_le (s_sw s) Hsw) as [H0 H1]. pose proof (off3d_nonneg s) as Ho.
  unfold step_shape.
  assert (B0 : inside (box_rect s) (st_box s b)) by (unfold st_box; apply inside_join_r).
  unfold core_extents in Hin. rewrite !in_app_iff in Hin.
  destruct Hin as [Hin|[Hin|[Hin|[Hin|[Hin|Hin]]]]].
  - (* box *) destruct Hin as [<-|[]]. apply after_c4. exact B0.
  - (* shadow *)
    destruct (s_shadow s) eqn:E; [|destruct Hin]. destruct Hin as [<-|[]].
    apply after_3d.
    assert (B2 : inside (box_rect s) (st_app s (st_c4 s (st_box s b)))).
    { eapply inside_trans; [exact B0|]. eapply inside_trans; [apply st_c4_ext|apply st_app_ext]. }
    unfold st_shadow. rewrite E. clear B0. revert B2. unfold box_rect.
    generalize (st_app s (st_c4 s (st_box s b))). intro b2. drect b2.
    unfold SHADOW_SIZE_X, SHADOW_SIZE_Y. unrect. lia.
  - (* 3d *)
    destruct (s_3d s) eqn:E; [|destruct Hin]. destruct Hin as [<-|[]].
    apply after_mult.
    assert (B3 : inside (box_rect s) (st_shadow s (st_app s (st_c4 s (st_box s b))))).
    { eapply inside_trans; [exact B0|]. eapply inside_trans; [apply st_c4_ext|].
      eapply inside_trans; [apply st_app_ext|apply st_shadow_ext]. }
    unfold st_3d. rewrite E. clear B0. revert B3. unfold box_rect.
    generalize (st_shadow s (st_app s (st_c4 s (st_box s b)))). intro b2. drect b2.
    unfold THREE_DEE_OFFSET in *. unrect. lia.
  - (* multiple *)
    destruct (s_mult s) eqn:E; [|destruct Hin]. destruct Hin as [<-|[]].
    apply after_icon.
    assert (B4 : inside (box_rect s) (st_3d s (st_shadow s (st_app s (st_c4 s (st_box s b)))))).
    { eapply inside_trans; [exact B0|]. eapply inside_trans; [apply st_c4_ext|].
      eapply inside_trans; [apply st_app_ext|]. eapply inside_trans; [apply st_shadow_ext|apply st_3d_ext]. }
    unfold st_mult. rewrite E. clear B0. revert B4. unfold box_rect.
    generalize (st_3d s (st_shadow s (st_app s (st_c4 s (st_box s b))))). intro b2. drect b2.
    unfold MULTIPLE_OFFSET. unrect. lia.
  - (* appendix icons *)
    destruct (s_app s) eqn:E; [|destruct Hin]. destruct Hin as [<-|[]].
    apply after_shadow.
    assert (B1 : inside (box_rect s) (st_c4 s (st_box s b))).
    { eapply inside_trans; [exact B0|apply st_c4_ext]. }
    unfold st_app. rewrite E. clear B0. revert B1. unfold box_rect.
    generalize (st_c4 s (st_box s b)). intro b2. drect b2.
    unfold APPENDIX_ICON_RADIUS. unrect. lia.
  - (* c4-person head *)
    destruct (s_c4 s) as [[hr hc]|] eqn:E; [|destruct Hin]. destruct Hin as [<-|[]].
    apply after_app.
    unfold st_c4. rewrite E. revert B0. unfold box_rect.
    generalize (st_box s b). intro b2. drect b2. unrect. lia.
Qed.

(* ---- folds ---- *)
Lemma fold_shape_ext : forall l b, inside b (fold_left (step_shape ltl) l b).
Proof.
  induction l as [|s l IH]; intro b; [apply inside_refl|]. cbn [fold_left].
  eapply inside_trans; [apply step_shape_ext|apply IH].
Qed.

Lemma fold_shape_in (P : shape -> rect -> Prop) :
  (forall b s r, P s r -> inside r (step_shape ltl b s)) ->
  forall l b s r, In s l -> P s r -> inside r (fold_left (step_shape ltl) l b).
Proof.
  intros HP. induction l as [|s0 l IH]; intros b s r Hin Hr; [destruct Hin|].
  cbn [fold_left]. destruct Hin as [->|Hin].
  - eapply inside_trans; [apply HP; exact Hr|apply fold_shape_ext].
  - apply IH with (s := s); assumption.
Qed.

Lemma step_point_ext hs b p : inside b (step_point hs b p).
Proof. unfold step_point. apply inside_join_l. Qed.

Lemma fold_point_ext hs : forall l b, inside b (fold_left (step_point hs) l b).
Proof.
  induction l as [|p l IH]; intro b; [apply inside_refl|]. cbn [fold_left].
  eapply inside_trans; [apply step_point_ext|apply IH].
Qed.

Lemma fold_point_in hs : forall l b p, In p l -> inside (point_rect hs p) (fold_left (step_point hs) l b).
Proof.
  induction l as [|p0 l IH]; intros b p Hin; [destruct Hin|]. cbn [fold_left].
  destruct Hin as [->|Hin]; [|apply IH; exact Hin].
  eapply inside_trans; [|apply fold_point_ext]. unfold step_point, point_rect. apply inside_join_r.
Qed.

Lemma step_opt_label_ext b o : inside b (step_opt_label b o).
Proof. destruct o; [apply inside_join_l|apply inside_refl]. Qed.

Lemma step_conn_ext b c : inside b (step_conn b c).
Proof.
  unfold step_conn.
  eapply inside_trans; [apply fold_point_ext|].
  eapply inside_trans; [apply step_opt_label_ext|].
  eapply inside_trans; [apply step_opt_label_ext|apply step_opt_label_ext].
Qed.

Lemma fold_conn_ext : forall l b, inside b (fold_left step_conn l b).
Proof.
  induction l as [|c l IH]; intro b; [apply inside_refl|]. cbn [fold_left].
  eapply inside_trans; [apply step_conn_ext|apply IH].
Qed.

Lemma fold_conn_in (P : conn -> rect -> Prop) :
  (forall b c r, P c r -> inside r (step_conn b c)) ->
  forall l b c r, In c l -> P c r -> inside r (fold_left step_conn l b).
Proof.
  intros HP. induction l as [|c0 l IH]; intros b c r Hin Hr; [destruct Hin|].
  cbn [fold_left]. destruct Hin as [->|Hin].
  - eapply inside_trans; [apply HP; exact Hr|apply fold_conn_ext].
  - apply IH with (c := c); assumption.
Qed.

Lemma bbox_nonempty d s : In s (d_shapes d) ->
  bbox_gen ltl d = fold_left step_conn (d_conns d) (fold_left (step_shape ltl) (d_shapes d) bbox_start).
Proof. unfold bbox_gen. destruct (d_shapes d); [intros []|reflexivity]. Qed.

(* ---- theorems ---- *)

Theorem bbox_contains_core d s r :
  In s (d_shapes d) -> 0 <= s_sw s -> 0 <= s_w s -> 0 <= s_h s -> In r (core_extents s) -> inside r (bbox_gen ltl d).
Proof.
  intros Hs Hsw Hw Hh Hr. rewrite (bbox_nonempty d s Hs).
  eapply inside_trans; [|apply fold_conn_ext].
  apply (fold_shape_in (fun s r => 0 <= s_sw s /\ 0 <= s_w s /\ 0 <= s_h s /\ In r (core_extents s)))
    with (s := s); [|exact Hs|auto].
  intros b s0 r0 (A & B & C & D). apply core_in_step; assumption.
Qed.

Theorem bbox_contains_routes d s0 c r :
  In s0 (d_shapes d) -> In c (d_conns d) -> In r (route_extents c) -> inside r (bbox_gen ltl d).
Proof.
  intros Hs Hc Hr. rewrite (bbox_nonempty d s0 Hs).
  apply (fold_conn_in (fun c r => In r (route_extents c))) with (c := c); [|exact Hc|exact Hr].
  intros b c0 r0 Hin. unfold route_extents in Hin. apply in_map_iff in Hin as (p & <- & Hp).
  unfold step_conn.
  eapply inside_trans; [apply fold_point_in; exact Hp|].
  eapply inside_trans; [apply step_opt_label_ext|].
  eapply inside_trans; [apply step_opt_label_ext|apply step_opt_label_ext].
Qed.

Lemma tr_bounds v : fnum_wf v -> fl v <= tr v <= ce v.
Proof. unfold fnum_wf, tr. intro H. destruct (0 <=? fl v); lia. Qed.

(* Go's int() is truncation: the label rectangle BoundingBox joins in can be up to one pixel short *)
Lemma clabel_slack l b :
  fnum_wf (l_x l) -> fnum_wf (l_y l) -> inside (label_rect_trunc l) b -> inside (clabel_rect l) (grow 1 b).
Proof.
  intros Hx Hy. pose proof (tr_bounds _ Hx). pose proof (tr_bounds _ Hy).
  unfold label_rect_trunc, clabel_rect, fnum_wf in *. drect b. unrect. lia.
Qed.

Lemma clabel_exact l b :
  fl (l_x l) = ce (l_x l) -> fl (l_y l) = ce (l_y l) -> inside (label_rect_trunc l) b -> inside (clabel_rect l) b.
Proof.
  intros Hx Hy. unfold label_rect_trunc, clabel_rect, tr. rewrite <- Hx, <- Hy.
  destruct (0 <=? fl (l_x l)), (0 <=? fl (l_y l)); auto.
Qed.

Definition clabel_wf (o : option clabel) : Prop :=
  match o with Some l => fnum_wf (l_x l) /\ fnum_wf (l_y l) | None => True end.

Lemma conn_label_trunc_in_step b c l :
  (c_label c = Some l \/ c_src c = Some l \/ c_dst c = Some l) -> inside (label_rect_trunc l) (step_conn b c).
Proof.
  intros H. unfold step_conn.
  set (b0 := fold_left (step_point (half_stroke (c_sw c))) (c_route c) b).
  destruct H as [H|[H|H]]; rewrite H.
  - eapply inside_trans; [apply inside_join_r|]. cbn [step_opt_label].
    eapply inside_trans; [apply step_opt_label_ext|apply step_opt_label_ext].
  - cbn [step_opt_label]. eapply inside_trans; [apply inside_join_r|apply step_opt_label_ext].
  - cbn [step_opt_label]. apply inside_join_r.
Qed.

Theorem bbox_contains_conn_labels_slack d s0 c l :
  In s0 (d_shapes d) -> In c (d_conns d) ->
  (c_label c = Some l \/ c_src c = Some l \/ c_dst c = Some l) ->
  fnum_wf (l_x l) -> fnum_wf (l_y l) ->
  inside (clabel_rect l) (grow 1 (bbox_gen ltl d))
  /\ (fl (l_x l) = ce (l_x l) -> fl (l_y l) = ce (l_y l) -> inside (clabel_rect l) (bbox_gen ltl d)).
Proof.
  intros Hs Hc Hl Hx Hy.
  assert (T : inside (label_rect_trunc l) (bbox_gen ltl d)).
  { rewrite (bbox_nonempty d s0 Hs).
    apply (fold_conn_in (fun c r => exists l, (c_label c = Some l \/ c_src c = Some l \/ c_dst c = Some l)
                                              /\ r = label_rect_trunc l)) with (c := c); [|exact Hc|eauto].
    intros b c0 r0 (l0 & H0 & ->). apply conn_label_trunc_in_step; exact H0. }
  split; [apply clabel_slack; assumption|]. intros Ex Ey. apply clabel_exact; assumption.
Qed.

(* shape labels: without 3D / multiple copies drawShape places the label where BoundingBox thinks it is *)
Lemma htrunc_bounds z : hfloor z <= htrunc z <= hceil z /\ hceil z <= hfloor z + 1.
Proof.
  unfold hfloor, hceil, htrunc.
  destruct (Z_lt_le_dec z 0) as [N|P].
  - assert (Q : Z.quot z 2 = - ((- z) / 2)).
    { rewrite <- (Z.opp_involutive z) at 1. rewrite Z.quot_opp_l by lia. rewrite Z.quot_div_nonneg by lia. reflexivity. }
    rewrite Q. lia.
  - rewrite Z.quot_div_nonneg by lia. lia.
Qed.

Lemma htrunc_even z : Z.even z = true -> hfloor z = htrunc z /\ hceil z = htrunc z.
Proof.
  intro E. apply Z.even_spec in E as [k ->]. unfold hfloor, hceil, htrunc.
  rewrite Z.mul_comm, Z.quot_mul by lia. split; lia.
Qed.

Lemma half_rect_slack px py w h b :
  inside (htrunc px, htrunc py, htrunc px + w, htrunc py + h) b -> inside (half_rect px py w h) (grow 1 b).
Proof.
  pose proof (htrunc_bounds px) as [A1 A2]. pose proof (htrunc_bounds py) as [B1 B2].
  unfold half_rect. drect b. unrect.
  assert (hceil (px + 2 * w) = hceil px + w) by (unfold hceil; lia).
  assert (hceil (py + 2 * h) = hceil py + h) by (unfold hceil; lia).
  lia.
Qed.

Lemma half_rect_exact px py w h b :
  Z.even px = true -> Z.even py = true ->
  inside (htrunc px, htrunc py, htrunc px + w, htrunc py + h) b -> inside (half_rect px py w h) b.
Proof.
  intros Ex Ey. destruct (htrunc_even px Ex) as [A1 A2]. destruct (htrunc_even py Ey) as [B1 B2].
  unfold half_rect. drect b. unrect.
  assert (hceil (px + 2 * w) = hceil px + w) by (unfold hceil; lia).
  assert (hceil (py + 2 * h) = hceil py + h) by (unfold hceil; lia).
  lia.
Qed.

Theorem bbox_contains_shape_labels_gen d s pos lw lh :
  In s (d_shapes d) -> s_label s = Some (pos, lw, lh) ->
  (is_outside pos || is_border pos = true -> ltl s pos lw lh = draw_label_tl s pos lw lh) ->
  forall r, In r (label_extents s) ->
    inside r (grow 1 (bbox_gen ltl d))
    /\ (let '(px, py) := draw_label_tl s pos lw lh in Z.even px = true -> Z.even py = true -> inside r (bbox_gen ltl d)).
Proof.
  intros Hs Hl HE r Hr.
  unfold label_extents in Hr. rewrite Hl in Hr.
  destruct (is_outside pos || is_border pos); [|destruct Hr].
  assert (E : draw_label_tl s pos lw lh = ltl s pos lw lh) by (symmetry; apply HE; reflexivity).
  destruct (draw_label_tl s pos lw lh) as [px py] eqn:D. destruct Hr as [<-|[]].
  assert (T : inside (htrunc px, htrunc py, htrunc px + lw, htrunc py + lh) (bbox_gen ltl d)).
  { rewrite (bbox_nonempty d s Hs). eapply inside_trans; [|apply fold_conn_ext].
    apply (fold_shape_in (fun s r => exists pos lw lh px py, s_label s = Some (pos, lw, lh)
                                      /\ ltl s pos lw lh = (px, py)
                                      /\ r = (htrunc px, htrunc py, htrunc px + lw, htrunc py + lh)))
      with (s := s); [|exact Hs|exists pos, lw, lh, px, py; auto].
    intros b s1 r1 (pos1 & lw1 & lh1 & px1 & py1 & L1 & T1 & ->).
    unfold step_shape, st_label at 1. rewrite L1, T1. apply inside_join_r. }
  split; [apply half_rect_slack; exact T|]. intros Ex Ey. apply half_rect_exact; assumption.
Qed.

(* ---- outside icons ---- *)
Theorem bbox_contains_outside_icon d s pos bsize dsize :
  In s (d_shapes d) -> 0 <= s_sw s -> s_icon s = Some (pos, bsize, dsize) ->
  is_outside pos = true -> pos <> 1%N ->
  0 <= dsize <= bsize -> dsize + LABEL_PADDING <= s_w s -> dsize + LABEL_PADDING <= s_h s ->
  forall r, In r (icon_extents s) -> inside r (bbox_gen ltl d).
Proof.
  intros Hs Hsw Hi Ho Hn1 Hsz Hw Hh r Hr.
  rewrite (bbox_nonempty d s Hs). eapply inside_trans; [|apply fold_conn_ext].
  apply (fold_shape_in (fun s r => 0 <= s_sw s /\ exists pos bsize dsize, s_icon s = Some (pos, bsize, dsize)
                                    /\ is_outside pos = true /\ pos <> 1%N /\ 0 <= dsize <= bsize
                                    /\ dsize + LABEL_PADDING <= s_w s /\ dsize + LABEL_PADDING <= s_h s
                                    /\ In r (icon_extents s)))
    with (s := s); [|exact Hs|split; [exact Hsw|exists pos, bsize, dsize; auto 10]].
  clear. intros b s r (Hsw & pos & bsize & dsize & Hi & Ho & Hn1 & Hsz & Hw & Hh & Hr).
  pose proof (half_stroke_le (s_sw s) Hsw) as [H0 H1].
  unfold step_shape. apply after_label.
  assert (B : inside (box_rect s) (st_mult s (st_3d s (st_shadow s (st_app s (st_c4 s (st_box s b))))))).
  { eapply inside_trans; [unfold st_box; apply inside_join_r|].
    eapply inside_trans; [apply st_c4_ext|]. eapply inside_trans; [apply st_app_ext|].
    eapply inside_trans; [apply st_shadow_ext|]. eapply inside_trans; [apply st_3d_ext|apply st_mult_ext]. }
  revert B. generalize (st_mult s (st_3d s (st_shadow s (st_app s (st_c4 s (st_box s b)))))). intros b2 B.
  unfold icon_extents in Hr. rewrite Hi in Hr. unfold st_icon. rewrite Hi.
  unfold is_outside in Ho. apply andb_prop in Ho as [Ho1 Ho2].
  apply N.leb_le in Ho1, Ho2.
  assert (C : (pos = 2 \/ pos = 3 \/ pos = 4 \/ pos = 5 \/ pos = 6 \/ pos = 7 \/ pos = 8 \/ pos = 9
               \/ pos = 10 \/ pos = 11 \/ pos = 12)%N) by lia.
  unfold box_rect, LABEL_PADDING in *. drect b2.
  destruct C as [->|[->|[->|[->|[->|[->|[->|[->|[->|[->| ->]]]]]]]]]];
    cbn [point_on_box outside_top outside_bottom outside_left outside_right N.leb N.compare Pos.compare Pos.compare_cont andb] in *;
    destruct Hr as [<-|[]]; unfold half_rect, hfloor, hceil; unrect; lia.
Qed.

(* ---- viewport ---- *)
Theorem viewport_contains_bbox_plus_pad bb pad lg root_sw dbl :
  0 <= pad -> 0 <= root_sw -> inside (grow pad bb) (view_rect (viewbox bb pad lg root_sw dbl)).
Proof.
  intros Hp Hs. pose proof (half_stroke_le root_sw Hs) as [H0 _].
  assert (Q : 0 <= Z.quot pad 2) by (apply Z.quot_pos; lia).
  unfold viewbox.
  assert (D : let '(l0, t0, w0, h0) := dimensions bb pad lg in
              l0 <= rx1 bb - pad /\ t0 <= ry1 bb - pad /\ rx2 bb + pad <= l0 + w0 /\ ry2 bb + pad <= t0 + h0).
  { unfold dimensions. drect bb. cbn [rx1 ry1 rx2 ry2].
    destruct lg as [g|]; [|lia].
    destruct ((0 <? lg_total_h g) && (0 <? lg_max_w g)); [|lia].
    unfold LEGEND_PADDING, LEGEND_ICON_SIZE, LEGEND_CORNER_PADDING.
    repeat match goal with |- context [if ?c then _ else _] => destruct c eqn:?E end;
      repeat match goal with H : (_ <? _) = true |- _ => apply Z.ltb_lt in H
                        | H : (_ <? _) = false |- _ => apply Z.ltb_ge in H end; lia. }
  destruct (dimensions bb pad lg) as [[[l0 t0] w0] h0]. destruct D as (D1 & D2 & D3 & D4).
  unfold INNER_BORDER_OFFSET. drect bb. destruct dbl; unfold view_rect; unrect; lia.
Qed.

(* everything inside the reported box, grown by the padding, is inside the viewBox *)
Corollary viewport_contains_extent r bb pad lg root_sw dbl :
  0 <= pad -> 0 <= root_sw -> inside r bb -> inside (grow pad r) (view_rect (viewbox bb pad lg root_sw dbl)).
Proof.
  intros Hp Hs Hr. eapply inside_trans; [|apply viewport_contains_bbox_plus_pad; assumption].
  drect r. drect bb. unrect. lia.
Qed.

End Gen.

(* pinned code: without 3D / multiple copies BoundingBox uses the point drawShape draws at *)
Theorem bbox_contains_shape_labels_slack d s pos lw lh :
  In s (d_shapes d) -> s_label s = Some (pos, lw, lh) -> s_3d s = false -> s_mult s = false ->
  forall r, In r (label_extents s) ->
    inside r (grow 1 (bbox d))
    /\ (let '(px, py) := draw_label_tl s pos lw lh in Z.even px = true -> Z.even py = true -> inside r (bbox d)).
Proof.
  intros Hs Hl H3 Hm. apply (bbox_contains_shape_labels_gen bbox_label_tl d s pos lw lh Hs Hl).
  intros _. unfold draw_label_tl, bbox_label_tl. rewrite H3, Hm.
  destruct (point_on_box pos (s_x s) (s_y s) (s_w s) (s_h s) LABEL_PADDING lw lh); reflexivity.
Qed.

(* repaired code (coq/C29/fix.patch): every outside / border label, also on 3D shapes and shapes with multiple
   copies, is inside the reported box up to the truncation pixel *)
Theorem bbox_fixed_contains_shape_labels d s pos lw lh :
  In s (d_shapes d) -> s_label s = Some (pos, lw, lh) ->
  forall r, In r (label_extents s) ->
    inside r (grow 1 (bbox_fixed d))
    /\ (let '(px, py) := draw_label_tl s pos lw lh in Z.even px = true -> Z.even py = true -> inside r (bbox_fixed d)).
Proof.
  intros Hs Hl. apply (bbox_contains_shape_labels_gen fixed_label_tl d s pos lw lh Hs Hl).
  intro O. unfold fixed_label_tl. rewrite O. reflexivity.
Qed.

(* ---- the unguarded statements are false on the faithful model ---- *)

Definition w_shape (mult : bool) (icon : option (N * Z * Z)) (label : option (N * Z * Z)) : shape :=
  {| s_x := 0; s_y := 0; s_w := 60; s_h := 66; s_sw := 2; s_c4 := None; s_app := false; s_shadow := false;
     s_3d := false; s_hex := false; s_mult := mult; s_icon := icon; s_label := label |}.

(* outside-top label on a shape with multiple copies: drawn 10 px above the reported box *)
Theorem multiple_outside_label_refuted :
  exists d s r, In s (d_shapes d) /\ In r (label_extents s) /\ ~ inside r (grow 1 (bbox d)).
Proof.
  exists {| d_shapes := [w_shape true None (Some (2%N, 40, 21))]; d_conns := [] |}.
  exists (w_shape true None (Some (2%N, 40, 21))). eexists. split; [left; reflexivity|].
  split; [left; reflexivity|]. vm_compute. intros (A & B & C & D). apply B. reflexivity.
Qed.

(* icon at outside-top-left: drawn 5 px left of the shape, the box only grows upwards *)
Theorem outside_top_left_icon_refuted :
  exists d s r, In s (d_shapes d) /\ In r (icon_extents s) /\ ~ inside r (bbox d).
Proof.
  exists {| d_shapes := [w_shape false (Some (1%N, 32, 32)) None]; d_conns := [] |}.
  exists (w_shape false (Some (1%N, 32, 32)) None). eexists. split; [left; reflexivity|].
  split; [left; reflexivity|]. vm_compute. intros (A & B & C & D). apply A. reflexivity.
Qed.

(* label with a half-pixel coordinate: int() truncation loses the last half pixel, exactness fails *)
Theorem label_exact_refuted :
  exists d s r, In s (d_shapes d) /\ s_3d s = false /\ s_mult s = false /\ In r (label_extents s)
                /\ ~ inside r (bbox d).
Proof.
  exists {| d_shapes := [w_shape false None (Some (2%N, 91, 21))]; d_conns := [] |}.
  exists (w_shape false None (Some (2%N, 91, 21))). eexists. split; [left; reflexivity|].
  split; [reflexivity|]. split; [reflexivity|]. split; [left; reflexivity|].
  vm_compute. intros (A & B & C & D). apply A. reflexivity.
Qed.
