(* C28 — proofs about the model of d2exporter.Export. *)
From Coq Require Import String Ascii List NArith ZArith Bool Lia.
Import ListNotations.
Require Import V.Lib.RunCases V.C28.Theme V.Gen.C28Themes V.C28.Model V.C28.Check.
Open Scope string_scope.

(* ---------- equality tests ---------- *)

Lemma value_eqb_eq a b : value_eqb a b = true <-> a = b.
Proof.
  destruct a, b; simpl; split; intro H; try discriminate; try congruence.
  - apply String.eqb_eq in H; congruence.
  - inversion H; apply String.eqb_refl.
  - apply Z.eqb_eq in H; congruence.
  - inversion H; apply Z.eqb_refl.
  - apply Bool.eqb_prop in H; congruence.
  - inversion H; apply Bool.eqb_reflx.
  - apply N.eqb_eq in H; congruence.
  - inversion H; apply N.eqb_refl.
Qed.

Lemma field_eqb_eq a b : field_eqb a b = true <-> a = b.
Proof. destruct a, b; vm_compute; split; intro H; try reflexivity; discriminate. Qed.

(* ---------- the boolean predicate of Check.v is the Prop of the theorems ---------- *)

Definition style_wins (fs : list field) (st : sstyle) (r : rec) : Prop :=
  forall f v, In f fs -> st f = Some v -> r f = v.

Lemma style_wins_b_spec fs st r : style_wins_b fs st r = true <-> style_wins fs st r.
Proof.
  unfold style_wins_b, style_wins. rewrite forallb_forall. split.
  - intros H f v Hin Hs. specialize (H f Hin). rewrite Hs in H. now apply value_eqb_eq.
  - intros H f Hin. destruct (st f) as [v|] eqn:E; [|reflexivity]. apply value_eqb_eq. now apply H.
Qed.

(* ---------- map_opt ---------- *)

Lemma map_opt_Forall2 {A B} (f : A -> option B) l l' :
  map_opt f l = Some l' -> Forall2 (fun x y => f x = Some y) l l'.
Proof.
  revert l'; induction l as [|x r IH]; simpl; intros l' H.
  - inversion H; constructor.
  - destruct (f x) eqn:E; [|discriminate]. destruct (map_opt f r) eqn:E2; [|discriminate].
    inversion H; subst. constructor; auto.
Qed.

Lemma map_opt_total {A B} (f : A -> option B) l :
  Forall (fun x => f x <> None) l -> exists l', map_opt f l = Some l'.
Proof.
  induction 1 as [|x r Hx _ IH]; simpl; [now eexists|].
  destruct (f x) eqn:E; [|congruence]. destruct IH as [l' ->]. now eexists.
Qed.

(* ---------- toShape ---------- *)

Ltac ev :=
  lazy beta iota zeta delta
    [to_shape to_conn apply_styles apply_theme ap upd updif unless_set base_shape base_conn base_root
     zero_rec field_eqb field_idx N.eqb Pos.eqb].

Lemma wf_total th o : wf_objb o = true -> to_shape th o <> None.
Proof.
  unfold wf_objb, to_shape. intro H.
  apply andb_prop in H as [H _]. apply andb_prop in H as [H1 H2].
  apply Bool.eqb_prop in H1. apply Bool.eqb_prop in H2.
  rewrite H1, H2.
  destruct (String.eqb (shape_l o) "class"); [discriminate|].
  destruct (String.eqb (shape_l o) "sql_table"); discriminate.
Qed.

Lemma to_shape_id th o s : to_shape th o = Some s -> s FId = VS (abs_id (o_path o)).
Proof.
  unfold to_shape.
  destruct (String.eqb (shape_l o) "class"); [destruct (o_has_class o)|
    destruct (String.eqb (shape_l o) "sql_table"); [destruct (o_has_table o)|]];
  intro H; inversion H; clear H; subst; ev; reflexivity.
Qed.

(* fields written by applyStyles: the second applyStyles call is the last writer *)
Lemma to_shape_styles th o s f v :
  to_shape th o = Some s -> In f styles_fields -> o_style o f = Some v -> s f = v.
Proof.
  unfold to_shape.
  destruct (String.eqb (shape_l o) "class"); [destruct (o_has_class o)|
    destruct (String.eqb (shape_l o) "sql_table"); [destruct (o_has_table o)|]];
  intro H; inversion H; clear H; subst; intros Hin Hs;
  simpl in Hin;
  repeat (destruct Hin as [<-|Hin]; [ev; rewrite Hs; reflexivity|]); destruct Hin.
Qed.

Lemma to_shape_animated th o s v :
  to_shape th o = Some s -> o_style o FAnimated = Some v -> s FAnimated = v.
Proof.
  unfold to_shape.
  destruct (String.eqb (shape_l o) "class"); [destruct (o_has_class o)|
    destruct (String.eqb (shape_l o) "sql_table"); [destruct (o_has_table o)|]];
  intro H; inversion H; clear H; subst; intros Hs; ev; rewrite Hs; reflexivity.
Qed.

Lemma vsub_vadd v k : vsub (vadd v k) k = v.
Proof. destruct v; simpl; try reflexivity. f_equal. lia. Qed.

(* font-size: Object.Text() adds HeaderFontAdd for class / sql_table objects, toShape subtracts it
   again for class / sql_table SHAPES; the two tests coincide for compiled objects (wf_objb) *)
Lemma to_shape_font_size th o s v :
  wf_objb o = true -> to_shape th o = Some s -> o_style o FFontSize = Some v -> s FFontSize = v.
Proof.
  unfold wf_objb. intro W.
  apply andb_prop in W as [W _]. apply andb_prop in W as [W1 W2].
  apply Bool.eqb_prop in W1. apply Bool.eqb_prop in W2.
  unfold to_shape.
  destruct (String.eqb (shape_l o) "class") eqn:Ec.
  - rewrite W1. intro H; inversion H; clear H; subst. intro Hs. ev.
    unfold text_font_size. rewrite Hs, W1. simpl. apply vsub_vadd.
  - destruct (String.eqb (shape_l o) "sql_table") eqn:Et.
    + rewrite W2. intro H; inversion H; clear H; subst. intro Hs. ev.
      unfold text_font_size. rewrite Hs, W2. rewrite orb_true_r. apply vsub_vadd.
    + intro H; inversion H; clear H; subst. intro Hs. ev.
      unfold text_font_size. rewrite Hs, W1, W2. reflexivity.
Qed.

Lemma user_style_wins_shape th o s :
  wf_objb o = true -> to_shape th o = Some s -> style_wins shape_user_fields (o_style o) s.
Proof.
  intros W H f v Hin Hs. unfold shape_user_fields in Hin. apply in_app_or in Hin as [Hin|Hin].
  - eapply to_shape_styles; eauto.
  - simpl in Hin. destruct Hin as [<-|[<-|[]]].
    + eapply to_shape_font_size; eauto.
    + eapply to_shape_animated; eauto.
Qed.

(* the hypothesis wf is needed: an object carrying a Class while its shape is not "class" would
   export font-size + 4 *)
Lemma font_size_needs_wf :
  exists o s, to_shape None o = Some s /\ o_style o FFontSize = Some (VZ 20) /\ s FFontSize <> VZ 20.
Proof.
  exists (Build_obj ["a"] "rectangle" 1 false false true false false None false false false false false
            (sty [(FFontSize, VZ 20)])).
  eexists. split; [reflexivity|]. split; [reflexivity|]. vm_compute. discriminate.
Qed.

(* ---------- toConnection ---------- *)

Lemma user_style_wins_conn th e : style_wins conn_user_fields (e_style e) (to_conn th e).
Proof.
  intros f v Hin Hs. simpl in Hin.
  repeat (destruct Hin as [<-|Hin]; [ev; rewrite Hs; try reflexivity|]); try destruct Hin.
  all: destruct (th_c4 th); reflexivity.
Qed.

Lemma to_conn_key th e : conn_key (to_conn th e) = edge_key e.
Proof. unfold conn_key, edge_key. ev. reflexivity. Qed.

(* ---------- Root ---------- *)

Lemma root_style_wins o r : style_wins styles_fields (o_style o) (apply_styles o r).
Proof.
  intros f v Hin Hs. simpl in Hin.
  repeat (destruct Hin as [<-|Hin]; [ev; rewrite Hs; reflexivity|]); destruct Hin.
Qed.

(* ---------- Export ---------- *)

Lemma export_shapes th g d :
  export th g = Some d ->
  Forall2 (fun o s => to_shape th o = Some s) (g_objects g) (d_shapes d)
  /\ d_conns d = map (to_conn th) (g_edges g)
  /\ d_root d = apply_styles (g_root g) base_root.
Proof.
  unfold export. destruct (map_opt (to_shape th) (g_objects g)) eqn:E; [|discriminate].
  intro H; inversion H; subst; simpl. split; [now apply map_opt_Forall2|auto].
Qed.

Lemma export_total th g :
  Forall (fun o => wf_objb o = true) (g_objects g) -> exists d, export th g = Some d.
Proof.
  intro W. unfold export.
  destruct (map_opt_total (to_shape th) (g_objects g)) as [l' ->]; [|now eexists].
  eapply Forall_impl; [|exact W]. intros o Ho. now apply wf_total.
Qed.

Lemma export_one_shape_per_object th g d :
  export th g = Some d ->
  map (fun s => s FId) (d_shapes d) = map (fun o => VS (abs_id (o_path o))) (g_objects g).
Proof.
  intro H. apply export_shapes in H as [H _].
  induction H as [|o s os ss Hs _ IH]; simpl; [reflexivity|].
  f_equal; [now apply (to_shape_id th)|exact IH].
Qed.

Lemma export_one_connection_per_edge th g d :
  export th g = Some d -> map conn_key (d_conns d) = map edge_key (g_edges g).
Proof.
  intro H. apply export_shapes in H as [_ [H _]]. rewrite H, map_map.
  apply map_ext. intro e. apply to_conn_key.
Qed.

Lemma export_user_style_wins th g d :
  Forall (fun o => wf_objb o = true) (g_objects g) ->
  export th g = Some d ->
  Forall2 (fun o s => style_wins shape_user_fields (o_style o) s) (g_objects g) (d_shapes d)
  /\ Forall2 (fun e c => style_wins conn_user_fields (e_style e) c) (g_edges g) (d_conns d)
  /\ style_wins styles_fields (o_style (g_root g)) (d_root d).
Proof.
  intros W H. apply export_shapes in H as [H1 [H2 H3]]. split; [|split].
  - revert W. induction H1 as [|o s os ss Hs _ IH]; intro W; constructor.
    + inversion W; subst. now apply (user_style_wins_shape th).
    + apply IH. now inversion W.
  - rewrite H2. clear. induction (g_edges g) as [|e r IH]; simpl; constructor; [apply user_style_wins_conn|exact IH].
  - rewrite H3. apply root_style_wins.
Qed.

(* ---------- catalog facts (finite sweeps over the regenerated catalog) ---------- *)

Lemma catalog_ids_distinct : NoDup (map t_id catalog).
Proof.
  assert (H : forall l : list Z,
     (fix nd (l : list Z) := match l with [] => true
        | x :: r => negb (existsb (Z.eqb x) r) && nd r end) l = true -> NoDup l).
  { induction l as [|x r IH]; intros H; constructor.
    - apply andb_prop in H as [H _]. intro K. apply negb_true_iff in H.
      assert (existsb (Z.eqb x) r = true) by (apply existsb_exists; exists x; split; [auto|apply Z.eqb_refl]).
      congruence.
    - apply IH. now apply andb_prop in H as [_ H]. }
  apply H. vm_compute. reflexivity.
Qed.

Lemma nodup_ids_inj (l : list theme) t t' :
  NoDup (map t_id l) -> In t l -> In t' l -> t_id t' = t_id t -> t' = t.
Proof.
  induction l as [|a r IH]; simpl; [tauto|]. intro ND. inversion ND; subst.
  intros [->|A] [->|B] E; auto.
  - exfalso. apply H1. rewrite <- E. now apply in_map.
  - exfalso. apply H1. rewrite E. now apply in_map.
Qed.

Lemma find_catalog_theme t : In t catalog -> find_theme light_catalog dark_catalog (t_id t) = Some t.
Proof.
  intro Hin. pose proof catalog_ids_distinct as ND. unfold find_theme.
  destruct (find_in (t_id t) light_catalog) as [t'|] eqn:E.
  - apply find_in_In in E as [I1 I2]. f_equal.
    apply (nodup_ids_inj catalog); auto. unfold catalog; apply in_or_app; now left.
  - destruct (find_in (t_id t) dark_catalog) as [t'|] eqn:E2.
    + apply find_in_In in E2 as [I1 I2]. f_equal.
      apply (nodup_ids_inj catalog); auto. unfold catalog; apply in_or_app; now right.
    + exfalso. apply find_in_None in E. apply find_in_None in E2.
      unfold catalog in Hin. apply in_app_or in Hin as [A|A]; [apply E|apply E2]; now apply in_map.
Qed.

(* ---------- labels: text-transform vs. CapsLock ---------- *)

Section LabelProofs.
  Variable upper lower title : string -> string.
  Notation sdl := (set_dims_label upper lower title).
  Notation att := (apply_tt upper lower title).

  Lemma caps_commutes_b_spec tt l :
    caps_commutes_at_b upper lower title tt l = true <-> caps_commutes_at upper lower title tt l.
  Proof.
    unfold caps_commutes_at_b, caps_commutes_at. destruct tt as [v|]; [|tauto].
    destruct (String.eqb_spec v "uppercase"), (String.eqb_spec v "lowercase"),
             (String.eqb_spec v "capitalize"); simpl;
      rewrite ?andb_true_r, ?andb_true_iff, ?String.eqb_eq; intuition congruence.
  Qed.

  (* what the user's transform does to a label that was upper-cased first *)
  Lemma apply_tt_after_upper v l :
    In v valid_tts -> caps_commutes_at upper lower title (Some v) l ->
    att (Some v) (if negb (tt_none (Some v)) then upper l else l) = att (Some v) l.
  Proof.
    intros Hv [Hu [Hl Ht]]. simpl in Hv.
    destruct Hv as [<-|[<-|[<-|[<-|[]]]]]; cbn.
    - reflexivity.
    - now apply Hu.
    - now apply Hl.
    - now apply Ht.
  Qed.

  (* a user-set (valid) text-transform wins over the CapsLock rule: same label as without the rule *)
  Lemma label_user_transform_wins caps it v :
    l_tt it = Some v -> In v valid_tts ->
    caps_commutes_at upper lower title (Some v) (l_label it) ->
    sdl caps it = sdl false it.
  Proof.
    intros Ht Hv Hc. destruct caps; [|reflexivity].
    pose proof (apply_tt_after_upper v (l_label it) Hv Hc) as K.
    unfold set_dims_label. rewrite Ht. cbn [andb].
    destruct (l_edge it).
    - destruct (String.eqb (l_label it) ""); [reflexivity|exact K].
    - match goal with |- (if ?c then _ else _) = _ => destruct c end; [reflexivity|].
      destruct (String.eqb (l_shape it) "code"); cbn [negb]; [reflexivity|].
      destruct (l_latex it); cbn [negb andb]; [reflexivity|].
      destruct (tt_none (Some v)); cbn [negb] in *; [reflexivity|exact K].
  Qed.

  (* with the repair no hypothesis on the case mappings and no validity condition is needed *)
  Lemma label_user_transform_wins_fixed caps it v :
    l_tt it = Some v ->
    set_dims_label_fixed upper lower title caps it = set_dims_label_fixed upper lower title false it.
  Proof.
    intros Ht. unfold set_dims_label_fixed. rewrite Ht. rewrite !andb_false_r.
    destruct caps; [|reflexivity]. cbn [andb].
    destruct (l_edge it); [reflexivity|].
    destruct (negb (String.eqb (l_shape it) "code")); reflexivity.
  Qed.

  (* and the repair changes nothing when no transform is set or none of the rules fires *)
  Lemma fixed_agrees_without_user_transform caps it :
    l_tt it = None -> set_dims_label_fixed upper lower title caps it = sdl caps it.
  Proof. intro Ht. unfold set_dims_label_fixed, set_dims_label. rewrite Ht. reflexivity. Qed.

  (* without a user transform the theme rule applies *)
  Lemma label_capslock_default it :
    l_tt it = None -> l_edge it = true -> sdl true it = if String.eqb (l_label it) "" then "" else upper (l_label it).
  Proof.
    intros Ht He. unfold set_dims_label. rewrite Ht, He. simpl.
    destruct (String.eqb (l_label it) "") eqn:E; [now apply String.eqb_eq in E|reflexivity].
  Qed.
End LabelProofs.

(* The order "CapsLock first, then the user's transform" is NOT harmless for the real case mappings:
   with what Go's strings.ToUpper / ToLower return for U+0131 (dotless i: upper "I", lower of "I" is
   "i", lower of U+0131 is itself) the user's `text-transform: lowercase` yields another label under
   a CapsLock theme than under every other theme. *)
Definition dotless_i : string := bs [196; 177]%N.
Lemma capslock_changes_lowercased_label :
  let upper := tbl_fun [(dotless_i, "I")] in
  let lower := tbl_fun [("I", "i")] in
  let title := tbl_fun [] in
  let it := {| l_edge := false; l_label := dotless_i; l_shape := ""; l_latex := false;
               l_tt := Some "lowercase" |} in
  In "lowercase" valid_tts
  /\ set_dims_label upper lower title true it = "i"
  /\ set_dims_label upper lower title false it = dotless_i
  /\ set_dims_label upper lower title true it <> set_dims_label upper lower title false it.
Proof.
  cbv zeta. split; [simpl; tauto|]. split; [vm_compute; reflexivity|]. split; [vm_compute; reflexivity|].
  vm_compute. discriminate.
Qed.
