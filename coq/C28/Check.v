(* Executable checker for C28 cases.  One case = one compiled diagram; [runs] groups the themes
   (None = g.Theme nil, Some id = g.ApplyTheme id) under which the real d2exporter.Export produced the
   same output, with that output (None = Export failed / panicked).

   codes:  1  model (export, to_shape, to_conn, apply_styles on Root) differs from the implementation
           2  compiler invariant assumed by the theorems is false for a compiled object (wf_objb)
           3  theme id the harness installed is not in the regenerated catalog
           10 shape ids are not exactly the objects' absolute ids, in order (one shape per object)
           11 connection (id, src, dst) are not exactly the edges' (AbsID, src AbsID, dst AbsID), in order
           12 a style value set on an object is not the exported shape's value
           13 a style value set on an edge is not the exported connection's value
           14 a style value set on the root is not diagram.Root's value
   CLabel cases (labels after SetDimensions + Export, per theme):
           4  ToUpper/ToLower/Title do not satisfy the commutation hypothesis of the label theorem at this label
           15 an element with a user-set text-transform has a different exported label under some theme
              than under no theme *)
From Coq Require Import String List NArith ZArith Bool.
Import ListNotations.
Require Import V.Lib.RunCases.
Require Export V.C28.Theme V.Gen.C28Themes V.C28.Model.
Open Scope string_scope.

Definition shape_obs_fields : list field :=
  [FId; FType; FLevel; FOpacity; FStrokeDash; FStrokeWidth; FBorderRadius; FFill; FFillPattern; FStroke;
   FAnimated; FShadow; F3d; FMultiple; FDoubleBorder; FBlend; FFontSize; FFontFamily; FColor; FItalic;
   FBold; FUnderline; FPrimary; FSecondary; FNeutral].
Definition conn_obs_fields : list field :=
  [FId; FOpacity; FStrokeDash; FStrokeWidth; FBorderRadius; FFill; FStroke; FAnimated; FFontSize;
   FFontFamily; FColor; FItalic; FBold; FUnderline; FSrc; FDst].

Fixpoint of_vals (fs : list field) (vs : list value) : option rec :=
  match fs, vs with
  | [], [] => Some zero_rec
  | f :: fs', v :: vs' => option_map (upd f v) (of_vals fs' vs')
  | _, _ => None
  end.

Definition rec_eqb (fs : list field) (a b : rec) : bool :=
  forallb (fun f => value_eqb (a f) (b f)) fs.

Fixpoint forall2b {A B} (p : A -> B -> bool) (l1 : list A) (l2 : list B) : bool :=
  match l1, l2 with
  | [], [] => true
  | x :: r1, y :: r2 => p x y && forall2b p r1 r2
  | _, _ => false
  end.

Definition resolve (tid : option Z) : option (option theme) :=
  match tid with
  | None => Some None
  | Some id => match find_theme light_catalog dark_catalog id with
               | Some t => Some (Some t)
               | None => None
               end
  end.

(* the property predicates, on the implementation's output *)
Definition ids_one_to_one (objs : list obj) (shapes : list rec) : bool :=
  list_eqb value_eqb (map (fun s => s FId) shapes) (map (fun o => VS (abs_id (o_path o))) objs).
Definition conn_key (c : rec) : list value := [c FId; c FSrc; c FDst].
Definition edge_key (e : edge) : list value := [VS (e_id e); VS (abs_id (e_src e)); VS (abs_id (e_dst e))].
Definition conns_one_to_one (edges : list edge) (conns : list rec) : bool :=
  list_eqb (list_eqb value_eqb) (map conn_key conns) (map edge_key edges).
Definition shapes_keep_styles (objs : list obj) (shapes : list rec) : bool :=
  forall2b (fun o s => style_wins_b shape_user_fields (o_style o) s) objs shapes.
Definition conns_keep_styles (edges : list edge) (conns : list rec) : bool :=
  forall2b (fun e c => style_wins_b conn_user_fields (e_style e) c) edges conns.

Definition impl_out := (list value * list (list value) * list (list value))%type.

Definition check_run (g : graph) (run : list (option Z) * option impl_out) : list N :=
  let (tids, out) := run in
  match out with
  | None => [1%N]
  | Some (rv, svs, cvs) =>
      match of_vals shape_obs_fields rv,
            map_opt (of_vals shape_obs_fields) svs,
            map_opt (of_vals conn_obs_fields) cvs with
      | Some ir, Some iss, Some ics =>
          flag (ids_one_to_one (g_objects g) iss) 10
          ++ flag (conns_one_to_one (g_edges g) ics) 11
          ++ flag (shapes_keep_styles (g_objects g) iss) 12
          ++ flag (conns_keep_styles (g_edges g) ics) 13
          ++ flag (style_wins_b styles_fields (o_style (g_root g)) ir) 14
          ++ flat_map (fun tid =>
               match resolve tid with
               | None => [3%N]
               | Some th =>
                   match export th g with
                   | Some d =>
                       flag (rec_eqb shape_obs_fields (d_root d) ir
                             && forall2b (rec_eqb shape_obs_fields) (d_shapes d) iss
                             && forall2b (rec_eqb conn_obs_fields) (d_conns d) ics) 1
                   | None => [1%N]
                   end
               end) tids
      | _, _, _ => [1%N]
      end
  end.

(* ---------- labels (text-transform vs. the CapsLock rule) ---------- *)

Definition tbl := list (string * string).
Definition litem_o := (litem * (tbl * tbl * tbl))%type.   (* item + what ToUpper / ToLower / Title returned *)

Definition model_label (caps : bool) (x : litem_o) : string :=
  let '(it, (u, l, t)) := x in
  if capslock_fix_applied then set_dims_label_fixed (tbl_fun u) (tbl_fun l) (tbl_fun t) caps it
  else set_dims_label (tbl_fun u) (tbl_fun l) (tbl_fun t) caps it.

Definition user_tt_valid (it : litem) : bool :=
  match l_tt it with Some v => str_in v valid_tts | None => false end.

Definition hyp_label (x : litem_o) : bool :=
  let '(it, (u, l, t)) := x in
  capslock_fix_applied || negb (user_tt_valid it) || caps_commutes_at_b (tbl_fun u) (tbl_fun l) (tbl_fun t) (l_tt it) (l_label it).

Definition has_none (tids : list (option Z)) : bool :=
  existsb (fun t => match t with None => true | Some _ => false end) tids.

(* property on the implementation's own labels: an element whose text-transform the user set (to a
   valid value) has the same exported label under every theme as under no theme *)
Definition labels_agree (items : list litem_o) (base labels : list string) : bool :=
  forall2b (fun x bl => negb (user_tt_valid (fst x)) || String.eqb (fst bl) (snd bl))
           items (combine base labels)
  && Nat.eqb (length base) (length labels).

Definition check_label_run (items : list litem_o) (base : option (list string))
                           (run : list (option Z) * list string) : list N :=
  let (tids, labels) := run in
  match base with
  | Some b => flag (labels_agree items b labels) 15
  | None => [15%N]
  end
  ++ flat_map (fun tid =>
       match resolve tid with
       | None => [3%N]
       | Some th => flag (list_eqb String.eqb (map (model_label (th_flag t_caps_lock th)) items) labels) 1
       end) tids.

Inductive case :=
| CLabel (items : list litem_o) (runs : list (list (option Z) * list string))

| CExport (root : obj) (objs : list obj) (edges : list edge) (runs : list (list (option Z) * option impl_out)).

Definition check_case (c : case) : list N :=
  match c with
  | CLabel items runs =>
      let base := match filter (fun r => has_none (fst r)) runs with r :: _ => Some (snd r) | [] => None end in
      flag (forallb hyp_label items) 4 ++ flat_map (check_label_run items base) runs
  | CExport root objs edges runs =>
      let g := {| g_root := root; g_objects := objs; g_edges := edges |} in
      flag (forallb wf_objb objs) 2 ++ flat_map (check_run g) runs
  end.
