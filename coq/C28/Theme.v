(* Theme record shared by C28 and C31.  The catalog itself is NOT written by hand: it is dumped from the
   running d2themescatalog on every run into coq/Gen/C28Themes.v (see harness/c28.go, genFiles). *)
From Coq Require Import String Ascii List NArith ZArith Bool.
Import ListNotations.
Open Scope string_scope.

(* strings the harness cannot write as a plain ASCII literal are passed as byte lists *)
Fixpoint bs (l : list N) : string :=
  match l with [] => EmptyString | c :: r => String (ascii_of_N c) (bs r) end.

(* d2themes.ColorPalette (Neutrals flattened) *)
Record palette := {
  cN1 : string; cN2 : string; cN3 : string; cN4 : string; cN5 : string; cN6 : string; cN7 : string;
  cB1 : string; cB2 : string; cB3 : string; cB4 : string; cB5 : string; cB6 : string;
  cAA2 : string; cAA4 : string; cAA5 : string; cAB4 : string; cAB5 : string }.

(* d2themes.Theme with d2themes.SpecialRules flattened *)
Record theme := {
  t_id : Z; t_name : string; t_colors : palette;
  t_mono : bool; t_no_corner_radius : bool; t_outer_double : bool; t_container_dots : bool;
  t_caps_lock : bool; t_c4 : bool; t_all_paper : bool }.

(* d2themescatalog.Find over light ++ dark; None is Go's zero Theme{} *)
Fixpoint find_in (id : Z) (l : list theme) : option theme :=
  match l with
  | [] => None
  | t :: r => if Z.eqb (t_id t) id then Some t else find_in id r
  end.

Definition find_theme (light dark : list theme) (id : Z) : option theme :=
  match find_in id light with Some t => Some t | None => find_in id dark end.

Lemma find_in_In id l t : find_in id l = Some t -> In t l /\ t_id t = id.
Proof.
  induction l as [|a r IH]; simpl; [discriminate|].
  destruct (Z.eqb (t_id a) id) eqn:E.
  - intros H; inversion H; subst. split; [now left | now apply Z.eqb_eq].
  - intros H. destruct (IH H). split; [now right | assumption].
Qed.

Lemma find_in_None id l : find_in id l = None <-> ~ In id (map t_id l).
Proof.
  induction l as [|a r IH]; simpl.
  - split; [intros _ [] | reflexivity].
  - destruct (Z.eqb (t_id a) id) eqn:E.
    + apply Z.eqb_eq in E. split; [discriminate | intros H; exfalso; apply H; now left].
    + apply Z.eqb_neq in E. rewrite IH. split.
      * intros H [K|K]; [contradiction | now apply H].
      * intros H K. apply H. now right.
Qed.
