(* C28 — executable model of d2exporter.Export (export.go: Export / toShape / applyStyles / applyTheme /
   toConnection) together with the d2graph helpers it calls (Object.Text, GetFill, GetStroke, Edge.Text,
   Edge.GetStroke, AbsID) and d2target.BaseShape / BaseConnection / Shape.SetType / MText.GetColor.
   Definitions only.

   An exported shape / connection is a total map  field -> value  (the d2target.Shape / Connection
   fields that the modelled code writes); a d2graph.Style is a partial map  field -> option value
   keyed by the exported field the style keyword governs (nil pointer = None).  Style values arrive
   already parsed (strconv.ParseFloat / Atoi / ParseBool are applied by the harness with the very
   functions export.go uses): floats as float64 bit patterns, integral floats and ints as Z. *)
From Coq Require Import String Ascii List NArith ZArith Bool.
Import ListNotations.
Require Import V.C28.Theme V.Gen.C28Themes.
Open Scope string_scope.

Inductive field :=
| FId | FType | FLevel | FOpacity | FStrokeDash | FStrokeWidth | FBorderRadius | FFill | FFillPattern
| FStroke | FAnimated | FShadow | F3d | FMultiple | FDoubleBorder | FBlend | FFontSize | FFontFamily
| FColor | FItalic | FBold | FUnderline | FPrimary | FSecondary | FNeutral | FSrc | FDst.

Definition field_idx (f : field) : N :=
  match f with
  | FId => 0 | FType => 1 | FLevel => 2 | FOpacity => 3 | FStrokeDash => 4 | FStrokeWidth => 5
  | FBorderRadius => 6 | FFill => 7 | FFillPattern => 8 | FStroke => 9 | FAnimated => 10 | FShadow => 11
  | F3d => 12 | FMultiple => 13 | FDoubleBorder => 14 | FBlend => 15 | FFontSize => 16 | FFontFamily => 17
  | FColor => 18 | FItalic => 19 | FBold => 20 | FUnderline => 21 | FPrimary => 22 | FSecondary => 23
  | FNeutral => 24 | FSrc => 25 | FDst => 26
  end%N.
Definition field_eqb (a b : field) : bool := N.eqb (field_idx a) (field_idx b).

Inductive value := VS (s : string) | VZ (z : Z) | VB (b : bool) | VF (bits : N).

Definition value_eqb (a b : value) : bool :=
  match a, b with
  | VS x, VS y => String.eqb x y
  | VZ x, VZ y => Z.eqb x y
  | VB x, VB y => Bool.eqb x y
  | VF x, VF y => N.eqb x y
  | _, _ => false
  end.

Definition rec := field -> value.
Definition upd (f : field) (v : value) (r : rec) : rec := fun g => if field_eqb g f then v else r g.

Definition sstyle := field -> option value.
(* `if st.F != nil { r.F = st.F.Value }` *)
Definition ap (st : sstyle) (f : field) (r : rec) : rec :=
  fun g => if field_eqb g f then match st f with Some v => v | None => r g end else r g.
(* `if c { r.F = v }` *)
Definition updif (c : bool) (f : field) (v : value) (r : rec) : rec :=
  fun g => if field_eqb g f then (if c then v else r g) else r g.
(* `if c { if st.F == nil { r.F = v } }` (the C4 rules) *)
Definition unless_set (c : bool) (st : sstyle) (f : field) (v : value) (r : rec) : rec :=
  fun g => if field_eqb g f then (if c then match st f with Some _ => r g | None => v end else r g) else r g.

Fixpoint sty (l : list (field * value)) : sstyle :=
  fun f => match l with
           | [] => None
           | (g, v) :: r => if field_eqb f g then Some v else sty r f
           end.

Definition one_bits : N := 4607182418800017408.   (* float64 1.0 *)

Definition zero_rec : rec := fun f =>
  match f with
  | FId | FType | FFill | FFillPattern | FStroke | FFontFamily | FColor | FPrimary | FSecondary | FNeutral
  | FSrc | FDst => VS ""
  | FLevel | FStrokeDash | FStrokeWidth | FBorderRadius | FFontSize => VZ 0
  | FOpacity => VF 0
  | _ => VB false
  end.

(* d2target.BaseShape *)
Definition base_shape : rec :=
  upd FFontFamily (VS "DEFAULT") (upd FBold (VB true) (upd FStrokeWidth (VZ 2) (upd FStrokeDash (VZ 0)
  (upd FOpacity (VF one_bits) zero_rec)))).
(* d2target.BaseConnection *)
Definition base_conn : rec :=
  upd FFontFamily (VS "DEFAULT") (upd FItalic (VB true) (upd FBorderRadius (VZ 10) (upd FStrokeWidth (VZ 2)
  (upd FStrokeDash (VZ 0) (upd FOpacity (VF one_bits) zero_rec))))).
(* d2target.NewDiagram().Root : zero Shape with Fill = BG_COLOR = N7 *)
Definition base_root : rec := upd FFill (VS "N7") zero_rec.

Record obj := {
  o_path : list string;      (* the ids Object.AbsID() concatenates: the object's ID preceded by the IDs of
                                its ancestors up to (excluding) the first one whose ID is "" or that has no parent *)
  o_shape : string;          (* Shape.Value (lower-case from the compiler; d2sequence stores "Square", "Page") *)
  o_level : Z;               (* Level() *)
  o_children : bool;         (* len(ChildrenArray) > 0 *)
  o_is_container : bool;     (* IsContainer(): len(Children) > 0 *)
  o_has_class : bool;        (* Class != nil *)
  o_has_table : bool;        (* SQLTable != nil *)
  o_grid : bool;             (* IsGridDiagram() *)
  o_sd_outer : option Z;     (* Level() of OuterSequenceDiagram(), None when nil *)
  o_parent_sd : bool;        (* Parent.IsSequenceDiagram() *)
  o_sd_note : bool;          (* IsSequenceDiagramNote() *)
  o_sd_group : bool;         (* IsSequenceDiagramGroup() *)
  o_bold_lit : bool;         (* Style.Bold != nil && Style.Bold.Value == "true" *)
  o_italic_lit : bool;
  o_style : sstyle }.

Record edge := {
  e_id : string;             (* Edge.AbsID() *)
  e_src : list string; e_dst : list string;   (* AbsID chains of Src / Dst *)
  e_style : sstyle }.

(* Object.AbsID: parent's AbsID + "." + ID *)
Fixpoint join_dot (p : list string) : string :=
  match p with
  | [] => ""
  | [x] => x
  | x :: r => x ++ "." ++ join_dot r
  end.
Definition abs_id (p : list string) : string := join_dot p.

Definition str_in (s : string) (l : list string) : bool := existsb (String.eqb s) l.

(* strings.ToLower / strings.EqualFold against a lower-case ASCII constant, on ASCII shape names *)
Definition lower_ascii_char (c : ascii) : ascii :=
  let n := N_of_ascii c in
  if (N.leb 65 n && N.leb n 90)%N then ascii_of_N (n + 32) else c.
Fixpoint lower_ascii (s : string) : string :=
  match s with EmptyString => EmptyString | String c r => String (lower_ascii_char c) (lower_ascii r) end.
Definition shape_l (o : obj) : string := lower_ascii (o_shape o).

(* Shape.SetType: EqualFold circle -> oval, square -> rectangle, then ToLower *)
Definition set_type (t : string) : string :=
  let t := lower_ascii t in
  if String.eqb t "circle" then "oval" else if String.eqb t "square" then "rectangle" else t.

Definition is_sd (o : obj) : bool := String.eqb (o_shape o) "sequence_diagram".

(* Object.GetFill *)
Definition get_fill (o : obj) : string :=
  let level := o_level o in
  let sh := shape_l o in
  if str_in sh ["sql_table"; "class"] then "N1"
  else if o_sd_note o then "N7"
  else if o_sd_group o then "N5"
  else if o_parent_sd o then "B5"
  else match o_sd_outer o with
  | Some sl =>
      let l := (level - sl)%Z in
      if Z.eqb l 1 then "B3" else if Z.eqb l 2 then "B4" else if Z.eqb l 3 then "B5"
      else if Z.eqb l 4 then "N6" else "N7"
  | None =>
      if is_sd o then "N7"
      else if str_in sh [""; "square"; "circle"; "oval"; "rectangle"; "hierarchy"] then
        if Z.eqb level 1 then (if negb (o_is_container o) then "B6" else "B4")
        else if Z.eqb level 2 then "B5" else if Z.eqb level 3 then "B6" else "N7"
      else if str_in sh ["cylinder"; "stored_data"; "package"] then
        if Z.eqb level 1 then "AA4" else "AA5"
      else if str_in sh ["step"; "page"; "document"] then
        if Z.eqb level 1 then "AB4" else "AB5"
      else if str_in sh ["person"; "c4-person"] then "B3"
      else if String.eqb sh "diamond" then "N4"
      else if str_in sh ["cloud"; "callout"] then "N7"
      else if str_in sh ["queue"; "parallelogram"; "hexagon"] then "N5"
      else "N7"
  end.

Definition dash_nonzero (v : value) : bool := negb (value_eqb v (VZ 0)).

(* Object.GetStroke(dashGapSize) *)
Definition get_stroke (o : obj) (dash : value) : string :=
  if str_in (shape_l o) ["code"; "text"] then "N1"
  else if str_in (shape_l o) ["class"; "sql_table"] then "N7"
  else if dash_nonzero dash then "B2" else "B1".

(* Edge.GetStroke *)
Definition edge_stroke (dash : value) : string := if dash_nonzero dash then "B2" else "B1".

(* MText.GetColor *)
Definition get_color (italic : value) : string :=
  match italic with VB true => "N2" | _ => "N1" end.

Definition vadd (v : value) (k : Z) : value := match v with VZ z => VZ (z + k) | _ => v end.
Definition vsub (v : value) (k : Z) : value := match v with VZ z => VZ (z - k) | _ => v end.

(* ContainerLevel.LabelSize *)
Definition label_size (l : Z) : Z :=
  if Z.eqb l 1 then font_size_xxl else if Z.eqb l 2 then font_size_xl
  else if Z.eqb l 3 then font_size_l else font_size_m.

(* Object.Text(): IsBold, IsItalic, FontSize *)
Definition text_bold (o : obj) : bool :=
  let b := negb (o_is_container o) && negb (String.eqb (o_shape o) "text") in
  let b := if o_bold_lit o then true else b in
  let b := match o_sd_outer o with None => b | Some _ => false end in
  if o_has_class o then false else b.
Definition text_italic (o : obj) : bool := o_italic_lit o.
Definition text_font_size (o : obj) : value :=
  let hdr := o_has_class o || o_has_table o in
  let fs := if hdr then font_size_l else font_size_m in
  let fs := match o_sd_outer o with
            | None => if (o_is_container o || o_grid o) && negb (String.eqb (o_shape o) "text")
                      then label_size (o_level o) else fs
            | Some _ => fs end in
  let v := match o_style o FFontSize with Some v => v | None => VZ fs end in
  if hdr then vadd v header_font_add else v.

(* applyStyles, in the order of the source; Fill has the `else if shape == text` branch *)
Definition apply_styles (o : obj) (r : rec) : rec :=
  let st := o_style o in
  let r := ap st FOpacity r in
  let r := ap st FStrokeDash r in
  let r := (fun g => if field_eqb g FFill then
                       match st FFill with
                       | Some v => v
                       | None => if String.eqb (o_shape o) "text" then VS "transparent" else r g
                       end
                     else r g) in
  let r := ap st FFillPattern r in
  let r := ap st FStroke r in
  let r := ap st FStrokeWidth r in
  let r := ap st FShadow r in
  let r := ap st F3d r in
  let r := ap st FMultiple r in
  let r := ap st FBorderRadius r in
  let r := ap st FColor r in
  let r := ap st FItalic r in
  let r := ap st FBold r in
  let r := ap st FUnderline r in
  let r := ap st FFontFamily r in
  ap st FDoubleBorder r.

Definition is_person (o : obj) : bool := str_in (o_shape o) ["person"; "c4-person"].

Definition th_flag (p : theme -> bool) (th : option theme) : bool :=
  match th with Some t => p t | None => false end.
Definition th_c4 := th_flag t_c4.
Definition th_mono := th_flag t_mono.
Definition th_ncr := th_flag t_no_corner_radius.

(* applyTheme; every `if cond { shape.F = v }` is one [updif] / [unless_set] in source order *)
Definition apply_theme (th : option theme) (o : obj) (r : rec) : rec :=
  let st := o_style o in
  let kids := o_children o in
  let r := upd FStroke (VS (get_stroke o (r FStrokeDash))) r in
  let r := upd FFill (VS (get_fill o)) r in
  let r := updif (String.eqb (o_shape o) "text") FColor (VS "N1") r in
  let tc := str_in (o_shape o) ["sql_table"; "class"] in
  let r := updif tc FPrimary (VS "B2") r in
  let r := updif tc FSecondary (VS "AA2") r in
  let r := updif tc FNeutral (VS "N2") r in
  let r := updif (th_flag t_outer_double th && Z.eqb (o_level o) 1 && kids) FDoubleBorder (VB true) r in
  let r := updif (th_flag t_container_dots th && kids) FFillPattern (VS "dots") r in
  let r := updif (negb (th_flag t_container_dots th) && th_flag t_all_paper th) FFillPattern (VS "paper") r in
  let r := updif (th_mono th) FFontFamily (VS "mono") r in
  let c1 := th_c4 th && kids in
  let r := unless_set c1 st FFill (VS "transparent") r in
  let r := unless_set c1 st FStroke (VS "AA2") r in
  let r := unless_set c1 st FStrokeDash (VZ 5) r in
  let r := unless_set c1 st FColor (VS "N1") r in
  let c2 := th_c4 th && Z.eqb (o_level o) 1 && negb kids && negb (is_person o) in
  let r := unless_set c2 st FFill (VS "B6") r in
  let r := unless_set c2 st FStroke (VS "B5") r in
  let c3 := th_c4 th && is_person o in
  let r := unless_set c3 st FFill (VS "B2") r in
  let r := unless_set c3 st FStroke (VS "B1") r in
  let c4 := th_c4 th && Z.ltb 1 (o_level o) && negb kids && negb (is_person o) in
  let r := unless_set c4 st FFill (VS "B4") r in
  let r := unless_set c4 st FStroke (VS "B3") r in
  r.

(* toShape; None = nil dereference of obj.Class / obj.SQLTable *)
Definition to_shape (th : option theme) (o : obj) : option rec :=
  let st := o_style o in
  let r := base_shape in
  let r := upd FType (VS (set_type (o_shape o))) r in
  let r := upd FId (VS (abs_id (o_path o))) r in
  let r := upd FLevel (VZ (o_level o)) r in
  let r := upd FBold (VB (text_bold o)) r in
  let r := upd FItalic (VB (text_italic o)) r in
  let r := upd FFontSize (text_font_size o) r in
  let r := updif (is_sd o) FStrokeWidth (VZ 0) r in
  let r := updif (o_sd_group o) FStrokeWidth (VZ 0) r in
  let r := updif (o_sd_group o) FBlend (VB true) r in
  let r := apply_styles o r in
  let r := apply_theme th o r in
  let r := upd FColor (VS (get_color (r FItalic))) r in
  let r := unless_set (th_c4 th) st FColor (VS (if o_children o then "N1" else "N7")) r in
  let r := apply_styles o r in
  let hdr (r : rec) : rec := upd FFontSize (vsub (r FFontSize) header_font_add) r in
  let r' := if String.eqb (shape_l o) "class" then (if o_has_class o then Some (hdr r) else None)
            else if String.eqb (shape_l o) "sql_table" then (if o_has_table o then Some (hdr r) else None)
            else Some r in
  match r' with
  | None => None
  | Some r => Some (ap st FAnimated r)
  end.

(* Edge.Text().FontSize *)
Definition edge_font_size (e : edge) : value :=
  match e_style e FFontSize with Some v => v | None => VZ font_size_m end.

(* toConnection *)
Definition to_conn (th : option theme) (e : edge) : rec :=
  let st := e_style e in
  let r := base_conn in
  let r := upd FId (VS (e_id e)) r in
  let r := updif (th_ncr th) FBorderRadius (VZ 0) r in
  let r := ap st FBorderRadius r in
  let r := ap st FOpacity r in
  let r := ap st FStrokeDash r in
  let r := upd FStroke (VS (edge_stroke (r FStrokeDash))) r in
  let r := ap st FStroke r in
  let r := ap st FStrokeWidth r in
  let r := ap st FFill r in
  let r := upd FFontSize (edge_font_size e) r in
  let r := ap st FFontSize r in
  let r := ap st FAnimated r in
  let r := ap st FItalic r in
  let r := upd FColor (VS (get_color (r FItalic))) r in
  let r := ap st FColor r in
  let r := ap st FBold r in
  let r := ap st FUnderline r in
  let r := updif (th_mono th) FFontFamily (VS "mono") r in
  let r := ap st FFontFamily r in
  let r := upd FSrc (VS (abs_id (e_src e))) r in
  let r := upd FDst (VS (abs_id (e_dst e))) r in
  let r := unless_set (th_c4 th) st FStrokeDash (VZ 5) r in
  let r := unless_set (th_c4 th) st FStroke (VS "AA4") r in
  unless_set (th_c4 th) st FColor (VS "N2") r.

Record graph := { g_root : obj; g_objects : list obj; g_edges : list edge }.
Record diagram := { d_root : rec; d_shapes : list rec; d_conns : list rec }.

Fixpoint map_opt {A B} (f : A -> option B) (l : list A) : option (list B) :=
  match l with
  | [] => Some []
  | x :: r => match f x, map_opt f r with
              | Some y, Some ys => Some (y :: ys)
              | _, _ => None
              end
  end.

(* Export: Root styles, one toShape per g.Objects[i], one toConnection per g.Edges[i], same order *)
Definition export (th : option theme) (g : graph) : option diagram :=
  match map_opt (to_shape th) (g_objects g) with
  | Some ss => Some {| d_root := apply_styles (g_root g) base_root;
                       d_shapes := ss;
                       d_conns := map (to_conn th) (g_edges g) |}
  | None => None
  end.

(* the compiler invariant the class / sql_table branches rely on *)
Definition wf_objb (o : obj) : bool :=
  Bool.eqb (o_has_class o) (String.eqb (shape_l o) "class")
  && Bool.eqb (o_has_table o) (String.eqb (shape_l o) "sql_table")
  && str_in (shape_l o) ("" :: shape_names).

(* the keywords whose value the export must carry unchanged, per kind of element *)
Definition styles_fields : list field :=
  [FOpacity; FStrokeDash; FFill; FFillPattern; FStroke; FStrokeWidth; FShadow; F3d; FMultiple;
   FBorderRadius; FColor; FItalic; FBold; FUnderline; FFontFamily; FDoubleBorder].
Definition shape_user_fields : list field := styles_fields ++ [FFontSize; FAnimated].
Definition conn_user_fields : list field :=
  [FBorderRadius; FOpacity; FStrokeDash; FStroke; FStrokeWidth; FFill; FFontSize; FAnimated; FItalic;
   FColor; FBold; FUnderline; FFontFamily].

(* boolean form of "every value the user set is the exported value" for one element *)
Definition style_wins_b (fs : list field) (st : sstyle) (r : rec) : bool :=
  forallb (fun f => match st f with Some v => value_eqb (r f) v | None => true end) fs.

Definition catalog : list theme := light_catalog ++ dark_catalog.

(* ------------------------------------------------------------------------------------------------
   Labels: the `text-transform` keyword is not an exported field; it (and the CapsLock theme rule)
   rewrites Label.Value in d2graph.Graph.SetDimensions, and toShape/toConnection export the result.
   strings.ToUpper / strings.ToLower / cases.Title(language.Und) are oracles. *)

Record litem := {
  l_edge : bool;            (* edge (true) or object *)
  l_label : string;         (* Label.Value after compilation *)
  l_shape : string;         (* Shape.Value (objects) *)
  l_latex : bool;           (* Language == "latex" (objects) *)
  l_tt : option string }.   (* Style.TextTransform.Value *)

Section Label.
  Variable upper lower title : string -> string.

  (* Style.NoneTextTransform *)
  Definition tt_none (tt : option string) : bool :=
    match tt with Some v => String.eqb v "none" | None => false end.

  (* Attributes.ApplyTextTransform: three sequential tests on the stored value (case-sensitive) *)
  Definition apply_tt (tt : option string) (l : string) : string :=
    if tt_none tt then l else
    match tt with
    | None => l
    | Some v =>
        let l := if String.eqb v "uppercase" then upper l else l in
        let l := if String.eqb v "lowercase" then lower l else l in
        if String.eqb v "capitalize" then title l else l
    end.

  (* SetDimensions, label part; [caps] = g.Theme != nil && g.Theme.SpecialRules.CapsLock *)
  Definition set_dims_label (caps : bool) (it : litem) : string :=
    let l := l_label it in
    if l_edge it then
      if String.eqb l "" then l
      else apply_tt (l_tt it) (if caps && negb (tt_none (l_tt it)) then upper l else l)
    else
      if String.eqb l "" && negb (str_in (l_shape it) ["image"; "sql_table"; "class"]) then l
      else
        let l := if caps && negb (String.eqb (l_shape it) "code")
                 then (if negb (l_latex it) && negb (tt_none (l_tt it)) then upper l else l)
                 else l in
        apply_tt (l_tt it) l.

  (* the same with the repair of coq/C28/fix.patch: the rule fires only when the user set no
     text-transform at all (`Style.TextTransform == nil` instead of `!NoneTextTransform()`) *)
  Definition set_dims_label_fixed (caps : bool) (it : litem) : string :=
    let l := l_label it in
    let unset := match l_tt it with None => true | Some _ => false end in
    if l_edge it then
      if String.eqb l "" then l
      else apply_tt (l_tt it) (if caps && unset then upper l else l)
    else
      if String.eqb l "" && negb (str_in (l_shape it) ["image"; "sql_table"; "class"]) then l
      else
        let l := if caps && negb (String.eqb (l_shape it) "code")
                 then (if negb (l_latex it) && unset then upper l else l)
                 else l in
        apply_tt (l_tt it) l.

  (* the three facts about the case mappings under which the order "CapsLock first, user's transform
     second" is harmless, at one label *)
  Definition caps_commutes_at (tt : option string) (l : string) : Prop :=
    match tt with
    | Some v =>
        (v = "uppercase" -> upper (upper l) = upper l)
        /\ (v = "lowercase" -> lower (upper l) = lower l)
        /\ (v = "capitalize" -> title (upper l) = title l)
    | None => True
    end.
  Definition caps_commutes_at_b (tt : option string) (l : string) : bool :=
    match tt with
    | Some v =>
        (negb (String.eqb v "uppercase") || String.eqb (upper (upper l)) (upper l))
        && (negb (String.eqb v "lowercase") || String.eqb (lower (upper l)) (lower l))
        && (negb (String.eqb v "capitalize") || String.eqb (title (upper l)) (title l))
    | None => true
    end.
End Label.

(* Which of the two label models Check.v ties to the code.  false = d2 before commit e14844563 (CapsLock fires
   unless text-transform is "none"); true = d2 with coq/C28/fix.patch applied (e14844563 and later). *)
Definition capslock_fix_applied : bool := true.

Definition valid_tts : list string := ["none"; "uppercase"; "lowercase"; "capitalize"].

(* oracle instance used by Check.v: finite tables of what the Go functions returned *)
Fixpoint tbl_fun (t : list (string * string)) (s : string) : string :=
  match t with
  | [] => s
  | (k, v) :: r => if String.eqb s k then v else tbl_fun r s
  end.
