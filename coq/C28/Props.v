(* C28 — Export is one-to-one and user styles override theme defaults.  Statements only.
   Model: V.C28.Model (export / to_shape / apply_styles / apply_theme / to_conn), theme catalog
   regenerated from the running code: V.Gen.C28Themes.  [th : option theme] is g.Theme (nil = None);
   the theorems hold for EVERY theme record, hence for every theme of the regenerated catalog. *)
From Coq Require Import String List ZArith Bool.
Import ListNotations.
Require Import V.C28.Theme V.Gen.C28Themes V.C28.Model V.C28.Check V.C28.Proofs.
Open Scope string_scope.

(* exactly one shape per object, carrying the object's absolute id, in the same order — any graph *)
Theorem C28_export_one_shape_per_object : forall th g d,
  export th g = Some d ->
  map (fun s => s FId) (d_shapes d) = map (fun o => VS (abs_id (o_path o))) (g_objects g).
Proof. exact export_one_shape_per_object. Qed.

(* exactly one connection per edge with the edge's id and its endpoints' absolute ids *)
Theorem C28_export_one_connection_per_edge : forall th g d,
  export th g = Some d -> map conn_key (d_conns d) = map edge_key (g_edges g).
Proof. exact export_one_connection_per_edge. Qed.

(* Export does not crash on compiled graphs (Class / SQLTable present exactly for those shapes) *)
Theorem C28_export_total : forall th g,
  Forall (fun o => wf_objb o = true) (g_objects g) -> exists d, export th g = Some d.
Proof. exact export_total. Qed.

(* every style value the user set is the exported value, for every theme of the catalog ... *)
Theorem C28_user_style_wins : forall t, In t catalog ->
  forall o s f v, wf_objb o = true -> to_shape (Some t) o = Some s ->
    In f shape_user_fields -> o_style o f = Some v -> s f = v.
Proof. intros t _ o s f v W H. exact (user_style_wins_shape (Some t) o s W H f v). Qed.

(* ... in fact for any theme record whatsoever and for g.Theme = nil *)
Theorem C28_user_style_wins_any_theme : forall th o s,
  wf_objb o = true -> to_shape th o = Some s -> style_wins shape_user_fields (o_style o) s.
Proof. exact user_style_wins_shape. Qed.

Theorem C28_user_style_wins_connection : forall th e,
  style_wins conn_user_fields (e_style e) (to_conn th e).
Proof. exact user_style_wins_conn. Qed.

(* the whole diagram: shapes, connections and the root *)
Theorem C28_export_user_style_wins : forall th g d,
  Forall (fun o => wf_objb o = true) (g_objects g) ->
  export th g = Some d ->
  Forall2 (fun o s => style_wins shape_user_fields (o_style o) s) (g_objects g) (d_shapes d)
  /\ Forall2 (fun e c => style_wins conn_user_fields (e_style e) c) (g_edges g) (d_conns d)
  /\ style_wins styles_fields (o_style (g_root g)) (d_root d).
Proof. exact export_user_style_wins. Qed.

(* the hypothesis on compiled objects is necessary for font-size: Text() adds the header increment
   by `Class != nil`, toShape removes it by `shape == "class"` *)
Theorem C28_font_size_needs_compiler_invariant :
  exists o s, to_shape None o = Some s /\ o_style o FFontSize = Some (VZ 20) /\ s FFontSize <> VZ 20.
Proof. exact font_size_needs_wf. Qed.

(* Check.v's boolean predicate is the Prop of the theorems *)
Theorem C28_checked_predicate_is_the_property : forall fs st r,
  style_wins_b fs st r = true <-> style_wins fs st r.
Proof. exact style_wins_b_spec. Qed.

(* the regenerated catalog: ids are distinct and Find returns the theme for each of them *)
Theorem C28_catalog_lookup : forall t, In t catalog ->
  find_theme light_catalog dark_catalog (t_id t) = Some t.
Proof. exact find_catalog_theme. Qed.

(* Labels.  text-transform is applied to the label in SetDimensions, after the CapsLock theme rule.
   For every label at which the case mappings commute with ToUpper (decidable, evaluated per case:
   code 4) a valid user transform gives the same label with and without the rule ... *)
Theorem C28_label_user_transform_wins : forall (upper lower title : string -> string) caps it v,
  l_tt it = Some v -> In v valid_tts ->
  caps_commutes_at upper lower title (Some v) (l_label it) ->
  set_dims_label upper lower title caps it = set_dims_label upper lower title false it.
Proof. exact label_user_transform_wins. Qed.

Theorem C28_label_hypothesis_checked_is_the_hypothesis : forall (upper lower title : string -> string) tt l,
  caps_commutes_at_b upper lower title tt l = true <-> caps_commutes_at upper lower title tt l.
Proof. exact caps_commutes_b_spec. Qed.

(* ... and the unconditional statement is refuted with Go's mappings for U+0131 (genuine defect
   C28-capslock-before-user-transform: `x: ı {style.text-transform: lowercase}` is exported as "i"
   under themes 300/301 and as "ı" under all others before that commit) *)
Theorem C28_label_user_transform_wins_refuted :
  let upper := tbl_fun [(dotless_i, "I")] in
  let lower := tbl_fun [("I", "i")] in
  let title := tbl_fun [] in
  let it := {| l_edge := false; l_label := dotless_i; l_shape := ""; l_latex := false;
               l_tt := Some "lowercase" |} in
  In "lowercase" valid_tts
  /\ set_dims_label upper lower title true it = "i"
  /\ set_dims_label upper lower title false it = dotless_i
  /\ set_dims_label upper lower title true it <> set_dims_label upper lower title false it.
Proof. exact capslock_changes_lowercased_label. Qed.

(* the repair recorded in coq/C28/fix.patch makes the statement unconditional *)
Theorem C28_label_user_transform_wins_after_fix : forall (upper lower title : string -> string) caps it v,
  l_tt it = Some v ->
  set_dims_label_fixed upper lower title caps it = set_dims_label_fixed upper lower title false it.
Proof. exact label_user_transform_wins_fixed. Qed.

Example C28_label_hyps_satisfiable :
  let id := fun s : string => s in
  caps_commutes_at id id id (Some "lowercase") "abc" /\ In "lowercase" valid_tts.
Proof. simpl. tauto. Qed.

(* non-vacuity: a compiled-looking container with a styled child exports under the first catalog theme *)
Example C28_hyps_satisfiable :
  let child := Build_obj ["a"; "b"] "class" 2 false false true false false None false false false false false
                 (sty [(FFontSize, VZ 30); (FStroke, VS "red")]) in
  let parent := Build_obj ["a"] "" 1 true true false false false None false false false false false
                 (sty [(FDoubleBorder, VB false)]) in
  let root := Build_obj [] "" 0 true true false false false None false false false false false (sty []) in
  let g := {| g_root := root; g_objects := [parent; child]; g_edges := [] |} in
  Forall (fun o => wf_objb o = true) (g_objects g)
  /\ exists t d, In t catalog /\ export (Some t) g = Some d.
Proof.
  intros child parent root g.
  assert (W : Forall (fun o => wf_objb o = true) (g_objects g)) by (repeat constructor).
  split; [exact W|].
  assert (I : exists t, In t catalog) by (eexists; vm_compute; left; reflexivity).
  destruct I as [t I]. destruct (export_total (Some t) g W) as [d Hd]. now exists t, d.
Qed.

Print Assumptions C28_export_one_shape_per_object.
Print Assumptions C28_export_one_connection_per_edge.
Print Assumptions C28_export_total.
Print Assumptions C28_user_style_wins.
Print Assumptions C28_user_style_wins_any_theme.
Print Assumptions C28_user_style_wins_connection.
Print Assumptions C28_export_user_style_wins.
Print Assumptions C28_font_size_needs_compiler_invariant.
Print Assumptions C28_checked_predicate_is_the_property.
Print Assumptions C28_catalog_lookup.
Print Assumptions C28_label_user_transform_wins.
Print Assumptions C28_label_hypothesis_checked_is_the_hypothesis.
Print Assumptions C28_label_user_transform_wins_refuted.
Print Assumptions C28_label_user_transform_wins_after_fix.
