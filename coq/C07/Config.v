(* C07 — the configuration path of the compiler, as a function on IR values.

   Modelled Go code (pinned commit of /repo):
     d2ir/compile.go      compiler.compileSubstitutions   (only its traversal: which `vars` maps get validated)
                          compiler.validateConfigs
     d2ir/d2ir.go         Map.GetField / getField, NodeBoardKind (as far as validateConfigs uses it)
     d2compiler/compile.go compileConfig, compileThemeOverrides
     strconv.ParseBool, strconv.Atoi (acceptance, value and clamping), strings.EqualFold / ToUpper /
     ToLower against ASCII words, color.ColorHexRegex, go2.Contains(color.NamedColors, _),
     d2themescatalog.Find(_) == Theme{}.
   Go nil dereferences are explicit [Crash site] results.  Two variants are kept side by side:
   [Pinned] is the code as it is, [Fixed] is the code after coq/C07/fix.patch.

   Not modelled: d2compiler.compileIR runs between the two stages and can add errors of its own
   (class 0, "other"); substitution resolution, imports, globs (the IR value handed to the model is the
   one the real d2ir.Compile produced).  Edges and the maps below them are not part of the IR value. *)
From Coq Require Import List NArith ZArith Bool.
Import ListNotations.
Require Import V.Gen.C07Tables.
Open Scope N_scope.

Definition str := list N.
Definition pos := (N * N)%type.          (* line, column as printed (1-based) *)

Fixpoint str_eqb (a b : str) : bool :=
  match a, b with
  | [], [] => true
  | x :: xs, y :: ys => (x =? y) && str_eqb xs ys
  | _, _ => false
  end.

Definition mem_str (s : str) (l : list str) : bool := existsb (str_eqb s) l.

Fixpoint assoc_n (r : N) (t : list (N * N)) : option N :=
  match t with
  | [] => None
  | (k, v) :: t' => if k =? r then Some v else assoc_n r t'
  end.

Definition is_upper (r : N) : bool := (65 <=? r) && (r <=? 90).
Definition is_lower (r : N) : bool := (97 <=? r) && (r <=? 122).
Definition is_digit (r : N) : bool := (48 <=? r) && (r <=? 57).

(* Images of a rune under simple folding / ToLower / ToUpper as far as they can be ASCII: ASCII letters,
   plus the non-ASCII runes listed in the regenerated tables.  Every other rune is left alone: its true
   image is not ASCII, so comparisons with ASCII words come out the same. *)
Definition fold_r (r : N) : N :=
  if is_upper r then r + 32 else match assoc_n r fold_extra with Some a => a | None => r end.
Definition lower_r (r : N) : N :=
  if is_upper r then r + 32 else match assoc_n r lower_extra with Some a => a | None => r end.
Definition upper_r (r : N) : N :=
  if is_lower r then r - 32 else match assoc_n r upper_extra with Some a => a | None => r end.

(* strings.EqualFold(s, w) for a lower-case ASCII word w *)
Definition equal_fold (s w : str) : bool := str_eqb (map fold_r s) w.

(* ------------------------------------------------------------------ IR values *)

Inductive ckind := KNone | KMap | KArr.
Inductive aval := AScalar (s : str) | AOther.

(* One d2ir.Field: Name.ScalarString(), Name.IsUnquoted(), Primary() (None = nil pointer) with its
   Value.ScalarString(), position of LastRef().AST(), position of LastPrimaryKey() (None = nil),
   kind of Composite, Fields of the map, Values of the array (Scalar.String() for scalars). *)
Inductive field :=
  Field (name : str) (unq : bool) (prim : option str) (pref : pos) (pkey : option pos)
        (kind : ckind) (kids : list field) (avals : list aval).

Definition fname (f : field) := let 'Field n _ _ _ _ _ _ _ := f in n.
Definition funq (f : field) := let 'Field _ u _ _ _ _ _ _ := f in u.
Definition fprim (f : field) := let 'Field _ _ p _ _ _ _ _ := f in p.
Definition fpref (f : field) := let 'Field _ _ _ p _ _ _ _ := f in p.
Definition fpkey (f : field) := let 'Field _ _ _ _ p _ _ _ := f in p.
Definition fkind (f : field) := let 'Field _ _ _ _ _ k _ _ := f in k.
Definition fkids (f : field) := let 'Field _ _ _ _ _ _ k _ := f in k.
Definition favals (f : field) := let 'Field _ _ _ _ _ _ _ a := f in a.
Definition is_map (f : field) : bool := match fkind f with KMap => true | _ => false end.

(* ------------------------------------------------------------------ words *)

Definition w_root : str := [114;111;111;116].
Definition w_vars : str := [118;97;114;115].
Definition w_d2config : str := [100;50;45;99;111;110;102;105;103].
Definition w_layers : str := [108;97;121;101;114;115].
Definition w_scenarios : str := [115;99;101;110;97;114;105;111;115].
Definition w_steps : str := [115;116;101;112;115].
Definition w_sketch : str := [115;107;101;116;99;104].
Definition w_center : str := [99;101;110;116;101;114].
Definition w_theme_id : str := [116;104;101;109;101;45;105;100].
Definition w_dark_theme_id : str := [100;97;114;107;45;116;104;101;109;101;45;105;100].
Definition w_pad : str := [112;97;100].
Definition w_layout_engine : str := [108;97;121;111;117;116;45;101;110;103;105;110;101].
Definition w_theme_overrides : str := [116;104;101;109;101;45;111;118;101;114;114;105;100;101;115].
Definition w_dark_theme_overrides : str := [100;97;114;107;45;116;104;101;109;101;45;111;118;101;114;114;105;100;101;115].
Definition w_data : str := [100;97;116;97].

(* N1..N7 B1..B6 AA2 AA4 AA5 AB4 AB5, in the order of the fields of d2target.ThemeOverrides *)
Definition theme_codes : list str :=
  [[78;49]; [78;50]; [78;51]; [78;52]; [78;53]; [78;54]; [78;55];
   [66;49]; [66;50]; [66;51]; [66;52]; [66;53]; [66;54];
   [65;65;50]; [65;65;52]; [65;65;53]; [65;66;52]; [65;66;53]].

(* ------------------------------------------------------------------ Map.GetField *)

Definition is_reserved (w : str) : bool := mem_str (map lower_r w) reserved_keywords.

(* one step of Map.getField for the query d2ast.FlatUnquotedString(w) *)
Definition name_matches (w : str) (f : field) : bool :=
  equal_fold (fname f) w && (if is_reserved w then funq f else true).

Definition get_field1 (fs : list field) (w : str) : option field := find (name_matches w) fs.

(* getField [w1; w2]: the first matching field that has a map decides *)
Fixpoint get_field2 (fs : list field) (w1 w2 : str) : option field :=
  match fs with
  | [] => None
  | f :: r => if name_matches w1 f && is_map f then get_field1 (fkids f) w2 else get_field2 r w1 w2
  end.

(* ------------------------------------------------------------------ strconv *)

Definition parse_bool (s : str) : option bool :=
  if mem_str s [[49]; [116]; [84]; [84;82;85;69]; [116;114;117;101]; [84;114;117;101]] then Some true
  else if mem_str s [[48]; [102]; [70]; [70;65;76;83;69]; [102;97;108;115;101]; [70;97;108;115;101]] then Some false
  else None.

Inductive atoi_res := AOk (z : Z) | AErr (z : Z).     (* AErr z: an error was returned together with z *)

Definition max_u64 : Z := 18446744073709551615%Z.
Definition max_i64 : Z := 9223372036854775807%Z.

(* digits left to right; None = syntax error, Some (inl v) = value, Some (inr tt) = overflowed uint64 *)
Fixpoint scan_digits (s : str) (acc : Z) : option (Z + unit) :=
  match s with
  | [] => Some (inl acc)
  | c :: r => if is_digit c
              then let acc' := (acc * 10 + Z.of_N (c - 48))%Z in
                   if (max_u64 <? acc')%Z then Some (inr tt) else scan_digits r acc'
              else None
  end.

Definition atoi (s : str) : atoi_res :=
  let '(neg, body) := match s with
                      | 45 :: r => (true, r)
                      | 43 :: r => (false, r)
                      | _ => (false, s)
                      end in
  match body with
  | [] => AErr 0
  | _ => match scan_digits body 0 with
         | None => AErr 0
         | Some (inr _) => if neg then AErr (- max_i64 - 1) else AErr max_i64
         | Some (inl v) => if neg then (if (max_i64 + 1 <? v)%Z then AErr (- max_i64 - 1) else AOk (- v))
                           else (if (max_i64 <? v)%Z then AErr max_i64 else AOk v)
         end
  end.

Definition atoi_val (s : str) : Z := match atoi s with AOk z => z | AErr z => z end.
Definition valid_theme_id (z : Z) : bool := existsb (Z.eqb z) theme_ids.

(* ------------------------------------------------------------------ colours *)

Definition is_hex (r : N) : bool :=
  is_digit r || ((97 <=? r) && (r <=? 102)) || ((65 <=? r) && (r <=? 70)).

(* ^#(([0-9a-fA-F]{2}){3}|([0-9a-fA-F]){3})$ *)
Definition hex_color (s : str) : bool :=
  match s with
  | 35 :: ds => forallb is_hex ds && ((length ds =? 3)%nat || (length ds =? 6)%nat)
  | _ => false
  end.

Definition valid_color (s : str) : bool := mem_str (map lower_r s) named_colors || hex_color s.

(* ------------------------------------------------------------------ results *)

Inductive site := SiteThemePrimary | SiteThemeErrorfKey | SiteConfigPrimary | SiteOther.

(* error classes (the harness classifies messages into the same numbers) *)
Definition EOther := 0. Definition ENeedsValue := 1. Definition EBool := 2. Definition ENeedsMap := 3.
Definition EInt := 4. Definition EThemeID := 5. Definition EInvalidConfig := 6. Definition ERootVars := 7.
Definition EThemeCode := 8. Definition EColor := 9.

(* position, class, and (for errors coming from the implementation) whether the message carried the
   position of its Range and whether that position exists in the file *)
Inductive err := MkErr (p : pos) (class : N) (has_pos in_file : bool).
Definition mk (p : pos) (c : N) : err := MkErr p c true true.

Inductive res (A : Type) := Ok (a : A) | Errs (es : list err) | Crash (s : site).
Arguments Ok {A} a. Arguments Errs {A} es. Arguments Crash {A} s.

Definition bind {A B} (r : res A) (k : A -> res B) : res B :=
  match r with Ok a => k a | Errs es => Errs es | Crash s => Crash s end.

Inductive dval := DStr (s : str) | DArr (l : list str).

Inductive config :=
  MkConfig (sketch : option bool) (theme_id dark_theme_id pad : option Z) (layout_engine : option str)
           (center : option bool) (overrides dark_overrides : option (list (option str)))
           (data : list (str * dval)).

Inductive variant := Pinned | Fixed.

(* ------------------------------------------------------------------ d2ir: validateConfigs *)

Definition is_board_name (s : str) : bool := mem_str s [w_layers; w_scenarios; w_steps].

Definition validate_field (f : field) : list err :=
  let n := fname f in
  let e c := [mk (fpref f) c] in
  let go (val : str) :=
    if str_eqb n w_sketch || str_eqb n w_center then
      match parse_bool val with Some _ => [] | None => e EBool end
    else if str_eqb n w_theme_overrides || str_eqb n w_dark_theme_overrides || str_eqb n w_data then
      if is_map f then [] else e ENeedsMap
    else if str_eqb n w_theme_id || str_eqb n w_dark_theme_id then
      match atoi val with
      | AErr _ => e EInt
      | AOk v => if valid_theme_id v then [] else e EThemeID
      end
    else if str_eqb n w_pad then
      match atoi val with AErr _ => e EInt | AOk _ => [] end
    else if str_eqb n w_layout_engine then []
    else e EInvalidConfig in
  match fprim f with
  | None =>
      if negb (str_eqb n w_theme_overrides) && negb (str_eqb n w_dark_theme_overrides) && negb (str_eqb n w_data)
      then e ENeedsValue
      else go []
  | Some v => go v
  end.

(* validateConfigs(configs); [board] = (NodeBoardKind(ParentMap(ParentMap(configs))) != "") *)
Definition validate_configs (board : bool) (configs : option field) : list err :=
  match configs with
  | None => []
  | Some c =>
      if negb (is_map c) then []
      else if negb board then [mk (fpref c) ERootVars]
      else flat_map validate_field (fkids c)
  end.

(* The traversal of compileSubstitutions: every map is entered; a field spelled exactly `vars`,
   unquoted, holding a map gets its `d2-config` validated after its own map was traversed.
   [board_m] = (NodeBoardKind(m) != "") for the map m whose field f is, [owner] = name of the field that
   owns m ("root" for the root map). *)
Fixpoint walk_field (board_m : bool) (owner : str) (f : field) {struct f} : list err :=
  match f with
  | Field name unq _ _ _ kind kids _ =>
      match kind with
      | KMap =>
          let sub := (fix go (l : list field) : list err :=
                        match l with
                        | [] => []
                        | k :: r => walk_field (is_board_name owner) name k ++ go r
                        end) kids in
          if str_eqb name w_vars && unq
          then sub ++ validate_configs board_m (get_field1 kids w_d2config)
          else sub
      | _ => []
      end
  end.

Definition walk (ir : list field) : list err := flat_map (walk_field true w_root) ir.

(* ------------------------------------------------------------------ d2compiler: compileThemeOverrides *)

Fixpoint index_of (s : str) (l : list str) (i : nat) : option nat :=
  match l with
  | [] => None
  | x :: r => if str_eqb s x then Some i else index_of s r (S i)
  end.

Fixpoint set_nth {A} (i : nat) (v : A) (l : list A) : list A :=
  match l, i with
  | [], _ => []
  | _ :: r, O => v :: r
  | x :: r, S j => x :: set_nth j v r
  end.

Definition empty_slots : list (option str) := repeat None 18.

(* position handed to d2parser.Errorf: f.LastPrimaryKey() in the pinned code (nil: Errorf dereferences
   it); the repaired code falls back to f.LastRef().AST() *)
Definition key_pos (v : variant) (f : field) : res pos :=
  match fpkey f, v with
  | Some p, _ => Ok p
  | None, Pinned => Crash SiteThemeErrorfKey
  | None, Fixed => Ok (fpref f)
  end.

Fixpoint theme_loop (v : variant) (fs : list field) (slots : list (option str)) (errs : list err)
  : res (list (option str) * list err) :=
  match fs with
  | [] => Ok (slots, errs)
  | f :: r =>
      match v, fprim f with
      | Fixed, None =>                       (* repaired: positioned error instead of the dereference *)
          bind (key_pos v f) (fun p => theme_loop v r slots (errs ++ [mk p ENeedsValue]))
      | _, _ =>
          match index_of (map upper_r (fname f)) theme_codes 0 with
          | Some i =>
              match fprim f with
              | None => Crash SiteThemePrimary
              | Some val =>
                  let slots' := set_nth i (Some val) slots in
                  if valid_color val then theme_loop v r slots' errs
                  else bind (key_pos v f) (fun p => theme_loop v r slots' (errs ++ [mk p EColor]))
              end
          | None => bind (key_pos v f) (fun p => theme_loop v r slots (errs ++ [mk p EThemeCode]))
          end
      end
  end.

(* compileThemeOverrides(f.Map()) *)
Definition theme_overrides (v : variant) (f : field) : res (option (list (option str))) :=
  if negb (is_map f) then Ok None
  else bind (theme_loop v (fkids f) empty_slots [])
            (fun '(slots, errs) =>
               match errs with
               | [] => if forallb (fun o => match o with None => true | Some _ => false end) slots
                       then Ok None else Ok (Some slots)
               | _ => Errs errs
               end).

(* ------------------------------------------------------------------ d2compiler: compileConfig *)

Definition deref (f : field) : res str :=
  match fprim f with Some s => Ok s | None => Crash SiteConfigPrimary end.

Definition opt_field {A} (cm : list field) (w : str) (k : field -> res A) : res (option A) :=
  match get_field1 cm w with
  | None => Ok None
  | Some f => bind (k f) (fun a => Ok (Some a))
  end.

Definition opt_join {A} (r : res (option (option A))) : res (option A) :=
  bind r (fun o => Ok (match o with Some x => x | None => None end)).

Fixpoint data_set (k : str) (v : dval) (l : list (str * dval)) : list (str * dval) :=
  match l with
  | [] => [(k, v)]
  | (k', v') :: r => if str_eqb k k' then (k, v) :: r else (k', v') :: data_set k v r
  end.

Definition data_of (fs : list field) : list (str * dval) :=
  fold_left (fun acc f =>
               match fprim f with
               | Some s => data_set (fname f) (DStr s) acc
               | None =>
                   match fkind f with
                   | KNone => acc
                   | KMap => data_set (fname f) (DArr []) acc
                   | KArr => data_set (fname f)
                               (DArr (flat_map (fun a => match a with AScalar s => [s] | AOther => [] end) (favals f))) acc
                   end
               end) fs [].

Definition compile_config_map (v : variant) (cm : list field) : res config :=
  bind (opt_field cm w_sketch (fun f => bind (deref f) (fun s => Ok (match parse_bool s with Some b => b | None => false end)))) (fun sketch =>
  bind (opt_field cm w_theme_id (fun f => bind (deref f) (fun s => Ok (atoi_val s)))) (fun tid =>
  bind (opt_field cm w_dark_theme_id (fun f => bind (deref f) (fun s => Ok (atoi_val s)))) (fun dtid =>
  bind (opt_field cm w_pad (fun f => bind (deref f) (fun s => Ok (atoi_val s)))) (fun pad =>
  bind (opt_field cm w_layout_engine deref) (fun le =>
  bind (opt_field cm w_center (fun f => bind (deref f) (fun s => Ok (match parse_bool s with Some b => b | None => false end)))) (fun center =>
  bind (opt_join (opt_field cm w_theme_overrides (theme_overrides v))) (fun ov =>
  bind (opt_join (opt_field cm w_dark_theme_overrides (theme_overrides v))) (fun dov =>
  let data := match get_field1 cm w_data with
              | Some f => if is_map f then data_of (fkids f) else []
              | None => []
              end in
  Ok (MkConfig sketch tid dtid pad le center ov dov data))))))))).

(* which field holds the configuration.  Pinned: ir.GetField("vars", "d2-config") (EqualFold on both
   elements).  Fixed: the `vars` element must be spelled exactly as d2ir spells it when it decides what
   to validate. *)
Definition config_field (v : variant) (ir : list field) : option field :=
  match v with
  | Pinned => get_field2 ir w_vars w_d2config
  | Fixed =>
      match get_field1 ir w_vars with
      | Some vf => if str_eqb (fname vf) w_vars && is_map vf then get_field1 (fkids vf) w_d2config else None
      | None => None
      end
  end.

Definition stage2 (v : variant) (ir : list field) : res (option config) :=
  match config_field v ir with
  | None => Ok None
  | Some c => if is_map c then bind (compile_config_map v (fkids c)) (fun cfg => Ok (Some cfg)) else Ok None
  end.

(* d2ir.Compile fails with the validation errors; otherwise d2compiler.compileConfig runs *)
Definition compile_config_with (v : variant) (ir : list field) : res (option config) :=
  match walk ir with
  | [] => stage2 v ir
  | es => Errs es
  end.

Definition compile_config := compile_config_with Fixed.
Definition compile_config_pinned := compile_config_with Pinned.

(* ------------------------------------------------------------------ the inputs on which the pinned code crashes
   (decidable; these are the known-finding signatures the harness attaches to inputs) *)

(* compileThemeOverrides dereferences f.Primary() or hands a nil key to Errorf *)
Definition theme_field_unsafe (f : field) : bool :=
  match index_of (map upper_r (fname f)) theme_codes 0 with
  | Some _ => match fprim f with
              | None => true
              | Some val => negb (valid_color val) && match fpkey f with None => true | Some _ => false end
              end
  | None => match fpkey f with None => true | Some _ => false end
  end.

Definition theme_unsafe (cm : list field) : bool :=
  existsb (fun f => (equal_fold (fname f) w_theme_overrides || equal_fold (fname f) w_dark_theme_overrides)
                    && is_map f && existsb theme_field_unsafe (fkids f)) cm.

(* the `vars` field that compileConfig finds is not spelled `vars` (so d2ir never validated below it) *)
Definition vars_spelling_unsafe (ir : list field) : bool :=
  existsb (fun f => name_matches w_vars f && negb (str_eqb (fname f) w_vars)) ir.

Definition pinned_safe (ir : list field) : bool :=
  negb (vars_spelling_unsafe ir)
  && match get_field2 ir w_vars w_d2config with
     | Some c => negb (theme_unsafe (fkids c))
     | None => true
     end.
