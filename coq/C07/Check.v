(* Executable checker for C07 cases.

   Search cases carry only the outcome class of the real d2compiler.Compile on a generated file set
   (run in a killable worker process under the time bound 50 ms + 2 ms/byte).
   Config cases carry the IR below the root map as the real d2ir.Compile built it (option: None when the
   harness could not obtain it), which variant of the code is linked (probed by the harness), and the
   outcome of the real d2compiler.Compile.

   codes:  1   model outcome (config value / error positions and classes / crash site) differs from the
               implementation's
          10   the compiler crashed (panic recovered, or the process died)
          11   an error that is not a list of d2ast.Error values / an empty error list
          12   an error without a source position (no `file:line:col:` prefix agreeing with its Range)
          13   an error position that does not exist in the named file of the file set
          14   no result within the time bound *)
From Coq Require Import List NArith ZArith Bool.
Import ListNotations.
Require Import V.Lib.RunCases.
Require Export V.C07.Config.
Open Scope N_scope.

Inductive sres := SGraph | SErrors (plain : bool) (es : list (bool * bool)) | SCrash | STimeout.
Inductive ires := IConfig (c : option config) | IErrors (es : list err) | ICrash (s : site) | ITimeout.

Inductive case :=
| Search (r : sres)
| Config (v : variant) (ir : option (list field)) (impl : ires).

(* ---- the property predicate on an outcome: Graph | Errors, every error positioned *)
Definition sres_codes (r : sres) : list N :=
  match r with
  | SGraph => []
  | SErrors plain es =>
      flag (negb plain && nonempty es) 11 ++ flag (forallb fst es) 12 ++ flag (forallb snd es) 13
  | SCrash => [10]
  | STimeout => [14]
  end.

Definition err_haspos (e : err) := let 'MkErr _ _ h _ := e in h.
Definition err_infile (e : err) := let 'MkErr _ _ _ i := e in i.
Definition err_class (e : err) := let 'MkErr _ c _ _ := e in c.
Definition err_pos (e : err) := let 'MkErr p _ _ _ := e in p.

Definition ires_codes (r : ires) : list N :=
  match r with
  | IConfig _ => []
  | IErrors es => flag (nonempty es) 11 ++ flag (forallb err_haspos es) 12 ++ flag (forallb err_infile es) 13
  | ICrash _ => [10]
  | ITimeout => [14]
  end.

(* ---- correspondence *)
Definition pos_eqb (a b : pos) : bool := (fst a =? fst b) && (snd a =? snd b).
Definition err_eqb (a b : err) : bool := pos_eqb (err_pos a) (err_pos b) && (err_class a =? err_class b).
Definition incl_b {A} (eqb : A -> A -> bool) (l1 l2 : list A) : bool :=
  forallb (fun x => existsb (eqb x) l2) l1.

Definition ostr_eqb := opt_eqb str_eqb.
Definition oz_eqb := opt_eqb Z.eqb.
Definition ob_eqb := opt_eqb Bool.eqb.
Definition slots_eqb := opt_eqb (list_eqb ostr_eqb).
Definition dval_eqb (a b : dval) : bool :=
  match a, b with
  | DStr x, DStr y => str_eqb x y
  | DArr x, DArr y => list_eqb str_eqb x y
  | _, _ => false
  end.
Definition data_eqb (a b : str * dval) : bool := str_eqb (fst a) (fst b) && dval_eqb (snd a) (snd b).

Definition config_eqb (a b : config) : bool :=
  match a, b with
  | MkConfig s1 t1 d1 p1 l1 c1 o1 do1 da1, MkConfig s2 t2 d2 p2 l2 c2 o2 do2 da2 =>
      ob_eqb s1 s2 && oz_eqb t1 t2 && oz_eqb d1 d2 && oz_eqb p1 p2 && ostr_eqb l1 l2 && ob_eqb c1 c2
      && slots_eqb o1 o2 && slots_eqb do1 do2
      && incl_b data_eqb da1 da2 && incl_b data_eqb da2 da1 && Nat.eqb (length da1) (length da2)
  end.

Definition site_eqb (a b : site) : bool :=
  match a, b with
  | SiteThemePrimary, SiteThemePrimary | SiteThemeErrorfKey, SiteThemeErrorfKey
  | SiteConfigPrimary, SiteConfigPrimary | SiteOther, SiteOther => true
  | _, _ => false
  end.

(* the un-modelled stages (parser, the rest of d2ir, d2compiler.compileIR) reported something: the model
   does not speak about this input *)
Definition has_other (es : list err) : bool := existsb (fun e => err_class e =? EOther) es.

Definition corr (v : variant) (ir : list field) (impl : ires) : bool :=
  match compile_config_with v ir, impl with
  | _, ITimeout => true                                   (* reported by code 14 *)
  | m, IErrors es =>
      if has_other es then true
      else match m with
           | Errs ms => incl_b err_eqb ms es && incl_b err_eqb es ms && Nat.eqb (length ms) (length es)
           | _ => false
           end
  | Ok c, IConfig c' => opt_eqb config_eqb c c'
  | Crash s, ICrash s' => site_eqb s s'
  | _, _ => false
  end.

Definition check_case (c : case) : list N :=
  match c with
  | Search r => sres_codes r
  | Config v ir impl =>
      match ir with Some fs => flag (corr v fs impl) 1 | None => [] end ++ ires_codes impl
  end.
