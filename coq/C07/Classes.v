(* C07 — termination of class application in d2compiler.

   Modelled Go code: the loop at the head of compiler.compileMap / compiler.compileEdgeMap
       class := m.GetField("class"); for each className: classMap := m.GetClassMap(className);
       if classMap != nil { c.compileMap(obj, classMap) }
   seen as an expansion of references (V.C14.Dfs): nodes are class names, a class "opens" when
   GetClassMap finds it, its successors are the class names its own `class` field lists.
   The pinned code expands without remembering which classes are being applied ([check = false]);
   coq/C07/fix.patch keeps the stack of classes being applied and reports a class met again
   ([check = true]); a report does not stop later applications ([stop = false]).
   Fuel is consumed by nesting depth only. *)
From Coq Require Import List NArith Bool Arith Lia.
Import ListNotations.
Require Import V.C14.Dfs V.C14.Import.
Open Scope N_scope.

(* class name -> class names applied by its body (class: c  /  class: [c1; c2]) *)
Definition classes := list (str * list str).

Fixpoint class_body (cs : classes) (n : str) : option (list str) :=
  match cs with
  | [] => None
  | (m, b) :: r => if str_eqb n m then Some b else class_body r n
  end.

Definition class_exists (cs : classes) (n : str) : bool :=
  match class_body cs n with Some _ => true | None => false end.
Definition class_succ (cs : classes) (n : str) : list str :=
  match class_body cs n with Some b => b | None => [] end.

(* an object (or connection) whose `class` field lists [ns]; None = fuel exhausted *)
Definition apply_classes (check : bool) (fuel : nat) (cs : classes) (ns : list str)
  : option (list (@event str) * bool) :=
  seq_all (visit str_eqb (class_exists cs) (class_succ cs) check false fuel []) ns false.

Lemma class_exists_in cs n : class_exists cs n = true -> In n (map fst cs).
Proof.
  unfold class_exists. induction cs as [|[m b] r IH]; simpl; [discriminate|].
  destruct (str_eqb n m) eqn:E.
  - apply str_eqb_eq in E. subst. intros _. left. reflexivity.
  - intro H. right. apply IH. exact H.
Qed.

(* repaired code: nesting depth |classes| + 1 is never exceeded, for every class table and every object *)
Theorem class_apply_terminates_fixed (cs : classes) (ns : list str) :
  apply_classes true (S (length cs)) cs ns <> None.
Proof.
  unfold apply_classes. apply seq_all_some. intros b e _.
  apply (visit_terminates str_eqb str_eqb_eq (class_exists cs) (class_succ cs) (map fst cs) (class_exists_in cs)).
  pose proof (free_le str_eqb (map fst cs) []). rewrite map_length in H. lia.
Qed.

(* pinned code: classes: {c: {class: c}}; x.class: c  exhausts every fuel *)
Definition self_class : classes := [([99], [[99]])].

Theorem class_apply_refuted_pinned :
  exists cs ns, forall fuel, apply_classes false fuel cs ns = None.
Proof.
  exists self_class, [[99]]. intro fuel. unfold apply_classes. simpl.
  rewrite (self_loop_never_finishes str_eqb (class_exists self_class) (class_succ self_class) [99]);
    [reflexivity | vm_compute; reflexivity | vm_compute; left; reflexivity].
Qed.

(* the repaired code on the same input: the class is entered once and its self-reference is reported *)
Lemma self_class_fixed :
  apply_classes true 2 self_class [[99]] = Some ([Enter [[99]]; Cycle [99] [[99]]; Leave [99]], true).
Proof. vm_compute. reflexivity. Qed.
