(* C07 — Compilation is total: a graph or positioned errors, never a crash or hang.  Statements only.

   The compiler as a whole (d2parser, d2ir, d2compiler: ~6000 lines of Go) is not modelled; for it the
   property is searched, not proved (harness/c07.go: exhaustive keyword x value-shape x context table,
   grammar-directed programs over 1-4 files, token mutations, every compile in a killable process under
   the bound 50 ms + 2 ms/byte).  Proved below, for all inputs of the modelled parts:
     - the configuration path (V.C07.Config) never dereferences a nil pointer   [repaired code]
       and does so on stated inputs                                            [pinned code: refuted]
     - import recursion terminates, for every file set of any size (V.C14)
     - class application terminates                                            [repaired code]
       and does not on a class that names itself                               [pinned code: refuted]  *)
From Coq Require Import List NArith Bool.
Require Import V.C07.Config V.C07.Proofs V.C07.Classes.
Require Import V.C14.Dfs V.C14.Import V.C14.Proofs.

(* ------------------------------------------------------------------ configuration path *)

(* full statement, holds for the repaired code (coq/C07/fix.patch): every IR value *)
Theorem C07_config_total : forall ir s, compile_config ir <> Crash s.
Proof. exact config_total_fixed. Qed.

(* the same statement for the pinned code is refuted, at three dereference sites *)
Theorem C07_config_total_refuted : exists ir s, compile_config_pinned ir = Crash s.
Proof. exact config_total_refuted_pinned. Qed.

(* vars: {d2-config: {theme-overrides: {N1: {x: y}}}}  — f.Primary().Value on a nil primary *)
Theorem C07_config_refuted_theme_primary : compile_config_pinned witness_theme_primary = Crash SiteThemePrimary.
Proof. exact refuted_theme_primary. Qed.
(* vars: {d2-config: {theme-overrides: {zz.a: b}}}  — d2parser.Errorf(f.LastPrimaryKey() = nil, ...) *)
Theorem C07_config_refuted_theme_errorf : compile_config_pinned witness_theme_errorf = Crash SiteThemeErrorfKey.
Proof. exact refuted_theme_errorf. Qed.
(* VARS: 1 {d2-config: {sketch: {a: b}}}  — compileConfig finds `VARS` by EqualFold, d2ir validated nothing *)
Theorem C07_config_refuted_config_primary : compile_config_pinned witness_config_primary = Crash SiteConfigPrimary.
Proof. exact refuted_config_primary. Qed.

(* the pinned code outside the two input signatures (decidable, attached to inputs by the harness) *)
Theorem C07_config_total_pinned_guarded :
  forall ir, pinned_safe ir = true -> forall s, compile_config_pinned ir <> Crash s.
Proof. exact config_total_pinned_guarded. Qed.

(* the regular expression and the case tables the model was written against are the ones in the code *)
Theorem C07_config_tables_pinned :
  V.Gen.C07Tables.color_hex_regex
  = (94::35::40::40::91::48::45::57::97::45::102::65::45::70::93::123::50::125::41::123::51::125::124::40::91::48::45::57::97::45::102::65::45::70::93::41::123::51::125::41::36::nil)%N
  /\ (V.Gen.C07Tables.fold_extra = ((383, 115) :: (8490, 107) :: nil)%N
      /\ V.Gen.C07Tables.lower_extra = ((304, 105) :: (8490, 107) :: nil)%N
      /\ V.Gen.C07Tables.upper_extra = ((305, 73) :: (383, 83) :: nil)%N).
Proof. exact (conj hex_regex_pinned case_tables_pinned). Qed.

(* ------------------------------------------------------------------ termination: imports *)

Theorem C07_import_recursion_terminates :
  forall (fs : fileset) (root : str) (root_imports : list imp),
    import_run true (S (length fs)) fs root root_imports <> None.
Proof. exact terminates. Qed.

Theorem C07_import_depth_bounded :
  forall (fs : fileset) (root : str) (root_imports : list imp) fuel evs errored,
    import_run true fuel fs root root_imports = Some (evs, errored) ->
    Forall (fun s => (length s <= length fs + 1)%nat) (stacks evs).
Proof. exact depth_bounded. Qed.

(* ------------------------------------------------------------------ termination: class application *)

(* repaired code: for every class table and every list of applied classes *)
Theorem C07_class_application_terminates :
  forall (cs : classes) (ns : list str), apply_classes true (S (length cs)) cs ns <> None.
Proof. exact class_apply_terminates_fixed. Qed.

(* pinned code: classes: {c: {class: c}}; x.class: c *)
Theorem C07_class_application_refuted :
  exists cs ns, forall fuel, apply_classes false fuel cs ns = None.
Proof. exact class_apply_refuted_pinned. Qed.

(* non-vacuity of the guarded theorem's hypothesis *)
Example C07_pinned_safe_satisfiable :
  pinned_safe (cons (Field w_vars true None (1,1)%N (Some (1,1)%N) KMap
                 (cons (Field w_d2config true None (1,8)%N (Some (1,8)%N) KMap
                    (cons (Field w_sketch true (Some (cons 116%N nil)) (1,20)%N (Some (1,20)%N) KNone nil nil) nil) nil) nil) nil) nil) = true.
Proof. vm_compute. reflexivity. Qed.

Print Assumptions C07_config_total.
Print Assumptions C07_config_total_refuted.
Print Assumptions C07_config_refuted_theme_primary.
Print Assumptions C07_config_refuted_theme_errorf.
Print Assumptions C07_config_refuted_config_primary.
Print Assumptions C07_config_total_pinned_guarded.
Print Assumptions C07_config_tables_pinned.
Print Assumptions C07_import_recursion_terminates.
Print Assumptions C07_import_depth_bounded.
Print Assumptions C07_class_application_terminates.
Print Assumptions C07_class_application_refuted.
