(* C07 — proofs about the configuration path model (Config.v). *)
From Coq Require Import List NArith ZArith Bool Lia.
Import ListNotations.
Require Import V.Gen.C07Tables V.C07.Config.
Open Scope N_scope.

(* ------------------------------------------------------------------ strings *)

Lemma str_eqb_eq a b : str_eqb a b = true <-> a = b.
Proof.
  revert b. induction a as [|x xs IH]; intros [|y ys]; simpl; split; intro H;
    try reflexivity; try discriminate.
  - apply andb_prop in H as [H1 H2]. apply N.eqb_eq in H1. apply IH in H2. congruence.
  - inversion H; subst. rewrite N.eqb_refl. simpl. apply IH. reflexivity.
Qed.

(* the pinned regular expression of lib/color (hex_color is written against this text) *)
Lemma hex_regex_pinned :
  color_hex_regex = [94;35;40;40;91;48;45;57;97;45;102;65;45;70;93;123;50;125;41;123;51;125;124;40;91;48;45;57;97;45;102;65;45;70;93;41;123;51;125;41;36].
Proof. vm_compute. reflexivity. Qed.

(* the tables of non-ASCII runes related to ASCII by case mapping, as the model's comments state them *)
Lemma case_tables_pinned :
  fold_extra = [(383, 115); (8490, 107)] /\ lower_extra = [(304, 105); (8490, 107)]
  /\ upper_extra = [(305, 73); (383, 83)].
Proof. vm_compute. repeat split. Qed.

Lemma vars_is_reserved : is_reserved w_vars = true.
Proof. vm_compute. reflexivity. Qed.

(* ------------------------------------------------------------------ results *)

Definition nocrash {A} (r : res A) : Prop := forall s, r <> Crash s.

Lemma nocrash_ok {A} (a : A) : nocrash (Ok a).
Proof. intros s H. discriminate. Qed.

Lemma nocrash_errs {A} es : nocrash (@Errs A es).
Proof. intros s H. discriminate. Qed.

Lemma bind_nocrash {A B} (r : res A) (k : A -> res B) :
  nocrash r -> (forall a, r = Ok a -> nocrash (k a)) -> nocrash (bind r k).
Proof.
  intros Hr Hk. destruct r as [a|es|s]; simpl.
  - apply Hk. reflexivity.
  - apply nocrash_errs.
  - exfalso. apply (Hr s). reflexivity.
Qed.

(* ------------------------------------------------------------------ lookups *)

Lemma get_field1_some fs w f : get_field1 fs w = Some f -> In f fs /\ name_matches w f = true.
Proof. unfold get_field1. apply find_some. Qed.

Lemma flat_map_nil {A B} (g : A -> list B) l x : flat_map g l = [] -> In x l -> g x = [].
Proof.
  induction l as [|y r IH]; simpl; intros H Hin; [contradiction|].
  apply app_eq_nil in H as [H1 H2]. destruct Hin as [E|Hin]; [subst; exact H1 | apply IH; assumption].
Qed.

(* ------------------------------------------------------------------ what validation guarantees *)

Definition three (n : str) : bool :=
  str_eqb n w_theme_overrides || str_eqb n w_dark_theme_overrides || str_eqb n w_data.

Lemma validate_field_prim f : validate_field f = [] -> fprim f = None -> three (fname f) = true.
Proof.
  unfold validate_field, three. intros H Hp. rewrite Hp in H.
  destruct (str_eqb (fname f) w_theme_overrides); [reflexivity|].
  destruct (str_eqb (fname f) w_dark_theme_overrides); [reflexivity|].
  destruct (str_eqb (fname f) w_data); [reflexivity|].
  simpl in H. discriminate.
Qed.

Definition scalar_key (w : str) : Prop :=
  w = w_sketch \/ w = w_theme_id \/ w = w_dark_theme_id \/ w = w_pad \/ w = w_layout_engine \/ w = w_center.

Lemma three_not_scalar n w : three n = true -> scalar_key w -> equal_fold n w = false.
Proof.
  unfold three. intros H Hw.
  apply orb_prop in H as [H|H]; [apply orb_prop in H as [H|H]|];
    apply str_eqb_eq in H; subst n;
    destruct Hw as [E|[E|[E|[E|[E|E]]]]]; subst w; vm_compute; reflexivity.
Qed.

Lemma validated_deref cm w f :
  flat_map validate_field cm = [] -> scalar_key w -> get_field1 cm w = Some f ->
  exists s, fprim f = Some s.
Proof.
  intros Hv Hw Hg. apply get_field1_some in Hg as [Hin Hm].
  destruct (fprim f) as [s|] eqn:Ep; [exists s; reflexivity|]. exfalso.
  pose proof (validate_field_prim f (flat_map_nil _ _ _ Hv Hin) Ep) as H3.
  pose proof (three_not_scalar _ _ H3 Hw) as Hf.
  unfold name_matches in Hm. rewrite Hf in Hm. discriminate.
Qed.

(* ------------------------------------------------------------------ compileThemeOverrides *)

Lemma key_pos_fixed_bind {B} f (k : pos -> res B) :
  (forall p, nocrash (k p)) -> nocrash (bind (key_pos Fixed f) k).
Proof. intro H. unfold key_pos. destruct (fpkey f); cbn [bind]; apply H. Qed.

Lemma theme_loop_fixed_nocrash fs : forall slots errs, nocrash (theme_loop Fixed fs slots errs).
Proof.
  induction fs as [|f r IH]; intros slots errs; cbn [theme_loop]; [apply nocrash_ok|].
  destruct (fprim f) as [val|] eqn:Ep.
  - destruct (index_of (map upper_r (fname f)) theme_codes 0) as [i|].
    + destruct (valid_color val); [apply IH|].
      apply key_pos_fixed_bind. intro p. apply IH.
    + apply key_pos_fixed_bind. intro p. apply IH.
  - apply key_pos_fixed_bind. intro p. apply IH.
Qed.

Lemma theme_loop_pinned_nocrash fs :
  existsb theme_field_unsafe fs = false -> forall slots errs, nocrash (theme_loop Pinned fs slots errs).
Proof.
  induction fs as [|f r IH]; intros Hs slots errs; cbn [theme_loop]; [apply nocrash_ok|].
  cbn [existsb] in Hs. apply orb_false_iff in Hs as [Hf Hr]. specialize (IH Hr).
  unfold theme_field_unsafe in Hf.
  destruct (index_of (map upper_r (fname f)) theme_codes 0) as [i|].
  - destruct (fprim f) as [val|]; [|discriminate].
    destruct (valid_color val); cbn [negb andb] in Hf.
    + apply IH.
    + unfold key_pos. destruct (fpkey f); [cbn [bind]; apply IH | discriminate].
  - unfold key_pos. destruct (fpkey f); [cbn [bind]; apply IH | discriminate].
Qed.

Lemma theme_overrides_nocrash v f :
  (v = Fixed \/ existsb theme_field_unsafe (fkids f) = false) -> nocrash (theme_overrides v f).
Proof.
  intro H. unfold theme_overrides. destruct (negb (is_map f)); [apply nocrash_ok|].
  apply bind_nocrash.
  - destruct H as [E|H]; [subst; apply theme_loop_fixed_nocrash | destruct v; [apply theme_loop_pinned_nocrash; exact H | apply theme_loop_fixed_nocrash]].
  - intros [slots errs] _. destruct errs; [|apply nocrash_errs].
    destruct (forallb _ slots); apply nocrash_ok.
Qed.

(* ------------------------------------------------------------------ compileConfig on a validated map *)

Lemma opt_field_nocrash {A} cm w (k : field -> res A) :
  (forall f, get_field1 cm w = Some f -> nocrash (k f)) -> nocrash (opt_field cm w k).
Proof.
  intro H. unfold opt_field. destruct (get_field1 cm w) as [f|]; [|apply nocrash_ok].
  apply bind_nocrash; [apply H; reflexivity | intros; apply nocrash_ok].
Qed.

Lemma opt_join_nocrash {A} (r : res (option (option A))) : nocrash r -> nocrash (opt_join r).
Proof. intro H. unfold opt_join. apply bind_nocrash; [exact H | intros; apply nocrash_ok]. Qed.

Lemma deref_bind_nocrash {A} cm w (g : str -> res A) f :
  flat_map validate_field cm = [] -> scalar_key w -> get_field1 cm w = Some f ->
  (forall s, nocrash (g s)) -> nocrash (bind (deref f) g).
Proof.
  intros Hv Hw Hg Hn. destruct (validated_deref cm w f Hv Hw Hg) as [s Hs].
  unfold deref. rewrite Hs. simpl. apply Hn.
Qed.

Definition theme_safe_for (v : variant) (cm : list field) : Prop := v = Fixed \/ theme_unsafe cm = false.

Lemma theme_safe_field v cm w f :
  theme_safe_for v cm -> (w = w_theme_overrides \/ w = w_dark_theme_overrides) ->
  get_field1 cm w = Some f -> nocrash (theme_overrides v f).
Proof.
  intros [E|Hs] Hw Hg; [apply theme_overrides_nocrash; left; exact E|].
  destruct (is_map f) eqn:Em; [|unfold theme_overrides; rewrite Em; apply nocrash_ok].
  apply theme_overrides_nocrash. right.
  apply get_field1_some in Hg as [Hin Hm].
  unfold theme_unsafe in Hs.
  destruct (existsb theme_field_unsafe (fkids f)) eqn:Ee; [|reflexivity]. exfalso.
  assert (existsb (fun f0 => (equal_fold (fname f0) w_theme_overrides || equal_fold (fname f0) w_dark_theme_overrides)
                             && is_map f0 && existsb theme_field_unsafe (fkids f0)) cm = true) as Hex.
  { apply existsb_exists. exists f. split; [exact Hin|]. rewrite Em, Ee.
    unfold name_matches in Hm. apply andb_prop in Hm as [Hm _].
    destruct Hw; subst w; rewrite Hm; rewrite ?orb_true_r; reflexivity. }
  congruence.
Qed.

Lemma compile_config_map_nocrash v cm :
  flat_map validate_field cm = [] -> theme_safe_for v cm -> nocrash (compile_config_map v cm).
Proof.
  intros Hv Ht. unfold compile_config_map.
  apply bind_nocrash; [apply opt_field_nocrash; intros f Hg;
    apply (deref_bind_nocrash cm w_sketch); try assumption; [unfold scalar_key; tauto | intros; apply nocrash_ok]|].
  intros sketch _.
  apply bind_nocrash; [apply opt_field_nocrash; intros f Hg;
    apply (deref_bind_nocrash cm w_theme_id); try assumption; [unfold scalar_key; tauto | intros; apply nocrash_ok]|].
  intros tid _.
  apply bind_nocrash; [apply opt_field_nocrash; intros f Hg;
    apply (deref_bind_nocrash cm w_dark_theme_id); try assumption; [unfold scalar_key; tauto | intros; apply nocrash_ok]|].
  intros dtid _.
  apply bind_nocrash; [apply opt_field_nocrash; intros f Hg;
    apply (deref_bind_nocrash cm w_pad); try assumption; [unfold scalar_key; tauto | intros; apply nocrash_ok]|].
  intros pad _.
  apply bind_nocrash.
  { apply opt_field_nocrash. intros f Hg.
    destruct (validated_deref cm w_layout_engine f Hv) as [s Hs]; [unfold scalar_key; tauto | exact Hg|].
    unfold deref. rewrite Hs. apply nocrash_ok. }
  intros le _.
  apply bind_nocrash; [apply opt_field_nocrash; intros f Hg;
    apply (deref_bind_nocrash cm w_center); try assumption; [unfold scalar_key; tauto | intros; apply nocrash_ok]|].
  intros center _.
  apply bind_nocrash; [apply opt_join_nocrash; apply opt_field_nocrash; intros f Hg;
    apply (theme_safe_field v cm w_theme_overrides); auto|].
  intros ov _.
  apply bind_nocrash; [apply opt_join_nocrash; apply opt_field_nocrash; intros f Hg;
    apply (theme_safe_field v cm w_dark_theme_overrides); auto|].
  intros dov _. apply nocrash_ok.
Qed.

(* ------------------------------------------------------------------ the traversal reaches the root `vars` *)

Lemma walk_field_vars board owner f :
  walk_field board owner f = [] -> str_eqb (fname f) w_vars = true -> funq f = true -> is_map f = true ->
  validate_configs board (get_field1 (fkids f) w_d2config) = [].
Proof.
  destruct f as [name unq prim pref pkey kind kids avals]. simpl.
  unfold is_map. simpl. intros H Hn Hu Hm. destruct kind; try discriminate.
  rewrite Hn, Hu in H. simpl in H. apply app_eq_nil in H as [_ H]. exact H.
Qed.

Lemma walk_root_vars ir vf :
  walk ir = [] -> In vf ir -> str_eqb (fname vf) w_vars = true -> funq vf = true -> is_map vf = true ->
  validate_configs true (get_field1 (fkids vf) w_d2config) = [].
Proof.
  intros Hw Hin. apply walk_field_vars with (owner := w_root).
  unfold walk in Hw. apply (flat_map_nil _ _ _ Hw Hin).
Qed.

Lemma validated_config_map c :
  validate_configs true (Some c) = [] -> is_map c = true -> flat_map validate_field (fkids c) = [].
Proof. unfold validate_configs. intros H Hm. rewrite Hm in H. simpl in H. exact H. Qed.

(* ------------------------------------------------------------------ totality of the repaired code *)

Theorem stage2_fixed_nocrash ir : walk ir = [] -> nocrash (stage2 Fixed ir).
Proof.
  intro Hw. unfold stage2, config_field.
  destruct (get_field1 ir w_vars) as [vf|] eqn:Eg; [|apply nocrash_ok].
  destruct (str_eqb (fname vf) w_vars) eqn:En; simpl; [|apply nocrash_ok].
  destruct (is_map vf) eqn:Em; simpl; [|apply nocrash_ok].
  destruct (get_field1 (fkids vf) w_d2config) as [c|] eqn:Ec; [|apply nocrash_ok].
  destruct (is_map c) eqn:Emc; [|apply nocrash_ok].
  apply get_field1_some in Eg as [Hin Hm].
  unfold name_matches in Hm. rewrite vars_is_reserved in Hm. apply andb_prop in Hm as [_ Hu].
  pose proof (walk_root_vars ir vf Hw Hin En Hu Em) as Hv. rewrite Ec in Hv.
  apply bind_nocrash; [|intros; apply nocrash_ok].
  apply compile_config_map_nocrash; [apply validated_config_map; assumption | left; reflexivity].
Qed.

Theorem config_total_fixed ir : nocrash (compile_config ir).
Proof.
  unfold compile_config, compile_config_with. destruct (walk ir) eqn:Ew; [|apply nocrash_errs].
  apply stage2_fixed_nocrash. exact Ew.
Qed.

(* ------------------------------------------------------------------ the pinned code, outside the two signatures *)

Lemma get_field2_some ir w1 w2 c :
  get_field2 ir w1 w2 = Some c ->
  exists f, In f ir /\ name_matches w1 f = true /\ is_map f = true /\ get_field1 (fkids f) w2 = Some c.
Proof.
  induction ir as [|f r IH]; simpl; [discriminate|].
  destruct (name_matches w1 f && is_map f) eqn:E.
  - intro H. apply andb_prop in E as [E1 E2]. exists f. repeat split; try assumption. left. reflexivity.
  - intro H. destruct (IH H) as [g [Hin Hrest]]. exists g. split; [right; exact Hin | exact Hrest].
Qed.

Theorem config_total_pinned_guarded ir : pinned_safe ir = true -> nocrash (compile_config_pinned ir).
Proof.
  intro Hs. unfold compile_config_pinned, compile_config_with.
  destruct (walk ir) eqn:Ew; [|apply nocrash_errs].
  unfold stage2, config_field. unfold pinned_safe in Hs. apply andb_prop in Hs as [Hsp Hth].
  destruct (get_field2 ir w_vars w_d2config) as [c|] eqn:Eg; [|apply nocrash_ok].
  destruct (is_map c) eqn:Emc; [|apply nocrash_ok].
  destruct (get_field2_some _ _ _ _ Eg) as [vf [Hin [Hm [Hmap Hc]]]].
  assert (En : str_eqb (fname vf) w_vars = true).
  { apply negb_true_iff in Hsp. unfold vars_spelling_unsafe in Hsp.
    destruct (str_eqb (fname vf) w_vars) eqn:E; [reflexivity|]. exfalso.
    assert (existsb (fun f => name_matches w_vars f && negb (str_eqb (fname f) w_vars)) ir = true) as Hex.
    { apply existsb_exists. exists vf. split; [exact Hin|]. rewrite Hm, E. reflexivity. }
    congruence. }
  assert (Hu : funq vf = true).
  { unfold name_matches in Hm. rewrite vars_is_reserved in Hm. apply andb_prop in Hm as [_ Hu]. exact Hu. }
  pose proof (walk_root_vars ir vf Ew Hin En Hu Hmap) as Hv. rewrite Hc in Hv.
  apply bind_nocrash; [|intros; apply nocrash_ok].
  apply compile_config_map_nocrash; [apply validated_config_map; assumption|].
  right. apply negb_true_iff in Hth. exact Hth.
Qed.

(* ------------------------------------------------------------------ refutation of totality for the pinned code *)

(* the IR values are the ones the real d2ir.Compile builds for the inputs named in the comments
   (replayed by the harness on the real code: the config corpus of harness/c07_config.go) *)

(* vars: {d2-config: {theme-overrides: {N1: {x: y}}}} *)
Definition witness_theme_primary : list field :=
  [Field w_vars true None (1,1) (Some (1,1)) KMap
     [Field w_d2config true None (1,8) (Some (1,8)) KMap
        [Field w_theme_overrides true None (1,20) (Some (1,20)) KMap
           [Field [78;49] true None (1,38) (Some (1,38)) KMap
              [Field [120] true (Some [121]) (1,43) (Some (1,43)) KNone [] []] []] []] []] []].

(* vars: {d2-config: {theme-overrides: {zz.a: b}}} *)
Definition witness_theme_errorf : list field :=
  [Field w_vars true None (1,1) (Some (1,1)) KMap
     [Field w_d2config true None (1,8) (Some (1,8)) KMap
        [Field w_theme_overrides true None (1,20) (Some (1,20)) KMap
           [Field [122;122] true None (1,38) None KMap
              [Field [97] true (Some [98]) (1,41) (Some (1,38)) KNone [] []] []] []] []] []].

(* VARS: 1 {d2-config: {sketch: {a: b}}} *)
Definition witness_config_primary : list field :=
  [Field [86;65;82;83] true (Some [49]) (1,1) (Some (1,1)) KMap
     [Field w_d2config true None (1,10) (Some (1,10)) KMap
        [Field w_sketch true None (1,22) (Some (1,22)) KMap
           [Field [97] true (Some [98]) (1,31) (Some (1,31)) KNone [] []] []] []] []].

Lemma refuted_theme_primary : compile_config_pinned witness_theme_primary = Crash SiteThemePrimary.
Proof. vm_compute. reflexivity. Qed.
Lemma refuted_theme_errorf : compile_config_pinned witness_theme_errorf = Crash SiteThemeErrorfKey.
Proof. vm_compute. reflexivity. Qed.
Lemma refuted_config_primary : compile_config_pinned witness_config_primary = Crash SiteConfigPrimary.
Proof. vm_compute. reflexivity. Qed.

Theorem config_total_refuted_pinned : exists ir s, compile_config_pinned ir = Crash s.
Proof. exists witness_theme_primary, SiteThemePrimary. exact refuted_theme_primary. Qed.

(* the repaired code on the same inputs: positioned errors / no configuration *)
Lemma fixed_on_witnesses :
  compile_config witness_theme_primary = Errs [mk (1,38) ENeedsValue]
  /\ compile_config witness_theme_errorf = Errs [mk (1,38) ENeedsValue]
  /\ compile_config witness_config_primary = Ok None.
Proof. vm_compute. repeat split. Qed.

(* ------------------------------------------------------------------ errors of the model are positioned by construction *)

Lemma pinned_safe_witness_false :
  pinned_safe witness_theme_primary = false /\ pinned_safe witness_theme_errorf = false
  /\ pinned_safe witness_config_primary = false.
Proof. vm_compute. repeat split. Qed.
