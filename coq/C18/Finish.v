(* C18 -- after the queue loop: d2near.Layout, InjectNested of every extracted graph, cross-diagram edges *)
From Coq Require Import List NArith Bool Arith Lia Permutation.
Import ListNotations.
Require Import V.Lib.RunCases V.C18.Nested V.C18.Spec V.C18.Dec V.C18.SortLemmas V.C18.Forest V.C18.Paths
        V.C18.Fill V.C18.Restore V.C18.Pieces V.C18.Inv V.C18.Extract V.C18.Queue V.C18.Steps.

Lemma extp_in g0 g cs (ext : list (okey * graph)) d :
  Forall2 (fun c pe => fst pe = path0 g0 c /\ In c (fids (g_roots g))) cs ext -> In d cs -> In d (fids (g_roots g)).
Proof. induction 1 as [|c pe cs' ext' [_ H] _ IH]; intro Hd; [contradiction|]. destruct Hd as [E|Hd]; [subst; exact H | auto]. Qed.

Lemma extp_keys g0 g cs (ext : list (okey * graph)) :
  Forall2 (fun c pe => fst pe = path0 g0 c /\ In c (fids (g_roots g))) cs ext -> map fst ext = map (path0 g0) cs.
Proof. induction 1 as [|c pe cs' ext' [H _] _ IH]; simpl; [reflexivity | rewrite H, IH; reflexivity]. Qed.

(* ---------- the order of the near graphs is irrelevant ---------- *)
Lemma inv_nears_perm g0 g ext xs nears nears' cs :
  Permutation nears nears' -> inv g0 g ext xs nears cs -> inv g0 g ext xs nears' cs.
Proof.
  intros P [I1 I2 [R [HF HP]] I4 I5 I6 I7 I8 I9 I10]. constructor; try assumption.
  - exists R. split; [exact HF|]. rewrite <- HP. apply Permutation_app_head. apply Permutation_flat_map. symmetry. exact P.
  - rewrite <- I4. apply Permutation_app_head. apply Permutation_app_head. apply Permutation_flat_map. symmetry. exact P.
  - eapply Permutation_Forall; eassumption.
  - rewrite <- I8. apply Permutation_app_head. apply Permutation_app_head. apply Permutation_app_tail.
    apply Permutation_flat_map. symmetry. exact P.
Qed.

(* ---------- d2near.Layout appends one near graph ---------- *)
Lemma inv_near_add g0 g ext xs ng nears cs :
  good g0 -> inv g0 g ext xs (ng :: nears) cs -> inv g0 (near_add g ng) ext xs nears cs.
Proof.
  intros G0 I. pose proof I as [I1 I2 [R [HF HP]] I4 [I5 I5e] I6 I7 I8 I9 I10].
  inversion I7 as [|? ? [[Pn Pe] [t [cl [Er [Ek Ec]]]]] I7']; subst.
  unfold near_roots in HP. simpl in HP. rewrite Er in HP. simpl in HP. fold (near_roots nears) in HP.
  assert (NDR : NoDup (fids (R ++ t :: near_roots nears))).
  { eapply Permutation_NoDup; [apply fids_perm; symmetry; exact HP | apply (gd_nd g0 G0)]. }
  assert (Hnot : forall d, In d cs -> ~ In d (tids t)).
  { intros d Hd Ht. apply (NoDup_fids_disj R t (near_roots nears) d NDR Ht). rewrite fids_app. apply in_app_iff. left.
    eapply fillF_ids_incl; [exact HF|]. eapply extp_in; eassumption. }
  unfold near_add. rewrite Er. simpl firstn.
  constructor; cbn [g_level g_roots g_objs g_edges].
  - exact I1.
  - exact I2.
  - exists (R ++ [t]). split.
    + apply Forall2_app; [exact HF|]. constructor; [|constructor]. apply fill_refl.
      rewrite (inv_hdom _ _ _ _ _ _ I). exact Hnot.
    + rewrite <- app_assoc. exact HP.
  - rewrite <- I4. unfold near_objs. simpl. rewrite <- !app_assoc. apply Permutation_app_head.
    rewrite (app_assoc (ext_objs ext)). rewrite (Permutation_app_swap_app (g_objs ng)). rewrite <- app_assoc. reflexivity.
  - split; cbn [g_level g_roots g_objs g_edges].
    + rewrite fids_app. simpl. rewrite app_nil_r. apply Permutation_app; [exact I5|]. rewrite Pn, Er. simpl. rewrite app_nil_r. reflexivity.
    + intros e He. rewrite nonlife_app in He. apply in_app_iff in He as [He|He].
      * destruct (I5e e He). split; apply in_app_iff; left; assumption.
      * destruct (Pe e He). split; apply in_app_iff; right; assumption.
  - exact I6.
  - exact I7'.
  - rewrite <- I8. unfold near_edges. simpl. rewrite nonlife_app, <- !app_assoc. apply Permutation_app_head.
    apply Permutation_app_swap_app.
  - exact I9.
  - eapply Forall2_impl; [|exact I10]. cbv beta. intros c pe [H1 H2]. split; [exact H1|].
    rewrite fids_app. apply in_app_iff. left. exact H2.
Qed.

Lemma inv_near_all g0 : good g0 -> forall nears g ext xs cs,
  inv g0 g ext xs nears cs -> inv g0 (fold_left near_add nears g) ext xs [] cs.
Proof.
  intro G0. induction nears as [|ng r IH]; intros g ext xs cs I; simpl; [exact I|].
  apply IH. apply inv_near_add; assumption.
Qed.

Definition in_class (c : N) (ng : graph) : bool :=
  match near_class ng with Some c' => N.eqb c' c | None => false end.

Lemma near_phase_filter nears c : forall g, near_phase nears g c = fold_left near_add (filter (in_class c) nears) g.
Proof.
  unfold near_phase. induction nears as [|ng r IH]; intro g; simpl; [reflexivity|].
  unfold in_class at 1. destruct (near_class ng) as [c'|]; [destruct (N.eqb c' c)|]; simpl; apply IH.
Qed.

Lemma near_layout_spec g nears g' :
  Forall near_piece nears -> near_layout g nears = Some g' ->
  exists nears', Permutation nears nears' /\ g' = fold_left near_add nears' g.
Proof.
  intros HP. unfold near_layout. destruct (forallb _ nears); [|discriminate]. intro E. inversion E; subst g'. clear E.
  exists (filter (in_class 0) nears ++ filter (in_class 1) nears ++ filter (in_class 2) nears). split.
  - symmetry.
    set (f := fun ng => match near_class ng with Some c => c | None => 0%N end).
    assert (Hf : forall c ng, In ng nears -> in_class c ng = N.eqb (f ng) c).
    { intros c ng Hin. rewrite Forall_forall in HP. destruct (HP ng Hin) as [_ [t [cl [Er [Ek _]]]]].
      unfold in_class, f, near_class. rewrite Er, Ek. reflexivity. }
    rewrite (filter_ext_in _ _ _ (Hf 0%N)), (filter_ext_in _ _ _ (Hf 1%N)), (filter_ext_in _ _ _ (Hf 2%N)).
    apply partition3. intros ng Hin. rewrite Forall_forall in HP. destruct (HP ng Hin) as [_ [t [cl [Er [Ek Ec]]]]].
    unfold f, near_class. rewrite Er, Ek. lia.
  - simpl. rewrite !near_phase_filter, !fold_left_app. reflexivity.
Qed.

(* ---------- InjectNested ---------- *)
Lemma tids_add_perm c K : forall t, NoDup (tids t) -> In c (tids t) ->
  Permutation (tids (upd_t c (add_kids K) t)) (tids t ++ fids K).
Proof.
  induction t as [j n k ks IH] using tree_ind'. intros ND Hc. simpl. destruct (N.eqb c j) eqn:Ec.
  - simpl. rewrite fids_app. reflexivity.
  - rewrite !tids_T in *. inversion ND as [|? ? Hj ND']; subst. destruct Hc as [Hc|Hc]; [subst; rewrite N.eqb_refl in Ec; discriminate|].
    apply in_fids in Hc as [x [Hx Hcx]]. apply in_split in Hx as [k1 [k2 Ek]]. subst ks.
    fold (upd_f c (add_kids K) (k1 ++ x :: k2)). rewrite (upd_f_split c _ k1 x k2 ND' Hcx).
    rewrite Forall_forall in IH. simpl. constructor.
    rewrite !fids_app, !fids_cons. rewrite (IH x (in_elt _ _ _) (NoDup_fids_in _ _ ND' (in_elt _ _ _)) Hcx).
    rewrite <- !app_assoc. apply Permutation_app_head. apply Permutation_app_head. apply Permutation_app_comm.
Qed.

Lemma fids_add_perm c K F : NoDup (fids F) -> In c (fids F) ->
  Permutation (fids (upd_f c (add_kids K) F)) (fids F ++ fids K).
Proof.
  intros ND Hc. apply in_fids in Hc as [x [Hx Hcx]]. apply in_split in Hx as [F1 [F2 EF]]. subst F.
  rewrite (upd_f_split c _ F1 x F2 ND Hcx). rewrite !fids_app, !fids_cons.
  rewrite (tids_add_perm c K x (NoDup_fids_in _ _ ND (in_elt _ _ _)) Hcx).
  rewrite <- !app_assoc. apply Permutation_app_head. apply Permutation_app_head. apply Permutation_app_comm.
Qed.

Lemma inv_inject_one g0 g p ng ext xs nears c cs :
  good g0 -> inv g0 g ((p, ng) :: ext) xs nears (c :: cs) -> inv g0 (inject_at c ng g) ext xs nears cs.
Proof.
  intros G0 I. pose proof I as [I1 [I2 I2l] [R [HF HP]] I4 [I5 I5e] I6 I7 I8 I9 I10].
  inversion I2 as [|? ? Hc NDcs]; subst. inversion I6 as [|? ? [Pn Pe] I6']; subst. simpl in Pn, Pe.
  inversion I10 as [|? ? ? ? [Hp HcF] I10']; subst.
  pose proof (inv_nd g0 g _ _ _ _ G0 I) as ND.
  pose proof (inv_nd_all g0 g _ _ _ _ G0 I) as NDall. unfold ext_objs in NDall. simpl in NDall. fold (ext_objs ext) in NDall.
  assert (Hdis : forall d, In d (fids (g_roots g)) -> ~ In d (fids (g_roots ng))).
  { intros d Hd Hn. apply (NoDup_app_disj _ _ d NDall).
    - eapply Permutation_in; [symmetry; exact I5 | exact Hd].
    - apply in_app_iff. left. apply in_app_iff. left. eapply Permutation_in; [symmetry; exact Pn | exact Hn]. }
  assert (PF : Permutation (fids (upd_f c (add_kids (g_roots ng)) (g_roots g))) (fids (g_roots g) ++ fids (g_roots ng))).
  { apply fids_add_perm; assumption. }
  constructor; cbn [g_level g_roots g_objs g_edges].
  - exact I1.
  - split; [exact NDcs | simpl in I2l; lia].
  - exists R. split; [|exact HP]. apply fillF_plug.
    + unfold holes_of. rewrite hdom_combine by (rewrite eroots_length; simpl in I2l; lia). exact Hc.
    + unfold holes_of. rewrite hdom_combine by (rewrite eroots_length; simpl in I2l; lia).
      intros d Hd. apply Hdis. eapply extp_in; eassumption.
    + exact HF.
  - rewrite <- I4. unfold ext_objs. simpl. rewrite <- !app_assoc. reflexivity.
  - split; unfold inject_at; cbn [g_level g_roots g_objs g_edges].
    + rewrite PF. apply Permutation_app; assumption.
    + intros e He. rewrite nonlife_app in He. apply in_app_iff in He as [He|He].
      * destruct (I5e e He). split; apply in_app_iff; left; assumption.
      * destruct (Pe e He). split; apply in_app_iff; right; assumption.
  - exact I6'.
  - exact I7.
  - rewrite <- I8. unfold ext_edges. simpl. rewrite nonlife_app, <- !app_assoc. reflexivity.
  - exact I9.
  - eapply Forall2_impl; [|exact I10']. cbv beta. intros d pe [H1 H2]. split; [exact H1|].
    eapply Permutation_in; [symmetry; exact PF | apply in_app_iff; left; exact H2].
Qed.

Lemma inject_all_inv g0 m all xs nears : good g0 -> forall todo cs g g3,
  inv g0 g todo xs nears cs ->
  Forall2 (fun c pe => lookup m (fst pe) = Some c /\ assoc_last (fst pe) all = Some (snd pe)) cs todo ->
  inject_all m all todo g = Some g3 -> inv g0 g3 [] xs nears [].
Proof.
  intro G0. induction todo as [|[p ng] r IH]; intros cs g g3 I F E.
  - inversion F; subst. simpl in E. inversion E; subst. exact I.
  - inversion F as [|c ? cs' ? [L A] F']; subst. simpl in *. rewrite L, A in E.
    eapply IH; [|exact F' | exact E]. apply inv_inject_one with (p := p); assumption.
Qed.

Lemma inject_facts_aux g0 g (all : list (okey * graph)) :
  (forall c, In c (fids (g_roots g)) -> lookup (idmap g) (path0 g0 c) = Some c) ->
  forall cs (ext : list (okey * graph)),
    Forall2 (fun c pe => fst pe = path0 g0 c /\ In c (fids (g_roots g))) cs ext ->
    (forall pe, In pe ext -> assoc_last (fst pe) all = Some (snd pe)) ->
    Forall2 (fun c pe => lookup (idmap g) (fst pe) = Some c /\ assoc_last (fst pe) all = Some (snd pe)) cs ext.
Proof.
  intros Hlk cs ext FE. induction FE as [|c pe cs' ext' [Hp Hc] _ IH]; intro Hin; constructor.
  - split; [|apply Hin; left; reflexivity]. rewrite Hp. apply Hlk. exact Hc.
  - apply IH. intros; apply Hin; right; assumption.
Qed.

Lemma inject_facts g0 g ext xs nears cs : good g0 -> inv g0 g ext xs nears cs ->
  Forall2 (fun c pe => lookup (idmap g) (fst pe) = Some c /\ assoc_last (fst pe) ext = Some (snd pe)) cs ext.
Proof.
  intros G0 I. pose proof (iv_extp _ _ _ _ _ _ I) as FE.
  assert (NDk : NoDup (map fst ext)).
  { rewrite (extp_keys _ _ _ _ FE). apply NoDup_map_inj_in; [apply (iv_cs _ _ _ _ _ _ I)|].
    intros x y Hx Hy. apply (path0_inj g0 G0); apply (inv_obj_sub g0 g _ _ _ _ I); apply (inv_obj_in g0 g _ _ _ _ I);
      eapply extp_in; eassumption. }
  apply (inject_facts_aux g0 g ext); [| exact FE |].
  - intros c Hc. apply (inv_lookup g0 g _ _ _ _ G0 I). apply (inv_obj_in g0 g _ _ _ _ I). exact Hc.
  - intros [p ng] Hpe. apply assoc_last_unique; assumption.
Qed.
