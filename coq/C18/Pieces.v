(* C18 -- facts about the pieces ExtractSubgraph produces and about the look-ups by AbsID *)
From Coq Require Import List NArith Bool Arith Lia Permutation.
Import ListNotations.
Require Import V.Lib.RunCases V.C18.Nested V.C18.Spec V.C18.Dec V.C18.SortLemmas V.C18.Forest V.C18.Paths
        V.C18.Fill V.C18.Restore.

(* ---------- found subtrees ---------- *)
Lemma find_t_NoDup i : forall t c, NoDup (tids t) -> find_t i t = Some c -> NoDup (tids c).
Proof.
  induction t as [j n k ks IH] using tree_ind'. intros c ND. simpl. destruct (N.eqb i j).
  - intro H. inversion H; subst. exact ND.
  - intro H. apply first_some_in in H as [x [Hx Ex]]. rewrite Forall_forall in IH.
    rewrite tids_T in ND. inversion ND; subst. apply (IH x Hx c); [eapply NoDup_fids_in; eassumption | exact Ex].
Qed.

Lemma find_f_NoDup i F c : NoDup (fids F) -> find_f i F = Some c -> NoDup (tids c).
Proof.
  intros ND H. apply first_some_in in H as [x [Hx Ex]]. eapply find_t_NoDup; [eapply NoDup_fids_in; eassumption | exact Ex].
Qed.

Lemma NoDup_kids c : NoDup (tids c) -> NoDup (fids (t_kids c)) /\ ~ In (t_id c) (fids (t_kids c)).
Proof. destruct c. rewrite tids_T. simpl. intro H. inversion H; auto. Qed.

(* ---------- near flags ---------- *)
Lemma no_near_unfold i n k ks : no_near_t (T i n k ks) = negb (is_some (k_near k)) && forallb no_near_t ks.
Proof. reflexivity. Qed.

Lemma no_near_find i : forall t c, no_near_t t = true -> find_t i t = Some c -> no_near_t c = true.
Proof.
  induction t as [j n k ks IH] using tree_ind'. intros c Hn. simpl. destruct (N.eqb i j).
  - intro H. inversion H; subst. exact Hn.
  - intro H. apply first_some_in in H as [x [Hx Ex]]. rewrite Forall_forall in IH.
    rewrite no_near_unfold in Hn. apply andb_true_iff in Hn as [_ Hk]. rewrite forallb_forall in Hk. eapply IH; eauto.
Qed.

Lemma no_near_root_ok t : no_near_t t = true -> root_near_ok t = true.
Proof.
  destruct t as [i n k ks]. rewrite no_near_unfold. unfold root_near_ok. simpl. intro H.
  apply andb_true_iff in H as [H1 H2]. rewrite H2. destruct (k_near k); [discriminate | reflexivity].
Qed.

(* a found node is a root, or lies below the root level where no near flag is allowed *)
Lemma root_near_find i F c : forallb root_near_ok F = true -> find_f i F = Some c ->
  (In c F \/ no_near_t c = true) /\ forallb no_near_t (t_kids c) = true.
Proof.
  intros HF H. apply first_some_in in H as [x [Hx Ex]]. rewrite forallb_forall in HF. specialize (HF x Hx).
  destruct x as [j n k ks]. simpl in Ex. destruct (N.eqb i j).
  - inversion Ex; subst. split; [left; exact Hx|]. unfold root_near_ok in HF. apply andb_true_iff in HF as [_ HF]. exact HF.
  - apply first_some_in in Ex as [y [Hy Ey]]. unfold root_near_ok in HF. apply andb_true_iff in HF as [_ HF]. simpl in HF.
    rewrite forallb_forall in HF. pose proof (no_near_find i y c (HF y Hy) Ey) as Hc. split; [right; exact Hc|].
    destruct c. rewrite no_near_unfold in Hc. apply andb_true_iff in Hc as [_ Hc]. exact Hc.
Qed.

Lemma no_near_kind t : no_near_t t = true -> k_near (t_kind t) = None.
Proof. destruct t as [i n k ks]. rewrite no_near_unfold. simpl. destruct (k_near k); [discriminate | reflexivity]. Qed.

Lemma forallb_root_ok_of_no_near F : forallb no_near_t F = true -> forallb root_near_ok F = true.
Proof. rewrite !forallb_forall. intros H x Hx. apply no_near_root_ok. auto. Qed.

Lemma forallb_perm {A} (p : A -> bool) l l' : Permutation l l' -> forallb p l = true -> forallb p l' = true.
Proof. intros P. rewrite !forallb_forall. intros H x Hx. apply H. eapply Permutation_in; [symmetry; exact P | exact Hx]. Qed.

(* ---------- filtering g.Objects ---------- *)
Lemma perm_filter_mem l s : NoDup l -> NoDup s -> incl s l -> Permutation (filter (fun i => mem i s) l) s.
Proof.
  intros Nl Ns Inc. apply NoDup_Permutation; [apply NoDup_filter; exact Nl | exact Ns|].
  intro x. rewrite filter_In, mem_In. split; [tauto | intro H; split; [apply Inc; exact H | exact H]].
Qed.

Lemma perm_filter_notmem l s r : NoDup l -> NoDup r -> (forall x, In x r <-> In x l /\ ~ In x s) ->
  Permutation (filter (fun i => negb (mem i s)) l) r.
Proof.
  intros Nl Nr H. apply NoDup_Permutation; [apply NoDup_filter; exact Nl | exact Nr|].
  intro x. rewrite filter_In, negb_true_iff, mem_false, H. tauto.
Qed.

Lemma NoDup_map_filter {A B} (f : A -> B) p l : NoDup (map f l) -> NoDup (map f (filter p l)).
Proof.
  induction l as [|x t IH]; simpl; intro H; [constructor|]. inversion H as [|? ? Hx Ht]; subst.
  destruct (p x); [|auto]. simpl. constructor; [|auto]. intro Hin. apply Hx.
  apply in_map_iff in Hin as [y [Ey Hy]]. apply filter_In in Hy as [Hy _]. rewrite <- Ey. apply in_map. exact Hy.
Qed.

(* ---------- the three classes of edges ---------- *)
Lemma cls_range nested e : cls nested e = 0%N \/ cls nested e = 1%N \/ cls nested e = 2%N.
Proof. unfold cls. destruct (e_life e), (nested (e_src e)), (nested (e_dst e)); auto. Qed.

Lemma filter_comm {A} (p q : A -> bool) l : filter p (filter q l) = filter q (filter p l).
Proof.
  induction l as [|x t IH]; simpl; [reflexivity|].
  destruct (p x) eqn:P, (q x) eqn:Q; simpl; rewrite ?P, ?Q, IH; reflexivity.
Qed.

Lemma partition3 {A} (f : A -> N) l :
  (forall x, In x l -> f x = 0%N \/ f x = 1%N \/ f x = 2%N) ->
  Permutation (filter (fun x => N.eqb (f x) 0) l ++ filter (fun x => N.eqb (f x) 1) l
               ++ filter (fun x => N.eqb (f x) 2) l) l.
Proof.
  induction l as [|x t IH]; simpl; intro H; [constructor|].
  assert (IH' := IH (fun y Hy => H y (or_intror Hy))). clear IH.
  destruct (H x (or_introl eq_refl)) as [E|[E|E]]; rewrite E; simpl.
  - constructor. exact IH'.
  - rewrite <- Permutation_middle. constructor. exact IH'.
  - rewrite app_assoc, <- Permutation_middle, <- app_assoc. constructor. exact IH'.
Qed.

Lemma nonlife_filter p es : nonlife (filter p es) = filter p (nonlife es).
Proof. apply filter_comm. Qed.

Lemma edges_partition nested es :
  Permutation (nonlife (filter (fun e => N.eqb (cls nested e) 0) es) ++ nonlife (filter (fun e => N.eqb (cls nested e) 1) es)
               ++ nonlife (filter (fun e => N.eqb (cls nested e) 2) es)) (nonlife es).
Proof. rewrite !nonlife_filter. apply partition3. intros; apply cls_range. Qed.

Lemma cls2_nonlife nested e : cls nested e = 2%N -> e_life e = false.
Proof. unfold cls. destruct (e_life e); [destruct (nested (e_src e)); discriminate | reflexivity]. Qed.

Lemma cls1_ends nested e : e_life e = false -> cls nested e = 1%N -> nested (e_src e) = true /\ nested (e_dst e) = true.
Proof. unfold cls. intros L. rewrite L. destruct (nested (e_src e)), (nested (e_dst e)); try discriminate; auto. Qed.

Lemma cls0_ends nested e : e_life e = false -> cls nested e = 0%N -> nested (e_src e) = false /\ nested (e_dst e) = false.
Proof. unfold cls. intros L. rewrite L. destruct (nested (e_src e)), (nested (e_dst e)); try discriminate; auto. Qed.

Lemma nonlife_cls2 nested es :
  nonlife (filter (fun e => N.eqb (cls nested e) 2) es) = filter (fun e => N.eqb (cls nested e) 2) es.
Proof.
  induction es as [|e t IH]; simpl; [reflexivity|]. destruct (N.eqb (cls nested e) 2) eqn:E; simpl; [|exact IH].
  apply N.eqb_eq in E. rewrite (cls2_nonlife _ _ E). simpl. rewrite IH. reflexivity.
Qed.

(* ---------- look-ups ---------- *)
Lemma lookup_unique m p i : In (p, i) m -> (forall j, In (p, j) m -> j = i) -> lookup m p = Some i.
Proof.
  induction m as [|[q j] r IH]; simpl; intros Hin Hu; [contradiction|].
  destruct (lookup r p) as [j'|] eqn:E.
  - assert (In (p, j') r).
    { clear -E. induction r as [|[q2 j2] r IH]; simpl in *; [discriminate|].
      destruct (lookup r p) eqn:E2.
      - inversion E; subst. right. apply IH. reflexivity.
      - destruct (okey_eqb p q2) eqn:E3; [|discriminate]. apply okey_eqb_eq in E3. inversion E; subst. left; reflexivity. }
    f_equal. apply Hu. right. exact H.
  - destruct Hin as [Hin|Hin].
    + inversion Hin; subst. assert (okey_eqb p p = true) by (apply okey_eqb_eq; reflexivity). rewrite H. reflexivity.
    + exfalso. assert (X : @None N = Some i) by (apply IH; [exact Hin | intros; apply Hu; right; assumption]). discriminate X.
Qed.

Lemma lookup_app m1 m2 p : lookup (m1 ++ m2) p = match lookup m2 p with Some j => Some j | None => lookup m1 p end.
Proof.
  induction m1 as [|[q i] r IH]; simpl; [destruct (lookup m2 p); reflexivity|].
  rewrite IH. destruct (lookup m2 p); reflexivity.
Qed.

Lemma assoc_last_unique p ng l : In (p, ng) l -> NoDup (map fst l) -> assoc_last p l = Some ng.
Proof.
  induction l as [|[q g'] r IH]; simpl; intros Hin ND; [contradiction|]. inversion ND as [|? ? Hq NDr]; subst.
  destruct Hin as [Hin|Hin].
  - inversion Hin; subst. destruct (assoc_last p r) eqn:E.
    + exfalso. apply Hq. clear -E. induction r as [|[q2 g2] r IH]; simpl in *; [discriminate|].
      destruct (assoc_last p r) eqn:E2; [right; apply IH; exact E|].
      destruct (okey_eqb p q2) eqn:E3; [|discriminate]. apply okey_eqb_eq in E3. left. symmetry. exact E3.
    + assert (okey_eqb p p = true) by (apply okey_eqb_eq; reflexivity). rewrite H. reflexivity.
  - rewrite (IH Hin NDr). reflexivity.
Qed.

(* the idmap of a graph whose AbsIDs are injective finds every object by its AbsID *)
Lemma lookup_idmap g (P : N -> okey) i :
  In i (g_objs g) -> (forall j, In j (g_objs g) -> absid g j = P j) ->
  (forall j, In j (g_objs g) -> P j = P i -> j = i) -> lookup (idmap g) (P i) = Some i.
Proof.
  intros Hi HP Hinj. apply lookup_unique.
  - unfold idmap. apply in_map_iff. exists i. split; [rewrite (HP i Hi); reflexivity | exact Hi].
  - intros j Hj. unfold idmap in Hj. apply in_map_iff in Hj as [j' [Ej Hj]]. inversion Ej; subst.
    apply Hinj; [exact Hj | rewrite <- (HP j Hj); assumption].
Qed.

Lemma set_near_back t : set_near (k_near (t_kind t)) (set_near None t) = t.
Proof. destruct t as [i n [nr nk d] ks]. reflexivity. Qed.

Lemma tids_set_near v t : tids (set_near v t) = tids t.
Proof. destruct t. reflexivity. Qed.

Lemma mem_map_id i F : mem i (map t_id F) = true -> exists t, In t F /\ t_id t = i.
Proof. rewrite mem_In, in_map_iff. intros [t [E H]]. eauto. Qed.
