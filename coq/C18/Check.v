(* C18 -- executable checker.  Every graph is a snapshot of a real d2graph.Graph in model terms:
     object id   = index of the object in g.Objects right after compilation (pointer identity),
     name        = interned Object.ID, kind = (constant-near class, grid/sequence),
     forest      = Root.ChildrenArray / ChildrenArray read recursively,
     objs, edges = g.Objects / g.Edges in their current order; edge id = index after compilation,
                   e_tag = interned (ArrowString, Index), e_life = d2sequence.IsLifelineEnd(Dst).
   [par] is the list (object id, id of Object.Parent or None for the root) read from the Parent POINTERS of
   the objects of the final graph (the forest is read from the ChildrenArrays), so a disagreement between
   the two is visible. *)
From Coq Require Import List NArith Bool Arith.
Import ListNotations.
Require Import V.Lib.RunCases.
Require Export V.C18.Nested V.C18.Spec.

(* what the real LayoutNested returned *)
Inductive rresult :=
| ROk
| RErrEngine      (* an error produced by a layout engine (core / d2grid / d2sequence / d2near) or the router *)
| RErrOrch        (* "could not find object ... after layout|routing" or any other error of LayoutNested itself *)
| RPanic.

Inductive case :=
(* real d2layouts.LayoutNested with the deterministic stub core layout [stub_engine DPlain]
   (d2grid.Layout and d2sequence.Layout are the real ones); [calls]: the graphs the stub was called with *)
| CStub (inf : info) (g : graph) (rr : rresult) (out : graph) (par : list (N * option N)) (calls : list graph)
(* real LayoutNested with a real engine (eng 0 = dagre, 1 = ELK) wrapped to record every call (input, output) *)
| CReal (eng : N) (inf : info) (g : graph) (rr : rresult) (out : graph) (par : list (N * option N))
        (calls : list (graph * graph))
(* d2grid.Layout / d2sequence.Layout called directly on a root-level grid / sequence graph: (input, output) *)
| CDirect (dt : dtype) (gin gout : graph).

(* the stub core layout: reverses g.Objects and g.Edges.  For the model run, the grid engine is the identity
   and the sequence engine reverses the root's ChildrenArray and appends one lifeline per child (the real
   one sorts by source line and appends one per actor): neither is visible in what is compared. *)
Definition stub_engine (dt : dtype) (g : graph) : option graph :=
  match dt with
  | DPlain => Some (mkGraph (g_level g) (g_roots g) (rev (g_objs g)) (rev (g_edges g)))
  | DGrid => Some g
  | DSeq => Some (mkGraph (g_level g) (rev (g_roots g)) (g_objs g)
                          (g_edges g ++ map (fun t => mkEdge 0 0 (t_id t) 0 true) (g_roots g)))
  end.
Definition stub_router (g : graph) (es : list edge) : bool := true.

Definition edges_eqb : list edge -> list edge -> bool := list_eqb edge_eqb.
Definition graph_eqb (a b : graph) : bool :=
  Nat.eqb (g_level a) (g_level b) && forest_eqb (g_roots a) (g_roots b)
  && list_eqb N.eqb (g_objs a) (g_objs b) && edges_eqb (nonlife (g_edges a)) (nonlife (g_edges b)).

Definition core_calls (tr : list call) : list graph :=
  flat_map (fun c => match c with CEngine DPlain g => [g] | _ => [] end) tr.

(* ---- property clauses on the implementation's output ---- *)
Definition eids (g : graph) : list N := map e_id (nonlife (g_edges g)).
Definition find_edge (i : N) (es : list edge) : option edge := find (fun e => N.eqb (e_id e) i) es.

Definition clauses (g out : graph) (par : list (N * option N)) : list N :=
  let added := negb (forallb (fun i => mem i (g_objs g)) (g_objs out)) in
  let dropped := negb (forallb (fun i => mem i (g_objs out)) (g_objs g)) in
  let dup := negb (nodup_b N.eqb (g_objs out)) in
  let reparent :=
      negb (forallb (fun i => optoptN_eqb (parent_of g i) (parent_of out i)
                              && optoptN_eqb (parent_of g i) (assoc i par))
                    (g_objs g)) in
  let kids := negb (list_eqb N.eqb (map t_id (g_roots g)) (map t_id (g_roots out))
                    && forallb (fun i => opt_eqb (list_eqb N.eqb) (kids_of g i) (kids_of out i)) (g_objs g)) in
  let endpoint :=
      negb (forallb (fun e => match find_edge (e_id e) (nonlife (g_edges out)) with
                              | Some e' => N.eqb (e_src e) (e_src e') && N.eqb (e_dst e) (e_dst e')
                              | None => true end) (nonlife (g_edges g))) in
  let eset := negb (perm_b N.eqb (eids g) (eids out)) in
  let oorder := negb (list_eqb N.eqb (g_objs g) (g_objs out)) && negb added && negb dropped && negb dup in
  let eorder := negb (list_eqb N.eqb (eids g) (eids out)) && negb eset in
  flag (negb added) 10 ++ flag (negb dropped) 11 ++ flag (negb dup) 12 ++ flag (negb reparent) 13
  ++ flag (negb kids) 14 ++ flag (negb endpoint) 15 ++ flag (negb eset) 16 ++ flag (negb oorder) 17
  ++ flag (negb eorder) 18
  ++ flag (structure_eqb out g || added || dropped || dup || reparent || kids || endpoint || eset || oorder || eorder) 19.

Definition hyps (g : graph) : list N :=
  flag (wf_b g) 2 ++ flag (absids_distinct_b g) 3 ++ flag (ekeys_distinct_b g) 4 ++ flag (nears_at_root_b g) 5.

Definition check_case (c : case) : list N :=
  match c with
  | CStub inf g rr out par calls =>
      let model := layout stub_engine stub_router inf g in
      hyps g ++
      match rr with
      | RErrEngine => []      (* an engine refused the diagram: outside C18 (C17 counts it) *)
      | ROk =>
          match model with
          | Ok (gm, tr) =>
              flag (graph_eqb gm out) 1 ++ flag (list_eqb graph_eqb (core_calls tr) calls) 1
          | _ => [1%N]
          end ++ clauses g out par
      | RErrOrch => match model with Err => [] | _ => [1%N] end ++ [20%N]
      | RPanic => match model with Crash => [] | _ => [1%N] end ++ [20%N]
      end
  | CReal eng inf g rr out par calls =>
      hyps g ++ flag (forallb (fun io => geq_b (fst io) (snd io)) calls) 6 ++
      match rr with
      | RErrEngine => []
      | ROk => clauses g out par
      | _ => [20%N]
      end
  | CDirect dt gin gout => flag (geq_b gin gout) 7
  end.
