(* C18 -- "forest with holes": the relation between the current forest of a graph, in which the contents of the
   extracted containers are missing, and the original forest. *)
From Coq Require Import List NArith Bool Arith Lia Permutation.
Import ListNotations.
Require Import V.C18.Nested V.C18.Spec V.C18.Dec V.C18.Forest V.C18.Paths.

Definition holes := list (N * list tree).
Definition hdom (E : holes) : list N := map fst E.

(* fillT E t r: r is t with every hole (i, K) of E -- a node i without kids -- given the kids K *)
Inductive fillT (E : holes) : tree -> tree -> Prop :=
| fill_hole i n k K : In (i, K) E -> fillT E (T i n k []) (T i n k K)
| fill_node i n k ks rs : ~ In i (hdom E) -> Forall2 (fillT E) ks rs -> fillT E (T i n k ks) (T i n k rs).

Lemma fillT_ind' E (P : tree -> tree -> Prop) :
  (forall i n k K, In (i, K) E -> P (T i n k []) (T i n k K)) ->
  (forall i n k ks rs, ~ In i (hdom E) -> Forall2 (fillT E) ks rs -> Forall2 P ks rs -> P (T i n k ks) (T i n k rs)) ->
  forall t r, fillT E t r -> P t r.
Proof.
  intros H1 H2. fix IH 3. intros t r H. destruct H as [i n k K Hin | i n k ks rs Hn HF].
  - apply H1; assumption.
  - apply H2; try assumption. induction HF; constructor; [apply IH; assumption | assumption].
Qed.

Notation fillF E := (Forall2 (fillT E)).

Lemma fill_same_id E t r : fillT E t r -> t_id t = t_id r /\ t_name t = t_name r /\ t_kind t = t_kind r.
Proof. destruct 1; simpl; auto. Qed.

Lemma fill_ids_incl E : forall t r, fillT E t r -> incl (tids t) (tids r).
Proof.
  intros t r H. induction H as [i n k K _ | i n k ks rs _ _ HF] using fillT_ind'.
  - intros a [Ha|[]]. left; exact Ha.
  - rewrite !tids_T. intros a [Ha|Ha]; [left; exact Ha | right].
    induction HF as [|y ry ks' rs' Hy _ IH]; [exact Ha|]. rewrite fids_cons in *. apply in_app_iff in Ha as [Ha|Ha]; apply in_app_iff; auto.
Qed.

Lemma fillF_ids_incl E F R : fillF E F R -> incl (fids F) (fids R).
Proof.
  induction 1 as [|y ry F' R' Hy _ IH]; [apply incl_refl|]. rewrite !fids_cons.
  apply incl_app_app; [eapply fill_ids_incl; eassumption | exact IH].
Qed.

Lemma fill_nohole_eq E : forall t r, fillT E t r -> (forall d, In d (hdom E) -> ~ In d (tids t)) -> t = r.
Proof.
  intros t r H0. induction H0 as [i n k K Hin | i n k ks rs _ _ HF] using fillT_ind'; intro H.
  - exfalso. apply (H i); [apply in_map_iff; exists (i, K); auto | left; reflexivity].
  - f_equal.
    assert (Hk : forall d, In d (hdom E) -> ~ In d (fids ks)).
    { intros d Hd Hi. apply (H d Hd). rewrite tids_T. right. exact Hi. }
    clear H. induction HF as [|y ry ks' rs' Hy _ IH]; [reflexivity|]. rewrite fids_cons in Hk. f_equal.
    + apply Hy. intros d Hd Hi. apply (Hk d Hd). apply in_app_iff. auto.
    + apply IH. intros d Hd Hi. apply (Hk d Hd). apply in_app_iff. auto.
Qed.

Lemma fillF_nohole_eq E F R : fillF E F R -> (forall d, In d (hdom E) -> ~ In d (fids F)) -> F = R.
Proof.
  induction 1 as [|y ry F' R' Hy _ IH]; intro H; [reflexivity|]. rewrite fids_cons in H. f_equal.
  - eapply fill_nohole_eq; [exact Hy|]. intros d Hd Hi. apply (H d Hd). apply in_app_iff. auto.
  - apply IH. intros d Hd Hi. apply (H d Hd). apply in_app_iff. auto.
Qed.

Lemma fillF_nil F R : fillF [] F R -> F = R.
Proof. intro H. eapply fillF_nohole_eq; [exact H|]. intros d []. Qed.

Lemma fill_refl E : forall t, (forall d, In d (hdom E) -> ~ In d (tids t)) -> fillT E t t.
Proof.
  induction t as [i n k ks IH] using tree_ind'. intro H. apply fill_node.
  - intro Hi. apply (H i Hi). left; reflexivity.
  - assert (Hk : forall d, In d (hdom E) -> ~ In d (fids ks)).
    { intros d Hd Hi. apply (H d Hd). rewrite tids_T. right. exact Hi. }
    clear H. induction IH as [|y ks' Hy _ IHk]; constructor; rewrite fids_cons in Hk.
    + apply Hy. intros d Hd Hi. apply (Hk d Hd). apply in_app_iff. auto.
    + apply IHk. intros d Hd Hi. apply (Hk d Hd). apply in_app_iff. auto.
Qed.

Lemma fillF_refl E F : (forall d, In d (hdom E) -> ~ In d (fids F)) -> fillF E F F.
Proof.
  induction F as [|y r IH]; intro H; constructor; rewrite fids_cons in H.
  - apply fill_refl. intros d Hd Hi. apply (H d Hd). apply in_app_iff. auto.
  - apply IH. intros d Hd Hi. apply (H d Hd). apply in_app_iff. auto.
Qed.

Lemma hdom_app E1 E2 : hdom (E1 ++ E2) = hdom E1 ++ hdom E2.
Proof. apply map_app. Qed.

Lemma fill_weaken E c K : forall t r, fillT E t r -> ~ In c (tids t) -> fillT (E ++ [(c, K)]) t r.
Proof.
  intros t r H. induction H as [i n k K' Hin | i n k ks rs Hn _ HF] using fillT_ind'; intro Hc.
  - apply fill_hole. apply in_app_iff. auto.
  - rewrite tids_T in Hc. apply fill_node.
    + rewrite hdom_app, in_app_iff. simpl. intros [H|[H|[]]]; [contradiction | subst; apply Hc; left; reflexivity].
    + assert (Hk : ~ In c (fids ks)) by (intro; apply Hc; right; assumption). clear Hc.
      induction HF as [|y ry ks' rs' Hy _ IH]; constructor; rewrite fids_cons, in_app_iff in Hk; tauto.
Qed.

Lemma fillF_weaken E c K F R : fillF E F R -> ~ In c (fids F) -> fillF (E ++ [(c, K)]) F R.
Proof.
  induction 1 as [|y ry F' R' Hy _ IH]; intro H; constructor; rewrite fids_cons, in_app_iff in H.
  - apply fill_weaken; tauto.
  - apply IH; tauto.
Qed.

(* ---- extraction: the kids of c are taken out ---- *)
Lemma fill_clear_kids E c ct ks rs :
  (forall d, In d (hdom E) -> ~ In d (tids ct)) ->
  Forall2 (fillT E) ks rs ->
  Forall2 (fun t r => NoDup (tids t) -> find_t c t = Some ct -> fillT (E ++ [(c, t_kids ct)]) (upd_t c clear_kids t) r) ks rs ->
  NoDup (fids ks) -> first_some (find_t c) ks = Some ct ->
  Forall2 (fillT (E ++ [(c, t_kids ct)])) (map (upd_t c clear_kids) ks) rs.
Proof.
  intros Hno HF HP. revert HF. induction HP as [|y ry ks' rs' Hy _ IH]; intros HF ND Hfind; [discriminate|].
  inversion HF as [|? ? ? ? Fy Fr]; subst. rewrite fids_cons in ND. cbn [map]. simpl in Hfind.
  destruct (find_t c y) as [ct'|] eqn:Ey.
  - inversion Hfind; subst ct'. constructor; [apply Hy; [eapply NoDup_app_l; exact ND | reflexivity]|].
    assert (Hc : In c (tids y)) by (apply find_t_some in Ey as [E1 E2]; subst; apply E2, tids_self).
    assert (Hn : ~ In c (fids ks')) by (intro H; eapply NoDup_app_disj; eassumption).
    fold (upd_f c clear_kids ks'). rewrite upd_f_notin by exact Hn. apply fillF_weaken; assumption.
  - apply find_t_none_inv in Ey. constructor.
    + rewrite upd_t_notin by exact Ey. apply fill_weaken; assumption.
    + apply IH; [exact Fr | eapply NoDup_app_r; exact ND | exact Hfind].
Qed.

Lemma fill_clear E c ct :
  (forall d, In d (hdom E) -> ~ In d (tids ct)) ->
  forall t r, fillT E t r -> NoDup (tids t) -> find_t c t = Some ct ->
              fillT (E ++ [(c, t_kids ct)]) (upd_t c clear_kids t) r.
Proof.
  intros Hno t r H. induction H as [i n k K Hin | i n k ks rs Hn HF HP] using fillT_ind'; intros ND Hf.
  - simpl in Hf. exfalso. destruct (N.eqb c i) eqn:Ec.
    + inversion Hf; subst. apply (Hno i); [apply in_map_iff; exists (i, K); auto | left; reflexivity].
    + discriminate.
  - simpl in Hf. simpl. destruct (N.eqb c i) eqn:Ec.
    + apply N.eqb_eq in Ec. subst i. inversion Hf; subst ct. simpl.
      assert (ks = rs).
      { eapply fillF_nohole_eq; [exact HF|]. intros d Hd Hi. apply (Hno d Hd). rewrite tids_T. right. exact Hi. }
      subst rs. apply fill_hole. apply in_app_iff. right. left. reflexivity.
    + rewrite tids_T in ND. inversion ND as [|? ? Hi ND']; subst. apply fill_node.
      * rewrite hdom_app, in_app_iff. simpl. intros [H|[H|[]]]; [contradiction|]. subst. rewrite N.eqb_refl in Ec. discriminate.
      * eapply fill_clear_kids; eassumption.
Qed.

Lemma fillF_clear E c ct F R :
  (forall d, In d (hdom E) -> ~ In d (tids ct)) ->
  fillF E F R -> NoDup (fids F) -> find_f c F = Some ct ->
  fillF (E ++ [(c, t_kids ct)]) (upd_f c clear_kids F) R.
Proof.
  intros Hno HF ND Hf. unfold upd_f. eapply fill_clear_kids; try eassumption.
  clear ND Hf. induction HF; constructor; [|assumption]. intros. apply fill_clear; assumption.
Qed.

(* ---- injection: the kids are put back ---- *)
Lemma Forall2_map_l {A B C} (P : B -> C -> Prop) (f : A -> B) l r :
  Forall2 (fun x y => P (f x) y) l r -> Forall2 P (map f l) r.
Proof. induction 1; simpl; constructor; assumption. Qed.

Lemma fill_plug E c K :
  ~ In c (hdom E) -> (forall d, In d (hdom E) -> ~ In d (fids K)) ->
  forall t r, fillT ((c, K) :: E) t r -> fillT E (upd_t c (add_kids K) t) r.
Proof.
  intros Hc HK t r H. induction H as [i n k K' Hin | i n k ks rs Hn _ HP] using fillT_ind'.
  - simpl. destruct (N.eqb c i) eqn:Ec.
    + apply N.eqb_eq in Ec. subst i. destruct Hin as [Hin|Hin].
      * inversion Hin; subst K'. simpl. apply fill_refl. intros d Hd. rewrite tids_T. intros [H|H]; [subst; contradiction | exact (HK d Hd H)].
      * exfalso. apply Hc. apply in_map_iff. exists (c, K'). auto.
    + destruct Hin as [Hin|Hin]; [inversion Hin; subst; rewrite N.eqb_refl in Ec; discriminate|].
      simpl. apply fill_hole. exact Hin.
  - simpl in Hn. simpl. destruct (N.eqb c i) eqn:Ec.
    + apply N.eqb_eq in Ec. subst. exfalso. apply Hn. left; reflexivity.
    + apply fill_node; [tauto|]. apply Forall2_map_l. exact HP.
Qed.

Lemma fillF_plug E c K F R :
  ~ In c (hdom E) -> (forall d, In d (hdom E) -> ~ In d (fids K)) ->
  fillF ((c, K) :: E) F R -> fillF E (upd_f c (add_kids K) F) R.
Proof.
  intros Hc HK HF. unfold upd_f. apply Forall2_map_l. induction HF; constructor; [|assumption].
  apply fill_plug; assumption.
Qed.

(* ---- paths of the objects that are present do not depend on the missing contents ---- *)
Lemma fill_path_kids E i ks rs :
  Forall2 (fillT E) ks rs ->
  Forall2 (fun t r => NoDup (tids r) -> In i (tids t) -> path_t i t = path_t i r) ks rs ->
  NoDup (fids rs) -> In i (fids ks) -> path_f i ks = path_f i rs.
Proof.
  intros HF HP. revert HF. induction HP as [|y ry ks' rs' Hy _ IH]; intros HF ND Hi; [contradiction|].
  inversion HF as [|? ? ? ? Fy Fr]; subst. rewrite fids_cons in *. unfold path_f. simpl.
  destruct (in_dec N.eq_dec i (tids y)) as [Hy'|Hy'].
  - rewrite <- (Hy (NoDup_app_l _ _ ND) Hy'). destruct (path_t_in i y Hy') as [p Ep]. rewrite Ep. reflexivity.
  - rewrite (path_t_none i y Hy'). apply in_app_iff in Hi as [Hi|Hi]; [contradiction|].
    assert (Hr : ~ In i (tids ry)).
    { intro H. eapply NoDup_app_disj; [exact ND | exact H | eapply fillF_ids_incl; eassumption]. }
    rewrite (path_t_none i ry Hr). apply IH; [exact Fr | eapply NoDup_app_r; exact ND | exact Hi].
Qed.

Lemma fill_path E i : forall t r, fillT E t r -> NoDup (tids r) -> In i (tids t) -> path_t i t = path_t i r.
Proof.
  intros t r H0. induction H0 as [j n k K _ | j n k ks rs _ HF HP] using fillT_ind'; intros ND Hi.
  - destruct Hi as [H|[]]. subst. rewrite !path_t_unfold, N.eqb_refl. reflexivity.
  - rewrite !path_t_unfold. destruct (N.eqb i j) eqn:Ej; [reflexivity|].
    rewrite tids_T in *. destruct Hi as [Hi|Hi]; [subst; rewrite N.eqb_refl in Ej; discriminate|].
    inversion ND; subst. rewrite (fill_path_kids E i ks rs HF HP); auto.
Qed.

Lemma fillF_path E i F R : fillF E F R -> NoDup (fids R) -> In i (fids F) -> path_f i F = path_f i R.
Proof.
  intros HF. apply (fill_path_kids E); [exact HF|]. induction HF; constructor; [|assumption]. intros; eapply fill_path; eassumption.
Qed.

(* the AbsID of an object of the current graph is its AbsID in the original graph *)
Lemma path_inv E F R Nr F0 i :
  fillF E F R -> Permutation (R ++ Nr) F0 -> NoDup (fids F0) -> In i (fids F) -> path_f i F = path_f i F0.
Proof.
  intros HF P ND Hi.
  assert (ND' : NoDup (fids (R ++ Nr))) by (eapply Permutation_NoDup; [apply fids_perm; symmetry; exact P | exact ND]).
  rewrite (fillF_path E i F R HF); [|rewrite fids_app in ND'; eapply NoDup_app_l; exact ND' | exact Hi].
  rewrite <- (path_f_perm i (R ++ Nr) F0 ND' P). symmetry. apply path_f_app_l. eapply fillF_ids_incl; eassumption.
Qed.
