(* C18 / C17 -- executable Gallina model of d2layouts.LayoutNested (d2layouts/d2layouts.go) restricted to
   STRUCTURE: which objects exist, who is whose parent, the order of every ChildrenArray, the order of
   g.Objects and g.Edges and the end points of every edge.  Geometry is not part of this model.

   Object store.  The Go code keeps Parent pointers and ChildrenArray slices; here both are represented
   once, as a forest of object records  T id name kind kids :
     id    identity of the Go object (pointer identity; "replaced pointers" keep the id),
     name  the object's local ID (an atom; AbsID = the path of names from the root of the CURRENT graph,
           exactly what Object.AbsID()/AbsIDArray() compute by walking Parent),
     kind  near class (Some 0: top/bottom-center, Some 1: center-left/right, Some 2: corners) of the near KEY,
           the key itself as a name atom, and the special diagram type (grid / sequence / none),
     kids  ChildrenArray, in order.
   A graph = root level, root ChildrenArray (the forest), g.Objects (ids, in order), g.Edges (in order).
   Un-modelled components are Section variables: [engine] (core layout = dagre/ELK/…, d2grid.Layout,
   d2sequence.Layout, selected by diagram type) and [router] (edge router for cross-diagram edges). *)
From Coq Require Import List NArith Bool Arith Lia.
Import ListNotations.
Require Import V.Lib.RunCases.

Inductive dtype := DPlain | DGrid | DSeq.
Definition dtype_eqb (a b : dtype) : bool :=
  match a, b with DPlain, DPlain | DGrid, DGrid | DSeq, DSeq => true | _, _ => false end.

(* k_near: Some class when the object's `near` key is (the name of) one of the 8 near constants, k_nkey: that key as a
   name atom (0 when there is none).  Whether such an object IS a constant near is decided during layout: see is_const. *)
Record kind := mkKind { k_near : option N; k_nkey : N; k_dt : dtype }.
Inductive tree := T (id name : N) (k : kind) (kids : list tree).
Definition t_id (t : tree) := match t with T i _ _ _ => i end.
Definition t_name (t : tree) := match t with T _ n _ _ => n end.
Definition t_kind (t : tree) := match t with T _ _ k _ => k end.
Definition t_kids (t : tree) := match t with T _ _ _ ks => ks end.

(* e_life: lifeline pseudo-edge added by the sequence layout (its Dst is a synthetic object that is in no
   graph: d2sequence.IsLifelineEnd); e_tag stands for the (arrow string, index) part of Edge.AbsID() *)
Record edge := mkEdge { e_id : N; e_tag : N; e_src : N; e_dst : N; e_life : bool }.
Record graph := mkGraph { g_level : nat; g_roots : list tree; g_objs : list N; g_edges : list edge }.
Record info := mkInfo { i_near : bool; i_dt : dtype }.

Inductive res (A : Type) := Ok (a : A) | Err | Crash | OutOfFuel.
Arguments Ok {A} a. Arguments Err {A}. Arguments Crash {A}. Arguments OutOfFuel {A}.

Definition is_some {A} (o : option A) : bool := match o with Some _ => true | None => false end.
Definition is_nil {A} (l : list A) : bool := match l with [] => true | _ => false end.

Section FirstSome.
  Context {A B : Type} (f : A -> option B).
  Fixpoint first_some (l : list A) : option B :=
    match l with
    | [] => None
    | x :: r => match f x with Some y => Some y | None => first_some r end
    end.
End FirstSome.

(* ---- forest functions (by object identity) ---- *)
Fixpoint tids (t : tree) : list N := match t with T i _ _ ks => i :: flat_map tids ks end.
Definition fids (F : list tree) : list N := flat_map tids F.

Fixpoint find_t (i : N) (t : tree) : option tree :=
  match t with T j _ _ ks => if N.eqb i j then Some t else first_some (find_t i) ks end.
Definition find_f (i : N) (F : list tree) : option tree := first_some (find_t i) F.

(* obj.f() on the object with identity i *)
Fixpoint upd_t (i : N) (f : tree -> tree) (t : tree) : tree :=
  match t with T j n k ks => if N.eqb i j then f t else T j n k (map (upd_t i f) ks) end.
Definition upd_f (i : N) (f : tree -> tree) (F : list tree) : list tree := map (upd_t i f) F.

Definition clear_kids (t : tree) : tree := match t with T j n k _ => T j n k [] end.
Definition add_kids (K : list tree) (t : tree) : tree := match t with T j n k ks => T j n k (ks ++ K) end.
Definition set_near (v : option N) (t : tree) : tree :=
  match t with T j n k ks => T j n (mkKind v (k_nkey k) (k_dt k)) ks end.

(* container.Parent.RemoveChild(container): drop the child with identity i from its parent's array *)
Fixpoint rem_t (i : N) (t : tree) : tree :=
  match t with
  | T j n k ks => T j n k (flat_map (fun c => if N.eqb (t_id c) i then [] else [rem_t i c]) ks)
  end.
Definition rem_f (i : N) (F : list tree) : list tree :=
  flat_map (fun c => if N.eqb (t_id c) i then [] else [rem_t i c]) F.

(* Object.AbsIDArray(): names from the root of the current graph down to the object *)
Fixpoint path_t (i : N) (t : tree) : option (list N) :=
  match t with
  | T j n _ ks => if N.eqb i j then Some [n] else option_map (cons n) (first_some (path_t i) ks)
  end.
Definition path_f (i : N) (F : list tree) : option (list N) := first_some (path_t i) F.

Definition okey := option (list N).
Definition okey_eqb : okey -> okey -> bool := opt_eqb (list_eqb N.eqb).
Definition ekey := (okey * okey * N)%type.
Definition ekey_eqb (a b : ekey) : bool :=
  okey_eqb (fst (fst a)) (fst (fst b)) && okey_eqb (snd (fst a)) (snd (fst b)) && N.eqb (snd a) (snd b).

Definition absid (g : graph) (i : N) : okey := path_f i (g_roots g).
Definition ekey_of (g : graph) (e : edge) : ekey :=
  (absid g (e_src e), if e_life e then None else absid g (e_dst e), e_tag e).

Definition nonlife (es : list edge) : list edge := filter (fun e => negb (e_life e)) es.

(* ---- SaveOrder / restoreOrder ---- *)
(* objectOrder[absID] = i in a loop: the LAST index wins *)
Section LastIdx.
  Context {A : Type} (eqb : A -> A -> bool).
  Fixpoint last_idx (k : A) (l : list A) : option nat :=
    match l with
    | [] => None
    | x :: r => match last_idx k r with
                | Some j => Some (S j)
                | None => if eqb k x then Some 0 else None
                end
    end.
End LastIdx.

(* sort.SliceStable = the stable sort; insertion sort is its specification *)
Section Sort.
  Context {A : Type} (r : A -> nat).
  Fixpoint insert_by (x : A) (l : list A) : list A :=
    match l with
    | [] => [x]
    | y :: t => if r x <=? r y then x :: l else y :: insert_by x t
    end.
  Definition sort_by (l : list A) : list A := fold_right insert_by [] l.
End Sort.

Record saved := mkSaved { sv_objs : list okey; sv_edges : list ekey; sv_roots : list okey }.

Definition save_order (g : graph) : saved :=
  mkSaved (map (absid g) (g_objs g)) (map (ekey_of g) (g_edges g))
          (map (fun t => absid g (t_id t)) (g_roots g)).

(* a Go map read of a missing key yields 0 *)
Definition rank0 (o : option nat) : nat := match o with Some i => i | None => 0 end.

Definition rank_obj (sv : saved) (g : graph) (i : N) : nat := rank0 (last_idx okey_eqb (absid g i) (sv_objs sv)).
Definition rank_root (sv : saved) (g : graph) (t : tree) : nat :=
  rank0 (last_idx okey_eqb (absid g (t_id t)) (sv_roots sv)).
(* edges: "iHas && jHas -> index order, else iHas": unknown edges go last, in their current order *)
Definition rank_edge (sv : saved) (g : graph) (e : edge) : nat :=
  match last_idx ekey_eqb (ekey_of g e) (sv_edges sv) with Some i => i | None => length (sv_edges sv) end.

Definition restore (sv : saved) (g : graph) : graph :=
  mkGraph (g_level g) (sort_by (rank_root sv g) (g_roots g)) (sort_by (rank_obj sv g) (g_objs g))
          (sort_by (rank_edge sv g) (g_edges g)).

(* ---- ExtractSubgraph ---- *)
Definition mem (i : N) (l : list N) : bool := existsb (N.eqb i) l.

Record xedge := mkX { x_e : edge; x_src : okey; x_dst : okey }.

(* 0 stays, 1 goes into the nested graph, 2 is external (crosses the boundary) *)
Definition cls (nested : N -> bool) (e : edge) : N :=
  if e_life e then (if nested (e_src e) then 1 else 0)%N
  else match nested (e_src e), nested (e_dst e) with
       | true, true => 1%N
       | false, false => 0%N
       | _, _ => 2%N
       end.

Definition ex_nids (c : tree) (self : bool) : list N := if self then tids c else fids (t_kids c).
Definition ex_in (c : tree) (self : bool) (i : N) : bool := mem i (ex_nids c self).

Definition depth_of (g : graph) (i : N) : nat := match absid g i with Some p => length p | None => 0 end.

Definition ex_ng (c : tree) (self : bool) (g : graph) : graph :=
  mkGraph (g_level g + depth_of g (t_id c) - (if self then 1 else 0))
          (if self then [c] else t_kids c)
          (filter (ex_in c self) (g_objs g))
          (filter (fun e => N.eqb (cls (ex_in c self) e) 1) (g_edges g)).

Definition ex_rem (c : tree) (self : bool) (g : graph) : graph :=
  mkGraph (g_level g)
          (if self then rem_f (t_id c) (g_roots g) else upd_f (t_id c) clear_kids (g_roots g))
          (filter (fun i => negb (ex_in c self i)) (g_objs g))
          (filter (fun e => N.eqb (cls (ex_in c self) e) 0) (g_edges g)).

Definition ex_xs (c : tree) (self : bool) (g : graph) : list xedge :=
  map (fun e => mkX e (absid g (e_src e)) (absid g (e_dst e)))
      (filter (fun e => N.eqb (cls (ex_in c self) e) 2) (g_edges g)).

(* ---- look-ups by AbsID (idToObj maps; later entries overwrite earlier ones) ---- *)
Definition idmap (g : graph) : list (okey * N) := map (fun i => (absid g i, i)) (g_objs g).

Fixpoint lookup (m : list (okey * N)) (p : okey) : option N :=
  match m with
  | [] => None
  | (q, i) :: r => match lookup r p with
                   | Some j => Some j
                   | None => if okey_eqb p q then Some i else None
                   end
  end.

Definition relink1 (m : list (okey * N)) (x : xedge) : option edge :=
  match lookup m (x_src x), lookup m (x_dst x) with
  | Some s, Some d => Some (mkEdge (e_id (x_e x)) (e_tag (x_e x)) s d (e_life (x_e x)))
  | _, _ => None
  end.

Fixpoint relink (m : list (okey * N)) (xs : list xedge) : option (list edge) :=
  match xs with
  | [] => Some []
  | x :: r => match relink1 m x, relink m r with
              | Some e, Some es => Some (e :: es)
              | _, _ => None
              end
  end.

Definition add_edges (g : graph) (es : list edge) : graph :=
  mkGraph (g_level g) (g_roots g) (g_objs g) (g_edges g ++ es).

(* InjectNested(container, nested, _) *)
Definition inject_at (cid : N) (ng g : graph) : graph :=
  mkGraph (g_level g) (upd_f cid (add_kids (g_roots ng)) (g_roots g)) (g_objs g ++ g_objs ng)
          (g_edges g ++ g_edges ng).
(* InjectNested(g.Root, nested, false) *)
Definition inject_root (ng g : graph) : graph :=
  mkGraph (g_level g) (g_roots g ++ g_roots ng) (g_objs g ++ g_objs ng) (g_edges g ++ g_edges ng).

(* extracted[id] = nestedGraph : a Go map, the last write wins *)
Fixpoint assoc_last (p : okey) (l : list (okey * graph)) : option graph :=
  match l with
  | [] => None
  | (q, ng) :: r => match assoc_last p r with
                    | Some x => Some x
                    | None => if okey_eqb p q then Some ng else None
                    end
  end.

(* ---- d2near.Layout, structure part ---- *)
Definition near_class (ng : graph) : option N :=
  match g_roots ng with [] => None | h :: _ => k_near (t_kind h) end.
Definition near_add (g ng : graph) : graph :=
  mkGraph (g_level g) (g_roots g ++ firstn 1 (g_roots ng)) (g_objs g ++ g_objs ng) (g_edges g ++ g_edges ng).
Definition near_phase (nears : list graph) (g : graph) (c : N) : graph :=
  fold_left (fun a ng => match near_class ng with
                         | Some c' => if N.eqb c' c then near_add a ng else a
                         | None => a end) nears g.
Definition near_layout (g : graph) (nears : list graph) : option graph :=
  if forallb (fun ng => is_some (near_class ng)) nears
  then Some (fold_left (near_phase nears) [0%N; 1%N; 2%N] g)
  else None.   (* ChildrenArray[0] of an empty array / Key(nil): panic *)

Inductive call := CEngine (dt : dtype) (g : graph) | CRouter (ids : list N).

Definition default_info := mkInfo false DPlain.
Definition is_default (gi : info) : bool := negb (i_near gi) && dtype_eqb (i_dt gi) DPlain.
(* Object.IsConstantNear(): NearKey != nil, the key is a near constant, and -- evaluated when it is asked, on the
   graph the object is in at that moment -- the root has no child of that name *)
Definition is_const (g : graph) (c : tree) : bool :=
  is_some (k_near (t_kind c)) && negb (existsb (fun t => N.eqb (t_name t) (k_nkey (t_kind c))) (g_roots g)).
(* NestedGraphInfo *)
Definition nested_info (g : graph) (c : tree) : info :=
  mkInfo (Nat.eqb (g_level g) 0 && is_const g c) (k_dt (t_kind c)).
Definition is_cell (inf : info) (g : graph) (c : tree) : bool :=
  dtype_eqb (i_dt inf) DGrid && negb (is_nil (t_kids c)) && mem (t_id c) (map t_id (g_roots g)).
Definition set_roots (g : graph) (F : list tree) : graph := mkGraph (g_level g) F (g_objs g) (g_edges g).
Definition map_head {A} (f : A -> A) (l : list A) : list A := match l with [] => [] | h :: r => f h :: r end.

Record st := mkSt { s_g : graph; s_ext : list (okey * graph); s_x : list xedge;
                    s_nears : list graph; s_tr : list call }.

Section Layout.
  Variable engine : dtype -> graph -> option graph.     (* None: the layout returned an error *)
  Variable router : graph -> list edge -> bool.         (* false: the router returned an error *)

  Section Loop.
    Variable rec : info -> graph -> res (graph * list call).   (* LayoutNested on a nested graph *)
    Variable sv : saved.
    Variable inf : info.

    (* grid cell that is an ordinary container *)
    Definition step_cell (c : tree) (s : st) : res (st * list N) :=
      let g := s_g s in
      let id : okey := Some [t_name c] in
      match rec default_info (ex_ng c true g) with
      | Ok (ng', tr) =>
          let g2 := inject_root ng' (ex_rem c true g) in
          let xe := ex_xs c true g in
          let g4 := restore sv (add_edges g2 (map x_e xe)) in
          let m := idmap g4 in
          match lookup m id with
          | None => Err
          | Some cid' =>
              match relink m xe with
              | None => Err
              | Some es =>
                  let g5 := restore sv (add_edges g2 es) in
                  match find_f cid' (g_roots g5) with
                  | None => Crash
                  | Some c' =>
                      Ok (mkSt (ex_rem c' false g5) (s_ext s ++ [(id, ex_ng c' false g5)])
                               (s_x s ++ ex_xs c' false g5) (s_nears s) (s_tr s ++ tr), [])
                  end
              end
          end
      | Err => Err | Crash => Crash | OutOfFuel => OutOfFuel
      end.

    (* grid / sequence diagram / constant near *)
    Definition step_special (c : tree) (gi : info) (s : st) : res (st * list N) :=
      let g := s_g s in
      let near := i_near gi in
      let ng0 := ex_ng c near g in
      let ng_in := if near then set_roots ng0 (map_head (set_near None) (g_roots ng0)) else ng0 in
      let g1 := ex_rem c near g in
      match rec (if near then default_info else gi) ng_in with
      | Ok (ng', tr) =>
          if near then
            match g_roots ng' with
            | [] => Crash
            | h :: r =>
                Ok (mkSt g1 (s_ext s) (s_x s ++ ex_xs c near g)
                         (s_nears s ++ [set_roots ng' (set_near (k_near (t_kind c)) h :: r)])
                         (s_tr s ++ tr), [])
            end
          else
            Ok (mkSt g1 (s_ext s ++ [(absid g1 (t_id c), ng')]) (s_x s ++ ex_xs c near g)
                     (s_nears s) (s_tr s ++ tr), [])
      | Err => Err | Crash => Crash | OutOfFuel => OutOfFuel
      end.

    Definition step (cid : N) (s : st) : res (st * list N) :=
      match find_f cid (g_roots (s_g s)) with
      | None => Crash
      | Some c =>
          let gi := nested_info (s_g s) c in
          if is_cell inf (s_g s) c && is_default gi then step_cell c s
          else if negb (is_default gi) then
                 (if negb (i_near gi) && is_nil (t_kids c) then Ok (s, []) else step_special c gi s)
               else Ok (s, map t_id (t_kids c))
      end.

    Fixpoint loop (qf : nat) (queue : list N) (s : st) : res st :=
      match queue with
      | [] => Ok s
      | cid :: q =>
          match qf with
          | O => OutOfFuel
          | S qf' =>
              match step cid s with
              | Ok (s', more) => loop qf' (q ++ more) s'
              | Err => Err | Crash => Crash | OutOfFuel => OutOfFuel
              end
          end
      end.
  End Loop.

  Fixpoint inject_all (m : list (okey * N)) (all todo : list (okey * graph)) (g : graph) : option graph :=
    match todo with
    | [] => Some g
    | (p, _) :: r =>
        match lookup m p, assoc_last p all with
        | Some cid, Some ng => inject_all m all r (inject_at cid ng g)
        | _, _ => None            (* "could not find object %#v after layout" *)
        end
    end.

  Definition finish (sv : saved) (inf : info) (s : st) : res (graph * list call) :=
    let g := s_g s in
    let run := negb (is_nil (g_objs g)) in
    match (if run then engine (i_dt inf) g else Some g) with
    | None => Err
    | Some g1 =>
        let tr1 := if run then s_tr s ++ [CEngine (i_dt inf) g] else s_tr s in
        match (if is_nil (s_nears s) then Some g1 else near_layout g1 (s_nears s)) with
        | None => Crash
        | Some g2 =>
            let m := idmap g2 in
            match inject_all m (s_ext s) (s_ext s) g2 with
            | None => Err
            | Some g3 =>
                if is_nil (s_x s) then Ok (restore sv g3, tr1)
                else match relink (m ++ idmap g3) (s_x s) with
                     | None => Err
                     | Some es =>
                         let g4 := add_edges g3 es in
                         if router g4 es then Ok (restore sv g4, tr1 ++ [CRouter (map e_id es)])
                         else Err
                     end
            end
        end
    end.

  Fixpoint layout_nested (fuel : nat) (inf : info) (g : graph) : res (graph * list call) :=
    match fuel with
    | O => OutOfFuel
    | S f =>
        let sv := save_order g in
        match loop (layout_nested f) sv inf (length (fids (g_roots g))) (map t_id (g_roots g))
                   (mkSt g [] [] [] []) with
        | Ok s => finish sv inf s
        | Err => Err | Crash => Crash | OutOfFuel => OutOfFuel
        end
    end.

  Definition fuel_for (g : graph) : nat := 3 * length (g_objs g) + 3.
  Definition layout (inf : info) (g : graph) : res (graph * list call) := layout_nested (fuel_for g) inf g.
End Layout.

(* ---- the observable: structure ---- *)
Fixpoint parents_t (p : option N) (t : tree) : list (N * option N) :=
  match t with T i _ _ ks => (i, p) :: flat_map (parents_t (Some i)) ks end.
Fixpoint kids_t (t : tree) : list (N * list N) :=
  match t with T i _ _ ks => (i, map t_id ks) :: flat_map kids_t ks end.

Fixpoint assoc {B} (i : N) (l : list (N * B)) : option B :=
  match l with [] => None | (j, b) :: r => if N.eqb i j then Some b else assoc i r end.

Definition parent_of (g : graph) (i : N) : option (option N) := assoc i (flat_map (parents_t None) (g_roots g)).
Definition kids_of (g : graph) (i : N) : option (list N) := assoc i (flat_map kids_t (g_roots g)).

Definition structure (g : graph) :=
  (map (fun i => (i, parent_of g i)) (g_objs g),                         (* ordered objects with parent ids *)
   (map t_id (g_roots g), map (fun i => (i, kids_of g i)) (g_objs g)),   (* ordered children arrays *)
   map (fun e => (e_id e, e_src e, e_dst e)) (nonlife (g_edges g))).     (* ordered edges with end points *)
