(* C18 -- the loop invariant of LayoutNested: the current graph, the extracted nested graphs, the constant-near
   graphs and the cross-diagram edges together are exactly the original graph. *)
From Coq Require Import List NArith Bool Arith Lia Permutation.
Import ListNotations.
Require Import V.Lib.RunCases V.C18.Nested V.C18.Spec V.C18.Dec V.C18.SortLemmas V.C18.Forest V.C18.Paths
        V.C18.Fill V.C18.Restore V.C18.Pieces.

Definition eroots (ext : list (okey * graph)) : list (list tree) := map (fun pe => g_roots (snd pe)) ext.
Definition holes_of (cs : list N) (ext : list (okey * graph)) : holes := combine cs (eroots ext).
Definition ext_objs (ext : list (okey * graph)) : list N := flat_map (fun pe => g_objs (snd pe)) ext.
Definition ext_edges (ext : list (okey * graph)) : list edge := flat_map (fun pe => nonlife (g_edges (snd pe))) ext.
Definition near_objs (ns : list graph) : list N := flat_map g_objs ns.
Definition near_edges (ns : list graph) : list edge := flat_map (fun ng => nonlife (g_edges ng)) ns.
Definition near_roots (ns : list graph) : list tree := flat_map g_roots ns.
Definition path0 (g0 : graph) (i : N) : okey := path_f i (g_roots g0).

Definition piece_ok (g : graph) : Prop :=
  Permutation (g_objs g) (fids (g_roots g)) /\
  (forall e, In e (nonlife (g_edges g)) -> In (e_src e) (g_objs g) /\ In (e_dst e) (g_objs g)).
Definition near_f (g : graph) : Prop := forallb root_near_ok (g_roots g) = true.
Definition near_piece (ng : graph) : Prop :=
  piece_ok ng /\ exists t c, g_roots ng = [t] /\ k_near (t_kind t) = Some c /\ (c < 3)%N.
Definition x_ok (g0 : graph) (x : xedge) : Prop :=
  e_life (x_e x) = false /\ x_src x = path0 g0 (e_src (x_e x)) /\ x_dst x = path0 g0 (e_dst (x_e x)).

Record inv (g0 g : graph) (ext : list (okey * graph)) (xs : list xedge) (nears : list graph) (cs : list N) : Prop :=
  mkInv {
  iv_level : g_level g = g_level g0;
  iv_cs : NoDup cs /\ length cs = length ext;
  iv_forest : exists R, fillF (holes_of cs ext) (g_roots g) R /\ Permutation (R ++ near_roots nears) (g_roots g0);
  iv_objs : Permutation (g_objs g ++ ext_objs ext ++ near_objs nears) (g_objs g0);
  iv_piece : piece_ok g;
  iv_piece_ext : Forall (fun pe => piece_ok (snd pe)) ext;
  iv_piece_near : Forall near_piece nears;
  iv_edges : Permutation (nonlife (g_edges g) ++ ext_edges ext ++ near_edges nears ++ map x_e xs) (nonlife (g_edges g0));
  iv_x : Forall (x_ok g0) xs;
  iv_extp : Forall2 (fun c pe => fst pe = path0 g0 c /\ In c (fids (g_roots g))) cs ext }.

Lemma iv_perm g0 g ext xs nears cs : inv g0 g ext xs nears cs -> Permutation (g_objs g) (fids (g_roots g)).
Proof. intro I. apply (iv_piece _ _ _ _ _ _ I). Qed.
Lemma iv_ends g0 g ext xs nears cs : inv g0 g ext xs nears cs ->
  forall e, In e (nonlife (g_edges g)) -> In (e_src e) (g_objs g) /\ In (e_dst e) (g_objs g).
Proof. intro I. apply (iv_piece _ _ _ _ _ _ I). Qed.

Definition qinv (g0 g : graph) (cs : list N) (queue : list N) : Prop :=
  exists qts, Forall2 (fun q tq => find_f q (g_roots g) = Some tq /\ find_f q (g_roots g0) = Some tq) queue qts
              /\ NoDup (fids qts) /\ (forall c, In c cs -> ~ In c (fids qts)).

Lemma hdom_combine (cs : list N) (l : list (list tree)) : length cs = length l -> hdom (combine cs l) = cs.
Proof.
  revert l. induction cs as [|c r IH]; intros [|k l] H; simpl in *; try discriminate; [reflexivity|].
  unfold hdom in *. simpl. f_equal. apply IH. lia.
Qed.

Lemma combine_snoc {A B} (l1 : list A) (l2 : list B) a b :
  length l1 = length l2 -> combine (l1 ++ [a]) (l2 ++ [b]) = combine l1 l2 ++ [(a, b)].
Proof.
  revert l2. induction l1 as [|x r IH]; intros [|y l2] H; simpl in *; try discriminate; [reflexivity|].
  f_equal. apply IH. lia.
Qed.

Lemma eroots_length ext : length (eroots ext) = length ext.
Proof. apply map_length. Qed.

Lemma inv_hdom g0 g ext xs nears cs : inv g0 g ext xs nears cs -> hdom (holes_of cs ext) = cs.
Proof. intros I. apply hdom_combine. rewrite eroots_length. apply (iv_cs _ _ _ _ _ _ I). Qed.

(* ---------- consequences ---------- *)
Section Derived.
  Variables (g0 g : graph) (ext : list (okey * graph)) (xs : list xedge) (nears : list graph) (cs : list N).
  Hypothesis G0 : good g0.
  Hypothesis I : inv g0 g ext xs nears cs.

  Lemma inv_nd_all : NoDup (g_objs g ++ ext_objs ext ++ near_objs nears).
  Proof. eapply Permutation_NoDup; [symmetry; apply (iv_objs _ _ _ _ _ _ I) | apply good_NoDup_objs; exact G0]. Qed.

  Lemma inv_nd_objs : NoDup (g_objs g).
  Proof. eapply NoDup_app_l. apply inv_nd_all. Qed.

  Lemma inv_nd : NoDup (fids (g_roots g)).
  Proof. eapply Permutation_NoDup; [apply (iv_perm _ _ _ _ _ _ I) | apply inv_nd_objs]. Qed.

  Lemma inv_obj_in i : In i (g_objs g) <-> In i (fids (g_roots g)).
  Proof.
    split; intro H; eapply Permutation_in; try exact H; [apply (iv_perm _ _ _ _ _ _ I) | symmetry; apply (iv_perm _ _ _ _ _ _ I)].
  Qed.

  Lemma inv_obj_sub i : In i (g_objs g) -> In i (g_objs g0).
  Proof. intro H. eapply Permutation_in; [apply (iv_objs _ _ _ _ _ _ I) | apply in_app_iff; left; exact H]. Qed.

  (* the AbsID of an object of the current graph is its original AbsID *)
  Lemma inv_path i : In i (fids (g_roots g)) -> path_f i (g_roots g) = path0 g0 i.
  Proof.
    destruct (iv_forest _ _ _ _ _ _ I) as [R [HF HP]]. intro Hi.
    eapply path_inv; [exact HF | exact HP | apply (gd_nd g0 G0) | exact Hi].
  Qed.

  Lemma inv_absid i : In i (g_objs g) -> absid g i = path0 g0 i.
  Proof. intro H. apply inv_path. apply inv_obj_in. exact H. Qed.

  Lemma path0_inj i j : In i (g_objs g0) -> In j (g_objs g0) -> path0 g0 i = path0 g0 j -> i = j.
  Proof. apply (good_absid_inj g0 G0). Qed.

  Lemma inv_lookup i : In i (g_objs g) -> lookup (idmap g) (path0 g0 i) = Some i.
  Proof.
    intro Hi. apply (lookup_idmap g (path0 g0) i Hi).
    - intros j Hj. apply inv_absid. exact Hj.
    - intros j Hj E. apply path0_inj; [apply inv_obj_sub; exact Hj | apply inv_obj_sub; exact Hi | exact E].
  Qed.

  Lemma inv_trip : NoDup (map etriple (nonlife (g_edges g))).
  Proof.
    pose proof (gd_trip g0 G0) as ND.
    eapply Permutation_NoDup in ND; [|apply Permutation_map; symmetry; apply (iv_edges _ _ _ _ _ _ I)].
    rewrite map_app in ND. eapply NoDup_app_l. exact ND.
  Qed.

  Lemma inv_sibs : sibs_ok (g_roots g0).
  Proof. apply (gd_sibs g0 G0). Qed.
End Derived.

Lemma Forall2_impl {A B} (P Q : A -> B -> Prop) l r : (forall a b, P a b -> Q a b) -> Forall2 P l r -> Forall2 Q l r.
Proof. intros H. induction 1; constructor; auto. Qed.

(* ---------- the invariant only depends on the current graph up to order ---------- *)
Lemma inv_geq g0 g g2 ext xs nears cs : inv g0 g ext xs nears cs -> geq g g2 -> inv g0 g2 ext xs nears cs.
Proof.
  intros I [HL PR PO PE]. destruct I as [I1 I2 [R [HF HP]] I4 [I5 I11] I6 I7 I8 I9 I10].
  constructor; try assumption.
  - congruence.
  - destruct (Forall2_perm _ _ _ PR _ HF) as [R2 [PR2 HF2]]. exists R2. split; [exact HF2|].
    rewrite <- HP. apply Permutation_app_tail. symmetry. exact PR2.
  - rewrite <- I4. apply Permutation_app_tail. symmetry. exact PO.
  - split.
    + rewrite <- PO, I5. apply fids_perm. exact PR.
    + intros e He. assert (He' : In e (nonlife (g_edges g))) by (eapply Permutation_in; [symmetry; exact PE | exact He]).
      destruct (I11 e He') as [H1 H2]. split; eapply Permutation_in; try exact PO; assumption.
  - rewrite <- I8. apply Permutation_app_tail. symmetry. exact PE.
  - eapply Forall2_impl; [|exact I10]. cbv beta. intros c pe [H1 H2]. split; [exact H1|].
    eapply Permutation_in; [apply fids_perm; exact PR | exact H2].
Qed.

Lemma near_f_geq g g2 : near_f g -> geq g g2 -> near_f g2.
Proof. intros H [_ PR _ _]. unfold near_f in *. eapply forallb_perm; eassumption. Qed.

Lemma qinv_geq g0 g g2 cs queue : NoDup (fids (g_roots g)) -> Permutation (g_roots g) (g_roots g2) ->
  qinv g0 g cs queue -> qinv g0 g2 cs queue.
Proof.
  intros ND PR [qts [H1 [H2 H3]]]. exists qts. split; [|split; assumption].
  eapply Forall2_impl; [|exact H1]. cbv beta. intros q tq [A B]. split; [|exact B].
  rewrite <- (find_f_perm q _ _ ND PR). exact A.
Qed.

(* ---------- find after clearing / removing another node ---------- *)
Lemma first_some_map_comm {A B} (f : A -> option B) (g : A -> A) (h : B -> B) l :
  (forall x, In x l -> f (g x) = option_map h (f x)) -> first_some f (map g l) = option_map h (first_some f l).
Proof.
  induction l as [|x t IH]; simpl; intro H; [reflexivity|].
  rewrite (H x (or_introl eq_refl)). destruct (f x); simpl; [reflexivity|]. apply IH. intros; apply H; right; assumption.
Qed.

Lemma find_t_via_kid c j n k ks x ct : NoDup (tids (T j n k ks)) -> In x ks -> find_t c x = Some ct ->
  find_t c (T j n k ks) = Some ct.
Proof.
  intros ND Hx E. rewrite tids_T in ND. inversion ND as [|? ? Hj ND']; subst.
  assert (Hc : In c (tids x)) by (apply find_t_some in E as [E1 E2]; subst; apply E2, tids_self).
  simpl. destruct (N.eqb c j) eqn:Ec.
  - apply N.eqb_eq in Ec. subst. exfalso. apply Hj. apply in_fids. eauto.
  - apply in_split in Hx as [k1 [k2 Ek]]. subst ks. rewrite first_some_app, first_some_none.
    + simpl. rewrite E. reflexivity.
    + intros y Hy. apply find_t_none. intro Hi.
      apply (NoDup_fids_disj k1 x k2 c ND' Hc). rewrite fids_app. apply in_app_iff. left. apply in_fids. eauto.
Qed.

Lemma find_t_clear_comm c q : forall t, NoDup (tids t) ->
  (forall ct, find_t c t = Some ct -> ~ In q (fids (t_kids ct))) ->
  find_t q (upd_t c clear_kids t) = option_map (upd_t c clear_kids) (find_t q t).
Proof.
  induction t as [j n k ks IH] using tree_ind'. intros ND H.
  cbn [upd_t]. destruct (N.eqb c j) eqn:Ec.
  - apply N.eqb_eq in Ec. subst j. specialize (H (T c n k ks)). simpl in H. rewrite N.eqb_refl in H. specialize (H eq_refl).
    simpl. destruct (N.eqb q c) eqn:Eq; simpl; [rewrite N.eqb_refl; reflexivity|].
    rewrite first_some_none; [reflexivity|]. intros x Hx. apply find_t_none. intro Hi. apply H. apply in_fids. eauto.
  - cbn [find_t]. destruct (N.eqb q j) eqn:Eq; simpl; [rewrite Ec; reflexivity|].
    apply first_some_map_comm. intros x Hx. rewrite Forall_forall in IH. apply IH; [exact Hx | |].
    + rewrite tids_T in ND. inversion ND; subst. eapply NoDup_fids_in; eassumption.
    + intros ct E. apply H. eapply find_t_via_kid; eassumption.
Qed.

Lemma find_f_clear_comm c q F ct : NoDup (fids F) -> find_f c F = Some ct -> ~ In q (fids (t_kids ct)) ->
  find_f q (upd_f c clear_kids F) = option_map (upd_t c clear_kids) (find_f q F).
Proof.
  intros ND Hc Hq. unfold find_f, upd_f. apply first_some_map_comm. intros x Hx.
  apply find_t_clear_comm; [eapply NoDup_fids_in; eassumption|].
  intros ct' E. assert (find_f c F = Some ct').
  { apply in_split in Hx as [F1 [F2 EF]]. subst F. unfold find_f. rewrite first_some_app, first_some_none.
    - simpl. rewrite E. reflexivity.
    - intros y Hy. apply find_t_none. intro Hi.
      assert (Hcx : In c (tids x)) by (apply find_t_some in E as [E1 E2]; subst; apply E2, tids_self).
      apply (NoDup_fids_disj F1 x F2 c ND Hcx). rewrite fids_app. apply in_app_iff. left. apply in_fids. eauto. }
  congruence.
Qed.

Lemma find_f_remove_root q F1 c F2 : ~ In q (tids c) -> find_f q (F1 ++ c :: F2) = find_f q (F1 ++ F2).
Proof.
  intro H. unfold find_f. rewrite !first_some_app. simpl. rewrite (find_t_none q c H). reflexivity.
Qed.

(* near flags survive clearing *)
Lemma no_near_clear c : forall t, no_near_t t = true -> no_near_t (upd_t c clear_kids t) = true.
Proof.
  induction t as [j n k ks IH] using tree_ind'. rewrite no_near_unfold. intro H. apply andb_true_iff in H as [H1 H2].
  simpl. destruct (N.eqb c j); simpl; [rewrite H1; reflexivity|].
  rewrite H1. simpl. rewrite forallb_forall in *. intros x Hx. apply in_map_iff in Hx as [y [Ey Hy]]. subst x.
  rewrite Forall_forall in IH. apply IH; auto.
Qed.

Lemma root_ok_clear c F : forallb root_near_ok F = true -> forallb root_near_ok (upd_f c clear_kids F) = true.
Proof.
  rewrite !forallb_forall. intros H x Hx. unfold upd_f in Hx. apply in_map_iff in Hx as [y [Ey Hy]]. subst x.
  specialize (H y Hy). destruct y as [j n k ks]. unfold root_near_ok in *. simpl in *. destruct (N.eqb c j); simpl.
  - apply andb_true_iff in H as [H1 _]. rewrite H1. reflexivity.
  - apply andb_true_iff in H as [H1 H2]. rewrite H1. simpl. rewrite forallb_forall in *. intros x Hx.
    apply in_map_iff in Hx as [z [Ez Hz]]. subst x. apply no_near_clear. auto.
Qed.
