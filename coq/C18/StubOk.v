(* C18 -- the hypotheses of the theorems are satisfiable: the stub engines used by the checker satisfy
   H_core_structure, and a concrete nested diagram satisfies the graph hypotheses and is laid out. *)
From Coq Require Import List NArith Bool Arith Lia Permutation.
Import ListNotations.
Require Import V.Lib.RunCases V.C18.Nested V.C18.Spec V.C18.Dec V.C18.SortLemmas V.C18.Forest V.C18.Restore V.C18.Proofs V.C18.Check.

Lemma nonlife_lifelines (F : list tree) : nonlife (map (fun t => mkEdge 0 0 (t_id t) 0 true) F) = [].
Proof. induction F; simpl; auto. Qed.

Lemma stub_engine_ok : H_core_structure stub_engine.
Proof.
  intros dt g g' E. apply geq_b_geq. destruct dt; simpl in E; inversion E; subst; clear E.
  - constructor; simpl; try reflexivity; try apply Permutation_rev. apply perm_filter. apply Permutation_rev.
  - apply geq_refl.
  - constructor; simpl; try reflexivity; try apply Permutation_rev.
    unfold nonlife. rewrite filter_app. fold (nonlife (g_edges g)).
    fold (nonlife (map (fun t => mkEdge 0 0 (t_id t) 0 true) (g_roots g))). rewrite nonlife_lifelines, app_nil_r. reflexivity.
Qed.

Open Scope N_scope.
Definition K0 := mkKind None 0 DPlain.
(* a; c (grid) {x; y {p; q}}; s (sequence) {u; v}; n (near: top-left) {m};  edges a->x, x->y, p->q, u->v, a->u, n->m *)
Definition sample : graph := mkGraph 0
 [T 0 100 K0 []; T 1 101 (mkKind None 0 DGrid) [T 2 102 K0 []; T 3 103 K0 [T 4 104 K0 []; T 5 105 K0 []]];
  T 6 106 (mkKind None 0 DSeq) [T 7 107 K0 []; T 8 108 K0 []]; T 9 109 (mkKind (Some 2) 999 DPlain) [T 10 110 K0 []]]
 [0;1;2;3;4;5;6;7;8;9;10]
 [mkEdge 0 0 0 2 false; mkEdge 1 0 2 3 false; mkEdge 2 0 4 5 false; mkEdge 3 0 7 8 false; mkEdge 4 0 0 7 false;
  mkEdge 5 0 9 10 false].

Lemma sample_ok :
  wf sample /\ absids_distinct sample /\ nears_at_root sample /\
  exists g' tr, layout stub_engine stub_router (mkInfo false DPlain) sample = Ok (g', tr) /\ length tr = 6%nat.
Proof.
  repeat split; try (vm_compute; reflexivity).
  destruct (layout stub_engine stub_router (mkInfo false DPlain) sample) as [[g' tr]| | |] eqn:E;
    try (vm_compute in E; discriminate).
  exists g', tr. split; [reflexivity|]. vm_compute in E. inversion E. reflexivity.
Qed.

(* ---- the hypothesis nears_at_root is necessary: a near key that names a near constant on a NESTED object ----
   d2 script:   top-left
                N: {near: bottom-center; o: {near: top-left}; p}
   `o.near: top-left` refers to the root shape named top-left (so the compiler accepts it below the root level), but
   inside N's own nested graph no child of the root is called top-left, IsConstantNear() becomes true, o is extracted
   as a constant near and d2near re-attaches it to the nested ROOT: o is lost from N's ChildrenArray. *)
Definition near_witness : graph := mkGraph 0
 [T 0 50 K0 [];
  T 1 60 (mkKind (Some 0) 61 DPlain) [T 2 70 (mkKind (Some 2) 50 DPlain) []; T 3 71 K0 []]]
 [0; 1; 2; 3] [].

Lemma near_witness_refutes :
  wf near_witness /\ absids_distinct near_witness /\ nears_at_root_b near_witness = false /\
  exists g' tr, layout stub_engine stub_router (mkInfo false DPlain) near_witness = Ok (g', tr)
                /\ structure_eqb g' near_witness = false
                /\ kids_of g' 1 = Some [3%N] /\ kids_of near_witness 1 = Some [2%N; 3%N].
Proof.
  repeat split; try (vm_compute; reflexivity).
  destruct (layout stub_engine stub_router (mkInfo false DPlain) near_witness) as [[g' tr]| | |] eqn:E;
    try (vm_compute in E; discriminate).
  exists g', tr. vm_compute in E. inversion E; subst. repeat split; vm_compute; reflexivity.
Qed.

Lemma refuted_without_nears_at_root :
  exists g g' tr, wf g /\ absids_distinct g /\ H_core_structure stub_engine /\
                  layout stub_engine stub_router (mkInfo false DPlain) g = Ok (g', tr) /\ structure g' <> structure g.
Proof.
  destruct near_witness_refutes as [W [A [_ [g' [tr [E [S _]]]]]]].
  exists near_witness, g', tr. repeat split; try assumption; try apply stub_engine_ok; try apply A.
  intro H. apply structure_eqb_eq in H. congruence.
Qed.
