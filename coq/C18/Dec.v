(* C18 -- reflection lemmas for the boolean predicates of Spec.v *)
From Coq Require Import List NArith Bool Arith Lia Permutation.
Import ListNotations.
Require Import V.Lib.RunCases V.C18.Nested V.C18.Spec.

Lemma mem_In i l : mem i l = true <-> In i l.
Proof.
  unfold mem. rewrite existsb_exists. split.
  - intros [x [Hx E]]. apply N.eqb_eq in E. subst. exact Hx.
  - intros H. exists i. split; [exact H | apply N.eqb_refl].
Qed.

Lemma mem_false i l : mem i l = false <-> ~ In i l.
Proof.
  rewrite <- mem_In. destruct (mem i l); split; intro H; try reflexivity; try discriminate.
  exfalso; apply H; reflexivity.
Qed.

Section DecLemmas.
  Context {A : Type} (eqb : A -> A -> bool).
  Hypothesis eqb_eq : forall x y, eqb x y = true <-> x = y.

  Lemma memb_In x l : memb eqb x l = true <-> In x l.
  Proof.
    unfold memb. rewrite existsb_exists. split.
    - intros [y [Hy E]]. apply eqb_eq in E. subst. exact Hy.
    - intros H. exists x. split; [exact H | apply eqb_eq; reflexivity].
  Qed.

  Lemma nodup_b_NoDup l : nodup_b eqb l = true <-> NoDup l.
  Proof.
    induction l as [|x r IH]; simpl.
    - split; [constructor | reflexivity].
    - rewrite andb_true_iff, negb_true_iff, IH. split.
      + intros [H1 H2]. constructor; [|exact H2]. intro Hin. apply memb_In in Hin. congruence.
      + intros H. inversion H; subst. split; [|assumption].
        destruct (memb eqb x r) eqn:E; [|reflexivity]. apply memb_In in E. contradiction.
  Qed.

  Lemma remove1_perm x l l' : remove1 eqb x l = Some l' -> Permutation l (x :: l').
  Proof.
    revert l'. induction l as [|y r IH]; simpl; intros l' H; [discriminate|].
    destruct (eqb x y) eqn:E.
    - apply eqb_eq in E. inversion H; subst. reflexivity.
    - destruct (remove1 eqb x r) as [r'|] eqn:R; simpl in H; [|discriminate].
      inversion H; subst. rewrite (IH r' eq_refl). apply perm_swap.
  Qed.

  Lemma remove1_none x l : remove1 eqb x l = None -> ~ In x l.
  Proof.
    induction l as [|y r IH]; simpl; intros H; [tauto|].
    destruct (eqb x y) eqn:E; [discriminate|].
    destruct (remove1 eqb x r) eqn:R; simpl in H; [discriminate|].
    intros [H1|H1].
    - subst. assert (eqb x x = true) by (apply eqb_eq; reflexivity). congruence.
    - exact (IH eq_refl H1).
  Qed.

  Lemma perm_b_Permutation l l' : perm_b eqb l l' = true <-> Permutation l l'.
  Proof.
    revert l'. induction l as [|x r IH]; intros l'; simpl.
    - destruct l'; simpl; split; intro H; try reflexivity; try discriminate.
      apply Permutation_nil in H. discriminate.
    - destruct (remove1 eqb x l') as [l''|] eqn:R.
      + rewrite IH. apply remove1_perm in R. split; intro H.
        * rewrite R. constructor. exact H.
        * rewrite R in H. apply Permutation_cons_inv in H. exact H.
      + split; [discriminate|]. intro H. exfalso. apply remove1_none in R. apply R.
        apply (Permutation_in _ H). left; reflexivity.
  Qed.
End DecLemmas.

Lemma optN_eqb_eq a b : optN_eqb a b = true <-> a = b.
Proof.
  destruct a, b; simpl; split; intro H; try reflexivity; try discriminate.
  - apply N.eqb_eq in H. congruence.
  - inversion H. apply N.eqb_refl.
Qed.

Lemma dtype_eqb_eq a b : dtype_eqb a b = true <-> a = b.
Proof. destruct a, b; simpl; split; intro H; try reflexivity; try discriminate. Qed.

Lemma kind_eqb_eq a b : kind_eqb a b = true <-> a = b.
Proof.
  destruct a as [n k d], b as [n' k' d']. unfold kind_eqb; simpl.
  rewrite !andb_true_iff, optN_eqb_eq, dtype_eqb_eq, N.eqb_eq. split; [intros [[? ?] ?]; subst; reflexivity | intro H; inversion H; auto].
Qed.

Lemma tree_ind' (P : tree -> Prop) :
  (forall i n k ks, Forall P ks -> P (T i n k ks)) -> forall t, P t.
Proof.
  intros H. fix IH 1. intros [i n k ks]. apply H.
  induction ks as [|c r IHr]; constructor; [apply IH | exact IHr].
Qed.

Lemma tree_eqb_eq : forall a b, tree_eqb a b = true <-> a = b.
Proof.
  induction a as [i n k ks IH] using tree_ind'. intros [i' n' k' ks']. simpl.
  rewrite !andb_true_iff, !N.eqb_eq, kind_eqb_eq.
  assert (L : forall l', (fix go (l l' : list tree) : bool :=
                            match l, l' with
                            | [], [] => true
                            | x :: r, y :: r' => tree_eqb x y && go r r'
                            | _, _ => false end) ks l' = true <-> ks = l').
  { induction IH as [|x r Hx Hr IHr]; intros [|y r']; split; intro H; try reflexivity; try discriminate.
    - apply andb_true_iff in H as [H1 H2]. apply Hx in H1. apply IHr in H2. congruence.
    - inversion H; subst. apply andb_true_iff. split; [apply Hx; reflexivity | apply IHr; reflexivity]. }
  rewrite L. split.
  - intros [[[? ?] ?] ?]; subst; reflexivity.
  - intro H; inversion H; auto.
Qed.

Lemma edge_eqb_eq a b : edge_eqb a b = true <-> a = b.
Proof.
  destruct a, b. unfold edge_eqb; simpl. rewrite !andb_true_iff, !N.eqb_eq, Bool.eqb_true_iff.
  split; [intros [[[[? ?] ?] ?] ?]; subst; reflexivity | intro H; inversion H; auto 6].
Qed.

Lemma path_eqb_eq (a b : list N) : list_eqb N.eqb a b = true <-> a = b.
Proof. apply list_eqb_eq. intros; apply N.eqb_eq. Qed.

Lemma okey_eqb_eq (a b : okey) : okey_eqb a b = true <-> a = b.
Proof.
  destruct a, b; unfold okey_eqb; simpl; split; intro H; try reflexivity; try discriminate.
  - apply path_eqb_eq in H. congruence.
  - inversion H. apply path_eqb_eq. reflexivity.
Qed.

Lemma ekey_eqb_eq (a b : ekey) : ekey_eqb a b = true <-> a = b.
Proof.
  destruct a as [[a1 a2] a3], b as [[b1 b2] b3]. unfold ekey_eqb; simpl.
  rewrite !andb_true_iff, !okey_eqb_eq, N.eqb_eq.
  split; [intros [[? ?] ?]; subst; reflexivity | intro H; inversion H; auto].
Qed.
