(* C18 -- Layout preserves the diagram's structure.  Statements only.
   Model: V.C18.Nested (d2layouts.LayoutNested / ExtractSubgraph / InjectNested / SaveOrder+restoreOrder / the
   structural part of d2near.Layout) over a forest of object records; [engine] stands for the core layout
   (dagre / ELK / ...), d2grid.Layout and d2sequence.Layout, [router] for the cross-diagram edge router. *)
From Coq Require Import List NArith.
Require Import V.C18.Nested V.C18.Spec V.C18.Restore V.C18.Proofs V.C18.Check V.C18.StubOk.

(* Full statement for the orchestration: for EVERY engine that returns the same objects, the same tree below the
   root and the same real edges (it may permute g.Objects, g.Edges and the root's ChildrenArray and add lifeline
   pseudo-edges), EVERY graph of any size and nesting depth (grids in containers in grids, sequence diagrams,
   constant nears, cross-diagram edges) whose object identities are unique (wf), whose object and edge AbsIDs
   are pairwise distinct and whose constant nears are children of the root: if LayoutNested returns without error,
   the ordered objects with their parents, every ordered ChildrenArray and the ordered edges with their end
   points are exactly those of the input. *)
Theorem C18_layout_nested_preserves_structure :
  forall engine router, H_core_structure engine ->
  forall inf g g' tr, wf g -> absids_distinct g -> nears_at_root g ->
    layout engine router inf g = Ok (g', tr) -> structure g' = structure g.
Proof. exact layout_nested_preserves_structure_lemma. Qed.

(* the same for every amount of fuel (nothing depends on the particular fuel [layout] uses), in the hereditary
   form used by the induction: root ChildrenArray, g.Objects and the real edges are returned unchanged *)
Theorem C18_layout_nested_any_fuel :
  forall engine router, H_core_structure engine ->
  forall fuel inf g g' tr, good g -> layout_nested engine router fuel inf g = Ok (g', tr) -> same g' g.
Proof. intros engine router HE fuel. exact (layout_nested_spec engine router HE fuel). Qed.

(* restoreOrder: sorting ANY permutation of the objects / edges / root children (stable, by the index saved under
   the AbsID) gives back exactly the saved order, provided the AbsIDs are distinct (part of [good]) *)
Theorem C18_restore_order_sorts_back :
  forall g0 gf, good g0 -> g_level gf = g_level g0 -> Permutation.Permutation (g_roots g0) (g_roots gf) ->
    Permutation.Permutation (g_objs g0) (g_objs gf) ->
    Permutation.Permutation (nonlife (g_edges g0)) (nonlife (g_edges gf)) ->
    same (restore (save_order g0) gf) g0.
Proof. exact restore_same. Qed.

(* the hypotheses the checker evaluates imply the hereditary predicate of the induction *)
Theorem C18_good_of_checked_hypotheses :
  forall g, wf g -> absids_distinct g -> nears_at_root g -> good g.
Proof. exact good_of_hyps. Qed.

(* the boolean evaluated on the implementation's output is the property *)
Theorem C18_structure_eqb_iff : forall a b, structure_eqb a b = true <-> structure a = structure b.
Proof. exact structure_eqb_eq. Qed.

(* the hypothesis nears_at_root is necessary, and d2compiler does NOT guarantee it: `near: top-left` on a nested shape
   compiles when a root shape is named top-left; inside the nested graph of an enclosing constant near the key becomes
   a constant and the shape is re-attached to the wrong parent (witness: StubOk.near_witness =
   `top-left; N: {near: bottom-center; o: {near: top-left}; p}`; replayed on the real code: finding
   C18-near-constant-name-inside-near) *)
Theorem C18_layout_nested_refuted_without_nears_at_root :
  exists g g' tr, wf g /\ absids_distinct g /\ H_core_structure stub_engine /\
                  layout stub_engine stub_router (mkInfo false DPlain) g = Ok (g', tr) /\ structure g' <> structure g.
Proof. exact refuted_without_nears_at_root. Qed.

(* non-vacuity: the checker's stub engines satisfy the engine hypothesis, and a diagram with a grid whose cell
   is a container, a sequence diagram, a constant near and cross-diagram edges satisfies the graph hypotheses
   and is laid out (6 engine / router calls) *)
Example C18_engine_hypothesis_satisfiable : H_core_structure stub_engine.
Proof. exact stub_engine_ok. Qed.
Example C18_graph_hypotheses_satisfiable :
  wf sample /\ absids_distinct sample /\ nears_at_root sample /\
  exists g' tr, layout stub_engine stub_router (mkInfo false DPlain) sample = Ok (g', tr) /\ length tr = 6%nat.
Proof. exact sample_ok. Qed.

Print Assumptions C18_layout_nested_preserves_structure.
Print Assumptions C18_layout_nested_any_fuel.
Print Assumptions C18_restore_order_sorts_back.
Print Assumptions C18_good_of_checked_hypotheses.
Print Assumptions C18_layout_nested_refuted_without_nears_at_root.
Print Assumptions C18_structure_eqb_iff.
Print Assumptions C18_engine_hypothesis_satisfiable.
Print Assumptions C18_graph_hypotheses_satisfiable.
