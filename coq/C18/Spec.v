(* C18 -- decidable hypotheses and the boolean form of the property, shared by the theorems (Proofs/Props)
   and by the executable checker (Check.v). *)
From Coq Require Import List NArith Bool Arith Lia.
Import ListNotations.
Require Import V.Lib.RunCases V.C18.Nested.

Section Dec.
  Context {A : Type} (eqb : A -> A -> bool).
  Definition memb (x : A) (l : list A) : bool := existsb (eqb x) l.
  Fixpoint nodup_b (l : list A) : bool :=
    match l with [] => true | x :: r => negb (memb x r) && nodup_b r end.
  Fixpoint remove1 (x : A) (l : list A) : option (list A) :=
    match l with
    | [] => None
    | y :: r => if eqb x y then Some r else option_map (cons y) (remove1 x r)
    end.
  Fixpoint perm_b (l l' : list A) : bool :=
    match l with
    | [] => is_nil l'
    | x :: r => match remove1 x l' with Some l'' => perm_b r l'' | None => false end
    end.
End Dec.

Definition optN_eqb : option N -> option N -> bool := opt_eqb N.eqb.
Definition kind_eqb (a b : kind) : bool :=
  optN_eqb (k_near a) (k_near b) && N.eqb (k_nkey a) (k_nkey b) && dtype_eqb (k_dt a) (k_dt b).
Fixpoint tree_eqb (a b : tree) : bool :=
  match a, b with
  | T i n k ks, T i' n' k' ks' =>
      N.eqb i i' && N.eqb n n' && kind_eqb k k' &&
      (fix go (l : list tree) (l' : list tree) : bool :=
         match l, l' with
         | [], [] => true
         | x :: r, y :: r' => tree_eqb x y && go r r'
         | _, _ => false
         end) ks ks'
  end.
Definition forest_eqb : list tree -> list tree -> bool := list_eqb tree_eqb.
Definition edge_eqb (a b : edge) : bool :=
  N.eqb (e_id a) (e_id b) && N.eqb (e_tag a) (e_tag b) && N.eqb (e_src a) (e_src b) &&
  N.eqb (e_dst a) (e_dst b) && Bool.eqb (e_life a) (e_life b).

(* ---- hypotheses on the input graph (what d2compiler guarantees; evaluated on every case) ---- *)
(* object identities are unique, g.Objects lists exactly the objects of the forest, every real edge joins
   objects of the graph *)
Definition wf_b (g : graph) : bool :=
  nodup_b N.eqb (fids (g_roots g)) && nodup_b N.eqb (g_objs g)
  && Nat.eqb (length (g_objs g)) (length (fids (g_roots g)))
  && forallb (fun i => mem i (fids (g_roots g))) (g_objs g)
  && forallb (fun e => mem (e_src e) (g_objs g) && mem (e_dst e) (g_objs g)) (nonlife (g_edges g)).
(* AbsIDs of the objects are pairwise distinct (SaveOrder / idToObj are keyed by AbsID) *)
Definition absids_distinct_b (g : graph) : bool := nodup_b okey_eqb (map (absid g) (g_objs g)).
(* AbsIDs of the edges are pairwise distinct *)
Definition ekeys_distinct_b (g : graph) : bool := nodup_b ekey_eqb (map (ekey_of g) (nonlife (g_edges g))).
(* a `near` key that is the name of a near constant occurs only on children of the root (d2compiler: "constant
   near keys can only be set on root level shapes" -- but it only says so for keys that ARE constants at compile
   time: `near: top-left` on a nested shape is accepted when a root shape is NAMED top-left), and the constant
   is one of the 8 known ones (class 0, 1 or 2) *)
Fixpoint no_near_t (t : tree) : bool :=
  match t with T _ _ k ks => negb (is_some (k_near k)) && forallb no_near_t ks end.
Definition near_ok (o : option N) : bool := match o with None => true | Some c => N.ltb c 3 end.
Definition root_near_ok (t : tree) : bool := near_ok (k_near (t_kind t)) && forallb no_near_t (t_kids t).
Definition nears_at_root_b (g : graph) : bool := forallb root_near_ok (g_roots g).

Definition wf (g : graph) : Prop := wf_b g = true.
Definition absids_distinct (g : graph) : Prop := absids_distinct_b g = true /\ ekeys_distinct_b g = true.
Definition nears_at_root (g : graph) : Prop := nears_at_root_b g = true.

(* ---- hypothesis on the engines: same objects, same tree below the root, same real edges; the engine may
   permute g.Objects, g.Edges and the root's ChildrenArray and may add lifeline pseudo-edges ---- *)
Definition geq_b (g g' : graph) : bool :=
  Nat.eqb (g_level g) (g_level g') && perm_b tree_eqb (g_roots g) (g_roots g')
  && perm_b N.eqb (g_objs g) (g_objs g') && perm_b edge_eqb (nonlife (g_edges g)) (nonlife (g_edges g')).

Definition H_core_structure (engine : dtype -> graph -> option graph) : Prop :=
  forall dt g g', engine dt g = Some g' -> geq_b g g' = true.

(* ---- boolean equality of [structure] ---- *)
Definition optoptN_eqb : option (option N) -> option (option N) -> bool := opt_eqb optN_eqb.
Definition pair_eqb {A B} (ea : A -> A -> bool) (eb : B -> B -> bool) (x y : A * B) : bool :=
  ea (fst x) (fst y) && eb (snd x) (snd y).
Definition structure_eqb (a b : graph) : bool :=
  let sa := structure a in let sb := structure b in
  list_eqb (pair_eqb N.eqb optoptN_eqb) (fst (fst sa)) (fst (fst sb))
  && list_eqb N.eqb (fst (snd (fst sa))) (fst (snd (fst sb)))
  && list_eqb (pair_eqb N.eqb (opt_eqb (list_eqb N.eqb))) (snd (snd (fst sa))) (snd (snd (fst sb)))
  && list_eqb (pair_eqb (pair_eqb N.eqb N.eqb) N.eqb) (snd sa) (snd sb).
