(* C18 -- one iteration of the queue loop of LayoutNested preserves the invariant *)
From Coq Require Import List NArith Bool Arith Lia Permutation.
Import ListNotations.
Require Import V.Lib.RunCases V.C18.Nested V.C18.Spec V.C18.Dec V.C18.SortLemmas V.C18.Forest V.C18.Paths
        V.C18.Fill V.C18.Restore V.C18.Pieces V.C18.Inv V.C18.Extract V.C18.Queue.

(* what the recursive call on a nested graph guarantees *)
Definition spec (rec : info -> graph -> res (graph * list call)) : Prop :=
  forall inf g g' tr, good g -> rec inf g = Ok (g', tr) -> same g' g.

Definition linv (g0 : graph) (s : st) (queue : list N) : Prop :=
  exists cs, inv g0 (s_g s) (s_ext s) (s_x s) (s_nears s) cs /\ qinv g0 (s_g s) cs queue /\ near_f (s_g s).

Lemma restore_geq sv g : geq g (restore sv g).
Proof.
  constructor; simpl; try reflexivity; symmetry; try apply sort_by_perm.
  apply perm_filter. apply sort_by_perm.
Qed.

Lemma relink_ok m xs :
  (forall x, In x xs -> lookup m (x_src x) = Some (e_src (x_e x)) /\ lookup m (x_dst x) = Some (e_dst (x_e x))) ->
  relink m xs = Some (map x_e xs).
Proof.
  induction xs as [|x r IH]; simpl; intro H; [reflexivity|].
  destruct (H x (or_introl eq_refl)) as [H1 H2]. unfold relink1. rewrite H1, H2.
  rewrite IH by (intros; apply H; right; assumption). destruct (x_e x). reflexivity.
Qed.

Lemma sibs_t_of_kids c : sibs_ok (t_kids c) -> sibs_t c.
Proof. destruct c. simpl. intros [H1 H2]. constructor; assumption. Qed.

Lemma t_kids_set_near v c : t_kids (set_near v c) = t_kids c.
Proof. destruct c. reflexivity. Qed.
Lemma t_kind_set_near v c : k_near (t_kind (set_near v c)) = v.
Proof. destruct c. reflexivity. Qed.

Section StepLemmas.
  Variable rec : info -> graph -> res (graph * list call).
  Variable g0 : graph.
  Hypothesis G0 : good g0.
  Hypothesis Hrec : spec rec.

  (* ---- grid / sequence diagram: contents extracted ---- *)
  Lemma step_clear_ex s c gi q cs ng' tr :
    inv g0 (s_g s) (s_ext s) (s_x s) (s_nears s) cs -> qinv g0 (s_g s) cs (t_id c :: q) -> near_f (s_g s) ->
    find_f (t_id c) (g_roots (s_g s)) = Some c -> find_f (t_id c) (g_roots g0) = Some c ->
    (forall d, In d cs -> ~ In d (tids c)) -> i_near gi = false ->
    rec gi (ex_ng c false (s_g s)) = Ok (ng', tr) ->
    exists s', step_special rec c gi s = Ok (s', []) /\ linv g0 s' q.
  Proof.
    intros I Q NF Hf Hf0 Hno Hn R. unfold step_special. rewrite Hn, R. eexists. split; [reflexivity|].
    pose proof (Hrec gi _ ng' tr (ex_ng_good_kids g0 (s_g s) _ _ _ _ G0 I c NF Hf Hf0) R) as S.
    exists (cs ++ [t_id c]). simpl. split; [|split].
    - apply inv_clear; assumption.
    - eapply qinv_clear; eassumption.
    - apply near_f_clear. exact NF.
  Qed.

  Lemma step_clear_inv s c gi q cs s' more :
    inv g0 (s_g s) (s_ext s) (s_x s) (s_nears s) cs -> qinv g0 (s_g s) cs (t_id c :: q) -> near_f (s_g s) ->
    find_f (t_id c) (g_roots (s_g s)) = Some c -> find_f (t_id c) (g_roots g0) = Some c ->
    (forall d, In d cs -> ~ In d (tids c)) -> i_near gi = false ->
    step_special rec c gi s = Ok (s', more) -> linv g0 s' (q ++ more).
  Proof.
    intros I Q NF Hf Hf0 Hno Hn E.
    destruct (rec gi (ex_ng c false (s_g s))) as [[ng' tr]| | |] eqn:R;
      try (unfold step_special in E; rewrite Hn, R in E; discriminate).
    destruct (step_clear_ex s c gi q cs ng' tr I Q NF Hf Hf0 Hno Hn R) as [s2 [E2 L2]].
    rewrite E2 in E. inversion E; subst. rewrite app_nil_r. exact L2.
  Qed.

  (* ---- constant near: extracted with its container ---- *)
  Definition near_in (c : tree) (g : graph) : graph :=
    set_roots (ex_ng c true g) (map_head (set_near None) (g_roots (ex_ng c true g))).

  Lemma step_near_ex s c gi q cs :
    inv g0 (s_g s) (s_ext s) (s_x s) (s_nears s) cs -> qinv g0 (s_g s) cs (t_id c :: q) -> near_f (s_g s) ->
    find_f (t_id c) (g_roots (s_g s)) = Some c -> find_f (t_id c) (g_roots g0) = Some c ->
    (forall d, In d cs -> ~ In d (tids c)) -> i_near gi = true -> is_some (k_near (t_kind c)) = true ->
    good (near_in c (s_g s)) /\
    forall ng' tr, rec default_info (near_in c (s_g s)) = Ok (ng', tr) ->
      exists s', step_special rec c gi s = Ok (s', []) /\ linv g0 s' q.
  Proof.
    intros I Q NF Hf Hf0 Hno Hn Hk. unfold step_special, near_in. rewrite Hn.
    set (g := s_g s) in *.
    pose proof (inv_nd g0 g _ _ _ _ G0 I) as ND.
    pose proof (inv_nd_objs g0 g _ _ _ _ G0 I) as NDO.
    pose proof (find_f_NoDup _ _ _ ND Hf) as NDc.
    destruct (root_near_find _ _ _ NF Hf) as [Hroot Hkids].
    assert (Hin : In c (g_roots g)).
    { destruct Hroot as [H|H]; [exact H|]. apply no_near_kind in H. rewrite H in Hk. discriminate. }
    assert (Hcl : exists cl, k_near (t_kind c) = Some cl /\ (cl < 3)%N).
    { pose proof NF as H. unfold near_f in H. rewrite forallb_forall in H. specialize (H c Hin).
      unfold root_near_ok in H. apply andb_true_iff in H as [H _]. destruct (k_near (t_kind c)) as [cl|]; [|discriminate].
      exists cl. split; [reflexivity | apply N.ltb_lt; exact H]. }
    assert (Incc : incl (tids c) (fids (g_roots g))) by (apply find_f_some in Hf as [_ Inc]; exact Inc).
    set (ng_in := set_roots (ex_ng c true g) (map_head (set_near None) (g_roots (ex_ng c true g)))).
    assert (Gin : good ng_in).
    { constructor.
      - simpl. rewrite app_nil_r, tids_set_near. exact NDc.
      - simpl. rewrite app_nil_r, tids_set_near. apply perm_filter_mem; [exact NDO | exact NDc|].
        intros a Ha. apply (inv_obj_in g0 g _ _ _ _ I). apply Incc. exact Ha.
      - simpl. apply sibs_ok_single. apply sibs_t_set_near. apply sibs_t_of_kids.
        eapply sibs_find; [apply (gd_sibs g0 G0) | exact Hf0].
      - apply (ex_ng_ends g0 g _ _ _ _ I c true).
      - apply (ex_ng_trip g0 g _ _ _ _ G0 I c true).
      - simpl. unfold root_near_ok. rewrite t_kind_set_near, t_kids_set_near. simpl. rewrite Hkids. reflexivity. }
    split; [exact Gin|]. intros ng' tr R. fold ng_in. rewrite R.
    pose proof (Hrec default_info _ ng' tr Gin R) as [SL SR SO SE]. simpl in SR, SO, SE.
    rewrite SR. eexists. split; [reflexivity|].
    rewrite set_near_back.
    exists cs. simpl. split; [|split].
    - apply inv_remove; try assumption; reflexivity.
    - eapply qinv_remove; eassumption.
    - apply (near_f_remove g0 g _ _ _ _ G0 I c Hin NF).
  Qed.

  Lemma step_near_inv s c gi q cs s' more :
    inv g0 (s_g s) (s_ext s) (s_x s) (s_nears s) cs -> qinv g0 (s_g s) cs (t_id c :: q) -> near_f (s_g s) ->
    find_f (t_id c) (g_roots (s_g s)) = Some c -> find_f (t_id c) (g_roots g0) = Some c ->
    (forall d, In d cs -> ~ In d (tids c)) -> i_near gi = true -> is_some (k_near (t_kind c)) = true ->
    step_special rec c gi s = Ok (s', more) -> linv g0 s' (q ++ more).
  Proof.
    intros I Q NF Hf Hf0 Hno Hn Hk E.
    destruct (step_near_ex s c gi q cs I Q NF Hf Hf0 Hno Hn Hk) as [_ HX].
    destruct (rec default_info (near_in c (s_g s))) as [[ng' tr]| | |] eqn:R;
      try (unfold step_special in E; rewrite Hn in E; fold (near_in c (s_g s)) in E; rewrite R in E; discriminate).
    destruct (HX ng' tr eq_refl) as [s2 [E2 L2]].
    rewrite E2 in E. inversion E; subst. rewrite app_nil_r. exact L2.
  Qed.

  (* ---- a grid cell that is an ordinary container ---- *)
  Lemma step_cell_ex sv s c q cs :
    inv g0 (s_g s) (s_ext s) (s_x s) (s_nears s) cs -> qinv g0 (s_g s) cs (t_id c :: q) -> near_f (s_g s) ->
    find_f (t_id c) (g_roots (s_g s)) = Some c -> find_f (t_id c) (g_roots g0) = Some c ->
    (forall d, In d cs -> ~ In d (tids c)) -> In c (g_roots (s_g s)) ->
    good (ex_ng c true (s_g s)) /\
    forall ng' tr, rec default_info (ex_ng c true (s_g s)) = Ok (ng', tr) ->
      exists s', step_cell rec sv c s = Ok (s', []) /\ linv g0 s' q.
  Proof.
    intros I Q NF Hf Hf0 Hno Hin. unfold step_cell.
    set (g := s_g s) in *.
    pose proof (inv_nd g0 g _ _ _ _ G0 I) as ND.
    pose proof (inv_nd_objs g0 g _ _ _ _ G0 I) as NDO.
    pose proof (find_f_NoDup _ _ _ ND Hf) as NDc.
    destruct (root_near_find _ _ _ NF Hf) as [_ Hkids].
    assert (Incc : incl (tids c) (fids (g_roots g))) by (apply find_f_some in Hf as [_ Inc]; exact Inc).
    assert (Gin : good (ex_ng c true g)).
    { constructor.
      - simpl. rewrite app_nil_r. exact NDc.
      - simpl. rewrite app_nil_r. apply perm_filter_mem; [exact NDO | exact NDc|].
        intros a Ha. apply (inv_obj_in g0 g _ _ _ _ I). apply Incc. exact Ha.
      - simpl. apply sibs_ok_single. apply sibs_t_of_kids. eapply sibs_find; [apply (gd_sibs g0 G0) | exact Hf0].
      - apply (ex_ng_ends g0 g _ _ _ _ I c true).
      - apply (ex_ng_trip g0 g _ _ _ _ G0 I c true).
      - simpl. pose proof NF as H. unfold near_f in H. rewrite forallb_forall in H. rewrite (H c Hin). reflexivity. }
    split; [exact Gin|]. intros ng' tr R. rewrite R.
    pose proof (Hrec default_info _ ng' tr Gin R) as [SL SR SO SE]. simpl in SR, SO, SE.
    set (g2 := inject_root ng' (ex_rem c true g)).
    set (xe := ex_xs c true g).
    (* the graph after re-injection is the old graph up to order *)
    assert (GE : geq g (add_edges g2 (map x_e xe))).
    { apply in_split in Hin as [F1 [F2 EF]]. constructor.
      - reflexivity.
      - simpl. rewrite SR. rewrite EF at 2. rewrite rem_f_root by (rewrite <- EF; exact ND).
        rewrite EF. rewrite <- app_assoc. apply Permutation_app_head. simpl. apply Permutation_cons_append.
      - simpl. rewrite SO. rewrite Permutation_app_comm. symmetry. apply filter_partition_perm.
      - simpl. rewrite !nonlife_app, SE.
        assert (Hx : nonlife (map x_e xe) = map x_e xe).
        { unfold xe, ex_xs. rewrite map_xe_mk. apply nonlife_cls2. }
        rewrite Hx, <- app_assoc. symmetry. apply (edges_split g c true). }
    set (g4 := restore sv (add_edges g2 (map x_e xe))).
    assert (GE4 : geq g g4) by (eapply geq_trans; [exact GE | apply restore_geq]).
    pose proof (inv_geq _ _ _ _ _ _ _ I GE4) as I4.
    assert (Hcobj : In (t_id c) (g_objs g)) by (apply (inv_obj_in g0 g _ _ _ _ I); apply Incc, tids_self).
    assert (Hid : Some [t_name c] = path0 g0 (t_id c)).
    { rewrite <- (inv_path g0 g _ _ _ _ G0 I (t_id c)) by (apply Incc, tids_self).
      symmetry. apply path_f_root; assumption. }
    rewrite Hid.
    assert (Hobj4 : forall i, In i (g_objs g) -> In i (g_objs g4)).
    { intros i Hi. eapply Permutation_in; [apply (ge_objs _ _ GE4) | exact Hi]. }
    rewrite (inv_lookup g0 g4 _ _ _ _ G0 I4 (t_id c) (Hobj4 _ Hcobj)).
    assert (Hrl : relink (idmap g4) xe = Some (map x_e xe)).
    { apply relink_ok. intros x Hx.
      pose proof (ex_xs_ok g0 g _ _ _ _ G0 I c true) as OK. rewrite Forall_forall in OK.
      destruct (OK x Hx) as [L [E1 E2]]. rewrite E1, E2.
      assert (Hn : In (x_e x) (nonlife (g_edges g))).
      { unfold xe, ex_xs in Hx. apply in_map_iff in Hx as [e [Ee He]]. subst x. simpl in *.
        apply filter_In in He as [He _]. apply filter_In. split; [exact He | rewrite L; reflexivity]. }
      destruct (iv_ends _ _ _ _ _ _ I _ Hn) as [Hs Hd].
      split; apply (inv_lookup g0 g4 _ _ _ _ G0 I4); apply Hobj4; assumption. }
    rewrite Hrl. fold g4.
    assert (Hf4 : find_f (t_id c) (g_roots g4) = Some c).
    { rewrite <- (find_f_perm (t_id c) _ _ ND (ge_roots _ _ GE4)). exact Hf. }
    rewrite Hf4. eexists. split; [reflexivity|].
    assert (Q4 : qinv g0 g4 cs (t_id c :: q)) by (eapply qinv_geq; [exact ND | apply (ge_roots _ _ GE4) | exact Q]).
    exists (cs ++ [t_id c]). simpl. split; [|split].
    - pose proof (inv_clear g0 g4 _ _ _ _ G0 I4 c (ex_ng c false g4) Hf4 Hno
                            (mkSame _ _ eq_refl eq_refl eq_refl eq_refl)) as IC.
      assert (Ek : absid (ex_rem c false g4) (t_id c) = path0 g0 (t_id c)).
      { pose proof (iv_extp _ _ _ _ _ _ IC) as FE. apply Forall2_app_inv_l in FE as [l1 [l2 [_ [F2 El]]]].
        inversion F2 as [|? pe ? l3 [A _] F3]; subst. inversion F3; subst.
        apply app_inj_tail in El as [_ El]. subst pe. exact A. }
      rewrite Ek in IC. exact IC.
    - eapply qinv_clear; eassumption.
    - apply near_f_clear. eapply near_f_geq; eassumption.
  Qed.

  Lemma step_cell_inv sv s c q cs s' more :
    inv g0 (s_g s) (s_ext s) (s_x s) (s_nears s) cs -> qinv g0 (s_g s) cs (t_id c :: q) -> near_f (s_g s) ->
    find_f (t_id c) (g_roots (s_g s)) = Some c -> find_f (t_id c) (g_roots g0) = Some c ->
    (forall d, In d cs -> ~ In d (tids c)) -> In c (g_roots (s_g s)) ->
    step_cell rec sv c s = Ok (s', more) -> linv g0 s' (q ++ more).
  Proof.
    intros I Q NF Hf Hf0 Hno Hin E.
    destruct (step_cell_ex sv s c q cs I Q NF Hf Hf0 Hno Hin) as [_ HX].
    destruct (rec default_info (ex_ng c true (s_g s))) as [[ng' tr]| | |] eqn:R;
      try (unfold step_cell in E; rewrite R in E; discriminate).
    destruct (HX ng' tr eq_refl) as [s2 [E2 L2]].
    rewrite E2 in E. inversion E; subst. rewrite app_nil_r. exact L2.
  Qed.
End StepLemmas.
