(* C18 -- lemmas about forests of object records: identities, find / update / remove, AbsID paths *)
From Coq Require Import List NArith Bool Arith Lia Permutation.
Import ListNotations.
Require Import V.C18.Nested V.C18.Spec V.C18.Dec.

(* ---------- generic list facts ---------- *)
Lemma NoDup_app_l {A} (l1 l2 : list A) : NoDup (l1 ++ l2) -> NoDup l1.
Proof. induction l1; simpl; intro H; [constructor|]. inversion H; subst. constructor; [rewrite in_app_iff in *; tauto | auto]. Qed.
Lemma NoDup_app_r {A} (l1 l2 : list A) : NoDup (l1 ++ l2) -> NoDup l2.
Proof. induction l1; simpl; intro H; [exact H|]. inversion H; auto. Qed.
Lemma NoDup_app_disj {A} (l1 l2 : list A) x : NoDup (l1 ++ l2) -> In x l1 -> In x l2 -> False.
Proof.
  induction l1; simpl; intros H H1 H2; [contradiction|]. inversion H; subst.
  destruct H1 as [E|H1]; [subst; apply H4; apply in_app_iff; tauto | eauto].
Qed.
Lemma NoDup_app_intro {A} (l1 l2 : list A) :
  NoDup l1 -> NoDup l2 -> (forall x, In x l1 -> In x l2 -> False) -> NoDup (l1 ++ l2).
Proof.
  induction l1; simpl; intros H1 H2 D; [exact H2|]. inversion H1; subst. constructor.
  - rewrite in_app_iff. intros [H|H]; [contradiction | eapply D; [left; reflexivity | exact H]].
  - apply IHl1; auto. intros x Hx. apply D. right; exact Hx.
Qed.

Lemma filter_partition_perm {A} (p : A -> bool) l : Permutation (filter p l ++ filter (fun x => negb (p x)) l) l.
Proof.
  induction l as [|x t IH]; simpl; [constructor|]. destruct (p x); simpl.
  - constructor. exact IH.
  - rewrite <- Permutation_middle. constructor. exact IH.
Qed.

Lemma filter_true {A} (l : list A) : filter (fun _ => true) l = l.
Proof. induction l; simpl; congruence. Qed.

Lemma Forall2_perm {A B} (P : A -> B -> Prop) l l2 :
  Permutation l l2 -> forall r, Forall2 P l r -> exists r2, Permutation r r2 /\ Forall2 P l2 r2.
Proof.
  induction 1 as [|x l l' H IH|x y l|l l' l'' H1 IH1 H2 IH2]; intros r F.
  - inversion F; subst. exists []. split; constructor.
  - inversion F as [|? b ? rb Hx Hr]; subst. destruct (IH _ Hr) as [r2 [P2 F2]].
    exists (b :: r2). split; constructor; assumption.
  - inversion F as [|? b ? rb Hx Hr]; subst. inversion Hr as [|? c ? rc Hy Hr']; subst.
    exists (c :: b :: rc). split; [apply perm_swap | repeat constructor; assumption].
  - destruct (IH1 _ F) as [r2 [P2 F2]]. destruct (IH2 _ F2) as [r3 [P3 F3]].
    exists r3. split; [etransitivity; eassumption | exact F3].
Qed.

Lemma first_some_app {A B} (f : A -> option B) l1 l2 :
  first_some f (l1 ++ l2) = match first_some f l1 with Some y => Some y | None => first_some f l2 end.
Proof. induction l1 as [|x t IH]; simpl; [reflexivity|]. destruct (f x); [reflexivity | exact IH]. Qed.

Lemma first_some_none {A B} (f : A -> option B) l : (forall x, In x l -> f x = None) -> first_some f l = None.
Proof. induction l as [|x t IH]; simpl; intro H; [reflexivity|]. rewrite (H x) by (left; reflexivity). apply IH. intros; apply H; right; assumption. Qed.

Lemma first_some_in {A B} (f : A -> option B) l b : first_some f l = Some b -> exists x, In x l /\ f x = Some b.
Proof.
  induction l as [|x t IH]; simpl; intro H; [discriminate|]. destruct (f x) eqn:E.
  - inversion H; subst. exists x. split; [left; reflexivity | exact E].
  - destruct (IH H) as [y [Hy Ey]]. exists y. split; [right; exact Hy | exact Ey].
Qed.

(* the selected element is unique: first_some does not depend on the order *)
Lemma first_some_perm {A B} (f : A -> option B) (S : A -> list N) (i : N) :
  (forall x b, f x = Some b -> In i (S x)) ->
  forall l l', Permutation l l' -> NoDup (flat_map S l) -> first_some f l = first_some f l'.
Proof.
  intros HS. induction 1 as [|x l l' H IH|x y l|l l' l'' H1 IH1 H2 IH2]; intro ND; simpl in *.
  - reflexivity.
  - destruct (f x); [reflexivity|]. apply IH. eapply NoDup_app_r; exact ND.
  - destruct (f x) eqn:Ex, (f y) eqn:Ey; try reflexivity.
    exfalso. apply HS in Ex. apply HS in Ey.
    rewrite app_assoc in ND. apply NoDup_app_l in ND. eapply NoDup_app_disj; eassumption.
  - rewrite IH1 by exact ND. apply IH2.
    eapply Permutation_NoDup; [|exact ND]. apply Permutation_flat_map. exact H1.
Qed.

(* ---------- identities ---------- *)
Lemma tids_self t : In (t_id t) (tids t).
Proof. destruct t; simpl; left; reflexivity. Qed.

Lemma in_fids i F : In i (fids F) <-> exists t, In t F /\ In i (tids t).
Proof. unfold fids. rewrite in_flat_map. tauto. Qed.

Lemma fids_app F1 F2 : fids (F1 ++ F2) = fids F1 ++ fids F2.
Proof. unfold fids. apply flat_map_app. Qed.

Lemma fids_cons t F : fids (t :: F) = tids t ++ fids F.
Proof. reflexivity. Qed.

Lemma tids_T i n k ks : tids (T i n k ks) = i :: fids ks.
Proof. reflexivity. Qed.

Lemma fids_perm F F' : Permutation F F' -> Permutation (fids F) (fids F').
Proof. apply Permutation_flat_map. Qed.

Lemma NoDup_fids_in F t : NoDup (fids F) -> In t F -> NoDup (tids t).
Proof.
  intros ND Hin. apply in_split in Hin as [F1 [F2 E]]. subst. rewrite fids_app, fids_cons in ND.
  apply NoDup_app_r in ND. apply NoDup_app_l in ND. exact ND.
Qed.

(* two different trees of a forest with unique ids share no id *)
Lemma NoDup_fids_disj F1 t F2 i : NoDup (fids (F1 ++ t :: F2)) -> In i (tids t) -> ~ In i (fids (F1 ++ F2)).
Proof.
  rewrite !fids_app, fids_cons. intros ND Hi Hin. apply in_app_iff in Hin as [H|H].
  - eapply (NoDup_app_disj (fids F1)); [exact ND | exact H | apply in_app_iff; left; exact Hi].
  - apply NoDup_app_r in ND. eapply (NoDup_app_disj (tids t)); eassumption.
Qed.

(* ---------- find ---------- *)
Lemma find_t_none i : forall t, ~ In i (tids t) -> find_t i t = None.
Proof.
  induction t as [j n k ks IH] using tree_ind'. rewrite tids_T. simpl. intro H.
  destruct (N.eqb i j) eqn:E; [apply N.eqb_eq in E; subst; tauto|].
  apply first_some_none. intros x Hx. rewrite Forall_forall in IH. apply IH; [exact Hx|].
  intro Hi. apply H. right. apply in_fids. eauto.
Qed.

Lemma find_t_some i : forall t c, find_t i t = Some c -> t_id c = i /\ incl (tids c) (tids t).
Proof.
  induction t as [j n k ks IH] using tree_ind'. intros c. simpl.
  destruct (N.eqb i j) eqn:E.
  - apply N.eqb_eq in E. subst. intro H. inversion H; subst. split; [reflexivity | apply incl_refl].
  - intro H. apply first_some_in in H as [x [Hx Ex]]. rewrite Forall_forall in IH.
    destruct (IH x Hx c Ex) as [E1 E2]. split; [exact E1|].
    intros a Ha. right. apply in_fids. exists x. split; [exact Hx | apply E2; exact Ha].
Qed.

Lemma first_some_none_inv {A B} (f : A -> option B) l : first_some f l = None -> forall x, In x l -> f x = None.
Proof.
  induction l as [|y r IH]; simpl; intros H x Hx; [contradiction|].
  destruct (f y) eqn:E; [discriminate|]. destruct Hx as [Hx|Hx]; [subst; exact E | apply IH; assumption].
Qed.

Lemma find_t_none_inv i : forall t, find_t i t = None -> ~ In i (tids t).
Proof.
  induction t as [j n k ks IH] using tree_ind'. rewrite tids_T. simpl.
  destruct (N.eqb i j) eqn:E; [discriminate|]. intros F [H|H].
  - subst. rewrite N.eqb_refl in E. discriminate.
  - apply in_fids in H as [x [Hx Hi]]. rewrite Forall_forall in IH. apply (IH x Hx); [|exact Hi].
    eapply first_some_none_inv; eassumption.
Qed.

Lemma find_t_in i : forall t, In i (tids t) -> exists c, find_t i t = Some c.
Proof.
  intros t H. destruct (find_t i t) eqn:E; [eauto|]. exfalso. eapply find_t_none_inv; eassumption.
Qed.

Lemma find_f_none i F : ~ In i (fids F) -> find_f i F = None.
Proof. intro H. apply first_some_none. intros x Hx. apply find_t_none. intro Hi. apply H, in_fids; eauto. Qed.

Lemma find_f_some i F c : find_f i F = Some c -> t_id c = i /\ incl (tids c) (fids F).
Proof.
  intro H. apply first_some_in in H as [x [Hx Ex]]. apply find_t_some in Ex as [E1 E2].
  split; [exact E1|]. intros a Ha. apply in_fids. exists x. split; [exact Hx | apply E2; exact Ha].
Qed.

Lemma find_f_in i F : In i (fids F) -> exists c, find_f i F = Some c.
Proof.
  intro H. destruct (find_f i F) eqn:E; [eauto|]. exfalso.
  apply in_fids in H as [t [Ht Hi]]. induction F as [|x r IH]; [contradiction|].
  unfold find_f in E. simpl in E. destruct (find_t i x) eqn:Ex; [discriminate|].
  destruct Ht as [Ht|Ht]; [subst; destruct (find_t_in i t Hi); congruence | apply IH; assumption].
Qed.

Lemma find_f_root F t : NoDup (fids F) -> In t F -> find_f (t_id t) F = Some t.
Proof.
  intros ND Hin. apply in_split in Hin as [F1 [F2 E]]. subst. unfold find_f. rewrite first_some_app.
  rewrite first_some_none.
  - simpl. destruct t; simpl. rewrite N.eqb_refl. reflexivity.
  - intros x Hx. apply find_t_none. intro Hi.
    apply (NoDup_fids_disj F1 t F2 (t_id t) ND (tids_self t)). rewrite fids_app. apply in_app_iff. left. apply in_fids. eauto.
Qed.

Lemma find_f_perm i F F' : NoDup (fids F) -> Permutation F F' -> find_f i F = find_f i F'.
Proof.
  intros ND P. unfold find_f. apply (first_some_perm (find_t i) tids i); [|exact P|exact ND].
  intros x b H. apply find_t_some in H as [E1 E2]. subst. apply E2. apply tids_self.
Qed.

(* a kid of a found node is found as well *)
Lemma find_t_kid i : forall t c, NoDup (tids t) -> find_t i t = Some c ->
  forall d, In d (t_kids c) -> find_t (t_id d) t = Some d.
Proof.
  induction t as [j n k ks IH] using tree_ind'. intros c ND. simpl.
  destruct (N.eqb i j) eqn:E.
  - intro H. inversion H; subst. simpl. intros d Hd.
    rewrite tids_T in ND. inversion ND as [|? ? Hj ND']; subst.
    destruct (N.eqb (t_id d) j) eqn:E2.
    + apply N.eqb_eq in E2. exfalso. apply Hj. rewrite <- E2. apply in_fids. exists d. split; [exact Hd | apply tids_self].
    + apply (find_f_root ks d ND' Hd).
  - intros H d Hd. apply first_some_in in H as [x [Hx Ex]]. rewrite Forall_forall in IH.
    rewrite tids_T in ND. inversion ND as [|? ? Hj ND']; subst.
    assert (Hdx : In (t_id d) (tids x)).
    { apply find_t_some in Ex as [_ Inc]. apply Inc. destruct c as [ci cn ck cks]. rewrite tids_T. right.
      apply in_fids. exists d. split; [exact Hd | apply tids_self]. }
    destruct (N.eqb (t_id d) j) eqn:E2.
    + apply N.eqb_eq in E2. exfalso. apply Hj. rewrite <- E2. apply in_fids. eauto.
    + apply in_split in Hx as [k1 [k2 Ek]]. subst ks. rewrite first_some_app.
      rewrite first_some_none.
      * simpl. rewrite (IH x (in_elt _ _ _) c
                          (NoDup_fids_in _ _ ND' (in_elt _ _ _)) Ex d Hd).
        reflexivity.
      * intros y Hy. apply find_t_none. intro Hi.
        apply (NoDup_fids_disj k1 x k2 (t_id d) ND' Hdx). rewrite fids_app. apply in_app_iff. left. apply in_fids. eauto.
Qed.

Lemma find_f_kid i F c : NoDup (fids F) -> find_f i F = Some c ->
  forall d, In d (t_kids c) -> find_f (t_id d) F = Some d.
Proof.
  intros ND H d Hd. apply first_some_in in H as [x [Hx Ex]].
  assert (Hdx : In (t_id d) (tids x)).
  { apply find_t_some in Ex as [_ Inc]. apply Inc. destruct c as [ci cn ck cks]. rewrite tids_T. right.
    apply in_fids. exists d. split; [exact Hd | apply tids_self]. }
  apply in_split in Hx as [F1 [F2 E]]. subst F. unfold find_f. rewrite first_some_app, first_some_none.
  - simpl. rewrite (find_t_kid i x c (NoDup_fids_in _ _ ND (in_elt _ _ _)) Ex d Hd). reflexivity.
  - intros y Hy. apply find_t_none. intro Hi.
    apply (NoDup_fids_disj F1 x F2 (t_id d) ND Hdx). rewrite fids_app. apply in_app_iff. left. apply in_fids. eauto.
Qed.

(* ---------- update / remove ---------- *)
Lemma upd_t_notin i f : forall t, ~ In i (tids t) -> upd_t i f t = t.
Proof.
  induction t as [j n k ks IH] using tree_ind'. rewrite tids_T. simpl. intro H.
  destruct (N.eqb i j) eqn:E; [apply N.eqb_eq in E; subst; tauto|]. f_equal.
  rewrite <- (map_id ks) at 2. apply map_ext_in. intros x Hx. rewrite Forall_forall in IH. apply IH; [exact Hx|].
  intro Hi. apply H. right. apply in_fids. eauto.
Qed.

Lemma upd_f_notin i f F : ~ In i (fids F) -> upd_f i f F = F.
Proof.
  intro H. unfold upd_f. rewrite <- (map_id F) at 2. apply map_ext_in. intros x Hx. apply upd_t_notin.
  intro Hi. apply H, in_fids; eauto.
Qed.

Lemma upd_f_split i f F1 t F2 : NoDup (fids (F1 ++ t :: F2)) -> In i (tids t) ->
  upd_f i f (F1 ++ t :: F2) = F1 ++ upd_t i f t :: F2.
Proof.
  intros ND Hi. unfold upd_f. rewrite map_app. simpl.
  pose proof (NoDup_fids_disj F1 t F2 i ND Hi) as D. rewrite fids_app, in_app_iff in D.
  fold (upd_f i f F1). fold (upd_f i f F2). rewrite !upd_f_notin by tauto. reflexivity.
Qed.

Lemma rem_t_notin i : forall t, ~ In i (tids t) -> rem_t i t = t.
Proof.
  induction t as [j n k ks IH] using tree_ind'. rewrite tids_T. simpl. intro H. f_equal.
  assert (Hk : forall x, In x ks -> ~ In i (tids x)).
  { intros x Hx Hi. apply H. right. apply in_fids. eauto. }
  clear H. induction ks as [|x r IHr]; [reflexivity|]. simpl.
  inversion IH as [|? ? Hx Hr]; subst.
  destruct (N.eqb (t_id x) i) eqn:E.
  - apply N.eqb_eq in E. exfalso. apply (Hk x (or_introl eq_refl)). rewrite <- E. apply tids_self.
  - simpl. rewrite Hx by (apply Hk; left; reflexivity). f_equal. apply IHr; [exact Hr|]. intros; apply Hk; right; assumption.
Qed.

Lemma rem_f_notin i F : ~ In i (fids F) -> rem_f i F = F.
Proof.
  induction F as [|x r IH]; [reflexivity|]. rewrite fids_cons, in_app_iff. intro H. unfold rem_f. simpl.
  destruct (N.eqb (t_id x) i) eqn:E.
  - apply N.eqb_eq in E. exfalso. apply H. left. rewrite <- E. apply tids_self.
  - simpl. rewrite rem_t_notin by tauto. f_equal. apply IH. tauto.
Qed.

Lemma rem_f_app i F1 F2 : rem_f i (F1 ++ F2) = rem_f i F1 ++ rem_f i F2.
Proof. unfold rem_f. apply flat_map_app. Qed.

(* RemoveChild of a child of the root *)
Lemma rem_f_root F1 t F2 : NoDup (fids (F1 ++ t :: F2)) -> rem_f (t_id t) (F1 ++ t :: F2) = F1 ++ F2.
Proof.
  intro ND. pose proof (NoDup_fids_disj F1 t F2 (t_id t) ND (tids_self t)) as D.
  rewrite fids_app, in_app_iff in D.
  rewrite rem_f_app. rewrite (rem_f_notin _ F1) by tauto.
  change (t :: F2) with ([t] ++ F2). rewrite rem_f_app. rewrite (rem_f_notin _ F2) by tauto.
  unfold rem_f at 1. simpl. rewrite N.eqb_refl. reflexivity.
Qed.

(* ---------- clearing the kids of one node ---------- *)
Lemma in_tids_clear c : forall t ct, NoDup (tids t) -> find_t c t = Some ct ->
  forall x, In x (tids (upd_t c clear_kids t)) <-> (In x (tids t) /\ ~ In x (fids (t_kids ct))).
Proof.
  induction t as [j n k ks IH] using tree_ind'. intros ct ND. simpl.
  rewrite tids_T in ND. inversion ND as [|? ? Hj ND']; subst.
  destruct (N.eqb c j) eqn:E.
  - intro H. inversion H; subst. simpl. intro x. split.
    + intros [Hx|[]]. subst. split; [left; reflexivity | exact Hj].
    + intros [[Hx|Hx] Hn]; [left; exact Hx | contradiction].
  - intro H. apply first_some_in in H as [y [Hy Ey]].
    apply in_split in Hy as [k1 [k2 Ek]]. subst ks. intro x. rewrite !tids_T.
    assert (Hcy : In c (tids y)).
    { apply find_t_some in Ey as [E1 E2]. subst. apply E2, tids_self. }
    fold (upd_f c clear_kids (k1 ++ y :: k2)). rewrite (upd_f_split c clear_kids k1 y k2 ND' Hcy).
    rewrite !fids_app, !fids_cons. simpl. rewrite !in_app_iff.
    rewrite Forall_forall in IH.
    pose proof (IH y (in_elt _ _ _) ct
                   (NoDup_fids_in _ _ ND' (in_elt _ _ _)) Ey x) as IHy.
    assert (Inc : incl (fids (t_kids ct)) (tids y)).
    { apply find_t_some in Ey as [_ E2]. intros a Ha. apply E2. destruct ct. rewrite tids_T. right. exact Ha. }
    assert (D : forall a, In a (tids y) -> ~ In a (fids k1) /\ ~ In a (fids k2) /\ a <> j).
    { intros a Ha. pose proof (NoDup_fids_disj k1 y k2 a ND' Ha) as D. rewrite fids_app, in_app_iff in D.
      repeat split; try tauto. intro; subst. apply Hj. rewrite fids_app, fids_cons, !in_app_iff. tauto. }
    rewrite IHy. split.
    + intros [Hx|[Hx|[[Hx Hn]|Hx]]]; (split; [tauto|]); intro Hk; pose proof (D _ (Inc _ Hk)) as Dk; try tauto; subst; tauto.
    + tauto.
Qed.

Lemma in_fids_clear c F ct : NoDup (fids F) -> find_f c F = Some ct ->
  forall x, In x (fids (upd_f c clear_kids F)) <-> (In x (fids F) /\ ~ In x (fids (t_kids ct))).
Proof.
  intros ND H x. apply first_some_in in H as [y [Hy Ey]].
  apply in_split in Hy as [F1 [F2 E]]. subst F.
  assert (Hcy : In c (tids y)) by (apply find_t_some in Ey as [E1 E2]; subst; apply E2, tids_self).
  rewrite (upd_f_split c clear_kids F1 y F2 ND Hcy). rewrite !fids_app, !fids_cons, !in_app_iff.
  pose proof (in_tids_clear c y ct (NoDup_fids_in _ _ ND (in_elt _ _ _)) Ey x) as IHy.
  assert (Inc : incl (fids (t_kids ct)) (tids y)).
  { apply find_t_some in Ey as [_ E2]. intros a Ha. apply E2. destruct ct. rewrite tids_T. right. exact Ha. }
  assert (D : forall a, In a (tids y) -> ~ In a (fids F1) /\ ~ In a (fids F2)).
  { intros a Ha. pose proof (NoDup_fids_disj F1 y F2 a ND Ha) as D. rewrite fids_app, in_app_iff in D. tauto. }
  rewrite IHy. split.
  - intros [Hx|[[Hx Hn]|Hx]]; (split; [tauto|]); intro Hk; pose proof (D _ (Inc _ Hk)) as Dk; tauto.
  - tauto.
Qed.

Lemma fids_map_incl (f : tree -> tree) ks :
  Forall (fun t => incl (tids (f t)) (tids t)) ks -> incl (fids (map f ks)) (fids ks).
Proof.
  induction 1 as [|y r Hy Hr IH]; [apply incl_refl|]. cbn [map]. rewrite !fids_cons. apply incl_app_app; assumption.
Qed.

Lemma NoDup_fids_map (f : tree -> tree) ks :
  Forall (fun t => incl (tids (f t)) (tids t)) ks ->
  Forall (fun t => NoDup (tids t) -> NoDup (tids (f t))) ks ->
  NoDup (fids ks) -> NoDup (fids (map f ks)).
Proof.
  induction ks as [|y r IH]; intros H1 H2 ND; [constructor|].
  inversion H1; subst. inversion H2; subst. cbn [map]. rewrite fids_cons in *.
  apply NoDup_app_intro.
  - apply H5. eapply NoDup_app_l; exact ND.
  - apply IH; try assumption. eapply NoDup_app_r; exact ND.
  - intros a Ha Hb. eapply NoDup_app_disj; [exact ND | apply H3; exact Ha | apply (fids_map_incl f r H4); exact Hb].
Qed.

Lemma tids_clear_incl c : forall t, incl (tids (upd_t c clear_kids t)) (tids t).
Proof.
  induction t as [j n k ks IH] using tree_ind'. simpl. destruct (N.eqb c j).
  - simpl. intros a [Ha|[]]. left; exact Ha.
  - rewrite !tids_T. intros a [Ha|Ha]; [left; exact Ha | right; apply (fids_map_incl _ ks IH); exact Ha].
Qed.

Lemma NoDup_tids_clear c : forall t, NoDup (tids t) -> NoDup (tids (upd_t c clear_kids t)).
Proof.
  induction t as [j n k ks IH] using tree_ind'. intro ND. simpl.
  destruct (N.eqb c j) eqn:E; [simpl; constructor; [tauto|constructor]|].
  rewrite tids_T in *. inversion ND as [|? ? Hj ND']; subst.
  assert (HI : Forall (fun t => incl (tids (upd_t c clear_kids t)) (tids t)) ks).
  { apply Forall_forall. intros; apply tids_clear_incl. }
  constructor.
  - intro H. apply Hj. apply (fids_map_incl _ ks HI). exact H.
  - apply NoDup_fids_map; assumption.
Qed.

Lemma NoDup_fids_clear c F : NoDup (fids F) -> NoDup (fids (upd_f c clear_kids F)).
Proof.
  intro ND. unfold upd_f. apply NoDup_fids_map; [| |exact ND]; apply Forall_forall; intros.
  - apply tids_clear_incl.
  - apply NoDup_tids_clear; assumption.
Qed.
