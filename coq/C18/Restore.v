(* C18 -- the hereditary well-formedness predicate [good], the Prop reading of the engine hypothesis, and the
   theorem about restoreOrder: sorting any permutation by saved index gives back the saved order. *)
From Coq Require Import List NArith Bool Arith Lia Permutation.
Import ListNotations.
Require Import V.Lib.RunCases V.C18.Nested V.C18.Spec V.C18.Dec V.C18.SortLemmas V.C18.Forest V.C18.Paths.

Definition etriple (e : edge) : N * N * N := (e_src e, e_dst e, e_tag e).

Record good (g : graph) : Prop := mkGood {
  gd_nd : NoDup (fids (g_roots g));
  gd_objs : Permutation (g_objs g) (fids (g_roots g));
  gd_sibs : sibs_ok (g_roots g);
  gd_ends : forall e, In e (nonlife (g_edges g)) -> In (e_src e) (g_objs g) /\ In (e_dst e) (g_objs g);
  gd_trip : NoDup (map etriple (nonlife (g_edges g)));
  gd_near : forallb root_near_ok (g_roots g) = true }.

Record same (g' g : graph) : Prop := mkSame {
  sm_level : g_level g' = g_level g;
  sm_roots : g_roots g' = g_roots g;
  sm_objs : g_objs g' = g_objs g;
  sm_edges : nonlife (g_edges g') = nonlife (g_edges g) }.

Lemma good_same g g' : same g' g -> good g -> good g'.
Proof.
  intros [_ Hr Ho He] [H1 H2 H3 H4 H5 H6]. constructor; rewrite ?Hr, ?Ho, ?He; assumption.
Qed.

Lemma same_structure g g' : same g' g -> structure g' = structure g.
Proof.
  intros [_ Hr Ho He]. unfold structure, parent_of, kids_of. rewrite Hr, Ho, He. reflexivity.
Qed.

Lemma good_NoDup_objs g : good g -> NoDup (g_objs g).
Proof. intros G. eapply Permutation_NoDup; [symmetry; apply (gd_objs g G) | apply (gd_nd g G)]. Qed.

Lemma good_obj_in g i : good g -> In i (g_objs g) <-> In i (fids (g_roots g)).
Proof.
  intro G. split; intro H; eapply Permutation_in; try exact H; [apply (gd_objs g G) | symmetry; apply (gd_objs g G)].
Qed.

(* ---------- the engine hypothesis as permutations ---------- *)
Record geq (g g' : graph) : Prop := mkGeq {
  ge_level : g_level g = g_level g';
  ge_roots : Permutation (g_roots g) (g_roots g');
  ge_objs : Permutation (g_objs g) (g_objs g');
  ge_edges : Permutation (nonlife (g_edges g)) (nonlife (g_edges g')) }.

Lemma geq_b_geq g g' : geq_b g g' = true <-> geq g g'.
Proof.
  unfold geq_b. rewrite !andb_true_iff, Nat.eqb_eq.
  rewrite (perm_b_Permutation tree_eqb tree_eqb_eq), (perm_b_Permutation N.eqb N.eqb_eq),
          (perm_b_Permutation edge_eqb edge_eqb_eq).
  split; [intros [[[? ?] ?] ?]; constructor; assumption | intros [? ? ? ?]; auto].
Qed.

Lemma geq_refl g : geq g g.
Proof. constructor; reflexivity. Qed.

Lemma geq_trans a b c : geq a b -> geq b c -> geq a c.
Proof. intros [? ? ? ?] [? ? ? ?]. constructor; etransitivity; eassumption. Qed.

(* ---------- injectivity facts from [good] ---------- *)
Lemma NoDup_map_inj_in {A B} (f : A -> B) l :
  NoDup l -> (forall x y, In x l -> In y l -> f x = f y -> x = y) -> NoDup (map f l).
Proof.
  induction l as [|a r IH]; simpl; intros ND H; [constructor|]. inversion ND as [|? ? Ha NDr]; subst. constructor.
  - intro Hin. apply in_map_iff in Hin as [y [Ey Hy]]. apply Ha.
    rewrite (H a y); [exact Hy | left; reflexivity | right; exact Hy | symmetry; exact Ey].
  - apply IH; [exact NDr|]. intros; apply H; try (right; assumption); assumption.
Qed.

Lemma good_absid_inj g : good g -> forall i j, In i (g_objs g) -> In j (g_objs g) -> absid g i = absid g j -> i = j.
Proof.
  intros G i j Hi Hj. apply (inj_of_sibs _ (gd_nd g G) (gd_sibs g G)); apply (good_obj_in g _ G); assumption.
Qed.

Lemma good_absids g : good g -> NoDup (map (absid g) (g_objs g)).
Proof. intro G. apply NoDup_map_inj_in; [apply good_NoDup_objs; exact G | apply good_absid_inj; exact G]. Qed.

Lemma nolater_intro {A K} (f : A -> K) (p : A -> bool) l :
  (forall l1 a l2, l = l1 ++ a :: l2 -> p a = true -> ~ In (f a) (map f l2)) -> nolater f p l.
Proof.
  induction l as [|x t IH]; simpl; intro H; [exact I|]. split.
  - intro Px. apply (H [] x t eq_refl Px).
  - apply IH. intros l1 a l2 E. apply (H (x :: l1) a l2). rewrite E. reflexivity.
Qed.

Lemma nonlife_app l1 l2 : nonlife (l1 ++ l2) = nonlife l1 ++ nonlife l2.
Proof. apply filter_app. Qed.

Lemma good_edge_nolater g : good g -> nolater (ekey_of g) (fun e => negb (e_life e)) (g_edges g).
Proof.
  intro G. apply nolater_intro. intros l1 a l2 E Pa Hin.
  apply in_map_iff in Hin as [b [Eb Hb]].
  assert (Ha : In a (nonlife (g_edges g))).
  { rewrite E. apply filter_In. split; [apply in_elt | exact Pa]. }
  destruct (gd_ends g G a Ha) as [Has Had].
  apply negb_true_iff in Pa. unfold ekey_of in Eb. rewrite Pa in Eb.
  destruct (e_life b) eqn:Lb.
  - (* a lifeline has no destination path *)
    inversion Eb as [[E1 E2 E3]]. apply (good_obj_in g _ G) in Had. destruct (path_f_in _ _ Had) as [p Ep].
    unfold absid in E2. rewrite Ep in E2. discriminate.
  - inversion Eb as [[E1 E2 E3]].
    assert (Hb' : In b (nonlife (g_edges g))).
    { rewrite E. apply filter_In. split; [apply in_or_app; right; right; exact Hb | rewrite Lb; reflexivity]. }
    destruct (gd_ends g G b Hb') as [Hbs Hbd].
    assert (etriple b = etriple a).
    { unfold etriple. rewrite (good_absid_inj g G _ _ Hbs Has E1), (good_absid_inj g G _ _ Hbd Had E2), E3. reflexivity. }
    pose proof (gd_trip g G) as ND. rewrite E, nonlife_app in ND. simpl in ND.
    rewrite Pa in ND. simpl in ND. rewrite map_app in ND. apply NoDup_app_r in ND. simpl in ND.
    inversion ND as [|? ? Hn _]; subst. apply Hn. rewrite <- H. apply in_map. apply filter_In. split; [exact Hb | rewrite Lb; reflexivity].
Qed.

(* ---------- restoreOrder ---------- *)
Lemma absid_perm g g' i : NoDup (fids (g_roots g)) -> Permutation (g_roots g) (g_roots g') -> absid g i = absid g' i.
Proof. intros. unfold absid. apply path_f_perm; assumption. Qed.

Theorem restore_same g0 gf :
  good g0 -> g_level gf = g_level g0 -> Permutation (g_roots g0) (g_roots gf) ->
  Permutation (g_objs g0) (g_objs gf) -> Permutation (nonlife (g_edges g0)) (nonlife (g_edges gf)) ->
  same (restore (save_order g0) gf) g0.
Proof.
  intros G HL PR PO PE.
  assert (AB : forall i, absid gf i = absid g0 i).
  { intro i. symmetry. apply absid_perm; [apply (gd_nd g0 G) | exact PR]. }
  constructor; simpl.
  - exact HL.
  - (* Root.ChildrenArray *)
    pose proof (restore_generic okey_eqb okey_eqb_eq (fun t => absid g0 (t_id t)) (fun t => absid gf (t_id t))
                                (fun _ => true) 0 (g_roots g0) (g_roots gf)) as R.
    rewrite !filter_true in R. apply R.
    + apply nolater_NoDup. apply NoDup_map_inj_in.
      * eapply NoDup_map_inv. apply (NoDup_map_ids _ (gd_nd g0 G)).
      * intros x y Hx Hy E. unfold absid in E.
        rewrite (path_f_root _ x (gd_nd g0 G) Hx), (path_f_root _ y (gd_nd g0 G) Hy) in E.
        apply (NoDup_map_in_inj t_name (g_roots g0)); try assumption; [apply (gd_sibs g0 G) | congruence].
    + exact PR.
    + intros a _ _. apply AB.
  - (* g.Objects *)
    pose proof (restore_generic okey_eqb okey_eqb_eq (absid g0) (absid gf) (fun _ => true) 0 (g_objs g0) (g_objs gf)) as R.
    rewrite !filter_true in R. apply R.
    + apply nolater_NoDup. apply good_absids. exact G.
    + exact PO.
    + intros a _ _. apply AB.
  - (* g.Edges *)
    apply (restore_generic ekey_eqb ekey_eqb_eq (ekey_of g0) (ekey_of gf) (fun e => negb (e_life e))
                           (length (map (ekey_of g0) (g_edges g0))) (g_edges g0) (g_edges gf)).
    + apply good_edge_nolater. exact G.
    + exact PE.
    + intros a _ _. unfold ekey_of. rewrite !AB. reflexivity.
Qed.
