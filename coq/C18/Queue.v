(* C18 -- the work queue of LayoutNested: queued objects are untouched, pairwise disjoint subtrees *)
From Coq Require Import List NArith Bool Arith Lia Permutation.
Import ListNotations.
Require Import V.Lib.RunCases V.C18.Nested V.C18.Spec V.C18.Dec V.C18.SortLemmas V.C18.Forest V.C18.Paths
        V.C18.Fill V.C18.Restore V.C18.Pieces V.C18.Inv V.C18.Extract.

Section QueueSteps.
  Variables (g0 g : graph) (ext : list (okey * graph)) (xs : list xedge) (nears : list graph) (cs : list N).
  Hypothesis G0 : good g0.
  Hypothesis I : inv g0 g ext xs nears cs.

  Lemma qinv_head cid q : qinv g0 g cs (cid :: q) ->
    exists c, find_f cid (g_roots g) = Some c /\ find_f cid (g_roots g0) = Some c /\ t_id c = cid
              /\ (forall d, In d cs -> ~ In d (tids c)).
  Proof.
    intros [qts [H1 [H2 H3]]]. inversion H1 as [|? c ? qr [A B] Hr]; subst. exists c. repeat split; try assumption.
    - apply find_f_some in A as [E _]. exact E.
    - intros d Hd Hi. apply (H3 d Hd). rewrite fids_cons. apply in_app_iff. left. exact Hi.
  Qed.

  Lemma qinv_skip cid q : qinv g0 g cs (cid :: q) -> qinv g0 g cs q.
  Proof.
    intros [qts [H1 [H2 H3]]]. inversion H1 as [|? c ? qr AB Hr]; subst. exists qr. split; [exact Hr|]. split.
    - rewrite fids_cons in H2. eapply NoDup_app_r; exact H2.
    - intros d Hd Hi. apply (H3 d Hd). rewrite fids_cons. apply in_app_iff. right. exact Hi.
  Qed.

  (* a plain container: its children are queued *)
  Lemma qinv_push c q : qinv g0 g cs (t_id c :: q) -> find_f (t_id c) (g_roots g) = Some c ->
    qinv g0 g cs (q ++ map t_id (t_kids c)).
  Proof.
    intros [qts [H1 [H2 H3]]] Hf. inversion H1 as [|? c' ? qr [A B] Hr]; subst.
    assert (c' = c) by congruence. subst c'.
    exists (qr ++ t_kids c). split; [|split].
    - apply Forall2_app; [exact Hr|].
      assert (HK : forall d, In d (t_kids c) -> find_f (t_id d) (g_roots g) = Some d /\ find_f (t_id d) (g_roots g0) = Some d).
      { intros d Hd. split.
        - eapply find_f_kid; [apply (inv_nd g0 g ext xs nears cs G0 I) | exact A | exact Hd].
        - eapply find_f_kid; [apply (gd_nd g0 G0) | exact B | exact Hd]. }
      induction (t_kids c) as [|d r IH]; simpl; constructor.
      + apply HK. left; reflexivity.
      + apply IH. intros; apply HK; right; assumption.
    - rewrite fids_cons in H2. rewrite fids_app. apply NoDup_app_intro.
      + eapply NoDup_app_r; exact H2.
      + apply NoDup_app_l in H2. apply (NoDup_kids c H2).
      + intros x Hx Hk. eapply NoDup_app_disj; [exact H2 | | exact Hx]. destruct c. rewrite tids_T. right. exact Hk.
    - intros d Hd Hi. apply (H3 d Hd). rewrite fids_cons. rewrite fids_app in Hi. apply in_app_iff.
      apply in_app_iff in Hi as [Hi|Hi]; [right; exact Hi | left]. destruct c. rewrite tids_T. right. exact Hi.
  Qed.

  Lemma qinv_clear c q : qinv g0 g cs (t_id c :: q) -> find_f (t_id c) (g_roots g) = Some c ->
    qinv g0 (ex_rem c false g) (cs ++ [t_id c]) q.
  Proof.
    intros [qts [H1 [H2 H3]]] Hf. inversion H1 as [|? c' ? qr [A B] Hr]; subst.
    assert (c' = c) by congruence. subst c'. rewrite fids_cons in H2.
    pose proof (inv_nd g0 g ext xs nears cs G0 I) as ND.
    exists qr. split; [|split].
    - assert (Hq : forall q0 tq, In tq qr -> find_f q0 (g_roots g) = Some tq ->
                                 find_f q0 (upd_f (t_id c) clear_kids (g_roots g)) = Some tq).
      { intros q0 tq Htq E.
        assert (Eq : t_id tq = q0) by (apply find_f_some in E as [E1 _]; exact E1).
        assert (D : forall x, In x (tids tq) -> ~ In x (tids c)).
        { intros x Hx Hc. eapply NoDup_app_disj; [exact H2 | exact Hc | apply in_fids; eauto]. }
        rewrite (find_f_clear_comm (t_id c) q0 (g_roots g) c ND Hf).
        - rewrite E. simpl. f_equal. apply upd_t_notin. intro Hc. apply (D _ Hc). apply tids_self.
        - intro Hk. apply (D q0); [rewrite <- Eq; apply tids_self|]. destruct c. rewrite tids_T. right. exact Hk. }
      clear H1 H2 H3. induction Hr as [|q0 tq ql qr' [A0 B0] _ IH]; constructor.
      + split; [simpl; apply Hq; [left; reflexivity | exact A0] | exact B0].
      + apply IH. intros q1 tq1 Ht. apply Hq. right. exact Ht.
    - eapply NoDup_app_r; exact H2.
    - intros d Hd Hi. apply in_app_iff in Hd as [Hd|[Hd|[]]].
      + apply (H3 d Hd). rewrite fids_cons. apply in_app_iff. right. exact Hi.
      + subst d. eapply NoDup_app_disj; [exact H2 | apply tids_self | exact Hi].
  Qed.

  Lemma qinv_remove c q : qinv g0 g cs (t_id c :: q) -> find_f (t_id c) (g_roots g) = Some c -> In c (g_roots g) ->
    qinv g0 (ex_rem c true g) cs q.
  Proof.
    intros [qts [H1 [H2 H3]]] Hf Hin. inversion H1 as [|? c' ? qr [A B] Hr]; subst.
    assert (c' = c) by congruence. subst c'. rewrite fids_cons in H2.
    pose proof (inv_nd g0 g ext xs nears cs G0 I) as ND.
    apply in_split in Hin as [F1 [F2 EF]].
    assert (Erem : g_roots (ex_rem c true g) = F1 ++ F2).
    { simpl. rewrite EF. apply rem_f_root. rewrite <- EF. exact ND. }
    exists qr. split; [|split].
    - rewrite Erem.
      assert (Hq : forall q0 tq, In tq qr -> find_f q0 (g_roots g) = Some tq -> find_f q0 (F1 ++ F2) = Some tq).
      { intros q0 tq Htq E. rewrite <- (find_f_remove_root q0 F1 c F2); [rewrite <- EF; exact E|].
        assert (Eq : t_id tq = q0) by (apply find_f_some in E as [E1 _]; exact E1).
        intro Hc. eapply NoDup_app_disj; [exact H2 | exact Hc | apply in_fids; exists tq; split; [exact Htq | rewrite <- Eq; apply tids_self]]. }
      clear H1 H2 H3. induction Hr as [|q0 tq ql qr' [A0 B0] _ IH]; constructor.
      + split; [apply Hq; [left; reflexivity | exact A0] | exact B0].
      + apply IH. intros q1 tq1 Ht. apply Hq. right. exact Ht.
    - eapply NoDup_app_r; exact H2.
    - intros d Hd Hi. apply (H3 d Hd). rewrite fids_cons. apply in_app_iff. right. exact Hi.
  Qed.
End QueueSteps.
