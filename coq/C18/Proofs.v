(* C18 -- LayoutNested preserves the structure of every graph, at any nesting depth *)
From Coq Require Import List NArith Bool Arith Lia Permutation.
Import ListNotations.
Require Import V.Lib.RunCases V.C18.Nested V.C18.Spec V.C18.Dec V.C18.SortLemmas V.C18.Forest V.C18.Paths
        V.C18.Fill V.C18.Restore V.C18.Pieces V.C18.Inv V.C18.Extract V.C18.Queue V.C18.Steps V.C18.Finish.

Lemma step_inv rec sv inf g0 s cid q s' more :
  good g0 -> spec rec -> linv g0 s (cid :: q) -> step rec sv inf cid s = Ok (s', more) -> linv g0 s' (q ++ more).
Proof.
  intros G0 HR [cs [I [Q NF]]].
  destruct (qinv_head g0 (s_g s) cs cid q Q) as [c [Hf [Hf0 [Eid Hno]]]]. subst cid.
  unfold step. rewrite Hf.
  destruct (is_cell inf (s_g s) c && is_default (nested_info (s_g s) c)) eqn:EC.
  - apply andb_true_iff in EC as [EC _]. unfold is_cell in EC. apply andb_true_iff in EC as [_ EC].
    apply mem_map_id in EC as [t [Ht Et]].
    pose proof (find_f_root _ t (inv_nd g0 (s_g s) _ _ _ _ G0 I) Ht) as Hft. rewrite Et, Hf in Hft. inversion Hft; subst t.
    eapply step_cell_inv; eassumption.
  - destruct (negb (is_default (nested_info (s_g s) c))) eqn:ED.
    + destruct (negb (i_near (nested_info (s_g s) c)) && is_nil (t_kids c)) eqn:ES.
      * intro E. inversion E; subst. rewrite app_nil_r. exists cs. split; [exact I|]. split; [|exact NF].
        eapply qinv_skip; eassumption.
      * destruct (i_near (nested_info (s_g s) c)) eqn:EN.
        -- assert (Hk : is_some (k_near (t_kind c)) = true).
           { unfold nested_info, is_const in EN. simpl in EN. apply andb_true_iff in EN as [_ EN]. apply andb_true_iff in EN as [EN _]. exact EN. }
           eapply step_near_inv; eassumption.
        -- eapply step_clear_inv; eassumption.
    + intro E. inversion E; subst. exists cs. split; [exact I|]. split; [|exact NF].
      eapply qinv_push; eassumption.
Qed.

Lemma loop_inv rec sv inf g0 : good g0 -> spec rec ->
  forall qf queue s s', linv g0 s queue -> loop rec sv inf qf queue s = Ok s' -> linv g0 s' [].
Proof.
  intros G0 HR. induction qf as [|qf IH]; intros queue s s' L; destruct queue as [|cid q]; simpl; intro E;
    try (inversion E; subst; exact L); try discriminate.
  destruct (step rec sv inf cid s) as [[s1 more]| | |] eqn:ES; try discriminate.
  eapply IH; [|exact E]. eapply step_inv; eassumption.
Qed.

Lemma init_queue F1 F2 l :
  (forall t, In t l -> find_f (t_id t) F1 = Some t /\ find_f (t_id t) F2 = Some t) ->
  Forall2 (fun q tq => find_f q F1 = Some tq /\ find_f q F2 = Some tq) (map t_id l) l.
Proof.
  induction l as [|t r IH]; simpl; intro H; constructor.
  - apply H. left; reflexivity.
  - apply IH. intros; apply H; right; assumption.
Qed.

Lemma init_linv g0 : good g0 -> linv g0 (mkSt g0 [] [] [] []) (map t_id (g_roots g0)).
Proof.
  intro G0. exists []. simpl. split; [|split].
  - constructor; simpl.
    + reflexivity.
    + split; [constructor | reflexivity].
    + exists (g_roots g0). split; [apply fillF_refl; intros d [] | rewrite app_nil_r; reflexivity].
    + rewrite app_nil_r. reflexivity.
    + split; [apply (gd_objs g0 G0) | apply (gd_ends g0 G0)].
    + constructor.
    + constructor.
    + rewrite app_nil_r. reflexivity.
    + constructor.
    + constructor.
  - exists (g_roots g0). split; [|split].
    + apply init_queue. intros t Ht. split; apply find_f_root; try exact Ht; apply (gd_nd g0 G0).
    + apply (gd_nd g0 G0).
    + intros c [].
  - apply (gd_near g0 G0).
Qed.

Lemma nonlife_xs g0 xs : Forall (x_ok g0) xs -> nonlife (map x_e xs) = map x_e xs.
Proof.
  induction 1 as [|x r [L _] _ IH]; simpl; [reflexivity|]. rewrite L. simpl. f_equal. exact IH.
Qed.

Section Main.
  Variable engine : dtype -> graph -> option graph.
  Variable router : graph -> list edge -> bool.
  Hypothesis HE : H_core_structure engine.

  Lemma finish_same inf g0 s g' tr :
    good g0 -> linv g0 s [] -> finish engine router (save_order g0) inf s = Ok (g', tr) -> same g' g0.
  Proof.
    intros G0 [cs [I [_ _]]]. unfold finish.
    (* engine *)
    assert (HG1 : forall g1, (if negb (is_nil (g_objs (s_g s))) then engine (i_dt inf) (s_g s) else Some (s_g s)) = Some g1 ->
                             inv g0 g1 (s_ext s) (s_x s) (s_nears s) cs).
    { intros g1 E. destruct (negb (is_nil (g_objs (s_g s)))).
      - apply HE in E. apply geq_b_geq in E. eapply inv_geq; eassumption.
      - inversion E; subst. exact I. }
    destruct (if negb (is_nil (g_objs (s_g s))) then engine (i_dt inf) (s_g s) else Some (s_g s)) as [g1|]; [|discriminate].
    specialize (HG1 g1 eq_refl).
    (* d2near *)
    assert (HG2 : forall g2, (if is_nil (s_nears s) then Some g1 else near_layout g1 (s_nears s)) = Some g2 ->
                             inv g0 g2 (s_ext s) (s_x s) [] cs).
    { intros g2 E. destruct (s_nears s) as [|n0 nr] eqn:EN; simpl in E.
      - inversion E; subst. exact HG1.
      - destruct (near_layout_spec _ _ _ (iv_piece_near _ _ _ _ _ _ HG1) E) as [nears' [P Eg]]. subst g2.
        apply inv_near_all; [exact G0|]. eapply inv_nears_perm; eassumption. }
    destruct (if is_nil (s_nears s) then Some g1 else near_layout g1 (s_nears s)) as [g2|]; [|discriminate].
    specialize (HG2 g2 eq_refl).
    (* InjectNested *)
    destruct (inject_all (idmap g2) (s_ext s) (s_ext s) g2) as [g3|] eqn:EI; [|discriminate].
    pose proof (inject_all_inv g0 _ _ _ _ G0 _ _ _ _ HG2 (inject_facts g0 g2 _ _ _ _ G0 HG2) EI) as I3.
    destruct I3 as [J1 J2 [R [HF HP]] J4 J5 J6 J7 J8 J9 J10].
    apply fillF_nil in HF. subst R. unfold near_roots, ext_objs, near_objs, ext_edges, near_edges in *. simpl in *.
    rewrite app_nil_r in HP, J4.
    destruct (s_x s) as [|x0 xr] eqn:EX; cbn [is_nil].
    - intro E. inversion E; subst. simpl in J8. rewrite app_nil_r in J8.
      apply restore_same; try assumption; symmetry; assumption.
    - (* cross-diagram edges *)
      assert (I3 : inv g0 g3 [] (x0 :: xr) [] []).
      { constructor; unfold near_roots, ext_objs, near_objs, ext_edges, near_edges; simpl; rewrite ?app_nil_r; try assumption.
        exists (g_roots g3). split; [apply fillF_refl; intros d [] | rewrite app_nil_r; exact HP]. }
      assert (Hrl : relink (idmap g2 ++ idmap g3) (x0 :: xr) = Some (map x_e (x0 :: xr))).
      { apply relink_ok. intros x Hx. pose proof J9 as J9'. rewrite Forall_forall in J9'. destruct (J9' x Hx) as [L [E1 E2]].
        assert (He : In (x_e x) (nonlife (g_edges g0))).
        { eapply Permutation_in; [exact J8 | apply in_app_iff; right; apply in_map; exact Hx]. }
        destruct (gd_ends g0 G0 _ He) as [Hs Hd].
        assert (Ho : forall i, In i (g_objs g0) -> In i (g_objs g3)).
        { intros i Hi. eapply Permutation_in; [symmetry; exact J4 | exact Hi]. }
        rewrite E1, E2, !lookup_app.
        rewrite (inv_lookup g0 g3 _ _ _ _ G0 I3 _ (Ho _ Hs)), (inv_lookup g0 g3 _ _ _ _ G0 I3 _ (Ho _ Hd)). auto. }
      rewrite Hrl. destruct (router _ _); [|discriminate]. intro E. inversion E; subst.
      apply restore_same; try assumption; simpl.
      + symmetry. exact HP.
      + symmetry. exact J4.
      + rewrite nonlife_app. change (x_e x0 :: map x_e xr) with (map x_e (x0 :: xr)).
        rewrite (nonlife_xs g0 (x0 :: xr) J9). symmetry. exact J8.
  Qed.

  (* the recursion: for every fuel and every good graph *)
  Theorem layout_nested_spec : forall fuel, spec (layout_nested engine router fuel).
  Proof.
    induction fuel as [|f IH]; intros inf g g' tr G; simpl; [discriminate|].
    destruct (loop _ _ _ _ _ _) as [s| | |] eqn:EL; try discriminate.
    intro E. eapply finish_same; [exact G | | exact E].
    eapply loop_inv; [exact G | exact IH | | exact EL]. apply init_linv. exact G.
  Qed.
End Main.

(* ---------- from the decidable hypotheses to [good] ---------- *)
Lemma forallb_mem_incl l s : forallb (fun i => mem i s) l = true -> incl l s.
Proof. rewrite forallb_forall. intros H x Hx. apply mem_In. auto. Qed.

Lemma good_of_hyps g : wf g -> absids_distinct g -> nears_at_root g -> good g.
Proof.
  unfold wf, wf_b, absids_distinct, nears_at_root. rewrite !andb_true_iff.
  intros [[[[W1 W2] W3] W4] W5] [A1 A2] NR.
  apply (nodup_b_NoDup N.eqb N.eqb_eq) in W1, W2. apply Nat.eqb_eq in W3. apply forallb_mem_incl in W4.
  apply (nodup_b_NoDup okey_eqb okey_eqb_eq) in A1. apply (nodup_b_NoDup ekey_eqb ekey_eqb_eq) in A2.
  assert (P : Permutation (g_objs g) (fids (g_roots g))).
  { apply NoDup_Permutation_bis; [exact W2 | lia | exact W4]. }
  constructor.
  - exact W1.
  - exact P.
  - apply sibs_of_absids; assumption.
  - intros e He. rewrite forallb_forall in W5. specialize (W5 e He). apply andb_true_iff in W5 as [H1 H2].
    split; apply mem_In; assumption.
  - assert (E : map (ekey_of g) (nonlife (g_edges g))
                = map (fun t => (absid g (fst (fst t)), absid g (snd (fst t)), snd t)) (map etriple (nonlife (g_edges g)))).
    { rewrite map_map. apply map_ext_in. intros e He. apply filter_In in He as [_ L]. apply negb_true_iff in L.
      unfold ekey_of, etriple. rewrite L. reflexivity. }
    rewrite E in A2. eapply NoDup_map_inv. exact A2.
  - exact NR.
Qed.

Theorem layout_nested_preserves_structure_lemma engine router :
  H_core_structure engine ->
  forall inf g g' tr, wf g -> absids_distinct g -> nears_at_root g ->
    layout engine router inf g = Ok (g', tr) -> structure g' = structure g.
Proof.
  intros HE inf g g' tr W A NR E. apply same_structure.
  eapply (layout_nested_spec engine router HE); [apply good_of_hyps; assumption | exact E].
Qed.

Lemma pair_eqb_eq {A B} (ea : A -> A -> bool) (eb : B -> B -> bool) :
  (forall x y, ea x y = true <-> x = y) -> (forall x y, eb x y = true <-> x = y) ->
  forall x y : A * B, pair_eqb ea eb x y = true <-> x = y.
Proof.
  intros Ha Hb [x1 x2] [y1 y2]. unfold pair_eqb. simpl. rewrite andb_true_iff, Ha, Hb.
  split; [intros [? ?]; subst; reflexivity | intro H; inversion H; auto].
Qed.

Lemma opt_eqb_eq {A} (e : A -> A -> bool) :
  (forall x y, e x y = true <-> x = y) -> forall x y : option A, opt_eqb e x y = true <-> x = y.
Proof.
  intros He [x|] [y|]; simpl; split; intro H; try reflexivity; try discriminate.
  - apply He in H. congruence.
  - inversion H. apply He. reflexivity.
Qed.

(* the boolean the checker evaluates is the equality of [structure] *)
Lemma structure_eqb_eq a b : structure_eqb a b = true <-> structure a = structure b.
Proof.
  unfold structure_eqb. destruct (structure a) as [[l1 [l2 l3]] l4]. destruct (structure b) as [[m1 [m2 m3]] m4]. simpl.
  rewrite !andb_true_iff.
  rewrite (list_eqb_eq _ (pair_eqb_eq _ _ N.eqb_eq (opt_eqb_eq _ optN_eqb_eq))).
  rewrite (list_eqb_eq _ N.eqb_eq).
  rewrite (list_eqb_eq _ (pair_eqb_eq _ _ N.eqb_eq (opt_eqb_eq _ path_eqb_eq))).
  rewrite (list_eqb_eq _ (pair_eqb_eq _ _ (pair_eqb_eq _ _ N.eqb_eq N.eqb_eq) N.eqb_eq)).
  split; [intros [[[? ?] ?] ?]; subst; reflexivity | intro H; inversion H; auto].
Qed.
